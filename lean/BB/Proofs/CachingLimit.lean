import BB.Model.CachingLimit
/-! Counting invariants of the concurrency-limiting and queued replicator protocols. -/
namespace BB.Caching
set_option linter.unusedSimpArgs false

theorem countP_set_eq {α : Type} (p : α → Bool) (l : List α) (i : Nat) (x a : α) (h : l[i]? = some a) :
    (l.set i x).countP p + (if p a then 1 else 0) = l.countP p + (if p x then 1 else 0) := by
  induction l generalizing i with
  | nil => simp at h
  | cons y ys ih =>
    cases i with
    | zero =>
      simp at h; subst h
      simp only [List.set_cons_zero, List.countP_cons]
      omega
    | succ n =>
      simp at h
      have := ih n h
      simp only [List.set_cons_succ, List.countP_cons]
      omega

theorem countP_le_of_imp {α : Type} (p q : α → Bool) (l : List α) (h : ∀ x, p x = true → q x = true) :
    l.countP p ≤ l.countP q := by
  induction l with
  | nil => simp
  | cons y ys ih =>
    simp only [List.countP_cons]
    by_cases hp : p y = true
    · simp [hp, h y hp]; exact ih
    · have hp' : p y = false := by simpa using hp
      by_cases hq : q y = true
      · simp [hp', hq]; omega
      · have hq' : q y = false := by simpa using hq
        simp [hp', hq']; exact ih

/-! ## concurrency limiting -/

@[simp] theorem holds_waiting : LPc.holds .waiting = false := rfl
@[simp] theorem holds_inBase : LPc.holds .inBase = true := rfl
@[simp] theorem holds_afterBase (r) : LPc.holds (.afterBase r) = true := rfl
@[simp] theorem holds_done (r) : LPc.holds (.done r) = false := rfl

def LInv (s : LState) : Prop :=
  s.held = s.callers.countP (fun c => c.pc.holds) ∧ s.held ≤ s.cap

theorem linv_init (cap : Nat) : LInv { cap := cap } := by simp [LInv]

theorem lstep_inv {s s' : LState} {a : LAct} (hinv : LInv s) (h : lstep s a = some s') : LInv s' := by
  obtain ⟨h1, h2⟩ := hinv
  cases a with
  | call ks cn =>
    simp only [lstep, Option.some.injEq] at h; subst h
    have e : LPc.holds .waiting = false := rfl
    simp only [LInv, List.countP_append, List.countP_cons, List.countP_nil, e]
    exact ⟨by simpa using h1, h2⟩
  | callRead kind k cn =>
    simp only [lstep, Option.some.injEq] at h; subst h
    have e : LPc.holds .waiting = false := rfl
    simp only [LInv, List.countP_append, List.countP_cons, List.countP_nil, e]
    exact ⟨by simpa using h1, h2⟩
  | baseCopied i =>
    simp only [lstep] at h
    split at h
    · rename_i c hc
      split at h
      · rename_i hpc; cases h
        have := countP_set_eq (fun c : LCaller => c.pc.holds) s.callers i { c with pc := .afterBase none } c hc
        rw [hpc] at this; simp only [holds_waiting, holds_inBase, holds_afterBase, holds_done] at this
        simp only [LInv]; constructor
        · simp at this; omega
        · exact h2
      · cases h
    · cases h
  | cancel i =>
    simp only [lstep] at h
    split at h
    · rename_i c hc; cases h
      have := countP_set_eq (fun c : LCaller => c.pc.holds) s.callers i { c with cancelled := true } c hc
      simp only [LInv]; constructor
      · simp only at this; omega
      · exact h2
    · cases h
  | acquire i =>
    simp only [lstep] at h
    split at h
    · rename_i c hc
      split at h
      · rename_i hpc
        split at h
        · rename_i hlt; cases h
          have := countP_set_eq (fun c : LCaller => c.pc.holds) s.callers i { c with pc := .inBase } c hc
          rw [hpc] at this; simp only [holds_waiting, holds_inBase, holds_afterBase, holds_done] at this
          simp only [LInv]; constructor
          · simp at this; omega
          · omega
        · cases h
      · cases h
    · cases h
  | abort i =>
    simp only [lstep] at h
    split at h
    · rename_i c hc
      split at h
      · rename_i hpc
        split at h
        · cases h
          have := countP_set_eq (fun c : LCaller => c.pc.holds) s.callers i { c with pc := .done (some Err.ctx) } c hc
          rw [hpc] at this; simp only [holds_waiting, holds_inBase, holds_afterBase, holds_done] at this
          simp only [LInv]; constructor
          · simp at this; omega
          · exact h2
        · cases h
      · cases h
    · cases h
  | baseEnd i r =>
    simp only [lstep] at h
    split at h
    · rename_i c hc
      split at h
      · rename_i hpc; cases h
        have := countP_set_eq (fun c : LCaller => c.pc.holds) s.callers i { c with pc := .afterBase r } c hc
        rw [hpc] at this; simp only [holds_waiting, holds_inBase, holds_afterBase, holds_done] at this
        simp only [LInv]; constructor
        · simp at this; omega
        · exact h2
      · cases h
    · cases h
  | release i =>
    simp only [lstep] at h
    split at h
    · rename_i c hc
      split at h
      · rename_i r hpc; cases h
        have := countP_set_eq (fun c : LCaller => c.pc.holds) s.callers i { c with pc := .done (c.final s.sink r) } c hc
        rw [hpc] at this; simp only [holds_waiting, holds_inBase, holds_afterBase, holds_done] at this
        simp only [LInv]; constructor
        · simp at this; omega
        · omega
      · cases h
    · cases h

theorem lrun_inv {s s' : LState} {as : List LAct} (hinv : LInv s) (h : lrun s as = some s') : LInv s' := by
  induction as generalizing s with
  | nil => simp only [lrun, Option.some.injEq] at h; subst h; exact hinv
  | cons a as ih =>
    simp only [lrun] at h
    split at h
    · rename_i s1 hs1; exact ih (lstep_inv hinv hs1) h
    · cases h

theorem LInv.inBase_le {s : LState} (h : LInv s) : s.inBase ≤ s.cap := by
  have := countP_le_of_imp (fun c : LCaller => c.pc.isInBase) (fun c => c.pc.holds) s.callers
    (by intro x hx; cases hp : x.pc <;> simp_all [LPc.isInBase, LPc.holds])
  unfold LState.inBase; have := h.1; have := h.2; omega

/-! ## queued -/

@[simp] theorem qholds_queueing : QPc.holds .queueing = false := rfl
@[simp] theorem qholds_inBase (ks) : QPc.holds (.inBase ks) = true := rfl
@[simp] theorem qholds_afterBase (r) : QPc.holds (.afterBase r) = true := rfl
@[simp] theorem qholds_done (r) : QPc.holds (.done r) = false := rfl

/-- The token is either in the channel or with exactly one caller. -/
def QInv (s : QState) : Prop :=
  (if s.token then 1 else 0) + s.callers.countP (fun c => c.pc.holds) = 1

theorem qinv_init (c : ECache) : QInv { cache := c } := by simp [QInv]

theorem qstep_inv {s s' : QState} {a : QAct} (hinv : QInv s) (h : qstep s a = some s') : QInv s' := by
  unfold QInv at hinv
  cases a with
  | call ks cn now =>
    simp only [qstep, Option.some.injEq] at h; subst h
    have e : (if (s.cache.removeExisting now ks).2.isEmpty then QPc.done none else QPc.queueing).holds = false := by
      split <;> rfl
    simp only [QInv, List.countP_append, List.countP_cons, List.countP_nil, e]
    simpa using hinv
  | cancel i =>
    simp only [qstep] at h
    split at h
    · rename_i c hc; cases h
      have := countP_set_eq (fun c : QCaller => c.pc.holds) s.callers i { c with cancelled := true } c hc
      simp only [QInv]; simp only at this; omega
    · cases h
  | take i now =>
    simp only [qstep] at h
    split at h
    · rename_i c hc
      split at h
      · rename_i hpc
        split at h
        · rename_i htok; cases h
          have := countP_set_eq (fun c : QCaller => c.pc.holds) s.callers i
            { c with pc := .inBase (s.cache.removeExisting now c.keys).2 } c hc
          rw [hpc] at this; simp only [qholds_queueing, qholds_inBase, qholds_afterBase, qholds_done] at this
          rw [htok] at hinv
          simp only [if_true, Bool.false_eq_true, if_false] at hinv this
          simp only [QInv, Bool.false_eq_true, if_false]; omega
        · cases h
      · cases h
    · cases h
  | abort i =>
    simp only [qstep] at h
    split at h
    · rename_i c hc
      split at h
      · rename_i hpc
        split at h
        · cases h
          have := countP_set_eq (fun c : QCaller => c.pc.holds) s.callers i { c with pc := .done (some Err.ctx) } c hc
          rw [hpc] at this; simp only [qholds_queueing, qholds_inBase, qholds_afterBase, qholds_done] at this
          simp only [QInv]; simp at this; omega
        · cases h
      · cases h
    · cases h
  | baseEnd i r now =>
    simp only [qstep] at h
    split at h
    · rename_i c hc
      split at h
      · rename_i ks hpc; cases h
        have := countP_set_eq (fun c : QCaller => c.pc.holds) s.callers i { c with pc := .afterBase r } c hc
        rw [hpc] at this; simp only [qholds_queueing, qholds_inBase, qholds_afterBase, qholds_done] at this
        simp only [QInv]; simp at this; omega
      · cases h
    · cases h
  | giveBack i =>
    simp only [qstep] at h
    split at h
    · rename_i c hc
      split at h
      · rename_i r hpc; cases h
        have := countP_set_eq (fun c : QCaller => c.pc.holds) s.callers i { c with pc := .done r } c hc
        rw [hpc] at this; simp only [qholds_queueing, qholds_inBase, qholds_afterBase, qholds_done] at this
        simp only [if_true, Bool.false_eq_true, if_false] at this
        simp only [QInv, if_true]
        by_cases htok : s.token = true
        · rw [htok] at hinv; simp only [if_true] at hinv; omega
        · have : s.token = false := by simpa using htok
          rw [this] at hinv; simp only [Bool.false_eq_true, if_false] at hinv; omega
      · cases h
    · cases h

theorem qrun_inv {s s' : QState} {as : List QAct} (hinv : QInv s) (h : qrun s as = some s') : QInv s' := by
  induction as generalizing s with
  | nil => simp only [qrun, Option.some.injEq] at h; subst h; exact hinv
  | cons a as ih =>
    simp only [qrun] at h
    split at h
    · rename_i s1 hs1; exact ih (qstep_inv hinv hs1) h
    · cases h

theorem QInv.inBase_le {s : QState} (h : QInv s) : s.inBase ≤ 1 := by
  have := countP_le_of_imp (fun c : QCaller => c.pc.isInBase) (fun c => c.pc.holds) s.callers
    (by intro x hx; cases hp : x.pc <;> simp_all [QPc.isInBase, QPc.holds])
  unfold QState.inBase; unfold QInv at h; split at h <;> omega

end BB.Caching
