import BB.Proofs.PersistStepSync
/-!
# Invariant preservation: `syncEnd` (assumption A2 at work) and `syncFail`
-/
namespace BB.Persist

theorem content_syncEnd {d : DataDev} (hp : CovPrefix d.pend) {L : List Nat} {slot s : Nat}
    (hL : L = d.syncEnd.durGet slot s ∨ ∃ x ∈ d.syncEnd.pend, x.slot = slot ∧ x.sec = s ∧ L = x.objs) :
    L = d.durGet slot s ∨ ∃ x ∈ d.pend, x.slot = slot ∧ x.sec = s ∧ L = x.objs := by
  rcases hL with hL | ⟨y, hy, y1, y2, y3⟩
  · obtain ⟨C, U, hcu, hfC, _, _, _⟩ := covPrefix_filter hp
    rw [durGet_syncEnd (U := U) hfC] at hL
    cases hl : lastAt C slot s with
    | none => rw [hl] at hL; exact Or.inl hL
    | some x =>
      rw [hl] at hL
      obtain ⟨A, B, hC, hx, _⟩ := lastAt_some hl
      simp [SecW.at] at hx
      exact Or.inr ⟨x, by rw [hcu, hC]; simp, hx.1, hx.2, hL⟩
  · simp only [DataDev.syncEnd, List.mem_filter] at hy
    exact Or.inr ⟨y, hy.1, y1, y2, y3⟩

theorem inv_syncEnd {w w' : World} (h : Inv w) (hs : w.syncEnd = some w') : Inv w' := by
  unfold World.syncEnd at hs
  split at hs
  · rename_i x hg
    simp only [Option.some.injEq] at hs
    subst hs
    have hfl : ∀ o ∈ w.objs, ((flagEnd o).precov = true → o.mine = true ∧ o.copied = true) ∧
        ((flagEnd o).durable = true → o.copied = true) ∧ (o.durable = true → (flagEnd o).durable = true) := by
      intro o ho
      unfold flagEnd
      split
      · rename_i hp
        exact ⟨fun hc => by simp at hc, fun _ => ((h.obj.flags o ho).1 hp).2, fun _ => rfl⟩
      · exact ⟨fun hp => (h.obj.flags o ho).1 hp, fun hd => (h.obj.flags o ho).2 hd, fun hd => hd⟩
    have hnp : ∀ o, (flagEnd o).precov = false := by
      intro o; unfold flagEnd; split
      · rfl
      · rename_i hp; simpa using hp
    have hdur : ∀ o, (flagEnd o).durable = true → o.precov = true ∨ o.durable = true := by
      intro o hd; unfold flagEnd at hd; split at hd
      · rename_i hp; exact Or.inl hp
      · exact Or.inr hd
    refine inv_of_flags h flagEnd (.synced x) w.data.syncEnd sameCore_end hfl ?_ ?_
      (fun s hsw ho => (no_owner1 h (by rw [hg]; intro y; simp) s hsw ho).elim)
    · refine ⟨?_, ?_, ?_, fun o ho hp => by obtain ⟨o0, _, rfl⟩ := mem_map_obj ho; rw [hnp] at hp; cases hp⟩
      · intro o' ho' i b e hb hgid hfin
        obtain ⟨o, ho, rfl⟩ := mem_map_obj ho'
        obtain ⟨_, k2, _, k4, k5, _, _, _, _, _, _, k12⟩ := sameCore_end o
        rw [k4, k5]; exact h.epoch.range o ho i b e hb (by rw [← k2]; exact hgid) (by rw [← k12]; exact hfin)
      · intro o' ho' b hb e hgid hfin hlt
        obtain ⟨o, ho, rfl⟩ := mem_map_obj ho'
        obtain ⟨_, k2, _, k4, k5, _, _, _, _, _, _, k12⟩ := sameCore_end o
        obtain ⟨r1, r2⟩ := h.epoch.synced o ho b hb e (by rw [← k2]; exact hgid) (by rw [← k12]; exact hfin) hlt
        rw [k4, k5]; exact ⟨(hfl o ho).2.2 r1, r2⟩
      · intro o' ho' b hb e hgid hfin hlt
        obtain ⟨o, ho, rfl⟩ := mem_map_obj ho'
        obtain ⟨_, k2, _, k4, k5, _, _, _, _, _, _, k12⟩ := sameCore_end o
        obtain ⟨r1, r2, _⟩ := h.epoch.syncing o ho b hb e (by rw [← k2]; exact hgid) (by rw [← k12]; exact hfin) hlt
        rw [k4, k5]
        refine ⟨r1, (fun y hy => by cases hy), fun _ _ => ?_⟩
        rcases r2 x hg with hp | hd
        · unfold flagEnd; simp [hp]
        · exact (hfl o ho).2.2 hd
    · refine ⟨covPrefix_syncEnd, ?_, ?_, ?_, ?_, fun L slot s hL => h.dev.contentLt L slot s (content_syncEnd h.dev.pref hL)⟩
      · intro o' ho' hm hc hh s hsec
        obtain ⟨o, ho, rfl⟩ := mem_map_obj ho'
        obtain ⟨k1, k2, k3, k4, k5, _, _, _, _, k10, k11, _⟩ := sameCore_end o
        rw [k1, k3]; rw [k4, k5] at hsec; rw [k2] at hh
        exact (h.dev.mine o ho (by rw [← k11]; exact hm) (by rw [← k10]; exact hc) hh s hsec).syncEnd h.dev.pref
      · intro o' ho' hp
        obtain ⟨o, ho, rfl⟩ := mem_map_obj ho'
        rw [hnp] at hp; cases hp
      · intro o' ho' hd hh s hsec
        obtain ⟨o, ho, rfl⟩ := mem_map_obj ho'
        obtain ⟨k1, k2, k3, k4, k5, _, _, _, _, _, _, _⟩ := sameCore_end o
        rw [k1, k3]; rw [k4, k5] at hsec; rw [k2] at hh
        rcases hdur o hd with hp | hd0
        · exact (h.dev.precov o ho hp hh s hsec).syncEnd h.dev.pref
        · exact (h.dev.durable o ho hd0 hh s hsec).syncEnd h.dev.pref
      · intro a' ha b' hb L slot s hL h1 h2 s1 s2 hoff
        obtain ⟨a, ha0, rfl⟩ := mem_map_obj ha
        obtain ⟨b, hb0, rfl⟩ := mem_map_obj hb
        obtain ⟨ka1, _, ka3, ka4, _⟩ := sameCore_end a
        obtain ⟨kb1, _, kb3, kb4, _⟩ := sameCore_end b
        rw [ka1, kb1]
        rw [ka1] at h1; rw [kb1] at h2; rw [ka3] at s1; rw [kb3] at s2; rw [ka4, kb4] at hoff
        exact h.dev.content a ha0 b hb0 L slot s (content_syncEnd h.dev.pref hL) h1 h2 s1 s2 hoff
  · simp at hs

theorem inv_syncFail {w w' : World} (h : Inv w) (hs : w.syncFail = some w') : Inv w' := by
  unfold World.syncFail at hs
  split at hs
  · rename_i x hg
    simp only [Option.some.injEq] at hs
    subst hs
    have hfl : ∀ o ∈ w.objs, ((flagFail o).precov = true → o.mine = true ∧ o.copied = true) ∧
        ((flagFail o).durable = true → o.copied = true) ∧ (o.durable = true → (flagFail o).durable = true) := by
      intro o ho
      exact ⟨fun hc => by simp [flagFail] at hc, fun hd => (h.obj.flags o ho).2 hd, fun hd => hd⟩
    refine inv_of_flags h flagFail (.started x) w.data.syncFail sameCore_fail hfl ?_ ?_
      (fun s hsw ho => (no_owner1 h (by rw [hg]; intro y; simp) s hsw ho).elim)
    · refine ⟨?_, ?_, ?_, fun o ho hp => by obtain ⟨o0, _, rfl⟩ := mem_map_obj ho; simp [flagFail] at hp⟩
      · intro o' ho' i b e hb hgid hfin
        obtain ⟨o, ho, rfl⟩ := mem_map_obj ho'
        exact h.epoch.range o ho i b e hb hgid hfin
      · intro o' ho' b hb e hgid hfin hlt
        obtain ⟨o, ho, rfl⟩ := mem_map_obj ho'
        exact h.epoch.synced o ho b hb e hgid hfin hlt
      · intro o' ho' b hb e hgid hfin hlt
        obtain ⟨o, ho, rfl⟩ := mem_map_obj ho'
        exact ⟨(h.epoch.syncing o ho b hb e hgid hfin hlt).1, (fun y hy => by cases hy), (fun y hy => by cases hy)⟩
    · refine ⟨covPrefix_syncFail _, ?_, ?_, ?_, ?_, ?_⟩
      · intro o' ho' hm hc hh s hsec
        obtain ⟨o, ho, rfl⟩ := mem_map_obj ho'
        exact (h.dev.mine o ho hm hc hh s hsec).syncFail
      · intro o' ho' hp
        obtain ⟨o, ho, rfl⟩ := mem_map_obj ho'
        simp [flagFail] at hp
      · intro o' ho' hd hh s hsec
        obtain ⟨o, ho, rfl⟩ := mem_map_obj ho'
        exact (h.dev.durable o ho hd hh s hsec).syncFail
      · intro a' ha b' hb L slot s hL h1 h2 s1 s2 hoff
        obtain ⟨a, ha0, rfl⟩ := mem_map_obj ha
        obtain ⟨b, hb0, rfl⟩ := mem_map_obj hb
        refine h.dev.content a ha0 b hb0 L slot s ?_ h1 h2 s1 s2 hoff
        rcases hL with hL | ⟨y, hy, y1, y2, y3⟩
        · exact Or.inl hL
        · simp only [DataDev.syncFail, List.mem_map] at hy
          obtain ⟨y0, hy0, rfl⟩ := hy
          exact Or.inr ⟨y0, hy0, y1, y2, y3⟩
      · intro L slot s hL
        refine h.dev.contentLt L slot s ?_
        rcases hL with hL | ⟨y, hy, y1, y2, y3⟩
        · exact Or.inl hL
        · simp only [DataDev.syncFail, List.mem_map] at hy
          obtain ⟨y0, hy0, rfl⟩ := hy
          exact Or.inr ⟨y0, hy0, y1, y2, y3⟩
  · simp at hs

end BB.Persist
