import BB.Proofs.ValidateConsume
/-! # Soundness of an observation with respect to the validator's final state -/
namespace BB.Validate

/-- The offset at which the (innermost) method reads. -/
def Method.off : Method → Nat
  | .readAt off _ => off.toNat
  | .toChunkReader off _ _ => off.toNat
  | .cloneCopy _ m => m.off
  | .cloneStream m => m.off
  | .withTask m => m.off
  | _ => 0

/-- What an observation owes to the final state `k` of the validator behind it. -/
structure Sound (k : Core) (off : Nat) (o : Obs) : Prop where
  seg : ∃ pre post, pre ++ o.data ++ post = k.out ∧ (o.data = [] ∨ pre.length = off)
  done : (o.res = some .ok ∨ o.res = some .eof) → k.fin = some .eof
  err : ∀ e, o.res = some (.err e) → Local e ∨ k.fin = some (.err e)

theorem Sound.of_nodata {k : Core} {off : Nat} {o : Obs} (hd : o.data = [])
    (hdone : (o.res = some .ok ∨ o.res = some .eof) → k.fin = some .eof)
    (herr : ∀ e, o.res = some (.err e) → Local e ∨ k.fin = some (.err e)) : Sound k off o :=
  ⟨⟨[], k.out, by simp [hd], Or.inl hd⟩, hdone, herr⟩

theorem drain_errStep (r : Res) (hr : r ≠ .ok) (k : Nat) :
    (drainSteps (errStep r) k () []).2 = ([], if k = 0 then none else some r) := by
  cases k with
  | zero => simp [drainSteps]
  | succ k =>
    simp only [drainSteps, errStep]
    cases r with
    | ok => exact absurd rfl hr
    | eof => simp
    | err e => simp

theorem readSeq_errRead (r : Res) (hr : r ≠ .ok) (sizes : List Nat) :
    ((readSeq (errRead r) sizes () []).2.1.flatten = []) ∧
    ((readSeq (errRead r) sizes () []).2.2 = none ∨ (readSeq (errRead r) sizes () []).2.2 = some r) := by
  cases sizes with
  | nil => simp [readSeq]
  | cons c cs =>
    simp only [readSeq, errRead]
    cases r with
    | ok => exact absurd rfl hr
    | eof => simp
    | err e => simp

theorem rfin_done {r : Res} {k : Core} (h : RFin r k) (hr : r = .ok ∨ r = .eof) (hne : r ≠ .ok) :
    k.fin = some .eof := by
  rcases hr with h1 | h1
  · exact absurd h1 hne
  · subst h1; exact h

/-- Every method of an error buffer reports the error (or nothing) and no data. -/
theorem runErr_sound {k : Core} {r : Res} (hr : RFin r k) (hne : r ≠ .ok) (off : Nat) :
    ∀ m, Sound k off (runErr r m) := by
  have base : ∀ o : Obs, o.data = [] → (o.res = none ∨ o.res = some r) → Sound k off o := by
    intro o hd hres
    refine Sound.of_nodata hd ?_ ?_
    · intro h
      rcases hres with h0 | h0
      · rw [h0] at h; rcases h with h | h <;> cases h
      · rw [h0] at h
        simp only [Option.some.injEq] at h
        exact rfin_done hr h hne
    · intro e h
      rcases hres with h0 | h0
      · rw [h0] at h; cases h
      · rw [h0] at h
        simp only [Option.some.injEq] at h
        subst h; exact hr
  intro m
  induction m with
  | intoWriter => exact base _ rfl (Or.inr rfl)
  | readAt _ _ => exact base _ rfl (Or.inr rfl)
  | toByteSlice _ => exact base _ rfl (Or.inr rfl)
  | toChunkReader _ _ n =>
    simp only [runErr, drain_errStep r hne]
    refine base _ rfl ?_
    by_cases h0 : n = 0
    · left; simp [obsOf, h0]
    · right; simp [obsOf, h0]
  | toReader sizes =>
    simp only [runErr]
    obtain ⟨h1, h2⟩ := readSeq_errRead r hne sizes
    exact base _ h1 h2
  | cloneCopy _ m ih => exact ih
  | cloneStream m ih => exact ih
  | withTask m ih => exact ih

end BB.Validate

namespace BB.Validate

theorem drain_bsStep (max : Nat) : ∀ (k : Nat) (d : List Nat) (ps : List (List Nat)),
    ∃ new, (drainSteps (bsStep max) k d ps).2.1 = ps ++ new ∧
      new.flatten ++ (drainSteps (bsStep max) k d ps).1 = d ∧
      (∀ r, (drainSteps (bsStep max) k d ps).2.2 = some r → r = .eof) := by
  intro k
  induction k with
  | zero => intro d ps; simp only [drainSteps]; exact ⟨[], by simp, by simp, fun r h => by cases h⟩
  | succ k ih =>
    intro d ps
    simp only [drainSteps, bsStep]
    by_cases he : d.isEmpty = true
    · rw [if_pos he]
      refine ⟨[], by simp, by simp, ?_⟩
      intro r h; simp only [Option.some.injEq] at h; exact h.symm
    · rw [if_neg he]
      by_cases hl : d.length ≤ max
      · rw [if_pos hl]
        simp only []
        obtain ⟨new, h1, h2, h3⟩ := ih [] (ps ++ [d])
        refine ⟨[d] ++ new, by rw [h1, List.append_assoc], ?_, h3⟩
        have : new.flatten ++ (drainSteps (bsStep max) k [] (ps ++ [d])).1 = [] := h2
        simp only [List.flatten_append, List.flatten_cons, List.flatten_nil, List.append_nil, List.append_assoc]
        rw [this, List.append_nil]
      · rw [if_neg hl]
        simp only []
        obtain ⟨new, h1, h2, h3⟩ := ih (d.drop max) (ps ++ [d.take max])
        refine ⟨[d.take max] ++ new, by rw [h1, List.append_assoc], ?_, h3⟩
        simp only [List.flatten_append, List.flatten_cons, List.flatten_nil, List.append_nil, List.append_assoc]
        rw [h2, List.take_append_drop]

theorem readSeq_bufRead : ∀ (sizes : List Nat) (d : List Nat) (ps : List (List Nat)),
    ∃ new, (readSeq bufRead sizes d ps).2.1 = ps ++ new ∧
      new.flatten ++ (readSeq bufRead sizes d ps).1 = d ∧
      (∀ r, (readSeq bufRead sizes d ps).2.2 = some r → r = .eof) := by
  intro sizes
  induction sizes with
  | nil => intro d ps; simp only [readSeq]; exact ⟨[], by simp, by simp, fun r h => by cases h⟩
  | cons c cs ih =>
    intro d ps
    simp only [readSeq, bufRead]
    by_cases he : d.isEmpty = true
    · rw [if_pos he]
      have hd : d = [] := List.isEmpty_iff.mp he
      by_cases hc : c = 0
      · rw [if_pos hc]
        simp only []
        obtain ⟨new, h1, h2, h3⟩ := ih d (ps ++ [[]])
        refine ⟨[[]] ++ new, by rw [h1, List.append_assoc], ?_, h3⟩
        simpa using h2
      · rw [if_neg hc]
        simp only []
        refine ⟨[[]], rfl, by simp, ?_⟩
        intro r h; simp only [Option.some.injEq] at h; exact h.symm
    · rw [if_neg he]
      simp only []
      obtain ⟨new, h1, h2, h3⟩ := ih (d.drop c) (ps ++ [d.take c])
      refine ⟨[d.take c] ++ new, by rw [h1, List.append_assoc], ?_, h3⟩
      simp only [List.flatten_append, List.flatten_cons, List.flatten_nil, List.append_nil, List.append_assoc]
      rw [h2, List.take_append_drop]

/-- Methods of a validated byte slice hand out a segment of it at the method's offset. -/
theorem runSlice_seg (data : List Nat) : ∀ m,
    (∃ pre post, pre ++ (runSlice data m).data ++ post = data ∧ ((runSlice data m).data = [] ∨ pre.length = m.off)) ∧
    (∀ e, (runSlice data m).res = some (.err e) → Local e) := by
  intro m
  induction m with
  | intoWriter => exact ⟨⟨[], [], by simp [runSlice, Obs.data], Or.inr rfl⟩, fun e h => by simp [runSlice] at h⟩
  | readAt off len =>
    simp only [runSlice]
    by_cases h0 : off < 0
    · rw [if_pos h0]
      refine ⟨⟨[], data, by simp [Obs.data], Or.inl rfl⟩, ?_⟩
      intro e h; simp only [Option.some.injEq, Res.err.injEq] at h; subst h; trivial
    · rw [if_neg h0]
      by_cases h1 : off.toNat > data.length
      · rw [if_pos h1]
        exact ⟨⟨[], data, by simp [Obs.data], Or.inl rfl⟩, fun e h => by simp at h⟩
      · rw [if_neg h1]
        refine ⟨⟨data.take off.toNat, (data.drop off.toNat).drop len, ?_, Or.inr ?_⟩, ?_⟩
        · simp only [Obs.data, List.flatten_cons, List.flatten_nil, List.append_nil]
          rw [List.append_assoc, List.take_append_drop, List.take_append_drop]
        · simp only [Method.off, List.length_take]; omega
        · intro e h
          simp only [Option.some.injEq] at h
          split at h <;> cases h
  | toByteSlice max =>
    simp only [runSlice]
    by_cases h0 : data.length > max
    · rw [if_pos h0]
      refine ⟨⟨[], data, by simp [Obs.data], Or.inl rfl⟩, ?_⟩
      intro e h; simp only [Option.some.injEq, Res.err.injEq] at h; subst h; trivial
    · rw [if_neg h0]
      exact ⟨⟨[], [], by simp [Obs.data], Or.inr rfl⟩, fun e h => by simp at h⟩
  | toChunkReader off max k =>
    simp only [runSlice]
    by_cases h0 : off < 0
    · rw [if_pos h0, drain_errStep _ (by simp)]
      refine ⟨⟨[], data, by simp [Obs.data, obsOf], Or.inl (by simp [Obs.data, obsOf])⟩, ?_⟩
      intro e h
      by_cases hk : k = 0
      · simp [obsOf, hk] at h
      · simp only [obsOf, hk, if_false, Option.some.injEq, Res.err.injEq] at h; subst h; trivial
    · rw [if_neg h0]
      by_cases h1 : off.toNat > data.length
      · rw [if_pos h1, drain_errStep _ (by simp)]
        refine ⟨⟨[], data, by simp [Obs.data, obsOf], Or.inl (by simp [Obs.data, obsOf])⟩, ?_⟩
        intro e h
        by_cases hk : k = 0
        · simp [obsOf, hk] at h
        · simp only [obsOf, hk, if_false, Option.some.injEq, Res.err.injEq] at h; subst h; trivial
      · rw [if_neg h1]
        obtain ⟨new, h1', h2, h3⟩ := drain_bsStep max k (data.drop off.toNat) []
        refine ⟨⟨data.take off.toNat, (drainSteps (bsStep max) k (data.drop off.toNat) []).1, ?_, Or.inr ?_⟩, ?_⟩
        · simp only [Obs.data, obsOf, h1', List.nil_append]
          rw [List.append_assoc, h2, List.take_append_drop]
        · simp only [Method.off, List.length_take]; omega
        · intro e h
          simp only [obsOf] at h
          have := h3 _ h
          cases this
  | toReader sizes =>
    simp only [runSlice]
    obtain ⟨new, h1, h2, h3⟩ := readSeq_bufRead sizes data []
    refine ⟨⟨[], (readSeq bufRead sizes data []).1, ?_, Or.inr rfl⟩, ?_⟩
    · simp only [Obs.data, obsOf, h1, List.nil_append]; exact h2
    · intro e h
      simp only [obsOf] at h
      have := h3 _ h
      cases this
  | cloneCopy _ m ih => exact ih
  | cloneStream m ih => exact ih
  | withTask m ih => exact ih

end BB.Validate

namespace BB.Validate

theorem runSlice_sound {k : Core} (data : List Nat) (hfin : k.fin = some .eof)
    (hseg : ∃ post0, data ++ post0 = k.out) (m : Method) : Sound k m.off (runSlice data m) := by
  obtain ⟨⟨pre, post, h1, h2⟩, h3⟩ := runSlice_seg data m
  obtain ⟨post0, h0⟩ := hseg
  refine ⟨⟨pre, post ++ post0, ?_, h2⟩, fun _ => hfin, fun e h => Or.inl (h3 e h)⟩
  rw [← h0]
  calc pre ++ (runSlice data m).data ++ (post ++ post0)
      = (pre ++ (runSlice data m).data ++ post) ++ post0 := by simp only [List.append_assoc]
    _ = data ++ post0 := by rw [h1]

theorem afterCopy_sound {k : Core} {o : Obs} (ho : Sound k 0 o) (hres : o.res ≠ none) (m : Method) :
    Sound k m.off (afterCopy o m) := by
  unfold afterCopy
  cases hr : o.res with
  | none => exact absurd hr hres
  | some r =>
    cases r with
    | ok =>
      simp only []
      refine runSlice_sound o.data (ho.done (Or.inl hr)) ?_ m
      obtain ⟨pre, post, h1, h2⟩ := ho.seg
      rcases h2 with h2 | h2
      · exact ⟨k.out, by rw [h2]; rfl⟩
      · have : pre = [] := List.eq_nil_of_length_eq_zero h2
        subst this
        exact ⟨post, by simpa using h1⟩
    | eof => exact runErr_sound (r := .eof) (ho.done (Or.inr hr)) (by simp) _ m
    | err e => exact runErr_sound (r := .err e) (ho.err e hr) (by simp) _ m

/-- A machine in its initial state: nothing handed out yet. -/
def Fresh {σ : Type} (M : Mach σ) (s : σ) : Prop := M.I s ∧ M.pend s = [] ∧ (M.core s).out = []

theorem Fresh.acct {σ : Type} {M : Mach σ} {s s' : σ} {d : List Nat} (h : Fresh M s) (ha : Acct M s s' d) :
    d ++ M.pend s' = (M.core s').out := by
  have := ha [] (by simp [h.2.1, h.2.2])
  simpa using this

theorem endRes_done {r : Res} {k : Core} (h : EndRes r k) (hr : r = .ok ∨ r = .eof) : k.fin = some .eof := by
  rcases h with ⟨_, h⟩ | ⟨e, he, _⟩
  · exact h
  · rcases hr with h1 | h1 <;> rw [h1] at he <;> cases he

theorem endRes_err {r : Res} {k : Core} (h : EndRes r k) (e : Err) (hr : r = .err e) :
    Local e ∨ k.fin = some (.err e) := by
  rcases h with ⟨h1, _⟩ | ⟨e', he, hl⟩
  · rw [h1] at hr; cases hr
  · rw [he] at hr; simp only [Res.err.injEq] at hr; subst hr; exact hl

theorem toByteSliceVia_sound {σ : Type} {M : Mach σ} {step : Step σ} (hst : StepOK M step) (fuel : Nat) (s : σ)
    (size max : Nat) (h : Fresh M s) :
    M.I (toByteSliceVia step fuel s size max).1 ∧
    Sound (M.core (toByteSliceVia step fuel s size max).1) 0 (toByteSliceVia step fuel s size max).2 ∧
    (toByteSliceVia step fuel s size max).2.res ≠ none := by
  unfold toByteSliceVia
  by_cases hm : size > max
  · rw [if_pos hm]
    refine ⟨h.1, Sound.of_nodata rfl (fun h' => ?_) (fun e h' => ?_), by simp⟩
    · rcases h' with h' | h' <;> simp at h'
    · simp only [Option.some.injEq, Res.err.injEq] at h'; subst h'; exact Or.inl trivial
  · rw [if_neg hm]
    obtain ⟨hI', new, hgot, hacct, hres⟩ := intoWriterVia_ok hst fuel s [] h.1
    generalize intoWriterVia step fuel s [] = x at hI' hgot hacct hres ⊢
    obtain ⟨s', ps, r⟩ := x
    simp only [List.nil_append] at hI' hgot hacct hres ⊢
    subst hgot
    have hout := h.acct hacct
    cases r with
    | ok =>
      refine ⟨hI', ⟨⟨[], M.pend s', by simpa [Obs.data] using hout, Or.inr rfl⟩, fun _ => endRes_done hres (Or.inl rfl),
        fun e h' => by simp at h'⟩, by simp⟩
    | eof =>
      refine ⟨hI', Sound.of_nodata rfl (fun _ => endRes_done hres (Or.inr rfl)) (fun e h' => by simp at h'), by simp⟩
    | err e =>
      refine ⟨hI', Sound.of_nodata rfl (fun h' => ?_) (fun e' h' => ?_), by simp⟩
      · rcases h' with h' | h' <;> simp at h'
      · simp only [Option.some.injEq, Res.err.injEq] at h'; subst h'; exact endRes_err hres _ rfl

end BB.Validate

namespace BB.Validate

theorem offStep_fixed {σ : Type} (step : Step σ) (o : Off σ) (r : Res) (h : o.fixed = some r) :
    offStep step o = (o, [], r) := by
  unfold offStep; rw [h]

theorem fillLoop_fixed {σ : Type} (step : Step σ) (o : Off σ) (r : Res) (h : o.fixed = some r) (hr : r ≠ .ok)
    (fuel left : Nat) (got : List Nat) :
    (fillLoop (offStep step) fuel o left got).1 = o ∧ (fillLoop (offStep step) fuel o left got).2.1 = got := by
  cases left with
  | zero => cases fuel <;> simp [fillLoop]
  | succ n =>
    cases fuel with
    | zero => simp [fillLoop]
    | succ f =>
      simp only [fillLoop, offStep_fixed step o r h]
      cases r with
      | ok => exact absurd rfl hr
      | eof => simp
      | err e => simp

theorem drainSteps_fixed {σ : Type} (step : Step σ) (o : Off σ) (r : Res) (h : o.fixed = some r) (hr : r ≠ .ok)
    (k : Nat) (ps : List (List Nat)) :
    (drainSteps (offStep step) k o ps).1 = o ∧ (drainSteps (offStep step) k o ps).2.1 = ps := by
  cases k with
  | zero => simp [drainSteps]
  | succ k =>
    simp only [drainSteps, offStep_fixed step o r h]
    cases r with
    | ok => exact absurd rfl hr
    | eof => simp
    | err e => simp

theorem readAtVia_sound {σ : Type} {M : Mach σ} {step : Step σ} (hst : StepOK M step) (fuel : Nat) (s : σ)
    (off len : Nat) (h : Fresh M s) :
    M.I (readAtVia step fuel s off len).1 ∧
    Sound (M.core (readAtVia step fuel s off len).1) off (readAtVia step fuel s off len).2 := by
  unfold readAtVia
  obtain ⟨hIo, hacct0, hle, hnone⟩ := offInit_ok hst fuel s off h.1
  generalize offInit step fuel s off = x at hIo hacct0 hle hnone ⊢
  obtain ⟨o, dropped⟩ := x
  simp only at hIo hacct0 hle hnone ⊢
  have hout0 : dropped ++ (offM M).pend o = ((offM M).core o).out := by
    have := hacct0 [] (by simp [h.2.1, h.2.2]); simpa using this
  have hso := offStep_ok hst
  obtain ⟨hI1, new, hgot, hacct1, hres1⟩ := fillLoop_ok hso fuel o len [] hIo
  have hfix : new = [] ∨ dropped.length = off := by
    cases hf : o.fixed with
    | none => exact Or.inr (hnone hf)
    | some r =>
      left
      have := (fillLoop_fixed step o r hf (hIo.2 r hf).1 fuel len []).2
      rw [hgot] at this; simpa using this
  generalize fillLoop (offStep step) fuel o len [] = y at hI1 hgot hacct1 hres1 ⊢
  obtain ⟨o1, got, r⟩ := y
  simp only [List.nil_append] at hI1 hgot hacct1 hres1 ⊢
  subst hgot
  obtain ⟨lost, hlost⟩ := hacct1 dropped hout0
  cases r with
  | ok =>
    simp only []
    obtain ⟨hI2, hacct2, hres2⟩ := forceLoop_ok hso fuel o1 hI1
    generalize forceLoop (offStep step) fuel o1 = z at hI2 hacct2 hres2 ⊢
    obtain ⟨o2, r2⟩ := z
    simp only at hI2 hacct2 hres2 ⊢
    obtain ⟨junk, hjunk⟩ := hacct2 (dropped ++ got ++ lost) hlost
    cases r2 with
    | ok =>
      refine ⟨hI2.1, ⟨⟨dropped, lost ++ junk ++ (offM M).pend o2, ?_, ?_⟩, fun _ => endRes_done hres2 (Or.inl rfl),
        fun e h' => by simp at h'⟩⟩
      · have hj : dropped ++ got ++ lost ++ junk ++ (offM M).pend o2 = (M.core o2.inner).out := hjunk
        simpa [Obs.data, List.append_assoc] using hj
      · simpa [Obs.data] using hfix
    | eof =>
      exact ⟨hI2.1, Sound.of_nodata rfl (fun _ => endRes_done hres2 (Or.inr rfl)) (fun e h' => by simp at h')⟩
    | err e =>
      refine ⟨hI2.1, Sound.of_nodata rfl (fun h' => ?_) (fun e' h' => ?_)⟩
      · rcases h' with h' | h' <;> simp at h'
      · simp only [Option.some.injEq, Res.err.injEq] at h'; subst h'; exact endRes_err hres2 _ rfl
  | eof =>
    refine ⟨hI1.1, ⟨⟨dropped, lost ++ (offM M).pend o1, ?_, ?_⟩, fun _ => hres1, fun e h' => by simp at h'⟩⟩
    · have hj : dropped ++ got ++ lost ++ (offM M).pend o1 = (M.core o1.inner).out := hlost
      simpa [Obs.data, List.append_assoc] using hj
    · simpa [Obs.data] using hfix
  | err e =>
    refine ⟨hI1.1, Sound.of_nodata rfl (fun h' => ?_) (fun e' h' => ?_)⟩
    · rcases h' with h' | h' <;> simp at h'
    · simp only [Option.some.injEq, Res.err.injEq] at h'; subst h'; exact hres1

end BB.Validate
