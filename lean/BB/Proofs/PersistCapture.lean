import BB.Proofs.PersistFile
/-!
# `GetPersistentState`: the file describes the synchronised prefix of the list
-/
namespace BB.Persist

theorem stateBlocks_seeds : ∀ (bs : List Blk) (seeds : List Nat) (rem : Nat) (bl : List BState),
    PBL.stateBlocks bs seeds rem = some bl → fseeds bl = seeds.take rem := by
  intro bs
  induction bs with
  | nil =>
    intro seeds rem bl h
    cases rem with
    | zero => simp [PBL.stateBlocks] at h; subst h; simp [fseeds]
    | succ r => simp [PBL.stateBlocks] at h
  | cons b bs ih =>
    intro seeds rem bl h
    cases rem with
    | zero => simp [PBL.stateBlocks] at h; subst h; simp [fseeds]
    | succ r =>
      simp only [PBL.stateBlocks] at h
      split at h
      · simp at h
      · rename_i rest hrest
        simp only [Option.some.injEq] at h
        subst h
        have := ih _ _ _ hrest
        simp only [fseeds, List.map_cons, List.flatten_cons] at this ⊢
        rw [this]
        by_cases hk : b.epochCount ≤ r + 1
        · rw [Nat.min_eq_left hk]
          have : r + 1 = b.epochCount + (r + 1 - b.epochCount) := by omega
          conv => rhs; rw [this, List.take_add]
        · have hk' : r + 1 ≤ b.epochCount := by omega
          rw [Nat.min_eq_right hk']
          simp

theorem stateBlocks_last (ss : Nat) : ∀ (bs : List Blk) (seeds : List Nat) (rem a : Nat) (bl : List BState),
    PBL.stateBlocks bs seeds rem = some bl → seeds.length = (bs.map (·.epochCount)).sum →
    expand a (bl.map (restoredBlk ss)) = (expand a bs).take rem := by
  intro bs
  induction bs with
  | nil =>
    intro seeds rem a bl h _
    cases rem with
    | zero => simp [PBL.stateBlocks] at h; subst h; simp [expand]
    | succ r => simp [PBL.stateBlocks] at h
  | cons b bs ih =>
    intro seeds rem a bl h hlen
    cases rem with
    | zero => simp [PBL.stateBlocks] at h; subst h; simp [expand]
    | succ r =>
      simp only [PBL.stateBlocks] at h
      split at h
      · simp at h
      · rename_i rest hrest
        simp only [Option.some.injEq] at h
        subst h
        simp only [List.map_cons, List.sum_cons] at hlen
        have := ih _ _ (a + 1) _ hrest (by simp; omega)
        simp only [List.map_cons, expand, restoredBlk, List.length_take] at this ⊢
        by_cases hk : b.epochCount ≤ r + 1
        · rw [Nat.min_eq_left hk, Nat.min_eq_left (by omega)]
          rw [this, List.take_append]
          simp [List.take_of_length_le, Nat.le_of_lt_succ, hk]
        · have hk' : r + 1 ≤ b.epochCount := by omega
          rw [Nat.min_eq_right hk', Nat.min_eq_left (by omega)]
          rw [Nat.min_eq_right hk', Nat.sub_self] at hrest
          have h0 : r + 1 - b.epochCount = 0 := by omega
          have hnil : rest = [] := by
            cases bs with
            | nil => simpa [PBL.stateBlocks] using hrest.symm
            | cons c cs => simpa [PBL.stateBlocks] using hrest.symm
          subst hnil
          rw [List.take_append]
          simp [expand, List.take_replicate, Nat.min_eq_left hk', h0]

/-- A reference that resolves in the block list a restart would build from the state file taken now
resolves in the running list to the same index, and its epoch is synchronised. -/
theorem capture_ref {p p' : PBL} {f : SFile} (hw : WFP p) (ss : Nat) (hg : p.getPersistentState = some (f, p'))
    {e bfl i sd : Nat} (hr : (f.pbl ss).refToIdx e bfl = some (i, sd)) :
    p.refToIdx e bfl = some (i, sd) ∧ e < p.oldestEpoch + p.syncedEpochs := by
  unfold PBL.getPersistentState at hg
  split at hg
  · simp at hg
  · rename_i bl hbl
    simp only [Option.some.injEq, Prod.mk.injEq] at hg
    obtain ⟨rfl, _⟩ := hg
    have hs := stateBlocks_seeds _ _ _ _ hbl
    have hlen : p.seeds.length = (p.blocks.map (·.epochCount)).sum := by
      rw [hw.seedsLen, hw.last, expand_length]
    have hl := stateBlocks_last ss _ _ _ 0 _ hbl hlen
    obtain ⟨h0, last, h1, h2, _, h4, hi⟩ := (refToIdx_iff _ e bfl i sd).1 hr
    simp only [SFile.pbl] at h0 h1 h2 h4 hi
    rw [hs, List.getElem?_take] at h1
    rw [hl, List.getElem?_take] at h2
    split at h1
    · rename_i hq
      simp only [hq, if_true] at h2
      refine ⟨(refToIdx_iff p e bfl i sd).2 ⟨h0, last + p.released, h1, ?_, by omega, by omega, by omega⟩, by omega⟩
      rw [hw.last, expand_shift, List.getElem?_map, h2]
      rfl
    · simp at h1

end BB.Persist
