import BB.Proofs.PersistDev
/-!
# The data device under writes, syncs and crashes
-/
namespace BB.Persist

/-- The covered writes (those a sync in progress will make durable) come first. -/
def CovPrefix (l : List SecW) : Prop := ∃ C U, l = C ++ U ∧ (∀ x ∈ C, x.covered = true) ∧ (∀ x ∈ U, x.covered = false)

theorem covPrefix_filter {l : List SecW} (h : CovPrefix l) :
    ∃ C U, l = C ++ U ∧ l.filter (·.covered) = C ∧ l.filter (!·.covered) = U ∧
      (∀ x ∈ C, x.covered = true) ∧ (∀ x ∈ U, x.covered = false) := by
  obtain ⟨C, U, rfl, hC, hU⟩ := h
  refine ⟨C, U, rfl, ?_, ?_, hC, hU⟩
  · rw [List.filter_append, List.filter_eq_self.2 (by simpa using hC), List.filter_eq_nil_iff.2 (by simpa using hU)]
    simp
  · rw [List.filter_append, List.filter_eq_nil_iff.2 (by simpa using hC), List.filter_eq_self.2 (by simpa using hU)]
    simp

theorem covPrefix_append_uncovered {l : List SecW} (h : CovPrefix l) (ws : List SecW) (hw : ∀ x ∈ ws, x.covered = false) :
    CovPrefix (l ++ ws) := by
  obtain ⟨C, U, rfl, hC, hU⟩ := h
  refine ⟨C, U ++ ws, by simp, hC, ?_⟩
  intro x hx
  rcases List.mem_append.1 hx with hx | hx
  · exact hU x hx
  · exact hw x hx

theorem AllHave.append {id slot s : Nat} {l1 l2 : List SecW} (h1 : AllHave id slot s l1) (h2 : AllHave id slot s l2) :
    AllHave id slot s (l1 ++ l2) := by
  intro x hx
  rcases List.mem_append.1 hx with hx | hx
  · exact h1 x hx
  · exact h2 x hx

theorem AllHave.of_append_right {id slot s : Nat} {l1 l2 : List SecW} (h : AllHave id slot s (l1 ++ l2)) :
    AllHave id slot s l2 := fun x hx => h x (List.mem_append_right _ hx)

theorem AllHave.of_append_left {id slot s : Nat} {l1 l2 : List SecW} (h : AllHave id slot s (l1 ++ l2)) :
    AllHave id slot s l1 := fun x hx => h x (List.mem_append_left _ hx)

theorem AllHave.map {id slot s : Nat} {l : List SecW} (h : AllHave id slot s l) (f : SecW → SecW)
    (hf : ∀ x, (f x).slot = x.slot ∧ (f x).sec = x.sec ∧ (f x).objs = x.objs) : AllHave id slot s (l.map f) := by
  intro y hy
  obtain ⟨x, hx, rfl⟩ := List.mem_map.1 hy
  intro hat
  have := hf x
  rw [this.2.2]
  exact h x hx (by simpa [SecW.at, this.1, this.2.1] using hat)

/-! ### New writes -/

/-- Appending writes that carry the object wherever they touch its sector keeps it settled. -/
theorem Settled.write {d : DataDev} {id slot s : Nat} (h : Settled d id slot s) (ws : List SecW)
    (hw : AllHave id slot s ws) : Settled { d with pend := d.pend ++ ws } id slot s :=
  ⟨h.1, h.2.append hw⟩

theorem Tail.write {d : DataDev} {id slot s : Nat} (h : Tail d id slot s) (ws : List SecW)
    (hw : AllHave id slot s ws) : Tail { d with pend := d.pend ++ ws } id slot s := by
  rcases h with h | ⟨A, x, B, hp, hx, hid, hB⟩
  · exact Or.inl (h.write ws hw)
  · exact Or.inr ⟨A, x, B ++ ws, by simp [hp], hx, hid, hB.append hw⟩

theorem TailC.write {d : DataDev} {id slot s : Nat} (h : TailC d id slot s) (ws : List SecW)
    (hw : AllHave id slot s ws) : TailC { d with pend := d.pend ++ ws } id slot s := by
  rcases h with h | ⟨A, x, B, hp, hx, hc, hid, hB⟩
  · exact Or.inl (h.write ws hw)
  · exact Or.inr ⟨A, x, B ++ ws, by simp [hp], hx, hc, hid, hB.append hw⟩

/-- The object's own write to a sector, followed by writes that carry it, gives `Tail`. -/
theorem Tail.own (d : DataDev) {id slot s : Nat} (A : List SecW) (x : SecW) (B : List SecW)
    (hx : x.at slot s = true) (hid : id ∈ x.objs) (hB : AllHave id slot s B) :
    Tail { d with pend := d.pend ++ (A ++ x :: B) } id slot s :=
  Or.inr ⟨d.pend ++ A, x, B, by simp, hx, hid, hB⟩

/-! ### Sync -/

theorem Settled.syncBegin {d : DataDev} {id slot s : Nat} (h : Settled d id slot s) : Settled d.syncBegin id slot s :=
  ⟨h.1, h.2.map _ (by simp)⟩

theorem Tail.syncBegin {d : DataDev} {id slot s : Nat} (h : Tail d id slot s) : TailC d.syncBegin id slot s := by
  rcases h with h | ⟨A, x, B, hp, hx, hid, hB⟩
  · exact Or.inl h.syncBegin
  · refine Or.inr ⟨A.map fun w => { w with covered := true }, { x with covered := true },
      B.map fun w => { w with covered := true }, by simp [DataDev.syncBegin, hp], ?_, rfl, hid, hB.map _ (by simp)⟩
    simpa [SecW.at] using hx

theorem Settled.syncFail {d : DataDev} {id slot s : Nat} (h : Settled d id slot s) : Settled d.syncFail id slot s :=
  ⟨h.1, h.2.map _ (by simp)⟩

theorem Tail.syncFail {d : DataDev} {id slot s : Nat} (h : Tail d id slot s) : Tail d.syncFail id slot s := by
  rcases h with h | ⟨A, x, B, hp, hx, hid, hB⟩
  · exact Or.inl h.syncFail
  · refine Or.inr ⟨A.map fun w => { w with covered := false }, { x with covered := false },
      B.map fun w => { w with covered := false }, by simp [DataDev.syncFail, hp], ?_, hid, hB.map _ (by simp)⟩
    simpa [SecW.at] using hx

theorem covPrefix_syncBegin (d : DataDev) : CovPrefix d.syncBegin.pend :=
  ⟨d.syncBegin.pend, [], by simp, by simp [DataDev.syncBegin], by simp⟩

theorem covPrefix_syncFail (d : DataDev) : CovPrefix d.syncFail.pend :=
  ⟨[], d.syncFail.pend, by simp, by simp, by simp [DataDev.syncFail]⟩

end BB.Persist
