import BB.Proofs.MirroredOps
/-!
`get` of the C11 model as explicit case tables over the state *before* the
operation: what it answers (`get_snd`) and what it leaves in the stores.
-/
namespace BB.Mirrored

@[simp] theorem rep_round (p : Pair) (n : Nat) : ({ p with round := n } : Pair).rep = p.rep := rfl

/-- second stage of a read, in terms of the state before the operation -/
def stage2 (st : Strat) (p : Pair) (f : Side) (k : Key) : Res Val :=
  let o := f.other
  match (p.rep o).faultAt .get with
  | some c2 => if c2 = nf then .error ⟨c2, [], .fault o .get ((p.rep o).cnt .get)⟩
               else .error ⟨c2, [.backend o], .fault o .get ((p.rep o).cnt .get)⟩
  | none =>
    match (p.rep o).store k with
    | none => .error ⟨nf, [], .absent o k⟩
    | some v =>
      match st with
      | .noop => .ok v
      | .local =>
        match (p.rep f).faultAt .put with
        | none => .ok v
        | some c3 => if c3 = nf then .error ⟨c3, [.repl], .fault f .put ((p.rep f).cnt .put)⟩
                     else .error ⟨c3, [.backend o, .repl], .fault f .put ((p.rep f).cnt .put)⟩

theorem finish2_snd (o : Side) (x : Pair × Res Val) : (finish2 o x).2 =
    match x.2 with
    | .ok v => .ok v
    | .error e => if e.code = nf then .error e else .error (e.wrap (.backend o)) := by
  unfold finish2
  cases x.2 with
  | ok v => rfl
  | error e => by_cases h : e.code = nf <;> simp [h]

theorem finish2_fst (o : Side) (x : Pair × Res Val) : (finish2 o x).1 = x.1 := by
  unfold finish2
  cases x.2 with
  | ok v => rfl
  | error e => by_cases h : e.code = nf <;> simp [h]

theorem stage2_eq (st : Strat) (p : Pair) (f : Side) (k : Key) (n : Nat) :
    (finish2 f.other (replSingle st f.other f ({ p with round := n }.setRep f ((p.rep f).bump .get)) k)).2
      = stage2 st p f k := by
  rw [finish2_snd]
  unfold replSingle stage2
  cases st with
  | noop =>
    simp only [getOn_snd, rep_setRep_other]
    cases (p.rep f.other).faultAt .get with
    | some c2 => by_cases h : c2 = nf <;> simp [h, Err.wrap]
    | none => cases (p.rep f.other).store k <;> simp [nf]
  | «local» =>
    simp only [getOn_snd, getOn_fst, putOn_snd, putOn_fst, rep_setRep_other]
    cases (p.rep f.other).faultAt .get with
    | some c2 => by_cases h : c2 = nf <;> simp [h, Err.wrap]
    | none =>
      cases (p.rep f.other).store k with
      | none => simp [nf]
      | some v =>
        simp [faultAt_bump_ne _ (show Meth.put ≠ Meth.get by decide), cnt_bump]
        cases (p.rep f).faultAt .put with
        | none => simp
        | some c3 => by_cases h : c3 = nf <;> simp [h, Err.wrap]

theorem get_snd (c : Cfg) (p : Pair) (k : Key) : (get c p k).2 =
    let f := firstSide p
    match (p.rep f).faultAt .get with
    | some c1 => if c1 = nf then stage2 (c.toward f) p f k else .error ⟨c1, [.backend f], .fault f .get ((p.rep f).cnt .get)⟩
    | none =>
      match (p.rep f).store k with
      | some v => .ok v
      | none => stage2 (c.toward f) p f k := by
  unfold get
  simp only [getOn_snd, getOn_fst]
  cases h1 : (p.rep (firstSide p)).faultAt .get with
  | some c1 =>
    simp only []
    by_cases hc : c1 = nf
    · simp only [hc, if_true]
      exact stage2_eq _ p _ k _
    · simp [hc, Err.wrap]
  | none =>
    cases h2 : (p.rep (firstSide p)).store k with
    | some v => simp
    | none =>
      simp only [nf, if_true]
      exact stage2_eq _ p _ k _

/-! ## What a read leaves behind -/

/-- The value the second stage writes into the replica consulted first (if any). -/
def stage2Write (st : Strat) (p : Pair) (f : Side) (k : Key) : Option Val :=
  match (p.rep f.other).faultAt .get with
  | some _ => none
  | none =>
    match (p.rep f.other).store k with
    | none => none
    | some v =>
      match st with
      | .noop => none
      | .local =>
        match (p.rep f).faultAt .put with
        | none => some v
        | some _ => none

theorem replSingle_fst_local (src snk : Side) (p : Pair) (k : Key) :
    (replSingle .local src snk p k).1 = (putOn snk (getOn src p k).1 k (getOn src p k).2).1 := by
  unfold replSingle
  simp only []
  cases (getOn src p k).2 with
  | error e => rfl
  | ok v => cases (putOn snk (getOn src p k).1 k (.ok v)).2 <;> rfl

theorem stage2_store (st : Strat) (p : Pair) (f : Side) (k : Key) (n : Nat) (t : Side) (k' : Key) :
    (((finish2 f.other (replSingle st f.other f ({ p with round := n }.setRep f ((p.rep f).bump .get)) k)).1).rep t).store k'
      = if t = f ∧ k' = k then
          (match stage2Write st p f k with
           | some v => some v
           | none => (p.rep f).store k)
        else (p.rep t).store k' := by
  rw [finish2_fst]
  cases st with
  | noop =>
    have : stage2Write .noop p f k = none := by
      unfold stage2Write
      cases (p.rep f.other).faultAt .get <;> simp
      cases (p.rep f.other).store k <;> simp
    rw [this]
    show ((getOn _ _ _).1.rep t).store k' = _
    rw [getOn_store]
    rcases Side.eq_or_other f t with h | h
    · subst h; by_cases hk : k' = k <;> simp [hk]
    · subst h; simp
  | «local» =>
    rw [replSingle_fst_local]
    rcases Side.eq_or_other f t with h | h
    · subst h
      rw [putOn_store_same]
      simp only [getOn_fst, getOn_snd, rep_setRep_other, rep_setRep_other', rep_setRep_same,
        faultAt_bump_ne _ (show Meth.put ≠ Meth.get by decide), store_bump]
      unfold stage2Write
      cases (p.rep t.other).faultAt .get with
      | some c => cases (p.rep t).faultAt .put <;> by_cases hk : k' = k <;> simp [hk]
      | none =>
        cases (p.rep t.other).store k with
        | none => cases (p.rep t).faultAt .put <;> by_cases hk : k' = k <;> simp [hk]
        | some v => cases (p.rep t).faultAt .put <;> by_cases hk : k' = k <;> simp [hk]
    · subst h
      rw [putOn_store_ne _ _ _ _ _ (by simp), getOn_store]
      simp

theorem stage2_round (st : Strat) (f : Side) (q : Pair) (k : Key) :
    (finish2 f.other (replSingle st f.other f q k)).1.round = q.round := by
  rw [finish2_fst]
  cases st with
  | noop => exact getOn_round _ _ _
  | «local» => rw [replSingle_fst_local, putOn_round, getOn_round]

theorem stage2_adv (st : Strat) (f : Side) (q : Pair) (k : Key) :
    Adv q (finish2 f.other (replSingle st f.other f q k)).1 := by
  rw [finish2_fst]
  cases st with
  | noop => exact getOn_adv _ _ _
  | «local» => rw [replSingle_fst_local]; exact (getOn_adv _ _ _).trans (putOn_adv _ _ _ _)

/-- The replica consulted first answered NOT_FOUND (it lacks the object, or it wrongly says so). -/
def firstNF (p : Pair) (k : Key) : Bool :=
  match (p.rep (firstSide p)).faultAt .get with
  | some c => c == nf
  | none => ((p.rep (firstSide p)).store k).isNone

theorem get_fst (c : Cfg) (p : Pair) (k : Key) : (get c p k).1 =
    let f := firstSide p
    let q := ({ p with round := p.round + 1 } : Pair).setRep f ((p.rep f).bump .get)
    if firstNF p k then (finish2 f.other (replSingle (c.toward f) f.other f q k)).1 else q := by
  unfold get firstNF
  simp only [getOn_snd, getOn_fst]
  cases (p.rep (firstSide p)).faultAt .get with
  | some c1 => by_cases hc : c1 = nf <;> simp [hc]
  | none => cases (p.rep (firstSide p)).store k <;> simp [nf]

theorem get_round (c : Cfg) (p : Pair) (k : Key) : (get c p k).1.round = p.round + 1 := by
  rw [get_fst]; simp only []
  split
  · rw [stage2_round]; rfl
  · rfl

theorem get_adv (c : Cfg) (p : Pair) (k : Key) : Adv p (get c p k).1 := by
  rw [get_fst]; simp only []
  have h : Adv p (({ p with round := p.round + 1 } : Pair).setRep (firstSide p) ((p.rep (firstSide p)).bump .get)) :=
    (Adv.round p _).trans (adv_bump _ _ _)
  split
  · exact h.trans (stage2_adv _ _ _ _)
  · exact h

/-- The stores after a read: only the replica consulted first, only the key
read, only when it said NOT_FOUND and the second stage wrote. -/
theorem get_store (c : Cfg) (p : Pair) (k : Key) (t : Side) (k' : Key) :
    ((get c p k).1.rep t).store k' =
      if firstNF p k = true ∧ t = firstSide p ∧ k' = k then
        (match stage2Write (c.toward (firstSide p)) p (firstSide p) k with
         | some v => some v
         | none => (p.rep (firstSide p)).store k)
      else (p.rep t).store k' := by
  rw [get_fst]; simp only []
  by_cases h : firstNF p k = true
  · simp only [h, if_true, true_and]
    exact stage2_store _ p _ k _ t k'
  · simp only [h]
    exact congrFun (store_setRep_bump { p with round := p.round + 1 } (firstSide p) t .get) k'

/-- Replica `s` answers (or would answer) NOT_FOUND to a `Get` of `k`. -/
def saidNF (p : Pair) (s : Side) (k : Key) : Prop :=
  match (p.rep s).faultAt .get with
  | some c => c = nf
  | none => (p.rep s).store k = none

theorem firstNF_iff (p : Pair) (k : Key) : firstNF p k = true ↔ saidNF p (firstSide p) k := by
  unfold firstNF saidNF
  cases (p.rep (firstSide p)).faultAt .get <;> simp

theorem get_ok_cases (c : Cfg) (p : Pair) (k : Key) (v : Val) (h : (get c p k).2 = .ok v) :
    ((p.rep (firstSide p)).faultAt .get = none ∧ (p.rep (firstSide p)).store k = some v) ∨
    (saidNF p (firstSide p) k ∧ (p.rep (firstSide p).other).faultAt .get = none ∧
      (p.rep (firstSide p).other).store k = some v ∧
      (c.toward (firstSide p) = .local → (p.rep (firstSide p)).faultAt .put = none)) := by
  rw [get_snd] at h
  simp only [stage2] at h
  unfold saidNF
  cases hf : (p.rep (firstSide p)).faultAt .get <;> cases hs : (p.rep (firstSide p)).store k <;>
    cases ho : (p.rep (firstSide p).other).faultAt .get <;> cases hso : (p.rep (firstSide p).other).store k <;>
    cases hst : c.toward (firstSide p) <;> cases hp : (p.rep (firstSide p)).faultAt .put <;>
    (try dsimp only at h) <;> (repeat' split at h) <;> (try simp_all)

theorem get_error_cases (c : Cfg) (p : Pair) (k : Key) (e : Err) (h : (get c p k).2 = .error e) (hne : e.code ≠ nf) :
    (e = ⟨e.code, [.backend (firstSide p)], .fault (firstSide p) .get ((p.rep (firstSide p)).cnt .get)⟩ ∧
      (p.rep (firstSide p)).faultAt .get = some e.code) ∨
    (saidNF p (firstSide p) k ∧
      e = ⟨e.code, [.backend (firstSide p).other], .fault (firstSide p).other .get ((p.rep (firstSide p).other).cnt .get)⟩ ∧
      (p.rep (firstSide p).other).faultAt .get = some e.code) ∨
    (saidNF p (firstSide p) k ∧ c.toward (firstSide p) = .local ∧
      e = ⟨e.code, [.backend (firstSide p).other, .repl], .fault (firstSide p) .put ((p.rep (firstSide p)).cnt .put)⟩ ∧
      (p.rep (firstSide p)).faultAt .put = some e.code ∧
      (p.rep (firstSide p).other).faultAt .get = none ∧ (p.rep (firstSide p).other).store k ≠ none) := by
  rw [get_snd] at h
  simp only [stage2] at h
  unfold saidNF
  obtain ⟨code, tags, origin⟩ := e
  cases hf : (p.rep (firstSide p)).faultAt .get <;> cases hs : (p.rep (firstSide p)).store k <;>
    cases ho : (p.rep (firstSide p).other).faultAt .get <;> cases hso : (p.rep (firstSide p).other).store k <;>
    cases hst : c.toward (firstSide p) <;> cases hp : (p.rep (firstSide p)).faultAt .put <;>
    (try dsimp only at h) <;> (repeat' split at h) <;> (try simp_all)

theorem get_nf_cases (c : Cfg) (p : Pair) (k : Key) (e : Err) (h : (get c p k).2 = .error e) (hc : e.code = nf)
    (hput : (p.rep (firstSide p)).faultAt .put ≠ some nf) :
    saidNF p (firstSide p) k ∧ saidNF p (firstSide p).other k ∧ e.tags = [] := by
  rw [get_snd] at h
  simp only [stage2] at h
  unfold saidNF
  obtain ⟨code, tags, origin⟩ := e
  cases hf : (p.rep (firstSide p)).faultAt .get <;> cases hs : (p.rep (firstSide p)).store k <;>
    cases ho : (p.rep (firstSide p).other).faultAt .get <;> cases hso : (p.rep (firstSide p).other).store k <;>
    cases hst : c.toward (firstSide p) <;> cases hp : (p.rep (firstSide p)).faultAt .put <;>
    (try dsimp only at h) <;> (repeat' split at h) <;> (try simp_all)

end BB.Mirrored
