import BB.Model.Auth
/-!
Helper lemmas for C18: the batch evaluation of an authorizer tree (`Authz.authorize`, the code's
successive filtering with positional write-back) gives every position of the batch the verdict
the tree gives that name on its own (`Authz.verdict`, a per-name fold over the members).
Core Lean only.
-/
namespace BB.Auth

mutual
  /-- Per-name reading of an authorizer tree (proof device; tied to `authorize` by
  `authorize_eq_map`). -/
  def Authz.verdict : Authz → Name → Verdict
    | .leaf _ beh, n => beh n
    | .any ms, n => verdictAny ms n
  def verdictAny : List Authz → Name → Verdict
    | [], _ => some staticDenied
    | m0 :: rest, n => verdictRest rest n (m0.verdict n)
  /-- Fold over the members after the first: as long as the current entry is a denial, the next
  member's answer replaces it unless that is a denial as well. -/
  def verdictRest : List Authz → Name → Verdict → Verdict
    | [], _, e => e
    | m :: rest, n, e =>
      if pending e then verdictRest rest n (if pending (m.verdict n) then e else m.verdict n)
      else e
end

theorem verdictRest_not_pending (rest : List Authz) (n : Name) (e : Verdict)
    (h : pending e = false) : verdictRest rest n e = e := by
  cases rest with
  | nil => simp [verdictRest]
  | cons m rest => simp [verdictRest, h]

/-! ### positional lemmas -/

theorem merge_length : ∀ (errs res : List Verdict), (merge errs res).length = errs.length
  | [], _ => by simp [merge]
  | e :: errs, res => by
    unfold merge
    by_cases hp : pending e = true
    · cases res with
      | nil => simp [hp, merge_length errs []]
      | cons r res' => simp [hp, merge_length errs res']
    · simp [hp, merge_length errs res]

/-- Writing back the answers `f` gives for the pending names is a positional update. -/
theorem merge_map (f : Name → Verdict) : ∀ (ns : List Name) (errs : List Verdict),
    errs.length = ns.length →
    merge errs ((pendingNames ns errs).map f) =
      List.zipWith (fun n e => if pending e then (if pending (f n) then e else f n) else e) ns errs
  | [], [], _ => by simp [merge]
  | [], _ :: _, h => by simp at h
  | _ :: _, [], h => by simp at h
  | n :: ns, e :: errs, h => by
    have hl : errs.length = ns.length := by simpa using h
    by_cases hp : pending e = true
    · simp [pendingNames, merge, hp, merge_map f ns errs hl]
    · simp [pendingNames, merge, hp, merge_map f ns errs hl]

theorem pendingNames_nil : ∀ (ns : List Name) (errs : List Verdict),
    errs.length = ns.length → pendingNames ns errs = [] → ∀ e ∈ errs, pending e = false
  | [], [], _, _ => by simp
  | [], _ :: _, h, _ => by simp at h
  | _ :: _, [], h, _ => by simp at h
  | n :: ns, e :: errs, h, hn => by
    have hl : errs.length = ns.length := by simpa using h
    by_cases hp : pending e = true
    · simp [pendingNames, hp] at hn
    · simp [pendingNames, hp] at hn
      intro x hx
      rcases List.mem_cons.1 hx with rfl | hx
      · simpa using hp
      · exact pendingNames_nil ns errs hl hn x hx

theorem zipWith_fixed (g : Name → Verdict → Verdict) : ∀ (ns : List Name) (errs : List Verdict),
    errs.length = ns.length → (∀ n, ∀ e ∈ errs, g n e = e) → List.zipWith g ns errs = errs
  | [], [], _, _ => by simp
  | [], _ :: _, h, _ => by simp at h
  | _ :: _, [], h, _ => by simp at h
  | n :: ns, e :: errs, h, hg => by
    have hl : errs.length = ns.length := by simpa using h
    simp only [List.zipWith_cons_cons]
    rw [hg n e (by simp), zipWith_fixed g ns errs hl (fun n x hx => hg n x (by simp [hx]))]

theorem zipWith_zipWith (g h : Name → Verdict → Verdict) : ∀ (ns : List Name) (errs : List Verdict),
    List.zipWith g ns (List.zipWith h ns errs) = List.zipWith (fun n e => g n (h n e)) ns errs
  | [], _ => by simp
  | _ :: _, [] => by simp
  | n :: ns, e :: errs => by simp [zipWith_zipWith g h ns errs]

/-! ### batch evaluation = per-name evaluation at every position -/

mutual
  theorem authorize_eq_map : ∀ (a : Authz) (ns : List Name), a.authorize ns = ns.map a.verdict
    | .leaf _ beh, ns => by
      simp only [Authz.authorize]
      exact List.map_congr_left (fun n _ => by simp [Authz.verdict])
    | .any ms, ns => by
      simp only [Authz.authorize]
      rw [authorizeAny_eq_map ms ns]
      exact List.map_congr_left (fun n _ => by simp [Authz.verdict])
  theorem authorizeAny_eq_map : ∀ (ms : List Authz) (ns : List Name),
      authorizeAny ms ns = ns.map (verdictAny ms)
    | [], ns => by
      simp only [authorizeAny]
      exact List.map_congr_left (fun n _ => by simp [verdictAny])
    | m0 :: rest, ns => by
      simp only [authorizeAny]
      rw [authorize_eq_map m0 ns, successive_eq_zipWith rest ns _ (by simp)]
      rw [List.zipWith_map_right]
      simp only [List.zipWith_self, verdictAny]
  theorem successive_eq_zipWith : ∀ (rest : List Authz) (ns : List Name) (errs : List Verdict),
      errs.length = ns.length →
      successive rest ns errs = List.zipWith (fun n e => verdictRest rest n e) ns errs
    | [], ns, errs, h => by
      simp only [successive]
      exact (zipWith_fixed _ ns errs h (fun n e _ => by simp [verdictRest])).symm
    | m :: rest, ns, errs, h => by
      simp only [successive]
      by_cases hc : (pendingNames ns errs).isEmpty = true
      · rw [if_pos hc]
        have hnil : pendingNames ns errs = [] := by simpa using hc
        exact (zipWith_fixed _ ns errs h (fun n e he =>
          verdictRest_not_pending _ n e (pendingNames_nil ns errs h hnil e he))).symm
      · rw [if_neg hc, authorize_eq_map m, merge_map m.verdict ns errs h,
          successive_eq_zipWith rest ns _ (by simp [h]), zipWith_zipWith]
        congr 1
        funext n e
        by_cases hp : pending e = true
        · simp [verdictRest, hp]
        · have hp' : pending e = false := by simpa using hp
          simp [verdictRest, hp', verdictRest_not_pending]
end

theorem authorize_length (a : Authz) (ns : List Name) : (a.authorize ns).length = ns.length := by
  simp [authorize_eq_map]

theorem single_eq (a : Authz) (n : Name) : a.single n = some (a.verdict n) := by
  simp [Authz.single, authorize_eq_map]

/-! ### the per-name fold: the first member that does not deny decides -/

/-- Behind a prefix of members that all deny, a member that does not deny decides. -/
theorem verdictRest_prefix (n : Name) (m : Authz) (post : List Authz)
    (hm : pending (m.verdict n) = false) : ∀ (pre : List Authz) (e : Verdict),
    pending e = true → (∀ p ∈ pre, pending (p.verdict n) = true) →
    verdictRest (pre ++ m :: post) n e = m.verdict n
  | [], e, he, _ => by
    simp [verdictRest, he, hm, verdictRest_not_pending]
  | p :: pre, e, he, hpre => by
    have hp : pending (p.verdict n) = true := hpre p (by simp)
    simp only [List.cons_append, verdictRest, he, hp, if_true]
    exact verdictRest_prefix n m post hm pre e he (fun q hq => hpre q (by simp [hq]))

theorem verdictAny_prefix (n : Name) (m : Authz) (pre post : List Authz)
    (hpre : ∀ p ∈ pre, pending (p.verdict n) = true) (hm : pending (m.verdict n) = false) :
    verdictAny (pre ++ m :: post) n = m.verdict n := by
  cases pre with
  | nil => simp [verdictAny, verdictRest_not_pending, hm]
  | cons p pre =>
    simp only [List.cons_append, verdictAny]
    exact verdictRest_prefix n m post hm pre _ (hpre p (by simp)) (fun q hq => hpre q (by simp [hq]))

/-- If every further member denies, the entry stays what it was. -/
theorem verdictRest_all_pending (n : Name) : ∀ (rest : List Authz) (e : Verdict),
    (∀ p ∈ rest, pending (p.verdict n) = true) → verdictRest rest n e = e
  | [], e, _ => by simp [verdictRest]
  | p :: rest, e, h => by
    by_cases he : pending e = true
    · have hp : pending (p.verdict n) = true := h p (by simp)
      simp only [verdictRest, he, hp, if_true]
      exact verdictRest_all_pending n rest e (fun q hq => h q (by simp [hq]))
    · have he' : pending e = false := by simpa using he
      exact verdictRest_not_pending _ n e he'

/-- Either all members deny, or there is a first one that does not. -/
theorem split_first (n : Name) : ∀ (ms : List Authz),
    (∀ m ∈ ms, pending (m.verdict n) = true) ∨
    ∃ pre m post, ms = pre ++ m :: post ∧ (∀ p ∈ pre, pending (p.verdict n) = true) ∧
      pending (m.verdict n) = false
  | [] => Or.inl (by simp)
  | m :: ms => by
    by_cases hm : pending (m.verdict n) = true
    · rcases split_first n ms with hall | ⟨pre, m', post, rfl, hpre, hm'⟩
      · exact Or.inl (fun q hq => by
          rcases List.mem_cons.1 hq with rfl | hq
          · exact hm
          · exact hall q hq)
      · exact Or.inr ⟨m :: pre, m', post, by simp, fun q hq => by
          rcases List.mem_cons.1 hq with rfl | hq
          · exact hm
          · exact hpre q hq, hm'⟩
    · exact Or.inr ⟨[], m, ms, by simp, by simp, by simpa using hm⟩

/-- With every member denying, the result is the first member's denial
(`errPermissionDenied` of the static authorizer when there is no member). -/
theorem verdictAny_all_pending (n : Name) (ms : List Authz)
    (h : ∀ m ∈ ms, pending (m.verdict n) = true) :
    verdictAny ms n = match ms with
      | [] => some staticDenied
      | m0 :: _ => m0.verdict n := by
  cases ms with
  | nil => simp [verdictAny]
  | cons m0 rest =>
    simp only [verdictAny]
    exact verdictRest_all_pending n rest _ (fun q hq => h q (by simp [hq]))

theorem pending_staticDenied : pending (some staticDenied) = true := by
  simp [pending, Err.isDenial, staticDenied]

theorem pending_none : pending none = false := rfl

/-! ### FindMissing: the first error of the batch -/

theorem firstError_map_some (f : Name → Verdict) : ∀ (ns : List Name) (n : Name) (e : Err),
    firstError ns (ns.map f) = some (n, e) → n ∈ ns ∧ f n = some e
  | [], _, _, h => by simp [firstError] at h
  | x :: ns, n, e, h => by
    simp only [List.map_cons] at h
    cases hx : f x with
    | none =>
      rw [hx] at h
      simp only [firstError] at h
      have := firstError_map_some f ns n e h
      exact ⟨by simp [this.1], this.2⟩
    | some e' =>
      rw [hx] at h
      simp only [firstError, Option.some.injEq, Prod.mk.injEq] at h
      obtain ⟨rfl, rfl⟩ := h
      exact ⟨by simp, hx⟩

theorem firstError_map_none (f : Name → Verdict) : ∀ (ns : List Name),
    firstError ns (ns.map f) = none → ∀ n ∈ ns, f n = none
  | [], _ => by simp
  | x :: ns, h => by
    simp only [List.map_cons] at h
    cases hx : f x with
    | none =>
      rw [hx] at h
      simp only [firstError] at h
      intro n hn
      rcases List.mem_cons.1 hn with rfl | hn
      · exact hx
      · exact firstError_map_none f ns h n hn
    | some e' =>
      rw [hx] at h
      simp [firstError] at h

end BB.Auth

namespace BB.Auth

/-! ### the leaf calls stay inside the batch -/

theorem pendingNames_subset : ∀ (ns : List Name) (errs : List Verdict) (n : Name),
    n ∈ pendingNames ns errs → n ∈ ns
  | [], _, n, h => by simp [pendingNames] at h
  | _ :: _, [], n, h => by simp [pendingNames] at h
  | x :: ns, e :: errs, n, h => by
    by_cases hp : pending e = true
    · simp only [pendingNames, hp, if_true, List.mem_cons] at h
      rcases h with rfl | h
      · simp
      · exact List.mem_cons_of_mem _ (pendingNames_subset ns errs n h)
    · simp only [pendingNames, hp] at h
      exact List.mem_cons_of_mem _ (pendingNames_subset ns errs n h)

mutual
  theorem calls_subset : ∀ (a : Authz) (ns : List Name) (c : Nat × List Name),
      c ∈ a.calls ns → ∀ n ∈ c.2, n ∈ ns
    | .leaf _ _, ns, c, h => by
      simp only [Authz.calls, List.mem_singleton] at h
      subst h
      exact fun n hn => hn
    | .any ms, ns, c, h => by
      simp only [Authz.calls] at h
      exact callsAny_subset ms ns c h
  theorem callsAny_subset : ∀ (ms : List Authz) (ns : List Name) (c : Nat × List Name),
      c ∈ callsAny ms ns → ∀ n ∈ c.2, n ∈ ns
    | [], _, c, h => by simp [callsAny] at h
    | m0 :: rest, ns, c, h => by
      simp only [callsAny, List.mem_append] at h
      rcases h with h | h
      · exact calls_subset m0 ns c h
      · exact callsRest_subset rest ns _ c h
  theorem callsRest_subset : ∀ (rest : List Authz) (ns : List Name) (errs : List Verdict)
      (c : Nat × List Name), c ∈ callsRest rest ns errs → ∀ n ∈ c.2, n ∈ ns
    | [], _, _, c, h => by simp [callsRest] at h
    | m :: rest, ns, errs, c, h => by
      simp only [callsRest] at h
      by_cases hc : (pendingNames ns errs).isEmpty = true
      · simp [hc] at h
      · rw [if_neg hc, List.mem_append] at h
        rcases h with h | h
        · exact fun n hn => pendingNames_subset ns errs n (calls_subset m _ c h n hn)
        · exact callsRest_subset rest ns _ c h
end

end BB.Auth
