import BB.Proofs.PersistShut
/-!
# C03: the snapshot relation survives list operations; `GetPersistentState` establishes it
-/
namespace BB.Persist

theorem refToIdx_core {p p' : PBL} (h : Core p p') (e bfl : Nat) : p'.refToIdx e bfl = p.refToIdx e bfl := by
  unfold PBL.refToIdx
  rw [h.seeds, h.last, h.released, h.oldest]

theorem SnapRel.pstep {ss : Nat} {f : SFile} {p p' : PBL} (hs : PStep p p') (h : SnapRel ss f p) : SnapRel ss f p' := by
  obtain ⟨k, hk⟩ := h
  cases hs with
  | core hc =>
    refine ⟨k, ?_⟩
    intro e bfl i sd hr
    rw [refToIdx_core hc] at hr
    rw [gids_of_vis hc.blocks]
    exact hk e bfl i sd hr
  | pop hp =>
    refine ⟨k + 1, ?_⟩
    intro e bfl i sd hr
    obtain ⟨h1, bs, h2, h3⟩ := hk e bfl (i + 1) sd (refToIdx_popFront hp hr)
    have he : i + (k + 1) = i + 1 + k := by omega
    rw [he]
    refine ⟨h1, bs, h2, ?_⟩
    rw [(popFront_blocks hp).1] at h3
    simpa using h3
  | push gid slot =>
    refine ⟨k, ?_⟩
    intro e bfl i sd hr
    obtain ⟨h1, bs, h2, h3⟩ := hk e bfl i sd hr
    refine ⟨h1, bs, h2, ?_⟩
    have hlt : i < (p.blocks.map (·.gid)).length := (List.getElem?_eq_some_iff.1 h3).1
    simp only [PBL.pushBack, List.map_append]
    rw [List.getElem?_append_left hlt]
    exact h3
  | starting fl =>
    refine ⟨k, ?_⟩
    intro e bfl i sd hr
    have : ((p.notifySyncStarting fl).blocks.map (·.gid)) = p.blocks.map (·.gid) := by
      simp [PBL.notifySyncStarting, List.map_map, Function.comp_def]
    rw [this]
    exact hk e bfl i sd hr
  | completed =>
    refine ⟨k, ?_⟩
    intro e bfl i sd hr
    have : (p.notifySyncCompleted.blocks.map (·.gid)) = p.blocks.map (·.gid) := by
      simp [PBL.notifySyncCompleted, List.map_map, Function.comp_def]
    rw [this]
    exact hk e bfl i sd hr

theorem getPersistentState_core {p p' : PBL} {f : SFile} (hg : p.getPersistentState = some (f, p')) : Core p p' := by
  unfold PBL.getPersistentState at hg
  split at hg
  · simp at hg
  · simp only [Option.some.injEq, Prod.mk.injEq] at hg
    obtain ⟨_, rfl⟩ := hg
    exact ⟨rfl, rfl, rfl, rfl, rfl, rfl, rfl, rfl⟩

/-- A state file taken when every epoch is synchronised describes the whole list: the restart
resolves every reference the running list resolves, to the same block. -/
theorem capture_snap {p p' : PBL} {f : SFile} (hw : WFP p) (ss : Nat) (ha : AllSynced p)
    (hg : p.getPersistentState = some (f, p')) : SnapRel ss f p := by
  unfold PBL.getPersistentState at hg
  split at hg
  · simp at hg
  · rename_i bl hbl
    simp only [Option.some.injEq, Prod.mk.injEq] at hg
    obtain ⟨rfl, _⟩ := hg
    have hlen : p.seeds.length = (p.blocks.map (·.epochCount)).sum := by
      rw [hw.seedsLen, hw.last, expand_length]
    have hs := stateBlocks_seeds _ _ _ _ hbl
    have hl := stateBlocks_last ss _ _ _ 0 _ hbl hlen
    rw [ha.1, List.take_length] at hs
    have hxl : (expand 0 p.blocks).length = p.seeds.length := by rw [expand_length, hlen]
    rw [ha.1, ← hxl, List.take_length] at hl
    refine ⟨0, ?_⟩
    intro e bfl i sd hr
    obtain ⟨h0, last, h1, h2, h3, h4, hi⟩ := (refToIdx_iff p e bfl i sd).1 hr
    rw [hw.last, expand_shift, List.getElem?_map] at h2
    cases hx : (expand 0 p.blocks)[e - p.oldestEpoch]? with
    | none => simp [hx] at h2
    | some x =>
      simp only [hx, Option.map_some, Option.some.injEq] at h2
      have hxlt : x < (bl.map (restoredBlk ss)).length := by
        have := expand_lt (bl.map (restoredBlk ss)) 0 (e - p.oldestEpoch) x (by rw [hl]; exact hx)
        omega
      refine ⟨(refToIdx_iff _ e bfl (i + 0) sd).2 ⟨h0, x, ?_, ?_, Nat.zero_le _, ?_, ?_⟩, ?_⟩
      · simp only [SFile.pbl]; rw [hs]; exact h1
      · simp only [SFile.pbl]; rw [hl]; exact hx
      · simp only [SFile.pbl]; omega
      · simp only [SFile.pbl]; omega
      · have hil : i + 0 < bl.length := by simp only [List.length_map] at hxlt; omega
        obtain ⟨b, hb, hgid, _⟩ := stateBlocks_get _ _ _ _ hbl (i + 0) bl[i + 0] (List.getElem?_eq_getElem hil)
        refine ⟨bl[i + 0], List.getElem?_eq_getElem hil, ?_⟩
        rw [List.getElem?_map]
        simp only [Nat.add_zero] at hb
        rw [hb, hgid]
        rfl

end BB.Persist
