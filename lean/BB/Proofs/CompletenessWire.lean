import BB.Model.CompletenessWire
/-!
Helper lemmas for C13, part 3: the wire-level visitor.

* `encode`: the canonical encoding of a list of length-delimited fields;
  `visit (encode fs)` reports exactly `layout 0 fs` and succeeds (`visit_encode`).
* `Tiles`: the input is a sequence of (header, payload) that covers it completely;
  `visit bs = (fields, true)` implies `Tiles 0 bs fields` (`visit_ok_tiles`).
-/
namespace BB.Completeness.Wire

/-- Canonical (shortest) varint encoding. -/
def encodeVarint (v : Nat) : List Nat :=
  if h : v < 128 then [v] else (v % 128 + 128) :: encodeVarint (v / 128)
termination_by v
decreasing_by omega

theorem encodeVarint_lt {v : Nat} (h : v < 128) : encodeVarint v = [v] := by
  rw [encodeVarint]; simp [h]

theorem encodeVarint_ge {v : Nat} (h : ¬ v < 128) : encodeVarint v = (v % 128 + 128) :: encodeVarint (v / 128) := by
  rw [encodeVarint]; simp [h]

theorem encodeVarint_ne_nil (v : Nat) : encodeVarint v ≠ [] := by
  by_cases h : v < 128
  · rw [encodeVarint_lt h]; simp
  · rw [encodeVarint_ge h]; simp

/-- Decoding a canonical encoding with enough fuel: `v < 2^(7·fuel − 6)`. -/
theorem varintAux_encode (f : Nat) : ∀ (shift acc n v : Nat) (rest : List Nat), v < 2 ^ (7 * f + 1) →
    varintAux (f + 1) shift acc n (encodeVarint v ++ rest) =
      some (acc + v * 2 ^ shift, n + (encodeVarint v).length) := by
  induction f with
  | zero =>
    intro shift acc n v rest hv
    have hv2 : v < 2 := by simpa using hv
    have h128 : v < 128 := by omega
    rw [encodeVarint_lt h128]
    simp only [List.cons_append, List.nil_append, varintAux, h128, if_true, List.length_singleton]
    have : ¬ (True ∧ 2 ≤ v) := by omega
    simp [this]
  | succ g ih =>
    intro shift acc n v rest hv
    by_cases h128 : v < 128
    · rw [encodeVarint_lt h128]
      simp [varintAux, h128]
    · rw [encodeVarint_ge h128]
      have hb : ¬ (v % 128 + 128 < 128) := by omega
      simp only [List.cons_append, varintAux, hb, if_false, List.length_cons]
      have hv' : v / 128 < 2 ^ (7 * g + 1) := by
        have : (2 : Nat) ^ (7 * (g + 1) + 1) = 128 * 2 ^ (7 * g + 1) := by
          rw [show 7 * (g + 1) + 1 = 7 + (7 * g + 1) by omega, Nat.pow_add]
        rw [this] at hv
        exact Nat.div_lt_of_lt_mul hv
      rw [ih (shift + 7) _ (n + 1) (v / 128) rest hv']
      have hpow : (2 : Nat) ^ (shift + 7) = 2 ^ shift * 128 := by rw [Nat.pow_add]
      have hsplit : v * 2 ^ shift = (v % 128) * 2 ^ shift + (v / 128) * (2 ^ shift * 128) := by
        have h1 : v = v % 128 + 128 * (v / 128) := (Nat.mod_add_div v 128).symm
        calc v * 2 ^ shift = (v % 128 + 128 * (v / 128)) * 2 ^ shift := by rw [← h1]
          _ = (v % 128) * 2 ^ shift + (v / 128) * (2 ^ shift * 128) := by
            rw [Nat.add_mul, Nat.mul_comm 128 (v / 128), Nat.mul_assoc, Nat.mul_comm 128 (2 ^ shift)]
      rw [hpow]
      simp only [Nat.add_sub_cancel, Option.some.injEq, Prod.mk.injEq]
      constructor
      · rw [hsplit]; omega
      · omega

theorem consumeVarint_encode (v : Nat) (rest : List Nat) (hv : v < 2 ^ 64) :
    consumeVarint (encodeVarint v ++ rest) = some (v, (encodeVarint v).length) := by
  unfold consumeVarint
  rw [varintAux_encode 9 0 0 0 v rest (by simpa using hv)]
  simp

/-- A successful varint parse consumed at least one and at most all bytes. -/
theorem varintAux_len : ∀ (f shift acc n : Nat) (bs : List Nat) (v m : Nat),
    varintAux f shift acc n bs = some (v, m) → n < m ∧ m ≤ n + bs.length := by
  intro f
  induction f with
  | zero => intro shift acc n bs v m h; simp [varintAux] at h
  | succ g ih =>
    intro shift acc n bs v m h
    match bs with
    | [] => simp [varintAux] at h
    | b :: bs' =>
      simp only [varintAux] at h
      split at h
      · split at h
        · simp at h
        · simp only [Option.some.injEq, Prod.mk.injEq] at h
          simp only [List.length_cons]
          omega
      · have := ih _ _ _ _ _ _ h
        simp only [List.length_cons]
        omega

theorem consumeVarint_len {bs : List Nat} {v m : Nat} (h : consumeVarint bs = some (v, m)) :
    0 < m ∧ m ≤ bs.length := by
  have := varintAux_len 10 0 0 0 bs v m h
  omega

/-! ### encoder and the expected report -/

def encodeField (f : Nat × List Nat) : List Nat :=
  encodeVarint (f.1 * 8 + 2) ++ encodeVarint f.2.length ++ f.2

def hdrLen (f : Nat × List Nat) : Nat :=
  (encodeVarint (f.1 * 8 + 2)).length + (encodeVarint f.2.length).length

def encode : List (Nat × List Nat) → List Nat
  | [] => []
  | f :: fs => encodeField f ++ encode fs

/-- What the visitor must be told about the fields, the first one starting at offset `off`. -/
def layout : Nat → List (Nat × List Nat) → List Field
  | _, [] => []
  | off, f :: fs => ⟨f.1, off + hdrLen f, f.2.length⟩ :: layout (off + hdrLen f + f.2.length) fs

theorem encodeField_length (f : Nat × List Nat) : (encodeField f).length = hdrLen f + f.2.length := by
  simp [encodeField, hdrLen, Nat.add_assoc]

theorem hdrLen_pos (f : Nat × List Nat) : 2 ≤ hdrLen f := by
  have h1 := encodeVarint_ne_nil (f.1 * 8 + 2)
  have h2 := encodeVarint_ne_nil f.2.length
  have := List.length_pos_iff.2 h1
  have := List.length_pos_iff.2 h2
  unfold hdrLen
  omega

theorem header_encode (off : Nat) (f : Nat × List Nat) (rest : List Nat)
    (hnum : 1 ≤ f.1 ∧ f.1 ≤ maxInt32) (hsz : f.2.length ≤ maxInt64 - off) :
    header off (encodeField f ++ rest) = some (f.1, f.2.length, hdrLen f) := by
  have hm32 : maxInt32 = 2147483647 := by decide
  have hm64 : maxInt64 = 9223372036854775807 := by decide
  have htag : f.1 * 8 + 2 < 2 ^ 64 := by
    have : (2 : Nat) ^ 64 = 18446744073709551616 := by decide
    omega
  have hlen : f.2.length < 2 ^ 64 := by
    have : (2 : Nat) ^ 64 = 18446744073709551616 := by decide
    omega
  unfold header
  have e1 : encodeField f ++ rest = encodeVarint (f.1 * 8 + 2) ++ (encodeVarint f.2.length ++ (f.2 ++ rest)) := by
    simp [encodeField, List.append_assoc]
  rw [e1, consumeVarint_encode _ _ htag]
  simp only
  have hdiv : (f.1 * 8 + 2) / 8 = f.1 := by omega
  have hmod : (f.1 * 8 + 2) % 8 = 2 := by omega
  rw [hdiv, hmod]
  have hc1 : ¬ (maxInt32 < f.1 ∨ f.1 < 1) := by omega
  rw [if_neg hc1]
  simp only [ne_eq, not_true_eq_false, if_false, List.drop_left]
  rw [consumeVarint_encode _ _ hlen]
  simp only
  rw [if_neg (by omega)]
  rfl

theorem visitAux_cons (f off : Nat) (l : List Nat) (hl : l ≠ []) :
    visitAux (f + 1) off l =
      match header off l with
      | none => ([], false)
      | some (num, size, n) =>
        if (l.drop n).length < size then ([⟨num, off + n, size⟩], false)
        else (⟨num, off + n, size⟩ :: (visitAux f (off + n + size) ((l.drop n).drop size)).1,
              (visitAux f (off + n + size) ((l.drop n).drop size)).2) := by
  match l with
  | [] => exact absurd rfl hl
  | b :: bs =>
    simp only [visitAux]
    cases header off (b :: bs) with
    | none => rfl
    | some r =>
      obtain ⟨num, size, n⟩ := r
      simp only

theorem visitAux_encode (fs : List (Nat × List Nat)) : ∀ (fuel off : Nat),
    (encode fs).length < fuel → (∀ f, f ∈ fs → 1 ≤ f.1 ∧ f.1 ≤ maxInt32) → off + (encode fs).length ≤ maxInt64 →
    visitAux fuel off (encode fs) = (layout off fs, true) := by
  induction fs with
  | nil =>
    intro fuel off hf _ _
    match fuel with
    | 0 => simp [encode] at hf
    | g + 1 => simp [encode, layout, visitAux]
  | cons f fs ih =>
    intro fuel off hf hwf hmax
    match fuel with
    | 0 => simp at hf
    | g + 1 =>
      have hflen := encodeField_length f
      have hpos := hdrLen_pos f
      simp only [encode, List.length_append] at hf hmax
      have hne : encodeField f ++ encode fs ≠ [] := by
        intro h
        have := congrArg List.length h
        simp only [List.length_append, List.length_nil] at this
        omega
      simp only [encode]
      rw [visitAux_cons g off _ hne, header_encode off f (encode fs) (hwf f (List.mem_cons_self ..)) (by omega)]
      simp only
      have hdrop : (encodeField f ++ encode fs).drop (hdrLen f) = f.2 ++ encode fs := by
        have : encodeField f ++ encode fs =
            (encodeVarint (f.1 * 8 + 2) ++ encodeVarint f.2.length) ++ (f.2 ++ encode fs) := by
          simp [encodeField, List.append_assoc]
        rw [this]
        have hl : hdrLen f = (encodeVarint (f.1 * 8 + 2) ++ encodeVarint f.2.length).length := by
          simp [hdrLen]
        rw [hl, List.drop_left]
      rw [hdrop]
      have hnl : ¬ ((f.2 ++ encode fs).length < f.2.length) := by simp
      rw [if_neg hnl, List.drop_left]
      rw [ih g (off + hdrLen f + f.2.length) (by omega) (fun x hx => hwf x (List.mem_cons_of_mem _ hx)) (by omega)]
      simp [layout]

theorem visit_encode (fs : List (Nat × List Nat)) (hwf : ∀ f, f ∈ fs → 1 ≤ f.1 ∧ f.1 ≤ maxInt32)
    (hlen : (encode fs).length ≤ maxInt64) : visit (encode fs) = (layout 0 fs, true) := by
  unfold visit
  exact visitAux_encode fs _ 0 (by omega) hwf (by omega)

/-! ### success means the input is tiled by fields -/

/-- `bs`, starting at absolute offset `off`, is a sequence of length-delimited fields - a header
`header` accepts (tag varint of wire type 2 with a field number in 1..2^31-1, length varint,
together `n` bytes that are part of the input) followed by exactly `size` payload bytes - that
covers `bs` completely; `fields` lists them with their payload offsets. -/
inductive Tiles : Nat → List Nat → List Field → Prop
  | nil (off : Nat) : Tiles off [] []
  | cons (off : Nat) (bs : List Nat) (num size n : Nat) (fields : List Field)
      (hh : header off bs = some (num, size, n)) (hn : 2 ≤ n ∧ n ≤ bs.length)
      (hs : size ≤ (bs.drop n).length)
      (ht : Tiles (off + n + size) ((bs.drop n).drop size) fields) :
      Tiles off bs (⟨num, off + n, size⟩ :: fields)

theorem header_len {off : Nat} {bs : List Nat} {num size n : Nat} (h : header off bs = some (num, size, n)) :
    2 ≤ n ∧ n ≤ bs.length := by
  unfold header at h
  cases h1 : consumeVarint bs with
  | none => rw [h1] at h; simp at h
  | some r1 =>
    obtain ⟨tag, nTag⟩ := r1
    rw [h1] at h
    simp only at h
    split at h
    · simp at h
    · split at h
      · simp at h
      · cases h2 : consumeVarint (bs.drop nTag) with
        | none => rw [h2] at h; simp at h
        | some r2 =>
          obtain ⟨sz, nLen⟩ := r2
          rw [h2] at h
          simp only at h
          split at h
          · simp at h
          · simp only [Option.some.injEq, Prod.mk.injEq] at h
            have l1 := consumeVarint_len h1
            have l2 := consumeVarint_len h2
            simp only [List.length_drop] at l2
            omega

theorem visitAux_ok_tiles : ∀ (fuel off : Nat) (bs : List Nat) (fields : List Field),
    visitAux fuel off bs = (fields, true) → Tiles off bs fields := by
  intro fuel
  induction fuel with
  | zero => intro off bs fields h; simp [visitAux] at h
  | succ g ih =>
    intro off bs fields h
    match bs with
    | [] =>
      simp only [visitAux, Prod.mk.injEq, and_true] at h
      subst h
      exact Tiles.nil off
    | b :: bs' =>
      rw [visitAux_cons g off (b :: bs') (by simp)] at h
      cases hh : header off (b :: bs') with
      | none => rw [hh] at h; simp at h
      | some r =>
        obtain ⟨num, size, n⟩ := r
        rw [hh] at h
        simp only at h
        split at h
        · simp at h
        · rename_i hlt
          simp only [Prod.mk.injEq] at h
          obtain ⟨hf, hok⟩ := h
          subst hf
          exact Tiles.cons off (b :: bs') num size n _ hh (header_len hh) (Nat.le_of_not_lt hlt)
            (ih _ _ _ (Prod.ext rfl hok))

theorem visit_ok_tiles (bs : List Nat) (fields : List Field) (h : visit bs = (fields, true)) :
    Tiles 0 bs fields := visitAux_ok_tiles _ 0 bs fields h

end BB.Completeness.Wire
