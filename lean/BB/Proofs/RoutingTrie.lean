import BB.Model.Routing
/-!
Helper lemmas for C19, part 1: the trie refines the list specification.

* `exact_set`, `remove_spec`: `Set`/`Remove` act on `GetExact` like a finite map update/erase
  (for `Remove` including the cut of the valueless single-child chain);
* `run_spec`: after any history, `GetExact` is lookup in the specification list;
* `walk_eq_bestRel`, `bestRel_spec`: `GetLongestPrefix` returns the value of the longest prefix
  of the name at which `GetExact` is defined;
* `specLongest_spec`: so does the naive fold over the specification list.
Core Lean only.
-/
namespace BB.Routing

/-! ### association lists -/

section Assoc
variable {α : Type}

theorem aget_adel (cs : List (Comp × α)) (c c' : Comp) :
    aget (adel cs c) c' = if c' = c then none else aget cs c' := by
  induction cs with
  | nil => simp [adel, aget]
  | cons e rest ih =>
    obtain ⟨k, v⟩ := e
    unfold adel at ih ⊢
    by_cases hk : k = c
    · subst hk
      simp only [List.filter_cons, ne_eq, not_true_eq_false, decide_false, Bool.false_eq_true, ↓reduceIte]
      rw [ih]
      by_cases h : c' = k
      · simp [h]
      · have : ¬ k = c' := fun e => h e.symm
        simp [h, aget, this]
    · simp only [List.filter_cons, ne_eq, hk, not_false_eq_true, decide_true, ↓reduceIte]
      by_cases h : k = c'
      · subst h
        have : ¬ k = c := hk
        simp [aget, this]
      · simp only [aget, h, ↓reduceIte]
        exact ih

theorem aget_aset (cs : List (Comp × α)) (c c' : Comp) (v : α) :
    aget (aset cs c v) c' = if c' = c then some v else aget cs c' := by
  unfold aset
  by_cases h : c = c'
  · subst h; simp [aget]
  · have h' : ¬ c' = c := fun e => h e.symm
    simp only [aget, h, ↓reduceIte, h']
    rw [aget_adel]; simp [h']

/-- With at most one entry, a successful lookup pins the whole list down. -/
theorem aget_single (cs : List (Comp × α)) (c : Comp) (v : α)
    (hlen : ¬ cs.length > 1) (h : aget cs c = some v) : cs = [(c, v)] := by
  match cs, h with
  | [(k, w)], h =>
    simp only [aget] at h
    by_cases hk : k = c
    · simp [hk] at h; simp [hk, h]
    · simp [hk] at h
  | _ :: _ :: _, _ => simp at hlen

end Assoc

/-! ### GetExact under Set / Remove -/

theorem exact_empty (q : Name) : exact Node.empty q = none := by
  cases q <;> simp [exact, Node.empty, aget]

theorem exact_nil (n : Node) : exact n [] = n.value := by
  cases n; simp [exact, Node.value]

theorem exact_set (p : Name) : ∀ (n : Node) (v : Nat) (q : Name),
    exact (set n p v) q = if q = p then some v else exact n q := by
  induction p with
  | nil =>
    intro n v q
    cases n with | mk val cs =>
    cases q with
    | nil => simp [set, exact]
    | cons c r => simp [set, exact]
  | cons c r ih =>
    intro n v q
    cases n with | mk val cs =>
    cases q with
    | nil => simp [set, exact]
    | cons c' r' =>
      simp only [set, exact, aget_aset]
      by_cases hc : c' = c
      · subst hc
        simp only [↓reduceIte, ih, List.cons.injEq, true_and]
        cases hg : aget cs c' with
        | none => simp [exact_empty]
        | some ch => simp
      · simp [hc]

/-- What `rem` does to `GetExact`, by outcome. -/
def RemSpec (n : Node) (p : Name) : Option Rem → Prop
  | none => exact n p = none
  | some (.keep n') => ∀ q, exact n' q = if q = p then none else exact n q
  | some .prune => ∀ q, q ≠ p → exact n q = none

theorem rem_spec (p : Name) : ∀ n : Node, RemSpec n p (rem n p) := by
  induction p with
  | nil =>
    intro n
    cases n with | mk val cs =>
    cases cs with
    | nil =>
      simp only [rem, List.isEmpty_nil, ↓reduceIte, RemSpec]
      intro q hq
      cases q with
      | nil => exact absurd rfl hq
      | cons c r => simp [exact, aget]
    | cons e rest =>
      simp only [rem, List.isEmpty_cons, Bool.false_eq_true, ↓reduceIte, RemSpec]
      intro q
      cases q with
      | nil => simp [exact]
      | cons c r => simp [exact]
  | cons c r ih =>
    intro n
    cases n with | mk val cs =>
    simp only [rem]
    cases hg : aget cs c with
    | none => simp [RemSpec, exact, hg]
    | some ch =>
      have ihc := ih ch
      dsimp only
      cases hr : rem ch r with
      | none =>
        rw [hr] at ihc
        simp only [RemSpec] at ihc ⊢
        simp [exact, hg, ihc]
      | some res =>
        rw [hr] at ihc
        cases res with
        | keep ch' =>
          simp only [RemSpec] at ihc ⊢
          intro q
          cases q with
          | nil => simp [exact]
          | cons c' r' =>
            simp only [exact, aget_aset]
            by_cases hc : c' = c
            · subst hc; simp [hg, ihc]
            · simp [hc]
        | prune =>
          simp only [RemSpec] at ihc
          by_cases hcut : (val.isSome || decide (cs.length > 1)) = true
          · simp only [hcut, ↓reduceIte, RemSpec]
            intro q
            cases q with
            | nil => simp [exact]
            | cons c' r' =>
              simp only [exact, aget_adel]
              by_cases hc : c' = c
              · subst hc
                by_cases hrr : r' = r
                · simp [hrr]
                · simp [hrr, hg, ihc r' hrr]
              · simp [hc]
          · simp only [hcut, Bool.false_eq_true, ↓reduceIte, RemSpec]
            have hval : val = none := by
              cases val with
              | none => rfl
              | some x => simp at hcut
            have hlen : ¬ cs.length > 1 := by
              intro h; apply hcut; simp [h]
            have hcs := aget_single cs c ch hlen hg
            intro q hq
            cases q with
            | nil => simp [exact, hval]
            | cons c' r' =>
              subst hcs
              simp only [exact, aget]
              by_cases hc : c = c'
              · subst hc
                have : r' ≠ r := fun e => hq (by rw [e])
                simp [ihc r' this]
              · simp [hc]

theorem remove_spec (n : Node) (p : Name) (n' : Node) (b : Bool) (h : remove n p = some (n', b)) :
    ∀ q, exact n' q = if q = p then none else exact n q := by
  cases n with | mk val cs =>
  cases p with
  | nil =>
    simp only [remove, Option.some.injEq, Prod.mk.injEq] at h
    obtain ⟨rfl, _⟩ := h
    intro q
    cases q <;> simp [exact]
  | cons c r =>
    simp only [remove] at h
    cases hg : aget cs c with
    | none => simp [hg] at h
    | some ch =>
      rw [hg] at h
      dsimp only at h
      have hs := rem_spec r ch
      cases hr : rem ch r with
      | none => simp [hr] at h
      | some res =>
        rw [hr] at h hs
        cases res with
        | keep ch' =>
          simp only [Option.some.injEq, Prod.mk.injEq] at h
          obtain ⟨rfl, _⟩ := h
          simp only [RemSpec] at hs
          intro q
          cases q with
          | nil => simp [exact]
          | cons c' r' =>
            simp only [exact, aget_aset]
            by_cases hc : c' = c
            · subst hc; simp [hg, hs]
            · simp [hc]
        | prune =>
          simp only [Option.some.injEq, Prod.mk.injEq] at h
          obtain ⟨rfl, _⟩ := h
          simp only [RemSpec] at hs
          intro q
          cases q with
          | nil => simp [exact]
          | cons c' r' =>
            simp only [exact, aget_adel]
            by_cases hc : c' = c
            · subst hc
              by_cases hrr : r' = r
              · simp [hrr]
              · simp [hrr, hg, hs r' hrr]
            · simp [hc]

/-- `Remove` only panics for a name that is not registered. -/
theorem remove_none (n : Node) (p : Name) (h : remove n p = none) : exact n p = none := by
  cases n with | mk val cs =>
  cases p with
  | nil => simp [remove] at h
  | cons c r =>
    simp only [remove] at h
    cases hg : aget cs c with
    | none => simp [exact, hg]
    | some ch =>
      rw [hg] at h
      dsimp only at h
      have hs := rem_spec r ch
      cases hr : rem ch r with
      | none =>
        rw [hr] at hs
        simp only [RemSpec] at hs
        simp [exact, hg, hs]
      | some res =>
        rw [hr] at h
        cases res <;> simp at h

/-! ### the list specification -/

theorem specLookup_del (l : Spec) (n q : Name) :
    specLookup (specDel l n) q = if q = n then none else specLookup l q := by
  induction l with
  | nil => simp [specDel, specLookup]
  | cons e rest ih =>
    obtain ⟨k, v⟩ := e
    unfold specDel at ih ⊢
    by_cases hk : k = n
    · subst hk
      simp only [List.filter_cons, ne_eq, not_true_eq_false, decide_false, Bool.false_eq_true, ↓reduceIte]
      rw [ih]
      by_cases h : q = k
      · simp [h]
      · have : ¬ k = q := fun e => h e.symm
        simp [h, specLookup, this]
    · simp only [List.filter_cons, ne_eq, hk, not_false_eq_true, decide_true, ↓reduceIte]
      by_cases h : k = q
      · subst h
        have : ¬ k = n := hk
        simp [specLookup, this]
      · simp only [specLookup, h, ↓reduceIte]
        exact ih

theorem applyOp_spec (t : Node) (l : Spec) (h : ∀ q, exact t q = specLookup l q) (op : Op) :
    ∀ q, exact (applyOp t op) q = specLookup (specApply l op) q := by
  intro q
  cases op with
  | set n v =>
    simp only [applyOp, specApply, exact_set, specLookup]
    by_cases hq : q = n
    · subst hq; simp
    · have : ¬ n = q := fun e => hq e.symm
      simp [hq, this, specLookup_del, h]
  | remove n =>
    simp only [applyOp, specApply, specLookup_del]
    cases hr : remove t n with
    | none =>
      have := remove_none t n hr
      by_cases hq : q = n
      · subst hq; simp [this]
      · simp [hq, h]
    | some res =>
      obtain ⟨t', b⟩ := res
      simp only
      rw [remove_spec t n t' b hr q]
      by_cases hq : q = n
      · simp [hq]
      · simp [hq, h]

theorem run_spec (ops : List Op) : ∀ (t : Node) (l : Spec), (∀ q, exact t q = specLookup l q) →
    ∀ q, exact (run t ops) q = specLookup (specRun l ops) q := by
  induction ops with
  | nil => intro t l h; simpa [run, specRun] using h
  | cons op rest ih =>
    intro t l h
    simp only [run, specRun, List.foldl_cons]
    exact ih _ _ (applyOp_spec t l h op)

/-- Keys of the specification list are pairwise different. -/
def KeysNodup (l : Spec) : Prop := (l.map (·.1)).Nodup

theorem specDel_keys (l : Spec) (n : Name) (h : KeysNodup l) :
    KeysNodup (specDel l n) ∧ n ∉ (specDel l n).map (·.1) := by
  induction l with
  | nil => simp [specDel, KeysNodup]
  | cons e rest ih =>
    obtain ⟨k, v⟩ := e
    simp only [KeysNodup, List.map_cons, List.nodup_cons] at h
    obtain ⟨ih1, ih2⟩ := ih h.2
    unfold specDel at ih1 ih2 ⊢
    by_cases hk : k = n
    · subst hk
      simp only [List.filter_cons, ne_eq, not_true_eq_false, decide_false, Bool.false_eq_true, ↓reduceIte]
      exact ⟨ih1, ih2⟩
    · simp only [List.filter_cons, ne_eq, hk, not_false_eq_true, decide_true, ↓reduceIte]
      refine ⟨?_, ?_⟩
      · simp only [KeysNodup, List.map_cons, List.nodup_cons]
        refine ⟨?_, ih1⟩
        intro hm
        apply h.1
        simp only [List.mem_map, List.mem_filter] at hm ⊢
        obtain ⟨a, ⟨ha, _⟩, rfl⟩ := hm
        exact ⟨a, ha, rfl⟩
      · simp only [List.map_cons, List.mem_cons, not_or]
        exact ⟨fun e => hk e.symm, ih2⟩

theorem specApply_keys (l : Spec) (op : Op) (h : KeysNodup l) : KeysNodup (specApply l op) := by
  cases op with
  | set n v =>
    have := specDel_keys l n h
    simp only [specApply, KeysNodup, List.map_cons, List.nodup_cons]
    exact ⟨this.2, this.1⟩
  | remove n => exact (specDel_keys l n h).1

theorem specRun_keys (ops : List Op) : ∀ l, KeysNodup l → KeysNodup (specRun l ops) := by
  induction ops with
  | nil => intro l h; simpa [specRun] using h
  | cons op rest ih =>
    intro l h
    simp only [specRun, List.foldl_cons]
    exact ih _ (specApply_keys l op h)

theorem specLookup_mem (l : Spec) (k : Name) (v : Nat) (h : specLookup l k = some v) : (k, v) ∈ l := by
  induction l with
  | nil => simp [specLookup] at h
  | cons e rest ih =>
    obtain ⟨k', v'⟩ := e
    simp only [specLookup] at h
    by_cases hk : k' = k
    · simp [hk] at h; simp [hk, h]
    · simp [hk] at h; exact List.mem_cons_of_mem _ (ih h)

theorem mem_specLookup (l : Spec) (hn : KeysNodup l) (k : Name) (v : Nat) (h : (k, v) ∈ l) :
    specLookup l k = some v := by
  induction l with
  | nil => simp at h
  | cons e rest ih =>
    obtain ⟨k', v'⟩ := e
    simp only [KeysNodup, List.map_cons, List.nodup_cons] at hn
    simp only [List.mem_cons, Prod.mk.injEq] at h
    simp only [specLookup]
    rcases h with ⟨rfl, rfl⟩ | h
    · simp
    · have : ¬ k' = k := by
        intro e
        apply hn.1
        subst e
        exact List.mem_map.mpr ⟨(k', v), h, rfl⟩
      simp only [this, ↓reduceIte]
      exact ih hn.2 h

/-! ### GetLongestPrefix -/

/-- The walk of `GetLongestPrefix`, expressed through a lookup function relative to the
current node. -/
def bestRel (g : Name → Option Nat) : Name → Option Nat → Option Nat
  | [], last => last
  | c :: r, last =>
    bestRel (fun q => g (c :: q)) r (match g [c] with | some v => some v | none => last)

theorem bestRel_none (name : Name) (last : Option Nat) : bestRel (fun _ => none) name last = last := by
  induction name generalizing last with
  | nil => rfl
  | cons c r ih => simp only [bestRel]; exact ih last

theorem walk_eq_bestRel (name : Name) : ∀ (n : Node) (last : Option Nat),
    walk n name last = bestRel (exact n) name last := by
  induction name with
  | nil => intro n last; cases n; rfl
  | cons c r ih =>
    intro n last
    cases n with | mk val cs =>
    simp only [walk, bestRel]
    cases hg : aget cs c with
    | none =>
      have h1 : (fun q => exact (Node.mk val cs) (c :: q)) = fun _ => none := by
        funext q; simp [exact, hg]
      have h2 : exact (Node.mk val cs) [c] = none := by simp [exact, hg]
      rw [h1, h2]
      simp [bestRel_none]
    | some ch =>
      have h1 : (fun q => exact (Node.mk val cs) (c :: q)) = exact ch := by
        funext q; simp [exact, hg]
      have h2 : exact (Node.mk val cs) [c] = ch.value := by simp [exact, hg, exact_nil]
      rw [h1, h2]
      exact ih ch _

/-- `r` is the value, under `g`, of the longest prefix of `name` at which `g` is defined. -/
def IsLongest (g : Name → Option Nat) (name : Name) : Option Nat → Prop
  | some v => ∃ p, p <+: name ∧ g p = some v ∧ ∀ q, q <+: name → g q ≠ none → q.length ≤ p.length
  | none => ∀ q, q <+: name → g q = none

theorem bestRel_spec (name : Name) : ∀ (g : Name → Option Nat) (last : Option Nat),
    (bestRel g name last = last ∧ ∀ p, p ≠ [] → p <+: name → g p = none) ∨
    (∃ p v, p ≠ [] ∧ p <+: name ∧ g p = some v ∧ bestRel g name last = some v ∧
      ∀ q, q <+: name → g q ≠ none → q.length ≤ p.length) := by
  induction name with
  | nil =>
    intro g last
    left
    refine ⟨rfl, ?_⟩
    intro p hp hpre
    exact absurd (List.prefix_nil.mp hpre) hp
  | cons c rest ih =>
    intro g last
    simp only [bestRel]
    rcases ih (fun q => g (c :: q)) (match g [c] with | some v => some v | none => last) with
      ⟨hr, hnone⟩ | ⟨p', v, hp', hpre, hg, hr, hmax⟩
    · cases hgc : g [c] with
      | none =>
        left
        rw [hgc] at hr
        refine ⟨hr, ?_⟩
        intro p hp hpre
        rcases List.prefix_cons_iff.mp hpre with rfl | ⟨t, rfl, ht⟩
        · exact absurd rfl hp
        · by_cases ht0 : t = []
          · subst ht0; exact hgc
          · exact hnone t ht0 ht
      | some v =>
        right
        rw [hgc] at hr
        refine ⟨[c], v, by simp, ?_, hgc, hr, ?_⟩
        · exact List.prefix_cons_iff.mpr (Or.inr ⟨[], rfl, List.nil_prefix⟩)
        · intro q hq hgq
          rcases List.prefix_cons_iff.mp hq with rfl | ⟨t, rfl, ht⟩
          · simp
          · by_cases ht0 : t = []
            · subst ht0; simp
            · exact absurd (hnone t ht0 ht) hgq
    · right
      refine ⟨c :: p', v, by simp, ?_, hg, hr, ?_⟩
      · exact List.prefix_cons_iff.mpr (Or.inr ⟨p', rfl, hpre⟩)
      · intro q hq hgq
        rcases List.prefix_cons_iff.mp hq with rfl | ⟨t, rfl, ht⟩
        · simp
        · have := hmax t ht hgq
          simp only [List.length_cons]
          omega

theorem bestRel_isLongest (g : Name → Option Nat) (name : Name) :
    IsLongest g name (bestRel g name (g [])) := by
  rcases bestRel_spec name g (g []) with ⟨hr, hnone⟩ | ⟨p, v, _, hpre, hg, hr, hmax⟩
  · rw [hr]
    cases h0 : g [] with
    | none =>
      intro q hq
      by_cases hq0 : q = []
      · subst hq0; exact h0
      · exact hnone q hq0 hq
    | some v =>
      refine ⟨[], List.nil_prefix, h0, ?_⟩
      intro q hq hgq
      by_cases hq0 : q = []
      · subst hq0; simp
      · exact absurd (hnone q hq0 hq) hgq
  · rw [hr]
    exact ⟨p, hpre, hg, hmax⟩

theorem longest_isLongest (t : Node) (name : Name) : IsLongest (exact t) name (longest t name) := by
  unfold longest
  rw [walk_eq_bestRel, ← exact_nil]
  exact bestRel_isLongest _ _

/-- Two prefixes of the same list with the same length are equal. -/
theorem prefix_eq_of_length {α : Type} {p q l : List α} (hp : p <+: l) (hq : q <+: l)
    (h : p.length = q.length) : p = q := by
  obtain ⟨s, rfl⟩ := hp
  obtain ⟨s', hs'⟩ := hq
  have := congrArg (List.take p.length) hs'
  simp only [List.take_left'] at this
  rw [h] at this
  simp only [List.take_left'] at this
  exact this.symm

theorem isLongest_unique (g : Name → Option Nat) (name : Name) (r1 r2 : Option Nat)
    (h1 : IsLongest g name r1) (h2 : IsLongest g name r2) : r1 = r2 := by
  cases r1 with
  | none =>
    cases r2 with
    | none => rfl
    | some v =>
      obtain ⟨p, hp, hg, _⟩ := h2
      have := h1 p hp
      rw [hg] at this
      exact absurd this (by simp)
  | some v =>
    cases r2 with
    | none =>
      obtain ⟨p, hp, hg, _⟩ := h1
      have := h2 p hp
      rw [hg] at this
      exact absurd this (by simp)
    | some w =>
      obtain ⟨p, hp, hg, hm⟩ := h1
      obtain ⟨q, hq, hg', hm'⟩ := h2
      have l1 := hm q hq (by rw [hg']; simp)
      have l2 := hm' p hp (by rw [hg]; simp)
      have : p = q := prefix_eq_of_length hp hq (by omega)
      subst this
      rw [hg] at hg'
      exact hg'

/-! ### the naive fold -/

/-- One step of `specLongest`. -/
def longestStep (name : Name) (best : Option (Nat × Nat)) (e : Name × Nat) : Option (Nat × Nat) :=
  if e.1.isPrefixOf name then
    match best with
    | some (len, _) => if len < e.1.length then some (e.1.length, e.2) else best
    | none => some (e.1.length, e.2)
  else best

theorem specLongest_eq (l : Spec) (name : Name) :
    specLongest l name = (l.foldl (longestStep name) none).map (·.2) := rfl

/-- Invariant of the fold: `best` is the longest matching entry seen so far. -/
def FoldInv (name : Name) (seen : Spec) : Option (Nat × Nat) → Prop
  | none => ∀ e ∈ seen, ¬ e.1 <+: name
  | some (len, v) => (∃ k, (k, v) ∈ seen ∧ k <+: name ∧ k.length = len) ∧
      ∀ e ∈ seen, e.1 <+: name → e.1.length ≤ len

theorem isPrefixOf_iff (p n : Name) : p.isPrefixOf n = true ↔ p <+: n := by
  simp [List.isPrefixOf_iff_prefix]

theorem longestStep_inv (name : Name) (seen : Spec) (best : Option (Nat × Nat)) (e : Name × Nat)
    (h : FoldInv name seen best) : FoldInv name (seen ++ [e]) (longestStep name best e) := by
  obtain ⟨k, v⟩ := e
  unfold longestStep
  by_cases hp : k.isPrefixOf name = true
  · have hp' := (isPrefixOf_iff k name).mp hp
    simp only [hp, ↓reduceIte]
    cases best with
    | none =>
      simp only [FoldInv] at h ⊢
      refine ⟨⟨k, by simp, hp', rfl⟩, ?_⟩
      intro e he hpre
      simp only [List.mem_append, List.mem_singleton] at he
      rcases he with he | rfl
      · exact absurd hpre (h e he)
      · simp
    | some b =>
      obtain ⟨len, w⟩ := b
      simp only [FoldInv] at h
      obtain ⟨⟨k0, hk0, hk0p, hk0l⟩, hmax⟩ := h
      by_cases hlt : len < k.length
      · simp only [hlt, ↓reduceIte, FoldInv]
        refine ⟨⟨k, by simp, hp', rfl⟩, ?_⟩
        intro e he hpre
        simp only [List.mem_append, List.mem_singleton] at he
        rcases he with he | rfl
        · have := hmax e he hpre; omega
        · simp
      · simp only [hlt, ↓reduceIte, FoldInv]
        refine ⟨⟨k0, by simp [hk0], hk0p, hk0l⟩, ?_⟩
        intro e he hpre
        simp only [List.mem_append, List.mem_singleton] at he
        rcases he with he | rfl
        · exact hmax e he hpre
        · simp only; omega
  · have hp' : ¬ k <+: name := fun h' => hp ((isPrefixOf_iff k name).mpr h')
    simp only [hp, Bool.false_eq_true, ↓reduceIte]
    cases best with
    | none =>
      simp only [FoldInv] at h ⊢
      intro e he
      simp only [List.mem_append, List.mem_singleton] at he
      rcases he with he | rfl
      · exact h e he
      · exact hp'
    | some b =>
      obtain ⟨len, w⟩ := b
      simp only [FoldInv] at h ⊢
      obtain ⟨⟨k0, hk0, hk0p, hk0l⟩, hmax⟩ := h
      refine ⟨⟨k0, by simp [hk0], hk0p, hk0l⟩, ?_⟩
      intro e he hpre
      simp only [List.mem_append, List.mem_singleton] at he
      rcases he with he | rfl
      · exact hmax e he hpre
      · exact absurd hpre hp'

theorem foldl_inv (name : Name) (rest : Spec) : ∀ (seen : Spec) (best : Option (Nat × Nat)),
    FoldInv name seen best → FoldInv name (seen ++ rest) (rest.foldl (longestStep name) best) := by
  induction rest with
  | nil => intro seen best h; simpa using h
  | cons e rest ih =>
    intro seen best h
    have := ih (seen ++ [e]) _ (longestStep_inv name seen best e h)
    simpa using this

/-- The naive fold computes the longest registered prefix (keys pairwise different). -/
theorem specLongest_spec (l : Spec) (hn : KeysNodup l) (name : Name) :
    IsLongest (specLookup l) name (specLongest l name) := by
  have hinv := foldl_inv name l [] none (by simp [FoldInv])
  simp only [List.nil_append] at hinv
  rw [specLongest_eq]
  cases hb : l.foldl (longestStep name) none with
  | none =>
    rw [hb] at hinv
    simp only [FoldInv] at hinv
    simp only [Option.map_none, IsLongest]
    intro q hq
    cases hl : specLookup l q with
    | none => rfl
    | some v => exact absurd hq (hinv _ (specLookup_mem l q v hl))
  | some b =>
    obtain ⟨len, v⟩ := b
    rw [hb] at hinv
    simp only [FoldInv] at hinv
    obtain ⟨⟨k, hk, hkp, hkl⟩, hmax⟩ := hinv
    simp only [Option.map_some, IsLongest]
    refine ⟨k, hkp, mem_specLookup l hn k v hk, ?_⟩
    intro q hq hgq
    cases hl : specLookup l q with
    | none => exact absurd hl hgq
    | some w =>
      have := hmax _ (specLookup_mem l q w hl) hq
      simp only at this
      omega

end BB.Routing
