import BB.Proofs.PersistCalm
/-!
# A failed data sync is retried, never treated as completed (also the final one of a shutdown)
-/
namespace BB.Persist

/-- `dataSyncer()` returned an error: `ProcessBlockPut` is back before the data sync with the same
`isFinalSync` flag; nothing was announced to the block list; `NotifySyncCompleted`, a successful end
of the sync, the next iteration and its state write are all disabled; the only way on is to call
`dataSyncer()` again. -/
theorem syncFail_retries {w w' : World} (hf : w.syncFail = some w') :
    ∃ f, w.g1 = .syncing f ∧ w'.g1 = .started f ∧ w'.pbl = w.pbl ∧ w'.sw = w.sw ∧ w'.dir = w.dir ∧
      (∀ sd, w'.g1Completed sd = none) ∧ w'.syncEnd = none ∧ w'.g1Start = none ∧ w'.swBegin 1 = none ∧
      ∃ w'', w'.syncBegin = some w'' ∧ w''.g1 = .syncing f := by
  unfold World.syncFail at hf
  split at hf
  · rename_i f heq
    simp only [Option.some.injEq] at hf
    subst hf
    refine ⟨f, heq, rfl, rfl, rfl, rfl, fun sd => rfl, rfl, rfl, ?_, _, rfl, rfl⟩
    unfold World.swBegin
    simp
  · simp at hf

/-- `NotifySyncCompleted` is only reached from a data sync that returned nil. -/
theorem g1Completed_synced {w w' : World} {sd : Bool} (hg : w.g1Completed sd = some w') : ∃ f, w.g1 = .synced f := by
  unfold World.g1Completed at hg
  split at hg
  · rename_i heq; exact ⟨false, heq⟩
  · rename_i heq; exact ⟨true, heq⟩
  · simp at hg

end BB.Persist
