import BB.Proofs.PersistStepSw
/-!
# Invariant preservation: `PopFront`
-/
namespace BB.Persist

theorem popFront_shape {p p' : PBL} {b0 : Blk} (hp : p.popFront = some (b0, p')) :
    ∃ rest, p.blocks = b0 :: rest ∧ p'.blocks = rest ∧ p'.toRelease = p.toRelease ++ [b0] ∧
      p'.released = p.released + 1 ∧ p'.oldestEpoch = p.oldestEpoch + b0.epochCount ∧
      p'.seeds = p.seeds.drop b0.epochCount ∧ p'.epochLast = p.epochLast.drop b0.epochCount ∧
      p'.syncingEpochs = (if b0.epochCount ≥ p.syncingEpochs then 0 else p.syncingEpochs - b0.epochCount) ∧
      p'.syncedEpochs = (if b0.epochCount ≥ p.syncedEpochs then 0 else p.syncedEpochs - b0.epochCount) ∧
      p'.releasing = p.releasing ∧ p'.closed = p.closed := by
  unfold PBL.popFront at hp
  split at hp
  · simp at hp
  · rename_i b rest hb
    simp only [Option.some.injEq, Prod.mk.injEq] at hp
    obtain ⟨rfl, rfl⟩ := hp
    exact ⟨rest, hb, rfl, rfl, rfl, rfl, rfl, rfl, rfl, rfl, rfl, rfl⟩

theorem held_popFront_perm {p p' : PBL} {b0 : Blk} (hp : p.popFront = some (b0, p')) (z : List Blk) :
    (held p' z).Perm (held p z) := by
  obtain ⟨rest, h1, h2, h3, _⟩ := popFront_shape hp
  unfold held
  rw [h1, h2, h3]
  have : rest ++ (p.toRelease ++ [b0]) ++ z = (rest ++ p.toRelease) ++ b0 :: z := by simp
  rw [this]
  have h := @List.perm_middle _ b0 (rest ++ p.toRelease) z
  simpa using h

theorem own_popFront {p p' : PBL} {b0 : Blk} (hp : p.popFront = some (b0, p')) {z : List Blk} {free : List Nat} {n g : Nat}
    (ho : Own p z free n g) : Own p' z free n g := by
  have hperm := held_popFront_perm hp z
  obtain ⟨rest, h1, h2, _⟩ := popFront_shape hp
  refine ⟨?_, ?_, ?_, ?_, ?_⟩
  · exact ((hperm.map _).append_right free).nodup_iff.2 ho.slots
  · intro s hs
    exact ho.range s (((hperm.map _).append_right free).mem_iff.1 hs)
  · exact (hperm.map _).nodup_iff.2 ho.gids
  · intro b hb
    exact ho.gidLt b (hperm.mem_iff.1 hb)
  · intro b hb
    apply ho.next
    rw [h2] at hb
    rw [h1]
    cases rest with
    | nil => simp at hb
    | cons x xs => simpa using hb

/-- The first `epochCount` epochs of the list have the first block as their last block. -/
theorem epochLast_first {p : PBL} (hw : WFP p) {b0 : Blk} {rest : List Blk} (hb : p.blocks = b0 :: rest) {q : Nat}
    (hq : q < b0.epochCount) : p.epochLast[q]? = some p.released := by
  rw [hw.last, hb]
  simp only [expand]
  rw [List.getElem?_append_left (by simpa using hq)]
  simp [hq]

theorem epochInv_popFront {objs : List Obj} {p p' : PBL} {b0 : Blk} {g1 : G1} (hw : WFP p) (hp : p.popFront = some (b0, p'))
    (he : EpochInv objs p g1) : EpochInv objs p' g1 := by
  obtain ⟨rest, h1, h2, _, h4, h5, _, h7, h8, h9, _⟩ := popFront_shape hp
  have hidx : ∀ i b, p'.blocks[i]? = some b → p.blocks[i + 1]? = some b := by
    intro i b hb; rw [h1]; rw [h2] at hb; simpa using hb
  -- the epoch of an object in a remaining block is not one of the popped block's
  have hge : ∀ o ∈ objs, ∀ (i : Nat) (b : Blk) (e : Nat), p'.blocks[i]? = some b → b.gid = o.gid → o.fin = some e →
      p.oldestEpoch + b0.epochCount ≤ e := by
    intro o ho i b e hb hg hfin
    obtain ⟨r1, ⟨last, r2, r3⟩, _⟩ := he.range o ho (i + 1) b e (hidx i b hb) hg hfin
    by_cases hlt : e - p.oldestEpoch < b0.epochCount
    · rw [epochLast_first hw h1 hlt] at r2
      simp at r2; omega
    · omega
  refine ⟨?_, ?_, ?_, he.precov⟩
  · intro o ho i b e hb hg hfin
    obtain ⟨r1, ⟨last, r2, r3⟩, r4⟩ := he.range o ho (i + 1) b e (hidx i b hb) hg hfin
    have hge' := hge o ho i b e hb hg hfin
    refine ⟨by rw [h5]; exact hge', ⟨last, ?_, by rw [h4]; omega⟩, r4⟩
    rw [h7, h5, List.getElem?_drop, ← r2]
    congr 1; omega
  · intro o ho b hb e hg hfin hlt
    obtain ⟨i, hi⟩ := List.getElem?_of_mem hb
    have hge' := hge o ho i b e hi hg hfin
    refine he.synced o ho b (by rw [h1]; rw [h2] at hb; exact List.mem_cons_of_mem _ hb) e hg hfin ?_
    rw [h5, h9] at hlt
    split at hlt <;> omega
  · intro o ho b hb e hg hfin hlt
    obtain ⟨i, hi⟩ := List.getElem?_of_mem hb
    have hge' := hge o ho i b e hi hg hfin
    refine he.syncing o ho b (by rw [h1]; rw [h2] at hb; exact List.mem_cons_of_mem _ hb) e hg hfin ?_
    rw [h5, h8] at hlt
    split at hlt <;> omega

end BB.Persist
