import BB.Proofs.CachingCompositeGet
/-! Statements that hold for arbitrary fault scripts, and `readfallback`'s `FindMissing`. -/
namespace BB.Caching

theorem Backend.get_ok {b : Backend} {k : Key} {v : Val} (h : (b.get k).2 = .ok v) : b.data k = some v := by
  simp only [Backend.get] at h
  split at h
  · cases h
  · split at h
    · rename_i hd; cases h; exact hd
    · cases h

@[simp] theorem Backend.get_data (b : Backend) (k : Key) : (b.get k).1.data = b.data := rfl
@[simp] theorem Backend.findMissing_data (b : Backend) (ks : List Key) : (b.findMissing ks).1.data = b.data := rfl

theorem Backend.put_data (b : Backend) (k : Key) (src : Except Err Val) (k' : Key) :
    (b.put k src).1.data k' = b.data k' ∨ (k' = k ∧ (b.put k src).2 = none ∧ ∃ v, src = .ok v ∧ (b.put k src).1.data k' = some v) := by
  unfold Backend.put
  split
  · left; rfl
  · split
    · left; rfl
    · rename_i v
      by_cases e : k' = k
      · right; exact ⟨e, rfl, v, rfl, by simp [e]⟩
      · left; simp [e]

theorem getThrough_ok_first (single) (r : Repl) (p : Pair) (k : Key) (v : Val) (h : (p.sink.get k).2 = .ok v) :
    getThrough single r p k = (⟨p.src, (p.sink.get k).1⟩, .ok v) := by
  unfold getThrough; simp only [h]

theorem getThrough_nf (single) (r : Repl) (p : Pair) (k : Key) (e : Err) (h : (p.sink.get k).2 = .error e)
    (hc : e.code = notFound) : getThrough single r p k = single r ⟨p.src, (p.sink.get k).1⟩ k := by
  unfold getThrough; simp only [h, hc, if_true]

theorem getThrough_err (single) (r : Repl) (p : Pair) (k : Key) (e : Err) (h : (p.sink.get k).2 = .error e)
    (hc : e.code ≠ notFound) : getThrough single r p k = (⟨p.src, (p.sink.get k).1⟩, .error e) := by
  unfold getThrough; simp only [h, hc, if_false]

/-- A non-NOT_FOUND failure of the first backend is returned as it is; the other backend is not touched. -/
theorem getThrough_first_error (single) (r : Repl) (p : Pair) (k : Key) (e : Err) (hf : p.sink.fault = some e)
    (hc : e.code ≠ notFound) : getThrough single r p k = (⟨p.src, p.sink.ticked⟩, .error e) := by
  have h : (p.sink.get k).2 = .error e := by simp [Backend.get, hf]
  rw [getThrough_err single r p k e h hc]; rfl

/-- With `noop` and `local`, a failure of the second backend's `Get` is returned as it is. -/
theorem compGet_second_error (r : Repl) (hr : r = .noop ∨ r = .localR) (p : Pair) (k : Key) (e0 e : Err)
    (h0 : (p.sink.get k).2 = .error e0) (hc0 : e0.code = notFound) (hf : p.src.fault = some e) :
    (compGet r p k).2 = .error e := by
  unfold compGet
  rw [getThrough_nf _ r p k e0 h0 hc0]
  rcases hr with rfl | rfl <;> simp [replSingle, Backend.get, hf]

theorem thenReadSink_ok {m : Pair × Option Err} {k : Key} {v : Val} (h : (thenReadSink m k).2 = .ok v) :
    (thenReadSink m k).1.sink.data k = some v := by
  unfold thenReadSink at h ⊢
  split at h
  · cases h
  · simp only at h ⊢
    split at h
    · rename_i v' hg; cases h; simpa using Backend.get_ok hg
    · cases h

theorem replSingle_ok_sink_holds (r : Repl) (hr : r.copying = true) (p : Pair) (k : Key) (v : Val)
    (h : (replSingle r p k).2 = .ok v) : (replSingle r p k).1.sink.data k = some v := by
  cases r with
  | noop => simp [Repl.copying] at hr
  | localR =>
    simp only [replSingle] at h ⊢
    split at h
    · cases h
    · rename_i v' hs
      split at h
      · cases h
      · rename_i hw; cases h
        rw [hs] at hw ⊢
        unfold Backend.put at hw ⊢
        split at hw
        · cases hw
        · simp
  | dedup b => exact thenReadSink_ok h
  | limit b => exact thenReadSink_ok h

/-- Whatever fails: a successful read-through with a copying replicator leaves the object in the
first backend (fast / primary). -/
theorem compGet_ok_sink_holds (r : Repl) (hr : r.copying = true) (p : Pair) (k : Key) (v : Val)
    (h : (compGet r p k).2 = .ok v) : (compGet r p k).1.sink.data k = some v := by
  unfold compGet at h ⊢
  cases hg : (p.sink.get k).2 with
  | ok v' =>
    rw [getThrough_ok_first _ r p k v' hg] at h ⊢
    cases h; simpa using Backend.get_ok hg
  | error e =>
    by_cases hc : e.code = notFound
    · rw [getThrough_nf _ r p k e hg hc] at h ⊢
      exact replSingle_ok_sink_holds r hr _ k v h
    · rw [getThrough_err _ r p k e hg hc] at h; cases h

/-- `readfallback.FindMissing` without pending faults: exactly the objects missing from both
backends; with a copying replicator the objects found only in the secondary are in the primary
afterwards. -/
theorem fallbackFindMissing_spec (r : Repl) (hr : r = .noop ∨ r.copying = true) (p : Pair) (ks : List Key)
    (hnf : p.NoFaults) :
    (fallbackFindMissing r p ks).2 = .ok (ks.filter fun k => (p.sink.data k).isNone && (p.src.data k).isNone) ∧
    (fallbackFindMissing r p ks).1.src.data = p.src.data ∧
    (∀ k, (fallbackFindMissing r p ks).1.sink.data k = p.sink.data k ∨
      ((p.sink.data k).isNone = true ∧ (fallbackFindMissing r p ks).1.sink.data k = p.src.data k)) ∧
    (r.copying = true → ∀ k ∈ ks, (p.src.data k).isSome = true →
      ((fallbackFindMissing r p ks).1.sink.data k).isSome = true) := by
  have h1 : (p.sink.findMissing ks).2 = .ok (ks.filter fun k => (p.sink.data k).isNone) := by
    simp [Backend.findMissing, hnf.2.fault]
  have h2 : ∀ l, (p.src.findMissing l).2 = .ok (l.filter fun k => (p.src.data k).isNone) := by
    intro l; simp [Backend.findMissing, hnf.1.fault]
  have hp1 : (⟨(p.src.findMissing (ks.filter fun k => (p.sink.data k).isNone)).1, (p.sink.findMissing ks).1⟩ : Pair).NoFaults :=
    ⟨hnf.1.ticked, hnf.2.ticked⟩
  unfold fallbackFindMissing
  simp only [h1, h2]
  generalize hl : (List.filter (fun k => !((ks.filter fun k => (p.sink.data k).isNone).filter
    fun k => (p.src.data k).isNone).contains k) (ks.filter fun k => (p.sink.data k).isNone)) = only
  have honly : ∀ k ∈ only, (p.src.data k).isSome = true ∧ (p.sink.data k).isNone = true ∧ k ∈ ks := by
    intro k hk
    rw [← hl] at hk
    simp only [List.mem_filter, List.contains_eq_mem, Bool.not_eq_true', decide_eq_false_iff_not, not_and] at hk
    obtain ⟨⟨a1, a2⟩, a3⟩ := hk
    have := a3 ⟨a1, a2⟩
    exact ⟨by cases hd : p.src.data k <;> simp_all, a2, a1⟩
  have hfilter : ((ks.filter fun k => (p.sink.data k).isNone).filter fun k => (p.src.data k).isNone) =
      ks.filter fun k => (p.sink.data k).isNone && (p.src.data k).isNone := by
    rw [List.filter_filter]; congr 1; funext k; rw [Bool.and_comm]
  rcases hr with rfl | hc
  · simp only [replMultiple]
    refine ⟨by rw [hfilter], rfl, fun k => Or.inl rfl, by simp [Repl.copying]⟩
  · have hm := replMultiple_spec r hc _ only hp1 (fun k hk => by simpa using (honly k hk).1)
    simp only [hm.ok]
    refine ⟨by rw [hfilter], by rw [hm.src]; rfl, ?_, ?_⟩
    · intro k
      rcases hm.frame k with h | ⟨hk, h⟩
      · left; rw [h]; rfl
      · right; exact ⟨(honly k hk).2.1, by rw [h]; rfl⟩
    · intro _ k hk hs
      by_cases hsk : (p.sink.data k).isNone = true
      · have hmem : k ∈ only := by
          rw [← hl]
          simp only [List.mem_filter, List.contains_eq_mem, Bool.not_eq_true', decide_eq_false_iff_not, not_and]
          refine ⟨⟨hk, hsk⟩, fun _ hn => ?_⟩
          cases hd : p.src.data k <;> simp_all
        exact hm.held k hmem
      · rcases hm.frame k with h | ⟨hk', h⟩
        · rw [h]; cases hd : p.sink.data k <;> simp_all
        · exact absurd (honly k hk').2.1 hsk

end BB.Caching
