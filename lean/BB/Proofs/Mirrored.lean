import BB.Model.Mirrored
/-!
Basic facts about the C11 model: replica updates, what each call into a replica
changes, and what it answers when no fault fires.
-/
namespace BB.Mirrored

@[simp] theorem Side.other_ne (s : Side) : s.other ≠ s := by cases s <;> simp [Side.other]
@[simp] theorem Side.ne_other (s : Side) : s ≠ s.other := by cases s <;> simp [Side.other]
@[simp] theorem Side.other_other (s : Side) : s.other.other = s := by cases s <;> rfl
theorem Side.eq_or_other (s t : Side) : t = s ∨ t = s.other := by cases s <;> cases t <;> simp [Side.other]

@[simp] theorem rep_setRep_same (p : Pair) (s : Side) (r : Replica) : (p.setRep s r).rep s = r := by
  simp [Pair.setRep]
theorem rep_setRep_ne (p : Pair) {s t : Side} (r : Replica) (h : t ≠ s) : (p.setRep s r).rep t = p.rep t := by
  simp [Pair.setRep, h]
@[simp] theorem rep_setRep_other (p : Pair) (s : Side) (r : Replica) : (p.setRep s r).rep s.other = p.rep s.other := by
  simp [Pair.setRep]
@[simp] theorem rep_setRep_other' (p : Pair) (s : Side) (r : Replica) : (p.setRep s.other r).rep s = p.rep s := by
  simp [Pair.setRep]
@[simp] theorem round_setRep (p : Pair) (s : Side) (r : Replica) : (p.setRep s r).round = p.round := rfl

@[simp] theorem store_bump (r : Replica) (m : Meth) : (r.bump m).store = r.store := rfl
@[simp] theorem script_bump (r : Replica) (m : Meth) : (r.bump m).script = r.script := rfl
@[simp] theorem cnt_bump_same (r : Replica) (m : Meth) : (r.bump m).cnt m = r.cnt m + 1 := by simp [Replica.bump]
theorem cnt_bump (r : Replica) (m m' : Meth) : (r.bump m).cnt m' = if m' = m then r.cnt m + 1 else r.cnt m' := rfl
@[simp] theorem script_write (r : Replica) (k : Key) (v : Val) : (r.write k v).script = r.script := rfl
@[simp] theorem cnt_write (r : Replica) (k : Key) (v : Val) : (r.write k v).cnt = r.cnt := rfl
theorem store_write (r : Replica) (k k' : Key) (v : Val) :
    (r.write k v).store k' = if k' = k then some v else r.store k' := rfl
@[simp] theorem store_write_same (r : Replica) (k : Key) (v : Val) : (r.write k v).store k = some v := by
  simp [Replica.write]

/-- Replica `s` holds value `v` for key `k`. -/
def Pair.holds (p : Pair) (s : Side) (k : Key) (v : Val) : Prop := (p.rep s).store k = some v

/-- `p'` is `p` after some calls: scripts are unchanged, counters did not go back. -/
structure Adv (p p' : Pair) : Prop where
  script : ∀ s, (p'.rep s).script = (p.rep s).script
  cnt : ∀ s m, (p.rep s).cnt m ≤ (p'.rep s).cnt m

theorem Adv.refl (p : Pair) : Adv p p := ⟨fun _ => rfl, fun _ _ => Nat.le_refl _⟩
theorem Adv.trans {p q r : Pair} (h1 : Adv p q) (h2 : Adv q r) : Adv p r :=
  ⟨fun s => (h2.script s).trans (h1.script s), fun s m => Nat.le_trans (h1.cnt s m) (h2.cnt s m)⟩

theorem Adv.round (p : Pair) (n : Nat) : Adv p { p with round := n } := ⟨fun _ => rfl, fun _ _ => Nat.le_refl _⟩

theorem Adv.setRep (p : Pair) (s : Side) (r : Replica) (hs : r.script = (p.rep s).script)
    (hc : ∀ m, (p.rep s).cnt m ≤ r.cnt m) : Adv p (p.setRep s r) := by
  constructor
  · intro t
    by_cases h : t = s
    · subst h; simp [hs]
    · simp [rep_setRep_ne _ _ h]
  · intro t m
    by_cases h : t = s
    · subst h; simp [hc]
    · simp [rep_setRep_ne _ _ h]

theorem le_cnt_bump (r : Replica) (m m' : Meth) : r.cnt m' ≤ (r.bump m).cnt m' := by
  simp only [cnt_bump]; split
  · next h => subst h; omega
  · omega

/-- No fault fires from here on. -/
def Quiet (p : Pair) : Prop := ∀ s m i, (p.rep s).cnt m ≤ i → (p.rep s).script m i = none

theorem Quiet.adv {p p' : Pair} (h : Quiet p) (a : Adv p p') : Quiet p' := by
  intro s m i hi
  rw [a.script s]
  exact h s m i (Nat.le_trans (a.cnt s m) hi)

theorem Quiet.faultAt {p : Pair} (h : Quiet p) (s : Side) (m : Meth) : (p.rep s).faultAt m = none :=
  h s m _ (Nat.le_refl _)

/-! ## The calls into one replica, as equations -/

theorem getOn_fst (s : Side) (p : Pair) (k : Key) : (getOn s p k).1 = p.setRep s ((p.rep s).bump .get) := by
  unfold getOn; dsimp only
  cases (p.rep s).faultAt .get <;> simp
  cases (p.rep s).store k <;> simp

theorem getOn_snd (s : Side) (p : Pair) (k : Key) : (getOn s p k).2 =
    match (p.rep s).faultAt .get with
    | some c => .error ⟨c, [], .fault s .get ((p.rep s).cnt .get)⟩
    | none => match (p.rep s).store k with
      | some v => .ok v
      | none => .error ⟨nf, [], .absent s k⟩ := by
  unfold getOn; dsimp only
  cases (p.rep s).faultAt .get <;> simp
  cases (p.rep s).store k <;> simp

theorem getcOn_fst (s : Side) (p : Pair) (k : Key) : (getcOn s p k).1 = p.setRep s ((p.rep s).bump .getc) := by
  unfold getcOn; dsimp only
  cases (p.rep s).faultAt .getc <;> simp
  cases (p.rep s).store k <;> simp

theorem getcOn_snd (s : Side) (p : Pair) (k : Key) : (getcOn s p k).2 =
    match (p.rep s).faultAt .getc with
    | some c => .error ⟨c, [], .fault s .getc ((p.rep s).cnt .getc)⟩
    | none => match (p.rep s).store k with
      | some v => .ok v
      | none => .error ⟨nf, [], .absent s k⟩ := by
  unfold getcOn; dsimp only
  cases (p.rep s).faultAt .getc <;> simp
  cases (p.rep s).store k <;> simp

theorem fmOn_fst (s : Side) (p : Pair) (ks : List Key) : (fmOn s p ks).1 = p.setRep s ((p.rep s).bump .fm) := by
  unfold fmOn; dsimp only; split <;> rfl

theorem fmOn_snd (s : Side) (p : Pair) (ks : List Key) : (fmOn s p ks).2 =
    match (p.rep s).faultAt .fm with
    | some c => .error ⟨c, [], .fault s .fm ((p.rep s).cnt .fm)⟩
    | none => .ok (ks.filter fun k => ((p.rep s).store k).isNone) := by
  unfold fmOn; dsimp only
  cases (p.rep s).faultAt .fm <;> simp

theorem capsOn_fst (s : Side) (p : Pair) : (capsOn s p).1 = p.setRep s ((p.rep s).bump .caps) := by
  unfold capsOn; dsimp only; split <;> rfl

theorem capsOn_snd (s : Side) (p : Pair) : (capsOn s p).2 =
    match (p.rep s).faultAt .caps with
    | some c => .error ⟨c, [], .fault s .caps ((p.rep s).cnt .caps)⟩
    | none => .ok () := by
  unfold capsOn; dsimp only
  cases (p.rep s).faultAt .caps <;> simp

/-- What `putOn` leaves in the replica it was called on. -/
def putRep (r : Replica) (k : Key) (inp : Res Val) : Replica :=
  match r.faultAt .put, inp with
  | none, .ok v => (r.bump .put).write k v
  | _, _ => r.bump .put

theorem putOn_fst (s : Side) (p : Pair) (k : Key) (inp : Res Val) :
    (putOn s p k inp).1 = p.setRep s (putRep (p.rep s) k inp) := by
  unfold putOn putRep; dsimp only
  split
  · next c h => simp [h]
  · next h => cases inp <;> simp [h]

theorem putOn_snd (s : Side) (p : Pair) (k : Key) (inp : Res Val) : (putOn s p k inp).2 =
    match (p.rep s).faultAt .put with
    | some c => .error ⟨c, [], .fault s .put ((p.rep s).cnt .put)⟩
    | none => match inp with
      | .ok _ => .ok ()
      | .error e => .error e := by
  unfold putOn; dsimp only
  split
  · next c h => simp [h]
  · next h => cases inp <;> simp [h]

@[simp] theorem putRep_script (r : Replica) (k : Key) (inp : Res Val) : (putRep r k inp).script = r.script := by
  unfold putRep; split <;> rfl

theorem putRep_cnt (r : Replica) (k : Key) (inp : Res Val) : (putRep r k inp).cnt = (r.bump .put).cnt := by
  unfold putRep; split <;> rfl

/-- The store after `putOn`: written exactly when no fault fired and the input was readable. -/
theorem putRep_store (r : Replica) (k : Key) (inp : Res Val) (k' : Key) : (putRep r k inp).store k' =
    match r.faultAt .put, inp with
    | none, .ok v => if k' = k then some v else r.store k'
    | _, _ => r.store k' := by
  unfold putRep; split <;> simp_all [store_write]

/-! ## Frame of the calls: scripts, counters, stores, round -/

theorem adv_bump (p : Pair) (s : Side) (m : Meth) : Adv p (p.setRep s ((p.rep s).bump m)) :=
  Adv.setRep p s _ rfl (fun m' => le_cnt_bump _ m m')

theorem getOn_adv (s : Side) (p : Pair) (k : Key) : Adv p (getOn s p k).1 := by
  rw [getOn_fst]; exact adv_bump p s .get
theorem getcOn_adv (s : Side) (p : Pair) (k : Key) : Adv p (getcOn s p k).1 := by
  rw [getcOn_fst]; exact adv_bump p s .getc
theorem fmOn_adv (s : Side) (p : Pair) (ks : List Key) : Adv p (fmOn s p ks).1 := by
  rw [fmOn_fst]; exact adv_bump p s .fm
theorem capsOn_adv (s : Side) (p : Pair) : Adv p (capsOn s p).1 := by
  rw [capsOn_fst]; exact adv_bump p s .caps
theorem putOn_adv (s : Side) (p : Pair) (k : Key) (inp : Res Val) : Adv p (putOn s p k inp).1 := by
  rw [putOn_fst]
  exact Adv.setRep p s _ (by simp) (fun m' => by rw [putRep_cnt]; exact le_cnt_bump _ .put m')

theorem store_setRep_bump (p : Pair) (s t : Side) (m : Meth) :
    ((p.setRep s ((p.rep s).bump m)).rep t).store = (p.rep t).store := by
  by_cases h : t = s
  · subst h; simp
  · simp [rep_setRep_ne _ _ h]

@[simp] theorem getOn_store (s t : Side) (p : Pair) (k : Key) : ((getOn s p k).1.rep t).store = (p.rep t).store := by
  rw [getOn_fst]; exact store_setRep_bump p s t .get
@[simp] theorem getcOn_store (s t : Side) (p : Pair) (k : Key) : ((getcOn s p k).1.rep t).store = (p.rep t).store := by
  rw [getcOn_fst]; exact store_setRep_bump p s t .getc
@[simp] theorem fmOn_store (s t : Side) (p : Pair) (ks : List Key) : ((fmOn s p ks).1.rep t).store = (p.rep t).store := by
  rw [fmOn_fst]; exact store_setRep_bump p s t .fm
@[simp] theorem capsOn_store (s t : Side) (p : Pair) : ((capsOn s p).1.rep t).store = (p.rep t).store := by
  rw [capsOn_fst]; exact store_setRep_bump p s t .caps

/-- `putOn` touches only the replica it is called on ... -/
theorem putOn_store_ne (s t : Side) (p : Pair) (k : Key) (inp : Res Val) (h : t ≠ s) :
    ((putOn s p k inp).1.rep t).store = (p.rep t).store := by
  rw [putOn_fst, rep_setRep_ne _ _ h]

/-- ... and there only key `k`, exactly when no fault fired and the input was readable. -/
theorem putOn_store_same (s : Side) (p : Pair) (k : Key) (inp : Res Val) (k' : Key) :
    ((putOn s p k inp).1.rep s).store k' =
    match (p.rep s).faultAt .put, inp with
    | none, .ok v => if k' = k then some v else (p.rep s).store k'
    | _, _ => (p.rep s).store k' := by
  rw [putOn_fst, rep_setRep_same, putRep_store]

@[simp] theorem getOn_round (s : Side) (p : Pair) (k : Key) : (getOn s p k).1.round = p.round := by rw [getOn_fst]; rfl
@[simp] theorem getcOn_round (s : Side) (p : Pair) (k : Key) : (getcOn s p k).1.round = p.round := by rw [getcOn_fst]; rfl
@[simp] theorem fmOn_round (s : Side) (p : Pair) (ks : List Key) : (fmOn s p ks).1.round = p.round := by rw [fmOn_fst]; rfl
@[simp] theorem capsOn_round (s : Side) (p : Pair) : (capsOn s p).1.round = p.round := by rw [capsOn_fst]; rfl
@[simp] theorem putOn_round (s : Side) (p : Pair) (k : Key) (inp : Res Val) : (putOn s p k inp).1.round = p.round := by
  rw [putOn_fst]; rfl

/-- A replica's next fault is not affected by calls into the other replica or of another method. -/
theorem faultAt_setRep_ne (p : Pair) {s t : Side} (r : Replica) (m : Meth) (h : t ≠ s) :
    ((p.setRep s r).rep t).faultAt m = (p.rep t).faultAt m := by
  rw [rep_setRep_ne _ _ h]

theorem faultAt_bump_ne (r : Replica) {m m' : Meth} (h : m' ≠ m) : (r.bump m).faultAt m' = r.faultAt m' := by
  simp [Replica.faultAt, cnt_bump, h]

end BB.Mirrored
