import BB.Proofs.PersistStepFin3
/-!
# Invariant preservation: an index record is written (`recWrite`)
-/
namespace BB.Persist

theorem recsOf_write (d : IdxDev) (slot : Nat) (r r' : PRec) : r' ∈ recsOf (d.write slot r) ↔ r' ∈ recsOf d ∨ r' = r := by
  simp [recsOf, IdxDev.write, or_assoc]

theorem idxToRef_fields {p : PBL} {idx e bfl sd : Nat} (h : p.idxToRef idx = some (e, bfl, sd)) :
    e = p.oldestEpoch + (p.seeds.length - 1) ∧ sd ∈ p.seeds := by
  unfold PBL.idxToRef at h
  cases hs : p.seeds.getLast? with
  | none => simp [hs] at h
  | some s0 =>
    cases hl : p.epochLast.getLast? with
    | none => simp [hs, hl] at h
    | some l0 =>
      simp only [hs, hl] at h
      split at h
      · cases h
      · simp only [Option.some.injEq, Prod.mk.injEq] at h
        obtain ⟨rfl, _, rfl⟩ := h
        exact ⟨rfl, List.mem_of_getLast? hs⟩

/-- Consecutive generations: the block `k` places before block `i + k`. -/
theorem gid_back {bs : List Blk} {g i k : Nat} {b1 b2 : Blk} (hg : gidsFrom g bs) (h1 : bs[i]? = some b1)
    (h2 : bs[i + k]? = some b2) : b1.gid + k = b2.gid := by
  have e1 := gidsFrom_get _ _ _ _ hg h1
  have e2 := gidsFrom_get _ _ _ _ hg h2
  omega

theorem inv_recWrite {w w' : World} {slot key att abs off size : Nat} {o : Obj} {b : Blk} (h : Inv w)
    (ho : o ∈ w.objs) (hk : o.key = key) (hoff : o.off = off) (hsz : o.size = size) (hfin : o.fin.isSome)
    (hrel : w.pbl.released ≤ abs) (hb : w.pbl.blocks[abs - w.pbl.released]? = some b) (hbg : b.gid = o.gid)
    (hw : w.recWrite slot key att abs off size = some w') : Inv w' := by
  unfold World.recWrite at hw
  split at hw
  · cases hw
  · cases hr : w.pbl.idxToRef (abs - w.pbl.released) with
    | none => simp [hr] at hw
    | some t =>
      obtain ⟨e, bfl, sd⟩ := t
      simp only [hr, Option.some.injEq] at hw
      subst hw
      obtain ⟨he, hsd⟩ := idxToRef_fields hr
      have hres := idxToRef_refToIdx h.wfp hr
      -- the object matches the new record
      obtain ⟨e', hfin'⟩ := Option.isSome_iff_exists.1 hfin
      obtain ⟨r1, ⟨last, r2, _⟩, _⟩ := h.epoch.range o ho _ b e' hb hbg hfin'
      have hle : e' ≤ e := by
        have := (List.getElem?_eq_some_iff.1 r2).1
        rw [← h.wfp.seedsLen] at this
        omega
      have hmatch : Matches o ⟨e, bfl, key, att, off, size, sd⟩ :=
        ⟨hk, hoff, hsz, h.obj.fin o ho hfin, e', hfin', hle⟩
      refine ⟨h.cfg, h.wfp, h.own, h.obj, h.epoch, h.dev, ?_, ?_, ?_, h.sw⟩
      · refine ⟨?_, ?_, h.recs.pSeeds⟩
        · intro r hrm i hri
          rcases (recsOf_write _ _ _ _).1 hrm with hrm | rfl
          · exact h.recs.res r hrm i hri
          · simp only at hri
            rw [hres] at hri
            simp only [Option.some.injEq, Prod.mk.injEq, and_true] at hri
            subst hri
            exact ⟨b, o, hb, ho, hbg.symm, hmatch⟩
        · intro r hrm
          rcases (recsOf_write _ _ _ _).1 hrm with hrm | rfl
          · exact h.recs.seedLt r hrm
          · exact h.recs.pSeeds sd hsd
      · intro f hf
        have hfi := h.files f hf
        refine ⟨hfi.gids, hfi.heldIn, hfi.bound, hfi.seedLt, hfi.committed, ?_, hfi.agree⟩
        intro r hrm i hri
        rcases (recsOf_write _ _ _ _).1 hrm with hrm | rfl
        · exact hfi.res r hrm i hri
        · simp only at hri
          obtain ⟨bsF, bP, hbsF, hbP, hgid⟩ := hfi.agree e (i + bfl) (abs - w.pbl.released + bfl) sd (refToIdx_zero hri) (refToIdx_zero hres)
          obtain ⟨gF, hgF⟩ := hfi.gids
          obtain ⟨gP, hgP⟩ := h.wfp.gids
          have hfw := file_pbl_wfp f w.cfg.ss h.cfg hfi.gids
          have hilt := refToIdx_lt hfw hri
          simp only [SFile.pbl, List.length_map] at hilt
          have hbs : f.blocks[i]? = some f.blocks[i] := List.getElem?_eq_getElem hilt
          have e1 := gid_back (bs := f.blocks.map (restoredBlk w.cfg.ss)) (i := i) (k := bfl) (b1 := restoredBlk w.cfg.ss f.blocks[i])
            (b2 := restoredBlk w.cfg.ss bsF) hgF (by rw [List.getElem?_map, hbs]; rfl) (by rw [List.getElem?_map, hbsF]; rfl)
          have e2 := gid_back hgP hb hbP
          simp only [restoredBlk] at e1
          exact ⟨f.blocks[i], o, hbs, ho, by omega, hmatch⟩
      · intro s hsw
        have hfi := h.swFile s hsw
        refine ⟨hfi.gids, hfi.heldIn, hfi.bound, hfi.seedLt, hfi.committed, ?_, hfi.agree⟩
        intro r hrm i hri
        rcases (recsOf_write _ _ _ _).1 hrm with hrm | rfl
        · exact hfi.res r hrm i hri
        · simp only at hri
          obtain ⟨bsF, bP, hbsF, hbP, hgid⟩ := hfi.agree e (i + bfl) (abs - w.pbl.released + bfl) sd (refToIdx_zero hri) (refToIdx_zero hres)
          obtain ⟨gF, hgF⟩ := hfi.gids
          obtain ⟨gP, hgP⟩ := h.wfp.gids
          have hfw := file_pbl_wfp s.file w.cfg.ss h.cfg hfi.gids
          have hilt := refToIdx_lt hfw hri
          simp only [SFile.pbl, List.length_map] at hilt
          have hbs : s.file.blocks[i]? = some s.file.blocks[i] := List.getElem?_eq_getElem hilt
          have e1 := gid_back (bs := s.file.blocks.map (restoredBlk w.cfg.ss)) (i := i) (k := bfl) (b1 := restoredBlk w.cfg.ss s.file.blocks[i])
            (b2 := restoredBlk w.cfg.ss bsF) hgF (by rw [List.getElem?_map, hbs]; rfl) (by rw [List.getElem?_map, hbsF]; rfl)
          have e2 := gid_back hgP hb hbP
          simp only [restoredBlk] at e1
          exact ⟨s.file.blocks[i], o, hbs, ho, by omega, hmatch⟩

end BB.Persist
