import BB.Proofs.ByteStreamRead
/-!
# Batch calls: per-entry validation, admission, FindMissing pass-through
-/
namespace BB.ByteStream

theorem Store.get_put (st : Store) (d d' : Digest) (c : Bytes) :
    (st.put d c).get d' = if d = d' then some c else st.get d' := by
  simp [Store.put, Store.get]

theorem sliceBuffer_ok_iff (C : Codec) (d : Digest) (data c : Bytes) :
    sliceBuffer C d data = .ok c ↔ c = data ∧ Valid C d data := by
  unfold sliceBuffer Valid
  by_cases h1 : data.length = d.size
  · by_cases h2 : C.H data = d.hash
    · simp [h1, h2]; exact eq_comm
    · simp [h1, h2]
  · simp [h1]

/-- what a `Put` can do to the backend: nothing, or store exactly the buffer's content -/
theorem backendPut_cases (st : Store) (d : Digest) (content : Except Err Bytes) (fault : Option (Nat × Bool)) :
    ((backendPut st d content fault).1 = st ∧ (backendPut st d content fault).2 ≠ none) ∨
    (∃ c, content = .ok c ∧ fault = none ∧ (backendPut st d content fault).1 = st.put d c ∧
      (backendPut st d content fault).2 = none) := by
  unfold backendPut
  cases fault with
  | none =>
    cases content with
    | error e => left; simp
    | ok c => right; exact ⟨c, rfl, rfl, rfl, rfl⟩
  | some p =>
    rcases p with ⟨code, early⟩
    cases early
    · cases content with
      | error e => left; simp
      | ok c => left; simp
    · left; simp

/-- status of one entry of `BatchUpdateBlobs` with a healthy backend -/
def entryStatus (C : Codec) (u : UpdEntry) : Option Err :=
  if u.bad then some eDigest
  else match sliceBuffer C u.d u.data with
    | .ok _ => none
    | .error e => some e

/-- the entry is well formed and its data matches its digest -/
def GoodEntry (C : Codec) (u : UpdEntry) : Prop := u.bad = false ∧ Valid C u.d u.data

instance (C : Codec) (u : UpdEntry) : Decidable (GoodEntry C u) := by
  unfold GoodEntry; exact inferInstance

theorem entryStatus_none_iff (C : Codec) (u : UpdEntry) : entryStatus C u = none ↔ GoodEntry C u := by
  unfold entryStatus GoodEntry
  cases hb : u.bad with
  | true => simp
  | false =>
    cases hs : sliceBuffer C u.d u.data with
    | ok c => simp; exact ((sliceBuffer_ok_iff C u.d u.data c).mp hs).2
    | error e =>
      simp
      intro hv
      have := (sliceBuffer_ok_iff C u.d u.data u.data).mpr ⟨rfl, hv⟩
      rw [hs] at this; cases this

theorem updLoop_length (C : Codec) (fault : Option (Nat × Bool)) (us : List UpdEntry) :
    ∀ st, (updLoop C fault st us).2.length = us.length := by
  induction us with
  | nil => intro st; simp [updLoop]
  | cons u us ih =>
    intro st
    simp only [updLoop]
    by_cases hb : u.bad = true
    · simp [hb, ih]
    · simp [hb, ih]

/-- healthy backend: the statuses are the per-entry verdicts, in order -/
theorem updLoop_statuses (C : Codec) (us : List UpdEntry) :
    ∀ st, (updLoop C none st us).2 = us.map (entryStatus C) := by
  induction us with
  | nil => intro st; simp [updLoop]
  | cons u us ih =>
    intro st
    simp only [updLoop, List.map_cons]
    cases hb : u.bad with
    | true => simp [entryStatus, hb, ih]
    | false =>
      simp only [Bool.false_eq_true, if_false, ih]
      congr 1
      unfold entryStatus backendPut
      simp only [hb, Bool.false_eq_true, if_false]
      cases sliceBuffer C u.d u.data <;> rfl

/-- healthy backend: the backend afterwards is the one before plus the good entries, in order -/
theorem updLoop_store (C : Codec) (us : List UpdEntry) :
    ∀ st, (updLoop C none st us).1 =
      (us.filter fun u => decide (GoodEntry C u)).foldl (fun s u => s.put u.d u.data) st := by
  induction us with
  | nil => intro st; simp [updLoop]
  | cons u us ih =>
    intro st
    simp only [updLoop]
    cases hb : u.bad with
    | true =>
      have : ¬ GoodEntry C u := by simp [GoodEntry, hb]
      simp [ih, this]
    | false =>
      simp only [Bool.false_eq_true, if_false, ih]
      by_cases hv : Valid C u.d u.data
      · have hg : GoodEntry C u := ⟨hb, hv⟩
        have hs := (sliceBuffer_ok_iff C u.d u.data u.data).mpr ⟨rfl, hv⟩
        simp [hg, backendPut, hs]
      · have hg : ¬ GoodEntry C u := fun h => hv h.2
        cases hs : sliceBuffer C u.d u.data with
        | ok c => exact absurd ((sliceBuffer_ok_iff C u.d u.data c).mp hs).2 hv
        | error e => simp [hg, backendPut]

/-- any backend faults: whatever the backend holds afterwards was there before or is the
data of a good entry of this request -/
theorem updLoop_get (C : Codec) (fault : Option (Nat × Bool)) (us : List UpdEntry) :
    ∀ st (d : Digest) (c : Bytes), (updLoop C fault st us).1.get d = some c →
      st.get d = some c ∨ ∃ u ∈ us, GoodEntry C u ∧ u.d = d ∧ u.data = c := by
  induction us with
  | nil => intro st d c h; left; simpa [updLoop] using h
  | cons u us ih =>
    intro st d c h
    simp only [updLoop] at h
    by_cases hb : u.bad = true
    · simp only [hb, if_true] at h
      cases ih st d c h with
      | inl h1 => left; exact h1
      | inr h1 => obtain ⟨x, hx, hg⟩ := h1; right; exact ⟨x, by simp [hx], hg⟩
    · simp only [hb, Bool.false_eq_true, if_false] at h
      cases ih _ d c h with
      | inr h1 => obtain ⟨x, hx, hg⟩ := h1; right; exact ⟨x, by simp [hx], hg⟩
      | inl h1 =>
        cases backendPut_cases st u.d (sliceBuffer C u.d u.data) fault with
        | inl h2 => left; rw [h2.1] at h1; exact h1
        | inr h2 =>
          obtain ⟨c', hc', _, hst, _⟩ := h2
          rw [hst, Store.get_put] at h1
          have hs := (sliceBuffer_ok_iff C u.d u.data c').mp hc'
          by_cases hd : u.d = d
          · simp [hd] at h1
            right
            refine ⟨u, by simp, ⟨by simpa using hb, hs.2⟩, hd, ?_⟩
            rw [← h1, hs.1]
          · simp [hd] at h1; left; exact h1

end BB.ByteStream

namespace BB.ByteStream

/-- admission of `BatchReadBlobs`: every digest parses and the sizes add up to at most the limit -/
theorem readAdmit_none (rs : List RdEntry) :
    ∀ (remaining : Int), 0 ≤ remaining → readAdmit remaining rs = none →
      (∀ r ∈ rs, r.bad = false) ∧ ((rs.map fun r => (r.d.size : Int)).sum ≤ remaining) := by
  induction rs with
  | nil => intro remaining h0 _; simpa using h0
  | cons r rs ih =>
    intro remaining h0 h
    simp only [readAdmit] at h
    by_cases hb : r.bad = true
    · simp [hb] at h
    · by_cases hs : (r.d.size : Int) > remaining
      · simp [hb, hs] at h
      · simp only [hb, Bool.false_eq_true, if_false, hs] at h
        have := ih _ (by omega) h
        refine ⟨?_, ?_⟩
        · intro x hx
          cases hx with
          | head => simpa using hb
          | tail _ hx => exact this.1 x hx
        · simp only [List.map_cons, List.sum_cons]
          have h2 := this.2
          omega

theorem mem_dedup (l : List Digest) (d : Digest) : d ∈ dedup l ↔ d ∈ l := by
  induction l with
  | nil => simp [dedup]
  | cons x xs ih =>
    simp only [dedup]
    by_cases hx : x ∈ xs
    · simp only [hx, if_true, ih, List.mem_cons]
      constructor
      · intro h; exact Or.inr h
      · intro h
        cases h with
        | inl h => rw [h]; exact hx
        | inr h => exact h
    · simp [hx, ih]

theorem nodup_dedup (l : List Digest) : (dedup l).Nodup := by
  induction l with
  | nil => simp [dedup]
  | cons x xs ih =>
    simp only [dedup]
    by_cases hx : x ∈ xs
    · simp [hx, ih]
    · simp only [hx, if_false, List.nodup_cons]
      exact ⟨fun h => hx ((mem_dedup xs x).mp h), ih⟩

end BB.ByteStream
