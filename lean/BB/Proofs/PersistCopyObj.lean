import BB.Proofs.PersistSecs
/-!
# The copy phase: what changes for the objects (one object becomes `copied`)
-/
namespace BB.Persist

/-- `a` is `b` up to `data` and `copied`. -/
def SameButCopy (a b : Obj) : Prop :=
  a.id = b.id ∧ a.gid = b.gid ∧ a.slot = b.slot ∧ a.off = b.off ∧ a.size = b.size ∧ a.key = b.key ∧ a.abs = b.abs ∧
  a.upload = b.upload ∧ a.mine = b.mine ∧ a.fin = b.fin ∧ a.precov = b.precov ∧ a.durable = b.durable

theorem filter_length_le_of_imp {α : Type} (p q : α → Bool) : ∀ (l : List α), (∀ a ∈ l, p a = true → q a = true) →
    (l.filter p).length ≤ (l.filter q).length := by
  intro l
  induction l with
  | nil => intro _; simp
  | cons a l ih =>
    intro h
    have ih' := ih (fun x hx => h x (List.mem_cons_of_mem _ hx))
    simp only [List.filter_cons]
    by_cases hp : p a = true
    · have hq := h a (by simp) hp
      simp [hp, hq]; exact ih'
    · simp only [hp]
      by_cases hq : q a = true
      · simp [hq]; omega
      · simp [hq]; exact ih'

theorem objInv_copy {c : Cfg} {objs : List Obj} {p : PBL} {z : List Blk} {pins : List Nat} {no ng : Nat}
    {sh sh' : List (Nat × Nat)} (g : Obj → Obj) (hg : ∀ x, SameButCopy (g x) x)
    (hmono : ∀ x ∈ objs, x.copied = true → g x = x)
    (hsh : ∀ x ∈ objs, (g x).copied = true → ((g x).key, (g x).data) ∈ sh')
    (ho : ObjInv c objs p z pins no ng sh) : ObjInv c (objs.map g) p z pins no ng sh' := by
  have hmem : ∀ o' ∈ objs.map g, ∃ o ∈ objs, o' = g o := by
    intro o' h; obtain ⟨o, h1, h2⟩ := List.mem_map.1 h; exact ⟨o, h1, h2.symm⟩
  have hcop : ∀ x ∈ objs, x.copied = true → (g x).copied = true := by
    intro x hx hc; rw [hmono x hx hc]; exact hc
  constructor
  · have : (objs.map g).map (·.id) = objs.map (·.id) := by
      simp only [List.map_map]; apply List.map_congr_left; intro o _; exact (hg o).1
    rw [this]; exact ho.ids
  · intro o' h; obtain ⟨o, h1, rfl⟩ := hmem o' h; rw [(hg o).1]; exact ho.idLt o h1
  · intro o' h; obtain ⟨o, h1, rfl⟩ := hmem o' h; rw [(hg o).2.2.2.2.1]; exact ho.size o h1
  · intro o' h; obtain ⟨o, h1, rfl⟩ := hmem o' h; rw [(hg o).2.1]; exact ho.gidLt o h1
  · intro o' h b hb hgid; obtain ⟨o, h1, rfl⟩ := hmem o' h
    rw [(hg o).2.2.1]; exact ho.slotOk o h1 b hb (by rw [← (hg o).2.1]; exact hgid)
  · intro o' h hm i b hb hgid; obtain ⟨o, h1, rfl⟩ := hmem o' h
    obtain ⟨_, k2, _, k4, k5, _, k7, _, k9, _⟩ := hg o
    rw [k7, k4, k5]
    exact ho.place o h1 (by rw [← k9]; exact hm) i b hb (by rw [← k2]; exact hgid)
  · intro o' h hm; obtain ⟨o, h1, rfl⟩ := hmem o' h
    obtain ⟨_, k2, _, _, _, _, k7, _, k9, _⟩ := hg o
    rw [k7, k2]
    exact ho.absIn o h1 (by rw [← k9]; exact hm)
  · intro o' h hm b hb hgid; obtain ⟨o, h1, rfl⟩ := hmem o' h
    obtain ⟨_, k2, _, k4, _, _, _, _, k9, _⟩ := hg o
    rw [k4]
    exact ho.baseLe o h1 (by rw [← k9]; exact hm) b hb (by rw [← k2]; exact hgid)
  · intro o' h hm; obtain ⟨o, h1, rfl⟩ := hmem o' h
    obtain ⟨_, k2, _, k4, k5, _, _, _, k9, _, _, k12⟩ := hg o
    obtain ⟨r1, r2, r3⟩ := ho.restored o h1 (by rw [← k9]; exact hm)
    rw [k12, k2, k4, k5]
    exact ⟨r1, hcop o h1 r2, r3⟩
  · intro a' ha b' hb m1 m2 hgid hid
    obtain ⟨a, a1, rfl⟩ := hmem a' ha
    obtain ⟨b, b1, rfl⟩ := hmem b' hb
    obtain ⟨ka1, ka2, _, ka4, ka5, _, _, _, ka9, _⟩ := hg a
    obtain ⟨kb1, kb2, _, kb4, kb5, _, _, _, kb9, _⟩ := hg b
    rw [ka4, ka5, kb4, kb5]
    exact ho.disj a a1 b b1 (by rw [← ka9]; exact m1) (by rw [← kb9]; exact m2) (by rw [← ka2, ← kb2]; exact hgid)
      (by rw [← ka1, ← kb1]; exact hid)
  · intro o' h hm hc; obtain ⟨o, h1, rfl⟩ := hmem o' h
    obtain ⟨_, k2, _, _, _, _, _, _, k9, _⟩ := hg o
    rw [k2]
    have : o.copied = false := by
      cases hoc : o.copied with
      | false => rfl
      | true => rw [hcop o h1 hoc] at hc; cases hc
    exact ho.heldW o h1 (by rw [← k9]; exact hm) this
  · intro gid
    refine Nat.le_trans ?_ (ho.pinCount gid)
    rw [List.filter_map, List.length_map]
    apply filter_length_le_of_imp
    intro o hom hp
    obtain ⟨_, k2, _, _, _, _, _, _, k9, _⟩ := hg o
    simp only [Function.comp, Bool.and_eq_true, Bool.not_eq_true', beq_iff_eq] at hp ⊢
    obtain ⟨⟨p1, p2⟩, p3⟩ := hp
    refine ⟨⟨by rw [← k9]; exact p1, ?_⟩, by rw [← k2]; exact p3⟩
    cases hoc : o.copied with
    | false => rfl
    | true => rw [hcop o hom hoc] at p2; cases p2
  · intro o' h hfin; obtain ⟨o, h1, rfl⟩ := hmem o' h
    obtain ⟨_, _, _, _, _, _, _, _, _, k10, _⟩ := hg o
    exact hcop o h1 (ho.fin o h1 (by rw [← k10]; exact hfin))
  · intro o' h; obtain ⟨o, h1, rfl⟩ := hmem o' h
    obtain ⟨_, _, _, _, _, _, _, _, k9, _, k11, k12⟩ := hg o
    rw [k9, k11, k12]
    obtain ⟨f1, f2⟩ := ho.flags o h1
    exact ⟨fun hp => ⟨(f1 hp).1, hcop o h1 (f1 hp).2⟩, fun hd => hcop o h1 (f2 hd)⟩
  · intro o' h hc; obtain ⟨o, h1, rfl⟩ := hmem o' h
    exact hsh o h1 hc
  · exact ho.aligned
  · exact ho.cursor

end BB.Persist
