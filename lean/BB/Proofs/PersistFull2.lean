import BB.Proofs.PersistFull
import BB.Proofs.IndexFrame
/-!
# The executable store: every run projects to a history of the world; lookups are served correctly
-/
namespace BB.Persist
open BB.Index

theorem tab_some {f : Full} {s : Nat} {R : Index.Rec} (h : f.tab s = some R) :
    ∃ r i, f.w.idx.curGet s = some r ∧ f.w.resolve r = some i ∧
      R = ⟨r.key, r.att, BB.Store.mkLoc (f.w.pbl.released + i) r.off r.size⟩ := by
  unfold Full.tab at h
  cases hc : f.w.idx.curGet s with
  | none => simp [hc] at h
  | some r =>
    cases hr : f.w.resolve r with
    | none => simp [hc, hr] at h
    | some i => simp [hc, hr] at h; exact ⟨r, i, rfl, hr, h.symm⟩

/-- A record the running store can read back describes a finalized object in a block of the list. -/
theorem tab_guard {f : Full} (h : Inv f.w) {s : Nat} {R : Index.Rec} (ht : f.tab s = some R) : Guard f.w R := by
  obtain ⟨r, i, hc, hr, rfl⟩ := tab_some ht
  obtain ⟨b, o, hb, ho, hg, hk, hoff, hsz, hcp, e, hfin, _⟩ := h.recs.res r (mem_recsOf_of_curGet hc) i (resolve_some hr)
  refine ⟨o, b, ho, hk, ?_, ?_, by rw [hfin]; rfl, ?_, ?_, hg.symm⟩
  · simp [BB.Store.locOff_mkLoc, hoff]
  · simp [BB.Store.locSize_mkLoc, hsz]
  · simp [BB.Store.locBlk_mkLoc]
  · simp [BB.Store.locBlk_mkLoc, hb]

theorem indexPut_steps {c : FCfg} {f f' : Full} {k : Nat} {l : BB.Store.Loc} (h : Inv f.w) (hg : Guard f.w ⟨k, 0, l⟩)
    (hp : Full.indexPut c f k l = some f') : Steps f.w f'.w := by
  unfold Full.indexPut at hp
  cases ha : Full.applyWrites f.w (Full.putWrites c.idx f.thr c.idx.maxPut f.tab ⟨k, 0, l⟩) with
  | none => simp [ha] at hp
  | some w' =>
    simp only [ha, Option.some.injEq] at hp
    subst hp
    refine (applyWrites_steps _ _ _ ?_ ha).1
    intro p hpm
    have hq := putWrites_closed c.idx f.thr (fun key loc => ∃ att, Guard f.w ⟨key, att, loc⟩) c.idx.maxPut f.tab ⟨k, 0, l⟩
      ⟨0, hg⟩ ?_ p hpm
    · obtain ⟨att, hgd⟩ := hq
      exact hgd
    · intro s R hR
      obtain ⟨hRs, _⟩ := Index.live_some hR
      exact ⟨R.att, tab_guard h hRs⟩

/-- One operation of the executable store: steps of the world under any block-map bookkeeping, or
`finalizePut` (the finalizer followed by `keyLocationMap.Put`). -/
inductive FStep (c : FCfg) : Full → Full → Prop
  | world {f : Full} {w' : World} (bm' : BB.BlockMap.St) : Steps f.w w' → FStep c f ⟨w', bm'⟩
  | finalizePut {f f' : Full} {id : Nat} {r : String} : Full.finalizePut c f id = some (r, f') → FStep c f f'

inductive FReach (c : FCfg) (cfg : Cfg) : Full → Prop
  | init (bm : BB.BlockMap.St) : FReach c cfg ⟨World.fresh cfg, bm⟩
  | step {f f' : Full} : FReach c cfg f → FStep c f f' → FReach c cfg f'

theorem finalizePut_steps {c : FCfg} {f f' : Full} {id : Nat} {r : String} (h : Inv f.w)
    (hp : Full.finalizePut c f id = some (r, f')) : Steps f.w f'.w := by
  unfold Full.finalizePut at hp
  cases ho : f.w.obj? id with
  | none => simp [ho] at hp
  | some o =>
    simp only [ho] at hp
    cases hf : f.w.finalize id with
    | bad => simp [hf] at hp
    | unavailable => simp [hf] at hp; rw [← hp.2]; exact Steps.refl _
    | internal => simp [hf] at hp; rw [← hp.2]; exact Steps.refl _
    | ok w1 =>
      simp only [hf] at hp
      have hs1 : Steps f.w w1 := Steps.single (Step.finalize hf)
      have h1 : Inv w1 := inv_step h (Step.finalize hf)
      split at hp
      · simp only [Option.some.injEq, Prod.mk.injEq] at hp
        rw [← hp.2]; exact hs1
      · cases hi : Full.indexPut c { f with w := w1 } o.key (BB.Store.mkLoc o.abs o.off o.size) with
        | none => simp [hi] at hp
        | some f2 =>
          simp only [hi, Option.some.injEq, Prod.mk.injEq] at hp
          rw [← hp.2]
          refine hs1.trans (indexPut_steps (f := { f with w := w1 }) h1 ?_ hi)
          -- the freshly finalized object
          obtain ⟨hom, hid⟩ := obj?_some ho
          unfold World.finalize at hf
          simp only [ho] at hf
          split at hf
          · cases hf
          · rename_i hcond
            simp only [Bool.or_eq_true, Bool.not_eq_true', not_or, Bool.not_eq_false, Bool.not_eq_true] at hcond
            cases hpf : f.w.pbl.finalize o.abs o.off o.size f.w.nextSeed with
            | unavailable => simp [hpf] at hf
            | internal => simp [hpf] at hf
            | ok p' e =>
              simp only [hpf, World.Fin.ok.injEq] at hf
              subst hf
              have hrel := (finalize_fields hpf).2.1
              have hrel' := (finalize_fields hpf).2.2.2.1
              -- the updated object
              have hmem : setFin id e o ∈ (f.w.objs.map (setFin id e)) := List.mem_map.2 ⟨o, hom, rfl⟩
              have hself := setFin_self (e := e) hid
              obtain ⟨_, habs⟩ := h1.obj.absIn (setFin id e o) hmem (by rw [hself]; exact hcond.1.2)
              rw [hself] at habs
              obtain ⟨b, hb, hbg⟩ := habs (by show p'.released ≤ o.abs; rw [hrel']; exact hrel)
              refine ⟨setFin id e o, b, hmem, by rw [hself], ?_, ?_, by rw [hself]; rfl, ?_, ?_, ?_⟩
              · rw [hself]; simp [BB.Store.locOff_mkLoc]
              · rw [hself]; simp [BB.Store.locSize_mkLoc]
              · simp only [BB.Store.locBlk_mkLoc]; show p'.released ≤ o.abs; rw [hrel']; exact hrel
              · simp only [BB.Store.locBlk_mkLoc]; exact hb
              · rw [hself]; exact hbg

theorem freach_world {c : FCfg} {cfg : Cfg} (hss : 0 < cfg.ss) {f : Full} (h : FReach c cfg f) : Reach cfg f.w := by
  induction h with
  | init bm => exact Reach.init
  | step _ hs ih =>
    cases hs with
    | world bm' hst => exact reach_steps ih hst
    | finalizePut hp => exact reach_steps ih (finalizePut_steps (inv_reach hss ih) hp)

end BB.Persist
