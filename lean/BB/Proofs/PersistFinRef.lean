import BB.Proofs.PersistRef
/-!
# What the finalizer does to the epochs
-/
namespace BB.Persist

/-- The fields of the list after a successful finalizer, spelled out. -/
theorem finalize_fields {p p' : PBL} {abs off size fresh e : Nat} (hf : p.finalize abs off size fresh = .ok p' e) :
    p.closed = false ∧ p.released ≤ abs ∧
    p'.oldestEpoch = p.oldestEpoch ∧ p'.released = p.released ∧ p'.syncingEpochs = p.syncingEpochs ∧
    p'.syncedEpochs = p.syncedEpochs ∧ p'.toRelease = p.toRelease ∧ p'.releasing = p.releasing ∧ p'.closed = p.closed ∧
    p'.blocks.length = p.blocks.length ∧
    e = p'.oldestEpoch + (p'.seeds.length - 1) ∧
    (p.bumps abs = true → p'.seeds = p.seeds ++ [fresh] ∧ p'.epochLast = p.epochLast ++ [p.released + p.blocks.length - 1]) ∧
    (p.bumps abs = false → p'.seeds = p.seeds ∧ p'.epochLast = p.epochLast) := by
  unfold PBL.finalize at hf
  split at hf
  · simp at hf
  · split at hf
    · simp at hf
    · rename_i hcl hrel
      simp only [PBL.FinRes.ok.injEq] at hf
      obtain ⟨rfl, rfl⟩ := hf
      by_cases hb : p.bumps abs = true
      · simp [hb, PBL.setBlk] at hcl ⊢
        exact ⟨hcl, by omega⟩
      · simp [hb, PBL.setBlk] at hcl ⊢
        exact ⟨hcl, by omega⟩

theorem refToIdx_finalize_mono {p p' : PBL} {abs off size fresh e0 : Nat} (hf : p.finalize abs off size fresh = .ok p' e0)
    {e bfl : Nat} {r : Nat × Nat} (hr : p.refToIdx e bfl = some r) : p'.refToIdx e bfl = some r := by
  obtain ⟨_, _, ho, hrel, _, _, _, _, _, _, _, hb1, hb0⟩ := finalize_fields hf
  obtain ⟨i, sd⟩ := r
  obtain ⟨h0, last, h1, h2, h3, h4, hi⟩ := (refToIdx_iff p e bfl i sd).1 hr
  refine (refToIdx_iff p' e bfl i sd).2 ⟨by omega, last, ?_, ?_, by omega, by omega, by omega⟩
  · by_cases hb : p.bumps abs = true
    · rw [(hb1 hb).1, ho, List.getElem?_append_left (List.getElem?_eq_some_iff.1 h1).1]; exact h1
    · rw [(hb0 (by simpa using hb)).1, ho]; exact h1
  · by_cases hb : p.bumps abs = true
    · rw [(hb1 hb).2, ho, List.getElem?_append_left (List.getElem?_eq_some_iff.1 h2).1]; exact h2
    · rw [(hb0 (by simpa using hb)).2, ho]; exact h2

/-- A reference that resolves after the finalizer resolved before it the same way, or carries the
seed the finalizer has just drawn. -/
theorem refToIdx_finalize_inv {p p' : PBL} {abs off size fresh e0 : Nat} (hw : WFP p)
    (hf : p.finalize abs off size fresh = .ok p' e0) {e bfl i sd : Nat} (hr : p'.refToIdx e bfl = some (i, sd)) :
    p.refToIdx e bfl = some (i, sd) ∨ (sd = fresh ∧ p.bumps abs = true) := by
  obtain ⟨_, _, ho, hrel, _, _, _, _, _, _, _, hb1, hb0⟩ := finalize_fields hf
  obtain ⟨h0, last, h1, h2, h3, h4, hi⟩ := (refToIdx_iff p' e bfl i sd).1 hr
  by_cases hb : p.bumps abs = true
  · rw [(hb1 hb).1, ho] at h1
    rw [(hb1 hb).2, ho] at h2
    by_cases hq : e - p.oldestEpoch < p.seeds.length
    · rw [List.getElem?_append_left hq] at h1
      rw [List.getElem?_append_left (by rw [← hw.seedsLen]; exact hq)] at h2
      exact Or.inl ((refToIdx_iff p e bfl i sd).2 ⟨by omega, last, h1, h2, by omega, by omega, by omega⟩)
    · rw [List.getElem?_append_right (by omega)] at h1
      have : sd = fresh := by
        cases hk : e - p.oldestEpoch - p.seeds.length with
        | zero => simp [hk] at h1; exact h1.symm
        | succ k => simp [hk] at h1
      exact Or.inr ⟨this, hb⟩
  · rw [(hb0 (by simpa using hb)).1, ho] at h1
    rw [(hb0 (by simpa using hb)).2, ho] at h2
    exact Or.inl ((refToIdx_iff p e bfl i sd).2 ⟨by omega, last, h1, h2, by omega, by omega, by omega⟩)

/-- The epoch the finalizer reports is not yet being synchronised, and its last block is not older
than the block written to. -/
theorem finalize_epoch {p p' : PBL} {abs off size fresh e : Nat} (hw : WFP p)
    (hf : p.finalize abs off size fresh = .ok p' e) (hin : abs < p.released + p.blocks.length) :
    p.oldestEpoch + p.syncingEpochs ≤ e ∧ p'.oldestEpoch ≤ e ∧
      ∃ last, p'.epochLast[e - p'.oldestEpoch]? = some last ∧ abs ≤ last := by
  obtain ⟨_, _, ho, hrel, _, _, _, _, _, _, he, hb1, hb0⟩ := finalize_fields hf
  by_cases hb : p.bumps abs = true
  · obtain ⟨hs, hl⟩ := hb1 hb
    have h2 := hw.sync2
    rw [hs] at he
    simp at he
    refine ⟨by omega, by omega, p.released + p.blocks.length - 1, ?_, by omega⟩
    rw [hl, he, ho]
    rw [List.getElem?_append_right (by rw [← hw.seedsLen]; omega)]
    have : p.oldestEpoch + p.seeds.length - p.oldestEpoch - p.epochLast.length = 0 := by rw [← hw.seedsLen]; omega
    rw [this]
    rfl
  · have hb' : p.bumps abs = false := by simpa using hb
    obtain ⟨hs, hl⟩ := hb0 hb'
    unfold PBL.bumps at hb'
    simp only [Bool.or_eq_false_iff] at hb'
    obtain ⟨hne, hlast⟩ := hb'
    have h2 := hw.sync2
    have hlen := hw.seedsLen
    have hne' : p.epochLast.length ≠ p.syncingEpochs := by simpa using hne
    cases hg : p.epochLast.getLast? with
    | none => simp [hg] at hlast
    | some l =>
      simp [hg] at hlast
      rw [hs] at he
      refine ⟨by omega, by omega, l, ?_, hlast⟩
      rw [hl, he, ho, ← hg, List.getLast?_eq_getElem?]
      congr 1
      omega

end BB.Persist
