import BB.Proofs.BlockMap
/-!
C04: reference counting of blocks. `pins` holds one entry per open reader / in-flight writer,
`zombies` are blocks that left the list while pinned. The allocator may hand out
`free` blocks; `free + blocks in the list + zombies` is constant.
-/
namespace BB.BlockMap

/-- Pinned blocks that left the list are exactly the zombies. -/
structure ZInv (s : St) : Prop where
  z1 : ∀ z ∈ s.zombies, z < s.released ∧ z ∈ s.pins
  z2 : s.zombies.Nodup
  z3 : ∀ b ∈ s.pins, b < s.released → b ∈ s.zombies

/-- The part of the state `ZInv` talks about, plus what the balance statements need. -/
def zkey (s : St) : Nat × List Nat × List Nat := (s.released, s.pins, s.zombies)

theorem zinv_congr {s s' : St} (z : ZInv s) (h : zkey s' = zkey s) : ZInv s' := by
  simp [zkey] at h
  obtain ⟨h1, h2, h3⟩ := h
  exact ⟨by rw [h1, h2, h3]; exact z.z1, by rw [h3]; exact z.z2, by rw [h1, h2, h3]; exact z.z3⟩

theorem popFront_zinv {s s' : St} (h : popFront s = some s') (z : ZInv s) :
    ZInv s' ∧ s'.pins = s.pins := by
  unfold popFront at h
  cases hc : s.caps with
  | nil => simp [hc] at h
  | cons x rest =>
    simp [hc] at h
    subst h
    refine ⟨?_, rfl⟩
    by_cases hp : s.released ∈ s.pins
    · refine ⟨?_, ?_, ?_⟩
      · intro y hy
        simp [hp] at hy
        rcases hy with hy | hy
        · subst hy; exact ⟨by simp, hp⟩
        · have := z.z1 y hy; exact ⟨by simp; omega, this.2⟩
      · simp [hp]
        exact ⟨fun hm => by have := (z.z1 _ hm).1; omega, z.z2⟩
      · intro b hb hlt
        simp at hlt
        simp [hp]
        by_cases hbe : b = s.released
        · exact Or.inl hbe
        · exact Or.inr (z.z3 b hb (by omega))
    · refine ⟨?_, ?_, ?_⟩
      · intro y hy
        simp [hp] at hy
        have := z.z1 y hy; exact ⟨by simp; omega, this.2⟩
      · simpa [hp] using z.z2
      · intro b hb hlt
        simp at hlt
        simp [hp]
        have : b ≠ s.released := fun e => hp (e ▸ hb)
        exact z.z3 b hb (by omega)

theorem pin_zinv {s : St} {blk : Nat} (z : ZInv s) (h : s.released ≤ blk) : ZInv (pin s blk) := by
  refine ⟨?_, z.z2, ?_⟩
  · intro y hy
    have := z.z1 y hy
    exact ⟨this.1, List.mem_cons_of_mem _ this.2⟩
  · intro b hb hlt
    simp [pin] at hb hlt
    rcases hb with hb | hb
    · omega
    · exact z.z3 b hb hlt

theorem unpin_zinv {s : St} {blk : Nat} (z : ZInv s) : ZInv (unpin s blk) := by
  unfold unpin
  simp only []
  split
  · rename_i hc
    obtain ⟨_, hnot, _⟩ := hc
    refine ⟨?_, z.z2.erase _, ?_⟩
    · intro y hy
      have hy' := (List.Nodup.mem_erase_iff z.z2).mp hy
      have := z.z1 y hy'.2
      exact ⟨this.1, (List.mem_erase_of_ne hy'.1).mpr this.2⟩
    · intro b hb hlt
      have hb' := List.mem_of_mem_erase hb
      have hne : b ≠ blk := fun e => hnot (e ▸ hb)
      exact (List.mem_erase_of_ne hne).mpr (z.z3 b hb' hlt)
  · rename_i hc
    refine ⟨?_, z.z2, ?_⟩
    · intro y hy
      have := z.z1 y hy
      refine ⟨this.1, ?_⟩
      by_cases hne : y = blk
      · subst hne
        simp only [] at *
        by_cases hin : y ∈ s.pins.erase y
        · exact hin
        · exact absurd ⟨this.2, hin, hy⟩ hc
      · exact (List.mem_erase_of_ne hne).mpr this.2
    · intro b hb hlt
      exact z.z3 b (List.mem_of_mem_erase hb) hlt

/-- `free + blocks + zombies` (the allocator's block count). -/
def total (s : St) : Nat := s.free + s.caps.length + s.zombies.length

theorem pin_total (s : St) (blk : Nat) : total (pin s blk) = total s := rfl

theorem unpin_total (s : St) (blk : Nat) : total (unpin s blk) = total s := by
  unfold unpin total
  simp only []
  split
  · rename_i hc
    have := List.length_erase_of_mem hc.2.2
    have hpos : 0 < s.zombies.length := List.length_pos_of_mem hc.2.2
    simp only []
    omega
  · rfl

end BB.BlockMap

namespace BB.BlockMap

/-- What the refcount invariant needs from a loop outcome. -/
def ResZ (s : St) : Res St → Prop
  | .ok s' => ZInv s' ∧ s'.pins = s.pins
  | .err _ s' => ZInv s' ∧ s'.pins = s.pins
  | _ => True

theorem quarantineStep_z {s s' : St} (h : quarantineStep s = some s') (z : ZInv s) :
    ZInv s' ∧ s'.pins = s.pins := by
  unfold quarantineStep at h
  cases hp : popFront s with
  | none => simp [hp] at h
  | some s1 =>
    obtain ⟨z1, p1⟩ := popFront_zinv hp z
    simp [hp] at h
    subst h
    split
    · exact ⟨zinv_congr z1 rfl, p1⟩
    · split
      · exact ⟨zinv_congr z1 rfl, p1⟩
      · exact ⟨zinv_congr z1 rfl, p1⟩

theorem quarantineLoop_z : ∀ (n : Nat) (s : St), ZInv s → ResZ s (quarantineLoop n s) := by
  intro n
  induction n with
  | zero => intro s z; exact ⟨z, rfl⟩
  | succ n ih =>
    intro s z
    unfold quarantineLoop
    cases hq : quarantineStep s with
    | none => trivial
    | some s1 =>
      obtain ⟨z1, p1⟩ := quarantineStep_z hq z
      have := ih s1 z1
      simp only []
      unfold ResZ at *
      split <;> simp_all

theorem pushBack_z {c : Cfg} {s s' : St} (h : pushBack c s = some s') (z : ZInv s) :
    ZInv s' ∧ s'.pins = s.pins := by
  obtain ⟨_, e⟩ := pushBack_some h
  subst e
  exact ⟨zinv_congr z rfl, rfl⟩

theorem growLoop_z (c : Cfg) : ∀ (fuel : Nat) (s : St), ZInv s → ResZ s (growLoop c fuel s) := by
  intro fuel
  induction fuel with
  | zero => intro s _; trivial
  | succ fuel ih =>
    intro s z
    unfold growLoop
    split
    · cases hp : pushBack c s with
      | none => exact ⟨z, rfl⟩
      | some s1 =>
        obtain ⟨z1, p1⟩ := pushBack_z hp z
        have := ih { s1 with new := s1.new + 1 } (zinv_congr z1 rfl)
        simp only []
        unfold ResZ at *
        split <;> simp_all
    · exact ⟨z, rfl⟩

theorem rotateStep_z (c : Cfg) (s : St) (z : ZInv s) : ResZ s (rotateStep c s) := by
  unfold rotateStep
  split
  · exact ⟨zinv_congr z rfl, rfl⟩
  · cases hp : pushBack c s with
    | none => exact ⟨z, rfl⟩
    | some s1 =>
      obtain ⟨z1, p1⟩ := pushBack_z hp z
      simp only []
      split
      · exact ⟨zinv_congr z1 rfl, p1⟩
      · split
        · cases hpop : popFront { s1 with old := s1.old + 1 } with
          | none => trivial
          | some s2 =>
            obtain ⟨z2, p2⟩ := popFront_zinv hpop (zinv_congr z1 rfl)
            exact ⟨zinv_congr z2 rfl, by simp [resetAlloc, p2, p1]⟩
        · exact ⟨zinv_congr z1 rfl, p1⟩

theorem rotateLoop_z (c : Cfg) (size : Nat) : ∀ (fuel : Nat) (s : St), ZInv s → ResZ s (rotateLoop c size fuel s) := by
  intro fuel
  induction fuel with
  | zero => intro s _; trivial
  | succ fuel ih =>
    intro s z
    unfold rotateLoop
    split
    · trivial
    · exact ⟨z, rfl⟩
    · have h1 := rotateStep_z c s z
      cases hr : rotateStep c s with
      | ok s1 =>
        rw [hr] at h1
        have := ih s1 h1.1
        simp only []
        unfold ResZ at *
        split <;> simp_all
      | err e s1 => rw [hr] at h1; simpa using h1
      | stuck => trivial
      | panic => trivial

theorem pickLoop_z (c : Cfg) (size : Nat) : ∀ (fuel : Nat) (s : St) (idx : Nat) (s' : St),
    pickLoop c size fuel s = .ok (idx, s') → ZInv s → ZInv s' ∧ s'.pins = s.pins ∧ s'.released = s.released := by
  intro fuel
  induction fuel with
  | zero => intro s idx s' h; simp [pickLoop] at h
  | succ fuel ih =>
    intro s idx s' h z
    unfold pickLoop at h
    simp only [] at h
    split at h
    · rename_i r hr
      cases h
      -- the successful try only decrements the attempt counter
      split at hr
      · split at hr
        · simp at hr
        · split at hr
          · cases hr; exact ⟨zinv_congr z rfl, rfl, rfl⟩
          · simp at hr
      · simp at hr
    · split at h
      · simp at h
      · cases hi : incrementAlloc c s with
        | none => simp [hi] at h
        | some s1 =>
          simp [hi] at h
          have e : zkey s1 = zkey s := by
            unfold incrementAlloc at hi
            split at hi
            · simp at hi
            · simp at hi; subst hi; rfl
          obtain ⟨a, b, d⟩ := ih s1 idx s' h (zinv_congr z e)
          simp [zkey] at e
          exact ⟨a, by rw [b, e.2.1], by rw [d, e.1]⟩

end BB.BlockMap

namespace BB.BlockMap

def ResZ2 (s : St) : Res (Nat × St) → Prop
  | .ok (_, s') => ZInv s' ∧ s'.pins = s.pins ∧ True
  | .err _ s' => ZInv s' ∧ s'.pins = s.pins
  | _ => True

theorem pickLoop_no_err (c : Cfg) (size : Nat) : ∀ (fuel : Nat) (s : St) e s', pickLoop c size fuel s ≠ .err e s' := by
  intro fuel
  induction fuel with
  | zero => intro s e s' h; simp [pickLoop] at h
  | succ fuel ih =>
    intro s e s' h
    unfold pickLoop at h
    simp only [] at h
    split at h
    · simp at h
    · split at h
      · simp at h
      · split at h
        · simp at h
        · exact ih _ _ _ h

theorem findBlockWithSpace_z (c : Cfg) (fuelGrow size : Nat) (s : St) (z : ZInv s) :
    ResZ2 s (findBlockWithSpace c fuelGrow size s) := by
  unfold findBlockWithSpace
  by_cases hsz : size > c.blockSize
  · simp only [hsz, if_true]; exact ⟨z, rfl⟩
  · simp only [hsz, if_false]
    have h1 := quarantineLoop_z (s.toBeReleased - s.released) s z
    cases hq : quarantineLoop (s.toBeReleased - s.released) s with
    | ok s1 =>
      rw [hq] at h1
      have h2 := growLoop_z c fuelGrow s1 h1.1
      simp only []
      cases hg : growLoop c fuelGrow s1 with
      | ok s2 =>
        rw [hg] at h2
        have h3 := rotateLoop_z c size (s2.new + 2) s2 h2.1
        simp only []
        cases hr : rotateLoop c size (s2.new + 2) s2 with
        | ok s3 =>
          rw [hr] at h3
          simp only []
          cases hp : pickLoop c size (s3.new + 2) s3 with
          | ok r =>
            obtain ⟨idx, s4⟩ := r
            obtain ⟨a, b, _⟩ := pickLoop_z c size _ s3 idx s4 hp h3.1
            exact ⟨a, by rw [b, h3.2, h2.2, h1.2], trivial⟩
          | err e s4 => exact absurd hp (pickLoop_no_err c size _ _ _ _)
          | stuck => trivial
          | panic => trivial
        | err e s3 => rw [hr] at h3; exact ⟨h3.1, by rw [h3.2, h2.2, h1.2]⟩
        | stuck => trivial
        | panic => trivial
      | err e s2 => rw [hg] at h2; exact ⟨h2.1, by rw [h2.2, h1.2]⟩
      | stuck => trivial
      | panic => trivial
    | err e s1 => rw [hq] at h1; exact h1
    | stuck => trivial
    | panic => trivial

def ResZT (s : St) : Res (Ticket × St) → Prop
  | .ok (t, s') => ZInv s' ∧ s'.pins = t.blk :: s.pins ∧ total s' = total s
  | .err _ s' => ZInv s' ∧ s'.pins = s.pins
  | _ => True

/-- `Put` pins exactly the ticket's block (the writer's reference) and keeps the refcount invariant. -/
theorem put_z (c : Cfg) (fuelGrow size : Nat) (s : St) (z : ZInv s) (hc : CfgOK c) (hw : WF c s)
    (hf : c.policy.bound ≤ fuelGrow) : ResZT s (put c fuelGrow size s) := by
  unfold put
  have h := findBlockWithSpace_z c fuelGrow size s z
  cases hfb : findBlockWithSpace c fuelGrow size s with
  | ok r =>
    obtain ⟨idx, s1⟩ := r
    rw [hfb] at h
    simp only []
    cases hcap : s1.caps[idx]? with
    | none => trivial
    | some cap =>
      simp only []
      have hz : ZInv (pin { s1 with caps := s1.caps.set idx (cap - size) } (s1.released + idx)) :=
        pin_zinv (zinv_congr h.1 rfl) (by simp)
      refine ⟨zinv_congr hz rfl, by simp [h.2.1], ?_⟩
      -- accounting: the loops keep `total` (Step.freeEq), the reservation does not touch it
      by_cases hsz : size ≤ c.blockSize
      · rcases findBlockWithSpace_ok c fuelGrow size s hc hw hsz hf with ⟨i2, s2, e2, st, _⟩ | ⟨s2, e2, _⟩
        · rw [hfb] at e2; cases e2
          have := st.freeEq
          simp [total]; omega
        · rw [hfb] at e2; cases e2
      · rw [findBlockWithSpace_too_big c fuelGrow size s (by omega)] at hfb; cases hfb
  | err e s1 => rw [hfb] at h; exact h
  | stuck => trivial
  | panic => trivial

end BB.BlockMap
