import BB.Proofs.PersistCommit
import BB.Proofs.PersistFull2
/-!
# C03: a list that is closed for writing refuses; the executable store on top of it refuses too
-/
namespace BB.Persist

theorem closed_pushBack {w : World} (hc : w.pbl.closed = true) : w.pushBack = none := by
  unfold World.pushBack; rw [if_pos hc]

theorem closed_reserve {w : World} (hc : w.pbl.closed = true) (i size key : Nat) (upload : Bool) :
    w.reserve i size key upload = .closed := by
  unfold World.reserve; rw [if_pos hc]

theorem closed_finalize {w : World} (hc : w.pbl.closed = true) (id : Nat) :
    w.finalize id = .unavailable ∨ w.finalize id = .bad := by
  unfold World.finalize
  split
  · exact Or.inr rfl
  · split
    · exact Or.inr rfl
    · have : ∀ a b c d, w.pbl.finalize a b c d = .unavailable := by
        intro a b c d; unfold PBL.finalize; rw [if_pos hc]
      rw [this]
      exact Or.inl rfl

/-- `closedForWriting` is only reset by a restart. -/
theorem closed_step {w w' : World} (h : Inv w) (hs : Step w w') (hc : w.pbl.closed = true) :
    w'.pbl.closed = true ∨ ∃ kd ki pick lo, w' = w.crashRestart kd ki pick lo := by
  have hv := step_view h hs
  cases hv with
  | crash kd ki pick lo => exact Or.inr ⟨kd, ki, pick, lo, rfl⟩
  | fin hf => exact (finalize_closed hc hf).elim
  | data _ _ _ _ hps => exact Or.inl (closed_pstep hps hc)
  | g1 _ _ _ hg => exact Or.inl (closed_g1step hg hc)
  | swBegin _ _ _ _ _ hget _ => left; rw [(getPersistentState_core hget).closed]; exact hc
  | swStep _ _ hp _ _ _ _ => left; rw [hp]; exact hc
  | swFail _ _ hp _ _ _ => left; rw [hp]; exact hc
  | swDone _ _ hcore _ _ _ _ => left; rw [hcore.closed]; exact hc

/-- The executable store: no allocation succeeds on a closed list ... -/
theorem allocate_closed {c : FCfg} {f : Full} (hc : f.w.pbl.closed = true) (size key : Nat) (upload : Bool)
    (id abs off : Nat) (f' : Full) : Full.allocate c f size key upload ≠ .ok id abs off f' := by
  unfold Full.allocate
  simp only [hc, ↓reduceIte]
  split
  · intro h; cases h
  · split
    · split <;> (intro h; cases h)
    · split <;> (intro h; cases h)
    · intro h; cases h

/-- ... and `finalizePut` reports UNAVAILABLE without touching anything (in particular without
writing an index record). -/
theorem finalizePut_closed {c : FCfg} {f f' : Full} (hc : f.w.pbl.closed = true) {id : Nat} {r : String}
    (hp : Full.finalizePut c f id = some (r, f')) : r = "err unavailable" ∧ f' = f := by
  unfold Full.finalizePut at hp
  split at hp
  · cases hp
  · rcases closed_finalize hc id with hf | hf
    · rw [hf] at hp
      simp only [Option.some.injEq, Prod.mk.injEq] at hp
      exact ⟨hp.1.symm, hp.2.symm⟩
    · rw [hf] at hp
      cases hp

end BB.Persist
