import BB.Model.BlockMap
/-!
Invariants of the block-map model: well-formedness is preserved by every loop of
`findBlockWithSpace`, the loops terminate within their fuel, no Go panic is reachable,
and the bookkeeping facts behind C05 (survival bound) and C08 (quarantine) hold.
-/
namespace BB.BlockMap
open BB.Gen

/-- Configuration sanity as enforced by `new_blob_access.go` / the creators. -/
def CfgOK (c : Cfg) : Prop :=
  1 ≤ c.desiredNew ∧
  match c.policy with
  | .immutable p => ∃ dc : Nat, p.desiredCurrentAndNewBlocks = ((dc + c.desiredNew : Nat) : Int)
  | .mutable p => c.desiredNew = 1 ∧ ∃ dc : Nat, p.desiredCurrentBlocks = (dc : Int)

/-- Policy specific part of the layout invariant. -/
def PolicyInv (c : Cfg) (cur new : Nat) : Prop :=
  match c.policy with
  | .immutable p => ((cur + new : Nat) : Int) ≤ p.desiredCurrentAndNewBlocks ∧
                    ((cur + c.desiredNew : Nat) : Int) ≤ p.desiredCurrentAndNewBlocks
  | .mutable p => new ≤ 1 ∧ ((cur : Nat) : Int) ≤ p.desiredCurrentBlocks

structure WF (c : Cfg) (s : St) : Prop where
  len : s.caps.length = s.old + s.cur + s.new
  rel : s.released ≤ s.toBeReleased
  tbr : s.toBeReleased ≤ s.released + s.caps.length
  cap : ∀ x ∈ s.caps, x ≤ c.blockSize
  idxLo : -1 ≤ s.allocIdx
  idxHi : s.allocIdx < (s.new : Int)
  idxRem : s.allocRem > 0 → 0 ≤ s.allocIdx
  pol : PolicyInv c s.cur s.new

def Quiet (c : Cfg) (s : St) : Prop := s.toBeReleased = s.released ∧ s.old ≤ c.desiredOld

/-- What one or more steps of `findBlockWithSpace` may do to the bookkeeping. -/
structure Step (c : Cfg) (s s' : St) : Prop where
  wf : WF c s'
  relMono : s.released ≤ s'.released
  tbrMono : s.toBeReleased ≤ s'.toBeReleased
  endMono : s.released + s.caps.length ≤ s'.released + s'.caps.length
  freeEq : s'.free + s'.caps.length + s'.zombies.length = s.free + s.caps.length + s.zombies.length
  pushMono : s.pushes ≤ s'.pushes
  oldLe : s.old ≤ c.desiredOld → s'.old ≤ c.desiredOld
  sync : s.toBeReleased = s.released → s'.toBeReleased = s'.released
  quiet : Quiet c s → Quiet c s' ∧ s.old ≤ s'.old ∧
    (s'.released - s.released) + (s'.old - s.old) ≤ s'.pushes - s.pushes ∧
    (s.released < s'.released → s'.old = c.desiredOld)

theorem Step.refl {c : Cfg} {s : St} (h : WF c s) : Step c s s :=
  ⟨h, Nat.le_refl _, Nat.le_refl _, Nat.le_refl _, rfl, Nat.le_refl _, fun o => o, fun o => o,
   fun q => ⟨q, Nat.le_refl _, by omega, by omega⟩⟩

theorem Step.trans {c : Cfg} {s s' s'' : St} (h1 : Step c s s') (h2 : Step c s' s'') : Step c s s'' := by
  refine ⟨h2.wf, Nat.le_trans h1.relMono h2.relMono, Nat.le_trans h1.tbrMono h2.tbrMono,
    Nat.le_trans h1.endMono h2.endMono, by have := h1.freeEq; have := h2.freeEq; omega,
    Nat.le_trans h1.pushMono h2.pushMono, fun o => h2.oldLe (h1.oldLe o), fun o => h2.sync (h1.sync o), ?_⟩
  intro q
  obtain ⟨q1, a1, b1, c1⟩ := h1.quiet q
  obtain ⟨q2, a2, b2, c2⟩ := h2.quiet q1
  have := h1.relMono; have := h2.relMono; have := h1.pushMono; have := h2.pushMono
  have := q2.2
  refine ⟨q2, by omega, by omega, ?_⟩
  intro hlt
  by_cases h : s'.released < s''.released
  · exact c2 h
  · have : s.released < s'.released := by omega
    have := c1 this
    omega

/-- Fuel that is always enough for the `ShouldGrowNewBlocks` loop. -/
def Policy.bound : Policy → Nat
  | .immutable p => p.desiredCurrentAndNewBlocks.toNat + 1
  | .mutable _ => 2

theorem policyInv_cur_dec {c : Cfg} {cur new : Nat} (h : PolicyInv c cur new) : PolicyInv c (cur - 1) new := by
  unfold PolicyInv at *
  split <;> simp_all <;> omega

theorem policyInv_new_dec {c : Cfg} {cur new : Nat} (h : PolicyInv c cur new) : PolicyInv c cur (new - 1) := by
  unfold PolicyInv at *
  split <;> simp_all <;> omega

/-! ### Loop 1: quarantine -/

theorem quarantineStep_ok {c : Cfg} {s : St} (h : WF c s) (hlt : s.released < s.toBeReleased) :
    ∃ s', quarantineStep s = some s' ∧ Step c s s' ∧ s'.released = s.released + 1 ∧
      s'.toBeReleased = s.toBeReleased ∧ s'.pushes = s.pushes ∧ s'.old ≤ s.old := by
  have htbr := h.tbr
  have hlen := h.len
  unfold quarantineStep popFront
  cases hc : s.caps with
  | nil => simp [hc] at htbr; omega
  | cons x rest =>
    simp only []
    have hcap : ∀ y ∈ rest, y ≤ c.blockSize := fun y hy => h.cap y (by rw [hc]; exact List.mem_cons_of_mem _ hy)
    rw [hc] at hlen htbr
    simp at hlen htbr
    have hrel := h.rel
    refine ⟨_, rfl, ?_⟩
    have hq : ¬ Quiet c s := by unfold Quiet; omega
    split
    · rename_i hold
      simp at hold
      refine ⟨⟨⟨by simp; omega, by simp; omega, by simp; omega, hcap, h.idxLo, h.idxHi, h.idxRem, h.pol⟩,
        by simp, by simp, by simp [hc]; omega, by simp [hc]; split <;> simp <;> omega, by simp, fun o => Nat.le_trans (Nat.sub_le _ _) o, fun o => by omega, fun q => absurd q hq⟩,
        by simp, by simp, by simp, by simp⟩
    · split
      · rename_i hold hcur
        simp at hold hcur
        refine ⟨⟨⟨by simp; omega, by simp; omega, by simp; omega, hcap, h.idxLo, h.idxHi, h.idxRem, policyInv_cur_dec h.pol⟩,
          by simp, by simp, by simp [hc]; omega, by simp [hc]; split <;> simp <;> omega, by simp, fun o => o, fun o => by omega, fun q => absurd q hq⟩,
          by simp, by simp, by simp, by simp⟩
      · rename_i hold hcur
        simp at hold hcur
        refine ⟨⟨⟨by simp [resetAlloc]; omega, by simp [resetAlloc]; omega, by simp [resetAlloc]; omega, by simpa [resetAlloc] using hcap,
          by simp [resetAlloc], by simp [resetAlloc]; omega, by simp [resetAlloc], by simpa [resetAlloc] using policyInv_new_dec h.pol⟩,
          by simp [resetAlloc], by simp [resetAlloc], by simp [resetAlloc, hc]; omega, by simp [resetAlloc, hc]; split <;> simp <;> omega, by simp [resetAlloc], by simp [resetAlloc], fun o => by omega,
          fun q => absurd q hq⟩,
          by simp [resetAlloc], by simp [resetAlloc], by simp [resetAlloc], by simp [resetAlloc]⟩

theorem quarantineLoop_ok (c : Cfg) : ∀ (n : Nat) (s : St), WF c s → s.toBeReleased = s.released + n →
    ∃ s', quarantineLoop n s = .ok s' ∧ Step c s s' ∧ s'.released = s'.toBeReleased ∧
      s'.toBeReleased = s.toBeReleased ∧ s'.pushes = s.pushes ∧ s'.old ≤ s.old ∧ (n = 0 → s' = s) := by
  intro n
  induction n with
  | zero =>
    intro s h hn
    exact ⟨s, rfl, Step.refl h, by omega, rfl, rfl, Nat.le_refl _, fun _ => rfl⟩
  | succ n ih =>
    intro s h hn
    obtain ⟨s1, e1, st1, r1, t1, p1, o1⟩ := quarantineStep_ok h (by omega)
    obtain ⟨s2, e2, st2, r2, t2, p2, o2, _⟩ := ih s1 st1.wf (by omega)
    refine ⟨s2, ?_, st1.trans st2, r2, by omega, by omega, by omega, by omega⟩
    simp [quarantineLoop, e1, e2]

/-! ### Loop 2: grow the "new" group -/

theorem pushBack_some {c : Cfg} {s s1 : St} (h : pushBack c s = some s1) :
    s.free ≥ 1 ∧ s1 = { s with caps := s.caps ++ [c.blockSize], free := s.free - 1, pushes := s.pushes + 1 } := by
  unfold pushBack at h
  split at h
  · simp at h
  · simp at h; exact ⟨by omega, h.symm⟩

theorem pushBack_none {c : Cfg} {s : St} (h : pushBack c s = none) : s.free = 0 := by
  unfold pushBack at h
  split at h
  · assumption
  · simp at h

/-- Remaining iterations of loop 2. -/
def growMeasure (c : Cfg) (s : St) : Nat :=
  match c.policy with
  | .immutable p => (p.desiredCurrentAndNewBlocks - ((s.cur + s.new : Nat) : Int)).toNat
  | .mutable _ => 1 - s.new

theorem growNew_true {c : Cfg} {s : St} (hp : PolicyInv c s.cur s.new) (hg : c.policy.growNew s.cur s.new = true) :
    PolicyInv c s.cur (s.new + 1) ∧ growMeasure c { s with new := s.new + 1 } + 1 = growMeasure c s := by
  unfold PolicyInv growMeasure at *
  unfold Policy.growNew at hg
  split <;> simp_all [ImmutablePolicy.shouldGrowNewBlocks, MutablePolicy.shouldGrowNewBlocks] <;> omega

theorem growLoop_ok (c : Cfg) : ∀ (fuel : Nat) (s : St), WF c s → growMeasure c s < fuel →
    (∃ s', growLoop c fuel s = .ok s' ∧ Step c s s' ∧ c.policy.growNew s'.cur s'.new = false ∧
      s'.old = s.old ∧ s'.released = s.released ∧ s'.toBeReleased = s.toBeReleased ∧ s'.cur = s.cur ∧ s.new ≤ s'.new) ∨
    (∃ s', growLoop c fuel s = .err "unavailable" s' ∧ Step c s s' ∧ s'.free = 0) := by
  intro fuel
  induction fuel with
  | zero => intro s _ hm; omega
  | succ fuel ih =>
    intro s h hm
    unfold growLoop
    by_cases hg : c.policy.growNew s.cur s.new = true
    · simp only [hg, if_true]
      cases hpb : pushBack c s with
      | none =>
        right
        exact ⟨s, rfl, Step.refl h, pushBack_none hpb⟩
      | some s1 =>
        obtain ⟨hfree, hs1⟩ := pushBack_some hpb
        subst hs1
        obtain ⟨hpol, hmeas⟩ := growNew_true h.pol hg
        have hlen := h.len; have htbr := h.tbr; have hrel := h.rel
        have hstep : Step c s { s with caps := s.caps ++ [c.blockSize], free := s.free - 1, pushes := s.pushes + 1, new := s.new + 1 } := by
          refine ⟨⟨by simp; omega, hrel, by simp; omega, ?_, h.idxLo, ?_, h.idxRem, hpol⟩,
            Nat.le_refl _, Nat.le_refl _, by simp, by simp; omega, by simp, fun o => o, fun o => o, ?_⟩
          · intro x hx
            simp at hx
            rcases hx with hx | hx
            · exact h.cap x hx
            · omega
          · have := h.idxHi; simp; omega
          · intro q
            exact ⟨q, Nat.le_refl _, by simp, by simp⟩
        have hm' : growMeasure c { s with caps := s.caps ++ [c.blockSize], free := s.free - 1, pushes := s.pushes + 1, new := s.new + 1 } < fuel := by
          have : growMeasure c { s with caps := s.caps ++ [c.blockSize], free := s.free - 1, pushes := s.pushes + 1, new := s.new + 1 }
              = growMeasure c { s with new := s.new + 1 } := by
            unfold growMeasure; split <;> rfl
          omega
        rcases ih _ hstep.wf hm' with ⟨s', e, st, g, a1, a2, a3, a4, a5⟩ | ⟨s', e, st, f⟩
        · left
          exact ⟨s', e, hstep.trans st, g, a1, a2, a3, a4, by simp at a5; omega⟩
        · right
          exact ⟨s', e, hstep.trans st, f⟩
    · left
      simp only [hg]
      exact ⟨s, rfl, Step.refl h, by simpa using hg, rfl, rfl, rfl, rfl, Nat.le_refl _⟩

theorem growNew_false_new {c : Cfg} {cur new : Nat} (hc : CfgOK c) (hp : PolicyInv c cur new)
    (hg : c.policy.growNew cur new = false) : c.desiredNew ≤ new := by
  unfold PolicyInv at hp
  unfold CfgOK at hc
  unfold Policy.growNew at hg
  split at hp <;> simp_all [ImmutablePolicy.shouldGrowNewBlocks, MutablePolicy.shouldGrowNewBlocks] <;> omega

/-! ### Loop 3: rotate until the first "new" block has room -/

/-- The free capacities of the "new" group. -/
def region (s : St) : List Nat := s.caps.drop (s.old + s.cur)

/-- Number of leading "new" blocks without room for `size`. -/
def lacking (size : Nat) (l : List Nat) : Nat := (l.takeWhile (fun cap => !decide (size ≤ cap))).length

theorem lacking_append_full (size b : Nat) (hb : size ≤ b) : ∀ l : List Nat, lacking size (l ++ [b]) = lacking size l := by
  intro l
  induction l with
  | nil => simp [lacking, List.takeWhile, hb]
  | cons x t ih =>
    unfold lacking at *
    simp only [List.cons_append, List.takeWhile]
    split
    · simp [ih]
    · rfl

theorem lacking_le (size : Nat) (l : List Nat) : lacking size l ≤ l.length := by
  induction l with
  | nil => simp [lacking]
  | cons x t ih =>
    unfold lacking at *
    simp only [List.takeWhile]
    split <;> simp <;> omega

theorem drop_succ_append (l : List Nat) (n b : Nat) (h : n + 1 ≤ l.length) :
    (l ++ [b]).drop (n + 1) = (l.drop n).tail ++ [b] := by
  rw [List.drop_append_of_le_length h, List.tail_drop]

theorem hasSpace_region {s : St} {size : Nat} {x : Nat} {t : List Nat} (h : region s = x :: t) :
    hasSpace s (s.old + s.cur) size = some (decide (size ≤ x)) := by
  unfold hasSpace
  have : s.caps[s.old + s.cur]? = some x := by
    have := List.head?_drop (l := s.caps) (i := s.old + s.cur)
    unfold region at h
    rw [h] at this
    simpa using this.symm
  simp [this]

theorem region_length {c : Cfg} {s : St} (h : WF c s) : (region s).length = s.new := by
  unfold region; simp [h.len]

theorem rotateStep_ok {c : Cfg} {s : St} (hc : CfgOK c) (h : WF c s) (hn : c.desiredNew ≤ s.new) :
    (∃ s', rotateStep c s = .ok s' ∧ Step c s s' ∧ c.desiredNew ≤ s'.new ∧
      (region s' = (region s).tail ∨ region s' = (region s).tail ++ [c.blockSize])) ∨
    (∃ s', rotateStep c s = .err "unavailable" s' ∧ Step c s s' ∧ s'.free = 0) := by
  have hlen := h.len; have htbr := h.tbr; have hrel := h.rel
  have hnew1 : 1 ≤ s.new := by have := hc.1; omega
  unfold rotateStep
  by_cases hA : s.new > c.desiredNew
  · -- surplus "new" block from the initial phase becomes "current"
    simp only [hA, if_true]
    left
    refine ⟨_, rfl, ⟨⟨by simp [resetAlloc]; omega, by simpa [resetAlloc] using hrel, by simpa [resetAlloc] using htbr,
      by simpa [resetAlloc] using h.cap, by simp [resetAlloc], by simp [resetAlloc]; omega, by simp [resetAlloc], ?_⟩,
      by simp [resetAlloc], by simp [resetAlloc], by simp [resetAlloc], by simp [resetAlloc], by simp [resetAlloc], by simp [resetAlloc], by simp [resetAlloc],
      fun q => ⟨by simpa [Quiet, resetAlloc] using q, by simp [resetAlloc], by simp [resetAlloc], by simp [resetAlloc]⟩⟩,
      by simp [resetAlloc]; omega, Or.inl ?_⟩
    · have hp := h.pol
      have hc' := hc
      unfold PolicyInv CfgOK at *
      simp only [resetAlloc]
      split <;> simp_all <;> omega
    · simp [region, resetAlloc, List.tail_drop, Nat.add_assoc]
  · simp only [hA, if_false]
    cases hpb : pushBack c s with
    | none =>
      right
      exact ⟨s, rfl, Step.refl h, pushBack_none hpb⟩
    | some s1 =>
      obtain ⟨hfree, hs1⟩ := pushBack_some hpb
      subst hs1
      left
      simp only []
      have hcapApp : ∀ x ∈ s.caps ++ [c.blockSize], x ≤ c.blockSize := by
        intro x hx
        simp at hx
        rcases hx with hx | hx
        · exact h.cap x hx
        · omega
      by_cases hgc : c.policy.growCur s.cur = true
      · simp only [hgc, if_true]
        refine ⟨_, rfl, ⟨⟨by simp [resetAlloc]; omega, by simpa [resetAlloc] using hrel, by simp [resetAlloc]; omega,
          by simpa [resetAlloc] using hcapApp, by simp [resetAlloc], by simp [resetAlloc]; omega, by simp [resetAlloc], ?_⟩,
          by simp [resetAlloc], by simp [resetAlloc], by simp [resetAlloc], by simp [resetAlloc]; omega, by simp [resetAlloc], by simp [resetAlloc], by simp [resetAlloc],
          fun q => ⟨by simpa [Quiet, resetAlloc] using q, by simp [resetAlloc], by simp [resetAlloc], by simp [resetAlloc]⟩⟩,
          by simpa [resetAlloc] using hn, Or.inr ?_⟩
        · have hp := h.pol
          unfold PolicyInv at *
          unfold Policy.growCur at hgc
          simp only [resetAlloc]
          split <;> simp_all [ImmutablePolicy.shouldGrowCurrentBlocks, MutablePolicy.shouldGrowCurrentBlocks] <;> omega
        · simp only [region, resetAlloc]
          have e1 : s.old + (s.cur + 1) = s.old + s.cur + 1 := by omega
          rw [e1]
          exact drop_succ_append _ _ _ (by omega)
      · simp only [hgc]
        by_cases hpop : s.old + 1 > c.desiredOld
        · simp only [hpop, if_true]
          unfold popFront
          cases hcs : s.caps ++ [c.blockSize] with
          | nil => simp at hcs
          | cons y rest =>
            simp only []
            have hrl : rest.length = s.caps.length := by
              have := congrArg List.length hcs
              simp at this; omega
            have hrest : rest = (s.caps ++ [c.blockSize]).tail := by rw [hcs]; rfl
            refine ⟨_, rfl, ⟨⟨by simp [resetAlloc]; omega, by simp [resetAlloc]; omega, by simp [resetAlloc]; omega,
              ?_, by simp [resetAlloc], by simp [resetAlloc]; omega, by simp [resetAlloc], by simpa [resetAlloc] using h.pol⟩,
              by simp [resetAlloc], by simp [resetAlloc]; omega, by simp [resetAlloc]; omega, by simp [resetAlloc]; split <;> simp <;> omega, by simp [resetAlloc], by simp [resetAlloc], by simp [resetAlloc]; omega,
              ?_⟩, by simpa [resetAlloc] using hn, Or.inr ?_⟩
            · intro x hx
              simp [resetAlloc] at hx
              exact hcapApp x (by rw [hcs]; exact List.mem_cons_of_mem _ hx)
            · intro q
              unfold Quiet at *
              simp [resetAlloc]
              omega
            · simp only [region, resetAlloc]
              rw [hrest, List.drop_tail]
              have e1 : s.old + 1 - 1 + s.cur + 1 = s.old + s.cur + 1 := by omega
              rw [e1]
              exact drop_succ_append _ _ _ (by omega)
        · simp only [hpop, if_false]
          refine ⟨_, rfl, ⟨⟨by simp [resetAlloc]; omega, by simpa [resetAlloc] using hrel, by simp [resetAlloc]; omega,
            by simpa [resetAlloc] using hcapApp, by simp [resetAlloc], by simp [resetAlloc]; omega, by simp [resetAlloc], by simpa [resetAlloc] using h.pol⟩,
            by simp [resetAlloc], by simp [resetAlloc], by simp [resetAlloc], by simp [resetAlloc]; omega, by simp [resetAlloc], by simp [resetAlloc]; omega, by simp [resetAlloc],
            ?_⟩, by simpa [resetAlloc] using hn, Or.inr ?_⟩
          · intro q
            unfold Quiet at *
            simp [resetAlloc]
            omega
          · simp only [region, resetAlloc]
            have e1 : s.old + 1 + s.cur = s.old + s.cur + 1 := by omega
            rw [e1]
            exact drop_succ_append _ _ _ (by omega)

theorem rotateLoop_ok (c : Cfg) (size : Nat) (hc : CfgOK c) (hsz : size ≤ c.blockSize) : ∀ (fuel : Nat) (s : St),
    WF c s → c.desiredNew ≤ s.new → lacking size (region s) < fuel →
    (∃ s', rotateLoop c size fuel s = .ok s' ∧ Step c s s' ∧ c.desiredNew ≤ s'.new ∧
      hasSpace s' (s'.old + s'.cur) size = some true) ∨
    (∃ s', rotateLoop c size fuel s = .err "unavailable" s' ∧ Step c s s' ∧ s'.free = 0) := by
  intro fuel
  induction fuel with
  | zero => intro s _ _ hm; omega
  | succ fuel ih =>
    intro s h hn hm
    have hrl := region_length h
    have hnew1 : 1 ≤ s.new := by have := hc.1; omega
    cases hreg : region s with
    | nil => rw [hreg] at hrl; simp at hrl; omega
    | cons x t =>
      have hhs := hasSpace_region (size := size) hreg
      unfold rotateLoop
      rw [hhs]
      by_cases hx : size ≤ x
      · left
        simp only [hx, decide_true]
        exact ⟨s, rfl, Step.refl h, hn, by rw [hhs]; simp [hx]⟩
      · simp only [hx, decide_false]
        have hlack : lacking size (x :: t) = lacking size t + 1 := by
          simp [lacking, List.takeWhile, hx]
        rcases rotateStep_ok hc h hn with ⟨s1, e1, st1, n1, hr⟩ | ⟨s1, e1, st1, f1⟩
        · rw [e1]
          simp only []
          have hm1 : lacking size (region s1) < fuel := by
            rw [hreg] at hr hm
            rcases hr with hr | hr
            · rw [hr]; simp; omega
            · rw [hr]; simp; rw [lacking_append_full size c.blockSize hsz]; omega
          rcases ih s1 st1.wf n1 hm1 with ⟨s2, e2, st2, n2, hs2⟩ | ⟨s2, e2, st2, f2⟩
          · left; exact ⟨s2, e2, st1.trans st2, n2, hs2⟩
          · right; exact ⟨s2, e2, st1.trans st2, f2⟩
        · right
          rw [e1]
          exact ⟨s1, rfl, st1, f1⟩

/-! ### Loop 4: pick a "new" block -/

/-- `s'` differs from `s` only in the allocation cursor. -/
def SameButCursor (s s' : St) : Prop :=
  s'.old = s.old ∧ s'.cur = s.cur ∧ s'.new = s.new ∧ s'.released = s.released ∧
  s'.toBeReleased = s.toBeReleased ∧ s'.caps = s.caps ∧ s'.free = s.free ∧ s'.pushes = s.pushes ∧
  s'.zombies = s.zombies ∧ s'.pins = s.pins

theorem step_of_sameButCursor {c : Cfg} {s s' : St} (h : WF c s') (e : SameButCursor s s') : Step c s s' := by
  obtain ⟨e1, e2, e3, e4, e5, e6, e7, e8, e9, _⟩ := e
  refine ⟨h, by omega, by omega, by rw [e6]; omega, by rw [e6, e9]; omega, by omega, by omega, by omega, ?_⟩
  intro q
  unfold Quiet at *
  refine ⟨by omega, by omega, by omega, by omega⟩

theorem hasSpace_some_lt {s : St} {i size : Nat} {b : Bool} (h : hasSpace s i size = some b) : i < s.caps.length := by
  unfold hasSpace at h
  cases hc : s.caps[i]? with
  | none => simp [hc] at h
  | some x => exact (List.getElem?_eq_some_iff.mp hc).1

theorem hasSpace_isSome {s : St} {i size : Nat} (h : i < s.caps.length) : ∃ b, hasSpace s i size = some b := by
  unfold hasSpace
  rw [List.getElem?_eq_getElem h]
  exact ⟨_, rfl⟩

theorem pickLoop_ok (c : Cfg) (size : Nat) : ∀ (fuel : Nat) (s : St), WF c s → 1 ≤ s.new →
    hasSpace s (s.old + s.cur) size = some true →
    ((s.new : Int) - s.allocIdx + 1 ≤ fuel ∨ (s.allocIdx = 0 ∧ s.allocRem > 0 ∧ 1 ≤ fuel)) →
    ∃ idx s', pickLoop c size fuel s = .ok (idx, s') ∧ WF c s' ∧ SameButCursor s s' ∧
      s.old + s.cur ≤ idx ∧ idx < s.old + s.cur + s.new ∧ hasSpace s idx size = some true := by
  intro fuel
  induction fuel with
  | zero =>
    intro s h _ _ hf
    have := h.idxHi
    omega
  | succ fuel ih =>
    intro s h hnew hfirst hf
    have hlo := h.idxLo; have hhi := h.idxHi; have hlen := h.len
    unfold pickLoop
    by_cases hrem : s.allocRem > 0
    · have hge := h.idxRem hrem
      have hidx : ¬ (((s.old + s.cur : Nat) : Int) + s.allocIdx < 0) := by omega
      have hin : (((s.old + s.cur : Nat) : Int) + s.allocIdx).toNat < s.caps.length := by omega
      obtain ⟨b, hb⟩ := hasSpace_isSome (size := size) hin
      cases b with
      | true =>
        simp only [hrem, if_true, hidx, if_false, hb]
        refine ⟨_, _, rfl, ⟨hlen, h.rel, h.tbr, h.cap, hlo, hhi, fun _ => hge, h.pol⟩,
          ⟨rfl, rfl, rfl, rfl, rfl, rfl, rfl, rfl, rfl, rfl⟩, by omega, by omega, hb⟩
      | false =>
        simp only [hrem, if_true, hidx, if_false, hb]
        have hnp : ¬ (True ∧ (False ∨ (some false : Option Bool).isNone = true)) := by simp
        simp only [hnp, if_false, true_and, false_or, Option.isNone_some, Bool.false_eq_true]
        -- this block has no room, so it is not the first "new" block
        have hne : s.allocIdx ≠ 0 := by
          intro h0
          rw [h0] at hb
          have e : (((s.old + s.cur : Nat) : Int) + 0).toNat = s.old + s.cur := by omega
          rw [e, hfirst] at hb
          simp at hb
        unfold incrementAlloc
        have hn0 : ¬ s.new = 0 := by omega
        simp only [hn0, if_false]
        rcases hf with hf | ⟨h0, _, _⟩
        · by_cases hwrap : s.allocIdx + 1 = (s.new : Int)
          · have hmod : (s.allocIdx + 1) % (s.new : Int) = 0 := by rw [hwrap]; exact Int.emod_self
            have := ih { s with allocIdx := (s.allocIdx + 1) % (s.new : Int),
                                allocRem := if (s.allocIdx + 1) % (s.new : Int) ≥ (s.new : Int) - (c.desiredNew : Int)
                                  then 2 ^ (s.new - ((s.allocIdx + 1) % (s.new : Int)).toNat - 1) else 2 ^ c.desiredNew }
              ⟨hlen, h.rel, h.tbr, h.cap, by simp [hmod], by simp [hmod]; omega, by simp [hmod], h.pol⟩ hnew hfirst
              (Or.inr ⟨by simp [hmod], by
                simp only [hmod]
                split <;> exact Nat.pos_of_ne_zero (by simp), by omega⟩)
            obtain ⟨idx, s', e, w, sb, r1, r2, r3⟩ := this
            exact ⟨idx, s', e, w, sb, r1, r2, r3⟩
          · have hmod : (s.allocIdx + 1) % (s.new : Int) = s.allocIdx + 1 := Int.emod_eq_of_lt (by omega) (by omega)
            have := ih { s with allocIdx := (s.allocIdx + 1) % (s.new : Int),
                                allocRem := if (s.allocIdx + 1) % (s.new : Int) ≥ (s.new : Int) - (c.desiredNew : Int)
                                  then 2 ^ (s.new - ((s.allocIdx + 1) % (s.new : Int)).toNat - 1) else 2 ^ c.desiredNew }
              ⟨hlen, h.rel, h.tbr, h.cap, by simp [hmod]; omega, by simp [hmod]; omega, by simp [hmod]; omega, h.pol⟩ hnew hfirst
              (Or.inl (by simp [hmod]; omega))
            obtain ⟨idx, s', e, w, sb, r1, r2, r3⟩ := this
            exact ⟨idx, s', e, w, sb, r1, r2, r3⟩
        · exact absurd h0 hne
    · have hrem0 : s.allocRem = 0 := by omega
      simp only [hrem, if_false]
      have hnp : ¬ (False ∧ ((((s.old + s.cur : Nat) : Int) + s.allocIdx < 0) ∨
          (hasSpace s (((s.old + s.cur : Nat) : Int) + s.allocIdx).toNat size).isNone = true)) := by simp
      simp only [hnp, if_false]
      unfold incrementAlloc
      have hn0 : ¬ s.new = 0 := by omega
      simp only [hn0, if_false]
      rcases hf with hf | ⟨_, hr, _⟩
      · by_cases hwrap : s.allocIdx + 1 = (s.new : Int)
        · have hmod : (s.allocIdx + 1) % (s.new : Int) = 0 := by rw [hwrap]; exact Int.emod_self
          have := ih { s with allocIdx := (s.allocIdx + 1) % (s.new : Int),
                              allocRem := if (s.allocIdx + 1) % (s.new : Int) ≥ (s.new : Int) - (c.desiredNew : Int)
                                then 2 ^ (s.new - ((s.allocIdx + 1) % (s.new : Int)).toNat - 1) else 2 ^ c.desiredNew }
            ⟨hlen, h.rel, h.tbr, h.cap, by simp [hmod], by simp [hmod]; omega, by simp [hmod], h.pol⟩ hnew hfirst
            (Or.inr ⟨by simp [hmod], by
              simp only [hmod]
              split <;> exact Nat.pos_of_ne_zero (by simp), by omega⟩)
          obtain ⟨idx, s', e, w, sb, r1, r2, r3⟩ := this
          exact ⟨idx, s', e, w, sb, r1, r2, r3⟩
        · have hmod : (s.allocIdx + 1) % (s.new : Int) = s.allocIdx + 1 := Int.emod_eq_of_lt (by omega) (by omega)
          have := ih { s with allocIdx := (s.allocIdx + 1) % (s.new : Int),
                              allocRem := if (s.allocIdx + 1) % (s.new : Int) ≥ (s.new : Int) - (c.desiredNew : Int)
                                then 2 ^ (s.new - ((s.allocIdx + 1) % (s.new : Int)).toNat - 1) else 2 ^ c.desiredNew }
            ⟨hlen, h.rel, h.tbr, h.cap, by simp [hmod]; omega, by simp [hmod]; omega, by simp [hmod]; omega, h.pol⟩ hnew hfirst
            (Or.inl (by simp [hmod]; omega))
          obtain ⟨idx, s', e, w, sb, r1, r2, r3⟩ := this
          exact ⟨idx, s', e, w, sb, r1, r2, r3⟩
      · omega

/-! ### `findBlockWithSpace` and `Put` -/

theorem growMeasure_lt_bound {c : Cfg} {s : St} (h : WF c s) : growMeasure c s < c.policy.bound := by
  unfold growMeasure Policy.bound
  split <;> omega

theorem hasSpace_sameCaps {s s' : St} (e : s'.caps = s.caps) (i size : Nat) : hasSpace s' i size = hasSpace s i size := by
  unfold hasSpace; rw [e]

theorem findBlockWithSpace_ok (c : Cfg) (fuelGrow size : Nat) (s : St) (hc : CfgOK c) (h : WF c s)
    (hsz : size ≤ c.blockSize) (hf : c.policy.bound ≤ fuelGrow) :
    (∃ idx s', findBlockWithSpace c fuelGrow size s = .ok (idx, s') ∧ Step c s s' ∧
      s'.old + s'.cur ≤ idx ∧ idx < s'.old + s'.cur + s'.new ∧ hasSpace s' idx size = some true ∧
      s'.toBeReleased = s'.released) ∨
    (∃ s', findBlockWithSpace c fuelGrow size s = .err "unavailable" s' ∧ Step c s s' ∧ s'.free = 0) := by
  unfold findBlockWithSpace
  have hnsz : ¬ size > c.blockSize := by omega
  simp only [hnsz, if_false]
  obtain ⟨s1, e1, st1, sy1, _, _, _, _⟩ := quarantineLoop_ok c (s.toBeReleased - s.released) s h (by have := h.rel; omega)
  rw [e1]
  simp only []
  rcases growLoop_ok c fuelGrow s1 st1.wf (by have := growMeasure_lt_bound st1.wf; omega) with
    ⟨s2, e2, st2, g2, _, _, _, _, _⟩ | ⟨s2, e2, st2, f2⟩
  · rw [e2]
    simp only []
    have hn2 : c.desiredNew ≤ s2.new := growNew_false_new hc st2.wf.pol g2
    have hl2 : lacking size (region s2) < s2.new + 2 := by
      have := lacking_le size (region s2); rw [region_length st2.wf] at this; omega
    rcases rotateLoop_ok c size hc hsz (s2.new + 2) s2 st2.wf hn2 hl2 with ⟨s3, e3, st3, n3, hs3⟩ | ⟨s3, e3, st3, f3⟩
    · rw [e3]
      simp only []
      have hnew3 : 1 ≤ s3.new := by have := hc.1; omega
      obtain ⟨idx, s4, e4, w4, sb4, r1, r2, r3⟩ := pickLoop_ok c size (s3.new + 2) s3 st3.wf hnew3 hs3
        (Or.inl (by have := st3.wf.idxLo; omega))
      left
      have sb4' := sb4
      obtain ⟨b1, b2, b3, _, _, b6, _, _, _, _⟩ := sb4'
      refine ⟨idx, s4, e4, (st1.trans st2).trans (st3.trans (step_of_sameButCursor w4 sb4)), by omega, by omega, ?_,
        (st2.trans (st3.trans (step_of_sameButCursor w4 sb4))).sync sy1.symm⟩
      rw [hasSpace_sameCaps b6]; exact r3
    · right
      rw [e3]
      exact ⟨s3, rfl, (st1.trans st2).trans st3, f3⟩
  · right
    rw [e2]
    exact ⟨s2, rfl, st1.trans st2, f2⟩

theorem findBlockWithSpace_too_big (c : Cfg) (fuelGrow size : Nat) (s : St) (hsz : c.blockSize < size) :
    findBlockWithSpace c fuelGrow size s = .err "invalid-argument" s := by
  unfold findBlockWithSpace
  simp [hsz]

/-- Everything `Put` guarantees about the space it reserves. -/
theorem put_ok (c : Cfg) (fuelGrow size : Nat) (s : St) (hc : CfgOK c) (h : WF c s)
    (hsz : size ≤ c.blockSize) (hf : c.policy.bound ≤ fuelGrow) :
    (∃ t s', put c fuelGrow size s = .ok (t, s') ∧ Step c s s' ∧ t.size = size ∧
      s'.released + s'.old + s'.cur ≤ t.blk ∧ t.blk < s'.released + s'.caps.length ∧
      t.off + size ≤ c.blockSize ∧
      (∃ cap, s'.caps[t.blk - s'.released]? = some cap ∧ t.off + size = c.blockSize - cap) ∧
      s'.toBeReleased = s'.released) ∨
    (∃ s', put c fuelGrow size s = .err "unavailable" s' ∧ Step c s s' ∧ s'.free = 0) := by
  unfold put
  rcases findBlockWithSpace_ok c fuelGrow size s hc h hsz hf with ⟨idx, s1, e1, st1, r1, r2, r3, sy⟩ | ⟨s1, e1, st1, f1⟩
  · left
    rw [e1]
    simp only []
    have hlen := st1.wf.len
    have hidx : idx < s1.caps.length := by omega
    have hget : s1.caps[idx]? = some s1.caps[idx] := List.getElem?_eq_getElem hidx
    rw [hget]
    simp only []
    have hcap : s1.caps[idx] ≤ c.blockSize := st1.wf.cap _ (List.getElem_mem hidx)
    have hfit : size ≤ s1.caps[idx] := by
      unfold hasSpace at r3
      rw [hget] at r3
      simpa using r3
    refine ⟨_, _, rfl, st1.trans ?_, rfl, by simp; omega, by simp; omega, by simp; omega, ?_, by simpa using sy⟩
    · have w := st1.wf
      refine ⟨⟨by simpa using w.len, w.rel, by simpa using w.tbr, ?_, w.idxLo, w.idxHi, w.idxRem, w.pol⟩,
        Nat.le_refl _, Nat.le_refl _, by simp, by simp, Nat.le_refl _, fun o => o, fun o => o,
        fun q => ⟨q, Nat.le_refl _, by simp, by simp⟩⟩
      intro x hx
      simp only at hx
      rcases List.mem_or_eq_of_mem_set hx with hx | hx
      · exact w.cap x hx
      · omega
    · refine ⟨s1.caps[idx] - size, ?_, by simp; omega⟩
      simp [hidx]
  · right
    rw [e1]
    exact ⟨s1, rfl, st1, f1⟩

end BB.BlockMap
