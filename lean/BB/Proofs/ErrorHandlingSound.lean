import BB.Proofs.ErrorHandlingEhOps
/-!
# Helper lemmas for C16, part 7: intact sources are never rejected

If every buffer holds the right bytes (up to its first failure) and a buffer that does not fail holds
all of them, a stream stitched at the right offsets *is* the object, so the validating layers have
nothing to complain about: no size or checksum error is raised, neither towards the handler nor
towards the consumer.  (A wrong resume offset would show up exactly as such an error.)
-/
namespace BB.ErrorHandling

/-- Errors that say "the data is corrupt". -/
def Err.isCorruption : Err → Prop
  | .sizeMismatch _ _ | .tooBig | .hashMismatch => True
  | _ => False

/-- The buffer is intact: it holds `D`, or a prefix of `D` followed by a failure. -/
def Sound (D : Bytes) : Buf → Prop
  | .bytes data => data = D
  | .readerAt data _ => data = D
  | .error e => ¬ e.isCorruption
  | .chunks d s => d.size = D.length ∧ d.valid D = true ∧ (scan s).1.flatten <+: D ∧
      ((scan s).2 = .eof → (scan s).1.flatten = D)
  | .reader d s => d.size = D.length ∧ d.valid D = true ∧ (scan s).1.flatten <+: D ∧
      ((scan s).2 = .eof → (scan s).1.flatten = D)
  | .clone d s => d.size = D.length ∧ d.valid D = true ∧ (scan s).1.flatten <+: D ∧
      ((scan s).2 = .eof → (scan s).1.flatten = D)

def SoundH (D : Bytes) (h : List Resp) : Prop := ∀ b, Resp.repl b ∈ h → Sound D b

theorem SoundH.tail {D : Bytes} {r : Resp} {h : List Resp} (g : SoundH D (r :: h)) : SoundH D h :=
  fun b hb => g b (List.mem_cons_of_mem _ hb)

theorem SoundH.head {D : Bytes} {b : Buf} {h : List Resp} (g : SoundH D (.repl b :: h)) : Sound D b :=
  g b List.mem_cons_self

theorem Sound.good {D : Bytes} {b : Buf} (s : Sound D b) : Good D b := by
  cases b with
  | bytes data => exact s
  | readerAt data suf => exact s
  | error e => trivial
  | chunks d sc => exact ⟨s.1, s.2.2.1⟩
  | reader d sc => exact ⟨s.1, s.2.2.1⟩
  | clone d sc => exact ⟨s.1, s.2.2.1⟩

theorem SoundH.good {D : Bytes} {h : List Resp} (s : SoundH D h) : GoodH D h := fun b hb => (s b hb).good

theorem scan_term_not_corrupt (s : List Item) (e : Err) (h : (scan s).2 = .err e) : ¬ e.isCorruption := by
  induction s with
  | nil => simp [scan] at h
  | cons x r ih =>
    cases x with
    | data b => exact ih (by simpa [scan] using h)
    | fail k => simp [scan] at h; subst h; simp [Err.isCorruption]

theorem decision_not_corrupt : ∀ (h : List Resp) (n : Nat) (e : Err), decision h n = some e → ¬ e.isCorruption
  | _, 0, e, he => by simp [decision] at he
  | [], _+1, e, he => by simp [decision] at he; subst he; simp [Err.isCorruption]
  | .fail k :: _, _+1, e, he => by simp [decision] at he; subst he; simp [Err.isCorruption]
  | .repl _ :: h, n+1, e, he => decision_not_corrupt h n e (by simpa [decision] using he)

/-! ## Whole-operation retries -/

theorem casFull_sound {D : Bytes} {d : Digest} {s : List Item} {e : Err}
    (h1 : d.size = D.length) (h2 : d.valid D = true) (h3 : (scan s).1.flatten <+: D)
    (h4 : (scan s).2 = .eof → (scan s).1.flatten = D) (he : casFull d s = .error e) : ¬ e.isCorruption := by
  unfold casFull at he
  dsimp only at he
  have hle := h3.length_le
  by_cases c1 : (scan s).1.flatten.length > d.size
  · omega
  · rw [if_neg c1] at he
    cases ht : (scan s).2 with
    | err e' => rw [ht] at he; cases he; exact scan_term_not_corrupt s _ ht
    | eof =>
      rw [ht] at he
      dsimp only at he
      have := h4 ht
      by_cases c2 : (scan s).1.flatten.length < d.size
      · rw [this] at c2; omega
      · rw [if_neg c2] at he
        rw [this, if_pos h2] at he
        cases he

theorem whole_sound {D : Bytes} {b : Buf} {e : Err} (s : Sound D b) (he : whole b = .error e) : ¬ e.isCorruption := by
  cases b with
  | bytes data => simp [whole] at he
  | readerAt data suf => simp [whole] at he
  | error e' => simp [whole] at he; subst he; exact s
  | chunks d sc => exact casFull_sound s.1 s.2.1 s.2.2.1 s.2.2.2 he
  | reader d sc => exact casFull_sound s.1 s.2.1 s.2.2.1 s.2.2.2 he
  | clone d sc => exact casFull_sound s.1 s.2.1 s.2.2.1 s.2.2.2 he

theorem baseSlice_sound {D : Bytes} {max : Nat} {b : Buf} {e : Err} (s : Sound D b)
    (he : baseSlice max b = .error e) : ¬ e.isCorruption := by
  cases b with
  | bytes data =>
    simp only [baseSlice] at he
    by_cases hh : data.length > max
    · rw [if_pos hh] at he; cases he; simp [Err.isCorruption]
    · rw [if_neg hh] at he; cases he
  | readerAt data suf =>
    simp only [baseSlice] at he
    by_cases hh : data.length > max
    · rw [if_pos hh] at he; cases he; simp [Err.isCorruption]
    · rw [if_neg hh] at he; cases he
  | error e' => simp [baseSlice] at he; subst he; exact s
  | chunks d sc =>
    simp only [baseSlice] at he
    by_cases hh : d.size > max
    · rw [if_pos hh] at he; cases he; simp [Err.isCorruption]
    · rw [if_neg hh] at he; exact casFull_sound s.1 s.2.1 s.2.2.1 s.2.2.2 he
  | reader d sc =>
    simp only [baseSlice] at he
    by_cases hh : d.size > max
    · rw [if_pos hh] at he; cases he; simp [Err.isCorruption]
    · rw [if_neg hh] at he; exact casFull_sound s.1 s.2.1 s.2.2.1 s.2.2.2 he
  | clone d sc =>
    simp only [baseSlice] at he
    by_cases hh : d.size > max
    · rw [if_pos hh] at he; cases he; simp [Err.isCorruption]
    · rw [if_neg hh] at he; exact casFull_sound s.1 s.2.1 s.2.2.1 s.2.2.2 he

theorem baseReadAt_sound {D : Bytes} {off n : Nat} {b : Buf} {e : Err} (s : Sound D b)
    (he : baseReadAt off n b = .error e) : ¬ e.isCorruption := by
  cases b with
  | bytes data =>
    simp only [baseReadAt] at he
    by_cases hh : off > data.length
    · rw [if_pos hh] at he; cases he
    · rw [if_neg hh] at he; cases he
  | readerAt data suf =>
    simp only [baseReadAt] at he
    by_cases hh : off ≥ (data ++ suf).length
    · rw [if_pos hh] at he; cases he
    · rw [if_neg hh] at he; cases he
  | error e' => simp [baseReadAt] at he; subst he; exact s
  | chunks d sc =>
    simp only [baseReadAt] at he
    cases hc : casFull d sc with
    | error e' => rw [hc] at he; cases he; exact casFull_sound s.1 s.2.1 s.2.2.1 s.2.2.2 hc
    | ok data => rw [hc] at he; cases he
  | clone d sc =>
    simp only [baseReadAt] at he
    cases hc : casFull d sc with
    | error e' => rw [hc] at he; cases he; exact casFull_sound s.1 s.2.1 s.2.2.1 s.2.2.2 hc
    | ok data => rw [hc] at he; cases he
  | reader d sc =>
    simp only [baseReadAt] at he
    cases hc : casFull d sc with
    | error e' => rw [hc] at he; cases he; exact casFull_sound s.1 s.2.1 s.2.2.1 s.2.2.2 hc
    | ok data =>
      rw [hc] at he
      dsimp only at he
      by_cases hh : off > data.length
      · rw [if_pos hh] at he; cases he
      · rw [if_neg hh] at he; cases he

theorem retry_log {α : Type} (f : Buf → Except Err α) (P : Err → Prop) (Q : Buf → Prop)
    (hf : ∀ b e, Q b → f b = .error e → P e) : ∀ (h : List Resp) (b : Buf),
    Q b → (∀ b', Resp.repl b' ∈ h → Q b') → ∀ e, e ∈ (retry f b h).2 → P e
  | h, b, hb, hh, e, hm => by
    unfold retry at hm
    cases hfb : f b with
    | ok a => rw [hfb] at hm; simp at hm
    | error e0 =>
      rw [hfb] at hm
      have hp := hf b e0 hb hfb
      cases h with
      | nil => simp at hm; subst hm; exact hp
      | cons r h =>
        cases r with
        | fail k => simp at hm; subst hm; exact hp
        | repl b' =>
          simp only [List.mem_cons] at hm
          rcases hm with rfl | hm
          · exact hp
          · exact retry_log f P Q hf h b' (hh b' List.mem_cons_self)
              (fun b'' hb'' => hh b'' (List.mem_cons_of_mem _ hb'')) e hm

/-! ## Chunk streams -/

theorem openChunks_sound {D : Bytes} {b : Buf} (off m : Nat) (s : Sound D b) :
    ((openChunks b off m).2 = .eof → (openChunks b off m).1.flatten = D.drop off) ∧
    (∀ e, (openChunks b off m).2 = .err e → ¬ e.isCorruption) := by
  have hfl := openChunks_flatten b off m
  cases b with
  | bytes data =>
    simp only [Sound] at s; subst s
    simp only [content] at hfl
    refine ⟨fun _ => hfl, fun e he => ?_⟩
    simp only [openChunks] at he
    by_cases hh : off > data.length
    · rw [if_pos hh] at he; cases he; simp [Err.isCorruption]
    · rw [if_neg hh] at he; cases he
  | readerAt data suf =>
    simp only [Sound] at s; subst s
    simp only [content] at hfl
    refine ⟨fun _ => hfl, fun e he => ?_⟩
    simp only [openChunks] at he
    by_cases hh : off > data.length
    · rw [if_pos hh] at he; cases he; simp [Err.isCorruption]
    · rw [if_neg hh] at he; cases he
  | error e' =>
    refine ⟨fun he => by simp [openChunks] at he, fun e he => ?_⟩
    simp [openChunks] at he; subst he; exact s
  | chunks d sc =>
    have hterm : (openChunks (.chunks d sc) off m).2 = (scan sc).2 := by
      simp only [openChunks]; cases dropChunks (scan sc).1 off <;> rfl
    rw [hterm]
    simp only [content] at hfl
    exact ⟨fun he => by rw [hfl, s.2.2.2 he], fun e he => scan_term_not_corrupt sc e he⟩
  | reader d sc =>
    have hterm : (openChunks (.reader d sc) off m).2 = (scan sc).2 := by
      simp only [openChunks]
      by_cases hh : off > (scan sc).1.flatten.length
      · rw [if_pos hh]
      · rw [if_neg hh]
    rw [hterm]
    simp only [content] at hfl
    exact ⟨fun he => by rw [hfl, s.2.2.2 he], fun e he => scan_term_not_corrupt sc e he⟩
  | clone d sc =>
    have hterm : (openChunks (.clone d sc) off m).2 = (scan sc).2 := by
      simp only [openChunks]; cases dropChunks ((scan sc).1.flatMap (pieces (min m cloneChunk))) off <;> rfl
    rw [hterm]
    simp only [content] at hfl
    exact ⟨fun he => by rw [hfl, s.2.2.2 he], fun e he => scan_term_not_corrupt sc e he⟩

/-- With intact sources the stitched stream, when it ends in EOF, is all of `D` from `off` on, and
the handler is only offered failures, never complaints about the data. -/
theorem ehChunks_sound (D : Bytes) (m : Nat) : ∀ (h : List Resp) (cs : List Bytes) (t : Term) (off : Nat),
    SoundH D h → cs.flatten <+: D.drop off → (t = .eof → cs.flatten = D.drop off) →
    (∀ e, t = .err e → ¬ e.isCorruption) →
    ((ehChunks m (cs, t) off h).2 = .eof → evBytes (ehChunks m (cs, t) off h).1 = D.drop off) ∧
    (∀ e, e ∈ evErrs (ehChunks m (cs, t) off h).1 → ¬ e.isCorruption)
  | h, cs, .eof, off, _, _, hc, _ => by simp [ehChunks, hc]
  | [], cs, .err e, off, _, _, _, hn => by simp [ehChunks, evErrs]; exact hn e rfl
  | .fail k :: h, cs, .err e, off, _, _, _, hn => by simp [ehChunks, evErrs]; exact hn e rfl
  | .repl b :: h, cs, .err e, off, g, hp, _, hn => by
    obtain ⟨o1, o2⟩ := openChunks_sound (off + cs.flatten.length) m g.head
    have hpre : (openChunks b (off + cs.flatten.length) m).1.flatten <+: D.drop (off + cs.flatten.length) := by
      rw [openChunks_flatten]; exact prefix_drop _ g.head.good.content_prefix
    obtain ⟨i1, i2⟩ := ehChunks_sound D m h (openChunks b (off + cs.flatten.length) m).1
      (openChunks b (off + cs.flatten.length) m).2 (off + cs.flatten.length) g.tail hpre o1 o2
    simp only [ehChunks, evBytes_append, evBytes_chunks, evBytes, evErrs_append, evErrs_chunks, evErrs,
      List.nil_append, List.mem_cons]
    refine ⟨fun he => ?_, fun e' he' => ?_⟩
    · rw [i1 he]
      obtain ⟨r, hr⟩ := hp
      have : D.drop (off + cs.flatten.length) = r := by rw [← List.drop_drop, ← hr]; simp
      rw [this, hr]
    · rcases he' with rfl | he'
      · exact hn _ rfl
      · exact i2 e' he'

theorem finalize_sound (d : Digest) (D acc : Bytes) (t : Term) (hv : d.valid D = true) :
    ∀ evs : List Ev, acc ++ evBytes evs <+: D → acc.length = D.length →
    ∀ e, (finalize d acc evs t).2 = some e → t = .err e
  | [], hp, hl, e, he => by
    have hacc : acc = D := by
      have : acc <+: D := by simpa [evBytes] using hp
      exact this.eq_of_length hl
    cases t with
    | eof => simp [finalize, hacc, hv] at he
    | err e' => simp [finalize] at he; rw [he]
  | .onErr e0 :: r, hp, hl, e, he => by
    simp only [finalize] at he
    exact finalize_sound d D acc t hv r (by simpa [evBytes] using hp) hl e he
  | .chunk c :: r, hp, hl, e, he => by
    have hle := hp.length_le
    simp only [evBytes, List.length_append] at hle
    have hc : c = [] := List.eq_nil_of_length_eq_zero (by omega)
    subst hc
    simp only [finalize, List.length_nil, Nat.lt_irrefl, if_false, gt_iff_lt] at he
    exact finalize_sound d D acc t hv r (by simpa [evBytes] using hp) hl e he

theorem validateAux_sound (d : Digest) (D : Bytes) (t : Term) (hs : d.size = D.length) (hv : d.valid D = true) :
    ∀ (evs : List Ev) (rem : Nat) (acc : Bytes), acc ++ evBytes evs <+: D → (t = .eof → acc ++ evBytes evs = D) →
    rem + acc.length = D.length → rem ≠ 0 →
    ∀ e, (validateAux d rem acc evs t).2 = .err e → t = .err e
  | [], rem, acc, hp, hc, hr, h0, e, he => by
    cases t with
    | eof =>
      have := hc rfl
      simp only [evBytes, List.append_nil] at this
      rw [this] at hr; omega
    | err e' => simp [validateAux] at he; rw [he]
  | .onErr e0 :: r, rem, acc, hp, hc, hr, h0, e, he => by
    simp only [validateAux] at he
    exact validateAux_sound d D t hs hv r rem acc (by simpa [evBytes] using hp)
      (fun ht => by simpa [evBytes] using hc ht) hr h0 e he
  | .chunk c :: r, rem, acc, hp, hc, hr, h0, e, he => by
    have hle := hp.length_le
    simp only [evBytes, List.length_append] at hle
    simp only [validateAux] at he
    by_cases hgt : c.length > rem
    · omega
    · rw [if_neg hgt] at he
      have hp' : (acc ++ c) ++ evBytes r <+: D := by simpa [evBytes, List.append_assoc] using hp
      by_cases heq : c.length = rem
      · rw [if_pos heq] at he
        have hfin := finalize_sound d D (acc ++ c) t hv r hp' (by simp; omega)
        generalize finalize d (acc ++ c) r t = fr at he hfin
        obtain ⟨fe, fo⟩ := fr
        cases fo with
        | none => simp at he
        | some e' => simp at he; subst he; exact hfin e' rfl
      · rw [if_neg heq] at he
        exact validateAux_sound d D t hs hv r (rem - c.length) (acc ++ c) hp'
          (fun ht => by simpa [evBytes, List.append_assoc] using hc ht) (by simp; omega) (by omega) e he

/-- A stream that is (a prefix of) the object, and the whole object if it ends in EOF, is not
rejected: the only error the validating chunk reader reports is the stream's own terminal error. -/
theorem validate_sound (d : Digest) (D : Bytes) (evs : List Ev) (t : Term)
    (hs : d.size = D.length) (hv : d.valid D = true) (hp : evBytes evs <+: D) (hc : t = .eof → evBytes evs = D)
    (e : Err) (he : (validate d evs t).2 = .err e) : t = .err e := by
  unfold validate at he
  by_cases h0 : d.size = 0
  · rw [if_pos h0] at he
    have hfin := finalize_sound d D [] t hv evs (by simpa using hp) (by simp; omega)
    generalize finalize d [] evs t = fr at he hfin
    obtain ⟨fe, fo⟩ := fr
    cases fo with
    | none => simp at he
    | some e' => simp at he; subst he; exact hfin e' rfl
  · rw [if_neg h0] at he
    exact validateAux_sound d D t hs hv evs d.size [] (by simpa using hp) (by simpa using hc) (by simpa using hs)
      h0 e he

end BB.ErrorHandling

namespace BB.ErrorHandling

/-! ## Readers -/

theorem read_progress (n : Nat) (s : RSrc) (h : (s.read (n+1)).2.1 = .ok) : (s.read (n+1)).1 ≠ [] := by
  cases s with
  | short cs t =>
    simp only [RSrc.read] at h ⊢
    induction cs with
    | nil => cases t <;> simp [readShort, Term.status] at h
    | cons c cs ih =>
      cases c with
      | nil => simp only [readShort] at h ⊢; exact ih h
      | cons x c => simp [readShort]
  | fill data t =>
    simp only [RSrc.read] at h ⊢
    by_cases hh : n + 1 ≤ data.length
    · rw [if_pos hh]
      cases data with
      | nil => simp at hh
      | cons x r => simp
    · rw [if_neg hh] at h
      cases t <;> simp [Term.status] at h

theorem openReader_sound {D : Bytes} {b : Buf} (off : Nat) (s : Sound D b) :
    ((openReader b off).term = .eof → content b = D) ∧
    (∀ e, (openReader b off).term = .err e → ¬ e.isCorruption) := by
  cases b with
  | bytes data =>
    simp only [Sound] at s; subst s
    refine ⟨fun _ => rfl, fun e he => ?_⟩
    simp only [openReader] at he
    by_cases hh : off > data.length
    · rw [if_pos hh] at he; simp [RSrc.term] at he; subst he; simp [Err.isCorruption]
    · rw [if_neg hh] at he; simp [RSrc.term] at he
  | readerAt data suf =>
    simp only [Sound] at s; subst s
    refine ⟨fun _ => rfl, fun e he => ?_⟩
    simp only [openReader] at he
    by_cases hh : off > data.length
    · rw [if_pos hh] at he; simp [RSrc.term] at he; subst he; simp [Err.isCorruption]
    · rw [if_neg hh] at he; simp [RSrc.term] at he
  | error e' =>
    refine ⟨fun he => by simp [openReader, RSrc.term] at he, fun e he => ?_⟩
    simp [openReader, RSrc.term] at he; subst he; exact s
  | chunks d sc =>
    have hterm : (openReader (.chunks d sc) off).term = (scan sc).2 := by
      simp only [openReader]; cases dropChunks (scan sc).1 off <;> rfl
    rw [hterm]
    exact ⟨fun he => s.2.2.2 he, fun e he => scan_term_not_corrupt sc e he⟩
  | reader d sc =>
    have hterm : (openReader (.reader d sc) off).term = (scan sc).2 := by
      simp only [openReader]; cases dropChunks (scan sc).1 off <;> rfl
    rw [hterm]
    exact ⟨fun he => s.2.2.2 he, fun e he => scan_term_not_corrupt sc e he⟩
  | clone d sc =>
    have hterm : (openReader (.clone d sc) off).term = (scan sc).2 := by
      simp only [openReader]; cases dropChunks ((scan sc).1.flatMap (pieces cloneChunk)) off <;> rfl
    rw [hterm]
    exact ⟨fun he => s.2.2.2 he, fun e he => scan_term_not_corrupt sc e he⟩

theorem prefix_append_drop {D a : Bytes} (h : a <+: D) : a ++ D.drop a.length = D := by
  obtain ⟨r, rfl⟩ := h
  simp

/-- The facts about the reader's current source that matter here. -/
def SrcSound (D acc : Bytes) (s : RSrc) : Prop :=
  acc ++ s.rest <+: D ∧ (s.term = .eof → acc ++ s.rest = D) ∧ (∀ e, s.term = .err e → ¬ e.isCorruption)

theorem openReader_srcSound {D acc : Bytes} {b : Buf} (s : Sound D b) (ha : acc <+: D) :
    SrcSound D acc (openReader b acc.length) := by
  obtain ⟨o1, o2⟩ := openReader_sound acc.length s
  have hrest := openReader_rest b acc.length
  refine ⟨?_, fun ht => ?_, o2⟩
  · rw [hrest]
    have := prefix_extend (off := 0) (D := D) (by simpa using ha)
      (by simpa using prefix_drop acc.length s.good.content_prefix)
    simpa using this
  · rw [hrest, o1 ht]; exact prefix_append_drop ha

theorem peek_sound (D : Bytes) : ∀ (h : List Resp) (src : RSrc) (off : Nat),
    SoundH D h → src.rest = [] → (∀ e, src.term = .err e → ¬ e.isCorruption) → off = D.length →
    (peek src off h).1 ≠ some none ∧
    (∀ e, (peek src off h).1 = some (some e) → ¬ e.isCorruption) ∧
    (∀ e, e ∈ (peek src off h).2.2 → ¬ e.isCorruption)
  | h, src, off, g, hr, ht, ho => by
    obtain ⟨r1, r2, r3, r4⟩ := RSrc.read_spec 1 src
    have hprog := read_progress 0 src
    unfold peek
    generalize src.read 1 = res at r1 r2 r3 r4 hprog
    obtain ⟨bs, st, s⟩ := res
    simp only [] at r1 r2 r3 r4 hprog
    have hbs : bs = [] := by
      rw [hr] at r1
      exact (List.append_eq_nil_iff.mp r1).1
    subst hbs
    cases st with
    | ok => exact absurd rfl (hprog rfl)
    | eof => simp
    | err e =>
      have hne := ht e (r3 e rfl)
      cases h with
      | nil => simp [Err.isCorruption]; exact hne
      | cons x h =>
        cases x with
        | fail k => simp [Err.isCorruption]; exact hne
        | repl b =>
          have hs := g.head
          have hrest : (openReader b (off + ([] : Bytes).length)).rest = [] := by
            rw [openReader_rest]
            apply List.drop_eq_nil_of_le
            have := hs.good.content_prefix.length_le
            simp; omega
          obtain ⟨i1, i2, i3⟩ := peek_sound D h (openReader b (off + ([] : Bytes).length)) (off + ([] : Bytes).length)
            g.tail hrest (openReader_sound _ hs).2 (by simpa using ho)
          simp only []
          refine ⟨i1, i2, fun e' he' => ?_⟩
          simp only [List.mem_cons] at he'
          rcases he' with rfl | he'
          · exact hne
          · exact i3 e' he'

/-- Invariant of the validating reader over intact sources. -/
def VSound (D : Bytes) (v : VR) : Prop :=
  v.d.size = D.length ∧ v.d.valid D = true ∧ SrcSound D v.acc v.eh.src ∧ SoundH D v.eh.h ∧
  v.eh.off = v.acc.length ∧ v.rem + v.acc.length = D.length

theorem VR.read_sound (D : Bytes) (v : VR) (n : Nat) (hs : v.sticky = none) (g : VSound D v)
    (bs : Bytes) (st : Status) (v' : VR) (l : List Err) (heq : v.read n = (bs, st, v', l)) :
    (∀ e, e ∈ l → ¬ e.isCorruption) ∧ (∀ e, st = .err e → ¬ e.isCorruption) ∧
    (st = .ok → v'.sticky = none ∧ VSound D v') := by
  obtain ⟨g1, g2, ⟨g3, g4, g5⟩, g6, g7, g8⟩ := g
  obtain ⟨r1, r2, r3, r4⟩ := RSrc.read_spec n v.eh.src
  unfold VR.read at heq
  simp only [hs] at heq
  unfold EHR.read at heq
  generalize v.eh.src.read n = res at r1 r2 r3 r4 heq
  obtain ⟨bs0, st0, s0⟩ := res
  simp only [] at r1 r2 r3 r4 heq
  -- the bytes of this read extend the delivered prefix
  have hpre : (v.acc ++ bs0) ++ s0.rest <+: D := by rw [List.append_assoc, r1]; exact g3
  have hpre' : v.acc ++ bs0 <+: D := (List.prefix_append _ _).trans hpre
  have hlen := hpre'.length_le
  simp only [List.length_append] at hlen
  have hsame : SrcSound D (v.acc ++ bs0) s0 :=
    ⟨hpre, fun ht => by rw [List.append_assoc, r1]; exact g4 (r2 ▸ ht), fun e he => g5 e (r2 ▸ he)⟩
  cases st0 with
  | ok =>
    simp only [] at heq
    have hbig : ¬ bs0.length > v.rem := by omega
    rw [if_neg hbig] at heq
    by_cases hrem : v.rem - bs0.length ≠ 0
    · rw [if_pos hrem] at heq
      obtain ⟨rfl, rfl, rfl, rfl⟩ := heq
      refine ⟨by simp, by simp, fun _ => ⟨rfl, g1, g2, hsame, g6, by simp [g7], by simp; omega⟩⟩
    · rw [if_neg hrem] at heq
      have hfull : v.acc ++ bs0 = D := hpre'.eq_of_length (by simp; omega)
      have hrest : s0.rest = [] := by
        have := hpre.length_le
        rw [hfull] at this
        simp at this
        exact List.eq_nil_of_length_eq_zero (by omega)
      obtain ⟨p1, p2, p3⟩ := peek_sound D v.eh.h s0 (v.eh.off + bs0.length) g6 hrest hsame.2.2
        (by rw [g7, ← hfull]; simp)
      generalize peek s0 (v.eh.off + bs0.length) v.eh.h = pr at heq p1 p2 p3
      obtain ⟨po, peh, pl⟩ := pr
      simp only [] at p1 p2 p3
      cases po with
      | none =>
        simp only [] at heq
        rw [hfull, if_pos g2] at heq
        obtain ⟨rfl, rfl, rfl, rfl⟩ := heq
        exact ⟨by simpa using p3, by simp, by simp⟩
      | some x =>
        cases x with
        | none => exact absurd rfl p1
        | some e1 =>
          obtain ⟨rfl, rfl, rfl, rfl⟩ := heq
          exact ⟨by simpa using p3, fun e he => by simp at he; subst he; exact p2 _ rfl, by simp⟩
  | eof =>
    simp only [] at heq
    have hbig : ¬ bs0.length > v.rem := by omega
    rw [if_neg hbig] at heq
    obtain ⟨t1, t2⟩ := r4 rfl
    have hfull : v.acc ++ bs0 = D := by
      have := g4 t1
      rw [← r1, t2] at this
      simpa using this
    have hrem : ¬ (v.rem - bs0.length ≠ 0) := by
      have : (v.acc ++ bs0).length = D.length := by rw [hfull]
      simp at this; omega
    rw [if_neg hrem, hfull, if_pos g2] at heq
    obtain ⟨rfl, rfl, rfl, rfl⟩ := heq
    exact ⟨by simp, by simp, by simp⟩
  | err e0 =>
    have hne := g5 e0 (r3 e0 rfl)
    cases hh : v.eh.h with
    | nil =>
      rw [hh] at heq
      simp only [] at heq
      have hbig : ¬ bs0.length > v.rem := by omega
      rw [if_neg hbig] at heq
      obtain ⟨rfl, rfl, rfl, rfl⟩ := heq
      exact ⟨by simpa using hne, by simp [Err.isCorruption], by simp⟩
    | cons x h =>
      rw [hh] at heq g6
      cases x with
      | fail k =>
        simp only [] at heq
        have hbig : ¬ bs0.length > v.rem := by omega
        rw [if_neg hbig] at heq
        obtain ⟨rfl, rfl, rfl, rfl⟩ := heq
        exact ⟨by simpa using hne, by simp [Err.isCorruption], by simp⟩
      | repl b =>
        simp only [] at heq
        have hbig : ¬ bs0.length > v.rem := by omega
        rw [if_neg hbig] at heq
        have hnew : SrcSound D (v.acc ++ bs0) (openReader b (v.eh.off + bs0.length)) := by
          have := openReader_srcSound (acc := v.acc ++ bs0) g6.head hpre'
          rw [g7]; simpa using this
        by_cases hrem : v.rem - bs0.length ≠ 0
        · rw [if_pos hrem] at heq
          obtain ⟨rfl, rfl, rfl, rfl⟩ := heq
          refine ⟨by simpa using hne, by simp, fun _ => ⟨rfl, g1, g2, hnew, g6.tail, by simp [g7], by simp; omega⟩⟩
        · rw [if_neg hrem] at heq
          have hfull : v.acc ++ bs0 = D := hpre'.eq_of_length (by simp; omega)
          have hrest : (openReader b (v.eh.off + bs0.length)).rest = [] := by
            have := hnew.1.length_le
            rw [hfull] at this
            simp at this
            exact List.eq_nil_of_length_eq_zero (by omega)
          obtain ⟨p1, p2, p3⟩ := peek_sound D h (openReader b (v.eh.off + bs0.length)) (v.eh.off + bs0.length)
            g6.tail hrest hnew.2.2 (by rw [g7, ← hfull]; simp)
          generalize peek (openReader b (v.eh.off + bs0.length)) (v.eh.off + bs0.length) h = pr at heq p1 p2 p3
          obtain ⟨po, peh, pl⟩ := pr
          simp only [] at p1 p2 p3
          cases po with
          | none =>
            simp only [] at heq
            rw [hfull, if_pos g2] at heq
            obtain ⟨rfl, rfl, rfl, rfl⟩ := heq
            refine ⟨fun e he => ?_, by simp, by simp⟩
            simp only [List.cons_append, List.nil_append, List.mem_cons] at he
            rcases he with rfl | he
            · exact hne
            · exact p3 e he
          | some x =>
            cases x with
            | none => exact absurd rfl p1
            | some e1 =>
              obtain ⟨rfl, rfl, rfl, rfl⟩ := heq
              refine ⟨fun e he => ?_, fun e he => by simp at he; subst he; exact p2 _ rfl, by simp⟩
              simp only [List.cons_append, List.nil_append, List.mem_cons] at he
              rcases he with rfl | he
              · exact hne
              · exact p3 e he

theorem VR.run_sound (D : Bytes) : ∀ (sizes : List Nat) (v : VR), v.sticky = none → VSound D v →
    (∀ e, e ∈ (v.run sizes).2 → ¬ e.isCorruption) ∧
    (∀ x e, (x, Status.err e) ∈ (v.run sizes).1 → ¬ e.isCorruption)
  | [], v, _, _ => by simp [VR.run]
  | n :: ns, v, hs, g => by
    generalize hr : v.read n = res
    obtain ⟨bs, st, v', l⟩ := res
    obtain ⟨s1, s2, s3⟩ := VR.read_sound D v n hs g bs st v' l hr
    cases st with
    | ok =>
      have hrun : v.run (n :: ns) = ((bs, .ok) :: (v'.run ns).1, l ++ (v'.run ns).2) := by
        simp only [VR.run, hr]
      obtain ⟨a1, a2⟩ := s3 rfl
      obtain ⟨i1, i2⟩ := VR.run_sound D ns v' a1 a2
      rw [hrun]
      refine ⟨fun e he => ?_, fun x e hx => ?_⟩
      · rcases List.mem_append.mp he with h1 | h1
        · exact s1 e h1
        · exact i1 e h1
      · simp only [List.mem_cons, Prod.mk.injEq, reduceCtorEq, and_false, false_or] at hx
        exact i2 x e hx
    | eof =>
      have hrun : v.run (n :: ns) = ([(bs, .eof)], l) := by simp only [VR.run, hr]
      rw [hrun]
      exact ⟨s1, fun x e hx => by simp at hx⟩
    | err e0 =>
      have hrun : v.run (n :: ns) = ([(bs, .err e0)], l) := by simp only [VR.run, hr]
      rw [hrun]
      refine ⟨s1, fun x e hx => ?_⟩
      simp at hx
      exact s2 e (by rw [hx.2])

end BB.ErrorHandling

namespace BB.ErrorHandling

/-! ## The operations -/

theorem IsCas.of_sound {d : Digest} {D : Bytes} {b : Buf} (hc : IsCas d b) (s : Sound D b) :
    d.size = D.length ∧ d.valid D = true := by
  obtain ⟨sc, rfl | rfl | rfl⟩ := hc <;> exact ⟨s.1, s.2.1⟩

theorem mem_of_prefix {α : Type} {l l' : List α} {x : α} (hp : l <+: l') (hx : x ∈ l) : x ∈ l' := by
  obtain ⟨r, rfl⟩ := hp
  exact List.mem_append_left _ hx

theorem ehOp_sound (D : Bytes) (b : Buf) (d : Digest) (h : List Resp) (op : Op)
    (hb : Sound D b) (hcas : IsCas d b) (hh : SoundH D h) :
    (∀ e, e ∈ (ehOp b d h op).log → ¬ e.isCorruption) ∧
    (∀ e, ResultErr (ehOp b d h op).result e → ¬ e.isCorruption) := by
  obtain ⟨hsz, hval⟩ := hcas.of_sound hb
  -- facts about the stitched chunk stream, for any maximum chunk size
  have hstream : ∀ m, evBytes (ehChunks m (openChunks b 0 m) 0 h).1 <+: D ∧
      ((ehChunks m (openChunks b 0 m) 0 h).2 = .eof → evBytes (ehChunks m (openChunks b 0 m) 0 h).1 = D) ∧
      (∀ e, e ∈ evErrs (ehChunks m (openChunks b 0 m) 0 h).1 → ¬ e.isCorruption) := by
    intro m
    obtain ⟨o1, o2⟩ := openChunks_sound 0 m hb
    have hpre : (openChunks b 0 m).1.flatten <+: D.drop 0 := by
      rw [openChunks_flatten]; simpa using hb.good.content_prefix
    have h1 := ehChunks_prefix D m h (openChunks b 0 m).1 (openChunks b 0 m).2 0 hh.good hpre
    obtain ⟨h2, h3⟩ := ehChunks_sound D m h (openChunks b 0 m).1 (openChunks b 0 m).2 0 hh hpre o1 o2
    exact ⟨by simpa using h1, by simpa using h2, h3⟩
  cases op with
  | slice max =>
    obtain ⟨_, _, r3⟩ := retry_spec (baseSlice max) (fun b e => baseSlice_own) h b
    simp only [ehOp]
    refine ⟨retry_log (baseSlice max) _ (Sound D) (fun b e hs he => baseSlice_sound hs he) h b hb hh, fun e he => ?_⟩
    cases hr : (retry (baseSlice max) b h).1 with
    | ok a => rw [hr] at he; simp [ResultErr] at he
    | error e' => rw [hr] at he; simp only [ResultErr] at he; subst he; exact decision_not_corrupt _ _ _ (r3 _ hr)
  | readAt off n =>
    obtain ⟨_, _, r3⟩ := retry_spec (baseReadAt off n) (fun b e => baseReadAt_own) h b
    simp only [ehOp]
    refine ⟨retry_log (baseReadAt off n) _ (Sound D) (fun b e hs he => baseReadAt_sound hs he) h b hb hh, fun e he => ?_⟩
    cases hr : (retry (baseReadAt off n) b h).1 with
    | ok a => rw [hr] at he; simp [ResultErr] at he
    | error e' => rw [hr] at he; simp only [ResultErr] at he; subst he; exact decision_not_corrupt _ _ _ (r3 _ hr)
  | writer fa =>
    simp only [ehOp]
    obtain ⟨s1, s2, s3⟩ := hstream bigChunk
    have htm := ehChunks_term' bigChunk h (openChunks b 0 bigChunk) 0
    generalize ehChunks bigChunk (openChunks b 0 bigChunk) 0 h = u at s1 s2 s3 htm
    obtain ⟨_, v2, _, _⟩ := validate_spec d u.1 u.2
    have vs := validate_sound d D u.1 u.2 hsz hval s1 s2
    generalize validate d u.1 u.2 = v at v2 vs
    obtain ⟨_, c2, _, c4⟩ := consume_spec v.2 v.1 (writerReads fa v.1.length)
    refine ⟨fun e he => s3 e (mem_of_prefix (c2.trans v2) he), fun e he => ?_⟩
    generalize hw : (writeAll (consume v.1 v.2 (writerReads fa v.1.length)).1 fa) = w at he
    obtain ⟨ws, o⟩ := w
    cases o with
    | none => simp [ResultErr] at he
    | some e' =>
      simp only [ResultErr] at he; subst he
      have : (writeAll (consume v.1 v.2 (writerReads fa v.1.length)).1 fa).2 = some e := by rw [hw]
      rcases writeAll_err _ _ _ this with hwr | ⟨x, hx⟩
      · subst hwr; simp [Err.isCorruption]
      · exact decision_not_corrupt _ _ _ (htm e (vs e (c4 x e hx).1))
  | chunkReader off m k =>
    simp only [ehOp]
    by_cases hoff : off > d.size
    · rw [if_pos hoff]
      obtain ⟨_, _, _, c4⟩ := consume_spec (Term.err (Err.badOffset d.size off)) ([] : List Ev) k
      refine ⟨by simp, fun e ⟨x, hx⟩ => ?_⟩
      have := (c4 x e hx).1
      simp at this; subst this; simp [Err.isCorruption]
    · rw [if_neg hoff]
      obtain ⟨s1, s2, s3⟩ := hstream m
      have htm := ehChunks_term' m h (openChunks b 0 m) 0
      generalize ehChunks m (openChunks b 0 m) 0 h = u at s1 s2 s3 htm
      obtain ⟨_, v2, _, _⟩ := validate_spec d u.1 u.2
      have vs := validate_sound d D u.1 u.2 hsz hval s1 s2
      generalize validate d u.1 u.2 = v at v2 vs
      have hsk := skipEv_spec v.2 v.1 off
      generalize skipEv v.1 v.2 off = sk at hsk
      obtain ⟨l, o⟩ := sk
      cases o with
      | none =>
        simp only [] at hsk ⊢
        obtain ⟨_, _, _, c4⟩ := consume_spec v.2 ([] : List Ev) k
        refine ⟨fun e he => s3 e (mem_of_prefix v2 (by rw [← hsk.1]; exact he)), fun e ⟨x, hx⟩ => ?_⟩
        exact decision_not_corrupt _ _ _ (htm e (vs e (c4 x e hx).1))
      | some evs' =>
        simp only [] at hsk ⊢
        obtain ⟨_, c2, _, c4⟩ := consume_spec v.2 evs' k
        have hpre : l ++ (consume evs' v.2 k).2 <+: evErrs v.1 := by
          rw [← hsk.2]; exact (List.prefix_append_right_inj l).mpr c2
        refine ⟨fun e he => s3 e (mem_of_prefix (hpre.trans v2) he), fun e ⟨x, hx⟩ => ?_⟩
        exact decision_not_corrupt _ _ _ (htm e (vs e (c4 x e hx).1))
  | reader sizes =>
    have hv : VSound D (vr0 b d h) := by
      refine ⟨hsz, hval, ?_, hh, rfl, by simp [vr0, hsz]⟩
      have := openReader_srcSound (acc := []) hb List.nil_prefix
      simpa [vr0] using this
    obtain ⟨r1, r2⟩ := VR.run_sound D sizes (vr0 b d h) rfl hv
    simp only [ehOp]
    exact ⟨r1, fun e ⟨x, hx⟩ => r2 x e hx⟩
  | discard => exact ⟨by simp [ehOp], fun e he => by simp [ehOp, ResultErr] at he⟩
  | size => exact ⟨by simp [ehOp], fun e he => by simp [ehOp, ResultErr] at he⟩

theorem plainOp_bytes_not_corrupt (D : Bytes) (op : Op) (e : Err) (h : ResultErr (plainOp (.bytes D) op) e) :
    ¬ e.isCorruption := by
  cases op with
  | slice max =>
    simp only [plainOp, baseSlice] at h
    by_cases hh : D.length > max
    · rw [if_pos hh] at h; simp only [ResultErr] at h; subst h; simp [Err.isCorruption]
    · rw [if_neg hh] at h; simp [ResultErr] at h
  | writer fa =>
    simp only [plainOp] at h
    by_cases hh : fa = some 0
    · rw [if_pos hh] at h; simp only [ResultErr] at h; subst h; simp [Err.isCorruption]
    · rw [if_neg hh] at h; simp [ResultErr] at h
  | readAt off n =>
    simp only [plainOp, baseReadAt] at h
    by_cases hh : off > D.length
    · rw [if_pos hh] at h; simp [ResultErr] at h
    · rw [if_neg hh] at h; simp [ResultErr] at h
  | reader sizes =>
    obtain ⟨_, _, r3⟩ := rawRun_spec sizes (openReader (.bytes D) 0)
    simp only [plainOp, ResultErr] at h
    obtain ⟨x, hx⟩ := h
    exact (openReader_sound (D := D) (b := .bytes D) 0 rfl).2 e (r3 x e hx)
  | chunkReader off m k =>
    obtain ⟨_, _, _, c4⟩ := consume_spec (openChunks (.bytes D) off m).2
      ((openChunks (.bytes D) off m).1.map .chunk) k
    simp only [plainOp, ResultErr] at h
    obtain ⟨x, hx⟩ := h
    exact (openChunks_sound (D := D) (b := .bytes D) off m rfl).2 e (c4 x e hx).1
  | discard => simp [plainOp, ResultErr] at h
  | size => simp [plainOp, ResultErr] at h

theorem plainOp_readerAt_not_corrupt (D suf : Bytes) (op : Op) (e : Err)
    (h : ResultErr (plainOp (.readerAt D suf) op) e) : ¬ e.isCorruption := by
  rcases plainOp_readerAt_err D suf op e h with rfl | ⟨a, b, rfl⟩ | ⟨a, b, rfl⟩ <;> simp [Err.isCorruption]

theorem withEH_log_sound (D : Bytes) : ∀ (h : List Resp) (base : Buf), Sound D base → SoundH D h →
    ∀ e, e ∈ (withEH base h).2.1 → ¬ e.isCorruption
  | h, .bytes data, _, _, e, he => by simp [withEH] at he
  | h, .readerAt data suf, _, _, e, he => by simp [withEH] at he
  | h, .chunks d s, _, _, e, he => by simp [withEH] at he
  | h, .reader d s, _, _, e, he => by simp [withEH] at he
  | h, .clone d s, _, _, e, he => by simp [withEH] at he
  | [], .error e0, hb, _, e, he => by simp [withEH] at he; subst he; exact hb
  | .fail k :: h, .error e0, hb, _, e, he => by simp [withEH] at he; subst he; exact hb
  | .repl b :: h, .error e0, hb, hh, e, he => by
    simp only [withEH, List.mem_cons] at he
    rcases he with rfl | he
    · exact hb
    · exact withEH_log_sound D h b hh.head hh.tail e he

end BB.ErrorHandling
