import BB.Proofs.StoreInv
/-!
`Grows c s s' W`: from `s` to `s'` the invariant is kept, the quarantine counter did not fall, and
every record of the table is an old one or carries a key in `W`.  All store operations are
compositions of primitives with small, explicit `W`.
-/
namespace BB.Store
open BB.Gen BB.Index BB.BlockMap

structure Grows (c : Cfg) (s s' : St) (W : List Nat) : Prop where
  inv : SInv c s'
  thr : s.thr ≤ s'.thr
  raw : ∀ q l, RawIn s'.tab q l → RawIn s.tab q l ∨ q ∈ W

theorem Grows.refl {c : Cfg} {s : St} (h : SInv c s) : Grows c s s [] :=
  ⟨h, Int.le_refl _, fun _ _ hr => Or.inl hr⟩

theorem Grows.trans {c : Cfg} {s s' s'' : St} {W W' : List Nat} (h1 : Grows c s s' W) (h2 : Grows c s' s'' W') :
    Grows c s s'' (W ++ W') := by
  refine ⟨h2.inv, Int.le_trans h1.thr h2.thr, ?_⟩
  intro q l hr
  rcases h2.raw q l hr with h | h
  · rcases h1.raw q l h with h' | h'
    · exact Or.inl h'
    · exact Or.inr (List.mem_append_left _ h')
  · exact Or.inr (List.mem_append_right _ h)

theorem Grows.mono {c : Cfg} {s s' : St} {W W' : List Nat} (h : Grows c s s' W) (hs : ∀ q, q ∈ W → q ∈ W') :
    Grows c s s' W' :=
  ⟨h.inv, h.thr, fun q l hr => (h.raw q l hr).imp id (hs q)⟩

/-- A key outside `W` that did not resolve before does not resolve afterwards. -/
theorem Grows.no_new {c : Cfg} {s s' : St} {W : List Nat} (h0 : SInv c s) (h : Grows c s s' W) (q : Nat)
    (hq : q ∉ W) (hn : lookup c s q = none) : lookup c s' q = none :=
  lookup_none_stable h0 h.inv h.thr q (fun l hr => (h.raw q l hr).resolve_right hq) hn

theorem grows_of_same_tab {c : Cfg} {s s' : St} (h' : SInv c s') (ht : s'.tab = s.tab) (hthr : s.thr ≤ s'.thr) :
    Grows c s s' [] := ⟨h', hthr, fun q l hr => Or.inl (by rw [ht] at hr; exact hr)⟩

theorem grows_pinLoc {c : Cfg} {s : St} (h : SInv c s) (l : Loc) : Grows c s (pinLoc s l) [] :=
  grows_of_same_tab (sinv_pin h _) rfl (Int.le_refl _)

theorem thr_unpin (s : St) (blk : Nat) : ({ s with bm := unpin s.bm blk } : St).thr = s.thr := by
  simp [St.thr, (unpin_fields s.bm blk).2.2.2.2.1]

theorem grows_unpinLoc {c : Cfg} {s : St} (h : SInv c s) (l : Loc) : Grows c s (unpinLoc s l) [] :=
  grows_of_same_tab (sinv_unpin h _) rfl (by unfold unpinLoc; rw [thr_unpin]; exact Int.le_refl _)

theorem grows_unpinTicket {c : Cfg} {s : St} (h : SInv c s) (t : Ticket) : Grows c s (unpinTicket s t) [] :=
  grows_of_same_tab (sinv_unpin h _) rfl (by unfold unpinTicket; rw [thr_unpin]; exact Int.le_refl _)

theorem grows_write {c : Cfg} {s : St} (h : SInv c s) (t : Ticket) (a : Nat) (bs : List Nat) :
    Grows c s (writeAt s t a bs) [] := grows_of_same_tab (sinv_write h t a bs) rfl (Int.le_refl _)

theorem grows_allocate {c : Cfg} {s : St} (h : SInv c s) (size : Nat) :
    match allocate c s size with
    | .ok _ s' => Grows c s s' []
    | .err _ s' => Grows c s s' []
    | .broken => False := by
  have hs := allocate_spec h size
  cases ha : allocate c s size with
  | ok t s' => rw [ha] at hs; exact grows_of_same_tab hs.1 hs.2.1 hs.2.2.2.1
  | err e s' => rw [ha] at hs; exact grows_of_same_tab hs.1 hs.2.1 hs.2.2.2.1
  | broken => rw [ha] at hs; exact hs

theorem grows_finalize {c : Cfg} {s s' : St} (h : SInv c s) (t : Ticket) (keys : List Nat)
    (hf : finalize c s t keys = some s') : Grows c s s' keys := by
  have hs := finalize_spec h t keys
  rw [hf] at hs
  refine ⟨hs.1, by simp [St.thr, hs.2.1], ?_⟩
  intro q l hr
  exact (hs.2.2.2.2 q l hr).imp id (·.1)

theorem grows_indexPut {c : Cfg} {s : St} (h : SInv c s) (k : Nat) (l : Loc) (hl : s.thr ≤ l.blockIndex) :
    Grows c s (indexPut c s k l) [k] := by
  obtain ⟨a, b, d⟩ := indexPut_spec h k l hl
  refine ⟨a, by simp [St.thr, b], ?_⟩
  intro q l' hr
  exact (d q l' hr).imp id (fun x => by simp [x.1])

theorem grows_allocateForRefresh {c : Cfg} {s : St} (h : SInv c s) (src : Loc) :
    match allocateForRefresh c s src with
    | .ok _ s' => Grows c s s' []
    | .err _ s' => Grows c s s' []
    | .broken => False := by
  unfold allocateForRefresh
  have h1 := grows_pinLoc h src
  have h2 := grows_allocate h1.inv (locSize src)
  cases ha : allocate c (pinLoc s src) (locSize src) with
  | ok t s' => rw [ha] at h2; simpa using h1.trans h2
  | err e s' =>
    rw [ha] at h2
    simp only []
    have := (h1.trans h2).trans (grows_unpinLoc h2.inv src)
    simpa using this
  | broken => rw [ha] at h2; exact h2

theorem grows_refreshDone {c : Cfg} {s : St} (h : SInv c s) (t : Ticket) (src : Loc) :
    Grows c s (refreshDone s t src) [] := by
  unfold refreshDone
  have h1 := grows_unpinTicket h t
  simpa using h1.trans (grows_unpinLoc h1.inv src)

end BB.Store
