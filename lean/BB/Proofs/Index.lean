import BB.Model.Index
/-!
Helper lemmas for C06: order facts about the *generated* `Location.isOlder`,
the probe-path invariant of the hash table, and the bookkeeping of which
locations are stored for which key while `Put` displaces records.
-/
namespace BB.Index
open BB.Gen

/-! ## Order facts about the generated `isOlder` -/

theorem older_irrefl (a : Loc) : a.isOlder a = false := by
  simp [Location.isOlder]

theorem older_trans {a b c : Loc} (h1 : a.isOlder b = true) (h2 : b.isOlder c = true) :
    a.isOlder c = true := by
  simp [Location.isOlder] at *
  omega

theorem older_asymm {a b : Loc} (h1 : a.isOlder b = true) : b.isOlder a = false := by
  simp [Location.isOlder] at *
  omega

/-- `¬ b < a` and `b < c` give `a < c`... in the form used below:
    if `q` is not older than `x` and `q` is older than `r` then `x` is older than `r`. -/
theorem older_of_not_older_of_older {q x r : Loc} (h1 : q.isOlder x = false) (h2 : q.isOlder r = true) :
    x.isOlder r = true := by
  simp [Location.isOlder] at *
  omega

/-- if `x` is not older than `q` … wait: `x ≤ q` (q not older than x) and `q ≤ r` give `x ≤ r`. -/
theorem not_older_trans {x q r : Loc} (h1 : q.isOlder x = false) (h2 : r.isOlder q = false) :
    r.isOlder x = false := by
  simp [Location.isOlder] at *
  omega

theorem not_older_blk {q r : Loc} (h : q.isOlder r = false) : r.blockIndex ≤ q.blockIndex := by
  simp [Location.isOlder] at h
  omega

/-- Same position: same block and same offset (the order `isOlder` cannot tell them apart). -/
def SamePos (a b : Loc) : Prop := a.blockIndex = b.blockIndex ∧ a.offsetBytes = b.offsetBytes

theorem samePos_of_not_older {a b : Loc} (h1 : a.isOlder b = false) (h2 : b.isOlder a = false) :
    SamePos a b := by
  simp [Location.isOlder] at h1 h2
  unfold SamePos
  omega

theorem not_older_of_samePos {a b : Loc} (h : SamePos a b) : a.isOlder b = false := by
  unfold SamePos at h
  simp [Location.isOlder]
  omega

/-! ## The invariant -/

/-- Every slot earlier on the probe sequence of `r` holds a live record that is not older than `r`. -/
def Path (c : Cfg) (thr : Int) (t : Tab) (r : Rec) : Prop :=
  ∀ a, a < r.att → ∃ q, t (c.slot r.key a) = some q ∧ thr ≤ q.loc.blockIndex ∧ q.loc.isOlder r.loc = false

/-- Every live record sits at its own slot, within reach of `Get`, and satisfies `Path`. -/
def Inv (c : Cfg) (thr : Int) (t : Tab) : Prop :=
  ∀ s r, t s = some r → thr ≤ r.loc.blockIndex →
    c.slot r.key r.att = s ∧ r.att < c.maxGet ∧ Path c thr t r

/-- What `Put` knows about the record it carries. -/
def Carry (c : Cfg) (thr : Int) (t : Tab) (r : Rec) : Prop :=
  thr ≤ r.loc.blockIndex ∧ r.att < c.maxGet ∧ Path c thr t r

theorem inv_empty (c : Cfg) (thr : Int) : Inv c thr Tab.empty := by
  intro s r h; simp [Tab.empty] at h

theorem live_some {thr : Int} {o : Option Rec} {r : Rec} (h : live thr o = some r) :
    o = some r ∧ thr ≤ r.loc.blockIndex := by
  unfold live at h
  split at h
  · split at h <;> simp_all
  · simp at h

theorem live_none {thr : Int} {o : Option Rec} (h : live thr o = none) :
    ∀ r, o = some r → ¬ thr ≤ r.loc.blockIndex := by
  intro r hr
  subst hr
  simp [live] at h
  omega

theorem live_of {thr : Int} {r : Rec} (h : thr ≤ r.loc.blockIndex) : live thr (some r) = some r := by
  simp [live, h]

theorem path_set {c : Cfg} {thr : Int} {t : Tab} {s : Nat} {r x : Rec}
    (hr : thr ≤ r.loc.blockIndex)
    (hold : ∀ old, t s = some old → thr ≤ old.loc.blockIndex → old.loc.isOlder r.loc = true)
    (hx : Path c thr t x) : Path c thr (t.set s r) x := by
  intro a ha
  obtain ⟨q, hq, hql, hqo⟩ := hx a ha
  by_cases hs : c.slot x.key a = s
  · refine ⟨r, by simp [Tab.set, hs], hr, ?_⟩
    rw [hs] at hq
    have h1 := hold q hq hql
    cases hrx : r.loc.isOlder x.loc with
    | false => rfl
    | true =>
      have := older_trans h1 hrx
      simp [this] at hqo
  · exact ⟨q, by simp [Tab.set, hs, hq], hql, hqo⟩

theorem inv_set {c : Cfg} {thr : Int} {t : Tab} {r : Rec}
    (hinv : Inv c thr t) (hc : Carry c thr t r)
    (hold : ∀ old, t (c.slot r.key r.att) = some old → thr ≤ old.loc.blockIndex → old.loc.isOlder r.loc = true) :
    Inv c thr (t.set (c.slot r.key r.att) r) := by
  intro s x hx hxl
  by_cases hs : s = c.slot r.key r.att
  · subst hs
    have : x = r := by simpa [Tab.set] using hx.symm
    subst this
    exact ⟨rfl, hc.2.1, path_set hc.1 hold hc.2.2⟩
  · have hx' : t s = some x := by simpa [Tab.set, hs] using hx
    obtain ⟨h1, h2, h3⟩ := hinv s x hx' hxl
    exact ⟨h1, h2, path_set hc.1 hold h3⟩

theorem putAux_inv (c : Cfg) (thr : Int) : ∀ (fuel : Nat) (t : Tab) (r : Rec),
    Inv c thr t → Carry c thr t r → Inv c thr (putAux c thr fuel t r).1 := by
  intro fuel
  induction fuel with
  | zero => intro t r hinv _; simpa [putAux] using hinv
  | succ fuel ih =>
    intro t r hinv hc
    unfold putAux
    simp only []
    split
    · rename_i hdead
      apply inv_set hinv hc
      intro old ho hol
      exact absurd hol (live_none hdead old ho)
    · rename_i old hlive
      obtain ⟨hold, holdl⟩ := live_some hlive
      split
      · split
        · rename_i holder
          apply inv_set hinv hc
          intro o ho _
          rw [hold] at ho; cases ho; exact holder
        · exact hinv
      · rename_i hne
        by_cases holder : old.loc.isOlder r.loc = true
        · simp only [holder, if_true]
          have hsetold : ∀ o, t (c.slot r.key r.att) = some o → thr ≤ o.loc.blockIndex → o.loc.isOlder r.loc = true := by
            intro o ho _; rw [hold] at ho; cases ho; exact holder
          have hinv' : Inv c thr (t.set (c.slot r.key r.att) r) := inv_set hinv hc hsetold
          by_cases hmg : c.maxGet ≤ old.att + 1
          · simp only [hmg, if_true]; exact hinv'
          · simp only [hmg, if_false]
            apply ih _ _ hinv'
            obtain ⟨hs1, hs2, hs3⟩ := hinv _ old hold holdl
            refine ⟨holdl, by simp; omega, ?_⟩
            intro a ha
            by_cases hlast : a = old.att
            · subst hlast
              refine ⟨r, ?_, hc.1, older_asymm holder⟩
              simp [Tab.set, hs1]
            · have ha' : a < old.att := by simp at ha; omega
              have hp : Path c thr (t.set (c.slot r.key r.att) r) old := path_set hc.1 hsetold hs3
              exact hp a ha'
        · have hno : old.loc.isOlder r.loc = false := by simpa using holder
          simp only [hno]
          by_cases hmg : c.maxGet ≤ r.att + 1
          · simp [hmg]; exact hinv
          · simp [hmg]
            apply ih _ _ hinv
            refine ⟨hc.1, by simp; omega, ?_⟩
            intro a ha
            by_cases hlast : a = r.att
            · subst hlast
              exact ⟨old, hold, holdl, hno⟩
            · have ha' : a < r.att := by simp at ha; omega
              exact hc.2.2 a ha'

theorem carry_init {c : Cfg} {thr : Int} {t : Tab} {k : Nat} {l : Loc}
    (hl : thr ≤ l.blockIndex) (hg : 0 < c.maxGet) : Carry c thr t ⟨k, 0, l⟩ :=
  ⟨hl, hg, by intro a ha; simp at ha⟩

theorem put_inv (c : Cfg) (thr : Int) (t : Tab) (k : Nat) (l : Loc)
    (hinv : Inv c thr t) (hl : thr ≤ l.blockIndex) (hg : 0 < c.maxGet) :
    Inv c thr (put c thr t k l).1 :=
  putAux_inv _ _ _ _ _ hinv (carry_init hl hg)

theorem inv_release {c : Cfg} {thr thr' : Int} {t : Tab} (hinv : Inv c thr t) (h : thr ≤ thr') :
    Inv c thr' t := by
  intro s r hr hrl
  obtain ⟨h1, h2, h3⟩ := hinv s r hr (by omega)
  refine ⟨h1, h2, ?_⟩
  intro a ha
  obtain ⟨q, hq, _, hqo⟩ := h3 a ha
  exact ⟨q, hq, by have := not_older_blk hqo; omega, hqo⟩

end BB.Index
