import BB.Proofs.PersistCapture
/-!
# C03: what a state file taken when everything is synchronised says about the running list

`AllSyncing` / `AllSynced`: the last `NotifySyncStarting` / `NotifySyncCompleted` covered every epoch
and every written byte.  `SnapRel f p`: every block reference the running list `p` resolves, the
list a restart builds from `f` resolves to the same block (shifted by the blocks popped since).
All three survive every operation of the list except a successful finalizer.
-/
namespace BB.Persist

/-- What the notifications and the snapshot relation look at. -/
def vis (b : Blk) : Nat × Nat × Nat × Nat := (b.gid, b.written, b.syncing, b.synced)

def AllSyncing (p : PBL) : Prop := p.syncingEpochs = p.seeds.length ∧ ∀ b ∈ p.blocks, b.syncing = b.written

def AllSynced (p : PBL) : Prop := p.syncedEpochs = p.seeds.length ∧ ∀ b ∈ p.blocks, b.synced = b.written

def SnapRel (ss : Nat) (f : SFile) (p : PBL) : Prop :=
  ∃ k, ∀ e bfl i sd, p.refToIdx e bfl = some (i, sd) →
    (f.pbl ss).refToIdx e bfl = some (i + k, sd) ∧
    ∃ bs, f.blocks[i + k]? = some bs ∧ (p.blocks.map (·.gid))[i]? = some bs.gid

/-- Changes of the list that none of the above can see (cursors, release bookkeeping). -/
structure Core (p p' : PBL) : Prop where
  seeds : p'.seeds = p.seeds
  last : p'.epochLast = p.epochLast
  released : p'.released = p.released
  oldest : p'.oldestEpoch = p.oldestEpoch
  syncing : p'.syncingEpochs = p.syncingEpochs
  synced : p'.syncedEpochs = p.syncedEpochs
  closed : p'.closed = p.closed
  blocks : p'.blocks.map vis = p.blocks.map vis

theorem Core.refl (p : PBL) : Core p p := ⟨rfl, rfl, rfl, rfl, rfl, rfl, rfl, rfl⟩

/-- The operations of the list other than the finalizer. -/
inductive PStep : PBL → PBL → Prop
  | core {p p' : PBL} : Core p p' → PStep p p'
  | pop {p p' : PBL} {b : Blk} : p.popFront = some (b, p') → PStep p p'
  | push {p : PBL} (gid slot : Nat) : PStep p (p.pushBack gid slot)
  | starting {p : PBL} (f : Bool) : PStep p (p.notifySyncStarting f)
  | completed {p : PBL} : PStep p p.notifySyncCompleted

theorem vis_forall (P : Nat × Nat × Nat × Nat → Prop) {l l' : List Blk} (h : l'.map vis = l.map vis)
    (hl : ∀ b ∈ l, P (vis b)) : ∀ b ∈ l', P (vis b) := by
  intro b hb
  have : vis b ∈ l.map vis := by rw [← h]; exact List.mem_map.2 ⟨b, hb, rfl⟩
  obtain ⟨b0, hb0, he⟩ := List.mem_map.1 this
  rw [← he]; exact hl b0 hb0

theorem gids_of_vis {l l' : List Blk} (h : l'.map vis = l.map vis) : l'.map (·.gid) = l.map (·.gid) := by
  have := congrArg (List.map Prod.fst) h
  simpa [List.map_map, Function.comp_def, vis] using this

theorem popFront_blocks {p p' : PBL} {b : Blk} (hp : p.popFront = some (b, p')) :
    p.blocks = b :: p'.blocks ∧ p'.seeds = p.seeds.drop b.epochCount ∧ p'.closed = p.closed ∧
    p'.syncingEpochs = (if b.epochCount ≥ p.syncingEpochs then 0 else p.syncingEpochs - b.epochCount) ∧
    p'.syncedEpochs = (if b.epochCount ≥ p.syncedEpochs then 0 else p.syncedEpochs - b.epochCount) := by
  unfold PBL.popFront at hp
  split at hp
  · simp at hp
  · rename_i b0 rest hb
    simp only [Option.some.injEq, Prod.mk.injEq] at hp
    obtain ⟨rfl, rfl⟩ := hp
    exact ⟨hb, rfl, rfl, rfl, rfl⟩

theorem closed_pstep {p p' : PBL} (hs : PStep p p') (hc : p.closed = true) : p'.closed = true := by
  cases hs with
  | core h => rw [h.closed]; exact hc
  | pop hp => rw [(popFront_blocks hp).2.2.1]; exact hc
  | push gid slot => exact hc
  | starting f => simp [PBL.notifySyncStarting, hc]
  | completed => exact hc

theorem allSyncing_starting (p : PBL) (f : Bool) : AllSyncing (p.notifySyncStarting f) := by
  refine ⟨rfl, ?_⟩
  intro b hb
  simp only [PBL.notifySyncStarting, List.mem_map] at hb
  obtain ⟨b0, _, rfl⟩ := hb
  rfl

theorem AllSyncing.pstep {p p' : PBL} (hs : PStep p p') (h : AllSyncing p) : AllSyncing p' := by
  cases hs with
  | core hc =>
    refine ⟨by rw [hc.syncing, hc.seeds]; exact h.1, ?_⟩
    exact vis_forall (fun v => v.2.2.1 = v.2.1) hc.blocks h.2
  | pop hp =>
    obtain ⟨hb, hsd, _, hse, _⟩ := popFront_blocks hp
    refine ⟨?_, fun b hb' => h.2 b (by rw [hb]; exact List.mem_cons_of_mem _ hb')⟩
    rw [hse, hsd, List.length_drop, h.1]
    split <;> omega
  | push gid slot =>
    refine ⟨h.1, ?_⟩
    intro b hb
    simp only [PBL.pushBack, List.mem_append, List.mem_singleton] at hb
    rcases hb with hb | rfl
    · exact h.2 b hb
    · rfl
  | starting f => exact allSyncing_starting p f
  | completed =>
    refine ⟨h.1, ?_⟩
    intro b hb
    simp only [PBL.notifySyncCompleted, List.mem_map] at hb
    obtain ⟨b0, hb0, rfl⟩ := hb
    exact h.2 b0 hb0

/-- `NotifySyncCompleted` after a `NotifySyncStarting` that covered everything. -/
theorem allSynced_completed {p : PBL} (h : AllSyncing p) : AllSynced p.notifySyncCompleted := by
  refine ⟨h.1, ?_⟩
  intro b hb
  simp only [PBL.notifySyncCompleted, List.mem_map] at hb
  obtain ⟨b0, hb0, rfl⟩ := hb
  exact h.2 b0 hb0

theorem AllSynced.syncing {p : PBL} (hw : WFP p) (h : AllSynced p) : AllSyncing p := by
  refine ⟨?_, ?_⟩
  · have := hw.sync1; have := hw.sync2; have := h.1; omega
  · intro b hb
    have := hw.offs b hb; have := h.2 b hb; omega

theorem AllSynced.pstep {p p' : PBL} (hw : WFP p) (hs : PStep p p') (h : AllSynced p) : AllSynced p' := by
  cases hs with
  | core hc =>
    refine ⟨by rw [hc.synced, hc.seeds]; exact h.1, ?_⟩
    exact vis_forall (fun v => v.2.2.2 = v.2.1) hc.blocks h.2
  | pop hp =>
    obtain ⟨hb, hsd, _, _, hse⟩ := popFront_blocks hp
    refine ⟨?_, fun b hb' => h.2 b (by rw [hb]; exact List.mem_cons_of_mem _ hb')⟩
    rw [hse, hsd, List.length_drop, h.1]
    split <;> omega
  | push gid slot =>
    refine ⟨h.1, ?_⟩
    intro b hb
    simp only [PBL.pushBack, List.mem_append, List.mem_singleton] at hb
    rcases hb with hb | rfl
    · exact h.2 b hb
    · rfl
  | starting f =>
    refine ⟨h.1, ?_⟩
    intro b hb
    simp only [PBL.notifySyncStarting, List.mem_map] at hb
    obtain ⟨b0, hb0, rfl⟩ := hb
    exact h.2 b0 hb0
  | completed => exact allSynced_completed (h.syncing hw)

end BB.Persist
