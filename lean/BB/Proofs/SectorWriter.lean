import BB.Model.SectorWriter
/-!
# Proofs about the sector-sharing block writer (`BB.SectorWriter`)

`flat` is the concatenation of everything that is ever going to be stored in the block, `Good x s j` says
that `x` is the byte that belongs at index `j` of sector `s`. Every step of every writer only ever stores
good bytes at positions of its own object, or copies a whole shared-sector image to the device; the
invariants below make the second kind harmless: a shared sector's image knows every good byte its device
sector has (`GM.g2`), and one sector has one image (`GA.inj`).
-/
namespace BB.SectorWriter

def Good (S : Nat) (flat : List Nat) (x s j : Nat) : Prop := x = flat.getD (s * S + j) 0

/-- Bytes handed out so far. -/
def total (S : Nat) (a : Alloc) : Nat := a.wos * S + a.off

theorem sec_unique {S a b r1 r2 : Nat} (h : a * S + r1 = b * S + r2) (h1 : r1 < S) (h2 : r2 < S) : a = b := by
  have hS : 0 < S := by omega
  have ha : (a * S + r1) / S = a := by
    rw [Nat.mul_comm, Nat.mul_add_div hS, Nat.div_eq_of_lt h1, Nat.add_zero]
  have hb : (b * S + r2) / S = b := by
    rw [Nat.mul_comm, Nat.mul_add_div hS, Nat.div_eq_of_lt h2, Nat.add_zero]
  rw [← ha, ← hb, h]

theorem sec_unique' {S a b r1 r2 : Nat} (h : a * S + r1 = b * S + r2) (h1 : r1 < S) (h2 : r2 < S) : a = b ∧ r1 = r2 := by
  have := sec_unique h h1 h2
  subst this
  exact ⟨rfl, by omega⟩

/-- Allocation-side invariant; `sec id` is the sector imaged by shared-sector object `id`. -/
structure GA (S : Nat) (sec : Nat → Nat) (a : Alloc) (ws : List Wr) : Prop where
  a1 : ∀ id o, a.shared = some (id, o) → 0 < o ∧ o < S ∧ id < a.nextId ∧ sec id = a.wos
  a2 : ∀ id, id < a.nextId → sec id ≤ a.wos ∧ (sec id = a.wos → ∃ o, a.shared = some (id, o))
  inj : ∀ i1 i2, i1 < a.nextId → i2 < a.nextId → sec i1 = sec i2 → i1 = i2
  /-- every imaged sector contains an object boundary strictly inside -/
  bnd : ∀ id, id < a.nextId → ∃ b, sec id * S < b ∧ b < sec id * S + S ∧ b ≤ total S a ∧
          ∀ r, r ∈ ws → r.start + r.data.length ≤ b ∨ b ≤ r.start

/-- Memory-side invariant. -/
structure GM (S : Nat) (flat : List Nat) (sec : Nat → Nat) (a : Alloc) (m : Mem) : Prop where
  g2 : ∀ id, id < a.nextId → ∀ j, j < S → Good S flat (m.dev (sec id) j) (sec id) j → Good S flat (m.img id j) (sec id) j
  g3d : ∀ s j, j < S → m.dev s j ≠ 0 → s * S + j < total S a
  g3i : ∀ id j, j < S → m.img id j ≠ 0 → id < a.nextId ∧ sec id * S + j < total S a
  g4d : ∀ s j, j < S → m.dev s j = 0 ∨ Good S flat (m.dev s j) s j
  g4i : ∀ id j, j < S → m.img id j = 0 ∨ Good S flat (m.img id j) (sec id) j
  /-- every `WriteAt` so far covered at least one sector and started its last sector below the allocation frontier -/
  glog : ∀ e, e ∈ m.wlog → 0 < e.2 ∧ (e.1 + e.2) * S < total S a + S

/-- What one writer step may do to the memory. -/
structure Eff (S : Nat) (flat : List Nat) (sec : Nat → Nat) (a : Alloc) (ws : List Wr) (m m' : Mem) : Prop where
  S_eq : m'.S = m.S
  img : ∀ id j, j < S → m'.img id j = m.img id j ∨
          (Good S flat (m'.img id j) (sec id) j ∧ id < a.nextId ∧ sec id * S + j < total S a)
  dev : ∀ s, (∀ j, j < S → m'.dev s j = m.dev s j) ∨
          ((∀ j, j < S → Good S flat (m'.dev s j) s j) ∧ s * S + S ≤ total S a ∧
            ∃ r, r ∈ ws ∧ r.start ≤ s * S ∧ s * S + S ≤ r.start + r.data.length) ∨
          (∃ id, id < a.nextId ∧ sec id = s ∧ ∀ j, j < S → m'.dev s j = m'.img id j)
  log : ∃ new, m'.wlog = new ++ m.wlog ∧ ∀ e, e ∈ new → 0 < e.2 ∧ (e.1 + e.2) * S < total S a + S

theorem Eff.refl {S flat sec a ws} (m : Mem) : Eff S flat sec a ws m m :=
  ⟨rfl, fun _ _ _ => Or.inl rfl, fun _ => Or.inl fun _ _ => rfl, [], rfl, fun _ h => by simp at h⟩

/-- Good bytes stay good, in images and on the device. -/
def Mono (S : Nat) (flat : List Nat) (sec : Nat → Nat) (a : Alloc) (m m' : Mem) : Prop :=
  (∀ id, id < a.nextId → ∀ j, j < S → Good S flat (m.img id j) (sec id) j → Good S flat (m'.img id j) (sec id) j) ∧
  (∀ s j, j < S → Good S flat (m.dev s j) s j → Good S flat (m'.dev s j) s j)

theorem Eff.mono {S flat sec a ws m m'} (ga : GA S sec a ws) (gm : GM S flat sec a m)
    (e : Eff S flat sec a ws m m') : Mono S flat sec a m m' := by
  have himg : ∀ id, id < a.nextId → ∀ j, j < S → Good S flat (m.img id j) (sec id) j → Good S flat (m'.img id j) (sec id) j := by
    intro id _ j hj hg
    rcases e.img id j hj with h | h
    · rw [h]; exact hg
    · exact h.1
  refine ⟨himg, ?_⟩
  intro s j hj hg
  rcases e.dev s with h | h | ⟨id, hid, hs, h⟩
  · rw [h j hj]; exact hg
  · exact h.1 j hj
  · subst hs
    rw [h j hj]
    exact himg id hid j hj (gm.g2 id hid j hj hg)

theorem Eff.gm {S flat sec a ws m m'} (ga : GA S sec a ws) (gm : GM S flat sec a m)
    (e : Eff S flat sec a ws m m') : GM S flat sec a m' := by
  have mono := e.mono ga gm
  have hi : ∀ id j, j < S → m'.img id j ≠ 0 → id < a.nextId ∧ sec id * S + j < total S a := by
    intro id j hj hne
    rcases e.img id j hj with h | h
    · rw [h] at hne; exact gm.g3i id j hj hne
    · exact ⟨h.2.1, h.2.2⟩
  have h4i : ∀ id j, j < S → m'.img id j = 0 ∨ Good S flat (m'.img id j) (sec id) j := by
    intro id j hj
    rcases e.img id j hj with h | h
    · rw [h]; exact gm.g4i id j hj
    · exact Or.inr h.1
  have hlog : ∀ x, x ∈ m'.wlog → 0 < x.2 ∧ (x.1 + x.2) * S < total S a + S := by
    obtain ⟨new, hn, hnew⟩ := e.log
    intro x hx
    rw [hn] at hx
    rcases List.mem_append.mp hx with h | h
    · exact hnew x h
    · exact gm.glog x h
  refine ⟨?_, ?_, hi, ?_, h4i, hlog⟩
  rotate_right
  · intro s j hj
    rcases e.dev s with h | h | ⟨id, hid, hs, h⟩
    · rw [h j hj]; exact gm.g4d s j hj
    · exact Or.inr (h.1 j hj)
    · subst hs; rw [h j hj]; exact h4i id j hj
  · intro id hid j hj hg
    rcases e.dev (sec id) with h | h | ⟨id', hid', hs, h⟩
    · rw [h j hj] at hg
      exact mono.1 id hid j hj (gm.g2 id hid j hj hg)
    · obtain ⟨_, _, r, hr, h1, h2⟩ := h
      obtain ⟨b, hb1, hb2, _, hb⟩ := ga.bnd id hid
      rcases hb r hr with h3 | h3 <;> omega
    · have := ga.inj id' id hid' hid hs
      subst this
      rw [← h j hj]; exact hg
  · intro s j hj hne
    rcases e.dev s with h | h | ⟨id, hid, hs, h⟩
    · rw [h j hj] at hne; exact gm.g3d s j hj hne
    · omega
    · subst hs
      rw [h j hj] at hne
      exact (hi id j hj hne).2

theorem mul_succ_le {d n S : Nat} (h : d < n) : d * S + S ≤ n * S := by
  have := Nat.mul_le_mul_right S (Nat.succ_le_of_lt h)
  rw [Nat.succ_mul] at this
  exact this

/-- Progress invariant of a writer that has not flushed yet: `c` bytes of `data` have been passed to `Write`. -/
structure WP (S : Nat) (flat : List Nat) (sec : Nat → Nat) (nid : Nat) (m : Mem) (w : W)
    (start : Nat) (data : List Nat) (c : Nat) : Prop where
  cle : c ≤ data.length
  /-- still filling the first sector, shared with the previous object -/
  ph1 : ∀ id, w.firstImg = some id → id < nid ∧ sec id = w.off ∧ w.off * S + w.firstOff = start + c ∧
          0 < w.firstOff ∧ w.firstOff < S ∧ c ≤ w.firstOff ∧ w.part = [] ∧
          ∀ j, j < S → start ≤ w.off * S + j → w.off * S + j < start + c → Good S flat (m.img id j) w.off j
  /-- past the first sector: everything but the buffered tail is on the device -/
  ph2 : w.firstImg = none → w.off * S + w.part.length = start + c ∧ w.part.length < S ∧ w.part.length ≤ c ∧
          (∀ i, i < w.part.length → w.part.getD i 0 = data.getD (c - w.part.length + i) 0) ∧
          ∀ s j, j < S → start ≤ s * S + j → s * S + j + w.part.length < start + c → Good S flat (m.dev s j) s j
  last1 : ∀ id, w.lastImg = some id → id < nid ∧ sec id * S < start + data.length ∧ start + data.length < sec id * S + S
  last0 : w.lastImg = none → ∃ q, start + data.length = q * S

/-- Everything the writer was given is on the device. -/
def Done (S : Nat) (flat : List Nat) (m : Mem) (start : Nat) (data : List Nat) : Prop :=
  ∀ s j, j < S → start ≤ s * S + j → s * S + j < start + data.length → Good S flat (m.dev s j) s j

theorem WP.mono {S flat sec a m m' w start data c} (wp : WP S flat sec a.nextId m w start data c)
    (mo : Mono S flat sec a m m') : WP S flat sec a.nextId m' w start data c := by
  refine ⟨wp.cle, ?_, ?_, wp.last1, wp.last0⟩
  · intro id h
    obtain ⟨h1, h2, h3, h4, h5, h5', h6, h7⟩ := wp.ph1 id h
    refine ⟨h1, h2, h3, h4, h5, h5', h6, ?_⟩
    intro j hj ha hb
    have := mo.1 id h1 j hj
    rw [h2] at this
    exact this (h7 j hj ha hb)
  · intro h
    obtain ⟨h1, h2, h2', h3, h4⟩ := wp.ph2 h
    exact ⟨h1, h2, h2', h3, fun s j hj ha hb => mo.2 s j hj (h4 s j hj ha hb)⟩

theorem Done.mono {S flat sec a m m' start data} (d : Done S flat m start data)
    (mo : Mono S flat sec a m m') : Done S flat m' start data :=
  fun s j hj ha hb => mo.2 s j hj (d s j hj ha hb)

section stages
variable {S : Nat} {flat : List Nat} {sec : Nat → Nat} {a : Alloc} {ws : List Wr} {m : Mem} {w : W}
  {start : Nat} {data : List Nat} {c : Nat} {p : List Nat}

/-- Steps 3 and 4 of `Write`. -/
theorem stage3_spec (hS : 0 < S) (hm : m.S = S)
    (hF : ∀ k, k < data.length → flat.getD (start + k) 0 = data.getD k 0)
    (hB : start + data.length ≤ total S a)
    (hr : ∃ r, r ∈ ws ∧ r.start = start ∧ r.data = data)
    (wp : WP S flat sec a.nextId m w start data c) (hf : w.firstImg = none) (hpart : w.part = [])
    (hp : ∀ i, i < p.length → p.getD i 0 = data.getD (c + i) 0) (hpl : c + p.length ≤ data.length) :
    Eff S flat sec a ws m (w.stage3 m p).1 ∧ WP S flat sec a.nextId (w.stage3 m p).1 (w.stage3 m p).2 start data (c + p.length) := by
  obtain ⟨mS, dev, img, wl⟩ := m
  have hm' : S = mS := hm.symm
  subst hm'
  obtain ⟨h1, _, _, _, h4⟩ := wp.ph2 hf
  dsimp only at *
  rw [hpart] at h1 h4
  simp only [List.length_nil, Nat.add_zero] at h1 h4
  have hdm : p.length / S * S + p.length % S = p.length := by
    rw [Nat.mul_comm]; exact Nat.div_add_mod _ _
  have hml : p.length % S < S := Nat.mod_lt _ hS
  -- the bytes written directly
  have hgood : ∀ s j, w.off ≤ s → s < w.off + p.length / S → j < S →
      Good S flat (p.getD ((s - w.off) * S + j) 0) s j ∧ s * S + S ≤ start + c + p.length / S * S ∧ start + c ≤ s * S := by
    intro s j hs1 hs2 hj
    obtain ⟨d, rfl⟩ : ∃ d, s = w.off + d := ⟨s - w.off, by omega⟩
    have hd : d < p.length / S := by omega
    have hle := mul_succ_le (S := S) hd
    simp only [Nat.add_sub_cancel_left, Nat.add_mul]
    refine ⟨?_, by omega, by omega⟩
    unfold Good
    rw [hp _ (by omega), ← hF _ (by omega), Nat.add_mul]
    congr 1; omega
  unfold W.stage3
  simp only [hpart, List.nil_append]
  constructor
  · have hlog : ∃ new, (if p.length / S > 0 then (w.off, p.length / S) :: wl else wl) = new ++ wl ∧
        ∀ e, e ∈ new → 0 < e.2 ∧ (e.1 + e.2) * S < total S a + S := by
      by_cases hc : p.length / S > 0
      · rw [if_pos hc]
        refine ⟨[(w.off, p.length / S)], rfl, fun e he => ?_⟩
        simp only [List.mem_singleton] at he
        subst he
        have hoff : (w.off + p.length / S) * S = w.off * S + p.length / S * S := Nat.add_mul _ _ _
        exact ⟨hc, by dsimp only; omega⟩
      · rw [if_neg hc]; exact ⟨[], rfl, fun _ h => by simp at h⟩
    refine ⟨?_, fun _ _ _ => ?_, fun s => ?_, hlog⟩
    · rfl
    · exact Or.inl rfl
    · by_cases hc : p.length / S > 0
      · simp only [hc, if_true]
        by_cases hin : w.off ≤ s ∧ s < w.off + p.length / S
        · refine Or.inr (Or.inl ⟨fun j hj => ?_, ?_, ?_⟩)
          · simp only [writeSectors, hin.1, hin.2, hj, and_self, if_true]
            exact (hgood s j hin.1 hin.2 hj).1
          · have := (hgood s 0 hin.1 hin.2 hS).2; omega
          · obtain ⟨r, hr1, hr2, hr3⟩ := hr
            have := (hgood s 0 hin.1 hin.2 hS).2
            exact ⟨r, hr1, by omega, by rw [hr2, hr3]; omega⟩
        · refine Or.inl fun j _ => ?_
          simp only [writeSectors]
          rw [if_neg]; intro h; exact hin ⟨h.1, h.2.1⟩
      · rw [if_neg hc]; exact Or.inl fun _ _ => rfl
  · refine ⟨by omega, ?_, ?_, wp.last1, wp.last0⟩
    · intro id h; simp [hf] at h
    · intro _
      simp only [List.length_drop]
      have hoff : (w.off + p.length / S) * S = w.off * S + p.length / S * S := Nat.add_mul _ _ _
      refine ⟨by omega, by omega, by omega, ?_, ?_⟩
      · intro i hi
        rw [List.getD_eq_getElem?_getD, List.getElem?_drop, ← List.getD_eq_getElem?_getD, hp _ (by omega)]
        congr 1; omega
      · intro s j hj ha hb
        by_cases hc : p.length / S > 0
        · simp only [hc, if_true]
          by_cases hin : w.off ≤ s ∧ s < w.off + p.length / S
          · simp only [writeSectors, hin.1, hin.2, hj, and_self, if_true]
            exact (hgood s j hin.1 hin.2 hj).1
          · have hlt : s < w.off := by
              rcases Nat.lt_or_ge s w.off with h | h
              · exact h
              · exfalso
                have h2 : w.off + p.length / S ≤ s := by omega
                have := Nat.mul_le_mul_right S h2
                omega
            simp only [writeSectors]
            rw [if_neg (by omega)]
            have := mul_succ_le (S := S) hlt
            exact h4 s j hj ha (by omega)
        · simp only [hc, if_false]
          have : p.length / S = 0 := Nat.le_zero.mp (Nat.not_lt.mp hc)
          rw [this] at hb
          exact h4 s j hj ha (by omega)

theorem getD_append_take (l p : List Nat) (n i : Nat) (hi : i < l.length + n) :
    (l ++ p.take n).getD i 0 = if i < l.length then l.getD i 0 else p.getD (i - l.length) 0 := by
  simp only [List.getD_eq_getElem?_getD, List.getElem?_append]
  split
  · rfl
  · rw [List.getElem?_take, if_pos (by omega)]

/-- Step 2 of `Write`. -/
theorem stage2_spec (hS : 0 < S) (hm : m.S = S)
    (hF : ∀ k, k < data.length → flat.getD (start + k) 0 = data.getD k 0)
    (hB : start + data.length ≤ total S a)
    (hr : ∃ r, r ∈ ws ∧ r.start = start ∧ r.data = data)
    (wp : WP S flat sec a.nextId m w start data c) (hf : w.firstImg = none)
    (hp : ∀ i, i < p.length → p.getD i 0 = data.getD (c + i) 0) (hpl : c + p.length ≤ data.length) :
    Eff S flat sec a ws m (w.stage2 m p).1 ∧ (w.stage2 m p).2.1.firstImg = none ∧
    ∃ c', WP S flat sec a.nextId (w.stage2 m p).1 (w.stage2 m p).2.1 start data c' ∧
      c' + (w.stage2 m p).2.2.1.length = c + p.length ∧
      (∀ i, i < (w.stage2 m p).2.2.1.length → (w.stage2 m p).2.2.1.getD i 0 = data.getD (c' + i) 0) ∧
      ((w.stage2 m p).2.2.2 = true → (w.stage2 m p).2.2.1 = []) ∧
      ((w.stage2 m p).2.2.2 = false → (w.stage2 m p).2.1.part = []) := by
  obtain ⟨mS, dev, img, wl⟩ := m
  have hm' : S = mS := hm.symm
  subst hm'
  obtain ⟨h1, h2, h2', h3, h4⟩ := wp.ph2 hf
  dsimp only at *
  unfold W.stage2
  dsimp only
  by_cases hpos : w.part.length > 0
  · simp only [hpos, if_true]
    -- the bytes of the sector being completed
    have hn : min p.length (S - w.part.length) ≤ p.length := Nat.min_le_left _ _
    have hn2 : min p.length (S - w.part.length) ≤ S - w.part.length := Nat.min_le_right _ _
    have hn3 : min p.length (S - w.part.length) = p.length ∨ min p.length (S - w.part.length) = S - w.part.length := by omega
    generalize min p.length (S - w.part.length) = n at *
    have hlen : (w.part ++ p.take (n)).length = w.part.length + n := by
      simp only [List.length_append, List.length_take]; omega
    have hel : ∀ i, i < w.part.length + n →
        (w.part ++ p.take (n)).getD i 0 = data.getD (c - w.part.length + i) 0 := by
      intro i hi
      rw [getD_append_take _ _ _ _ hi]
      split
      · exact h3 i (by assumption)
      · rw [hp _ (by omega)]; congr 1; omega
    have hdrop : ∀ i, i < (p.drop (n)).length →
        (p.drop (n)).getD i 0 = data.getD (c + n + i) 0 := by
      intro i hi
      simp only [List.length_drop] at hi
      rw [List.getD_eq_getElem?_getD, List.getElem?_drop, ← List.getD_eq_getElem?_getD, hp _ (by omega)]
      congr 1; omega
    by_cases hlt : (w.part ++ p.take (n)).length < S
    · simp only [hlt, if_true]
      refine ⟨Eff.refl _, hf, c + n, ⟨by omega, ?_, ?_, wp.last1, wp.last0⟩, ?_, hdrop, ?_, ?_⟩
      · intro id h; simp [hf] at h
      · intro _
        dsimp only
        rw [hlen]
        refine ⟨by omega, by omega, by omega, ?_, ?_⟩
        · intro i hi
          rw [hel i hi]; congr 1; omega
        · intro s j hj ha hb
          exact h4 s j hj ha (by omega)
      · simp only [List.length_drop]; omega
      · intro _
        rw [hlen] at hlt
        apply List.eq_nil_of_length_eq_zero
        simp only [List.length_drop]; omega
      · intro h; simp at h
    · simp only [hlt, if_false]
      rw [hlen] at hlt
      have hfull : w.part.length + n = S := by omega
      have hg : ∀ j, j < S → Good S flat ((w.part ++ p.take (n)).getD j 0) w.off j := by
        intro j hj
        unfold Good
        rw [hel j (by omega), ← hF _ (by omega)]
        congr 1; omega
      have hoff1 : (w.off + 1) * S = w.off * S + S := by rw [Nat.add_mul, Nat.one_mul]
      refine ⟨⟨rfl, fun _ _ _ => Or.inl rfl, fun s => ?_, [(w.off, 1)], rfl, fun e he => by simp only [List.mem_singleton] at he; subst he; exact ⟨Nat.one_pos, by dsimp only; omega⟩⟩, hf, c + n,
        ⟨by omega, ?_, ?_, wp.last1, wp.last0⟩, ?_, hdrop, ?_, ?_⟩
      · by_cases hs : s = w.off
        · subst hs
          refine Or.inr (Or.inl ⟨fun j hj => ?_, by omega, ?_⟩)
          · simp only [setAt, if_true]; exact hg j hj
          · obtain ⟨r, hr1, hr2, hr3⟩ := hr
            exact ⟨r, hr1, by omega, by rw [hr2, hr3]; omega⟩
        · exact Or.inl fun j _ => by simp only [setAt, hs, if_false]
      · intro id h; simp [hf] at h
      · intro _
        have hoff : (w.off + 1) * S = w.off * S + S := by rw [Nat.add_mul, Nat.one_mul]
        simp only [List.length_nil, Nat.add_zero]
        refine ⟨by omega, hS, Nat.zero_le _, fun i hi => absurd hi (Nat.not_lt_zero _), ?_⟩
        intro s j hj ha hb
        by_cases hs : s = w.off
        · subst hs; simp only [setAt, if_true]; exact hg j hj
        · simp only [setAt, hs, if_false]
          have hlt' : s < w.off := by
            rcases Nat.lt_or_ge s w.off with h | h
            · exact h
            · exfalso
              have h2 : w.off + 1 ≤ s := by omega
              have := Nat.mul_le_mul_right S h2
              omega
          have := mul_succ_le (S := S) hlt'
          exact h4 s j hj ha (by omega)
      · simp only [List.length_drop]; omega
      · intro h; simp at h
      · intro _; first | rfl | trivial
  · simp only [hpos, if_false]
    have hz : w.part = [] := List.eq_nil_of_length_eq_zero (by omega)
    exact ⟨Eff.refl _, hf, c, wp, rfl, hp, fun h => by simp at h, fun _ => hz⟩

/-- Step 1 of `Write`. -/
theorem stage1_spec (hS : 0 < S) (hm : m.S = S)
    (hF : ∀ k, k < data.length → flat.getD (start + k) 0 = data.getD k 0)
    (hB : start + data.length ≤ total S a)
    (wp : WP S flat sec a.nextId m w start data c)
    (hp : ∀ i, i < p.length → p.getD i 0 = data.getD (c + i) 0) (hpl : c + p.length ≤ data.length) :
    Eff S flat sec a ws m (w.stage1 m p).1 ∧
    ∃ c', WP S flat sec a.nextId (w.stage1 m p).1 (w.stage1 m p).2.1 start data c' ∧
      c' + (w.stage1 m p).2.2.1.length = c + p.length ∧
      (∀ i, i < (w.stage1 m p).2.2.1.length → (w.stage1 m p).2.2.1.getD i 0 = data.getD (c' + i) 0) ∧
      ((w.stage1 m p).2.2.2 = true → (w.stage1 m p).2.2.1 = []) ∧
      ((w.stage1 m p).2.2.2 = false → (w.stage1 m p).2.1.firstImg = none) := by
  obtain ⟨mS, dev, img, wl⟩ := m
  have hm' : S = mS := hm.symm
  subst hm'
  unfold W.stage1
  cases hfi : w.firstImg with
  | none =>
    dsimp only
    exact ⟨Eff.refl _, c, wp, rfl, hp, fun h => by simp at h, fun _ => hfi⟩
  | some id =>
    obtain ⟨g1, g2, g3, g4, g5, g5', g6, g7⟩ := wp.ph1 id hfi
    dsimp only at *
    have hn : min p.length (S - w.firstOff) ≤ p.length := Nat.min_le_left _ _
    have hn2 : min p.length (S - w.firstOff) ≤ S - w.firstOff := Nat.min_le_right _ _
    have hn3 : min p.length (S - w.firstOff) = p.length ∨ min p.length (S - w.firstOff) = S - w.firstOff := by omega
    generalize min p.length (S - w.firstOff) = n at *
    have hlen : (p.take n).length = n := by simp only [List.length_take]; omega
    have hdrop : ∀ i, i < (p.drop n).length → (p.drop n).getD i 0 = data.getD (c + n + i) 0 := by
      intro i hi
      simp only [List.length_drop] at hi
      rw [List.getD_eq_getElem?_getD, List.getElem?_drop, ← List.getD_eq_getElem?_getD, hp _ (by omega)]
      congr 1; omega
    -- the new image of the first sector
    have himg : ∀ j, j < S → (w.firstOff ≤ j ∧ j < w.firstOff + n →
          Good S flat (setRange (img id) w.firstOff (p.take n) j) w.off j) ∧
        (¬ (w.firstOff ≤ j ∧ j < w.firstOff + n) → setRange (img id) w.firstOff (p.take n) j = img id j) := by
      intro j hj
      constructor
      · intro hin
        unfold setRange Good
        rw [hlen, if_pos hin, List.getD_eq_getElem?_getD, List.getElem?_take, if_pos (by omega),
          ← List.getD_eq_getElem?_getD, hp _ (by omega), ← hF _ (by omega)]
        congr 1; omega
      · intro hout
        unfold setRange
        rw [hlen, if_neg hout]
    have hgood : ∀ j, j < S → start ≤ w.off * S + j → w.off * S + j < start + (c + n) →
        Good S flat (setRange (img id) w.firstOff (p.take n) j) w.off j := by
      intro j hj ha hb
      by_cases hin : w.firstOff ≤ j ∧ j < w.firstOff + n
      · exact (himg j hj).1 hin
      · rw [(himg j hj).2 hin]
        exact g7 j hj ha (by omega)
    have heffimg : ∀ id' j, j < S → setAt img id (setRange (img id) w.firstOff (p.take n)) id' j = img id' j ∨
        (Good S flat (setAt img id (setRange (img id) w.firstOff (p.take n)) id' j) (sec id') j ∧ id' < a.nextId ∧
          sec id' * S + j < total S a) := by
      intro id' j hj
      by_cases hid : id' = id
      · subst hid
        simp only [setAt, if_true]
        by_cases hin : w.firstOff ≤ j ∧ j < w.firstOff + n
        · refine Or.inr ⟨?_, g1, by rw [g2]; omega⟩
          rw [g2]; exact (himg j hj).1 hin
        · exact Or.inl ((himg j hj).2 hin)
      · simp only [setAt, hid, if_false]; exact Or.inl trivial
    by_cases hlt : w.firstOff + n < S
    · simp only [hlt, if_true]
      refine ⟨⟨rfl, heffimg, fun _ => Or.inl fun _ _ => rfl, [], rfl, fun _ h => by simp at h⟩, c + n, ⟨by omega, ?_, ?_, wp.last1, wp.last0⟩, ?_, hdrop, ?_, ?_⟩
      · intro id' h
        dsimp only at h ⊢
        cases h
        refine ⟨g1, g2, by omega, by omega, hlt, by omega, g6, ?_⟩
        intro j hj ha hb
        simp only [setAt, if_true]
        exact hgood j hj ha hb
      · intro h; dsimp only at h; cases h
      · simp only [List.length_drop]; omega
      · intro _
        apply List.eq_nil_of_length_eq_zero
        simp only [List.length_drop]; omega
      · intro h; simp at h
    · simp only [hlt, if_false]
      have hfull : w.firstOff + n = S := by omega
      have hoff : (w.off + 1) * S = w.off * S + S := by rw [Nat.add_mul, Nat.one_mul]
      refine ⟨⟨rfl, heffimg, fun s => ?_, [(w.off, 1)], rfl, fun e he => by simp only [List.mem_singleton] at he; subst he; exact ⟨Nat.one_pos, by dsimp only; omega⟩⟩, c + n, ⟨by omega, ?_, ?_, wp.last1, wp.last0⟩, ?_, hdrop, ?_, ?_⟩
      · by_cases hs : s = w.off
        · subst hs
          refine Or.inr (Or.inr ⟨id, g1, g2, fun j _ => ?_⟩)
          simp only [setAt, if_true]
        · exact Or.inl fun j _ => by simp only [setAt, hs, if_false]
      · intro id' h; simp at h
      · intro _
        dsimp only
        rw [g6]
        simp only [List.length_nil, Nat.add_zero]
        refine ⟨by omega, hS, Nat.zero_le _, fun i hi => absurd hi (Nat.not_lt_zero _), ?_⟩
        intro s j hj ha hb
        by_cases hs : s = w.off
        · subst hs; simp only [setAt, if_true]; exact hgood j hj ha (by omega)
        · exfalso
          rcases Nat.lt_or_ge s w.off with h | h
          · have := mul_succ_le (S := S) h; omega
          · have h2 : w.off + 1 ≤ s := by omega
            have := Nat.mul_le_mul_right S h2
            omega
      · simp only [List.length_drop]; omega
      · intro h; simp at h
      · intro _; first | rfl | trivial

theorem Mono.trans {m1 m2 m3 : Mem} (h1 : Mono S flat sec a m1 m2) (h2 : Mono S flat sec a m2 m3) :
    Mono S flat sec a m1 m3 :=
  ⟨fun id hid j hj h => h2.1 id hid j hj (h1.1 id hid j hj h), fun s j hj h => h2.2 s j hj (h1.2 s j hj h)⟩

/-- One `Write` call. -/
theorem write_spec (hS : 0 < S) (hm : m.S = S)
    (hF : ∀ k, k < data.length → flat.getD (start + k) 0 = data.getD k 0)
    (hB : start + data.length ≤ total S a)
    (hr : ∃ r, r ∈ ws ∧ r.start = start ∧ r.data = data)
    (ga : GA S sec a ws) (gm : GM S flat sec a m)
    (wp : WP S flat sec a.nextId m w start data c)
    (hp : ∀ i, i < p.length → p.getD i 0 = data.getD (c + i) 0) (hpl : c + p.length ≤ data.length) :
    GM S flat sec a (w.write m p).1 ∧ Mono S flat sec a m (w.write m p).1 ∧ (w.write m p).1.S = S ∧
    WP S flat sec a.nextId (w.write m p).1 (w.write m p).2 start data (c + p.length) := by
  have s1 := stage1_spec (ws := ws) hS hm hF hB wp hp hpl
  unfold W.write
  generalize w.stage1 m p = r1 at s1
  obtain ⟨m1, w1, p1, stop1⟩ := r1
  dsimp only at s1 ⊢
  obtain ⟨e1, c1, wp1, hc1, hp1, hstop1, hgo1⟩ := s1
  have gm1 := e1.gm ga gm
  have mo1 := e1.mono ga gm
  have hm1 : m1.S = S := by rw [e1.S_eq]; exact hm
  cases stop1 with
  | true =>
    simp only [if_true]
    have : p1 = [] := hstop1 rfl
    subst this
    simp only [List.length_nil, Nat.add_zero] at hc1
    subst hc1
    exact ⟨gm1, mo1, hm1, wp1⟩
  | false =>
    simp only [Bool.false_eq_true, if_false]
    have hf1 := hgo1 rfl
    have s2 := stage2_spec hS hm1 hF hB hr wp1 hf1 hp1 (by omega)
    generalize w1.stage2 m1 p1 = r2 at s2
    obtain ⟨m2, w2, p2, stop2⟩ := r2
    dsimp only at s2 ⊢
    obtain ⟨e2, hf2, c2, wp2, hc2, hp2, hstop2, hgo2⟩ := s2
    have gm2 := e2.gm ga gm1
    have mo2 := mo1.trans (e2.mono ga gm1)
    have hm2 : m2.S = S := by rw [e2.S_eq]; exact hm1
    cases stop2 with
    | true =>
      simp only [if_true]
      have : p2 = [] := hstop2 rfl
      subst this
      simp only [List.length_nil, Nat.add_zero] at hc2
      have : c2 = c + p.length := by omega
      subst this
      exact ⟨gm2, mo2, hm2, wp2⟩
    | false =>
      simp only [Bool.false_eq_true, if_false]
      have s3 := stage3_spec hS hm2 hF hB hr wp2 hf2 (hgo2 rfl) hp2 (by omega)
      obtain ⟨e3, wp3⟩ := s3
      have : c2 + p2.length = c + p.length := by omega
      rw [this] at wp3
      refine ⟨e3.gm ga gm2, mo2.trans (e3.mono ga gm2), ?_, wp3⟩
      rw [e3.S_eq]; exact hm2

/-- The image half of an effect alone is an effect (a `WriteAt` that failed after the image was updated). -/
theorem Eff.imgOnly {m m' : Mem} (e : Eff S flat sec a ws m m') : Eff S flat sec a ws m { m with img := m'.img } :=
  ⟨rfl, e.img, fun _ => Or.inl fun _ _ => rfl, [], rfl, fun _ h => by simp at h⟩

/-- One `Write` call during which the `j`-th `WriteAt` fails (or none, when there are fewer). -/
theorem writeFail_spec (hS : 0 < S) (hm : m.S = S)
    (hF : ∀ k, k < data.length → flat.getD (start + k) 0 = data.getD k 0)
    (hB : start + data.length ≤ total S a)
    (hr : ∃ r, r ∈ ws ∧ r.start = start ∧ r.data = data)
    (ga : GA S sec a ws) (gm : GM S flat sec a m)
    (wp : WP S flat sec a.nextId m w start data c)
    (hp : ∀ i, i < p.length → p.getD i 0 = data.getD (c + i) 0) (hpl : c + p.length ≤ data.length) (j : Nat) :
    GM S flat sec a (w.writeFail m p j).1 ∧ Mono S flat sec a m (w.writeFail m p j).1 ∧ (w.writeFail m p j).1.S = S ∧
    ∀ w', (w.writeFail m p j).2 = some w' →
      WP S flat sec a.nextId (w.writeFail m p j).1 w' start data (c + p.length) := by
  have s1 := stage1_spec (ws := ws) hS hm hF hB wp hp hpl
  unfold W.writeFail
  generalize w.stage1 m p = r1 at s1
  obtain ⟨m1, w1, p1, stop1⟩ := r1
  dsimp only at s1 ⊢
  obtain ⟨e1, c1, wp1, hc1, hp1, hstop1, hgo1⟩ := s1
  have gm1 := e1.gm ga gm
  have mo1 := e1.mono ga gm
  have hm1 : m1.S = S := by rw [e1.S_eq]; exact hm
  by_cases hf1 : (w.firstImg.isSome && !stop1 && j == 0) = true
  · -- the first-sector write fails: only the image was updated
    rw [if_pos hf1]
    have e0 := e1.imgOnly
    exact ⟨e0.gm ga gm, e0.mono ga gm, hm, fun w' h => by simp at h⟩
  · rw [if_neg hf1]
    cases stop1 with
    | true =>
      simp only [if_true]
      have : p1 = [] := hstop1 rfl
      subst this
      simp only [List.length_nil, Nat.add_zero] at hc1
      subst hc1
      exact ⟨gm1, mo1, hm1, fun w' h => by cases h; exact wp1⟩
    | false =>
      simp only [Bool.false_eq_true, if_false]
      have hf := hgo1 rfl
      have s2 := stage2_spec hS hm1 hF hB hr wp1 hf hp1 (by omega)
      generalize w1.stage2 m1 p1 = r2 at s2
      obtain ⟨m2, w2, p2, stop2⟩ := r2
      dsimp only at s2 ⊢
      obtain ⟨e2, hf2, c2, wp2, hc2, hp2, hstop2, hgo2⟩ := s2
      have gm2 := e2.gm ga gm1
      have mo2 := mo1.trans (e2.mono ga gm1)
      have hm2 : m2.S = S := by rw [e2.S_eq]; exact hm1
      generalize (if (w.firstImg.isSome && !false) = true then j - 1 else j) = j1
      by_cases h2 : (decide (w1.part.length > 0) && !stop2 && j1 == 0) = true
      · -- the private-sector write fails: nothing of step 2 reaches the device
        rw [if_pos h2]
        exact ⟨gm1, mo1, hm1, fun w' h => by simp at h⟩
      · rw [if_neg h2]
        cases stop2 with
        | true =>
          simp only [if_true]
          have : p2 = [] := hstop2 rfl
          subst this
          simp only [List.length_nil, Nat.add_zero] at hc2
          have : c2 = c + p.length := by omega
          subst this
          exact ⟨gm2, mo2, hm2, fun w' h => by cases h; exact wp2⟩
        | false =>
          simp only [Bool.false_eq_true, if_false]
          generalize (if (decide (w1.part.length > 0) && !false) = true then j1 - 1 else j1) = j2
          by_cases h3 : (decide (p2.length / m.S > 0) && j2 == 0) = true
          · -- the run of whole sectors is not written
            rw [if_pos h3]
            exact ⟨gm2, mo2, hm2, fun w' h => by simp at h⟩
          · rw [if_neg h3]
            have s3 := stage3_spec hS hm2 hF hB hr wp2 hf2 (hgo2 rfl) hp2 (by omega)
            obtain ⟨e3, wp3⟩ := s3
            have : c2 + p2.length = c + p.length := by omega
            rw [this] at wp3
            refine ⟨e3.gm ga gm2, mo2.trans (e3.mono ga gm2), ?_, fun w' h => by cases h; exact wp3⟩
            rw [e3.S_eq]; exact hm2

theorem setRange_nil (f : Nat → Nat) (k : Nat) : setRange f k [] = f := by
  funext i; unfold setRange; rw [if_neg (by simp only [List.length_nil]; omega)]

/-- `flush()` after all data has been written. -/
theorem flush_spec (hS : 0 < S) (hm : m.S = S)
    (hF : ∀ k, k < data.length → flat.getD (start + k) 0 = data.getD k 0)
    (hB : start + data.length ≤ total S a)
    (ga : GA S sec a ws) (wp : WP S flat sec a.nextId m w start data data.length) :
    Eff S flat sec a ws m (w.flush m) ∧ Done S flat (w.flush m) start data := by
  obtain ⟨mS, dev, img, wl⟩ := m
  have hm' : S = mS := hm.symm
  subst hm'
  unfold W.flush
  cases hl : w.lastImg with
  | none =>
    dsimp only
    refine ⟨Eff.refl _, ?_⟩
    obtain ⟨q, hq⟩ := wp.last0 hl
    cases hfi : w.firstImg with
    | some id =>
      obtain ⟨_, _, g3, g4, g5, _⟩ := wp.ph1 id hfi
      have := sec_unique' (S := S) (a := w.off) (b := q) (r1 := w.firstOff) (r2 := 0) (by omega) g5 hS
      omega
    | none =>
      obtain ⟨h1, h2, _, _, h4⟩ := wp.ph2 hfi
      have := sec_unique' (S := S) (a := w.off) (b := q) (r1 := w.part.length) (r2 := 0) (by omega) h2 hS
      intro s j hj ha hb
      exact h4 s j hj ha (by omega)
  | some lid =>
    dsimp only
    obtain ⟨l1, l2, l3⟩ := wp.last1 lid hl
    cases hfi : w.firstImg with
    | some id =>
      obtain ⟨g1, g2, g3, g4, g5, g5', g6, g7⟩ := wp.ph1 id hfi
      dsimp only at *
      have hu := sec_unique' (S := S) (a := w.off) (b := sec lid) (r1 := w.firstOff)
        (r2 := start + data.length - sec lid * S) (by omega) g5 (by omega)
      have hid : lid = id := ga.inj lid id l1 g1 (by rw [g2]; exact hu.1.symm)
      subst hid
      rw [g6, setRange_nil]
      have hoff : (w.off + 1) * S = w.off * S + S := by rw [Nat.add_mul, Nat.one_mul]
      refine ⟨⟨rfl, fun id' j _ => Or.inl ?_, fun s => ?_, [(w.off, 1)], rfl, fun e he => by simp only [List.mem_singleton] at he; subst he; exact ⟨Nat.one_pos, by dsimp only; omega⟩⟩, ?_⟩
      · unfold setAt
        dsimp only
        by_cases h : id' = lid
        · rw [if_pos h, h]
        · rw [if_neg h]
      · by_cases hs : s = w.off
        · subst hs
          refine Or.inr (Or.inr ⟨lid, l1, g2, fun j _ => ?_⟩)
          simp only [setAt, if_true]
        · exact Or.inl fun j _ => by simp only [setAt, hs, if_false]
      · intro s j hj ha hb
        by_cases hs : s = w.off
        · subst hs; simp only [setAt, if_true]; exact g7 j hj ha hb
        · exfalso
          rcases Nat.lt_or_ge s w.off with h | h
          · have := mul_succ_le (S := S) h; omega
          · have h2 : w.off + 1 ≤ s := by omega
            have := Nat.mul_le_mul_right S h2
            omega
    | none =>
      obtain ⟨h1, h2, h2', h3, h4⟩ := wp.ph2 hfi
      dsimp only at *
      have hu := sec_unique' (S := S) (a := w.off) (b := sec lid) (r1 := w.part.length)
        (r2 := start + data.length - sec lid * S) (by omega) h2 (by omega)
      have hg : ∀ j, j < w.part.length → Good S flat (setRange (img lid) 0 w.part j) w.off j := by
        intro j hj
        unfold setRange Good
        rw [if_pos (by omega), Nat.sub_zero, h3 j hj, ← hF _ (by omega)]
        congr 1; omega
      have hout : ∀ j, ¬ j < w.part.length → setRange (img lid) 0 w.part j = img lid j := by
        intro j hj
        unfold setRange
        rw [if_neg (by omega)]
      have hoff1 : (w.off + 1) * S = w.off * S + S := by rw [Nat.add_mul, Nat.one_mul]
      refine ⟨⟨rfl, fun id' j hj => ?_, fun s => ?_, [(w.off, 1)], rfl, fun e he => by simp only [List.mem_singleton] at he; subst he; exact ⟨Nat.one_pos, by dsimp only; omega⟩⟩, ?_⟩
      · by_cases hid : id' = lid
        · subst hid
          simp only [setAt, if_true]
          by_cases hin : j < w.part.length
          · refine Or.inr ⟨?_, l1, by omega⟩
            rw [← hu.1]; exact hg j hin
          · exact Or.inl (hout j hin)
        · simp only [setAt, hid, if_false]; exact Or.inl trivial
      · by_cases hs : s = w.off
        · subst hs
          refine Or.inr (Or.inr ⟨lid, l1, hu.1.symm, fun j _ => ?_⟩)
          simp only [setAt, if_true]
        · exact Or.inl fun j _ => by simp only [setAt, hs, if_false]
      · intro s j hj ha hb
        by_cases hs : s = w.off
        · subst hs; simp only [setAt, if_true]; exact hg j (by omega)
        · simp only [setAt, hs, if_false]
          have hlt' : s < w.off := by
            rcases Nat.lt_or_ge s w.off with h | h
            · exact h
            · exfalso
              have h2 : w.off + 1 ≤ s := by omega
              have := Nat.mul_le_mul_right S h2
              rw [Nat.add_mul, Nat.one_mul] at this
              omega
          have := mul_succ_le (S := S) hlt'
          exact h4 s j hj ha (by omega)
end stages

/-- What `Put` does to the allocation state, by cases. -/
theorem alloc_spec {S : Nat} (hS : 0 < S) (a : Alloc) (size : Nat)
    (h1 : ∀ id o, a.shared = some (id, o) → 0 < o ∧ o < S) :
    (alloc S a size).2.2 = total S a ∧ total S (alloc S a size).1 = total S a + size ∧
    (alloc S a size).2.1.off = a.wos ∧ (alloc S a size).2.1.firstImg = a.shared.map (·.1) ∧
    (alloc S a size).2.1.firstOff = a.off ∧ (alloc S a size).2.1.part = [] ∧
    (alloc S a size).2.1.lastImg = (alloc S a size).1.shared.map (·.1) ∧
    ((((alloc S a size).1.shared = none ∧ (alloc S a size).1.nextId = a.nextId ∧
        total S (alloc S a size).1 = (alloc S a size).1.wos * S ∧ a.wos ≤ (alloc S a size).1.wos ∧
        ((alloc S a size).1.wos = a.wos → a.shared = none))) ∨
     (∃ last, 0 < last ∧ last < S ∧ (alloc S a size).1.shared = some (a.nextId, last) ∧
        (alloc S a size).1.nextId = a.nextId + 1 ∧
        (a.wos < (alloc S a size).1.wos ∨ (a.wos = (alloc S a size).1.wos ∧ a.shared = none)) ∧
        total S a ≤ (alloc S a size).1.wos * S) ∨
     (∃ id o last, 0 < last ∧ last < S ∧ a.shared = some (id, o) ∧ (alloc S a size).1.shared = some (id, last) ∧
        (alloc S a size).1.nextId = a.nextId ∧ (alloc S a size).1.wos = a.wos)) := by
  have hsome : ∀ id o, a.shared = some (id, o) → a.off = o := by
    intro id o h; simp only [Alloc.off, h]
  have hnone : a.shared = none → a.off = 0 := by
    intro h; simp only [Alloc.off, h]
  have hdm : (a.off + size) / S * S + (a.off + size) % S = a.off + size := by
    rw [Nat.mul_comm]; exact Nat.div_add_mod _ _
  have hml : (a.off + size) % S < S := Nat.mod_lt _ hS
  have hfoS : a.off < S := by
    cases hsh : a.shared with
    | none => rw [hnone hsh]; exact hS
    | some x => obtain ⟨id, o⟩ := x; rw [hsome id o hsh]; exact (h1 id o hsh).2
  have hadd : (a.wos + (a.off + size) / S) * S = a.wos * S + (a.off + size) / S * S := Nat.add_mul _ _ _
  unfold alloc
  simp only [total]
  generalize hsc : (a.off + size) / S = sc at *
  generalize hla : (a.off + size) % S = last at *
  generalize a.off = fo at *
  refine ⟨(by first | rfl | trivial), ?_, (by first | rfl | trivial), (by first | rfl | trivial), (by first | rfl | trivial), (by first | rfl | trivial), (by first | rfl | trivial), ?_⟩
  · -- total
    by_cases hl : last = 0
    · simp only [hl, if_true, Alloc.off]; omega
    · simp only [hl, if_false]
      by_cases hn : a.shared.isNone = true ∨ sc > 0
      · simp only [hn, if_true, Alloc.off]; omega
      · simp only [hn, if_false]
        cases hsh : a.shared with
        | none => simp [hsh] at hn
        | some x =>
          obtain ⟨id, o⟩ := x
          have : sc = 0 := by omega
          simp only [Alloc.off, Option.map] at *
          omega
  · by_cases hl : last = 0
    · simp only [hl, if_true]
      refine Or.inl ⟨(by first | rfl | trivial), (by first | rfl | trivial), ?_, by omega, ?_⟩
      · simp only [Alloc.off]; omega
      · intro h
        have hsc0 : sc = 0 := by omega
        have hsc1 : sc * S = 0 := by rw [hsc0, Nat.zero_mul]
        cases hsh : a.shared with
        | none => rfl
        | some x =>
          obtain ⟨id, o⟩ := x
          have := (h1 id o hsh).1
          have := hsome id o hsh
          omega
    · simp only [hl, if_false]
      by_cases hn : a.shared.isNone = true ∨ sc > 0
      · simp only [hn, if_true]
        refine Or.inr (Or.inl ⟨last, by omega, hml, (by first | rfl | trivial), (by first | rfl | trivial), ?_, ?_⟩)
        · rcases hn with hn | hn
          · by_cases hsc0 : sc = 0
            · right; exact ⟨by omega, by simpa using hn⟩
            · left; omega
          · left; omega
        · rcases hn with hn | hn
          · have : a.shared = none := by simpa using hn
            have := hnone this
            omega
          · have := mul_succ_le (S := S) hn
            omega
      · simp only [hn, if_false]
        cases hsh : a.shared with
        | none => simp [hsh] at hn
        | some x =>
          obtain ⟨id, o⟩ := x
          have : sc = 0 := by omega
          refine Or.inr (Or.inr ⟨id, o, last, by omega, hml, (by first | rfl | trivial), ?_, (by first | rfl | trivial), by simp [this]⟩)
          simp [Option.map]

end BB.SectorWriter
