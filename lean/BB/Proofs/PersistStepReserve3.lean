import BB.Proofs.PersistStepReserve2
/-!
# Invariant preservation: `reserve`, assembled
-/
namespace BB.Persist

theorem inv_reserve {w w' : World} {i size key : Nat} {upload : Bool} {o : Obj} (h : Inv w)
    (hr : w.reserve i size key upload = .ok o w') : Inv w' := by
  unfold World.reserve at hr
  split at hr
  · cases hr
  · cases hb : w.pbl.blocks[i]? with
    | none => simp [hb] at hr
    | some b =>
      simp only [hb] at hr
      split at hr
      · cases hr
      · rename_i hcond
        simp only [not_or, Nat.not_lt] at hcond
        obtain ⟨hsz, hfit⟩ := hcond
        simp only [World.Reserve.ok.injEq] at hr
        obtain ⟨rfl, rfl⟩ := hr
        have hbm : b ∈ w.pbl.blocks := List.mem_of_getElem? hb
        -- the list after the cursor moved
        have hl : BlocksLike w.pbl (w.pbl.setBlk i fun b => { b with cursor := b.cursor + size }) :=
          blocksLike_modify _ _ _ (by intro b; simp)
        have hb' : (w.pbl.setBlk i fun b => { b with cursor := b.cursor + size }).blocks[i]? =
            some { b with cursor := b.cursor + size } := by
          simp [PBL.setBlk, List.getElem?_modify, hb]
        have hw' := wfp_setBlk_cursor h.wfp i size
        have hown' := own_like hl h.own
        have hobj' := objInv_like hl h.obj
        have hsz1 : 1 ≤ size := Nat.pos_of_ne_zero hsz
        refine ⟨h.cfg, hw', hown', ?_, ?_, ?_, ?_, ?_, ?_, ?_⟩
        · refine objInv_add hw' hown'.gids hown'.gidLt hobj' _ i { b with cursor := b.cursor + size } hb' rfl rfl rfl rfl hsz1 rfl
            rfl rfl rfl rfl rfl (h.obj.cursor b hbm) ?_
          intro o2 ho2 hm hg
          exact (h.obj.place o2 ho2 hm i b hb hg.symm).2
        · refine epochInv_add _ rfl rfl ?_
          refine ⟨?_, ?_, ?_, h.epoch.precov⟩
          · intro o' ho' j b' e hb'j hg hf
            obtain ⟨b0, hb0, g1, _⟩ := hl.get j b' hb'j
            have := h.epoch.range o' ho' j b0 e hb0 (by rw [← g1]; exact hg) hf
            have hwr : b'.written = b0.written := by
              simp only [PBL.setBlk, List.getElem?_modify, hb0] at hb'j
              by_cases hij : i = j <;> simp [hij] at hb'j <;> subst hb'j <;> rfl
            rw [hwr]; exact this
          · intro o' ho' b' hb'm e hg hf hlt
            obtain ⟨j, hj⟩ := List.getElem?_of_mem hb'm
            obtain ⟨b0, hb0, g1, _⟩ := hl.get j b' hj
            have := h.epoch.synced o' ho' b0 (List.mem_of_getElem? hb0) e (by rw [← g1]; exact hg) hf hlt
            have hwr : b'.synced = b0.synced := by
              simp only [PBL.setBlk, List.getElem?_modify, hb0] at hj
              by_cases hij : i = j <;> simp [hij] at hj <;> subst hj <;> rfl
            rw [hwr]; exact this
          · intro o' ho' b' hb'm e hg hf hlt
            obtain ⟨j, hj⟩ := List.getElem?_of_mem hb'm
            obtain ⟨b0, hb0, g1, _⟩ := hl.get j b' hj
            have := h.epoch.syncing o' ho' b0 (List.mem_of_getElem? hb0) e (by rw [← g1]; exact hg) hf hlt
            have hwr : b'.syncing = b0.syncing := by
              simp only [PBL.setBlk, List.getElem?_modify, hb0] at hj
              by_cases hij : i = j <;> simp [hij] at hj <;> subst hj <;> rfl
            rw [hwr]; exact this
        · exact devInv_add _ rfl rfl rfl rfl (devInv_like hl h.dev)
        · exact recInv_add _ (recInv_like hl rfl rfl rfl h.recs)
        · intro f hf
          exact fileInv_add _ rfl (fileInv_like hl rfl rfl rfl (Nat.le_refl _) hl.heldF0 (h.files f hf))
        · intro s hsw
          exact fileInv_add _ rfl (fileInv_like hl rfl rfl rfl (Nat.le_refl _) (hl.heldF _) (h.swFile s hsw))
        · exact ⟨fun s hsw => h.sw.stage s hsw⟩

end BB.Persist
