import BB.Proofs.PersistStepFin2
/-!
# Invariant preservation: the finalizer, assembled
-/
namespace BB.Persist

theorem inv_finalize {w w' : World} {id : Nat} (h : Inv w) (hfz : w.finalize id = .ok w') : Inv w' := by
  unfold World.finalize at hfz
  cases hobj : w.obj? id with
  | none => simp [hobj] at hfz
  | some o =>
    simp only [hobj] at hfz
    split at hfz
    · cases hfz
    · rename_i hcond
      simp only [Bool.or_eq_true, Bool.not_eq_true', not_or, Bool.not_eq_false, Bool.not_eq_true] at hcond
      obtain ⟨⟨hcop, hmine⟩, hnofin⟩ := hcond
      have hnf : o.fin = none := by
        cases hf0 : o.fin with
        | none => rfl
        | some x => rw [hf0] at hnofin; simp at hnofin
      cases hf : w.pbl.finalize o.abs o.off o.size w.nextSeed with
      | unavailable => simp [hf] at hfz
      | internal => simp [hf] at hfz
      | ok p' e =>
        simp only [hf, World.Fin.ok.injEq] at hfz
        subst hfz
        obtain ⟨ho, hid⟩ := obj?_some hobj
        obtain ⟨_, hrel, _, _, _, _, htr, hrl, _, _, _⟩ := finalize_fields hf
        obtain ⟨hin, habs⟩ := h.obj.absIn o ho hmine
        obtain ⟨b0, hb0, hb0g⟩ := habs hrel
        have hw' : WFP p' := finalize_wfp h.wfp hf hin (by
          intro b hb
          rw [hb0] at hb; cases hb
          exact (h.obj.place o ho hmine _ b0 hb0 hb0g).2)
        have hl := finalize_like hf
        have hg := setFin_same id e
        have hisO : ∀ x ∈ w.objs, x.id = id → x = o := fun x hx hxid => obj_eq_of_id h.obj.ids hx ho (by rw [hxid, hid])
        have hobj' : ObjInv w.cfg (w.objs.map (setFin id e)) p' w.zombies w.pins w.nextObj w.nextGid w.shadow := by
          refine objInv_fin _ hg ?_ (objInv_like hl h.obj)
          intro x hx hfin
          by_cases hxid : x.id = id
          · rw [hisO x hx hxid]; exact hcop
          · rw [setFin_other hxid] at hfin
            exact h.obj.fin x hx hfin
        have hfiles : ∀ f ∈ filesOf w.dir, FileInv w.cfg.ss f (p'.blocks ++ p'.toRelease) (recsOf w.idx)
            (w.objs.map (setFin id e)) p' (if w.pbl.bumps o.abs then w.nextSeed + 1 else w.nextSeed) := by
          intro f hff
          have := fileInv_finalize (k := 0) h ho hid hmine hnf hf (by simpa using h.files f hff)
          simpa using this
        have hswf : ∀ s, w.sw = some s → FileInv w.cfg.ss s.file (p'.blocks ++ p'.toRelease.drop p'.releasing) (recsOf w.idx)
            (w.objs.map (setFin id e)) p' (if w.pbl.bumps o.abs then w.nextSeed + 1 else w.nextSeed) := by
          intro s hsw
          have := fileInv_finalize h ho hid hmine hnf hf (h.swFile s hsw)
          rw [hrl]; exact this
        have hsw' : SwInv w.sw w.dir p' w.g1 := by
          constructor
          intro s hsw
          obtain ⟨a1, a2, a3, a4, a5, a6, a7⟩ := h.sw.stage s hsw
          exact ⟨a1, a2, a3, a4, a5, by rw [hrl, htr]; exact a6, a7⟩
        exact ⟨h.cfg, hw', own_like hl h.own, hobj', epochInv_finalize h ho hid hmine hf, devInv_fin _ hg (devInv_like hl h.dev),
          recInv_finalize h ho hid hnf hf, hfiles, hswf, hsw'⟩

end BB.Persist
