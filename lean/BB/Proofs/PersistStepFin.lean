import BB.Proofs.PersistFinObj
/-!
# Invariant preservation: the finalizer, epochs (`C02_epoch_covered`: a freshly finalized object is
in an epoch that no data sync has been announced for)
-/
namespace BB.Persist

theorem finalize_epochLast_mono {p p' : PBL} {abs off size fresh e : Nat} (hf : p.finalize abs off size fresh = .ok p' e)
    {q l : Nat} (h : p.epochLast[q]? = some l) : p'.epochLast[q]? = some l := by
  obtain ⟨_, _, _, _, _, _, _, _, _, _, _, hb1, hb0⟩ := finalize_fields hf
  by_cases hb : p.bumps abs = true
  · rw [(hb1 hb).2, List.getElem?_append_left (List.getElem?_eq_some_iff.1 h).1]; exact h
  · rw [(hb0 (by simpa using hb)).2]; exact h

theorem epochInv_finalize {w : World} (h : Inv w) {o : Obj} {id e : Nat} {p' : PBL} (ho : o ∈ w.objs) (hid : o.id = id)
    (hm : o.mine = true) (hf : w.pbl.finalize o.abs o.off o.size w.nextSeed = .ok p' e) :
    EpochInv (w.objs.map (setFin id e)) p' w.g1 := by
  have hg := setFin_same id e
  obtain ⟨_, hrel, ho', hrel', hsg, hsd, _, _, _, _, _, _, _⟩ := finalize_fields hf
  obtain ⟨hin, habs⟩ := h.obj.absIn o ho hm
  obtain ⟨b0, hb0, hb0g⟩ := habs hrel
  obtain ⟨he1, he2, last, he3, he4⟩ := finalize_epoch h.wfp hf hin
  have hisO : ∀ x ∈ w.objs, x.id = id → x = o := fun x hx hxid => obj_eq_of_id h.obj.ids hx ho (by rw [hxid, hid])
  have hs1 := h.wfp.sync1
  -- the index of the object's block
  have hidx : ∀ (i : Nat) (b : Blk), w.pbl.blocks[i]? = some b → b.gid = o.gid → i = o.abs - w.pbl.released :=
    fun i b hb hgid => idx_of_gid h.wfp hb hb0 (by rw [hgid, hb0g])
  refine ⟨?_, ?_, ?_, ?_⟩
  · intro x' hx' i b' e' hb' hgid hfin
    obtain ⟨x, hx, rfl⟩ := mem_map_obj hx'
    obtain ⟨b, hb, g1, _, _, _, _, _, g8, g9⟩ := finalize_blocks hf i b' hb'
    obtain ⟨_, k2, _, k4, k5, _⟩ := hg x
    rw [k4, k5]; rw [k2, g1] at hgid
    by_cases hxid : x.id = id
    · have := hisO x hx hxid; subst this
      rw [setFin_self hxid] at hfin
      simp at hfin; subst hfin
      have hi := hidx i b hb hgid
      exact ⟨he2, ⟨last, he3, by rw [hrel']; omega⟩, g9 hi⟩
    · rw [setFin_other hxid] at hfin
      obtain ⟨r1, ⟨l, r2, r3⟩, r4⟩ := h.epoch.range x hx i b e' hb hgid hfin
      exact ⟨by rw [ho']; exact r1, ⟨l, by rw [ho']; exact finalize_epochLast_mono hf r2, by rw [hrel']; exact r3⟩, by omega⟩
  · intro x' hx' b' hb'm e' hgid hfin hlt
    obtain ⟨x, hx, rfl⟩ := mem_map_obj hx'
    obtain ⟨i, hi⟩ := List.getElem?_of_mem hb'm
    obtain ⟨b, hb, g1, _, _, _, g6, _⟩ := finalize_blocks hf i b' hi
    obtain ⟨_, k2, _, k4, k5, _, _, _, _, _, _, _, k13⟩ := hg x
    rw [k4, k5, k13, g6]; rw [k2, g1] at hgid
    rw [ho', hsd] at hlt
    by_cases hxid : x.id = id
    · have := hisO x hx hxid; subst this
      rw [setFin_self hxid] at hfin
      simp at hfin; subst hfin
      omega
    · rw [setFin_other hxid] at hfin
      exact h.epoch.synced x hx b (List.mem_of_getElem? hb) e' hgid hfin hlt
  · intro x' hx' b' hb'm e' hgid hfin hlt
    obtain ⟨x, hx, rfl⟩ := mem_map_obj hx'
    obtain ⟨i, hi⟩ := List.getElem?_of_mem hb'm
    obtain ⟨b, hb, g1, _, _, _, _, g7, _⟩ := finalize_blocks hf i b' hi
    obtain ⟨_, k2, _, k4, k5, _, _, _, _, _, _, k12, k13⟩ := hg x
    rw [k4, k5, k12, k13, g7]; rw [k2, g1] at hgid
    rw [ho', hsg] at hlt
    by_cases hxid : x.id = id
    · have := hisO x hx hxid; subst this
      rw [setFin_self hxid] at hfin
      simp at hfin; subst hfin
      omega
    · rw [setFin_other hxid] at hfin
      exact h.epoch.syncing x hx b (List.mem_of_getElem? hb) e' hgid hfin hlt
  · intro x' hx' hp
    obtain ⟨x, hx, rfl⟩ := mem_map_obj hx'
    exact h.epoch.precov x hx (by rw [← (hg x).2.2.2.2.2.2.2.2.2.2.2.1]; exact hp)

end BB.Persist
