import BB.Proofs.PersistPhase
/-!
# C03: the shutdown invariant of every reachable world

Once `ProcessBlockPut` is in its final iteration the list is closed for writing; its second
`NotifySyncStarting` covers everything; when it has returned, every state file a restart may read
describes the whole list.
-/
namespace BB.Persist

/-- `ProcessBlockPut` is past the `NotifySyncStarting(true)` of its final iteration. -/
def Closing (g : G1) : Prop := g = .started true ∨ g = .syncing true ∨ g = .synced true ∨ g = .want true ∨ g = .finished

structure ShutInv (w : World) : Prop where
  closed : Closing w.g1 → w.pbl.closed = true
  phase : Phase (· = true) w
  done : w.g1 = .finished → Sealed w

theorem finalize_ctl {w w' : World} {id : Nat} (hf : w.finalize id = .ok w') :
    w'.g1 = w.g1 ∧ w'.sw = w.sw ∧ w'.cfg = w.cfg ∧ w'.dir = w.dir := by
  unfold World.finalize at hf
  split at hf
  · cases hf
  · split at hf
    · cases hf
    · split at hf
      · cases hf
      · cases hf
      · simp only [World.Fin.ok.injEq] at hf
        subst hf
        exact ⟨rfl, rfl, rfl, rfl⟩

theorem closing_g1step {g g' : G1} {p p' : PBL} (hs : G1Step g p g' p') (hc : Closing g → p.closed = true)
    (h' : Closing g') : p'.closed = true := by
  cases hs with
  | start => rcases h' with h | h | h | h | h <;> cases h
  | syncBegin f =>
    rcases h' with h | h | h | h | h <;> cases h
    exact hc (Or.inl rfl)
  | syncEnd f =>
    rcases h' with h | h | h | h | h <;> cases h
    exact hc (Or.inr (Or.inl rfl))
  | syncFail f =>
    rcases h' with h | h | h | h | h <;> cases h
    exact hc (Or.inr (Or.inl rfl))
  | completed f =>
    rcases h' with h | h | h | h | h <;> cases h
    exact hc (Or.inr (Or.inr (Or.inl rfl)))
  | shutdown => simp [PBL.notifySyncStarting]

theorem not_closing_of_open {w : World} (hs : ShutInv w) (ho : w.pbl.closed = false) : ¬ Closing w.g1 := by
  intro hc
  rw [hs.closed hc] at ho
  cases ho

/-- A world in which `ProcessBlockPut` is not in its final iteration satisfies the invariant. -/
theorem shutInv_of_not_closing {w : World} (hn : ¬ Closing w.g1) : ShutInv w := by
  refine ⟨fun h => absurd h hn, ⟨?_, ?_, ?_⟩, ?_⟩
  · intro f hf hg
    subst hf
    rcases hg with hg | hg | hg
    · exact absurd (Or.inl hg) hn
    · exact absurd (Or.inr (Or.inl hg)) hn
    · exact absurd (Or.inr (Or.inr (Or.inl hg))) hn
  · intro f hf hg
    subst hf
    exact absurd (Or.inr (Or.inr (Or.inr (Or.inl hg)))) hn
  · intro s f _ _ hg hf
    subst hf
    exact absurd (Or.inr (Or.inr (Or.inr (Or.inl hg)))) hn
  · intro hg
    exact absurd (Or.inr (Or.inr (Or.inr (Or.inr hg)))) hn

theorem shutInv_step {w w' : World} (h : Inv w) (hst : Step w w') (hs : ShutInv w) : ShutInv w' := by
  have hv := step_view h hst
  -- a successful finalizer: the list is open, `ProcessBlockPut` is not in its final iteration
  have hfincase : ∀ id, w.finalize id = .ok w' → ShutInv w' := by
    intro id hfin
    obtain ⟨hg, _, _, _⟩ := finalize_ctl hfin
    apply shutInv_of_not_closing
    rw [hg]
    intro hc
    exact finalize_closed (hs.closed hc) hfin
  have hph : Phase (· = true) w' := by
    rcases phase_view h hv hs.phase with hph | ⟨id, hfin⟩
    · exact hph
    · exact (hfincase id hfin).phase
  -- `Sealed` once `ProcessBlockPut` has returned
  have hdone : w.g1 = .finished → w'.g1 = .finished → Sealed w' := by
    intro hg hg'
    rcases sealed_view h hv (hs.done hg) with h1 | ⟨id, hfin⟩ | ⟨kd, ki, pick, lo, rfl⟩
    · exact h1
    · exact (finalize_closed (hs.closed (Or.inr (Or.inr (Or.inr (Or.inr hg))))) hfin).elim
    · rw [(crashRestart_ctl w kd ki pick lo).1] at hg'; cases hg'
  cases hv with
  | crash kd ki pick lo =>
    apply shutInv_of_not_closing
    rw [(crashRestart_ctl w kd ki pick lo).1]
    intro hc; rcases hc with h | h | h | h | h <;> cases h
  | fin hf =>
    obtain ⟨hg, _, _, _⟩ := finalize_ctl hf
    apply shutInv_of_not_closing
    rw [hg]
    intro hc
    exact finalize_closed (hs.closed hc) hf
  | data hc hg hsw hd hps =>
    refine ⟨fun hcl => ?_, hph, fun hg' => hdone (by rw [← hg]; exact hg') hg'⟩
    rw [hg] at hcl
    exact closed_pstep hps (hs.closed hcl)
  | g1 hc hsw hd hg =>
    refine ⟨fun hcl => closing_g1step hg hs.closed hcl, hph, fun hg' => ?_⟩
    exact absurd hg' (g1step_not_want hg).2.2
  | swBegin hc hg hd hnone hsw hget hown =>
    refine ⟨fun hcl => ?_, hph, fun hg' => hdone (by rw [← hg]; exact hg') hg'⟩
    rw [hg] at hcl
    rw [(getPersistentState_core hget).closed]
    exact hs.closed hcl
  | swStep hc hg hpb hsw hsw' hfiles hst' =>
    refine ⟨fun hcl => ?_, hph, fun hg' => hdone (by rw [← hg]; exact hg') hg'⟩
    rw [hg] at hcl; rw [hpb]
    exact hs.closed hcl
  | swFail hc hg hpb hd hsw hsw' =>
    refine ⟨fun hcl => ?_, hph, fun hg' => hdone (by rw [← hg]; exact hg') hg'⟩
    rw [hg] at hcl; rw [hpb]
    exact hs.closed hcl
  | swDone hc hd hcore hsw h6 hsw' hg =>
    rename_i s0
    cases ho : (s0.owner == 1) with
    | false =>
      have hkeep : w'.g1 = w.g1 := by rw [hg]; simp [ho]
      refine ⟨fun hcl => ?_, hph, fun hg' => hdone (by rw [← hkeep]; exact hg') hg'⟩
      rw [hkeep] at hcl; rw [hcore.closed]
      exact hs.closed hcl
    | true =>
      have hset : w'.g1 = .idle ∨ (w.g1 = .want true ∧ w'.g1 = .finished) := by
        rw [hg]; simp only [ho, if_true]
        rcases swDone_g1 w.g1 with h1 | ⟨hw, h1⟩
        · exact Or.inl h1
        · exact Or.inr ⟨hw, h1⟩
      rcases hset with h1 | ⟨hw, h1⟩
      · apply shutInv_of_not_closing
        rw [h1]
        intro hcl; rcases hcl with h | h | h | h | h <;> cases h
      · have hcl : w.pbl.closed = true := hs.closed (Or.inr (Or.inr (Or.inr (Or.inl hw))))
        have ho1 : s0.owner = 1 := by simpa using ho
        refine ⟨fun _ => by rw [hcore.closed]; exact hcl, hph, fun _ => ?_⟩
        exact sealed_of_swDone h (hs.phase.b true rfl hw) (hs.phase.c s0 true hsw ho1 hw rfl) hc hd hcore hsw h6 hsw'

theorem shutInv_reach {c : Cfg} (hss : 0 < c.ss) {w : World} (hr : Reach c w) : ShutInv w := by
  induction hr with
  | init =>
    apply shutInv_of_not_closing
    intro hc
    rcases hc with h | h | h | h | h <;> cases h
  | step hr hs ih => exact shutInv_step (inv_reach hss hr) hs ih

end BB.Persist
