import BB.Proofs.ValidateIO
/-! # Laws of the consumption loops over chunk reader / reader machines -/
namespace BB.Validate

theorem drainSteps_ok {σ : Type} {M : Mach σ} {step : Step σ} (hst : StepOK M step) :
    ∀ (k : Nat) (s : σ) (ps : List (List Nat)), M.I s →
      M.I (drainSteps step k s ps).1 ∧
      ∃ new, (drainSteps step k s ps).2.1 = ps ++ new ∧ Acct M s (drainSteps step k s ps).1 new.flatten ∧
        (∀ r, (drainSteps step k s ps).2.2 = some r → r ≠ .ok ∧ RFin r (M.core (drainSteps step k s ps).1)) := by
  intro k
  induction k with
  | zero =>
    intro s ps hI
    simp only [drainSteps]
    exact ⟨hI, [], by simp, by simpa using Acct.refl M s, fun r h => by cases h⟩
  | succ k ih =>
    intro s ps hI
    simp only [drainSteps]
    obtain ⟨hI', hacct, hfin, hdat⟩ := hst s hI
    generalize step s = x at hI' hacct hfin hdat ⊢
    obtain ⟨s', ch, r⟩ := x
    simp only at hI' hacct hfin hdat ⊢
    cases r with
    | ok =>
      simp only []
      obtain ⟨hI2, new, hgot, hacct2, hres⟩ := ih s' (ps ++ [ch]) hI'
      refine ⟨hI2, [ch] ++ new, by rw [hgot, List.append_assoc], ?_, hres⟩
      simpa using hacct.trans hacct2
    | eof =>
      have hch : ch = [] := hdat (by simp)
      subst hch
      refine ⟨hI', [], by simp, by simpa using hacct, ?_⟩
      intro r h; simp only [Option.some.injEq] at h; subst h; exact ⟨by simp, hfin⟩
    | err e =>
      have hch : ch = [] := hdat (by simp)
      subst hch
      refine ⟨hI', [], by simp, by simpa using hacct, ?_⟩
      intro r h; simp only [Option.some.injEq] at h; subst h; exact ⟨by simp, hfin⟩

theorem intoWriterVia_ok {σ : Type} {M : Mach σ} {step : Step σ} (hst : StepOK M step) :
    ∀ (fuel : Nat) (s : σ) (ps : List (List Nat)), M.I s →
      M.I (intoWriterVia step fuel s ps).1 ∧
      ∃ new, (intoWriterVia step fuel s ps).2.1 = ps ++ new ∧ Acct M s (intoWriterVia step fuel s ps).1 new.flatten ∧
        EndRes (intoWriterVia step fuel s ps).2.2 (M.core (intoWriterVia step fuel s ps).1) := by
  intro fuel
  induction fuel with
  | zero =>
    intro s ps hI
    simp only [intoWriterVia]
    exact ⟨hI, [], by simp, by simpa using Acct.refl M s, Or.inr ⟨.stuck, rfl, Or.inl trivial⟩⟩
  | succ f ih =>
    intro s ps hI
    simp only [intoWriterVia]
    obtain ⟨hI', hacct, hfin, hdat⟩ := hst s hI
    generalize step s = x at hI' hacct hfin hdat ⊢
    obtain ⟨s', ch, r⟩ := x
    simp only at hI' hacct hfin hdat ⊢
    cases r with
    | ok =>
      simp only []
      obtain ⟨hI2, new, hgot, hacct2, hres⟩ := ih s' (ps ++ [ch]) hI'
      refine ⟨hI2, [ch] ++ new, by rw [hgot, List.append_assoc], ?_, hres⟩
      simpa using hacct.trans hacct2
    | eof =>
      have hch : ch = [] := hdat (by simp)
      subst hch
      exact ⟨hI', [], by simp, by simpa using hacct, Or.inl ⟨rfl, hfin⟩⟩
    | err e =>
      have hch : ch = [] := hdat (by simp)
      subst hch
      exact ⟨hI', [], by simp, by simpa using hacct, Or.inr ⟨e, rfl, hfin⟩⟩

theorem readSeq_ok {σ : Type} {M : Mach σ} {rd : Rd σ} (hrd : RdOK M rd) :
    ∀ (sizes : List Nat) (s : σ) (ps : List (List Nat)), M.I s →
      M.I (readSeq rd sizes s ps).1 ∧
      ∃ new, (readSeq rd sizes s ps).2.1 = ps ++ new ∧ Acct M s (readSeq rd sizes s ps).1 new.flatten ∧
        (∀ r, (readSeq rd sizes s ps).2.2 = some r → r ≠ .ok ∧ RFin r (M.core (readSeq rd sizes s ps).1)) := by
  intro sizes
  induction sizes with
  | nil =>
    intro s ps hI
    simp only [readSeq]
    exact ⟨hI, [], by simp, by simpa using Acct.refl M s, fun r h => by cases h⟩
  | cons cap cs ih =>
    intro s ps hI
    simp only [readSeq]
    obtain ⟨hI', hacct, hfin, _⟩ := hrd s cap hI
    generalize rd s cap = x at hI' hacct hfin ⊢
    obtain ⟨s', d, r⟩ := x
    simp only at hI' hacct hfin ⊢
    cases r with
    | ok =>
      simp only []
      obtain ⟨hI2, new, hgot, hacct2, hres⟩ := ih s' (ps ++ [d]) hI'
      refine ⟨hI2, [d] ++ new, by rw [hgot, List.append_assoc], ?_, hres⟩
      simpa using hacct.trans hacct2
    | eof =>
      refine ⟨hI', [d], rfl, by simpa using hacct, ?_⟩
      intro r h; simp only [Option.some.injEq] at h; subst h; exact ⟨by simp, hfin⟩
    | err e =>
      refine ⟨hI', [d], rfl, by simpa using hacct, ?_⟩
      intro r h; simp only [Option.some.injEq] at h; subst h; exact ⟨by simp, hfin⟩

end BB.Validate

namespace BB.Validate

theorem take_drop_app {α : Type} (l x : List α) (n : Nat) : l.take n ++ (l.drop n ++ x) = l ++ x := by
  rw [← List.append_assoc, List.take_append_drop]

theorem fillLoop_ok {σ : Type} {M : Mach σ} {step : Step σ} (hst : StepOK M step) :
    ∀ (fuel : Nat) (s : σ) (left : Nat) (got : List Nat), M.I s →
      M.I (fillLoop step fuel s left got).1 ∧
      ∃ new, (fillLoop step fuel s left got).2.1 = got ++ new ∧
        (∀ pre, pre ++ M.pend s = (M.core s).out →
          ∃ lost, pre ++ new ++ lost ++ M.pend (fillLoop step fuel s left got).1
            = (M.core (fillLoop step fuel s left got).1).out) ∧
        RFin (fillLoop step fuel s left got).2.2 (M.core (fillLoop step fuel s left got).1) := by
  intro fuel
  induction fuel with
  | zero =>
    intro s left got hI
    cases left with
    | zero => simp only [fillLoop]; exact ⟨hI, [], by simp, fun pre h => ⟨[], by simpa using h⟩, trivial⟩
    | succ n => simp only [fillLoop]; exact ⟨hI, [], by simp, fun pre h => ⟨[], by simpa using h⟩, Or.inl trivial⟩
  | succ f ih =>
    intro s left got hI
    cases left with
    | zero => simp only [fillLoop]; exact ⟨hI, [], by simp, fun pre h => ⟨[], by simpa using h⟩, trivial⟩
    | succ n =>
      simp only [fillLoop]
      obtain ⟨hI', hacct, hfin, hdat⟩ := hst s hI
      generalize step s = x at hI' hacct hfin hdat ⊢
      obtain ⟨s', ch, r⟩ := x
      simp only at hI' hacct hfin hdat ⊢
      cases r with
      | ok =>
        simp only []
        obtain ⟨hI2, new, hgot, hacct2, hres⟩ := ih s' (n + 1 - ch.length) (got ++ ch.take (n+1)) hI'
        by_cases hl : ch.length ≤ n + 1
        · have htk : ch.take (n+1) = ch := List.take_of_length_le hl
          rw [htk] at hgot hacct2 hres hI2 ⊢
          refine ⟨hI2, ch ++ new, by rw [hgot, List.append_assoc], ?_, hres⟩
          intro pre h
          obtain ⟨lost, hl2⟩ := hacct2 (pre ++ ch) (hacct pre h)
          exact ⟨lost, by simpa [List.append_assoc] using hl2⟩
        · have h0 : n + 1 - ch.length = 0 := by omega
          rw [h0] at hgot hacct2 hres hI2 ⊢
          cases f with
          | zero =>
            simp only [fillLoop] at hI2 hgot hres ⊢
            refine ⟨hI', ch.take (n+1), rfl, ?_, trivial⟩
            intro pre h
            refine ⟨ch.drop (n+1), ?_⟩
            have := hacct pre h
            simpa [List.append_assoc, take_drop_app] using this
          | succ f' =>
            simp only [fillLoop] at hI2 hgot hres ⊢
            refine ⟨hI', ch.take (n+1), rfl, ?_, trivial⟩
            intro pre h
            refine ⟨ch.drop (n+1), ?_⟩
            have := hacct pre h
            simpa [List.append_assoc, take_drop_app] using this
      | eof =>
        have hch : ch = [] := hdat (by simp)
        subst hch
        exact ⟨hI', [], by simp, fun pre h => ⟨[], by simpa using hacct pre h⟩, hfin⟩
      | err e =>
        have hch : ch = [] := hdat (by simp)
        subst hch
        exact ⟨hI', [], by simp, fun pre h => ⟨[], by simpa using hacct pre h⟩, hfin⟩

theorem forceLoop_ok {σ : Type} {M : Mach σ} {step : Step σ} (hst : StepOK M step) :
    ∀ (fuel : Nat) (s : σ), M.I s →
      M.I (forceLoop step fuel s).1 ∧
      (∀ pre, pre ++ M.pend s = (M.core s).out →
        ∃ junk, pre ++ junk ++ M.pend (forceLoop step fuel s).1 = (M.core (forceLoop step fuel s).1).out) ∧
      EndRes (forceLoop step fuel s).2 (M.core (forceLoop step fuel s).1) := by
  intro fuel
  induction fuel with
  | zero =>
    intro s hI
    simp only [forceLoop]
    exact ⟨hI, fun pre h => ⟨[], by simpa using h⟩, Or.inr ⟨.stuck, rfl, Or.inl trivial⟩⟩
  | succ f ih =>
    intro s hI
    simp only [forceLoop]
    obtain ⟨hI', hacct, hfin, hdat⟩ := hst s hI
    generalize step s = x at hI' hacct hfin hdat ⊢
    obtain ⟨s', ch, r⟩ := x
    simp only at hI' hacct hfin hdat ⊢
    cases r with
    | ok =>
      simp only []
      obtain ⟨hI2, hacct2, hres⟩ := ih s' hI'
      refine ⟨hI2, ?_, hres⟩
      intro pre h
      obtain ⟨junk, hj⟩ := hacct2 (pre ++ ch) (hacct pre h)
      exact ⟨ch ++ junk, by simpa [List.append_assoc] using hj⟩
    | eof => exact ⟨hI', fun pre h => ⟨ch, hacct pre h⟩, Or.inl ⟨rfl, hfin⟩⟩
    | err e => exact ⟨hI', fun pre h => ⟨ch, hacct pre h⟩, Or.inr ⟨e, rfl, hfin⟩⟩

end BB.Validate
