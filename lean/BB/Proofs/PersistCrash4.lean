import BB.Proofs.PersistCrash3
/-!
# Crash and restart: device, records, the state file (`C02_record_valid_after_restart`)
-/
namespace BB.Persist

theorem crash_source {d : DataDev} {keep : List Bool} {L : List Nat} {slot s : Nat}
    (hL : L = (d.crash keep).durGet slot s ∨ ∃ x ∈ (d.crash keep).pend, x.slot = slot ∧ x.sec = s ∧ L = x.objs) :
    L = d.durGet slot s ∨ ∃ x ∈ d.pend, x.slot = slot ∧ x.sec = s ∧ L = x.objs := by
  rcases hL with hL | ⟨x, hx, _⟩
  · simp only [DataDev.crash, DataDev.durGet] at hL
    rw [DataDev.durGet_apply] at hL
    cases hl : lastAt (DataDev.kept d.pend keep) slot s with
    | none => rw [hl] at hL; exact Or.inl hL
    | some x =>
      rw [hl] at hL
      obtain ⟨A, B, hk, hx, _⟩ := lastAt_some hl
      simp [SecW.at] at hx
      exact Or.inr ⟨x, mem_kept _ _ _ (by rw [hk]; simp), hx.1, hx.2, hL⟩
  · simp [DataDev.crash] at hx

theorem devInv_crash {w : World} (h : Inv w) {f : SFile}
    (hc : FileCore w.cfg.ss f (held w.pbl w.zombies) (recsOf w.idx) w.objs w.nextSeed) (keep : List Bool) :
    DevInv w.cfg ((w.objs.filter (World.survives (f.pbl w.cfg.ss))).map clr) (w.data.crash keep) (f.pbl w.cfg.ss) [] w.nextObj := by
  have hnm : ∀ o' ∈ (w.objs.filter (World.survives (f.pbl w.cfg.ss))).map clr, o'.mine = false ∧ o'.precov = false := by
    intro o' ho'; obtain ⟨o, _, rfl⟩ := List.mem_map.1 ho'; exact ⟨rfl, rfl⟩
  refine ⟨⟨[], [], by simp [DataDev.crash], by simp, by simp⟩, ?_, ?_, ?_, ?_, ?_⟩
  · intro o' ho' hm; rw [(hnm o' ho').1] at hm; cases hm
  · intro o' ho' hp; rw [(hnm o' ho').2] at hp; cases hp
  · intro o' ho' hd _ s hs
    obtain ⟨o, ho, rfl, ⟨j, bs, hbs, hg⟩, _⟩ := mem_survivors ho'
    obtain ⟨b, hb, g1, _⟩ := hc.heldIn bs (List.mem_of_getElem? hbs)
    exact (h.dev.durable o ho hd ⟨b, hb, by rw [g1, hg]⟩ s hs).crash keep
  · intro a' ha b' hb L slot s hL m1 m2 s1 s2 hoff
    obtain ⟨a, ha0, rfl, _⟩ := mem_survivors ha
    obtain ⟨b, hb0, rfl, _⟩ := mem_survivors hb
    exact h.dev.content a ha0 b hb0 L slot s (crash_source hL) m1 m2 s1 s2 hoff
  · intro L slot s hL
    exact h.dev.contentLt L slot s (crash_source hL)

theorem recInv_crash {w : World} {f : SFile}
    (hc : FileCore w.cfg.ss f (held w.pbl w.zombies) (recsOf w.idx) w.objs w.nextSeed) (hr : ∀ r ∈ recsOf w.idx, r.seed < w.nextSeed)
    {recs' : List PRec} (hsub : ∀ r ∈ recs', r ∈ recsOf w.idx) :
    RecInv recs' ((w.objs.filter (World.survives (f.pbl w.cfg.ss))).map clr) (f.pbl w.cfg.ss) w.nextSeed := by
  refine ⟨?_, fun r hrm => hr r (hsub r hrm), hc.seedLt⟩
  intro r hrm i hres
  obtain ⟨bs, o, hbs, ho, hg, hm, hsv⟩ := survivor_of_res hc (hsub r hrm) hres
  refine ⟨restoredBlk w.cfg.ss bs, clr o, ?_, hsv, by simpa [restoredBlk, clr] using hg, ?_⟩
  · simp [SFile.pbl, List.getElem?_map, hbs]
  · exact hm

theorem fileInv_crash {w : World} (h : Inv w) {f : SFile}
    (hc : FileCore w.cfg.ss f (held w.pbl w.zombies) (recsOf w.idx) w.objs w.nextSeed)
    {recs' : List PRec} (hsub : ∀ r ∈ recs', r ∈ recsOf w.idx) :
    FileInv w.cfg.ss f ((f.pbl w.cfg.ss).blocks ++ (f.pbl w.cfg.ss).toRelease) recs'
      ((w.objs.filter (World.survives (f.pbl w.cfg.ss))).map clr) (f.pbl w.cfg.ss) w.nextSeed := by
  have hfw := file_pbl_wfp f w.cfg.ss h.cfg hc.gids
  refine ⟨hc.gids, ?_, Nat.le_refl _, hc.seedLt, ?_, ?_, ?_⟩
  · intro bs hbs
    exact ⟨restoredBlk w.cfg.ss bs, List.mem_append_left _ (List.mem_map.2 ⟨bs, hbs, rfl⟩), rfl, rfl⟩
  · intro o' ho' j bs e hbs hg hfin hlt
    obtain ⟨o, ho, rfl, _⟩ := mem_survivors ho'
    exact hc.committed o ho j bs e hbs hg hfin hlt
  · intro r hrm i hres
    obtain ⟨bs, o, hbs, ho, hg, hm, hsv⟩ := survivor_of_res hc (hsub r hrm) hres
    exact ⟨bs, clr o, hbs, hsv, hg, hm⟩
  · intro e i i' sd h1 h2
    rw [h1] at h2
    simp only [Option.some.injEq, Prod.mk.injEq, and_true] at h2
    subst h2
    have hilt := refToIdx_lt hfw h1
    simp only [SFile.pbl, List.length_map] at hilt
    have hbs : f.blocks[i]? = some f.blocks[i] := List.getElem?_eq_getElem hilt
    exact ⟨f.blocks[i], restoredBlk w.cfg.ss f.blocks[i], hbs, by simp [SFile.pbl, List.getElem?_map, hbs], rfl⟩

end BB.Persist
