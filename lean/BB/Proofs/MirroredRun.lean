import BB.Proofs.MirroredFm
/-!
Facts about every operation of the C11 model at once (round counter, scripts
and counters, presence of objects) and their lifting to histories.
-/
namespace BB.Mirrored

/-! ## put, caps -/

theorem put_round (p : Pair) (k : Key) (v : Val) (pref : Side) : (put p k v pref).1.round = p.round := by
  rw [put_fst, putOn_round, putOn_round]

theorem put_adv (p : Pair) (k : Key) (v : Val) (pref : Side) : Adv p (put p k v pref).1 := by
  rw [put_fst]; exact (putOn_adv _ _ _ _).trans (putOn_adv _ _ _ _)

theorem putOn_present (s t : Side) (p : Pair) (k : Key) (inp : Res Val) (z : Key)
    (h : (p.rep t).store z ≠ none) : ((putOn s p k inp).1.rep t).store z ≠ none := by
  by_cases hts : t = s
  · subst hts
    rw [putOn_store_same]
    cases (p.rep t).faultAt .put with
    | some c => exact h
    | none =>
      cases inp with
      | error e => exact h
      | ok v =>
        by_cases hz : z = k
        · simp [hz]
        · simpa [hz] using h
  · rw [putOn_store_ne _ _ _ _ _ hts]; exact h

theorem put_present (p : Pair) (k : Key) (v : Val) (pref : Side) (t : Side) (z : Key)
    (h : (p.rep t).store z ≠ none) : ((put p k v pref).1.rep t).store z ≠ none := by
  rw [put_fst]
  exact putOn_present _ _ _ _ _ _ (putOn_present _ _ _ _ _ _ h)

theorem caps_fst (p : Pair) : (caps p).1 = ({ p with round := p.round + 1 } : Pair).setRep (firstSide p) ((p.rep (firstSide p)).bump .caps) := by
  unfold caps; rw [capsOn_fst]

theorem caps_snd (p : Pair) : (caps p).2 =
    match (p.rep (firstSide p)).faultAt .caps with
    | some c => .error ⟨c, [.backend (firstSide p)], .fault (firstSide p) .caps ((p.rep (firstSide p)).cnt .caps)⟩
    | none => .ok () := by
  unfold caps
  simp only [capsOn_snd]
  cases (p.rep (firstSide p)).faultAt .caps <;> simp [wrapRes, Err.wrap]

theorem caps_round (p : Pair) : (caps p).1.round = p.round + 1 := by rw [caps_fst]; rfl

theorem caps_adv (p : Pair) : Adv p (caps p).1 := by
  rw [caps_fst]; exact (Adv.round p _).trans (adv_bump _ _ _)

theorem caps_store (p : Pair) (t : Side) : ((caps p).1.rep t).store = (p.rep t).store := by
  rw [caps_fst]; exact store_setRep_bump { p with round := p.round + 1 } (firstSide p) t .caps

/-! ## get, getc: presence -/

theorem get_present (c : Cfg) (p : Pair) (k : Key) (t : Side) (z : Key)
    (h : (p.rep t).store z ≠ none) : ((get c p k).1.rep t).store z ≠ none := by
  rw [get_store]
  split
  · next hc =>
    obtain ⟨_, rfl, rfl⟩ := hc
    split
    · simp
    · exact h
  · exact h

theorem getc_present (c : Cfg) (p : Pair) (k : Key) (t : Side) (z : Key)
    (h : (p.rep t).store z ≠ none) : ((getc c p k).1.rep t).store z ≠ none := by
  rw [getc_store]
  split
  · next hc =>
    obtain ⟨_, rfl, rfl⟩ := hc
    split
    · simp
    · exact h
  · exact h

/-! ## findMissing: round, counters, presence -/

theorem findMissing_fst_cases (c : Cfg) (p : Pair) (ks : List Key) (pref1 pref2 : Side) :
    (findMissing c p ks pref1 pref2).1 = afterFm p ks ∨
    (findMissing c p ks pref1 pref2).1 = (syncPhase c (afterFm p ks) (miss p .A ks) (miss p .B ks) pref2).1 := by
  rw [findMissing_eq]
  cases (p.rep .A).faultAt .fm <;> cases (p.rep .B).faultAt .fm <;> (try cases pref1) <;> simp

theorem syncPhase_round (c : Cfg) (q : Pair) (ma mb : List Key) (pref2 : Side) :
    (syncPhase c q ma mb pref2).1.round = q.round := by
  rw [syncPhase_fst, replMultiple_round, replMultiple_round]

theorem syncPhase_adv (c : Cfg) (q : Pair) (ma mb : List Key) (pref2 : Side) : Adv q (syncPhase c q ma mb pref2).1 := by
  rw [syncPhase_fst]; exact (replMultiple_adv _ _ _ _ _).trans (replMultiple_adv _ _ _ _ _)

theorem replMultiple_present {src snk : Side} (hne : src ≠ snk) (st : Strat) (p : Pair) (ks : List Key) (t : Side) (z : Key)
    (h : (p.rep t).store z ≠ none) : ((replMultiple st src snk p ks).1.rep t).store z ≠ none := by
  obtain ⟨f1, f2⟩ := replMultiple_frame hne st p ks
  rcases Side.eq_or_other src t with e | e
  · subst e; rw [f1]; exact h
  · have : t = snk := by
      subst e
      rcases Side.eq_or_other src snk with e' | e'
      · exact absurd e'.symm hne
      · exact e'.symm
    subst this
    rcases f2 z with g | ⟨_, g, g'⟩
    · rw [g]; exact h
    · rw [g]; exact g'

theorem syncPhase_present (c : Cfg) (q : Pair) (ma mb : List Key) (pref2 : Side) (t : Side) (z : Key)
    (h : (q.rep t).store z ≠ none) : ((syncPhase c q ma mb pref2).1.rep t).store z ≠ none := by
  rw [syncPhase_fst]
  exact replMultiple_present (by decide) _ _ _ _ _ (replMultiple_present (by decide) _ _ _ _ _ h)

theorem findMissing_round (c : Cfg) (p : Pair) (ks : List Key) (pref1 pref2 : Side) :
    (findMissing c p ks pref1 pref2).1.round = p.round := by
  rcases findMissing_fst_cases c p ks pref1 pref2 with h | h <;> rw [h]
  · exact afterFm_round p ks
  · rw [syncPhase_round]; exact afterFm_round p ks

theorem findMissing_adv (c : Cfg) (p : Pair) (ks : List Key) (pref1 pref2 : Side) :
    Adv p (findMissing c p ks pref1 pref2).1 := by
  rcases findMissing_fst_cases c p ks pref1 pref2 with h | h <;> rw [h]
  · exact afterFm_adv p ks
  · exact (afterFm_adv p ks).trans (syncPhase_adv _ _ _ _ _)

theorem findMissing_present (c : Cfg) (p : Pair) (ks : List Key) (pref1 pref2 : Side) (t : Side) (z : Key)
    (h : (p.rep t).store z ≠ none) : ((findMissing c p ks pref1 pref2).1.rep t).store z ≠ none := by
  rcases findMissing_fst_cases c p ks pref1 pref2 with e | e <;> rw [e]
  · rw [afterFm_store]; exact h
  · exact syncPhase_present _ _ _ _ _ _ _ (by rw [afterFm_store]; exact h)

/-! ## Every operation, every history -/

theorem step_round (c : Cfg) (p : Pair) (o : Op) :
    (step c p o).1.round = if o.rounds then p.round + 1 else p.round := by
  cases o with
  | get k => exact get_round c p k
  | getc k => exact getc_round c p k
  | put k v pref => exact put_round p k v pref
  | fm ks a b => exact findMissing_round c p ks a b
  | caps => exact caps_round p

theorem step_adv (c : Cfg) (p : Pair) (o : Op) : Adv p (step c p o).1 := by
  cases o with
  | get k => exact get_adv c p k
  | getc k => exact getc_adv c p k
  | put k v pref => exact put_adv p k v pref
  | fm ks a b => exact findMissing_adv c p ks a b
  | caps => exact caps_adv p

theorem step_present (c : Cfg) (p : Pair) (o : Op) (t : Side) (z : Key)
    (h : (p.rep t).store z ≠ none) : ((step c p o).1.rep t).store z ≠ none := by
  cases o with
  | get k => exact get_present c p k t z h
  | getc k => exact getc_present c p k t z h
  | put k v pref => exact put_present p k v pref t z h
  | fm ks a b => exact findMissing_present c p ks a b t z h
  | caps => show ((caps p).1.rep t).store z ≠ none; rw [caps_store]; exact h

theorem run_cons (c : Cfg) (p : Pair) (o : Op) (os : List Op) :
    run c p (o :: os) = ((run c (step c p o).1 os).1, (step c p o).2 :: (run c (step c p o).1 os).2) := rfl

theorem run_adv (c : Cfg) (p : Pair) (os : List Op) : Adv p (run c p os).1 := by
  induction os generalizing p with
  | nil => exact Adv.refl p
  | cons o os ih => rw [run_cons]; exact (step_adv c p o).trans (ih _)

theorem run_present (c : Cfg) (p : Pair) (os : List Op) (t : Side) (z : Key)
    (h : (p.rep t).store z ≠ none) : ((run c p os).1.rep t).store z ≠ none := by
  induction os generalizing p with
  | nil => exact h
  | cons o os ih => rw [run_cons]; exact ih _ (step_present c p o t z h)

theorem run_round (c : Cfg) (p : Pair) (os : List Op) :
    (run c p os).1.round = p.round + (os.filter Op.rounds).length := by
  induction os generalizing p with
  | nil => rfl
  | cons o os ih =>
    rw [run_cons]; simp only []
    rw [ih, step_round]
    cases ho : o.rounds <;> simp [List.filter, ho] <;> omega

end BB.Mirrored
