import BB.Proofs.PersistStepPop
/-!
# Invariant preservation: `PopFront`, continued
-/
namespace BB.Persist

theorem objInv_popFront {c : Cfg} {objs : List Obj} {p p' : PBL} {b0 : Blk} {z : List Blk} {pins : List Nat} {no ng : Nat}
    {sh : List (Nat × Nat)} (hp : p.popFront = some (b0, p')) (ho : ObjInv c objs p z pins no ng sh) :
    ObjInv c objs p' z pins no ng sh := by
  have hperm := held_popFront_perm hp z
  obtain ⟨rest, h1, h2, _, h4, _⟩ := popFront_shape hp
  have hidx : ∀ i b, p'.blocks[i]? = some b → p.blocks[i + 1]? = some b := by
    intro i b hb; rw [h1]; rw [h2] at hb; simpa using hb
  refine ⟨ho.ids, ho.idLt, ho.size, ho.gidLt, ?_, ?_, ?_, ?_, ?_, ho.disj, ?_, ho.pinCount, ho.fin, ho.flags, ho.shadow, ?_, ?_⟩
  · intro o hom b hb hg
    exact ho.slotOk o hom b (hperm.mem_iff.1 hb) hg
  · intro o hom hm i b hb hg
    obtain ⟨r1, r2⟩ := ho.place o hom hm (i + 1) b (hidx i b hb) hg
    exact ⟨by rw [h4]; omega, r2⟩
  · intro o hom hm
    obtain ⟨r1, r2⟩ := ho.absIn o hom hm
    rw [h4, h2]
    rw [h1] at r1
    simp only [List.length_cons] at r1
    refine ⟨by omega, fun hr => ?_⟩
    obtain ⟨b, hb, hg⟩ := r2 (by omega)
    refine ⟨b, ?_, hg⟩
    rw [h1] at hb
    have : o.abs - p.released = (o.abs - (p.released + 1)) + 1 := by omega
    rw [this] at hb
    simpa using hb
  · intro o hom hm b hb hg
    exact ho.baseLe o hom hm b (hperm.mem_iff.1 hb) hg
  · intro o hom hm
    obtain ⟨r1, r2, r3⟩ := ho.restored o hom hm
    exact ⟨r1, r2, fun b hb hg => r3 b (hperm.mem_iff.1 hb) hg⟩
  · intro o hom hm hc
    obtain ⟨b, hb, hg⟩ := ho.heldW o hom hm hc
    exact ⟨b, hperm.mem_iff.2 hb, hg⟩
  · intro b hb
    exact ho.aligned b (hperm.mem_iff.1 hb)
  · intro b hb
    exact ho.cursor b (by rw [h1]; rw [h2] at hb; exact List.mem_cons_of_mem _ hb)

theorem recInv_popFront {recs : List PRec} {objs : List Obj} {p p' : PBL} {b0 : Blk} {ns : Nat}
    (hp : p.popFront = some (b0, p')) (hr : RecInv recs objs p ns) : RecInv recs objs p' ns := by
  obtain ⟨rest, h1, h2, _, _, _, h6, _⟩ := popFront_shape hp
  refine ⟨?_, hr.seedLt, ?_⟩
  · intro r hrm i hres
    obtain ⟨b, o, hb, ho, hg, hm⟩ := hr.res r hrm (i + 1) (refToIdx_popFront hp hres)
    refine ⟨b, o, ?_, ho, hg, hm⟩
    rw [h1] at hb; rw [h2]; simpa using hb
  · intro s hs
    rw [h6] at hs
    exact hr.pSeeds s (List.mem_of_mem_drop hs)

theorem fileInv_popFront {ss : Nat} {f : SFile} {recs : List PRec} {objs : List Obj} {p p' : PBL} {b0 : Blk} {ns k : Nat}
    (hp : p.popFront = some (b0, p')) (hk : k ≤ p.toRelease.length)
    (h : FileInv ss f (p.blocks ++ p.toRelease.drop k) recs objs p ns) :
    FileInv ss f (p'.blocks ++ p'.toRelease.drop k) recs objs p' ns := by
  obtain ⟨rest, h1, h2, h3, _, h5, _, _, _, h9, _⟩ := popFront_shape hp
  refine ⟨h.gids, ?_, ?_, h.seedLt, h.committed, h.res, ?_⟩
  · intro bs hbs
    obtain ⟨b, hb, g1, g2⟩ := h.heldIn bs hbs
    refine ⟨b, ?_, g1, g2⟩
    rw [h2, h3, List.drop_append_of_le_length hk]
    rw [h1] at hb
    simp only [List.cons_append, List.mem_cons, List.mem_append] at hb ⊢
    rcases hb with rfl | hb | hb
    · right; right; simp
    · left; exact hb
    · right; left; exact hb
  · have := h.bound
    rw [h5, h9]
    split <;> omega
  · intro e i i' sd hfi hpi
    obtain ⟨bs, b, hbs, hb, hg⟩ := h.agree e i (i' + 1) sd hfi (refToIdx_popFront hp hpi)
    refine ⟨bs, b, hbs, ?_, hg⟩
    rw [h1] at hb; rw [h2]; simpa using hb

theorem inv_popFront {w w' : World} (h : Inv w) (hs : w.popFront = some w') : Inv w' := by
  unfold World.popFront at hs
  cases hp : w.pbl.popFront with
  | none => simp [hp] at hs
  | some r =>
    obtain ⟨b0, p'⟩ := r
    simp only [hp, Option.some.injEq] at hs
    subst hs
    have hperm := held_popFront_perm hp w.zombies
    obtain ⟨rest, h1, h2, h3, _, _, _, _, _, _, h10, _⟩ := popFront_shape hp
    refine ⟨h.cfg, popFront_wfp h.wfp hp, own_popFront hp h.own, objInv_popFront hp h.obj,
      epochInv_popFront h.wfp hp h.epoch, ?_, recInv_popFront hp h.recs, ?_, ?_, ?_⟩
    · exact devInv_mono (fun o _ ⟨b', hb', hg⟩ => ⟨b', hperm.mem_iff.1 hb', hg⟩) h.dev
    · intro f hf
      have := fileInv_popFront (k := 0) hp (Nat.zero_le _) (by simpa using h.files f hf)
      simpa using this
    · intro s hsw
      obtain ⟨_, _, _, _, _, a6, _⟩ := h.sw.stage s hsw
      have := fileInv_popFront hp a6 (h.swFile s hsw)
      simpa [h10] using this
    · constructor
      intro s hsw
      obtain ⟨a1, a2, a3, a4, a5, a6, a7⟩ := h.sw.stage s hsw
      refine ⟨a1, a2, a3, a4, a5, ?_, a7⟩
      show p'.releasing ≤ p'.toRelease.length
      rw [h10, h3]; simp; omega

end BB.Persist
