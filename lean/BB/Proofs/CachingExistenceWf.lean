import BB.Proofs.CachingExistence
/-! Structural invariant of the existence cache: map and LRU queue describe the same key set,
the size never exceeds the capacity.  It shows that `evict` never meets an empty queue and `touch`
never an absent key (where the real `lruSet` would misbehave) as long as `cap ≥ 1`. -/
namespace BB.Caching

structure ECache.Wf (c : ECache) : Prop where
  size : c.size = c.lru.length
  nodup : c.lru.Nodup
  mem : ∀ k, k ∈ c.lru ↔ (c.ins k).isSome = true
  bound : c.size ≤ c.cap

theorem wf_init (cap dur : Nat) : ECache.Wf { cap := cap, dur := dur } :=
  ⟨rfl, List.nodup_nil, by simp, Nat.zero_le _⟩

theorem wf_hides_mem {c : ECache} (h : c.Wf) {now k} (hh : c.hides now k = true) : k ∈ c.lru := by
  rw [h.mem]; unfold ECache.hides at hh; split at hh <;> simp_all

theorem wf_touch {c : ECache} (h : c.Wf) {k : Key} (hk : k ∈ c.lru) : (c.touch k).Wf := by
  have hne : k ∉ c.lru.erase k := by rw [h.nodup.mem_erase_iff]; simp
  refine ⟨?_, ?_, ?_, h.bound⟩
  · have := List.length_erase_of_mem hk
    have hpos : 0 < c.lru.length := List.length_pos_of_mem hk
    simp only [ECache.touch, List.length_append, List.length_singleton, this]
    have := h.size; omega
  · simp only [ECache.touch]
    rw [List.nodup_append]
    refine ⟨h.nodup.erase k, by simp, ?_⟩
    intro a ha b hb
    simp only [List.mem_singleton] at hb
    subst hb; intro e; subst e; exact hne ha
  · intro k'
    simp only [ECache.touch, List.mem_append, List.mem_singleton, h.nodup.mem_erase_iff]
    rw [← h.mem]
    constructor
    · rintro (⟨_, h2⟩ | rfl)
      · exact h2
      · exact hk
    · intro h2
      by_cases e : k' = k
      · exact Or.inr e
      · exact Or.inl ⟨e, h2⟩

theorem wf_removeExisting {c : ECache} (now : Nat) (ks : List Key) (h : c.Wf) : (c.removeExisting now ks).1.Wf := by
  induction ks generalizing c with
  | nil => exact h
  | cons k ks ih =>
    simp only [ECache.removeExisting]
    split
    · rename_i hh; exact ih (wf_touch h (wf_hides_mem h hh))
    · exact ih h

theorem wf_evict {c : ECache} (h : c.Wf) : c.evict.Wf ∧ (c.lru ≠ [] → c.evict.size + 1 = c.size) := by
  unfold ECache.evict
  split
  · rename_i hl; exact ⟨h, fun hne => absurd hl hne⟩
  · rename_i hd rest hl
    have hmem : (c.ins hd).isSome = true := by rw [← h.mem, hl]; simp
    have hnd := h.nodup
    rw [hl] at hnd
    have hsz := h.size
    rw [hl] at hsz
    simp only [List.length_cons] at hsz
    refine ⟨⟨?_, ?_, ?_, ?_⟩, ?_⟩
    · simp only [hmem, if_true]; omega
    · exact (List.nodup_cons.mp hnd).2
    · intro k
      simp only
      by_cases e : k = hd
      · subst e; simp [(List.nodup_cons.mp hnd).1]
      · simp only [e, if_false]; rw [← h.mem, hl]; simp [e]
    · simp only [hmem, if_true]; have := h.bound; omega
    · intro _; simp only [hmem, if_true]; omega

theorem wf_addOne {c : ECache} (now : Nat) (k : Key) (hcap : 1 ≤ c.cap) (h : c.Wf) :
    (c.addOne now k).Wf ∧ (c.addOne now k).cap = c.cap := by
  have h1 : (if c.size ≥ c.cap then c.evict else c).Wf ∧ (if c.size ≥ c.cap then c.evict else c).size < c.cap ∧
      (if c.size ≥ c.cap then c.evict else c).cap = c.cap := by
    split
    · rename_i hge
      have hne : c.lru ≠ [] := by
        intro e; have := h.size; rw [e] at this; simp at this; omega
      obtain ⟨w, hs⟩ := wf_evict h
      refine ⟨w, by have := hs hne; have := h.bound; omega, ?_⟩
      unfold ECache.evict; split <;> rfl
    · rename_i hlt; exact ⟨h, by omega, rfl⟩
  unfold ECache.addOne
  generalize (if c.size ≥ c.cap then c.evict else c) = c1 at h1
  obtain ⟨w, hlt, hc⟩ := h1
  simp only
  split
  · rename_i t ht
    have hm : ∀ k', (if k' = k then some now else c1.ins k').isSome = (c1.ins k').isSome := by
      intro k'; by_cases e : k' = k
      · subst e; simp [ht]
      · simp [e]
    split
    · exact ⟨⟨w.size, w.nodup, fun k' => by simp only [hm]; exact w.mem k', w.bound⟩, hc⟩
    · exact ⟨⟨w.size, w.nodup, w.mem, w.bound⟩, hc⟩
  · rename_i hnone
    have hk : k ∉ c1.lru := by rw [w.mem]; simp [hnone]
    refine ⟨⟨?_, ?_, ?_, ?_⟩, hc⟩
    · simp only [List.length_append, List.length_singleton]; have := w.size; omega
    · rw [List.nodup_append]
      refine ⟨w.nodup, by simp, ?_⟩
      intro a ha b hb; simp only [List.mem_singleton] at hb; subst hb; intro e; subst e; exact hk ha
    · intro k'
      simp only [List.mem_append, List.mem_singleton]
      by_cases e : k' = k
      · subst e; simp
      · simp only [e, or_false, if_false]; exact w.mem k'
    · simp only; omega

theorem wf_add {c : ECache} (now : Nat) (ks : List Key) (hcap : 1 ≤ c.cap) (h : c.Wf) :
    (c.add now ks).Wf ∧ (c.add now ks).cap = c.cap := by
  unfold ECache.add
  induction ks generalizing c with
  | nil => exact ⟨h, rfl⟩
  | cons k ks ih =>
    obtain ⟨w, hc⟩ := wf_addOne now k hcap h
    obtain ⟨w2, hc2⟩ := ih (hc ▸ hcap) w
    exact ⟨w2, hc2.trans hc⟩

end BB.Caching
