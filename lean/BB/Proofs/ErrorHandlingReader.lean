import BB.Proofs.ErrorHandling
/-!
# Helper lemmas for C16, part 3: `errorHandlingReader` under `casValidatingReader`
-/
namespace BB.ErrorHandling

/-- The bytes an opened reader still holds before its terminal. -/
def RSrc.rest : RSrc → Bytes
  | .short cs _ => cs.flatten
  | .fill data _ => data

def RSrc.term : RSrc → Term
  | .short _ t => t
  | .fill _ t => t

theorem readShort_spec (n : Nat) (t : Term) : ∀ cs : List Bytes,
    (readShort n cs t).1 ++ (readShort n cs t).2.2.flatten = cs.flatten ∧
    (∀ e, (readShort n cs t).2.1 = .err e → t = .err e) ∧
    ((readShort n cs t).2.1 = .eof → t = .eof ∧ (readShort n cs t).2.2 = [])
  | [] => by cases t <;> simp [readShort, Term.status]
  | [] :: cs => by simpa [readShort] using readShort_spec n t cs
  | (x :: c) :: cs => by
    simp only [readShort]
    refine ⟨?_, by simp, by simp⟩
    by_cases h : n ≥ (x :: c).length
    · rw [if_pos h, List.take_of_length_le h]; simp
    · rw [if_neg h, List.flatten_cons, ← List.append_assoc, List.take_append_drop]; simp

theorem RSrc.read_spec (n : Nat) (s : RSrc) :
    (s.read n).1 ++ (s.read n).2.2.rest = s.rest ∧ (s.read n).2.2.term = s.term ∧
    (∀ e, (s.read n).2.1 = .err e → s.term = .err e) ∧
    ((s.read n).2.1 = .eof → s.term = .eof ∧ (s.read n).2.2.rest = []) := by
  cases s with
  | short cs t =>
    obtain ⟨h1, h2, h3⟩ := readShort_spec n t cs
    refine ⟨h1, rfl, h2, fun he => ?_⟩
    obtain ⟨a, b⟩ := h3 he
    exact ⟨a, by simp [RSrc.read, RSrc.rest, b]⟩
  | fill data t =>
    simp only [RSrc.read]
    by_cases h : n ≤ data.length
    · simp [h, RSrc.rest, RSrc.term]
    · cases t <;> simp [h, RSrc.rest, RSrc.term, Term.status]

theorem openReader_rest (b : Buf) (off : Nat) : (openReader b off).rest = (content b).drop off := by
  cases b with
  | bytes data =>
    simp only [openReader, content]
    by_cases h : off > data.length
    · rw [if_pos h, List.drop_eq_nil_of_le (Nat.le_of_lt h)]; rfl
    · rw [if_neg h]; simp [RSrc.rest]
  | readerAt data suf =>
    simp only [openReader, content]
    by_cases h : off > data.length
    · rw [if_pos h, List.drop_eq_nil_of_le (Nat.le_of_lt h)]; rfl
    · rw [if_neg h]; simp [RSrc.rest]
  | error e => simp [openReader, content, RSrc.rest]
  | chunks d s =>
    simp only [openReader, content]
    cases hd : dropChunks (scan s).1 off with
    | none => simp [RSrc.rest, List.drop_eq_nil_of_le (Nat.le_of_lt (dropChunks_none _ _ hd))]
    | some cs => simp [RSrc.rest, (dropChunks_some _ _ _ hd).1]
  | reader d s =>
    simp only [openReader, content]
    cases hd : dropChunks (scan s).1 off with
    | none => simp [RSrc.rest, List.drop_eq_nil_of_le (Nat.le_of_lt (dropChunks_none _ _ hd))]
    | some cs => simp [RSrc.rest, (dropChunks_some _ _ _ hd).1]
  | clone d s =>
    simp only [openReader, content]
    cases hd : dropChunks ((scan s).1.flatMap (pieces cloneChunk)) off with
    | none =>
      have := dropChunks_none _ _ hd
      rw [flatMap_pieces_flatten] at this
      simp [RSrc.rest, List.drop_eq_nil_of_le (Nat.le_of_lt this)]
    | some cs =>
      have := (dropChunks_some _ _ _ hd).1
      rw [flatMap_pieces_flatten] at this
      simp [RSrc.rest, this]

/-- Every error the opened reader can end with is an error of the buffer. -/
def Owns (b : Buf) (s : RSrc) : Prop := ∀ e, s.term = .err e → Own b e

theorem openReader_owns (b : Buf) (off : Nat) : Owns b (openReader b off) := by
  intro e h
  cases b with
  | bytes data =>
    simp only [openReader] at h
    by_cases hh : off > data.length
    · rw [if_pos hh] at h; simp [RSrc.term] at h; subst h; simp [Own, Err.isIntegrity]
    · rw [if_neg hh] at h; simp [RSrc.term] at h
  | readerAt data suf =>
    simp only [openReader] at h
    by_cases hh : off > data.length
    · rw [if_pos hh] at h; simp [RSrc.term] at h; subst h; simp [Own, Err.isIntegrity]
    · rw [if_neg hh] at h; simp [RSrc.term] at h
  | error e' => simp [openReader, RSrc.term] at h; simp [Own, h]
  | chunks d s =>
    simp only [openReader] at h
    cases hd : dropChunks (scan s).1 off <;> rw [hd] at h <;> exact Or.inl h
  | reader d s =>
    simp only [openReader] at h
    cases hd : dropChunks (scan s).1 off <;> rw [hd] at h <;> exact Or.inl h
  | clone d s =>
    simp only [openReader] at h
    cases hd : dropChunks ((scan s).1.flatMap (pieces cloneChunk)) off <;> rw [hd] at h <;> exact Or.inl h

theorem Owns.read {b : Buf} {s : RSrc} (h : Owns b s) (n : Nat) : Owns b (s.read n).2.2 := by
  intro e he
  rw [(RSrc.read_spec n s).2.1] at he
  exact h e he

theorem suffix_prefix {α : Type} {a x D : List α} {off : Nat} (h : a ++ x <+: D.drop off) :
    a <+: D.drop off ∧ x <+: D.drop (off + a.length) := by
  obtain ⟨r, hr⟩ := h
  refine ⟨⟨x ++ r, by rw [← List.append_assoc]; exact hr⟩, ⟨r, ?_⟩⟩
  rw [← List.drop_drop, ← hr]; simp

/-! ## `errorHandlingReader.Read` -/

/-- Invariant of the reader when all sources hold (prefixes of) `D`. -/
def EGood (D : Bytes) (r : EHR) : Prop := r.src.rest <+: D.drop r.off ∧ GoodH D r.h

theorem EHR.read_good (D : Bytes) (r : EHR) (n : Nat) (g : EGood D r) :
    (r.read n).1 <+: D.drop r.off ∧ (r.read n).2.2.1.off = r.off + (r.read n).1.length ∧
    EGood D (r.read n).2.2.1 := by
  obtain ⟨s1, _, _, _⟩ := RSrc.read_spec n r.src
  obtain ⟨g1, g2⟩ := g
  rw [← s1] at g1
  obtain ⟨p1, p2⟩ := suffix_prefix g1
  unfold EHR.read
  generalize r.src.read n = res at p1 p2
  obtain ⟨bs, st, s⟩ := res
  cases st with
  | ok => exact ⟨p1, rfl, p2, g2⟩
  | eof => exact ⟨p1, rfl, p2, g2⟩
  | err e =>
    cases hh : r.h with
    | nil => exact ⟨p1, rfl, p2, fun b hb => by simp at hb⟩
    | cons x h =>
      rw [hh] at g2
      cases x with
      | fail k => exact ⟨p1, rfl, p2, g2.tail⟩
      | repl b =>
        refine ⟨p1, rfl, ?_, g2.tail⟩
        show (openReader b _).rest <+: _
        rw [openReader_rest]
        exact prefix_drop _ g2.head.content_prefix

/-- Structure of one `Read`: it makes at most one `OnError` call; a call either decides the
outcome (status `err`, the handler's decision) or installs the replacement and reports `ok`. -/
theorem EHR.read_struct (r : EHR) (n : Nat) (b : Buf) (ho : Owns b r.src) :
    ((r.read n).2.2.2 = [] ∧ (r.read n).2.2.1.h = r.h ∧ Owns b (r.read n).2.2.1.src ∧
      ∀ e, (r.read n).2.1 ≠ .err e) ∨
    (∃ e, (r.read n).2.2.2 = [e] ∧ Own b e ∧
      ((∃ e', (r.read n).2.1 = .err e' ∧ decision r.h 1 = some e') ∨
       (∃ b' h', r.h = .repl b' :: h' ∧ (r.read n).2.2.1.h = h' ∧ Owns b' (r.read n).2.2.1.src ∧
          (r.read n).2.1 = .ok))) := by
  have hs := RSrc.read_spec n r.src
  have ho' := ho.read n
  unfold EHR.read
  generalize r.src.read n = res at hs ho'
  obtain ⟨bs, st, s⟩ := res
  cases st with
  | ok => exact Or.inl ⟨rfl, rfl, ho', by simp⟩
  | eof => exact Or.inl ⟨rfl, rfl, ho', by simp⟩
  | err e =>
    have hoe : Own b e := ho e (hs.2.2.1 e rfl)
    right
    cases hh : r.h with
    | nil => exact ⟨e, rfl, hoe, Or.inl ⟨_, rfl, by simp [decision]⟩⟩
    | cons x h =>
      cases x with
      | fail k => exact ⟨e, rfl, hoe, Or.inl ⟨_, rfl, by simp [decision]⟩⟩
      | repl b' => exact ⟨e, rfl, hoe, Or.inr ⟨b', h, rfl, rfl, openReader_owns _ _, rfl⟩⟩

/-! ## The look-ahead -/

theorem peek_chain : ∀ (h : List Resp) (src : RSrc) (off : Nat) (b : Buf), Owns b src →
    Chain b h (peek src off h).2.2 ∧
    (∀ e, (peek src off h).1 = some (some e) → decision h (peek src off h).2.2.length = some e) ∧
    ((peek src off h).1 = none → decision h (peek src off h).2.2.length = none)
  | h, src, off, b, ho => by
    have hs := RSrc.read_spec 1 src
    unfold peek
    generalize src.read 1 = res at hs
    obtain ⟨bs, st, s⟩ := res
    cases st with
    | ok => exact ⟨.nil b h, by simp, by simp⟩
    | eof =>
      by_cases hb : bs.length > 0
      · simp only [hb, if_true]; exact ⟨.nil b h, by simp, by simp⟩
      · simp only [hb, if_false]; exact ⟨.nil b h, by simp, by simp [decision]⟩
    | err e =>
      have hoe : Own b e := ho e (hs.2.2.1 e rfl)
      cases h with
      | nil => exact ⟨.last b _ e hoe, by simp [decision], by simp⟩
      | cons x h =>
        cases x with
        | fail k => exact ⟨.last b _ e hoe, by simp [decision], by simp⟩
        | repl b' =>
          obtain ⟨c, d1, d2⟩ := peek_chain h (openReader b' (off + bs.length)) (off + bs.length) b' (openReader_owns _ _)
          exact ⟨.step b b' h e _ hoe c, by simpa [decision] using d1, by simpa [decision] using d2⟩

/-! ## `casValidatingReader.Read` -/

theorem chain_of_struct {b : Buf} {h : List Resp} {l0 : List Err} {st : Status} {eh' : EHR}
    (hst : (l0 = [] ∧ eh'.h = h ∧ Owns b eh'.src ∧ ∀ e, st ≠ .err e) ∨
      (∃ e, l0 = [e] ∧ Own b e ∧ ((∃ e', st = .err e' ∧ decision h 1 = some e') ∨
        (∃ b' h', h = .repl b' :: h' ∧ eh'.h = h' ∧ Owns b' eh'.src ∧ st = .ok)))) : Chain b h l0 := by
  rcases hst with ⟨rfl, _⟩ | ⟨e, rfl, ho, _⟩
  · exact .nil b h
  · exact .last b h e ho

/-- Everything about one `Read` of the validating reader that does not depend on the sources'
contents. -/
theorem VR.read_spec (v : VR) (n : Nat) (b : Buf) (hs : v.sticky = none) (ho : Owns b v.eh.src)
    (bs : Bytes) (st : Status) (v' : VR) (l : List Err) (heq : v.read n = (bs, st, v', l)) :
    (st = .ok → v'.sticky = none ∧ v'.d = v.d ∧ v'.acc = v.acc ++ bs ∧ v'.rem + bs.length = v.rem ∧
      ((l = [] ∧ v'.eh.h = v.eh.h ∧ Owns b v'.eh.src) ∨
       (∃ e b' h', l = [e] ∧ Own b e ∧ v.eh.h = .repl b' :: h' ∧ v'.eh.h = h' ∧ Owns b' v'.eh.src))) ∧
    (st ≠ .ok → Chain b v.eh.h l) ∧
    (st = .eof → v.d.valid (v.acc ++ bs) = true ∧ bs.length = v.rem ∧ decision v.eh.h l.length = none) ∧
    (∀ e, st = .err e → e.isIntegrity ∨ decision v.eh.h l.length = some e) := by
  have hst := EHR.read_struct v.eh n b ho
  unfold VR.read at heq
  simp only [hs] at heq
  generalize v.eh.read n = res at hst heq
  obtain ⟨bs0, st0, eh', l0⟩ := res
  simp only [] at hst heq
  by_cases hbig : bs0.length > v.rem
  · simp only [hbig, if_true, Prod.mk.injEq] at heq
    obtain ⟨rfl, rfl, rfl, rfl⟩ := heq
    exact ⟨by simp, fun _ => chain_of_struct hst, by simp, fun e he => by simp at he; subst he; simp [Err.isIntegrity]⟩
  · simp only [hbig, if_false] at heq
    have hle : bs0.length ≤ v.rem := Nat.le_of_not_lt hbig
    cases st0 with
    | eof =>
      have hl0 : l0 = [] := by
        rcases hst with ⟨h, _⟩ | ⟨e, _, _, ⟨e', h, _⟩ | ⟨_, _, _, _, _, h⟩⟩
        · exact h
        · simp at h
        · simp at h
      subst hl0
      simp only [] at heq
      by_cases hrem : v.rem - bs0.length ≠ 0
      · rw [if_pos hrem] at heq
        obtain ⟨rfl, rfl, rfl, rfl⟩ := heq
        exact ⟨by simp, fun _ => .nil _ _, by simp, fun e he => by simp at he; subst he; simp [Err.isIntegrity]⟩
      · simp only [hrem, if_false] at heq
        by_cases hv : v.d.valid (v.acc ++ bs0) = true
        · simp only [hv, if_true, Prod.mk.injEq] at heq
          obtain ⟨rfl, rfl, rfl, rfl⟩ := heq
          exact ⟨by simp, fun _ => .nil _ _, fun _ => ⟨hv, by omega, by simp [decision]⟩, by simp⟩
        · simp only [hv] at heq
          obtain ⟨rfl, rfl, rfl, rfl⟩ := heq
          exact ⟨by simp, fun _ => .nil _ _, by simp, fun e he => by simp at he; subst he; simp [Err.isIntegrity]⟩
    | err e0 =>
      simp only [Prod.mk.injEq] at heq
      obtain ⟨rfl, rfl, rfl, rfl⟩ := heq
      refine ⟨by simp, fun _ => chain_of_struct hst, by simp, fun e he => ?_⟩
      simp at he; subst he
      rcases hst with ⟨_, _, _, h⟩ | ⟨e, rfl, _, ⟨e', h, hd⟩ | ⟨_, _, _, _, _, h⟩⟩
      · exact absurd rfl (h _)
      · simp at h; subst h; exact Or.inr hd
      · simp at h
    | ok =>
      simp only [] at heq
      by_cases hrem : v.rem - bs0.length ≠ 0
      · rw [if_pos hrem] at heq
        obtain ⟨rfl, rfl, rfl, rfl⟩ := heq
        refine ⟨fun _ => ⟨rfl, rfl, rfl, by simp; omega, ?_⟩, by simp, by simp, by simp⟩
        rcases hst with ⟨h1, h2, h3, _⟩ | ⟨e, h1, h2, ⟨e', h, _⟩ | ⟨b', h', h3, h4, h5, _⟩⟩
        · exact Or.inl ⟨h1, h2, h3⟩
        · simp at h
        · exact Or.inr ⟨e, b', h', h1, h2, h3, h4, h5⟩
      · simp only [hrem, if_false] at heq
        -- the look-ahead
        have hpk : ∃ b2 h2, Owns b2 eh'.src ∧ eh'.h = h2 ∧
            (∀ l', Chain b2 h2 l' → Chain b v.eh.h (l0 ++ l')) ∧
            (∀ l', decision v.eh.h (l0 ++ l').length = decision h2 l'.length) := by
          rcases hst with ⟨h1, h2, h3, _⟩ | ⟨e, h1, h2, ⟨e', h, _⟩ | ⟨b', h', h3, h4, h5, _⟩⟩
          · subst h1; exact ⟨b, v.eh.h, h3, h2, fun l' c => by simpa using c, fun l' => by simp⟩
          · simp at h
          · subst h1
            refine ⟨b', h', h5, h4, fun l' c => ?_, fun l' => ?_⟩
            · rw [h3]; exact .step b b' h' e l' h2 c
            · rw [h3]; simp [decision]
        obtain ⟨b2, h2, ho2, hh2, hc, hdec⟩ := hpk
        subst hh2
        obtain ⟨pc, pd1, pd2⟩ := peek_chain eh'.h eh'.src eh'.off b2 ho2
        generalize peek eh'.src eh'.off eh'.h = pr at heq pc pd1 pd2
        obtain ⟨po, peh, pl⟩ := pr
        skip
        cases po with
        | none =>
          simp only [] at heq
          by_cases hv : v.d.valid (v.acc ++ bs0) = true
          · simp only [hv, if_true, Prod.mk.injEq] at heq
            obtain ⟨rfl, rfl, rfl, rfl⟩ := heq
            exact ⟨by simp, fun _ => hc _ pc, fun _ => ⟨hv, by omega, by rw [hdec]; exact pd2 rfl⟩, by simp⟩
          · simp only [hv] at heq
            obtain ⟨rfl, rfl, rfl, rfl⟩ := heq
            exact ⟨by simp, fun _ => hc _ pc, by simp, fun e he => by simp at he; subst he; simp [Err.isIntegrity]⟩
        | some x =>
          cases x with
          | none =>
            simp only [Prod.mk.injEq] at heq
            obtain ⟨rfl, rfl, rfl, rfl⟩ := heq
            exact ⟨by simp, fun _ => hc _ pc, by simp, fun e he => by simp at he; subst he; simp [Err.isIntegrity]⟩
          | some e1 =>
            simp only [Prod.mk.injEq] at heq
            obtain ⟨rfl, rfl, rfl, rfl⟩ := heq
            refine ⟨by simp, fun _ => hc _ pc, by simp, fun e he => ?_⟩
            simp at he; subst he
            exact Or.inr (by rw [hdec]; exact pd1 _ rfl)

theorem VR.read_good (D : Bytes) (v : VR) (n : Nat) (hs : v.sticky = none) (g : EGood D v.eh)
    (bs : Bytes) (st : Status) (v' : VR) (l : List Err) (heq : v.read n = (bs, st, v', l)) :
    bs <+: D.drop v.eh.off ∧ (st = .ok → v'.eh.off = v.eh.off + bs.length ∧ EGood D v'.eh) := by
  obtain ⟨p1, p2, p3⟩ := EHR.read_good D v.eh n g
  unfold VR.read at heq
  simp only [hs] at heq
  generalize v.eh.read n = res at p1 p2 p3 heq
  obtain ⟨bs0, st0, eh', l0⟩ := res
  simp only [] at p1 p2 p3 heq
  by_cases hbig : bs0.length > v.rem
  · rw [if_pos hbig] at heq
    obtain ⟨rfl, rfl, rfl, rfl⟩ := heq
    exact ⟨List.nil_prefix, by simp⟩
  · rw [if_neg hbig] at heq
    cases st0 with
    | eof =>
      simp only [] at heq
      by_cases hrem : v.rem - bs0.length ≠ 0
      · rw [if_pos hrem] at heq
        obtain ⟨rfl, rfl, rfl, rfl⟩ := heq
        exact ⟨List.nil_prefix, by simp⟩
      · rw [if_neg hrem] at heq
        by_cases hv : v.d.valid (v.acc ++ bs0) = true
        · rw [if_pos hv] at heq
          obtain ⟨rfl, rfl, rfl, rfl⟩ := heq
          exact ⟨p1, by simp⟩
        · rw [if_neg hv] at heq
          obtain ⟨rfl, rfl, rfl, rfl⟩ := heq
          exact ⟨List.nil_prefix, by simp⟩
    | err e0 =>
      obtain ⟨rfl, rfl, rfl, rfl⟩ := heq
      exact ⟨List.nil_prefix, by simp⟩
    | ok =>
      simp only [] at heq
      by_cases hrem : v.rem - bs0.length ≠ 0
      · rw [if_pos hrem] at heq
        obtain ⟨rfl, rfl, rfl, rfl⟩ := heq
        exact ⟨p1, fun _ => ⟨p2, p3⟩⟩
      · rw [if_neg hrem] at heq
        generalize peek eh'.src eh'.off eh'.h = pr at heq
        obtain ⟨po, peh, pl⟩ := pr
        cases po with
        | none =>
          simp only [] at heq
          by_cases hv : v.d.valid (v.acc ++ bs0) = true
          · rw [if_pos hv] at heq
            obtain ⟨rfl, rfl, rfl, rfl⟩ := heq
            exact ⟨p1, by simp⟩
          · rw [if_neg hv] at heq
            obtain ⟨rfl, rfl, rfl, rfl⟩ := heq
            exact ⟨List.nil_prefix, by simp⟩
        | some x =>
          cases x with
          | none =>
            obtain ⟨rfl, rfl, rfl, rfl⟩ := heq
            exact ⟨List.nil_prefix, by simp⟩
          | some e1 =>
            obtain ⟨rfl, rfl, rfl, rfl⟩ := heq
            exact ⟨List.nil_prefix, by simp⟩

/-! ## The consumer's loop -/

theorem VR.run_struct : ∀ (sizes : List Nat) (v : VR) (b : Buf), v.sticky = none → Owns b v.eh.src →
    Chain b v.eh.h (v.run sizes).2 ∧
    (∀ x, (x, Status.eof) ∈ (v.run sizes).1 →
      v.d.valid (v.acc ++ readBytes (v.run sizes).1) = true ∧ (readBytes (v.run sizes).1).length = v.rem ∧
      decision v.eh.h (v.run sizes).2.length = none) ∧
    (∀ x e, (x, Status.err e) ∈ (v.run sizes).1 →
      e.isIntegrity ∨ decision v.eh.h (v.run sizes).2.length = some e)
  | [], v, b, _, _ => by simp [VR.run]; exact .nil _ _
  | n :: ns, v, b, hs, ho => by
    generalize hr : v.read n = res
    obtain ⟨bs, st, v', l⟩ := res
    obtain ⟨s1, s2, s3, s4⟩ := VR.read_spec v n b hs ho bs st v' l hr
    cases st with
    | ok =>
      obtain ⟨a1, a2, a3, a4, a5⟩ := s1 rfl
      have hrun : v.run (n :: ns) = ((bs, .ok) :: (v'.run ns).1, l ++ (v'.run ns).2) := by
        simp only [VR.run, hr]
      rw [hrun]
      rcases a5 with ⟨rfl, b1, b2⟩ | ⟨e, b', h', rfl, b1, b2, b3, b4⟩
      · obtain ⟨i1, i2, i3⟩ := VR.run_struct ns v' b a1 b2
        rw [b1, a2, a3] at *
        simp only [List.nil_append, readBytes_cons, List.mem_cons, Prod.mk.injEq, reduceCtorEq, and_false,
          false_or]
        refine ⟨i1, fun x hx => ?_, fun x e hx => i3 x e hx⟩
        obtain ⟨j1, j2, j3⟩ := i2 x hx
        refine ⟨by rw [← List.append_assoc]; exact j1, ?_, j3⟩
        simp only [List.length_append, j2]; omega
      · obtain ⟨i1, i2, i3⟩ := VR.run_struct ns v' b' a1 b4
        rw [b3, a2, a3] at *
        rw [b2]
        simp only [List.cons_append, List.nil_append, readBytes_cons, List.mem_cons, Prod.mk.injEq,
          reduceCtorEq, and_false, false_or, List.length_cons, decision]
        refine ⟨.step b b' h' e _ b1 i1, fun x hx => ?_, fun x e hx => i3 x e hx⟩
        obtain ⟨j1, j2, j3⟩ := i2 x hx
        refine ⟨by rw [← List.append_assoc]; exact j1, ?_, j3⟩
        simp only [List.length_append, j2]; omega
    | eof =>
      have hrun : v.run (n :: ns) = ([(bs, .eof)], l) := by simp only [VR.run, hr]
      rw [hrun]
      obtain ⟨c1, c2, c3⟩ := s3 rfl
      refine ⟨s2 (by simp), fun x hx => ?_, fun x e hx => by simp at hx⟩
      simp only [readBytes_cons, readBytes_nil, List.append_nil]
      exact ⟨c1, c2, c3⟩
    | err e0 =>
      have hrun : v.run (n :: ns) = ([(bs, .err e0)], l) := by simp only [VR.run, hr]
      rw [hrun]
      refine ⟨s2 (by simp), fun x hx => by simp at hx, fun x e hx => ?_⟩
      simp at hx
      exact s4 e (by rw [hx.2])

theorem VR.run_good (D : Bytes) : ∀ (sizes : List Nat) (v : VR), v.sticky = none → EGood D v.eh →
    readBytes (v.run sizes).1 <+: D.drop v.eh.off
  | [], v, _, _ => by simp [VR.run]
  | n :: ns, v, hs, g => by
    generalize hr : v.read n = res
    obtain ⟨bs, st, v', l⟩ := res
    obtain ⟨g1, g2⟩ := VR.read_good D v n hs g bs st v' l hr
    cases st with
    | ok =>
      have hrun : v.run (n :: ns) = ((bs, .ok) :: (v'.run ns).1, l ++ (v'.run ns).2) := by
        simp only [VR.run, hr]
      rw [hrun]
      obtain ⟨o1, o2⟩ := g2 rfl
      have hs' : v'.sticky = none := by
        -- status ok leaves the reader non-sticky (independent of ownership)
        unfold VR.read at hr
        simp only [hs] at hr
        generalize v.eh.read n = res at hr
        obtain ⟨bs0, st0, eh', l0⟩ := res
        simp only [] at hr
        by_cases hbig : bs0.length > v.rem
        · rw [if_pos hbig] at hr; simp at hr
        · rw [if_neg hbig] at hr
          cases st0 with
          | eof =>
            simp only [] at hr
            by_cases hrem : v.rem - bs0.length ≠ 0
            · rw [if_pos hrem] at hr; simp at hr
            · rw [if_neg hrem] at hr
              by_cases hv : v.d.valid (v.acc ++ bs0) = true
              · rw [if_pos hv] at hr; simp at hr
              · rw [if_neg hv] at hr; simp at hr
          | err e0 => simp at hr
          | ok =>
            simp only [] at hr
            by_cases hrem : v.rem - bs0.length ≠ 0
            · rw [if_pos hrem] at hr
              obtain ⟨rfl, _, rfl, rfl⟩ := hr
              rfl
            · rw [if_neg hrem] at hr
              generalize peek eh'.src eh'.off eh'.h = pr at hr
              obtain ⟨po, peh, pl⟩ := pr
              cases po with
              | none =>
                simp only [] at hr
                by_cases hv : v.d.valid (v.acc ++ bs0) = true
                · rw [if_pos hv] at hr; simp at hr
                · rw [if_neg hv] at hr; simp at hr
              | some x => cases x <;> simp at hr
      have ih := VR.run_good D ns v' hs' o2
      rw [o1] at ih
      simp only [readBytes_cons]
      exact prefix_extend g1 ih
    | eof =>
      have hrun : v.run (n :: ns) = ([(bs, .eof)], l) := by simp only [VR.run, hr]
      rw [hrun]; simpa using g1
    | err e0 =>
      have hrun : v.run (n :: ns) = ([(bs, .err e0)], l) := by simp only [VR.run, hr]
      rw [hrun]; simpa using g1

end BB.ErrorHandling
