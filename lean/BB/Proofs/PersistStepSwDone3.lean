import BB.Proofs.PersistStepSwDone2
/-!
# Invariant preservation: `swDone`, assembled
-/
namespace BB.Persist

/-- `ProcessBlockPut` returns: its program counter goes back to idle (or to finished). -/
theorem inv_setG1 {w : World} (h : Inv w) (hsw : w.sw = none) (hnp : ∀ o ∈ w.objs, o.precov = false) (g1' : G1)
    (h1 : ∀ x, g1' ≠ .syncing x) (h2 : ∀ x, g1' ≠ .synced x) : Inv { w with g1 := g1' } := by
  refine ⟨h.cfg, h.wfp, h.own, h.obj, ?_, h.dev, h.recs, h.files, h.swFile, ⟨by intro s hs; rw [hsw] at hs; cases hs⟩⟩
  refine ⟨h.epoch.range, h.epoch.synced, ?_, ?_⟩
  · intro o ho b hb e hg hfin hlt
    exact ⟨(h.epoch.syncing o ho b hb e hg hfin hlt).1, (fun x hx => absurd hx (h1 x)), (fun x hx => absurd hx (h2 x))⟩
  · intro o ho hp
    rw [hnp o ho] at hp; cases hp

theorem inv_swDone {w w' : World} (h : Inv w) (hs : w.swDone = some w') : Inv w' := by
  unfold World.swDone at hs
  cases hsw : w.sw with
  | none => simp [hsw] at hs
  | some s =>
    simp only [hsw] at hs
    split at hs
    · cases hs
    · rename_i hst
      have hst6 : s.stage = 6 := by simpa using hst
      simp only [PBL.notifyPersistentStateWritten, Option.some.injEq] at hs
      have hrel : (w.pbl.toRelease.take w.pbl.releasing).foldl World.listRelease
          { w with pbl := { w.pbl with toRelease := w.pbl.toRelease.drop w.pbl.releasing, releasing := 0 }, sw := none } =
          released w w.pbl.releasing := by
        rw [foldl_listRelease]; rfl
      rw [hrel] at hs
      have hinv := inv_released h hsw hst6
      by_cases ho : s.owner = 1
      · simp only [ho, beq_self_eq_true, if_true] at hs
        subst hs
        obtain ⟨_, _, _, _, _, _, a7⟩ := h.sw.stage s hsw
        obtain ⟨f, hf⟩ := a7 ho
        have hnp : ∀ o ∈ (released w w.pbl.releasing).objs, o.precov = false :=
          noPrecov_of_not_syncing h.epoch (by rw [hf]; intro x; simp)
        refine inv_setG1 hinv rfl hnp _ ?_ ?_
        · intro x; rw [hf]; cases f <;> simp
        · intro x; rw [hf]; cases f <;> simp
      · have : (s.owner == 1) = false := by simpa using ho
        simp only [this, Bool.false_eq_true, if_false] at hs
        subst hs
        exact hinv

end BB.Persist
