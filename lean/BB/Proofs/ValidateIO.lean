import BB.Proofs.ValidateChunk
/-!
# Laws of the generic readers, adapters and consumers

A *machine* is a reader or chunk reader built on top of a validator: its state
projects to the validator's `Core`, `pend` are bytes the validator has handed
out that the machine still buffers.  `Acct` is conservation of bytes:
everything the machine hands out was handed out by the validator, in order.
-/
namespace BB.Validate

/-- Errors produced by the consumption method itself (argument errors, fuel). -/
def Local : Err → Prop
  | .stuck | .negOff | .offBeyond | .tooLarge => True
  | _ => False

/-- The result `r` is backed by the validator's sticky state. -/
def RFin (r : Res) (k : Core) : Prop :=
  match r with
  | .ok => True
  | .eof => k.fin = some .eof
  | .err e => Local e ∨ k.fin = some (.err e)

structure Mach (σ : Type) where
  core : σ → Core
  pend : σ → List Nat
  I : σ → Prop

def Acct {σ : Type} (M : Mach σ) (s s' : σ) (d : List Nat) : Prop :=
  ∀ pre, pre ++ M.pend s = (M.core s).out → pre ++ d ++ M.pend s' = (M.core s').out

theorem Acct.refl {σ : Type} (M : Mach σ) (s : σ) : Acct M s s [] := by
  intro pre h; simpa using h

theorem Acct.trans {σ : Type} {M : Mach σ} {s s' s'' : σ} {d d' : List Nat}
    (h1 : Acct M s s' d) (h2 : Acct M s' s'' d') : Acct M s s'' (d ++ d') := by
  intro pre h
  have := h2 (pre ++ d) (h1 pre h)
  simpa [List.append_assoc] using this

def StepOK {σ : Type} (M : Mach σ) (step : Step σ) : Prop :=
  ∀ s, M.I s → M.I (step s).1 ∧ Acct M s (step s).1 (step s).2.1 ∧ RFin (step s).2.2 (M.core (step s).1) ∧
    ((step s).2.2 ≠ .ok → (step s).2.1 = [])

def RdOK {σ : Type} (M : Mach σ) (rd : Rd σ) : Prop :=
  ∀ s cap, M.I s → M.I (rd s cap).1 ∧ Acct M s (rd s cap).1 (rd s cap).2.1 ∧ RFin (rd s cap).2.2 (M.core (rd s cap).1) ∧
    (rd s cap).2.1.length ≤ cap

/-- The validating reader as a machine. -/
def VRm (c : Cfg) (T : Truth) : Mach VR := { core := fun v => v.core, pend := fun _ => [], I := RInv c T }
/-- The validating chunk reader as a machine. -/
def VCm (c : Cfg) (T : Truth) : Mach VC := { core := fun v => v.core, pend := fun _ => [], I := CInv c T }

theorem stepFacts_rfin {k k' : Core} {d : List Nat} {r : Res} (h : StepFacts k k' d r) : RFin r k' := by
  cases r with
  | ok => trivial
  | eof => exact h.res (by simp)
  | err e => exact Or.inr (h.res (by simp))

theorem RSrc.read_len (s : RSrc) (cap : Nat) : (s.read cap).2.1.length ≤ cap := by
  unfold RSrc.read
  cases s.items with
  | nil => simp
  | cons a rest =>
    simp only []
    by_cases hc : a.length ≤ cap
    · rw [if_pos hc]; exact hc
    · rw [if_neg hc]; simp only [List.length_take]; omega

theorem VR.read_len (c : Cfg) (v : VR) (cap : Nat) : (VR.read c v cap).2.1.length ≤ cap := by
  have h := RSrc.read_len v.src cap
  unfold VR.read
  generalize v.src.read cap = x at h ⊢
  obtain ⟨s1, d, sr⟩ := x
  simp only at h ⊢
  simp only [VR.fail, VR.valid, VR.srcFail]
  repeat' split
  all_goals first | exact h | exact Nat.zero_le _

theorem VRm_ok (c : Cfg) (T : Truth) : RdOK (VRm c T) (VR.read c) := by
  intro s cap hI
  obtain ⟨h1, h2⟩ := VR.read_ok (c := c) cap hI
  refine ⟨h1, ?_, stepFacts_rfin h2, VR.read_len c s cap⟩
  intro pre hp
  simp only [VRm, List.append_nil] at hp ⊢
  rw [h2.out, hp]

theorem VCm_ok (c : Cfg) (T : Truth) : StepOK (VCm c T) (VC.read c) := by
  intro s hI
  obtain ⟨h1, h2, h3⟩ := VC.read_ok (c := c) hI
  refine ⟨h1, ?_, stepFacts_rfin h2, h3⟩
  intro pre hp
  simp only [VCm, List.append_nil] at hp ⊢
  rw [h2.out, hp]

end BB.Validate

namespace BB.Validate

/-- How `io.ReadFull` can end. -/
def FullRes (r : Res) (k : Core) (newLen need : Nat) : Prop :=
  (r = .ok ∧ need ≤ newLen) ∨ (r = .eof ∧ k.fin = some .eof) ∨ (∃ e, r = .err e ∧ (Local e ∨ k.fin = some (.err e))) ∨
  (r = .err (.src 0) ∧ k.fin = some .eof ∧ newLen < need)

theorem readFull_ok {σ : Type} {M : Mach σ} {rd : Rd σ} (hrd : RdOK M rd) :
    ∀ (fuel : Nat) (s : σ) (need : Nat) (got : List Nat), M.I s →
      M.I (readFull rd fuel s need got).1 ∧
      ∃ new, (readFull rd fuel s need got).2.1 = got ++ new ∧ Acct M s (readFull rd fuel s need got).1 new ∧
        FullRes (readFull rd fuel s need got).2.2 (M.core (readFull rd fuel s need got).1) new.length need := by
  intro fuel
  induction fuel with
  | zero =>
    intro s need got hI
    cases need with
    | zero => simp only [readFull]; exact ⟨hI, [], by simp, Acct.refl M s, Or.inl ⟨rfl, Nat.le_refl _⟩⟩
    | succ n =>
      simp only [readFull]
      exact ⟨hI, [], by simp, Acct.refl M s, Or.inr (Or.inr (Or.inl ⟨.stuck, rfl, Or.inl trivial⟩))⟩
  | succ f ih =>
    intro s need got hI
    cases need with
    | zero => simp only [readFull]; exact ⟨hI, [], by simp, Acct.refl M s, Or.inl ⟨rfl, Nat.le_refl _⟩⟩
    | succ n =>
      simp only [readFull]
      obtain ⟨hI', hacct, hfin, _⟩ := hrd s (n+1) hI
      generalize rd s (n+1) = x at hI' hacct hfin ⊢
      obtain ⟨s', d, r⟩ := x
      simp only at hI' hacct hfin ⊢
      cases r with
      | ok =>
        simp only []
        obtain ⟨hI2, new, hgot, hacct2, hres⟩ := ih s' (n + 1 - d.length) (got ++ d) hI'
        refine ⟨hI2, d ++ new, by rw [hgot, List.append_assoc], hacct.trans hacct2, ?_⟩
        rcases hres with ⟨h, hl⟩ | h | h | ⟨h1, h2, h3⟩
        · refine Or.inl ⟨h, ?_⟩
          simp only [List.length_append]; omega
        · exact Or.inr (Or.inl h)
        · exact Or.inr (Or.inr (Or.inl h))
        · refine Or.inr (Or.inr (Or.inr ⟨h1, h2, ?_⟩))
          simp only [List.length_append]; omega
      | eof =>
        simp only []
        by_cases hd : d.length ≥ n + 1
        · rw [if_pos hd]; exact ⟨hI', d, rfl, hacct, Or.inl ⟨rfl, hd⟩⟩
        · rw [if_neg hd]
          by_cases hg : (got ++ d).length > 0 ∧ True
          · rw [if_pos hg]
            refine ⟨hI', d, rfl, hacct, Or.inr (Or.inr (Or.inr ⟨rfl, hfin, by omega⟩))⟩
          · rw [if_neg hg]; exact ⟨hI', d, rfl, hacct, Or.inr (Or.inl ⟨rfl, hfin⟩)⟩
      | err e =>
        simp only []
        by_cases hd : d.length ≥ n + 1
        · rw [if_pos hd]; exact ⟨hI', d, rfl, hacct, Or.inl ⟨rfl, hd⟩⟩
        · rw [if_neg hd]
          have hg : ¬ ((got ++ d).length > 0 ∧ Res.err e = Res.eof) := by simp
          rw [if_neg hg]
          exact ⟨hI', d, rfl, hacct, Or.inr (Or.inr (Or.inl ⟨e, rfl, hfin⟩))⟩

end BB.Validate

namespace BB.Validate

/-- Result of a loop that reads to the end: success means the validator reported EOF. -/
def EndRes (r : Res) (k : Core) : Prop :=
  (r = .ok ∧ k.fin = some .eof) ∨ (∃ e, r = .err e ∧ (Local e ∨ k.fin = some (.err e)))

theorem copyLoop_ok {σ : Type} {M : Mach σ} {rd : Rd σ} (hrd : RdOK M rd) (buf : Nat) :
    ∀ (fuel : Nat) (s : σ) (ws : List (List Nat)), M.I s →
      M.I (copyLoop rd buf fuel s ws).1 ∧
      ∃ new, (copyLoop rd buf fuel s ws).2.1 = ws ++ new ∧ Acct M s (copyLoop rd buf fuel s ws).1 new.flatten ∧
        EndRes (copyLoop rd buf fuel s ws).2.2 (M.core (copyLoop rd buf fuel s ws).1) := by
  intro fuel
  induction fuel with
  | zero =>
    intro s ws hI
    simp only [copyLoop]
    exact ⟨hI, [], by simp, by simpa using Acct.refl M s, Or.inr ⟨.stuck, rfl, Or.inl trivial⟩⟩
  | succ f ih =>
    intro s ws hI
    simp only [copyLoop]
    obtain ⟨hI', hacct, hfin, _⟩ := hrd s buf hI
    generalize rd s buf = x at hI' hacct hfin ⊢
    obtain ⟨s', d, r⟩ := x
    simp only at hI' hacct hfin ⊢
    have hnew : ∃ nw : List (List Nat), (if d.isEmpty = true then ws else ws ++ [d]) = ws ++ nw ∧ nw.flatten = d := by
      by_cases he : d.isEmpty = true
      · rw [if_pos he]; exact ⟨[], by simp, by simp [List.isEmpty_iff.mp he]⟩
      · rw [if_neg he]; exact ⟨[d], rfl, by simp⟩
    obtain ⟨nw, hnw, hfl⟩ := hnew
    rw [hnw]
    cases r with
    | ok =>
      simp only []
      obtain ⟨hI2, new, hgot, hacct2, hres⟩ := ih s' (ws ++ nw) hI'
      refine ⟨hI2, nw ++ new, by rw [hgot, List.append_assoc], ?_, hres⟩
      rw [List.flatten_append, hfl]; exact hacct.trans hacct2
    | eof => exact ⟨hI', nw, rfl, by rw [hfl]; exact hacct, Or.inl ⟨rfl, hfin⟩⟩
    | err e => exact ⟨hI', nw, rfl, by rw [hfl]; exact hacct, Or.inr ⟨e, rfl, hfin⟩⟩

theorem discardN_ok {σ : Type} {M : Mach σ} {rd : Rd σ} (hrd : RdOK M rd) (buf : Nat) :
    ∀ (fuel : Nat) (s : σ) (n : Nat) (dropped : List Nat), M.I s →
      M.I (discardN rd buf fuel s n dropped).1 ∧
      ∃ new, (discardN rd buf fuel s n dropped).2.1 = dropped ++ new ∧
        Acct M s (discardN rd buf fuel s n dropped).1 new ∧ new.length ≤ n ∧
        ((discardN rd buf fuel s n dropped).2.2 = .ok → new.length = n) ∧
        RFin (discardN rd buf fuel s n dropped).2.2 (M.core (discardN rd buf fuel s n dropped).1) := by
  intro fuel
  induction fuel with
  | zero =>
    intro s n dropped hI
    cases n with
    | zero => simp only [discardN]; exact ⟨hI, [], by simp, Acct.refl M s, by simp, fun _ => rfl, trivial⟩
    | succ n =>
      simp only [discardN]
      exact ⟨hI, [], by simp, Acct.refl M s, by simp, (fun h => by cases h), Or.inl trivial⟩
  | succ f ih =>
    intro s n dropped hI
    cases n with
    | zero => simp only [discardN]; exact ⟨hI, [], by simp, Acct.refl M s, by simp, fun _ => rfl, trivial⟩
    | succ n =>
      simp only [discardN]
      obtain ⟨hI', hacct, hfin, hlen⟩ := hrd s (min buf (n+1)) hI
      generalize rd s (min buf (n+1)) = x at hI' hacct hfin hlen ⊢
      obtain ⟨s', d, r⟩ := x
      simp only at hI' hacct hfin hlen ⊢
      have hdl : d.length ≤ n + 1 := Nat.le_trans hlen (Nat.min_le_right _ _)
      cases r with
      | ok =>
        simp only []
        obtain ⟨hI2, new, hgot, hacct2, hle, hok, hres⟩ := ih s' (n + 1 - d.length) (dropped ++ d) hI'
        refine ⟨hI2, d ++ new, by rw [hgot, List.append_assoc], hacct.trans hacct2, ?_, ?_, hres⟩
        · simp only [List.length_append]; omega
        · intro h; have := hok h; simp only [List.length_append]; omega
      | eof =>
        simp only []
        refine ⟨hI', d, rfl, hacct, hdl, ?_, ?_⟩
        · intro h
          by_cases h0 : n + 1 - d.length = 0
          · omega
          · rw [if_neg h0] at h; cases h
        · by_cases h0 : n + 1 - d.length = 0
          · rw [if_pos h0]; trivial
          · rw [if_neg h0]; exact hfin
      | err e =>
        simp only []
        refine ⟨hI', d, rfl, hacct, hdl, ?_, ?_⟩
        · intro h
          by_cases h0 : n + 1 - d.length = 0
          · omega
          · rw [if_neg h0] at h; cases h
        · by_cases h0 : n + 1 - d.length = 0
          · rw [if_pos h0]; trivial
          · rw [if_neg h0]; exact hfin

end BB.Validate

namespace BB.Validate

/-- `readerBackedChunkReader` over a reader machine. -/
def rbcM {σ : Type} (M : Mach σ) : Mach (σ × Option Res) :=
  { core := fun x => M.core x.1, pend := fun x => M.pend x.1,
    I := fun x => M.I x.1 ∧ ∀ r, x.2 = some r → r ≠ .ok ∧ RFin r (M.core x.1) }

theorem rbc_ok {σ : Type} {M : Mach σ} {rd : Rd σ} (hrd : RdOK M rd)
    (hsoft : ∀ s, M.I s → (M.core s).fin ≠ some (.err (.src 0))) (fuel max : Nat) :
    StepOK (rbcM M) (rbcStep rd fuel max) := by
  intro x hI
  obtain ⟨s, st⟩ := x
  obtain ⟨hIs, hst⟩ := hI
  cases st with
  | some r =>
    obtain ⟨hne, hr⟩ := hst r rfl
    simp only [rbcStep]
    exact ⟨⟨hIs, hst⟩, Acct.refl _ _, hr, by intros; first | rfl | trivial⟩
  | none =>
    simp only [rbcStep]
    obtain ⟨hI', new, hgot, hacct, hres⟩ := readFull_ok hrd fuel s max [] hIs
    generalize readFull rd fuel s max [] = y at hI' hgot hacct hres ⊢
    obtain ⟨s', got, r⟩ := y
    simp only [List.nil_append] at hI' hgot hacct hres ⊢
    subst hgot
    have hsticky : ∀ r', rbcSticky r = some r' → r' ≠ .ok ∧ RFin r' (M.core s') := by
      intro r' hr'
      unfold rbcSticky at hr'
      by_cases h1 : r = .ok
      · rw [if_pos h1] at hr'; cases hr'
      · rw [if_neg h1] at hr'
        by_cases h2 : r = .err (.src 0)
        · rw [if_pos h2] at hr'
          simp only [Option.some.injEq] at hr'
          subst hr'
          refine ⟨by simp, ?_⟩
          rcases hres with ⟨h, _⟩ | ⟨h, _⟩ | ⟨e, he, hl⟩ | ⟨_, h, _⟩
          · exact absurd h h1
          · rw [h2] at h; cases h
          · rw [h2] at he; simp only [Res.err.injEq] at he; subst he
            rcases hl with hl | hl
            · exact absurd hl (by simp [Local])
            · exact absurd hl (hsoft s' hI')
          · exact h
        · rw [if_neg h2] at hr'
          simp only [Option.some.injEq] at hr'
          subst hr'
          refine ⟨h1, ?_⟩
          rcases hres with ⟨h, _⟩ | ⟨h, hf⟩ | ⟨e, he, hl⟩ | ⟨h, _, _⟩
          · exact absurd h h1
          · rw [h]; exact hf
          · rw [he]; exact hl
          · exact absurd h h2
    by_cases hg : got.length > 0
    · rw [if_pos hg]
      exact ⟨⟨hI', hsticky⟩, hacct, trivial, fun h => absurd rfl h⟩
    · rw [if_neg hg]
      have hge : got = [] := List.eq_nil_of_length_eq_zero (by omega)
      subst hge
      refine ⟨⟨hI', hsticky⟩, hacct, ?_, fun _ => rfl⟩
      cases hs : rbcSticky r with
      | none => trivial
      | some r' => exact (hsticky r' hs).2

end BB.Validate

namespace BB.Validate

/-- `offsetChunkReader` over a chunk reader machine. -/
def offM {σ : Type} (M : Mach σ) : Mach (Off σ) :=
  { core := fun o => M.core o.inner, pend := fun o => o.pending ++ M.pend o.inner,
    I := fun o => M.I o.inner ∧ ∀ r, o.fixed = some r → r ≠ .ok ∧ RFin r (M.core o.inner) ∧ o.pending = [] }

theorem discardChunks_ok {σ : Type} {M : Mach σ} {step : Step σ} (hst : StepOK M step) :
    ∀ (fuel : Nat) (s : σ) (off : Nat) (dropped : List Nat), M.I s →
      M.I (discardChunks step fuel s off dropped).1 ∧
      ∃ new, (discardChunks step fuel s off dropped).2.1 = dropped ++ new ∧
        (∀ pre, pre ++ M.pend s = (M.core s).out →
          pre ++ new ++ (discardChunks step fuel s off dropped).2.2.1 ++ M.pend (discardChunks step fuel s off dropped).1
            = (M.core (discardChunks step fuel s off dropped).1).out) ∧
        new.length ≤ off ∧ ((discardChunks step fuel s off dropped).2.2.2 = none → new.length = off) ∧
        (∀ r, (discardChunks step fuel s off dropped).2.2.2 = some r →
          r ≠ .ok ∧ RFin r (M.core (discardChunks step fuel s off dropped).1) ∧
          (discardChunks step fuel s off dropped).2.2.1 = []) := by
  intro fuel
  induction fuel with
  | zero =>
    intro s off dropped hI
    cases off with
    | zero =>
      simp only [discardChunks]
      exact ⟨hI, [], by simp, fun pre h => by simpa using h, by simp, fun _ => rfl, fun r h => by cases h⟩
    | succ n =>
      simp only [discardChunks]
      refine ⟨hI, [], by simp, fun pre h => by simpa using h, by simp, (fun h => by cases h), ?_⟩
      intro r h
      simp only [Option.some.injEq] at h
      subst h
      exact ⟨by simp, Or.inl trivial, by first | rfl | trivial⟩
  | succ f ih =>
    intro s off dropped hI
    cases off with
    | zero =>
      simp only [discardChunks]
      exact ⟨hI, [], by simp, fun pre h => by simpa using h, by simp, fun _ => rfl, fun r h => by cases h⟩
    | succ n =>
      simp only [discardChunks]
      obtain ⟨hI', hacct, hfin, hdat⟩ := hst s hI
      generalize step s = x at hI' hacct hfin hdat ⊢
      obtain ⟨s', ch, r⟩ := x
      simp only at hI' hacct hfin hdat ⊢
      cases r with
      | ok =>
        simp only []
        by_cases hlt : n + 1 < ch.length
        · rw [if_pos hlt]
          refine ⟨hI', ch.take (n+1), rfl, ?_, ?_, ?_, fun r h => by cases h⟩
          · intro pre h
            have := hacct pre h
            rw [List.append_assoc pre, List.take_append_drop]; exact this
          · simp only [List.length_take]; omega
          · intro _; simp only [List.length_take]; omega
        · rw [if_neg hlt]
          obtain ⟨hI2, new, hgot, hacct2, hle, hnone, herr⟩ := ih s' (n + 1 - ch.length) (dropped ++ ch) hI'
          refine ⟨hI2, ch ++ new, by rw [hgot, List.append_assoc], ?_, ?_, ?_, herr⟩
          · intro pre h
            have := hacct2 (pre ++ ch) (hacct pre h)
            simpa [List.append_assoc] using this
          · simp only [List.length_append]; omega
          · intro h; have := hnone h; simp only [List.length_append]; omega
      | eof =>
        have hch : ch = [] := hdat (by simp)
        subst hch
        simp only []
        refine ⟨hI', [], by simp, ?_, by simp, (fun h => by cases h), ?_⟩
        · intro pre h; simpa using hacct pre h
        · intro r h
          simp only [Option.some.injEq] at h
          subst h
          exact ⟨by simp, hfin, by first | rfl | trivial⟩
      | err e =>
        have hch : ch = [] := hdat (by simp)
        subst hch
        simp only []
        refine ⟨hI', [], by simp, ?_, by simp, (fun h => by cases h), ?_⟩
        · intro pre h; simpa using hacct pre h
        · intro r h
          simp only [Option.some.injEq] at h
          subst h
          exact ⟨by simp, hfin, by first | rfl | trivial⟩

theorem offInit_ok {σ : Type} {M : Mach σ} {step : Step σ} (hst : StepOK M step) (fuel : Nat) (s : σ) (off : Nat)
    (hI : M.I s) :
    (offM M).I (offInit step fuel s off).1 ∧
    (∀ pre, pre ++ M.pend s = (M.core s).out →
      pre ++ (offInit step fuel s off).2 ++ (offM M).pend (offInit step fuel s off).1
        = ((offM M).core (offInit step fuel s off).1).out) ∧
    (offInit step fuel s off).2.length ≤ off ∧
    ((offInit step fuel s off).1.fixed = none → (offInit step fuel s off).2.length = off) := by
  obtain ⟨hI', new, hgot, hacct, hle, hnone, herr⟩ := discardChunks_ok hst fuel s off [] hI
  unfold offInit
  generalize discardChunks step fuel s off [] = x at hI' hgot hacct hle hnone herr ⊢
  obtain ⟨s', dropped, pre', e⟩ := x
  simp only [List.nil_append] at hI' hgot hacct hle hnone herr ⊢
  subst hgot
  refine ⟨⟨hI', herr⟩, ?_, hle, hnone⟩
  intro pre h
  have := hacct pre h
  simpa [offM, List.append_assoc] using this

theorem offStep_ok {σ : Type} {M : Mach σ} {step : Step σ} (hst : StepOK M step) :
    StepOK (offM M) (offStep step) := by
  intro o hI
  obtain ⟨hIs, hfx⟩ := hI
  unfold offStep
  cases hf : o.fixed with
  | some r =>
    obtain ⟨hne, hr, hp⟩ := hfx r hf
    exact ⟨⟨hIs, hfx⟩, Acct.refl _ _, hr, by intros; first | rfl | trivial⟩
  | none =>
    simp only []
    by_cases he : o.pending.isEmpty = true
    · rw [if_pos he]
      have hp : o.pending = [] := List.isEmpty_iff.mp he
      obtain ⟨hI', hacct, hfin, hdat⟩ := hst o.inner hIs
      generalize step o.inner = x at hI' hacct hfin hdat ⊢
      obtain ⟨s', ch, r⟩ := x
      simp only at hI' hacct hfin hdat ⊢
      refine ⟨⟨hI', fun r' h' => by simp at h'⟩, ?_, hfin, hdat⟩
      intro pre h
      simp only [offM, hp, List.nil_append] at h ⊢
      exact hacct pre h
    · rw [if_neg he]
      refine ⟨⟨hIs, fun r' h' => by simp at h'⟩, ?_, trivial, fun h => absurd rfl h⟩
      intro pre h
      simp only [offM, List.nil_append] at h ⊢
      rw [List.append_assoc]; exact h

end BB.Validate

namespace BB.Validate

/-- A chunk reader machine with a buffered `lastChunk`. -/
def bufM {σ : Type} (M : Mach σ) : Mach (σ × List Nat) :=
  { core := fun x => M.core x.1, pend := fun x => x.2 ++ M.pend x.1, I := fun x => M.I x.1 }

theorem normFetch_ok {σ : Type} {M : Mach σ} {step : Step σ} (hst : StepOK M step) :
    ∀ (fuel : Nat) (s : σ), M.I s →
      M.I (normFetch step fuel s).1 ∧ Acct M s (normFetch step fuel s).1 (normFetch step fuel s).2.1 ∧
      RFin (normFetch step fuel s).2.2 (M.core (normFetch step fuel s).1) ∧
      ((normFetch step fuel s).2.2 ≠ .ok → (normFetch step fuel s).2.1 = []) := by
  intro fuel
  induction fuel with
  | zero => intro s hI; simp only [normFetch]; exact ⟨hI, Acct.refl M s, Or.inl trivial, by intros; first | rfl | trivial⟩
  | succ f ih =>
    intro s hI
    simp only [normFetch]
    obtain ⟨hI', hacct, hfin, hdat⟩ := hst s hI
    generalize step s = x at hI' hacct hfin hdat ⊢
    obtain ⟨s', ch, r⟩ := x
    simp only at hI' hacct hfin hdat ⊢
    cases r with
    | ok =>
      simp only []
      by_cases hl : ch.length > 0
      · rw [if_pos hl]; exact ⟨hI', hacct, trivial, fun h => absurd rfl h⟩
      · rw [if_neg hl]
        have hch : ch = [] := List.eq_nil_of_length_eq_zero (by omega)
        subst hch
        obtain ⟨h1, h2, h3, h4⟩ := ih s' hI'
        exact ⟨h1, by simpa using hacct.trans h2, h3, h4⟩
    | eof =>
      have hch : ch = [] := hdat (by simp)
      subst hch
      exact ⟨hI', hacct, hfin, fun _ => rfl⟩
    | err e =>
      have hch : ch = [] := hdat (by simp)
      subst hch
      exact ⟨hI', hacct, hfin, fun _ => rfl⟩

theorem normSplit_ok {σ : Type} (max : Nat) (s : σ) (last : List Nat) :
    (normSplit max s last).1.1 = s ∧ (normSplit max s last).2.1 ++ (normSplit max s last).1.2 = last ∧
    (normSplit max s last).2.2 = .ok := by
  unfold normSplit
  by_cases h : last.length > max
  · rw [if_pos h]; exact ⟨rfl, List.take_append_drop _ _, rfl⟩
  · rw [if_neg h]; exact ⟨rfl, by simp, rfl⟩

theorem normStep_ok {σ : Type} {M : Mach σ} {step : Step σ} (hst : StepOK M step) (max fuel : Nat) :
    StepOK (bufM M) (normStep step max fuel) := by
  intro x hI
  obtain ⟨s, last⟩ := x
  simp only [normStep]
  by_cases hl : last.length > 0
  · rw [if_pos hl]
    obtain ⟨h1, h2, h3⟩ := normSplit_ok max s last
    generalize normSplit max s last = y at h1 h2 h3 ⊢
    obtain ⟨⟨s2, last2⟩, d, r⟩ := y
    simp only at h1 h2 h3 ⊢
    subst h1 h3
    refine ⟨hI, ?_, trivial, fun h => absurd rfl h⟩
    intro pre h
    simp only [bufM] at h ⊢
    rw [← h2] at h
    simpa [List.append_assoc] using h
  · rw [if_neg hl]
    have hle : last = [] := List.eq_nil_of_length_eq_zero (by omega)
    subst hle
    obtain ⟨hI', hacct, hfin, hdat⟩ := normFetch_ok hst fuel s hI
    generalize normFetch step fuel s = y at hI' hacct hfin hdat ⊢
    obtain ⟨s', ch, r⟩ := y
    simp only at hI' hacct hfin hdat ⊢
    cases r with
    | ok =>
      simp only []
      obtain ⟨h1, h2, h3⟩ := normSplit_ok max s' ch
      generalize normSplit max s' ch = z at h1 h2 h3 ⊢
      obtain ⟨⟨s2, last2⟩, d, r⟩ := z
      simp only at h1 h2 h3 ⊢
      subst h1 h3
      refine ⟨hI', ?_, trivial, fun h => absurd rfl h⟩
      intro pre h
      simp only [bufM, List.nil_append] at h ⊢
      have := hacct pre h
      rw [← h2] at this
      simpa [List.append_assoc] using this
    | eof =>
      have hch : ch = [] := hdat (by simp)
      subst hch
      refine ⟨hI', ?_, hfin, fun _ => rfl⟩
      intro pre h
      simp only [bufM, List.nil_append] at h ⊢
      exact hacct pre h
    | err e =>
      have hch : ch = [] := hdat (by simp)
      subst hch
      refine ⟨hI', ?_, hfin, fun _ => rfl⟩
      intro pre h
      simp only [bufM, List.nil_append] at h ⊢
      exact hacct pre h

end BB.Validate

namespace BB.Validate

theorem cbrLoop_ok {σ : Type} {M : Mach σ} {step : Step σ} (hst : StepOK M step) :
    ∀ (fuel : Nat) (s : σ) (left : Nat) (got : List Nat), M.I s →
      M.I (cbrLoop step fuel s left got).1.1 ∧
      ∃ new, (cbrLoop step fuel s left got).2.1 = got ++ new ∧ new.length ≤ left ∧
        (∀ pre, pre ++ M.pend s = (M.core s).out →
          pre ++ new ++ ((cbrLoop step fuel s left got).1.2 ++ M.pend (cbrLoop step fuel s left got).1.1)
            = (M.core (cbrLoop step fuel s left got).1.1).out) ∧
        RFin (cbrLoop step fuel s left got).2.2 (M.core (cbrLoop step fuel s left got).1.1) := by
  intro fuel
  induction fuel with
  | zero =>
    intro s left got hI
    cases left with
    | zero => simp only [cbrLoop]; exact ⟨hI, [], by simp, by simp, fun pre h => by simpa using h, trivial⟩
    | succ n => simp only [cbrLoop]; exact ⟨hI, [], by simp, by simp, fun pre h => by simpa using h, Or.inl trivial⟩
  | succ f ih =>
    intro s left got hI
    cases left with
    | zero => simp only [cbrLoop]; exact ⟨hI, [], by simp, by simp, fun pre h => by simpa using h, trivial⟩
    | succ n =>
      simp only [cbrLoop]
      obtain ⟨hI', hacct, hfin, hdat⟩ := hst s hI
      generalize step s = x at hI' hacct hfin hdat ⊢
      obtain ⟨s', ch, r⟩ := x
      simp only at hI' hacct hfin hdat ⊢
      cases r with
      | ok =>
        simp only []
        by_cases hl : ch.length > n + 1
        · rw [if_pos hl]
          refine ⟨hI', ch.take (n+1), rfl, by simp only [List.length_take]; omega, ?_, trivial⟩
          intro pre h
          have := hacct pre h
          show pre ++ List.take (n + 1) ch ++ (List.drop (n + 1) ch ++ M.pend s') = (M.core s').out
          rw [← List.append_assoc, List.append_assoc pre, List.take_append_drop]
          exact this
        · rw [if_neg hl]
          obtain ⟨hI2, new, hgot, hle, hacct2, hres⟩ := ih s' (n + 1 - ch.length) (got ++ ch) hI'
          refine ⟨hI2, ch ++ new, by rw [hgot, List.append_assoc], ?_, ?_, hres⟩
          · simp only [List.length_append]; omega
          · intro pre h
            have := hacct2 (pre ++ ch) (hacct pre h)
            simpa [List.append_assoc] using this
      | eof =>
        have hch : ch = [] := hdat (by simp)
        subst hch
        simp only []
        exact ⟨hI', [], by simp, by simp, fun pre h => by simpa using hacct pre h, hfin⟩
      | err e =>
        have hch : ch = [] := hdat (by simp)
        subst hch
        simp only []
        exact ⟨hI', [], by simp, by simp, fun pre h => by simpa using hacct pre h, hfin⟩

theorem cbrRead_ok {σ : Type} {M : Mach σ} {step : Step σ} (hst : StepOK M step) (fuel : Nat) :
    RdOK (bufM M) (cbrRead step fuel) := by
  intro x cap hI
  obtain ⟨s, last⟩ := x
  simp only [cbrRead]
  by_cases hl : cap < last.length
  · rw [if_pos hl]
    refine ⟨hI, ?_, trivial, by simp only [List.length_take]; omega⟩
    intro pre h
    simp only [bufM] at h ⊢
    simp only [List.append_assoc]
    rw [← h]
    congr 1
    rw [← List.append_assoc, List.take_append_drop]
  · rw [if_neg hl]
    obtain ⟨hI', new, hgot, hle, hacct, hres⟩ := cbrLoop_ok hst fuel s (cap - last.length) last hI
    generalize cbrLoop step fuel s (cap - last.length) last = y at hI' hgot hle hacct hres ⊢
    obtain ⟨⟨s', last'⟩, got, r⟩ := y
    simp only at hI' hgot hle hacct hres ⊢
    subst hgot
    refine ⟨hI', ?_, hres, by simp only [List.length_append]; omega⟩
    intro pre h
    simp only [bufM] at h ⊢
    have := hacct (pre ++ last) (by rw [List.append_assoc]; exact h)
    simpa [List.append_assoc] using this

end BB.Validate
