import BB.Model.Digest
/-!
Helper lemmas for C20, part 1: the order on packed digests and the set operations.
-/
namespace BB.Digest

/-! ### `strLt` is a strict total order -/

theorem strLt_irrefl (a : Str) : strLt a a = false := by
  induction a with
  | nil => rfl
  | cons x xs ih => simp [strLt, Char.lt_irrefl, ih]

theorem strLt_trans : ∀ {a b c : Str}, strLt a b = true → strLt b c = true → strLt a c = true
  | [], [], _, h, _ => by simp [strLt] at h
  | [], _ :: _, [], _, h => by simp [strLt] at h
  | [], _ :: _, _ :: _, _, _ => by simp [strLt]
  | _ :: _, [], _, h, _ => by simp [strLt] at h
  | _ :: _, _ :: _, [], _, h => by simp [strLt] at h
  | x :: xs, y :: ys, z :: zs, h1, h2 => by
    simp only [strLt] at h1 h2 ⊢
    by_cases hxy : x < y
    · by_cases hyz : y < z
      · simp [Char.lt_trans hxy hyz]
      · simp only [hyz, if_false] at h2
        by_cases hyz' : y = z
        · subst hyz'; simp [hxy]
        · simp [hyz'] at h2
    · simp only [hxy, if_false] at h1
      by_cases hxy' : x = y
      · subst hxy'
        simp only [if_true] at h1
        by_cases hxz : x < z
        · simp [hxz]
        · simp only [hxz, if_false] at h2 ⊢
          by_cases hxz' : x = z
          · subst hxz'; simp only [if_true] at h2 ⊢; exact strLt_trans h1 h2
          · simp [hxz'] at h2
      · simp [hxy'] at h1

theorem strLt_total : ∀ {a b : Str}, strLt a b = false → strLt b a = false → a = b
  | [], [], _, _ => rfl
  | [], _ :: _, h, _ => by simp [strLt] at h
  | _ :: _, [], _, h => by simp [strLt] at h
  | x :: xs, y :: ys, h1, h2 => by
    simp only [strLt] at h1 h2
    by_cases hxy : x < y
    · simp [hxy] at h1
    · by_cases hyx : y < x
      · simp [hyx] at h2
      · have hxy' : x = y := Char.le_antisymm (Char.not_lt.mp hyx) (Char.not_lt.mp hxy)
        subst hxy'
        simp only [hxy, if_false, if_true] at h1 h2
        rw [strLt_total h1 h2]

theorem strLt_asymm {a b : Str} (h : strLt a b = true) : strLt b a = false := by
  cases hba : strLt b a with
  | false => rfl
  | true => have := strLt_trans h hba; rw [strLt_irrefl] at this; cases this

theorem strLt_ne {a b : Str} (h : strLt a b = true) : a ≠ b := by
  intro e; subst e; rw [strLt_irrefl] at h; cases h

/-- Sorted and duplicate free: every element is strictly below every later one. -/
def Sorted (l : List Str) : Prop := List.Pairwise (fun a b => strLt a b = true) l

theorem Sorted.nodup {l : List Str} (h : Sorted l) : l.Nodup :=
  List.Pairwise.imp (fun hab => strLt_ne hab) h

theorem Sorted.tail {x : Str} {l : List Str} (h : Sorted (x :: l)) : Sorted l :=
  (List.pairwise_cons.mp h).2

theorem Sorted.head_lt {x : Str} {l : List Str} (h : Sorted (x :: l)) : ∀ y ∈ l, strLt x y = true :=
  (List.pairwise_cons.mp h).1

theorem Sorted.not_mem_head {x : Str} {l : List Str} (h : Sorted (x :: l)) : x ∉ l :=
  fun hx => strLt_ne (h.head_lt x hx) rfl

theorem Sorted.filter {l : List Str} (p : Str → Bool) (h : Sorted l) : Sorted (l.filter p) :=
  List.Pairwise.filter p h

/-- A sorted duplicate-free list is determined by its members.  (This is why any correct
"sort + remove duplicates" - Go's hash map followed by `slices.SortFunc`, or the heap merge of
`GetUnion` - coincides with the model's insertion / fold of merges.) -/
theorem sorted_ext : ∀ {a b : List Str}, Sorted a → Sorted b → (∀ x, x ∈ a ↔ x ∈ b) → a = b
  | [], [], _, _, _ => rfl
  | [], y :: _, _, _, h => by have := (h y).2 (by simp); simp at this
  | x :: _, [], _, _, h => by have := (h x).1 (by simp); simp at this
  | x :: xs, y :: ys, ha, hb, h => by
    have hxy : x = y := by
      have hx : x ∈ y :: ys := (h x).1 (by simp)
      have hy : y ∈ x :: xs := (h y).2 (by simp)
      rcases List.mem_cons.mp hx with e | hx'
      · exact e
      · rcases List.mem_cons.mp hy with e | hy'
        · exact e.symm
        · have h1 := hb.head_lt x hx'
          have h2 := ha.head_lt y hy'
          rw [strLt_asymm h1] at h2; cases h2
    subst hxy
    have : xs = ys := sorted_ext ha.tail hb.tail (by
      intro z
      constructor
      · intro hz
        have : z ∈ x :: ys := (h z).1 (List.mem_cons_of_mem _ hz)
        rcases List.mem_cons.mp this with e | h'
        · subst e; exact absurd hz ha.not_mem_head
        · exact h'
      · intro hz
        have : z ∈ x :: xs := (h z).2 (List.mem_cons_of_mem _ hz)
        rcases List.mem_cons.mp this with e | h'
        · subst e; exact absurd hz hb.not_mem_head
        · exact h')
    rw [this]

/-! ### `SetBuilder` -/

theorem mem_insertSorted (x : Str) (l : List Str) (y : Str) :
    y ∈ insertSorted x l ↔ y = x ∨ y ∈ l := by
  induction l with
  | nil => simp [insertSorted]
  | cons z zs ih =>
    simp only [insertSorted]
    by_cases h1 : strLt x z = true
    · rw [if_pos h1]; simp
    · rw [if_neg h1]
      by_cases h2 : x = z
      · rw [if_pos h2]; subst h2; simp
      · rw [if_neg h2, List.mem_cons, ih, List.mem_cons]; grind

theorem sorted_insertSorted (x : Str) (l : List Str) (h : Sorted l) : Sorted (insertSorted x l) := by
  induction l with
  | nil => simp [insertSorted, Sorted]
  | cons z zs ih =>
    simp only [insertSorted]
    by_cases h1 : strLt x z = true
    · rw [if_pos h1]
      refine List.pairwise_cons.mpr ⟨?_, h⟩
      intro y hy
      rcases List.mem_cons.mp hy with e | hy'
      · subst e; exact h1
      · exact strLt_trans h1 (h.head_lt y hy')
    · rw [if_neg h1]
      by_cases h2 : x = z
      · rw [if_pos h2]; exact h
      · rw [if_neg h2]
        refine List.pairwise_cons.mpr ⟨?_, ih h.tail⟩
        intro y hy
        rcases (mem_insertSorted x zs y).mp hy with e | hy'
        · subst e
          cases hzx : strLt z y with
          | true => rfl
          | false =>
            have := strLt_total (by simpa using h1) hzx
            exact absurd this h2
        · exact h.head_lt y hy'

theorem build_spec_aux (xs : List Str) : ∀ acc, Sorted acc →
    Sorted (xs.foldl (fun acc x => insertSorted x acc) acc) ∧
    ∀ y, y ∈ xs.foldl (fun acc x => insertSorted x acc) acc ↔ y ∈ acc ∨ y ∈ xs := by
  induction xs with
  | nil => intro acc h; simp [h]
  | cons x xs ih =>
    intro acc h
    have := ih (insertSorted x acc) (sorted_insertSorted x acc h)
    refine ⟨this.1, ?_⟩
    intro y
    rw [List.foldl_cons, this.2 y, mem_insertSorted, List.mem_cons]; grind

theorem build_sorted (xs : List Str) : Sorted (build xs) :=
  (build_spec_aux xs [] List.Pairwise.nil).1

theorem mem_build (xs : List Str) (y : Str) : y ∈ build xs ↔ y ∈ xs := by
  have := (build_spec_aux xs [] List.Pairwise.nil).2 y
  simpa [build] using this

/-! ### `GetDifferenceAndIntersection` -/

theorem pair_ext {α β : Type} {a a' : α} {b b' : β} (h1 : a = a') (h2 : b = b') : (a, b) = (a', b') := by
  rw [h1, h2]

theorem daiFuel_spec : ∀ (fuel : Nat) (a b : List Str), a.length + b.length ≤ fuel → Sorted a → Sorted b →
    daiFuel fuel a b = (a.filter (fun d => !decide (d ∈ b)), a.filter (fun d => decide (d ∈ b)),
      b.filter (fun d => !decide (d ∈ a)))
  | 0, a, b, hf, _, _ => by
    have ha : a = [] := List.eq_nil_of_length_eq_zero (by omega)
    have hb : b = [] := List.eq_nil_of_length_eq_zero (by omega)
    subst ha hb; simp [daiFuel]
  | _ + 1, [], b, _, _, _ => by
    simp only [daiFuel, List.filter_nil, List.not_mem_nil, decide_false, Bool.not_false]
    rw [List.filter_eq_self.mpr (by simp)]
  | _ + 1, x :: a, [], _, _, _ => by
    simp only [daiFuel, List.filter_nil, List.not_mem_nil, decide_false, Bool.not_false]
    rw [List.filter_eq_self.mpr (by simp), List.filter_eq_nil_iff.mpr (by simp)]
  | fuel + 1, x :: a, y :: b, hf, ha, hb => by
    simp only [daiFuel]
    have hxa : ∀ d ∈ a, strLt x d = true := ha.head_lt
    have hyb : ∀ d ∈ b, strLt y d = true := hb.head_lt
    simp only [List.length_cons] at hf
    by_cases h1 : strLt x y = true
    · -- x is below everything in y :: b
      have hxb : x ∉ y :: b := by
        intro hm
        rcases List.mem_cons.mp hm with e | hm'
        · exact strLt_ne h1 e
        · exact strLt_ne (strLt_trans h1 (hyb x hm')) rfl
      have ih := daiFuel_spec fuel a (y :: b) (by simp only [List.length_cons]; omega) ha.tail hb
      rw [if_pos h1, ih]; dsimp only
      refine pair_ext ?_ (pair_ext ?_ ?_)
      · rw [List.filter_cons, if_pos (by simpa using hxb)]
      · rw [List.filter_cons, if_neg (by simpa using hxb)]
      · apply List.filter_congr
        intro d hd
        have : d ≠ x := fun e => hxb (e ▸ hd)
        simp [this]
    · rw [if_neg h1]
      by_cases h2 : x = y
      · subst h2
        have ih := daiFuel_spec fuel a b (by omega) ha.tail hb.tail
        rw [if_pos rfl, ih]; dsimp only
        refine pair_ext ?_ (pair_ext ?_ ?_)
        · rw [List.filter_cons, if_neg (by simp)]
          apply List.filter_congr
          intro d hd
          have : d ≠ x := fun e => ha.not_mem_head (e ▸ hd)
          simp [this]
        · rw [List.filter_cons, if_pos (by simp)]
          congr 1
          apply List.filter_congr
          intro d hd
          have : d ≠ x := fun e => ha.not_mem_head (e ▸ hd)
          simp [this]
        · rw [List.filter_cons, if_neg (by simp)]
          apply List.filter_congr
          intro d hd
          have : d ≠ x := fun e => hb.not_mem_head (e ▸ hd)
          simp [this]
      · have h3 : strLt y x = true := by
          cases h : strLt y x with
          | true => rfl
          | false => exact absurd (strLt_total (by simpa using h1) h) h2
        have hya : y ∉ x :: a := by
          intro hm
          rcases List.mem_cons.mp hm with e | hm'
          · exact h2 e.symm
          · exact strLt_ne (strLt_trans h3 (hxa y hm')) rfl
        have ih := daiFuel_spec fuel (x :: a) b (by simp only [List.length_cons]; omega) ha hb.tail
        rw [if_neg h2, ih]; dsimp only
        refine pair_ext ?_ (pair_ext ?_ ?_)
        · apply List.filter_congr
          intro d hd
          have : d ≠ y := fun e => hya (e ▸ hd)
          simp [this]
        · apply List.filter_congr
          intro d hd
          have : d ≠ y := fun e => hya (e ▸ hd)
          simp [this]
        · rw [List.filter_cons, if_pos (by simpa using hya)]

theorem dai_spec (a b : List Str) (ha : Sorted a) (hb : Sorted b) :
    differenceAndIntersection a b = (a.filter (fun d => !decide (d ∈ b)), a.filter (fun d => decide (d ∈ b)),
      b.filter (fun d => !decide (d ∈ a))) :=
  daiFuel_spec _ a b (Nat.le_refl _) ha hb

/-! ### `GetUnion` -/

theorem mergeFuel_spec : ∀ (fuel : Nat) (a b : List Str), a.length + b.length ≤ fuel → Sorted a → Sorted b →
    Sorted (mergeFuel fuel a b) ∧ ∀ d, d ∈ mergeFuel fuel a b ↔ d ∈ a ∨ d ∈ b
  | 0, a, b, hf, _, _ => by
    have ha : a = [] := List.eq_nil_of_length_eq_zero (by omega)
    have hb : b = [] := List.eq_nil_of_length_eq_zero (by omega)
    subst ha hb; simp [mergeFuel, Sorted]
  | _ + 1, [], b, _, _, hb => by simp [mergeFuel, hb]
  | _ + 1, x :: a, [], _, ha, _ => by simp [mergeFuel, ha]
  | fuel + 1, x :: a, y :: b, hf, ha, hb => by
    simp only [mergeFuel]
    have hxa : ∀ d ∈ a, strLt x d = true := ha.head_lt
    have hyb : ∀ d ∈ b, strLt y d = true := hb.head_lt
    by_cases h1 : strLt x y = true
    · have ih := mergeFuel_spec fuel a (y :: b) (by simp only [List.length_cons] at hf ⊢; omega) ha.tail hb
      rw [if_pos h1]
      refine ⟨List.pairwise_cons.mpr ⟨?_, ih.1⟩, ?_⟩
      · intro d hd
        rcases (ih.2 d).mp hd with h | h
        · exact hxa d h
        · rcases List.mem_cons.mp h with e | h'
          · subst e; exact h1
          · exact strLt_trans h1 (hyb d h')
      · intro d
        rw [List.mem_cons, ih.2 d, List.mem_cons, List.mem_cons]; grind
    · rw [if_neg h1]
      by_cases h2 : x = y
      · subst h2
        have ih := mergeFuel_spec fuel a b (by simp only [List.length_cons] at hf ⊢; omega) ha.tail hb.tail
        rw [if_pos rfl]
        refine ⟨List.pairwise_cons.mpr ⟨?_, ih.1⟩, ?_⟩
        · intro d hd
          rcases (ih.2 d).mp hd with h | h
          · exact hxa d h
          · exact hyb d h
        · intro d
          rw [List.mem_cons, ih.2 d, List.mem_cons, List.mem_cons]; grind
      · have h3 : strLt y x = true := by
          cases h : strLt y x with
          | true => rfl
          | false => exact absurd (strLt_total (by simpa using h1) h) h2
        have ih := mergeFuel_spec fuel (x :: a) b (by simp only [List.length_cons] at hf ⊢; omega) ha hb.tail
        rw [if_neg h2]
        refine ⟨List.pairwise_cons.mpr ⟨?_, ih.1⟩, ?_⟩
        · intro d hd
          rcases (ih.2 d).mp hd with h | h
          · rcases List.mem_cons.mp h with e | h'
            · subst e; exact h3
            · exact strLt_trans h3 (hxa d h')
          · exact hyb d h
        · intro d
          rw [List.mem_cons, ih.2 d, List.mem_cons, List.mem_cons]; grind

theorem merge_spec (a b : List Str) (ha : Sorted a) (hb : Sorted b) :
    Sorted (merge a b) ∧ ∀ d, d ∈ merge a b ↔ d ∈ a ∨ d ∈ b :=
  mergeFuel_spec _ a b (Nat.le_refl _) ha hb

theorem union_spec_aux (sets : List (List Str)) : ∀ acc, Sorted acc → (∀ s ∈ sets, Sorted s) →
    Sorted (sets.foldl merge acc) ∧ ∀ d, d ∈ sets.foldl merge acc ↔ d ∈ acc ∨ ∃ s ∈ sets, d ∈ s := by
  induction sets with
  | nil => intro acc h _; simp [h]
  | cons s rest ih =>
    intro acc h hs
    have hm := merge_spec acc s h (hs s (by simp))
    have := ih (merge acc s) hm.1 (fun t ht => hs t (List.mem_cons_of_mem _ ht))
    refine ⟨this.1, ?_⟩
    intro d
    rw [List.foldl_cons, this.2 d, hm.2 d]
    simp only [List.mem_cons, exists_eq_or_imp]; grind

theorem union_spec (sets : List (List Str)) (hs : ∀ s ∈ sets, Sorted s) :
    Sorted (union sets) ∧ ∀ d, d ∈ union sets ↔ ∃ s ∈ sets, d ∈ s := by
  have := union_spec_aux sets [] List.Pairwise.nil hs
  refine ⟨this.1, fun d => ?_⟩
  have h := this.2 d
  simpa [union] using h

/-! ### `RemoveEmptyBlob` -/

theorem removeEmptyBlob_eq_filter (s : List Str) :
    removeEmptyBlob s = s.filter (fun d => !isEmptyBlob d) := by
  induction s with
  | nil => rfl
  | cons d ds ih =>
    simp only [removeEmptyBlob, List.filter_cons]
    by_cases h : isEmptyBlob d = true
    · simp [h]
    · simp [h, ih]

/-! ### `PartitionByInstanceName` -/

section Partition
variable {κ : Type} [DecidableEq κ]

/-- Keep the first occurrence of every key. -/
def firstOcc : List κ → List κ
  | [] => []
  | k :: ks => k :: (firstOcc ks).filter (fun x => !decide (x = k))

def groupOf (k : κ) (gs : List (κ × List Str)) : List Str :=
  match gs.find? (fun g => g.1 = k) with
  | some g => g.2
  | none => []

theorem keys_addToGroup (k : κ) (d : Str) (gs : List (κ × List Str)) :
    (addToGroup k d gs).map (·.1) =
      if k ∈ gs.map (·.1) then gs.map (·.1) else gs.map (·.1) ++ [k] := by
  induction gs with
  | nil => simp [addToGroup]
  | cons g rest ih =>
    obtain ⟨k', g'⟩ := g
    simp only [addToGroup]
    by_cases h : k' = k
    · subst h; simp
    · have h' : ¬ k = k' := fun e => h e.symm
      simp only [h, if_false, List.map_cons, ih, List.mem_cons, h', false_or]
      by_cases hm : k ∈ rest.map (·.1)
      · simp [hm]
      · simp [hm]

theorem groupOf_addToGroup (k k' : κ) (d : Str) (gs : List (κ × List Str)) :
    groupOf k (addToGroup k' d gs) = if k = k' then groupOf k gs ++ [d] else groupOf k gs := by
  induction gs with
  | nil =>
    by_cases h : k = k'
    · subst h; simp [addToGroup, groupOf]
    · have h' : ¬ k' = k := fun e => h e.symm
      simp [addToGroup, groupOf, h, h']
  | cons g rest ih =>
    obtain ⟨k₀, g₀⟩ := g
    simp only [addToGroup]
    by_cases h0 : k₀ = k'
    · subst h0
      by_cases h : k = k₀
      · subst h; simp [groupOf]
      · have h' : ¬ k₀ = k := fun e => h e.symm
        simp [groupOf, h, h']
    · simp only [h0, if_false]
      by_cases h : k₀ = k
      · subst h
        have : ¬ k₀ = k' := h0
        simp [groupOf, this]
      · have e1 : groupOf k ((k₀, g₀) :: addToGroup k' d rest) = groupOf k (addToGroup k' d rest) := by
          simp [groupOf, h]
        have e2 : groupOf k ((k₀, g₀) :: rest) = groupOf k rest := by simp [groupOf, h]
        rw [e1, e2, ih]

theorem partition_keys_aux (key : Str → κ) (s : List Str) : ∀ acc : List (κ × List Str),
    (s.foldl (fun acc d => addToGroup (key d) d acc) acc).map (·.1) =
      acc.map (·.1) ++ (firstOcc (s.map key)).filter (fun x => !decide (x ∈ acc.map (·.1))) := by
  induction s with
  | nil => intro acc; simp [firstOcc]
  | cons d ds ih =>
    intro acc
    rw [List.foldl_cons, ih, keys_addToGroup]
    simp only [List.map_cons, firstOcc]
    by_cases hm : key d ∈ acc.map (·.1)
    · simp only [hm, if_true, List.filter_cons, decide_true, Bool.not_true, Bool.false_eq_true, if_false,
        List.filter_filter]
      congr 1
      apply List.filter_congr
      intro x _
      by_cases hx : x ∈ acc.map (·.1)
      · simp [hx]
      · have : x ≠ key d := fun e => hx (e ▸ hm)
        simp [hx, this]
    · simp only [hm, if_false, List.filter_cons, decide_false, Bool.not_false, if_true,
        List.filter_filter, List.append_assoc, List.singleton_append]
      congr 2
      apply List.filter_congr
      intro x _
      simp only [List.mem_append, List.mem_singleton, Bool.and_comm]
      by_cases hx : x ∈ acc.map (·.1)
      · simp [hx]
      · by_cases hk : x = key d
        · simp [hk]
        · simp [hx, hk]

theorem partition_keys (key : Str → κ) (s : List Str) :
    (partitionBy key s).map (·.1) = firstOcc (s.map key) := by
  have := partition_keys_aux key s []
  rw [partitionBy, this]
  simp only [List.map_nil, List.nil_append, List.not_mem_nil, decide_false, Bool.not_false]
  exact List.filter_eq_self.mpr (fun _ _ => rfl)

theorem partition_group_aux (key : Str → κ) (k : κ) (s : List Str) : ∀ acc : List (κ × List Str),
    groupOf k (s.foldl (fun acc d => addToGroup (key d) d acc) acc) =
      groupOf k acc ++ s.filter (fun d => decide (key d = k)) := by
  induction s with
  | nil => intro acc; simp
  | cons d ds ih =>
    intro acc
    rw [List.foldl_cons, ih, groupOf_addToGroup]
    by_cases h : k = key d
    · subst h; simp
    · have h' : ¬ key d = k := fun e => h e.symm
      simp [h, h']

theorem firstOcc_nodup : ∀ ks : List κ, (firstOcc ks).Nodup
  | [] => List.nodup_nil
  | k :: ks => by
    simp only [firstOcc]
    refine List.nodup_cons.mpr ⟨?_, (firstOcc_nodup ks).filter _⟩
    simp [List.mem_filter]

theorem mem_firstOcc : ∀ (ks : List κ) (x : κ), x ∈ firstOcc ks ↔ x ∈ ks
  | [], x => by simp [firstOcc]
  | k :: ks, x => by
    simp only [firstOcc, List.mem_cons, List.mem_filter, mem_firstOcc ks x]
    by_cases h : x = k
    · simp [h]
    · simp [h]

/-- With distinct keys, the group stored under a key is the one `groupOf` finds. -/
theorem group_eq_groupOf : ∀ (gs : List (κ × List Str)), (gs.map (·.1)).Nodup →
    ∀ g ∈ gs, g.2 = groupOf g.1 gs
  | [], _, g, hg => by simp at hg
  | g₀ :: rest, hn, g, hg => by
    rcases List.mem_cons.mp hg with e | hg'
    · subst e; simp [groupOf]
    · have hn' : g₀.1 ∉ rest.map (·.1) ∧ (rest.map (·.1)).Nodup := List.nodup_cons.mp hn
      have hne : ¬ g₀.1 = g.1 := by
        intro e
        apply hn'.1
        rw [e]
        exact List.mem_map.mpr ⟨g, hg', rfl⟩
      have := group_eq_groupOf rest hn'.2 g hg'
      rw [this]
      simp [groupOf, hne]

theorem partition_groups (key : Str → κ) (s : List Str) :
    ∀ g ∈ partitionBy key s, g.2 = s.filter (fun d => decide (key d = g.1)) ∧ g.2 ≠ [] := by
  intro g hg
  have hk := partition_keys key s
  have hn : ((partitionBy key s).map (·.1)).Nodup := by rw [hk]; exact firstOcc_nodup _
  have h1 := group_eq_groupOf _ hn g hg
  have h2 := partition_group_aux key g.1 s []
  have h3 : g.2 = s.filter (fun d => decide (key d = g.1)) := by
    rw [h1]; simpa [partitionBy, groupOf] using h2
  refine ⟨h3, ?_⟩
  -- the key occurs in s
  have hmem : g.1 ∈ firstOcc (s.map key) := by rw [← hk]; exact List.mem_map.mpr ⟨g, hg, rfl⟩
  rw [mem_firstOcc] at hmem
  obtain ⟨d, hd, hdk⟩ := List.mem_map.mp hmem
  rw [h3]
  intro he
  have : d ∈ s.filter (fun d => decide (key d = g.1)) := List.mem_filter.mpr ⟨hd, by simp [hdk]⟩
  rw [he] at this; cases this

end Partition

end BB.Digest
