import BB.Proofs.DigestPack
import BB.Proofs.DigestTable
/-!
Helper lemmas for C20, part 5: the codecs accept what the formatters produce.
-/
namespace BB.Digest
open BB.Gen.Digest

/-- A hash acceptable for function `f`: the right length, lower-case hexadecimal. -/
def ValidHash (f : BareFn) (hash : Str) : Prop := hash.length = 2 * f.hashBytes ∧ hash.all isLowerHex = true

/-- Components of a valid instance name: non-empty, slash-free, not a reserved keyword. -/
def ValidComps (cs : List Str) : Prop := ∀ c ∈ cs, Comp c ∧ isReserved c = false

/-- No component is `.` or `..`. -/
def DotFree (cs : List Str) : Prop := ∀ c ∈ cs, NoDot c

theorem ValidHash.notDash {f : BareFn} {hash : Str} (h : ValidHash f hash) : ∀ c ∈ hash, notDash c = true :=
  fun c hc => notDash_of_ne (isLowerHex_ne (List.all_eq_true.mp h.2 c hc)).1

theorem ValidHash.long {f : BareFn} {hash : Str} (hf : KnownFn f) (h : ValidHash f hash) :
    shortestSupportedHashStringSize ≤ hash.length := by rw [h.1]; exact hf.facts.2.2

theorem ValidHash.comp {f : BareFn} {hash : Str} (hf : KnownFn f) (h : ValidHash f hash) :
    Comp hash ∧ NoDot hash ∧ hash.head? ≠ some '/' := by
  have hlong := h.long hf
  have hne : hash ≠ [] := by
    intro e; rw [e] at hlong; exact absurd hlong (by decide)
  have hall := List.all_eq_true.mp h.2
  refine ⟨⟨hne, fun hm => (isLowerHex_ne (hall _ hm)).2.1 rfl⟩, ⟨?_, ?_⟩, ?_⟩
  · intro e; exact (isLowerHex_ne (hall '.' (by rw [e]; simp [dot]))).2.2 rfl
  · intro e; exact (isLowerHex_ne (hall '.' (by rw [e]; simp [dotdot]))).2.2 rfl
  · cases hash with
    | nil => simp
    | cons a t =>
      simp only [List.head?_cons, ne_eq, Option.some.injEq]
      exact (isLowerHex_ne (hall a (by simp))).2.1

theorem toDec_comp (n : Nat) : Comp (toDec n) ∧ NoDot (toDec n) ∧ (toDec n).head? ≠ some '/' := by
  have hd := toDec_digits n
  have hne := toDec_ne_nil n
  refine ⟨⟨hne, fun hm => (isDigit_ne (hd _ hm)).2.2.1 rfl⟩, ⟨?_, ?_⟩, ?_⟩
  · intro e; exact (isDigit_ne (hd '.' (by rw [e]; simp [dot]))).2.2.2 rfl
  · intro e; exact (isDigit_ne (hd '.' (by rw [e]; simp [dotdot]))).2.2.2 rfl
  · cases h : toDec n with
    | nil => simp
    | cons a t =>
      simp only [List.head?_cons, ne_eq, Option.some.injEq]
      exact (isDigit_ne (hd a (by rw [h]; simp))).2.2.1

theorem newDigest_valid (f : BareFn) (inst hash : Str) (size : Nat) (h : ValidHash f hash) :
    newDigest f inst hash (size : Int) = .ok (pack f.enum hash size inst) := by
  have hneg : ¬ ((size : Int) < 0) := by omega
  simp [newDigest, h.1, h.2, hneg]

theorem validateComponents_valid : ∀ (cs : List Str), ValidComps cs → validateComponents cs = .ok ()
  | [], _ => rfl
  | c :: cs, h => by
    have hc := h c (by simp)
    have hne : c.isEmpty = false := by simpa using hc.1.1
    simp only [validateComponents, hne, hc.2, Bool.false_eq_true, if_false]
    exact validateComponents_valid cs (fun x hx => h x (List.mem_cons_of_mem _ hx))

theorem instFromComponents_valid (cs : List Str) (h : ValidComps cs) :
    instFromComponents cs = .ok (join cs) := by
  simp [instFromComponents, validateComponents_valid cs h]

/-- The common tail of both parsers on what the formatters emit (plus arbitrary trailing
fields, which the write path allows). -/
theorem common_valid {f : BareFn} (hf : SupportedFn f) {hash : Str} (hh : ValidHash f hash)
    {size : Nat} (hs : size < 2 ^ 63) {comps : List Str} (hc : ValidComps comps)
    {c : Nat} (hcp : SupportedCompressor c) (extra : List Str) :
    common comps (fields (compressorMidfix c) ++ (fields (fnMidfix f.enum) ++ (hash :: toDec size :: extra)))
      = .ok (pack f.enum hash size (join comps), c) := by
  have hi := instFromComponents_valid comps hc
  have hp := parseInt64_toDec size hs
  have hn := newDigest_valid f (join comps) hash size hh
  have facts := hf.facts
  have cfacts := hcp.facts
  by_cases ht : midfixThreshold < f.enum
  · obtain ⟨h1, _, _, h4⟩ := facts.explicit ht
    rcases cfacts.shape with ⟨hc0, hsh⟩ | ⟨hc0, name, hsh, hname⟩
    · subst hc0
      rw [hsh, h1]
      simp [common, stripCompression, resolveFunction, finishDigest, hi, h4, hp, hn]
    · rw [hsh, h1]
      simp [common, stripCompression, resolveFunction, finishDigest, hi, h4, hp, hn, (table_keywords).2.2.2.1.symm, hname]
  · obtain ⟨h1, h2⟩ := facts.inferred ht
    have hnone := fnByName_hex hh.2
    rcases cfacts.shape with ⟨hc0, hsh⟩ | ⟨hc0, name, hsh, hname⟩
    · subst hc0
      rw [hsh, h1, fields_nil]
      simp [common, stripCompression, resolveFunction, finishDigest, hi, hnone, hh.1, h2, hp, hn]
    · rw [hsh, h1, fields_nil]
      simp [common, stripCompression, resolveFunction, finishDigest, hi, hnone, hh.1, h2, hp, hn, (table_keywords).2.2.2.1.symm, hname]

theorem Comp.head_ne {w : Str} (h : Comp w) : w.head? ≠ some '/' := by
  cases w with
  | nil => simp
  | cons a t =>
    simp only [List.head?_cons, ne_eq, Option.some.injEq]
    intro e; exact h.2 (e ▸ List.mem_cons_self)

theorem ValidComps.comp {cs : List Str} (h : ValidComps cs) : ∀ c ∈ cs, Comp c := fun c hc => (h c hc).1

theorem join_comps_head {cs : List Str} (h : ∀ c ∈ cs, Comp c) : (join cs).head? ≠ some '/' := by
  cases cs with
  | nil => simp [join]
  | cons c rest =>
    have hc := h c (by simp)
    rw [join_head c rest hc.1]; exact hc.head_ne

/-- The search loops of both parsers skip the instance name components and stop at the marker. -/
theorem findSplit_skip (isMarker : Str → Bool) (k : Nat) (m : Str) (rest : List Str)
    (hm : isMarker m = true) (hk : k ≤ rest.length + 1) :
    ∀ (comps hdrRev : List Str), (∀ c ∈ comps, isMarker c = false) →
    findSplit isMarker k hdrRev (comps ++ m :: rest) = .ok (hdrRev.reverse ++ comps, m :: rest)
  | [], hdrRev, _ => by simp [findSplit, hm]
  | c :: cs, hdrRev, h => by
    have hc : isMarker c = false := h c (by simp)
    have hlen : ¬ ((cs ++ m :: rest).length < k) := by
      simp only [List.length_append, List.length_cons]; omega
    simp only [List.cons_append, findSplit, hc, Bool.false_eq_true, if_false, hlen]
    rw [findSplit_skip isMarker k m rest hm hk cs (c :: hdrRev) (fun x hx => h x (List.mem_cons_of_mem _ hx))]
    simp

/-- What follows the instance name in a formatted resource name. -/
def trailerOf (f : BareFn) (hash : Str) (size : Nat) (c : Nat) : List Str :=
  fields (compressorMidfix c) ++ (fields (fnMidfix f.enum) ++ [hash, toDec size])

theorem trailerOf_shape {f : BareFn} {hash : Str} {size c : Nat} (hcp : SupportedCompressor c) :
    ∃ m rest, trailerOf f hash size c = m :: rest ∧ (m = kwBlobs ∨ m = kwCompressedBlobs) ∧ 2 ≤ rest.length := by
  rcases hcp.facts.shape with ⟨_, hsh⟩ | ⟨_, name, hsh, _⟩
  · exact ⟨kwBlobs, _, by rw [trailerOf, hsh]; rfl, Or.inl rfl, by simp⟩
  · exact ⟨kwCompressedBlobs, _, by rw [trailerOf, hsh]; rfl, Or.inr rfl, by simp⟩

theorem trailerOf_nodot {f : BareFn} (hf : SupportedFn f) {hash : Str} (hh : ValidHash f hash) {size c : Nat}
    (hcp : SupportedCompressor c) : ∀ k ∈ trailerOf f hash size c, NoDot k := by
  intro k hk
  simp only [trailerOf, List.mem_append, List.mem_cons, List.not_mem_nil, or_false] at hk
  rcases hk with hk | hk | hk | hk
  · exact hcp.facts.nodot k hk
  · by_cases ht : midfixThreshold < f.enum
    · obtain ⟨h1, h2, _, _⟩ := hf.facts.explicit ht
      rw [h1] at hk; simp only [List.mem_singleton] at hk; rw [hk]; exact h2
    · rw [(hf.facts.inferred ht).1, fields_nil] at hk; cases hk
  · rw [hk]; exact (hh.comp hf.known).2.1
  · rw [hk]; exact (toDec_comp size).2.1

theorem fnMidfix_head {f : BareFn} (hf : SupportedFn f) : (fnMidfix f.enum).head? ≠ some '/' := by
  by_cases ht : midfixThreshold < f.enum
  · exact (hf.facts.explicit ht).2.2.1
  · rw [(hf.facts.inferred ht).1]; simp

theorem unpack_valid {f : BareFn} (hf : KnownFn f) {hash : Str} (hh : ValidHash f hash) (size : Nat) (inst : Str) :
    unpack (pack f.enum hash size inst) = some (unpackedOf f.enum hash size) :=
  unpack_pack f.enum hf.facts.2.1 hash hh.notDash (hh.long hf) size inst

theorem readPathWith_valid (cleans : Bool) {f : BareFn} (hf : KnownFn f) {hash : Str} (hh : ValidHash f hash)
    (size : Nat) (inst : Str) (c : Nat) : readPathWith cleans (pack f.enum hash size inst) c =
      some (formatPathWith cleans [inst, compressorMidfix c, fnMidfix f.enum, hash, toDec size]) := by
  simp only [readPathWith, unpack_valid hf hh, Option.map_some, hashOf_pack, instOf_pack]
  rfl

theorem writePathWith_valid (cleans : Bool) {f : BareFn} (hf : KnownFn f) {hash : Str} (hh : ValidHash f hash)
    (size : Nat) (inst : Str) (uuid : Str) (c : Nat) : writePathWith cleans (pack f.enum hash size inst) uuid c =
      some (formatPathWith cleans [inst, kwUploads, uuid, compressorMidfix c, fnMidfix f.enum, hash, toDec size]) := by
  simp only [writePathWith, unpack_valid hf hh, Option.map_some, hashOf_pack, instOf_pack]
  rfl

theorem flatMap_fields_filter : ∀ es : List Str,
    (es.filter (fun e => !e.isEmpty)).flatMap fields = es.flatMap fields
  | [] => rfl
  | [] :: es => by
    simp only [List.filter_cons, List.isEmpty_nil, Bool.not_true, Bool.false_eq_true, if_false, List.flatMap_cons,
      fields_nil, List.nil_append]
    exact flatMap_fields_filter es
  | (c :: cs) :: es => by
    simp only [List.filter_cons, List.isEmpty_cons, Bool.not_false, if_true, List.flatMap_cons]
    rw [flatMap_fields_filter es]

/-- The fields of a formatted path are the fields of its elements: always for the plain join,
and for `path.Join` when there is nothing to clean. -/
theorem fields_formatPathWith (cleans : Bool) (elems : List Str) (hne : elems.flatMap fields ≠ [])
    (hdots : cleans = true → ∀ c ∈ elems.flatMap fields, NoDot c) (hroot : ∀ e ∈ elems, e.head? ≠ some '/') :
    fields (formatPathWith cleans elems) = elems.flatMap fields := by
  cases cleans with
  | true => simp only [formatPathWith, if_true]; exact fields_pathJoin elems hne (hdots rfl) hroot
  | false =>
    simp only [formatPathWith, Bool.false_eq_true, if_false]
    rw [fields_join, flatMap_fields_filter]

theorem comps_not_marker {comps : List Str} (hc : ValidComps comps) {m : Str} (hm : isReserved m = true) :
    ∀ c ∈ comps, c ≠ m := by
  intro c hcm e
  have := (hc c hcm).2
  rw [e, hm] at this; cases this

/-- The fields of a formatted read path (for `path.Join`: when it has nothing to clean). -/
theorem fields_readPath (cleans : Bool) {f : BareFn} (hf : SupportedFn f) {hash : Str} (hh : ValidHash f hash)
    (size : Nat) {comps : List Str} (hc : ValidComps comps) (hd : cleans = true → DotFree comps) {c : Nat}
    (hcp : SupportedCompressor c) :
    fields (formatPathWith cleans [join comps, compressorMidfix c, fnMidfix f.enum, hash, toDec size]) =
      comps ++ trailerOf f hash size c := by
  have hhc := hh.comp hf.known
  have hdc := toDec_comp size
  have hF : [join comps, compressorMidfix c, fnMidfix f.enum, hash, toDec size].flatMap fields =
      comps ++ trailerOf f hash size c := by
    simp only [List.flatMap_cons, List.flatMap_nil, List.append_nil, fields_join_comps comps hc.comp,
      fields_comp hhc.1, fields_comp hdc.1, trailerOf]
    simp
  have hne : comps ++ trailerOf f hash size c ≠ [] := by
    obtain ⟨m, rest, e, _, _⟩ := trailerOf_shape (f := f) (hash := hash) (size := size) hcp
    rw [e]; simp
  rw [fields_formatPathWith cleans _ (by rw [hF]; exact hne) ?_ ?_, hF]
  · intro hcl
    rw [hF]
    intro k hk
    rcases List.mem_append.mp hk with h | h
    · exact hd hcl k h
    · exact trailerOf_nodot hf hh hcp k h
  · intro e he
    simp only [List.mem_cons, List.not_mem_nil, or_false] at he
    rcases he with rfl | rfl | rfl | rfl | rfl
    · exact join_comps_head hc.comp
    · exact hcp.facts.head
    · exact fnMidfix_head hf
    · exact hhc.2.2
    · exact hdc.2.2

theorem parseRead_of_fields {f : BareFn} (hf : SupportedFn f) {hash : Str} (hh : ValidHash f hash)
    {size : Nat} (hs : size < 2 ^ 63) {comps : List Str} (hc : ValidComps comps)
    {c : Nat} (hcp : SupportedCompressor c) {p : Str} (hp : fields p = comps ++ trailerOf f hash size c) :
    parseRead p = .ok (pack f.enum hash size (join comps), c) := by
  obtain ⟨m, rest, e, hm, hlen⟩ := trailerOf_shape (f := f) (hash := hash) (size := size) hcp
  have hmark : isBlobsMarker m = true := by
    rcases hm with h | h <;> simp [isBlobsMarker, h]
  have hnm : ∀ x ∈ comps, isBlobsMarker x = false := by
    intro x hx
    have h1 := comps_not_marker hc table_keywords.1 x hx
    have h2 := comps_not_marker hc table_keywords.2.1 x hx
    simp [isBlobsMarker, h1, h2]
  have hsplit := findSplit_skip isBlobsMarker 3 m rest hmark (by omega) comps [] hnm
  have hl : ¬ ((comps ++ m :: rest).length < 3) := by
    simp only [List.length_append, List.length_cons]; omega
  have hcommon := common_valid hf hh hs hc hcp []
  rw [show fields (compressorMidfix c) ++ (fields (fnMidfix f.enum) ++ [hash, toDec size]) = m :: rest from e] at hcommon
  simp only [parseRead, hp, e, hl, if_false, hsplit, List.reverse_nil, List.nil_append, hcommon]

theorem parseWrite_of_fields {f : BareFn} (hf : SupportedFn f) {hash : Str} (hh : ValidHash f hash)
    {size : Nat} (hs : size < 2 ^ 63) {comps : List Str} (hc : ValidComps comps)
    {c : Nat} (hcp : SupportedCompressor c) (uuid : Str) (extra : List Str) {p : Str}
    (hp : fields p = comps ++ (kwUploads :: uuid :: (trailerOf f hash size c ++ extra))) :
    parseWrite p = .ok (pack f.enum hash size (join comps), c) := by
  obtain ⟨m, rest, e, hm, hlen⟩ := trailerOf_shape (f := f) (hash := hash) (size := size) hcp
  have hmark : isUploadsMarker kwUploads = true := by simp [isUploadsMarker]
  have hnm : ∀ x ∈ comps, isUploadsMarker x = false := by
    intro x hx
    have h1 := comps_not_marker hc table_keywords.2.2.1 x hx
    simp [isUploadsMarker, h1]
  have hk : 5 ≤ (uuid :: (trailerOf f hash size c ++ extra)).length + 1 := by
    rw [e]; simp only [List.length_cons, List.length_append]; omega
  have hsplit := findSplit_skip isUploadsMarker 5 kwUploads (uuid :: (trailerOf f hash size c ++ extra)) hmark hk comps [] hnm
  have hl : ¬ ((comps ++ (kwUploads :: uuid :: (trailerOf f hash size c ++ extra))).length < 5) := by
    rw [e]; simp only [List.length_append, List.length_cons]; omega
  have hcommon := common_valid hf hh hs hc hcp extra
  have he : trailerOf f hash size c ++ extra =
      fields (compressorMidfix c) ++ (fields (fnMidfix f.enum) ++ (hash :: toDec size :: extra)) := by
    simp [trailerOf]
  rw [he] at hp hsplit hl
  simp only [parseWrite, hp, hl, if_false, hsplit, List.reverse_nil, List.nil_append, List.drop_succ_cons,
    List.drop_zero, hcommon]

/-- The fields of a formatted write path (for `path.Join`: when it has nothing to clean). -/
theorem fields_writePath (cleans : Bool) {f : BareFn} (hf : SupportedFn f) {hash : Str} (hh : ValidHash f hash)
    (size : Nat) {comps : List Str} (hc : ValidComps comps) (hd : cleans = true → DotFree comps) {uuid : Str}
    (hu : Comp uuid) (hud : cleans = true → NoDot uuid) {c : Nat} (hcp : SupportedCompressor c) :
    fields (formatPathWith cleans [join comps, kwUploads, uuid, compressorMidfix c, fnMidfix f.enum, hash, toDec size]) =
      comps ++ (kwUploads :: uuid :: (trailerOf f hash size c ++ [])) := by
  have hhc := hh.comp hf.known
  have hdc := toDec_comp size
  have hkw := table_keywords
  have hF : [join comps, kwUploads, uuid, compressorMidfix c, fnMidfix f.enum, hash, toDec size].flatMap fields =
      comps ++ (kwUploads :: uuid :: (trailerOf f hash size c ++ [])) := by
    simp only [List.flatMap_cons, List.flatMap_nil, List.append_nil, fields_join_comps comps hc.comp,
      fields_comp hhc.1, fields_comp hdc.1, fields_comp hu, hkw.2.2.2.2.2.1, trailerOf]
    simp
  rw [fields_formatPathWith cleans _ (by rw [hF]; simp) ?_ ?_, hF]
  · intro hcl
    rw [hF]
    intro k hk
    simp only [List.append_nil, List.mem_append, List.mem_cons] at hk
    rcases hk with h | h | h | h
    · exact hd hcl k h
    · rw [h]; exact (noDotB_iff _).mp hkw.2.2.2.2.1
    · rw [h]; exact hud hcl
    · exact trailerOf_nodot hf hh hcp k h
  · intro e he
    simp only [List.mem_cons, List.not_mem_nil, or_false] at he
    rcases he with rfl | rfl | rfl | rfl | rfl | rfl | rfl
    · exact join_comps_head hc.comp
    · exact hkw.2.2.2.2.2.2
    · exact hu.head_ne
    · exact hcp.facts.head
    · exact fnMidfix_head hf
    · exact hhc.2.2
    · exact hdc.2.2

/-! ### REv2 message and compact binary -/

theorem getProto_valid {f : BareFn} (hf : KnownFn f) {hash : Str} (hh : ValidHash f hash) (size : Nat) (inst : Str) :
    getProto (pack f.enum hash size inst) = some (hash, size) := by
  simp only [getProto, unpack_valid hf hh, Option.map_some, hashOf_pack]
  rfl

theorem getDigestFunction_valid {f : BareFn} (hf : SupportedFn f) {hash : Str} (hh : ValidHash f hash) (size : Nat)
    (inst : Str) : getDigestFunction (pack f.enum hash size inst) = some (f, inst) := by
  simp only [getDigestFunction, unpack_valid hf.known hh, instOf_pack]
  have : (unpackedOf f.enum hash size).fn = f.enum := rfl
  rw [this, hf.get]; rfl

theorem getCompactBinary_valid {f : BareFn} (hf : KnownFn f) {hash : Str} (hh : ValidHash f hash) (size : Nat)
    (inst : Str) : ∃ hb, hb.length = f.hashBytes ∧ hexEncode hb = hash ∧
      getCompactBinary (pack f.enum hash size inst) = some (f.enum :: (hb ++ putVarint (size : Int))) := by
  obtain ⟨hb, h1, h2, h3⟩ := hex_roundtrip f.hashBytes hash hh.1 hh.2
  refine ⟨hb, h2, h3, ?_⟩
  have hlt : f.enum % 256 = f.enum := Nat.mod_eq_of_lt (by have := hf.facts.2.1; omega)
  simp only [getCompactBinary, unpack_valid hf hh, hashOf_pack, h1]
  have e1 : (unpackedOf f.enum hash size).fn = f.enum := rfl
  have e2 : (unpackedOf f.enum hash size).size = size := rfl
  rw [e1, e2, hlt]

theorem newDigestFromCompactBinary_valid {f : BareFn} (hf : SupportedFn f) {hash : Str} (hh : ValidHash f hash)
    {size : Nat} (hs : size < 2 ^ 63) (inst : Str) (hb : List Nat) (hl : hb.length = f.hashBytes)
    (he : hexEncode hb = hash) (rest : List Nat) :
    newDigestFromCompactBinary inst (f.enum :: (hb ++ (putVarint (size : Int) ++ rest))) =
      .ok (pack f.enum hash size inst) := by
  have hlen : ¬ ((hb ++ (putVarint (size : Int) ++ rest)).length < f.hashBytes) := by
    simp only [List.length_append]; omega
  have hd : (hb ++ (putVarint (size : Int) ++ rest)).drop f.hashBytes = putVarint (size : Int) ++ rest := by
    rw [← hl]; exact List.drop_left
  have ht : (hb ++ (putVarint (size : Int) ++ rest)).take f.hashBytes = hb := by
    rw [← hl]; exact List.take_left
  simp only [newDigestFromCompactBinary, hf.get, hlen, if_false, hd, ht, readVarint_put size hs rest, he,
    newDigest_valid f inst hash size hh]

end BB.Digest
