import BB.Proofs.PersistCrash4
/-!
# Crash and restart: the invariant holds again (`C02_served_bytes_correct`, the induction step)
-/
namespace BB.Persist

theorem nodup_map_of_imp {α : Type} (f g : α → Nat) : ∀ (l : List α), (l.map g).Nodup →
    (∀ a ∈ l, ∀ b ∈ l, f a = f b → g a = g b) → (l.map f).Nodup := by
  intro l
  induction l with
  | nil => intro _ _; simp
  | cons x xs ih =>
    intro hn himp
    simp only [List.map_cons, List.nodup_cons] at hn ⊢
    refine ⟨?_, ih hn.2 (fun a ha b hb => himp a (List.mem_cons_of_mem _ ha) b (List.mem_cons_of_mem _ hb))⟩
    intro hm
    obtain ⟨y, hy, he⟩ := List.mem_map.1 hm
    exact hn.1 (List.mem_map.2 ⟨y, hy, himp y (List.mem_cons_of_mem _ hy) x (by simp) he⟩)

/-- The blocks of a state file sit in distinct, valid slots. -/
theorem file_slots {w : World} (h : Inv w) {f : SFile} {recs : List PRec} {objs : List Obj} {ns : Nat}
    (hc : FileCore w.cfg.ss f (held w.pbl w.zombies) recs objs ns) :
    (f.blocks.map (·.slot)).Nodup ∧ ∀ b ∈ f.blocks, b.slot < w.cfg.nslots := by
  obtain ⟨g, hg⟩ := hc.gids
  have hgn : (f.blocks.map (·.gid)).Nodup := by
    have := (gidsFrom_nodup _ _ hg).1
    simpa [List.map_map, Function.comp_def, restoredBlk] using this
  have hsn : ((held w.pbl w.zombies).map (·.slot)).Nodup := (List.nodup_append.1 h.own.slots).1
  refine ⟨nodup_map_of_imp (fun b : BState => b.slot) (fun b : BState => b.gid) _ hgn ?_, ?_⟩
  · intro a ha b hb hs
    obtain ⟨ba, hba, ga1, ga2⟩ := hc.heldIn a ha
    obtain ⟨bb, hbb, gb1, gb2⟩ := hc.heldIn b hb
    have : ba = bb := eq_of_map_nodup hsn hba hbb (by rw [ga2, gb2]; exact hs)
    rw [← ga1, ← gb1, this]
  · intro b hb
    obtain ⟨b0, hb0, _, g2⟩ := hc.heldIn b hb
    rw [← g2]
    exact h.own.range _ (List.mem_append_left _ (List.mem_map.2 ⟨b0, hb0, rfl⟩))

theorem recsOf_crash_sub (d : IdxDev) (keep : List Bool) : ∀ r ∈ recsOf (d.crash keep), r ∈ recsOf d := by
  intro r hr
  simp only [recsOf, IdxDev.crash, List.map_nil, List.append_nil] at hr
  obtain ⟨x, hx, rfl⟩ := List.mem_map.1 hr
  have : ∀ (l : List (Nat × PRec)) (acc : List (Nat × PRec)), x ∈ l.foldl (fun m w => w :: m) acc → x ∈ acc ∨ x ∈ l := by
    intro l
    induction l with
    | nil => intro acc h; exact Or.inl h
    | cons a l ih =>
      intro acc h
      rcases ih _ h with h1 | h1
      · simp only [List.mem_cons] at h1
        rcases h1 with rfl | h1
        · exact Or.inr (by simp)
        · exact Or.inl h1
      · exact Or.inr (List.mem_cons_of_mem _ h1)
  simp only [recsOf, List.mem_append, List.mem_map]
  rcases this _ _ hx with h1 | h1
  · exact Or.inl ⟨x, h1, rfl⟩
  · exact Or.inr ⟨x, mem_kept _ _ _ h1, rfl⟩

/-- The state file a restart reads after a crash: one of the files a restart may find, or none. -/
theorem crash_file (d : StateDir) (pick : Nat) (lo : Bool) :
    (d.crash pick lo).renamed = [] ∧
    ((d.crash pick lo).state = none ∨ ∃ f, (d.crash pick lo).state = some f ∧ f ∈ filesOf d) := by
  refine ⟨rfl, ?_⟩
  simp only [StateDir.crash]
  cases hc : d.candidates[pick]? with
  | none =>
    simp only [Option.getD_none]
    cases hs : d.state with
    | none => exact Or.inl rfl
    | some f => exact Or.inr ⟨f, rfl, by simp [filesOf, hs]⟩
  | some c =>
    simp only [Option.getD_some]
    cases c with
    | none => exact Or.inl rfl
    | some f =>
      refine Or.inr ⟨f, rfl, ?_⟩
      have hm := List.mem_of_getElem? hc
      simp only [StateDir.candidates, List.mem_cons, List.mem_map] at hm
      rcases hm with hm | ⟨r, hr, hre⟩
      · simp [filesOf, ← hm]
      · simp only [Option.some.injEq] at hre; subst hre
        simp [filesOf, hr]

end BB.Persist
