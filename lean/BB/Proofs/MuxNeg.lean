import BB.Proofs.MuxList
/-! Invariant of the `casClonedBuffer` negotiation. -/
namespace BB.Mux

def HS.isServed : HS → Bool
  | .served => true
  | _ => false

theorem hs_partition : ∀ l : List HS,
    l.length = l.countP HS.isFresh + l.countP HS.isArrived + l.countP HS.isServed
  | [] => rfl
  | h :: l => by
    have ih := hs_partition l
    simp only [List.length_cons, List.countP_cons]
    cases h <;> simp [HS.isFresh, HS.isArrived, HS.isServed] <;> omega

theorem countP_serve_served : ∀ l : List HS,
    (l.map serve).countP HS.isServed = l.countP HS.isServed + l.countP HS.isArrived
  | [] => rfl
  | h :: l => by
    have ih := countP_serve_served l
    simp only [List.map_cons, List.countP_cons, ih]
    cases h <;> simp [serve, HS.isArrived, HS.isServed] <;> omega

theorem wantValidated_snoc (reqs : List (Bool × Nat)) (nv : Bool) (mc : Nat) :
    wantValidated (reqs ++ [(nv, mc)]) = (wantValidated reqs || nv) := by
  simp [wantValidated, List.any_append]

theorem wantChunk_snoc (reqs : List (Bool × Nat)) (nv : Bool) (mc : Nat) :
    wantChunk (reqs ++ [(nv, mc)]) = negChunk (wantChunk reqs) mc := by
  simp [wantChunk, List.foldl_append]

structure NInv (s : Neg) : Prop where
  noPanic : s.panicked = false
  rem : s.remaining = s.hs.countP HS.isFresh
  nv : s.needsValidation = wantValidated s.reqs
  mc : s.maxChunk = wantChunk s.reqs
  opn : 0 < s.remaining → s.made = [] ∧ s.hs.countP HS.isServed = 0 ∧ s.reqs.length = s.hs.countP HS.isArrived
  done : s.remaining = 0 →
    s.made = [⟨wantValidated s.reqs, (wantChunk s.reqs).getD 0, s.hs.length⟩] ∧
    s.hs.countP HS.isServed = s.hs.length ∧ s.reqs.length = s.hs.length

theorem ninv_init : NInv {} := by
  refine ⟨rfl, rfl, rfl, rfl, ?_, ?_⟩
  · intro _; exact ⟨rfl, rfl, rfl⟩
  · intro h; simp at h

theorem fresh_pos (s : Neg) (h : NInv s) (i : Nat) (hi : s.hs[i]? = some .fresh) : 0 < s.remaining := by
  rw [h.rem, List.countP_pos_iff]
  exact ⟨.fresh, List.mem_iff_getElem?.mpr ⟨i, hi⟩, rfl⟩

theorem countP_serve_fresh : ∀ l : List HS, (l.map serve).countP HS.isFresh = l.countP HS.isFresh
  | [] => rfl
  | h :: l => by
    have ih := countP_serve_fresh l
    simp only [List.map_cons, List.countP_cons, ih]
    cases h <;> simp [serve, HS.isArrived, HS.isFresh]

theorem ninv_clone (s : Neg) (h : NInv s) (i : Nat) (hi : s.hs[i]? = some .fresh) :
    NInv { s with remaining := s.remaining + 1, hs := s.hs ++ [.fresh] } := by
  have hp := fresh_pos s h i hi
  obtain ⟨o1, o2, o3⟩ := h.opn hp
  refine ⟨h.noPanic, ?_, h.nv, h.mc, ?_, ?_⟩
  · simp [List.countP_append, h.rem, HS.isFresh]
  · intro _; refine ⟨o1, ?_, ?_⟩
    · simp [List.countP_append, o2, HS.isServed]
    · simp [List.countP_append, o3, HS.isArrived]
  · intro e; simp at e

theorem ninv_consume_wait (s : Neg) (h : NInv s) (i : Nat) (nv : Bool) (mc : Nat)
    (hi : s.hs[i]? = some .fresh) (hl : ¬ s.remaining - 1 = 0) :
    NInv { s with remaining := s.remaining - 1, needsValidation := s.needsValidation || nv,
                  maxChunk := negChunk s.maxChunk mc, reqs := s.reqs ++ [(nv, mc)],
                  hs := s.hs.modify i fun _ => .arrived } := by
  have hp := fresh_pos s h i hi
  obtain ⟨o1, o2, o3⟩ := h.opn hp
  have cf := countP_modify HS.isFresh (fun _ => HS.arrived) s.hs i .fresh hi
  have cs := countP_modify HS.isServed (fun _ => HS.arrived) s.hs i .fresh hi
  have ca := countP_modify HS.isArrived (fun _ => HS.arrived) s.hs i .fresh hi
  simp [HS.isFresh, HS.isServed, HS.isArrived] at cf cs ca
  refine ⟨h.noPanic, ?_, ?_, ?_, ?_, ?_⟩
  · show s.remaining - 1 = List.countP HS.isFresh (s.hs.modify i fun _ => HS.arrived)
    have hr := h.rem; omega
  · show (s.needsValidation || nv) = _; rw [wantValidated_snoc, h.nv]
  · show negChunk s.maxChunk mc = _; rw [wantChunk_snoc, h.mc]
  · intro _; refine ⟨o1, ?_, ?_⟩
    · show List.countP HS.isServed (s.hs.modify i fun _ => HS.arrived) = 0; omega
    · show (s.reqs ++ [(nv, mc)]).length = List.countP HS.isArrived (s.hs.modify i fun _ => HS.arrived)
      simp; omega
  · intro e; exact absurd e hl

theorem ninv_consume_last (s : Neg) (h : NInv s) (i : Nat) (nv : Bool) (mc : Nat)
    (hi : s.hs[i]? = some .fresh) (hl : s.remaining - 1 = 0) :
    NInv { s with remaining := 0, needsValidation := s.needsValidation || nv,
                  maxChunk := negChunk s.maxChunk mc, reqs := s.reqs ++ [(nv, mc)],
                  made := s.made ++ [⟨s.needsValidation || nv, (negChunk s.maxChunk mc).getD 0,
                                      1 + s.hs.countP HS.isArrived⟩],
                  hs := (s.hs.map serve).modify i fun _ => .served } := by
  have hp := fresh_pos s h i hi
  obtain ⟨o1, o2, o3⟩ := h.opn hp
  have hmi : (s.hs.map serve)[i]? = some .fresh := by rw [List.getElem?_map, hi]; rfl
  have cf := countP_modify HS.isFresh (fun _ => HS.served) _ i .fresh hmi
  have cs := countP_modify HS.isServed (fun _ => HS.served) _ i .fresh hmi
  rw [countP_serve_fresh] at cf
  rw [countP_serve_served] at cs
  simp [HS.isFresh, HS.isServed] at cf cs
  have hpart := hs_partition s.hs
  have hr := h.rem
  refine ⟨h.noPanic, ?_, ?_, ?_, ?_, ?_⟩
  · show 0 = List.countP HS.isFresh ((s.hs.map serve).modify i fun _ => HS.served); omega
  · show (s.needsValidation || nv) = _; rw [wantValidated_snoc, h.nv]
  · show negChunk s.maxChunk mc = _; rw [wantChunk_snoc, h.mc]
  · intro e; simp at e
  · intro _
    refine ⟨?_, ?_, ?_⟩
    · show s.made ++ _ = _
      rw [o1, wantValidated_snoc, wantChunk_snoc, h.nv, h.mc]
      simp; omega
    · show List.countP HS.isServed ((s.hs.map serve).modify i fun _ => HS.served) = _
      simp; omega
    · show (s.reqs ++ [(nv, mc)]).length = ((s.hs.map serve).modify i fun _ => HS.served).length
      simp; omega

theorem ninv_step (s s' : Neg) (a : NAct) (h : NInv s) (hs : s.step a = some s') : NInv s' := by
  cases a with
  | clone i =>
    simp only [Neg.step] at hs
    cases hi : s.hs[i]? with
    | none => simp [hi] at hs
    | some x =>
      cases x with
      | fresh =>
        have hp := fresh_pos s h i hi
        have hp0 : s.remaining ≠ 0 := by omega
        simp only [hi, hp0, if_false, Option.some.injEq] at hs; subst hs
        exact ninv_clone s h i hi
      | arrived => simp [hi] at hs
      | served => simp [hi] at hs
  | consume i nv mc =>
    simp only [Neg.step] at hs
    cases hi : s.hs[i]? with
    | none => simp [hi] at hs
    | some x =>
      cases x with
      | fresh =>
        have hp := fresh_pos s h i hi
        have hp0 : s.remaining ≠ 0 := by omega
        simp only [hi, hp0, if_false] at hs
        by_cases hl : s.remaining - 1 = 0
        · simp only [hl, if_true, Option.some.injEq] at hs; subst hs
          exact ninv_consume_last s h i nv mc hi hl
        · simp only [hl, if_false, Option.some.injEq] at hs; subst hs
          exact ninv_consume_wait s h i nv mc hi hl
      | arrived => simp [hi] at hs
      | served => simp [hi] at hs

theorem nreach_inv (s : Neg) (h : NReach s) : NInv s := by
  induction h with
  | init => exact ninv_init
  | step a _ hs ih => exact ninv_step _ _ a ih hs

/-- the negotiated chunk size is the smallest one asked for -/
theorem wantChunk_min : ∀ (reqs : List (Bool × Nat)) (init : Option Nat) (m : Nat),
    reqs.foldl (fun m r => negChunk m r.2) init = some m →
    (init = some m ∨ ∃ r ∈ reqs, r.2 = m) ∧ (∀ r ∈ reqs, m ≤ r.2) ∧ (∀ c, init = some c → m ≤ c)
  | [], init, m, h => by simp at h; simp [h]
  | r :: reqs, init, m, h => by
    simp only [List.foldl_cons] at h
    obtain ⟨a, b, c⟩ := wantChunk_min reqs (negChunk init r.2) m h
    have hn : ∃ v, negChunk init r.2 = some v ∧ v ≤ r.2 ∧ (∀ c, init = some c → v ≤ c) ∧ (init = some v ∨ v = r.2) := by
      cases init with
      | none => exact ⟨r.2, rfl, Nat.le_refl _, by simp, Or.inr rfl⟩
      | some c0 =>
        simp only [negChunk]
        by_cases e : c0 > r.2
        · simp only [e, if_true]; exact ⟨r.2, rfl, Nat.le_refl _, by intro c hc; cases hc; omega, Or.inr rfl⟩
        · simp only [e, if_false]; exact ⟨c0, rfl, by omega, by intro c hc; cases hc; omega, Or.inl rfl⟩
    obtain ⟨v, hv, hv1, hv2, hv3⟩ := hn
    have hmv := c v hv
    refine ⟨?_, ?_, ?_⟩
    · rcases a with a | ⟨r', hr', e⟩
      · rw [hv] at a; cases a
        rcases hv3 with e | e
        · exact Or.inl e
        · exact Or.inr ⟨r, by simp, e.symm⟩
      · exact Or.inr ⟨r', by simp [hr'], e⟩
    · intro r' hr'
      simp only [List.mem_cons] at hr'
      rcases hr' with e | e
      · subst e; omega
      · exact b r' e
    · intro c0 hc0; have := hv2 c0 hc0; omega

end BB.Mux
