import BB.Proofs.PersistShutInv
/-!
# C03: restarting a sealed world

If every state file a restart may read describes the whole list (`Sealed`), then after the process
ends and the store is assembled again from the medium (the medium keeps what the operating system
was handed: every index record write; any subset of the unsynced data writes) every record that
resolved before resolves again, to the same block.
-/
namespace BB.Persist

/-- The block list a restart builds is the one described by the state file it reads. -/
theorem crashRestart_pbl {w : World} (h : Inv w) (keepData keepIdx : List Bool) (pick : Nat) (lo : Bool) :
    (w.crashRestart keepData keepIdx pick lo).pbl = (World.readState (w.dir.crash pick lo)).pbl w.cfg.ss ∧
    (w.crashRestart keepData keepIdx pick lo).idx = w.idx.crash keepIdx := by
  obtain ⟨hren, hstate⟩ := crash_file w.dir pick lo
  have hcore : FileCore w.cfg.ss (World.readState (w.dir.crash pick lo)) (held w.pbl w.zombies) (recsOf w.idx) w.objs w.nextSeed := by
    rcases hstate with hnone | ⟨f, hf, hfm⟩
    · simp only [World.readState, hnone, Option.getD_none]; exact fileCore_fresh _ _ _ _ _
    · simp only [World.readState, hf, Option.getD_some]
      refine (h.files f hfm).core ?_
      intro b hb
      unfold held
      rcases List.mem_append.1 hb with hb | hb
      · exact List.mem_append_left _ (List.mem_append_left _ hb)
      · exact List.mem_append_left _ (List.mem_append_right _ hb)
  generalize hfdef : World.readState (w.dir.crash pick lo) = f at hcore
  obtain ⟨hslots, hrange⟩ := file_slots h hcore
  obtain ⟨free', hrest, _, _⟩ := restore_file w.cfg.ss w.cfg.nslots f hslots hrange
  unfold World.crashRestart
  simp only [hfdef, hrest]
  exact ⟨rfl, trivial⟩

theorem kept_all {α : Type} (l : List α) : DataDev.kept l (List.replicate l.length true) = l := by
  induction l with
  | nil => rfl
  | cons a l ih => simp [DataDev.kept, List.replicate_succ, ih]

theorem foldl_cons_rev {α : Type} (l : List α) : ∀ acc : List α, l.foldl (fun m w => w :: m) acc = l.reverse ++ acc := by
  induction l with
  | nil => intro acc; rfl
  | cons a l ih => intro acc; simp [ih]

/-- The index device after a process exit: every record write was handed to the operating system. -/
theorem idx_crash_all (d : IdxDev) (slot : Nat) : (d.crash (List.replicate d.pend.length true)).curGet slot = d.curGet slot := by
  unfold IdxDev.crash IdxDev.curGet
  rw [kept_all, foldl_cons_rev]
  simp only [List.reverse_nil, List.lookup_nil, List.lookup_append]
  cases d.pend.reverse.lookup slot <;> rfl

/-- A crash leaves a state file when there was one. -/
theorem crash_state_some (d : StateDir) (pick : Nat) (lo : Bool) (hs : d.state.isSome = true) :
    ∃ f, (d.crash pick lo).state = some f ∧ f ∈ filesOf d := by
  rcases (crash_file d pick lo).2 with hnone | hsome
  · exfalso
    simp only [StateDir.crash] at hnone
    cases hc : d.candidates[pick]? with
    | none =>
      rw [hc] at hnone
      simp only [Option.getD_none] at hnone
      rw [hnone] at hs; cases hs
    | some c =>
      rw [hc] at hnone
      simp only [Option.getD_some] at hnone
      subst hnone
      have hm := List.mem_of_getElem? hc
      simp only [StateDir.candidates, List.mem_cons, List.mem_map] at hm
      rcases hm with hm | ⟨r, _, hre⟩
      · rw [← hm] at hs; cases hs
      · cases hre
  · exact hsome

/-- Restart of a sealed world. -/
theorem restart_of_sealed {w : World} (h : Inv w) (hs : Sealed w) (keepData : List Bool) (pick : Nat) (lo : Bool)
    {slot i : Nat} {r : PRec} (hcur : w.idx.curGet slot = some r) (hres : w.resolve r = some i) :
    (w.crashRestart keepData (List.replicate w.idx.pend.length true) pick lo).idx.curGet slot = some r ∧
    ∃ k b b', (w.crashRestart keepData (List.replicate w.idx.pend.length true) pick lo).resolve r = some (i + k) ∧
      w.pbl.blocks[i]? = some b ∧
      (w.crashRestart keepData (List.replicate w.idx.pend.length true) pick lo).pbl.blocks[i + k]? = some b' ∧
      b'.gid = b.gid ∧ b'.slot = b.slot := by
  obtain ⟨hp, hi⟩ := crashRestart_pbl h keepData (List.replicate w.idx.pend.length true) pick lo
  obtain ⟨f, hf, hfm⟩ := crash_state_some w.dir pick lo hs.state
  have hread : World.readState (w.dir.crash pick lo) = f := by simp [World.readState, hf]
  rw [hread] at hp
  refine ⟨by rw [hi, idx_crash_all]; exact hcur, ?_⟩
  obtain ⟨k, hk⟩ := hs.files f hfm
  obtain ⟨h1, bs, h2, h3⟩ := hk r.epoch r.bfl i r.seed (resolve_some hres)
  rw [List.getElem?_map] at h3
  cases hb : w.pbl.blocks[i]? with
  | none => simp [hb] at h3
  | some b =>
    simp only [hb, Option.map_some, Option.some.injEq] at h3
    refine ⟨k, b, restoredBlk w.cfg.ss bs, ?_, rfl, ?_, h3.symm, ?_⟩
    · unfold World.resolve
      rw [hp, h1]
      simp
    · rw [hp]
      simp only [SFile.pbl, List.getElem?_map, h2, Option.map_some]
    · -- same generation, hence same slot
      obtain ⟨b0, hb0, g1, g2⟩ := (h.files f hfm).heldIn bs (List.mem_of_getElem? h2)
      have hbm : b ∈ held w.pbl w.zombies :=
        List.mem_append_left _ (List.mem_append_left _ (List.mem_of_getElem? hb))
      have hb0m : b0 ∈ held w.pbl w.zombies := by
        unfold held
        rcases List.mem_append.1 hb0 with hb0 | hb0
        · exact List.mem_append_left _ (List.mem_append_left _ hb0)
        · exact List.mem_append_left _ (List.mem_append_right _ hb0)
      have : b0 = b := eq_of_map_nodup h.own.gids hb0m hbm (by rw [g1, h3])
      subst this
      exact g2.symm

end BB.Persist
