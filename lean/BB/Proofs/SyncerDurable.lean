import BB.Proofs.SyncerProgress
/-!
Fourth layer: which blocks a state file (being written, or the last one written
successfully) may still list - never one that was handed back to the allocator.
-/
namespace BB.Syncer

/-- A loop is between a successful state write and `NotifyPersistentStateWritten`. -/
def PPc.isWritten : PPc → Bool
  | .write _ .written => true
  | _ => false

def RPc.isWritten : RPc → Bool
  | .write .written => true
  | _ => false

def someoneWritten (s : State) : Bool := s.p.isWritten || s.r.isWritten

theorem RPc.not_written {r : RPc} (h : r.holds = false) : r.isWritten = false := by
  cases r with
  | write w => cases w <;> first | rfl | exact absurd h (by simp [RPc.holds, WPc.holds])
  | _ => rfl

theorem PPc.not_written {p : PPc} (h : p.holds = false) : p.isWritten = false := by
  cases p with
  | write kg w => cases w <;> first | rfl | exact absurd h (by simp [PPc.holds, WPc.holds])
  | _ => rfl

theorem RPc.holds_of_written {r : RPc} (h : r.isWritten = true) : r.holds = true := by
  cases r with
  | write w => cases w <;> first | rfl | exact absurd h (by simp [RPc.isWritten])
  | _ => exact absurd h (by simp [RPc.isWritten])

theorem PPc.holds_of_written {p : PPc} (h : p.isWritten = true) : p.holds = true := by
  cases p with
  | write kg w => cases w <;> first | rfl | exact absurd h (by simp [PPc.isWritten])
  | _ => exact absurd h (by simp [PPc.isWritten])

/-- Popped blocks the last successfully written state file may still list. -/
def pending (s : State) : List Nat :=
  if someoneWritten s then s.bl.toRelease.drop s.bl.releasing else s.bl.toRelease

structure Inv4 (s : State) : Prop where
  snapP : ∀ kg snap, s.p = .write kg (.writing snap) → ∀ id, id ∈ snap.ids →
    id ∈ ids s.bl.blocks ∨ id ∈ s.bl.toRelease.drop s.bl.releasing
  snapR : ∀ snap, s.r = .write (.writing snap) → ∀ id, id ∈ snap.ids →
    id ∈ ids s.bl.blocks ∨ id ∈ s.bl.toRelease.drop s.bl.releasing
  dur : ∀ id, id ∈ s.durable.ids → id ∈ ids s.bl.blocks ∨ id ∈ pending s

theorem inv4_init (free : List Nat) (oldest t0 : Nat) : Inv4 (init free oldest t0) :=
  ⟨by intro kg snap h; simp [init] at h, by intro snap h; simp [init] at h,
   by intro id h; simp [init, Snap.ids] at h⟩

theorem inv4_same {s s' : State} (h : Inv4 s) (hw : someoneWritten s' = someoneWritten s)
    (hids : ids s'.bl.blocks = ids s.bl.blocks) (htr : s'.bl.toRelease = s.bl.toRelease)
    (hrel : s'.bl.releasing = s.bl.releasing) (hd : s'.durable = s.durable)
    (hp : ∀ kg snap, s'.p = .write kg (.writing snap) → s.p = .write kg (.writing snap))
    (hr : ∀ snap, s'.r = .write (.writing snap) → s.r = .write (.writing snap)) : Inv4 s' := by
  refine ⟨?_, ?_, ?_⟩
  · intro kg snap hx id hid; rw [hids, htr, hrel]; exact h.snapP kg snap (hp kg snap hx) id hid
  · intro snap hx id hid; rw [hids, htr, hrel]; exact h.snapR snap (hr snap hx) id hid
  · intro id hid
    rw [hd] at hid
    have := h.dur id hid
    unfold pending at this ⊢
    rw [hw, hids, htr, hrel]; exact this

theorem mem_drop_append {l m : List Nat} {n : Nat} {x : Nat} (hn : n ≤ l.length)
    (hx : x ∈ l.drop n ∨ x ∈ m) : x ∈ (l ++ m).drop n := by
  rw [List.drop_append_of_le_length hn]
  simp; exact hx

theorem holds_of_writing_p {s : State} {kg : Bool} {snap : Snap} (h1 : Inv1 s)
    (hx : s.p = .write kg (.writing snap)) : s.storeLocked = true := by
  rw [h1.lock, hx]; simp [PPc.holds, WPc.holds]

theorem holds_of_writing_r {s : State} {snap : Snap} (h1 : Inv1 s)
    (hx : s.r = .write (.writing snap)) : s.storeLocked = true := by
  rw [h1.lock, hx]; simp [RPc.holds, WPc.holds]

theorem holds_of_written {s : State} (h1 : Inv1 s) (hx : someoneWritten s = true) : s.storeLocked = true := by
  rw [h1.lock]
  unfold someoneWritten at hx
  simp only [Bool.or_eq_true] at hx ⊢
  rcases hx with hx | hx
  · left; exact PPc.holds_of_written hx
  · right; exact RPc.holds_of_written hx

/-- Environment steps. -/
theorem inv4_env {s s' : State} (h1 : Inv1 s) (h : Inv4 s) (hp : s'.p = s.p) (hr : s'.r = s.r)
    (he : BL.Env s.bl s'.bl) (hd : s'.durable = s.durable) : Inv4 s' := by
  obtain ⟨l, hl1, _, hl3⟩ := he.toRel
  have hw : someoneWritten s' = someoneWritten s := by unfold someoneWritten; rw [hp, hr]
  have key : s.storeLocked = true → ∀ id, (id ∈ ids s.bl.blocks ∨ id ∈ s.bl.toRelease.drop s.bl.releasing) →
      (id ∈ ids s'.bl.blocks ∨ id ∈ s'.bl.toRelease.drop s'.bl.releasing) := by
    intro hlk id hid
    have hrl := h1.rel hlk
    rw [he.releasing, hl1]
    rcases hid with hid | hid
    · rcases hl3 id hid with hx | hx
      · left; exact hx
      · right; exact mem_drop_append hrl (Or.inr hx)
    · right; exact mem_drop_append hrl (Or.inl hid)
  refine ⟨?_, ?_, ?_⟩
  · intro kg snap hx id hid
    rw [hp] at hx
    exact key (holds_of_writing_p h1 hx) id (h.snapP kg snap hx id hid)
  · intro snap hx id hid
    rw [hr] at hx
    exact key (holds_of_writing_r h1 hx) id (h.snapR snap hx id hid)
  · intro id hid
    rw [hd] at hid
    have := h.dur id hid
    unfold pending at this ⊢
    rw [hw]
    by_cases hsw : someoneWritten s = true
    · rw [if_pos hsw] at this ⊢
      exact key (holds_of_written h1 hsw) id this
    · rw [if_neg hsw] at this ⊢
      rw [hl1]
      rcases this with hx | hx
      · rcases hl3 id hx with hy | hy
        · left; exact hy
        · right; simp [hy]
      · right; simp [hx]

theorem inv4_pW {c : Cfg} {s s1 : State} {kg fin : Bool} {w w' : WPc} {a : WAct} (h1 : Inv1 s) (h : Inv4 s)
    (hp : s.p = .write kg w) (hw : WStep c s w a s1 w' fin) :
    Inv4 { s1 with p := if fin then (if kg then .get else .done) else .write kg w' } := by
  have hlock := h1.lock
  have hexcl := h1.excl
  rw [hp] at hlock hexcl
  have rcontra : s.r.holds = false → ∀ snap, s.r = .write (.writing snap) → False := by
    intro hh snap hx
    have : s.r.holds = true := by rw [hx]; rfl
    rw [hh] at this; cases this
  cases hw with
  | get hl =>
    simp [PPc.holds, WPc.holds, hl] at hlock
    obtain ⟨bs, _, heq, _, hids⟩ := BL.getState_spec h1.bl
    rw [heq]
    have hsw : someoneWritten s = false := by
      unfold someoneWritten; rw [hp, RPc.not_written hlock]; rfl
    refine ⟨?_, ?_, ?_⟩
    · intro kg' snap hx id hid
      simp at hx
      obtain ⟨_, rfl⟩ := hx
      left; exact hids id hid
    · intro snap hx; exact (rcontra hlock snap hx).elim
    · intro id hid
      have := h.dur id hid
      unfold pending at this
      rw [hsw] at this
      simp only [pending, someoneWritten, PPc.isWritten, RPc.not_written hlock]
      simpa using this
  | retOk snap =>
    simp [PPc.holds, WPc.holds] at hexcl
    refine ⟨?_, ?_, ?_⟩
    · intro kg' snap' hx; simp at hx
    · intro snap' hx; exact (rcontra hexcl snap' hx).elim
    · intro id hid
      have := h.snapP kg snap hp id hid
      simp only [pending, someoneWritten, PPc.isWritten]
      simpa using this
  | retFail snap =>
    simp [PPc.holds, WPc.holds] at hexcl
    have hsw : someoneWritten s = false := by
      unfold someoneWritten; rw [hp, RPc.not_written hexcl]; rfl
    refine ⟨?_, ?_, ?_⟩
    · intro kg' snap' hx; simp at hx
    · intro snap' hx; exact (rcontra hexcl snap' hx).elim
    · intro id hid
      have := h.dur id hid
      unfold pending at this
      rw [hsw] at this
      simp only [pending, someoneWritten, PPc.isWritten, RPc.not_written hexcl]
      simpa using this
  | notify =>
    simp [PPc.holds, WPc.holds] at hexcl
    have hsw : someoneWritten s = true := by unfold someoneWritten; rw [hp]; rfl
    refine ⟨?_, ?_, ?_⟩
    · intro kg' snap' hx; cases kg <;> simp at hx
    · intro snap' hx; exact (rcontra hexcl snap' hx).elim
    · intro id hid
      have := h.dur id hid
      unfold pending at this
      rw [hsw] at this
      cases kg <;>
        simp only [pending, someoneWritten, PPc.isWritten, RPc.not_written hexcl] <;>
        simpa [BL.stateWritten] using this
  | wake d hd =>
    refine inv4_same h ?_ rfl rfl rfl rfl ?_ (fun _ hx => hx)
    · unfold someoneWritten; simp only; rw [hp]; rfl
    · intro kg' snap' hx; simp at hx

theorem inv4_rW {c : Cfg} {s s1 : State} {fin : Bool} {w w' : WPc} {a : WAct} (h1 : Inv1 s) (h : Inv4 s)
    (hr : s.r = .write w) (hw : WStep c s w a s1 w' fin) :
    Inv4 { s1 with r := if fin then .get else .write w' } := by
  have hlock := h1.lock
  have hexcl := h1.excl
  rw [hr] at hlock hexcl
  have pcontra : s.p.holds = false → ∀ kg snap, s.p = .write kg (.writing snap) → False := by
    intro hh kg snap hx
    have : s.p.holds = true := by rw [hx]; rfl
    rw [hh] at this; cases this
  cases hw with
  | get hl =>
    simp [RPc.holds, WPc.holds, hl] at hlock
    obtain ⟨bs, _, heq, _, hids⟩ := BL.getState_spec h1.bl
    rw [heq]
    have hsw : someoneWritten s = false := by
      unfold someoneWritten; rw [hr, PPc.not_written hlock]; rfl
    refine ⟨?_, ?_, ?_⟩
    · intro kg snap hx; exact (pcontra hlock kg snap hx).elim
    · intro snap hx id hid
      simp at hx
      subst hx
      left; exact hids id hid
    · intro id hid
      have := h.dur id hid
      unfold pending at this
      rw [hsw] at this
      simp only [pending, someoneWritten, RPc.isWritten, PPc.not_written hlock]
      simpa using this
  | retOk snap =>
    simp [RPc.holds, WPc.holds] at hexcl
    refine ⟨?_, ?_, ?_⟩
    · intro kg snap' hx; exact (pcontra hexcl kg snap' hx).elim
    · intro snap' hx; simp at hx
    · intro id hid
      have := h.snapR snap hr id hid
      simp only [pending, someoneWritten, RPc.isWritten]
      simpa using this
  | retFail snap =>
    simp [RPc.holds, WPc.holds] at hexcl
    have hsw : someoneWritten s = false := by
      unfold someoneWritten; rw [hr, PPc.not_written hexcl]; rfl
    refine ⟨?_, ?_, ?_⟩
    · intro kg snap' hx; exact (pcontra hexcl kg snap' hx).elim
    · intro snap' hx; simp at hx
    · intro id hid
      have := h.dur id hid
      unfold pending at this
      rw [hsw] at this
      simp only [pending, someoneWritten, RPc.isWritten, PPc.not_written hexcl]
      simpa using this
  | notify =>
    simp [RPc.holds, WPc.holds] at hexcl
    have hsw : someoneWritten s = true := by unfold someoneWritten; rw [hr]; simp [RPc.isWritten]
    refine ⟨?_, ?_, ?_⟩
    · intro kg snap' hx; exact (pcontra hexcl kg snap' hx).elim
    · intro snap' hx; simp at hx
    · intro id hid
      have := h.dur id hid
      unfold pending at this
      rw [hsw] at this
      simp only [pending, someoneWritten, RPc.isWritten, PPc.not_written hexcl]
      simpa [BL.stateWritten] using this
  | wake d hd =>
    refine inv4_same h ?_ rfl rfl rfl rfl (fun _ _ hx => hx) ?_
    · unfold someoneWritten; simp only; rw [hr]; rfl
    · intro snap' hx; simp at hx

/-- Steps of the put loop outside `writePersistentState`. -/
theorem inv4_pmove {s s' : State} (h : Inv4 s) (hw : s.p.isWritten = false) (hw' : s'.p.isWritten = false)
    (hr : s'.r = s.r) (hids : ids s'.bl.blocks = ids s.bl.blocks) (htr : s'.bl.toRelease = s.bl.toRelease)
    (hrel : s'.bl.releasing = s.bl.releasing) (hd : s'.durable = s.durable)
    (hp : ∀ kg snap, s'.p = .write kg (.writing snap) → False) : Inv4 s' :=
  inv4_same h (by unfold someoneWritten; rw [hw, hw', hr]) hids htr hrel hd
    (fun kg snap hx => (hp kg snap hx).elim) (fun snap hx => by rw [hr] at hx; exact hx)

theorem ids_map_syncing (l : List Blk) : ids (l.map fun k => { k with syncing := k.written }) = ids l := by
  simp [ids, Function.comp_def]
theorem ids_map_synced (l : List Blk) : ids (l.map fun k => { k with synced := k.syncing }) = ids l := by
  simp [ids, Function.comp_def]

theorem inv4_Step {c : Cfg} {s s' : State} {a : Act} (h1 : Inv1 s) (h : Inv4 s) (hs : Step c s a s') : Inv4 s' := by
  cases hs with
  | tick n => exact inv4_env h1 h rfl rfl (BL.Env.refl _) rfl
  | cancel => exact inv4_env h1 h rfl rfl (BL.Env.refl _) rfl
  | pushOk b' hp => exact inv4_env h1 h rfl rfl (BL.env_pushBack hp) rfl
  | pushErr _ => exact h
  | pop b' hp => exact inv4_env h1 h rfl rfl (BL.env_popFront h1.bl hp) rfl
  | fin abs e b' r hf => exact inv4_env h1 h rfl rfl (BL.env_fin h1.bl hf).1 rfl
  | pGet hp => exact inv4_pmove h (by rw [hp]; rfl) rfl rfl rfl rfl rfl rfl (by intro kg snap hx; simp at hx)
  | pPollReady g hp hr => exact inv4_pmove h (by rw [hp]; rfl) rfl rfl rfl rfl rfl rfl (by intro kg snap hx; simp at hx)
  | pPollWait g hp hr => exact inv4_pmove h (by rw [hp]; rfl) rfl rfl rfl rfl rfl rfl (by intro kg snap hx; simp at hx)
  | pWake g hp hr => exact inv4_pmove h (by rw [hp]; rfl) rfl rfl rfl rfl rfl rfl (by intro kg snap hx; simp at hx)
  | pCancelWait g hc hp => exact inv4_pmove h (by rw [hp]; rfl) rfl rfl rfl rfl rfl rfl (by intro kg snap hx; simp at hx)
  | pCancelTimer d a hc hp => exact inv4_pmove h (by rw [hp]; rfl) rfl rfl rfl rfl rfl rfl (by intro kg snap hx; simp at hx)
  | pFire d a hp hd => exact inv4_pmove h (by rw [hp]; rfl) rfl rfl rfl rfl rfl rfl (by intro kg snap hx; simp at hx)
  | pStart kg hp =>
    exact inv4_pmove h (by rw [hp]; rfl) rfl rfl (ids_map_syncing _) rfl rfl rfl (by intro kg snap hx; simp at hx)
  | pDataOk kg f hp => exact inv4_pmove h (by rw [hp]; rfl) rfl rfl rfl rfl rfl rfl (by intro kg snap hx; simp at hx)
  | pDataFail kg f hp => exact inv4_pmove h (by rw [hp]; rfl) rfl rfl rfl rfl rfl rfl (by intro kg snap hx; simp at hx)
  | pRetry kg f d hp hd => exact inv4_pmove h (by rw [hp]; rfl) rfl rfl rfl rfl rfl rfl (by intro kg snap hx; simp at hx)
  | pCompletedAgain hp =>
    refine inv4_pmove h (by rw [hp]; rfl) rfl rfl ?_ rfl rfl rfl (by intro kg snap hx; simp at hx)
    show ids ((s.bl.syncCompleted.blocks).map fun k => { k with syncing := k.written }) = ids s.bl.blocks
    rw [ids_map_syncing]; exact ids_map_synced _
  | pCompleted kg f hp hk =>
    exact inv4_pmove h (by rw [hp]; rfl) rfl rfl (ids_map_synced _) rfl rfl rfl (by intro kg snap hx; simp at hx)
  | pW kg w a s1 w' fin hp hw => exact inv4_pW h1 h hp hw
  | rGet hr =>
    refine inv4_same h ?_ rfl rfl rfl rfl (fun _ _ hx => hx) (by intro snap hx; simp at hx)
    unfold someoneWritten; simp only; rw [hr]; rfl
  | rWake g hr hrd =>
    refine inv4_same h ?_ rfl rfl rfl rfl (fun _ _ hx => hx) (by intro snap hx; simp at hx)
    unfold someoneWritten; simp only; rw [hr]; rfl
  | rW w a s1 w' fin hr hw => exact inv4_rW h1 h hr hw

theorem inv4_reachable {c : Cfg} {free : List Nat} {oldest t0 : Nat} (hf : free.Nodup) {s : State}
    (h : Reachable c free oldest t0 s) : Inv4 s := by
  induction h with
  | init => exact inv4_init free oldest t0
  | step a hr hs ih => exact inv4_Step (inv1_reachable hf hr) ih (step_Step hs)

end BB.Syncer
