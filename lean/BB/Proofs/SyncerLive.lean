import BB.Proofs.SyncerDurable
/-!
Progress of the put loop towards `NotifySyncStarting`, and where the allocator's
free list can grow.
-/
namespace BB.Syncer

/-! ### single steps of the put loop before the sync -/

theorem step_tick (c : Cfg) (s : State) (n : Nat) : step c s (.tick n) = some { s with now := s.now + n } := rfl

theorem step_pGet {c : Cfg} {s : State} (hp : s.p = .get) :
    step c s .pGet = some { s with p := .poll s.bl.putCh.gen } := by simp [step, hp]

theorem step_pPoll_ready {c : Cfg} {s : State} {g : Nat} (hp : s.p = .poll g) (hr : s.bl.putCh.ready g = true) :
    step c s .pPoll = some { s with p := .timer (max s.now (s.lastSync + c.minInt)) s.now } := by
  simp [step, hp, hr]

theorem step_pWake {c : Cfg} {s : State} {g : Nat} (hp : s.p = .wait g) (hr : s.bl.putCh.ready g = true) :
    step c s .pWake = some { s with p := .timer (s.now + c.minInt) s.now } := by simp [step, hp, hr]

theorem step_pFire {c : Cfg} {s : State} {d a : Nat} (hp : s.p = .timer d a) (hd : d ≤ s.now) :
    step c s .pFire = some { s with p := .lock true, lastSync := s.now } := by
  have : ¬ s.now < d := by omega
  simp [step, hp, this]

theorem step_pStart {c : Cfg} {s : State} {kg : Bool} (hp : s.p = .lock kg) :
    ∃ s', step c s .pStart = some s' ∧ s'.p = .sync kg false ∧ s'.now = s.now ∧
      s'.target = s.bl.oldest + s.bl.nE := by
  have h : step c s .pStart = some { s with
      bl := s.bl.syncStarting false, p := .sync kg false,
      target := (s.bl.syncStarting false).oldest + (s.bl.syncStarting false).nE, syncOk := false,
      starts := if kg then (s.now, s.lastSync) :: s.starts else s.starts } := by simp only [step, hp]
  exact ⟨_, h, rfl, rfl, by simp [BL.syncStarting, BL.nE]⟩

theorem run_cons {c : Cfg} {s s' s'' : State} {a : Act} {as : List Act} (h1 : step c s a = some s')
    (h2 : run c s' as = some s'') : run c s (a :: as) = some s'' := by
  simp only [run, h1]; exact h2

/-- From an armed timer: let the clock reach the deadline, the timer fires, `NotifySyncStarting` runs. -/
theorem drive_timer {c : Cfg} {s : State} {d a : Nat} (hp : s.p = .timer d a) :
    ∃ s', run c s [.tick (d - s.now), .pFire, .pStart] = some s' ∧ s'.p = .sync true false ∧
      s'.now = s.now + (d - s.now) ∧ s'.target = s.bl.oldest + s.bl.nE := by
  let s1 : State := { s with now := s.now + (d - s.now) }
  have hp1 : s1.p = .timer d a := hp
  have hd1 : d ≤ s1.now := by show d ≤ s.now + (d - s.now); omega
  let s2 : State := { s1 with p := .lock true, lastSync := s1.now }
  obtain ⟨s3, h3, hp3, hn3, ht3⟩ := @step_pStart c s2 true rfl
  refine ⟨s3, ?_, hp3, hn3, ht3⟩
  exact run_cons (step_tick c s _) (run_cons (step_pFire hp1 hd1) (run_cons h3 rfl))

def PPc.rank : PPc → Nat
  | .get => 5
  | .poll _ => 4
  | .wait _ => 3
  | .timer _ _ => 2
  | .lock _ => 1
  | _ => 0

/-- The put loop's own next action while it has not yet reached `NotifySyncStarting`. -/
def putNext : PPc → Option Act
  | .get => some .pGet
  | .poll _ => some .pPoll
  | .wait _ => some .pWake
  | .timer _ _ => some .pFire
  | .lock _ => some .pStart
  | _ => none

/-! ### the allocator's free list -/

theorem BL.fin_free {b b' : BL} {abs e : Nat} {r : FinRes} (hf : b.fin abs e = some (b', r)) :
    b'.free = b.free := by
  unfold BL.fin at hf
  by_cases hc : b.closedW = true
  · rw [if_pos hc] at hf
    injection hf with hf; injection hf with h1 h2
    rw [← h1]
  · rw [if_neg hc] at hf
    by_cases hr : abs < b.totalReleased
    · rw [if_pos hr] at hf
      injection hf with hf; injection hf with h1 h2
      rw [← h1]
    · rw [if_neg hr] at hf
      by_cases hi : abs - b.totalReleased ≥ b.blocks.length
      · rw [if_pos hi] at hf; cases hf
      · rw [if_neg hi] at hf
        simp only at hf
        generalize (b.epochLast.length == b.syncingE ||
          match b.epochLast.getLast? with
          | some l => decide (l < abs)
          | none => true) = cond at hf
        cases cond
        · rw [if_neg (by simp)] at hf
          injection hf with hf; injection hf with h1 h2; rw [← h1]
        · rw [if_pos rfl] at hf
          injection hf with hf; injection hf with h1 h2; rw [← h1]

/-- The free list only grows in `NotifyPersistentStateWritten`. -/
theorem free_subset_of_Step {c : Cfg} {s s' : State} {a : Act} (h1 : Inv1 s) (hs : Step c s a s')
    (hp : a ≠ .pW .notify) (hr : a ≠ .rW .notify) : ∀ id, id ∈ s'.bl.free → id ∈ s.bl.free := by
  have wcase : ∀ {w w' : WPc} {wa : WAct} {s1 : State} {fin : Bool}, WStep c s w wa s1 w' fin → wa ≠ .notify →
      ∀ id, id ∈ s1.bl.free → id ∈ s.bl.free := by
    intro w w' wa s1 fin hw hne id hid
    cases hw with
    | get hl =>
      obtain ⟨bs, _, heq, _, _⟩ := BL.getState_spec h1.bl
      rw [heq] at hid; exact hid
    | retOk snap => exact hid
    | retFail snap => exact hid
    | notify => exact absurd rfl hne
    | wake d hd => exact hid
  intro id hid
  cases hs with
  | pushOk b' hpb =>
    obtain ⟨x, rest, hfree, rfl⟩ := BL.pushBack_eq hpb
    rw [hfree]; exact List.mem_cons_of_mem _ hid
  | pop b' hpp =>
    obtain ⟨f, rest, _, rfl⟩ := BL.popFront_eq hpp
    exact hid
  | fin abs e b' r hf => rw [← BL.fin_free hf]; exact hid
  | pW kg w wa s1 w' fin hpw hw =>
    exact wcase hw (by intro he; exact hp (by rw [he])) id hid
  | rW w wa s1 w' fin hrw hw =>
    exact wcase hw (by intro he; exact hr (by rw [he])) id hid
  | _ => exact hid

end BB.Syncer
