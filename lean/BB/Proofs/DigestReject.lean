import BB.Proofs.DigestInst
/-!
Helper lemmas for C20, part 7: what the parsers accept is well-formed (hence malformed input is
rejected), which error each kind of malformed input produces, and the parsers never reach a
`panic` outcome.
-/
namespace BB.Digest
open BB.Gen.Digest

/-! ### `NewDigest` -/

theorem newDigest_ok {f : BareFn} {inst hash : Str} {size : Int} {d : Str}
    (h : newDigest f inst hash size = .ok d) :
    ValidHash f hash ∧ 0 ≤ size ∧ d = pack f.enum hash size.toNat inst := by
  simp only [newDigest] at h
  by_cases h1 : hash.length ≠ 2 * f.hashBytes
  · simp [h1] at h
  · rw [if_neg h1] at h
    by_cases h2 : (!(hash.all isLowerHex)) = true
    · simp [h2] at h
    · rw [if_neg h2] at h
      by_cases h3 : size < 0
      · simp [h3] at h
      · rw [if_neg h3] at h
        simp only [Except.ok.injEq] at h
        exact ⟨⟨by simpa using h1, by simpa using h2⟩, by omega, h.symm⟩

theorem newDigest_hashLength (f : BareFn) (inst hash : Str) (size : Int) (h : hash.length ≠ 2 * f.hashBytes) :
    newDigest f inst hash size = .error .hashLength := by simp [newDigest, h]

theorem newDigest_hashChar (f : BareFn) (inst hash : Str) (size : Int) (hl : hash.length = 2 * f.hashBytes)
    (c : Char) (hc : c ∈ hash) (hx : isLowerHex c = false) :
    newDigest f inst hash size = .error .hashChar := by
  have : hash.all isLowerHex = false := by
    cases h : hash.all isLowerHex with
    | false => rfl
    | true => rw [List.all_eq_true.mp h c hc] at hx; cases hx
  simp [newDigest, hl, this]

theorem newDigest_negSize (f : BareFn) (inst hash : Str) (size : Int) (hv : ValidHash f hash) (h : size < 0) :
    newDigest f inst hash size = .error .negSize := by simp [newDigest, hv.1, hv.2, h]

/-! ### Numbers -/

theorem digitVal_some {c : Char} {d : Nat} (h : digitVal c = some d) : IsDigit c := by
  simp only [digitVal] at h
  by_cases hc : '0' ≤ c ∧ c ≤ '9'
  · exact hc
  · simp [hc] at h

theorem decValAux_digits : ∀ (s : Str) (acc n : Nat), decValAux s acc = some n → ∀ c ∈ s, IsDigit c
  | [], _, _, _ => by simp
  | c :: cs, acc, n, h => by
    simp only [decValAux] at h
    cases hd : digitVal c with
    | none => simp [hd] at h
    | some d =>
      simp only [hd] at h
      intro x hx
      rcases List.mem_cons.mp hx with e | hx
      · subst e; exact digitVal_some hd
      · exact decValAux_digits cs _ n h x hx

/-- What `strconv.ParseInt(s, 10, 64)` accepts: an optional sign and at least one digit, nothing
else, and the value is in the range of int64. -/
theorem parseInt64_some {s : Str} {n : Int} (h : parseInt64 s = some n) :
    -(2 ^ 63 : Int) ≤ n ∧ n < 2 ^ 63 ∧
    ∃ body, body ≠ [] ∧ (∀ c ∈ body, IsDigit c) ∧ (s = body ∨ s = '+' :: body ∨ s = '-' :: body) := by
  cases s with
  | nil => simp [parseInt64] at h
  | cons c rest =>
    simp only [parseInt64] at h
    cases hu : parseUint (if c = '+' ∨ c = '-' then rest else c :: rest) with
    | none => simp [hu] at h
    | some m =>
      simp only [hu] at h
      -- the body is non-empty digits
      have hbody : (if c = '+' ∨ c = '-' then rest else c :: rest) ≠ [] ∧
          ∀ x ∈ (if c = '+' ∨ c = '-' then rest else c :: rest), IsDigit x := by
        simp only [parseUint] at hu
        by_cases he : (if c = '+' ∨ c = '-' then rest else c :: rest).isEmpty = true
        · simp [he] at hu
        · rw [if_neg he] at hu
          exact ⟨by simpa using he, decValAux_digits _ _ _ hu⟩
      have hshape : (c :: rest = (if c = '+' ∨ c = '-' then rest else c :: rest)) ∨
          (c :: rest = '+' :: (if c = '+' ∨ c = '-' then rest else c :: rest)) ∨
          (c :: rest = '-' :: (if c = '+' ∨ c = '-' then rest else c :: rest)) := by
        by_cases hp : c = '+'
        · subst hp; simp
        · by_cases hm : c = '-'
          · subst hm; simp
          · simp [hp, hm]
      by_cases hneg : c = '-'
      · simp only [hneg, decide_true, if_true] at h
        by_cases hr : m ≤ 2 ^ 63
        · rw [if_pos hr] at h
          simp only [Option.some.injEq] at h
          refine ⟨by omega, by omega, _, hbody.1, hbody.2, hshape⟩
        · simp [hr] at h
      · simp only [hneg, decide_false, Bool.false_eq_true, if_false] at h
        by_cases hr : m < 2 ^ 63
        · rw [if_pos hr] at h
          simp only [Option.some.injEq] at h
          refine ⟨by omega, by omega, _, hbody.1, hbody.2, hshape⟩
        · simp [hr] at h

/-! ### The stages of the resource-name parsers -/

theorem instFromComponents_ok {cs : List Str} {inst : Str} (h : instFromComponents cs = .ok inst) :
    inst = join cs ∧ ∀ c ∈ cs, c ≠ [] ∧ isReserved c = false := by
  simp only [instFromComponents] at h
  cases hv : validateComponents cs with
  | error e => simp [hv] at h
  | ok u =>
    simp only [hv, Except.ok.injEq] at h
    exact ⟨h.symm, validateComponents_ok hv⟩

/-- The compression marker the parser saw (possibly none, which the write parser lets through). -/
inductive MarkerShape : List Str → Nat → List Str → Prop
  | blobs (rest : List Str) : MarkerShape (kwBlobs :: rest) 0 rest
  | compressed (name : Str) (c : Nat) (rest : List Str) : compressorByName name = some c →
      MarkerShape (kwCompressedBlobs :: name :: rest) c rest
  | absent (t0 : Str) (rest : List Str) : t0 ≠ kwBlobs → t0 ≠ kwCompressedBlobs →
      MarkerShape (t0 :: rest) 0 (t0 :: rest)

theorem stripCompression_ok {tr tr' : List Str} {c : Nat} (h : stripCompression tr = .ok (c, tr')) :
    MarkerShape tr c tr' := by
  cases tr with
  | nil => simp [stripCompression] at h
  | cons t0 rest =>
    simp only [stripCompression] at h
    by_cases h1 : t0 = kwBlobs
    · simp only [h1, if_true, Except.ok.injEq, Prod.mk.injEq] at h
      obtain ⟨rfl, rfl⟩ := h
      rw [h1]; exact .blobs _
    · rw [if_neg h1] at h
      by_cases h2 : t0 = kwCompressedBlobs
      · rw [if_pos h2] at h
        cases rest with
        | nil => simp at h
        | cons name rest' =>
          simp only at h
          cases hn : compressorByName name with
          | none => simp [hn] at h
          | some c' =>
            simp only [hn, Except.ok.injEq, Prod.mk.injEq] at h
            obtain ⟨rfl, rfl⟩ := h
            rw [h2]; exact .compressed _ _ _ hn
      · rw [if_neg h2] at h
        simp only [Except.ok.injEq, Prod.mk.injEq] at h
        obtain ⟨rfl, rfl⟩ := h
        exact .absent _ _ h1 h2

/-- How the digest function was determined. -/
inductive FunctionShape : List Str → BareFn → List Str → Prop
  | named (name : Str) (f : BareFn) (rest : List Str) : fnByName name = some f → FunctionShape (name :: rest) f rest
  | inferred (t0 : Str) (f : BareFn) (rest : List Str) : fnByName t0 = none → getBareFunction 0 t0.length = some f →
      FunctionShape (t0 :: rest) f (t0 :: rest)

theorem resolveFunction_ok {tr tr' : List Str} {f : BareFn} (h : resolveFunction tr = .ok (f, tr')) :
    FunctionShape tr f tr' ∧ KnownFn f := by
  cases tr with
  | nil => simp [resolveFunction] at h
  | cons t0 rest =>
    simp only [resolveFunction] at h
    cases h1 : fnByName t0 with
    | some bf =>
      simp only [h1, Except.ok.injEq, Prod.mk.injEq] at h
      obtain ⟨rfl, rfl⟩ := h
      exact ⟨.named _ _ _ h1, fnByName_known h1⟩
    | none =>
      simp only [h1] at h
      cases h2 : getBareFunction 0 t0.length with
      | none => simp [h2] at h
      | some bf =>
        simp only [h2, Except.ok.injEq, Prod.mk.injEq] at h
        obtain ⟨rfl, rfl⟩ := h
        exact ⟨.inferred _ _ _ h1 h2, ⟨_, _, h2⟩⟩

theorem finishDigest_ok {f : BareFn} {inst : Str} {c c' : Nat} {tr : List Str} {d : Str}
    (h : finishDigest f inst c tr = .ok (d, c')) :
    c' = c ∧ ∃ hash szs post n, tr = hash :: szs :: post ∧ parseInt64 szs = some n ∧ 0 ≤ n ∧
      ValidHash f hash ∧ d = pack f.enum hash n.toNat inst := by
  cases tr with
  | nil => simp [finishDigest] at h
  | cons hash t =>
    cases t with
    | nil => simp [finishDigest] at h
    | cons szs post =>
      simp only [finishDigest] at h
      cases hp : parseInt64 szs with
      | none => simp [hp] at h
      | some n =>
        simp only [hp] at h
        cases hn : newDigest f inst hash n with
        | error e => simp [hn] at h
        | ok d' =>
          simp only [hn, Except.ok.injEq, Prod.mk.injEq] at h
          obtain ⟨rfl, rfl⟩ := h
          obtain ⟨hv, h0, hd⟩ := newDigest_ok hn
          exact ⟨rfl, hash, szs, post, n, rfl, hp, h0, hv, hd⟩

/-- Everything `newDigestFromByteStreamPathCommon` accepts, spelled out. -/
structure Accepted (hdr tr : List Str) (d : Str) (c : Nat) : Prop where
  ex : ∃ (f : BareFn) (hash szs : Str) (n : Int) (tr1 tr2 post : List Str),
    KnownFn f ∧ ValidHash f hash ∧ 0 ≤ n ∧ n < 2 ^ 63 ∧
    (∀ x ∈ hdr, x ≠ [] ∧ isReserved x = false) ∧
    (c = 0 ∨ (SupportedCompressor c ∧ c ≠ 0)) ∧
    MarkerShape tr c tr1 ∧ FunctionShape tr1 f tr2 ∧ tr2 = hash :: szs :: post ∧
    parseInt64 szs = some n ∧ d = pack f.enum hash n.toNat (join hdr)

theorem common_ok {hdr tr : List Str} {d : Str} {c : Nat} (h : common hdr tr = .ok (d, c)) :
    Accepted hdr tr d c := by
  simp only [common] at h
  cases hi : instFromComponents hdr with
  | error e => simp [hi] at h
  | ok inst =>
    simp only [hi] at h
    cases hs : stripCompression tr with
    | error e => simp [hs] at h
    | ok r =>
      obtain ⟨c0, tr1⟩ := r
      simp only [hs] at h
      cases hr : resolveFunction tr1 with
      | error e => simp [hr] at h
      | ok r2 =>
        obtain ⟨f, tr2⟩ := r2
        simp only [hr] at h
        obtain ⟨hc, hash, szs, post, n, htr2, hp, h0, hv, hd⟩ := finishDigest_ok h
        subst hc
        obtain ⟨hinst, hcomps⟩ := instFromComponents_ok hi
        obtain ⟨hfs, hk⟩ := resolveFunction_ok hr
        have hm := stripCompression_ok hs
        have hrange := (parseInt64_some hp).2.1
        have hcs : c = 0 ∨ (SupportedCompressor c ∧ c ≠ 0) := by
          cases hm with
          | blobs _ => exact Or.inl rfl
          | compressed name _ _ hn => exact Or.inr (compressorByName_supported hn)
          | absent _ _ _ _ => exact Or.inl rfl
        exact ⟨f, hash, szs, n, tr1, tr2, post, hk, hv, h0, hrange, hcomps, hcs, hm, hfs, htr2, hp, by rw [hd, hinst]⟩

/-! ### The search loop -/

theorem findSplit_ok (isMarker : Str → Bool) (k : Nat) : ∀ (l hdrRev hdr tr : List Str),
    findSplit isMarker k hdrRev l = .ok (hdr, tr) →
    hdr ++ tr = hdrRev.reverse ++ l ∧ (k ≤ l.length → k ≤ tr.length) ∧
    ∃ m rest, tr = m :: rest ∧ isMarker m = true
  | [], _, _, _, h => by simp [findSplit] at h
  | x :: rest, hdrRev, hdr, tr, h => by
    simp only [findSplit] at h
    by_cases hm : isMarker x = true
    · simp only [hm, if_true, Except.ok.injEq, Prod.mk.injEq] at h
      obtain ⟨rfl, rfl⟩ := h
      exact ⟨rfl, fun h => h, x, rest, rfl, hm⟩
    · rw [if_neg hm] at h
      by_cases hl : rest.length < k
      · simp [hl] at h
      · rw [if_neg hl] at h
        obtain ⟨h1, h2, h3⟩ := findSplit_ok isMarker k rest (x :: hdrRev) hdr tr h
        refine ⟨by rw [h1]; simp, fun _ => h2 (by omega), h3⟩

theorem findSplit_no_panic (isMarker : Str → Bool) (k : Nat) (hk : 0 < k) : ∀ (l hdrRev : List Str),
    k ≤ l.length → findSplit isMarker k hdrRev l ≠ .error .panic
  | [], _, h => by simp at h; omega
  | x :: rest, hdrRev, _ => by
    simp only [findSplit]
    by_cases hm : isMarker x = true
    · simp [hm]
    · rw [if_neg hm]
      by_cases hl : rest.length < k
      · simp [hl]
      · rw [if_neg hl]
        exact findSplit_no_panic isMarker k hk rest _ (by omega)

theorem findSplit_header_mem (isMarker : Str → Bool) (k : Nat) (l hdr tr : List Str)
    (h : findSplit isMarker k [] l = .ok (hdr, tr)) : ∀ x ∈ hdr, x ∈ l := by
  obtain ⟨h1, _, _⟩ := findSplit_ok isMarker k l [] hdr tr h
  simp only [List.reverse_nil, List.nil_append] at h1
  intro x hx
  rw [← h1]; exact List.mem_append_left _ hx

/-! ### No panics -/

theorem validateComponents_no_panic : ∀ (cs : List Str), (∀ c ∈ cs, c ≠ []) → validateComponents cs ≠ .error .panic
  | [], _ => by simp [validateComponents]
  | c :: cs, h => by
    have hc : c.isEmpty = false := by simpa using h c (by simp)
    simp only [validateComponents, hc, Bool.false_eq_true, if_false]
    by_cases hr : isReserved c = true
    · simp [hr]
    · rw [if_neg hr]
      exact validateComponents_no_panic cs (fun x hx => h x (List.mem_cons_of_mem _ hx))

theorem newDigest_no_panic (f : BareFn) (inst hash : Str) (size : Int) : newDigest f inst hash size ≠ .error .panic := by
  simp only [newDigest]
  split
  · simp
  · split
    · simp
    · split <;> simp

theorem finishDigest_no_panic (bf : BareFn) (inst : Str) (c : Nat) (tr : List Str) :
    finishDigest bf inst c tr ≠ .error .panic := by
  cases tr with
  | nil => simp [finishDigest]
  | cons h t =>
    cases t with
    | nil => simp [finishDigest]
    | cons sz post =>
      simp only [finishDigest]
      cases hp : parseInt64 sz with
      | none => simp
      | some n =>
        simp only
        cases hn : newDigest bf inst h n with
        | error e =>
          simp only
          intro he
          simp only [Except.error.injEq] at he
          exact newDigest_no_panic bf inst h n (by rw [hn, he])
        | ok d => simp

theorem resolve_finish_no_panic (inst : Str) (c : Nat) (tr : List Str) (hne : tr ≠ []) :
    (match resolveFunction tr with
      | .error e => (.error e : Except Err (Str × Nat))
      | .ok (bf, trailer) => finishDigest bf inst c trailer) ≠ .error .panic := by
  cases tr with
  | nil => exact absurd rfl hne
  | cons a as =>
    simp only [resolveFunction]
    cases h1 : fnByName a with
    | some bf => simp only; exact finishDigest_no_panic _ _ _ _
    | none =>
      simp only
      cases h2 : getBareFunction 0 a.length with
      | none => simp
      | some bf => simp only; exact finishDigest_no_panic _ _ _ _

theorem common_no_panic (hdr tr : List Str) (hh : ∀ c ∈ hdr, c ≠ []) (ht : 3 ≤ tr.length) :
    common hdr tr ≠ .error .panic := by
  simp only [common, instFromComponents]
  have hv := validateComponents_no_panic hdr hh
  cases hvc : validateComponents hdr with
  | error e => simp only; intro he; simp only [Except.error.injEq] at he; exact hv (by rw [hvc, he])
  | ok _ =>
    simp only
    cases tr with
    | nil => simp at ht
    | cons t0 r1 =>
      cases r1 with
      | nil => simp at ht
      | cons t1 r2 =>
        cases r2 with
        | nil => simp at ht
        | cons t2 rest =>
          simp only [stripCompression]
          by_cases h1 : t0 = kwBlobs
          · simp only [h1, if_true]
            exact resolve_finish_no_panic _ 0 _ (by simp)
          · rw [if_neg h1]
            by_cases h2 : t0 = kwCompressedBlobs
            · rw [if_pos h2]
              cases hn : compressorByName t1 with
              | none => simp
              | some c => simp only; exact resolve_finish_no_panic _ c _ (by simp)
            · rw [if_neg h2]
              exact resolve_finish_no_panic _ 0 _ (by simp)

end BB.Digest
