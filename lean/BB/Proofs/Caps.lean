import BB.Proofs.Alloc
/-!
How the free capacity of individual blocks evolves: the loops of `findBlockWithSpace` only drop
blocks at the front and append full blocks at the end; the capacity of a surviving block changes
only when space is reserved in it.
-/
namespace BB.BlockMap

/-- Free capacity of the block with absolute number `blk`, if it is in the list. -/
def capOf (s : St) (blk : Nat) : Option Nat :=
  if s.released ≤ blk then s.caps[blk - s.released]? else none

/-- Surviving blocks keep their capacity; blocks never come back; fresh blocks are full. -/
structure CapsKeep (c : Cfg) (s s' : St) : Prop where
  keep : ∀ blk, s'.released ≤ blk → blk < s.released + s.caps.length → capOf s' blk = capOf s blk
  rel : s.released ≤ s'.released
  fresh : ∀ blk, s.released + s.caps.length ≤ blk → ∀ cap, capOf s' blk = some cap → cap = c.blockSize
  endMono : s.released + s.caps.length ≤ s'.released + s'.caps.length

theorem CapsKeep.refl (c : Cfg) (s : St) : CapsKeep c s s :=
  ⟨fun _ _ _ => rfl, Nat.le_refl _, fun blk h cap hc => by
    unfold capOf at hc
    split at hc
    · have := (List.getElem?_eq_some_iff.mp hc).1; omega
    · simp at hc, Nat.le_refl _⟩

theorem CapsKeep.trans {c : Cfg} {s s' s'' : St} (h1 : CapsKeep c s s') (h2 : CapsKeep c s' s'') : CapsKeep c s s'' := by
  have r1 := h1.rel; have r2 := h2.rel; have e1 := h1.endMono; have e2 := h2.endMono
  refine ⟨?_, by omega, ?_, by omega⟩
  · intro blk hb hlt
    rw [h2.keep blk hb (by omega), h1.keep blk (by omega) hlt]
  · intro blk hb cap hc
    by_cases hlt : blk < s'.released + s'.caps.length
    · by_cases hr : s''.released ≤ blk
      · rw [h2.keep blk hr hlt] at hc
        exact h1.fresh blk hb cap hc
      · unfold capOf at hc; simp [hr] at hc
    · exact h2.fresh blk (by omega) cap hc

/-- States that agree on `released` and `caps`. -/
theorem capsKeep_of_eq {c : Cfg} {s s' : St} (hr : s'.released = s.released) (hc : s'.caps = s.caps) : CapsKeep c s s' := by
  have e : ∀ blk, capOf s' blk = capOf s blk := by intro blk; simp [capOf, hr, hc]
  have := CapsKeep.refl c s
  exact ⟨fun blk _ _ => e blk, by omega, fun blk h cap hcap => this.fresh blk h cap (by rw [← e]; exact hcap), by rw [hr, hc]; exact Nat.le_refl _⟩

theorem popFront_caps {c : Cfg} {s s' : St} (h : popFront s = some s') : CapsKeep c s s' := by
  unfold popFront at h
  cases hc : s.caps with
  | nil => simp [hc] at h
  | cons x rest =>
    simp [hc] at h
    subst h
    refine ⟨?_, by simp, ?_, by simp [hc]; omega⟩
    · intro blk hb hlt
      simp only [capOf]
      have h1 : s.released + 1 ≤ blk := hb
      have h2 : s.released ≤ blk := by omega
      simp only [h1, h2, if_true, hc]
      have : blk - s.released = (blk - (s.released + 1)) + 1 := by omega
      rw [this, List.getElem?_cons_succ]
    · intro blk hb cap hcap
      simp only [capOf] at hcap
      split at hcap
      · rename_i hr
        have hl := (List.getElem?_eq_some_iff.mp hcap).1
        rw [hc] at hb
        simp only [List.length_cons] at hb
        have hr' : s.released + 1 ≤ blk := hr
        omega
      · simp at hcap

theorem pushBack_caps {c : Cfg} {s s' : St} (h : pushBack c s = some s') : CapsKeep c s s' := by
  obtain ⟨_, e⟩ := pushBack_some h
  subst e
  refine ⟨?_, Nat.le_refl _, ?_, by simp⟩
  · intro blk hb hlt
    simp only [capOf]
    simp at hb
    simp only [hb, if_true]
    rw [List.getElem?_append_left (by omega)]
  · intro blk hb cap hcap
    simp only [capOf] at hcap
    split at hcap
    · rename_i hr
      have hl := (List.getElem?_eq_some_iff.mp hcap).1
      simp at hl
      have : blk - s.released = s.caps.length := by omega
      rw [this] at hcap
      simp at hcap
      omega
    · simp at hcap

end BB.BlockMap

namespace BB.BlockMap

def ResC (c : Cfg) (s : St) : Res St → Prop
  | .ok s' => CapsKeep c s s'
  | .err _ s' => CapsKeep c s s'
  | _ => True

theorem quarantineStep_caps {c : Cfg} {s s' : St} (h : quarantineStep s = some s') : CapsKeep c s s' := by
  unfold quarantineStep at h
  cases hp : popFront s with
  | none => simp [hp] at h
  | some s1 =>
    have k1 : CapsKeep c s s1 := popFront_caps hp
    simp [hp] at h
    subst h
    split
    · exact k1.trans (capsKeep_of_eq rfl rfl)
    · split
      · exact k1.trans (capsKeep_of_eq rfl rfl)
      · exact k1.trans (capsKeep_of_eq rfl rfl)

theorem quarantineLoop_caps (c : Cfg) : ∀ (n : Nat) (s : St), ResC c s (quarantineLoop n s) := by
  intro n
  induction n with
  | zero => intro s; exact CapsKeep.refl c s
  | succ n ih =>
    intro s
    unfold quarantineLoop
    cases hq : quarantineStep s with
    | none => trivial
    | some s1 =>
      have k1 : CapsKeep c s s1 := quarantineStep_caps hq
      have := ih s1
      simp only []
      cases hl : quarantineLoop n s1 with
      | ok s2 => rw [hl] at this; exact k1.trans this
      | err e s2 => rw [hl] at this; exact k1.trans this
      | stuck => trivial
      | panic => trivial

theorem growLoop_caps (c : Cfg) : ∀ (fuel : Nat) (s : St), ResC c s (growLoop c fuel s) := by
  intro fuel
  induction fuel with
  | zero => intro s; trivial
  | succ fuel ih =>
    intro s
    unfold growLoop
    split
    · cases hp : pushBack c s with
      | none => exact CapsKeep.refl c s
      | some s1 =>
        have k1 : CapsKeep c s s1 := pushBack_caps hp
        have k2 : CapsKeep c s { s1 with new := s1.new + 1 } := k1.trans (capsKeep_of_eq rfl rfl)
        have := ih { s1 with new := s1.new + 1 }
        simp only []
        cases hl : growLoop c fuel { s1 with new := s1.new + 1 } with
        | ok s2 => rw [hl] at this; exact k2.trans this
        | err e s2 => rw [hl] at this; exact k2.trans this
        | stuck => trivial
        | panic => trivial
    · exact CapsKeep.refl c s

theorem rotateStep_caps (c : Cfg) (s : St) : ResC c s (rotateStep c s) := by
  unfold rotateStep
  split
  · exact capsKeep_of_eq rfl rfl
  · cases hp : pushBack c s with
    | none => exact CapsKeep.refl c s
    | some s1 =>
      have k1 : CapsKeep c s s1 := pushBack_caps hp
      simp only []
      split
      · exact k1.trans (capsKeep_of_eq rfl rfl)
      · split
        · cases hpop : popFront { s1 with old := s1.old + 1 } with
          | none => trivial
          | some s2 =>
            have k2 : CapsKeep c { s1 with old := s1.old + 1 } s2 := popFront_caps hpop
            have k3 : CapsKeep c s1 { s1 with old := s1.old + 1 } := capsKeep_of_eq rfl rfl
            have k4 : CapsKeep c s2 (resetAlloc { s2 with old := s2.old - 1, toBeReleased := max s2.toBeReleased s2.released }) :=
              capsKeep_of_eq rfl rfl
            exact ((k1.trans k3).trans k2).trans k4
        · exact k1.trans (capsKeep_of_eq rfl rfl)

theorem rotateLoop_caps (c : Cfg) (size : Nat) : ∀ (fuel : Nat) (s : St), ResC c s (rotateLoop c size fuel s) := by
  intro fuel
  induction fuel with
  | zero => intro s; trivial
  | succ fuel ih =>
    intro s
    unfold rotateLoop
    split
    · trivial
    · exact CapsKeep.refl c s
    · have h1 := rotateStep_caps c s
      cases hr : rotateStep c s with
      | ok s1 =>
        rw [hr] at h1
        have := ih s1
        simp only []
        cases hl : rotateLoop c size fuel s1 with
        | ok s2 => rw [hl] at this; exact h1.trans this
        | err e s2 => rw [hl] at this; exact h1.trans this
        | stuck => trivial
        | panic => trivial
      | err e s1 => rw [hr] at h1; exact h1
      | stuck => trivial
      | panic => trivial

theorem pickLoop_caps (c : Cfg) (size : Nat) : ∀ (fuel : Nat) (s : St) (idx : Nat) (s' : St),
    pickLoop c size fuel s = .ok (idx, s') → s'.released = s.released ∧ s'.caps = s.caps := by
  intro fuel
  induction fuel with
  | zero => intro s idx s' h; simp [pickLoop] at h
  | succ fuel ih =>
    intro s idx s' h
    unfold pickLoop at h
    simp only [] at h
    split at h
    · rename_i r hr
      cases h
      split at hr
      · split at hr
        · simp at hr
        · split at hr
          · cases hr; exact ⟨rfl, rfl⟩
          · simp at hr
      · simp at hr
    · split at h
      · simp at h
      · cases hi : incrementAlloc c s with
        | none => simp [hi] at h
        | some s1 =>
          simp [hi] at h
          have e : s1.released = s.released ∧ s1.caps = s.caps := by
            unfold incrementAlloc at hi
            split at hi
            · simp at hi
            · simp at hi; subst hi; exact ⟨rfl, rfl⟩
          obtain ⟨a, b⟩ := ih s1 idx s' h
          exact ⟨by rw [a, e.1], by rw [b, e.2]⟩

def ResC2 (c : Cfg) (s : St) : Res (Nat × St) → Prop
  | .ok (_, s') => CapsKeep c s s'
  | .err _ s' => CapsKeep c s s'
  | _ => True

theorem findBlockWithSpace_caps (c : Cfg) (fuelGrow size : Nat) (s : St) :
    ResC2 c s (findBlockWithSpace c fuelGrow size s) := by
  unfold findBlockWithSpace
  by_cases hsz : size > c.blockSize
  · simp only [hsz, if_true]; exact CapsKeep.refl c s
  · simp only [hsz, if_false]
    have h1 := quarantineLoop_caps c (s.toBeReleased - s.released) s
    cases hq : quarantineLoop (s.toBeReleased - s.released) s with
    | ok s1 =>
      rw [hq] at h1
      have h2 := growLoop_caps c fuelGrow s1
      simp only []
      cases hg : growLoop c fuelGrow s1 with
      | ok s2 =>
        rw [hg] at h2
        have h3 := rotateLoop_caps c size (s2.new + 2) s2
        simp only []
        cases hr : rotateLoop c size (s2.new + 2) s2 with
        | ok s3 =>
          rw [hr] at h3
          simp only []
          cases hp : pickLoop c size (s3.new + 2) s3 with
          | ok r =>
            obtain ⟨idx, s4⟩ := r
            obtain ⟨a, b⟩ := pickLoop_caps c size _ s3 idx s4 hp
            exact ((h1.trans h2).trans h3).trans (capsKeep_of_eq a b)
          | err e s4 => exact absurd hp (pickLoop_no_err c size _ _ _ _)
          | stuck => trivial
          | panic => trivial
        | err e s3 => rw [hr] at h3; exact (h1.trans h2).trans h3
        | stuck => trivial
        | panic => trivial
      | err e s2 => rw [hg] at h2; exact h1.trans h2
      | stuck => trivial
      | panic => trivial
    | err e s1 => rw [hq] at h1; exact h1
    | stuck => trivial
    | panic => trivial

end BB.BlockMap

namespace BB.BlockMap

/-- Where `Put` reserves space, in terms of per-block capacities: the ticket starts at the end of
the used prefix of its block (offset 0 in a fresh block) and the prefix then ends at the ticket's end;
no other surviving block changes. -/
theorem put_caps (c : Cfg) (fuelGrow size : Nat) (s : St) (t : Ticket) (s' : St)
    (hc : CfgOK c) (hw : WF c s) (hf : c.policy.bound ≤ fuelGrow)
    (h : put c fuelGrow size s = .ok (t, s')) :
    s.released ≤ s'.released ∧ s'.released ≤ t.blk ∧
    s.released + s.caps.length ≤ s'.released + s'.caps.length ∧
    (∀ blk, blk ≠ t.blk → s'.released ≤ blk → blk < s.released + s.caps.length → capOf s' blk = capOf s blk) ∧
    (∀ blk, blk ≠ t.blk → s.released + s.caps.length ≤ blk → ∀ cap, capOf s' blk = some cap → cap = c.blockSize) ∧
    ∃ cap0, capOf s' t.blk = some (cap0 - t.size) ∧ t.off = c.blockSize - cap0 ∧ t.size ≤ cap0 ∧ cap0 ≤ c.blockSize ∧
      (t.blk < s.released + s.caps.length → capOf s t.blk = some cap0) ∧
      (s.released + s.caps.length ≤ t.blk → cap0 = c.blockSize) := by
  have hsz : size ≤ c.blockSize := by
    by_cases hsz : size ≤ c.blockSize
    · exact hsz
    · unfold put at h
      rw [findBlockWithSpace_too_big c fuelGrow size s (by omega)] at h
      simp at h
  have hfits : t.off + size ≤ c.blockSize ∧ t.size = size := by
    rcases put_ok c fuelGrow size s hc hw hsz hf with ⟨t2, s2, e2, _, hs, _, _, hfit, _, _⟩ | ⟨s2, e2, _⟩
    · rw [h] at e2; cases e2; exact ⟨hfit, hs⟩
    · rw [h] at e2; cases e2
  unfold put at h
  have hk := findBlockWithSpace_caps c fuelGrow size s
  have hwf1 : ∀ idx s1, findBlockWithSpace c fuelGrow size s = .ok (idx, s1) → WF c s1 := by
    intro idx s1 e
    rcases findBlockWithSpace_ok c fuelGrow size s hc hw hsz hf with ⟨i2, s2, e2, st, _⟩ | ⟨s2, e2, _⟩
    · rw [e] at e2; cases e2; exact st.wf
    · rw [e] at e2; cases e2
  cases hfb : findBlockWithSpace c fuelGrow size s with
  | ok r =>
    obtain ⟨idx, s1⟩ := r
    rw [hfb] at h hk
    have hw1 := hwf1 idx s1 hfb
    simp only [] at h
    cases hcap : s1.caps[idx]? with
    | none => rw [hcap] at h; simp at h
    | some cap =>
      rw [hcap] at h
      simp at h
      obtain ⟨ht, hs⟩ := h
      subst ht; subst hs
      have hidx := (List.getElem?_eq_some_iff.mp hcap).1
      have hcapbs : cap ≤ c.blockSize := hw1.cap cap (List.mem_of_getElem? hcap)
      have hk' : CapsKeep c s s1 := hk
      have hfit1 : (c.blockSize - cap) + size ≤ c.blockSize := hfits.1
      have hsc : size ≤ cap := by omega
      refine ⟨hk'.rel, by simp, by simpa using hk'.endMono, ?_, ?_, cap, ?_, rfl, hsc, hcapbs, ?_, ?_⟩
      · intro blk hne hb hlt
        simp only at hne hb
        rw [← hk'.keep blk hb hlt]
        simp only [capOf, hb, if_true]
        rw [List.getElem?_set_ne (by omega)]
      · intro blk hne hb cap1 hcap1
        simp only at hne
        refine hk'.fresh blk hb cap1 ?_
        simp only [capOf] at hcap1 ⊢
        split at hcap1
        · rename_i hr
          simp only [hr, if_true]
          rw [List.getElem?_set_ne (by omega)] at hcap1
          exact hcap1
        · simp at hcap1
      · simp [capOf, hidx]
      · intro hlt
        have := hk'.keep (s1.released + idx) (by omega) hlt
        rw [← this]
        simp [capOf, hcap]
      · intro hge
        exact hk'.fresh (s1.released + idx) hge cap (by simp [capOf, hcap])
  | err e s1 => rw [hfb] at h; simp at h
  | stuck => rw [hfb] at h; simp at h
  | panic => rw [hfb] at h; simp at h

end BB.BlockMap
