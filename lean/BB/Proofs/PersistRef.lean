import BB.Proofs.PersistFin
/-!
# `BlockReferenceToBlockIndex` / `BlockIndexToBlockReference`: the epoch arithmetic
-/
namespace BB.Persist

theorem refToIdx_iff (p : PBL) (e bfl i sd : Nat) :
    p.refToIdx e bfl = some (i, sd) ↔
      p.oldestEpoch ≤ e ∧ ∃ last, p.seeds[e - p.oldestEpoch]? = some sd ∧
        p.epochLast[e - p.oldestEpoch]? = some last ∧ p.released ≤ last ∧ bfl ≤ last - p.released ∧
        i = last - p.released - bfl := by
  unfold PBL.refToIdx
  by_cases he : e < p.oldestEpoch
  · simp [he]; omega
  · simp only [he, if_false]
    cases hs : p.seeds[e - p.oldestEpoch]? with
    | none => simp
    | some sd' =>
      cases hl : p.epochLast[e - p.oldestEpoch]? with
      | none => simp
      | some last =>
        simp only []
        by_cases h1 : last < p.released
        · simp [h1]; intro _ _ _; omega
        · by_cases h2 : bfl > last - p.released
          · simp [h1, h2]; intro _ _ _ _; omega
          · simp [h1, h2]
            constructor
            · rintro ⟨rfl, rfl⟩; exact ⟨by omega, rfl, by omega, by omega, rfl⟩
            · rintro ⟨_, rfl, _, _, rfl⟩; exact ⟨rfl, rfl⟩

/-- A reference resolves to a block of the list. -/
theorem refToIdx_lt {p : PBL} (h : WFP p) {e bfl i sd : Nat} (hr : p.refToIdx e bfl = some (i, sd)) :
    i < p.blocks.length := by
  obtain ⟨_, last, _, hl, _, _, rfl⟩ := (refToIdx_iff p e bfl i sd).1 hr
  have := h.last_range hl
  omega

/-- The block a reference resolves to lies `bfl` blocks before the epoch's last block. -/
theorem refToIdx_zero {p : PBL} {e bfl i sd : Nat} (hr : p.refToIdx e bfl = some (i, sd)) :
    p.refToIdx e 0 = some (i + bfl, sd) := by
  obtain ⟨h0, last, h1, h2, h3, h4, rfl⟩ := (refToIdx_iff p e bfl _ sd).1 hr
  exact (refToIdx_iff p e 0 _ sd).2 ⟨h0, last, h1, h2, h3, by omega, by omega⟩

theorem refToIdx_of_zero {p : PBL} {e bfl i0 sd : Nat} (hr : p.refToIdx e 0 = some (i0, sd)) (hb : bfl ≤ i0) :
    p.refToIdx e bfl = some (i0 - bfl, sd) := by
  obtain ⟨h0, last, h1, h2, h3, _, rfl⟩ := (refToIdx_iff p e 0 _ sd).1 hr
  exact (refToIdx_iff p e bfl _ sd).2 ⟨h0, last, h1, h2, h3, by omega, by omega⟩

/-- `BlockIndexToBlockReference` followed by `BlockReferenceToBlockIndex` is the identity. -/
theorem idxToRef_refToIdx {p : PBL} (h : WFP p) {idx e bfl sd : Nat} (hr : p.idxToRef idx = some (e, bfl, sd)) :
    p.refToIdx e bfl = some (idx, sd) := by
  unfold PBL.idxToRef at hr
  cases hs : p.seeds.getLast? with
  | none => simp [hs] at hr
  | some sd' =>
    cases hl : p.epochLast.getLast? with
    | none => simp [hs, hl] at hr
    | some last =>
      simp only [hs, hl] at hr
      split at hr
      · simp at hr
      · rename_i hlt
        simp only [Option.some.injEq, Prod.mk.injEq] at hr
        obtain ⟨rfl, rfl, rfl⟩ := hr
        have hne : p.seeds ≠ [] := by intro hn; simp [hn] at hs
        have hlen : 0 < p.seeds.length := List.length_pos_iff.2 hne
        rw [List.getLast?_eq_getElem?] at hs hl
        refine (refToIdx_iff p _ _ _ _).2 ⟨by omega, last, ?_, ?_, by omega, by omega, by omega⟩
        · rw [← hs]; congr 1; omega
        · rw [← hl, ← h.seedsLen]; congr 1; omega

/-! ### The operations and resolution -/

theorem refToIdx_popFront {p p' : PBL} {b : Blk} (hp : p.popFront = some (b, p')) {e bfl i sd : Nat}
    (hr : p'.refToIdx e bfl = some (i, sd)) : p.refToIdx e bfl = some (i + 1, sd) := by
  unfold PBL.popFront at hp
  split at hp
  · simp at hp
  · rename_i b0 rest hb
    simp only [Option.some.injEq, Prod.mk.injEq] at hp
    obtain ⟨rfl, rfl⟩ := hp
    obtain ⟨h0, last, h1, h2, h3, h4, hi⟩ := (refToIdx_iff _ e bfl i sd).1 hr
    dsimp only at h0 h1 h2 h3 h4 hi
    simp only [List.getElem?_drop] at h1 h2
    subst hi
    refine (refToIdx_iff p e bfl _ sd).2 ⟨by omega, last, ?_, ?_, by omega, by omega, by omega⟩
    · rw [← h1]; congr 1; omega
    · rw [← h2]; congr 1; omega

theorem refToIdx_pushBack (p : PBL) (gid slot e bfl : Nat) : (p.pushBack gid slot).refToIdx e bfl = p.refToIdx e bfl := rfl

theorem refToIdx_setBlk (p : PBL) (i : Nat) (f : Blk → Blk) (e bfl : Nat) : (p.setBlk i f).refToIdx e bfl = p.refToIdx e bfl := rfl

theorem refToIdx_notifySyncStarting (p : PBL) (f : Bool) (e bfl : Nat) :
    (p.notifySyncStarting f).refToIdx e bfl = p.refToIdx e bfl := rfl

theorem refToIdx_notifySyncCompleted (p : PBL) (e bfl : Nat) : p.notifySyncCompleted.refToIdx e bfl = p.refToIdx e bfl := rfl

end BB.Persist
