import BB.Proofs.StoreGrows
import BB.Proofs.Caps
/-!
C01: the region invariant of the store.  Every live index record and every outstanding ticket
(space reserved, copy possibly in progress) lies inside the used prefix of a block of the list;
outstanding tickets are disjoint from each other and from every live record; every live record's
bytes satisfy the content predicate `P key bytes` ("these bytes are a successfully uploaded object
for this key").  `T` is the (ghost) list of outstanding tickets.
-/
namespace BB.Store
open BB.Gen BB.Index BB.BlockMap

/-- `[off, off+size)` lies inside the used prefix of block `blk`, which is in the list. -/
def Within (c : Cfg) (s : St) (blk off size : Nat) : Prop :=
  ∃ cap, capOf s.bm blk = some cap ∧ cap ≤ c.bm.blockSize ∧ off + size ≤ c.bm.blockSize - cap

def NonNeg (l : Loc) : Prop := 0 ≤ l.blockIndex ∧ 0 ≤ l.offsetBytes ∧ 0 ≤ l.sizeBytes

def DisjT (a b : Ticket) : Prop := Disjoint a.blk a.off a.size b.blk b.off b.size

theorem DisjT.symm {a b : Ticket} (h : DisjT a b) : DisjT b a := by
  unfold DisjT Disjoint at *
  omega

structure RInv (c : Cfg) (P : Nat → List Nat → Prop) (s : St) (T : List Ticket) : Prop where
  sinv : SInv c s
  recIn : ∀ k l, InTab s.thr s.tab k l → NonNeg l ∧ Within c s (locBlk l) (locOff l) (locSize l)
  recP : ∀ k l, InTab s.thr s.tab k l → P k (readLoc s l)
  tickIn : ∀ t ∈ T, s.bm.released ≤ t.blk → Within c s t.blk t.off t.size
  tickRec : ∀ t ∈ T, ∀ k l, InTab s.thr s.tab k l → Disjoint (locBlk l) (locOff l) (locSize l) t.blk t.off t.size
  tickTick : T.Pairwise DisjT

theorem inTab_mono {thr thr' : Int} {t : Tab} {k : Nat} {l : Loc} (h : thr ≤ thr') (hi : InTab thr' t k l) :
    InTab thr t k l := by
  obtain ⟨s, R, hR, hl, hk, hloc⟩ := hi
  exact ⟨s, R, hR, by omega, hk, hloc⟩

theorem inTab_live {thr : Int} {t : Tab} {k : Nat} {l : Loc} (hi : InTab thr t k l) : thr ≤ l.blockIndex := by
  obtain ⟨s, R, hR, hl, hk, hloc⟩ := hi
  rw [← hloc]; exact hl

/-- A live, non-negative location lies in a block at or above `released`. -/
theorem live_ge_released {c : Cfg} {s : St} (h : SInv c s) {l : Loc} (hn : NonNeg l) (hl : s.thr ≤ l.blockIndex) :
    s.bm.released ≤ locBlk l := by
  have := h.wf.rel
  simp [St.thr, locBlk] at *
  omega

theorem lookup_inTab {c : Cfg} {s : St} {k : Nat} {l : Loc} (h : lookup c s k = some l) : InTab s.thr s.tab k l := by
  obtain ⟨a', _, _, ⟨R, hR, hRl, hk, _, hloc⟩, _⟩ := (getAux_spec c.idx s.thr s.tab k c.idx.maxGet 0).1 l h
  exact ⟨_, R, hR, hRl, hk, hloc⟩

/-- **Read your uploads.** Whatever a lookup resolves to reads back as content that satisfies `P` for
exactly that key. -/
theorem rinv_read {c : Cfg} {P : Nat → List Nat → Prop} {s : St} {T : List Ticket} (h : RInv c P s T)
    (k : Nat) (l : Loc) (hl : lookup c s k = some l) : P k (readLoc s l) :=
  h.recP k l (lookup_inTab hl)

/-- `Within` survives when the block survives with a capacity that did not grow. -/
theorem within_mono {c : Cfg} {s s' : St} {blk off size : Nat} (h : Within c s blk off size)
    (hc : ∀ cap, capOf s.bm blk = some cap → ∃ cap', capOf s'.bm blk = some cap' ∧ cap' ≤ cap) :
    Within c s' blk off size := by
  obtain ⟨cap, h1, h2, h3⟩ := h
  obtain ⟨cap', h4, h5⟩ := hc cap h1
  exact ⟨cap', h4, by omega, by omega⟩

theorem capOf_lt {b : BlockMap.St} {blk cap : Nat} (h : capOf b blk = some cap) :
    b.released ≤ blk ∧ blk < b.released + b.caps.length := by
  unfold capOf at h
  split at h
  · have := (List.getElem?_eq_some_iff.mp h).1; omega
  · simp at h

end BB.Store

namespace BB.Store
open BB.Gen BB.Index BB.BlockMap

theorem allocate_ok_put {c : Cfg} {s s' : St} {size : Nat} {t : Ticket} (h : allocate c s size = .ok t s') :
    ∃ bm', BlockMap.put c.bm c.fuelGrow size s.bm = .ok (t, bm') ∧ s' = { s with bm := bm' } := by
  unfold allocate at h
  cases hp : BlockMap.put c.bm c.fuelGrow size s.bm with
  | ok r => obtain ⟨t2, bm2⟩ := r; rw [hp] at h; simp at h; exact ⟨bm2, by rw [h.1], h.2.symm⟩
  | err e b => rw [hp] at h; simp at h
  | stuck => rw [hp] at h; simp at h
  | panic => rw [hp] at h; simp at h

/-- Reserving space keeps the region invariant and adds the new ticket to the outstanding ones. -/
theorem rinv_allocate {c : Cfg} {P : Nat → List Nat → Prop} {s s' : St} {T : List Ticket} {size : Nat} {t : Ticket}
    (h : RInv c P s T) (ha : allocate c s size = .ok t s') : RInv c P s' (t :: T) := by
  obtain ⟨bm', hput, hs'⟩ := allocate_ok_put ha
  have hspec := allocate_spec h.sinv size
  rw [ha] at hspec
  obtain ⟨hsinv, htab, hmed, hthr, _, _, _⟩ := hspec
  obtain ⟨hrel, hrt, hend, hkeep, hfresh, cap0, hcap', hoff, hsz, hbs, hpre, hfr⟩ :=
    put_caps c.bm c.fuelGrow size s.bm t bm' h.sinv.cfg h.sinv.wf h.sinv.fuel hput
  have hbm : s'.bm = bm' := by rw [hs']
  -- a range inside the used prefix before is inside it afterwards, if its block survives
  have hwithin : ∀ blk off sz, Within c s blk off sz → s'.bm.released ≤ blk → Within c s' blk off sz := by
    intro blk off sz hw hge
    apply within_mono hw
    intro cap hcap
    have hlt := (capOf_lt hcap).2
    by_cases hb : blk = t.blk
    · subst hb
      rw [hpre hlt] at hcap
      cases hcap
      exact ⟨cap0 - t.size, by rw [hbm]; exact hcap', by omega⟩
    · exact ⟨cap, by rw [hbm, hkeep blk hb (by rw [← hbm]; exact hge) hlt]; exact hcap, Nat.le_refl _⟩
  have hlive : ∀ k l, InTab s'.thr s'.tab k l → InTab s.thr s.tab k l := by
    intro k l hi; rw [htab] at hi; exact inTab_mono hthr hi
  -- a range inside the used prefix before is disjoint from the new ticket
  have hnew : ∀ blk off sz, Within c s blk off sz → Disjoint blk off sz t.blk t.off t.size := by
    intro blk off sz ⟨cap, hcap, _, hle⟩
    by_cases hb : blk = t.blk
    · subst hb
      have hlt := (capOf_lt hcap).2
      rw [hpre hlt] at hcap
      cases hcap
      right; left; omega
    · left; exact hb
  refine ⟨hsinv, ?_, ?_, ?_, ?_, ?_⟩
  · intro k l hi
    have hi0 := hlive k l hi
    obtain ⟨hn, hw⟩ := h.recIn k l hi0
    exact ⟨hn, hwithin _ _ _ hw (live_ge_released hsinv hn (inTab_live hi))⟩
  · intro k l hi
    have := h.recP k l (hlive k l hi)
    have e : readLoc s' l = readLoc s l := by unfold readLoc; rw [hmed]
    rw [e]; exact this
  · intro t2 ht2 hge
    rcases List.mem_cons.mp ht2 with e | hm
    · subst e
      exact ⟨cap0 - t2.size, by rw [hbm]; exact hcap', by omega, by omega⟩
    · exact hwithin _ _ _ (h.tickIn t2 hm (by rw [hbm] at hge; omega)) hge
  · intro t2 ht2 k l hi
    have hi0 := hlive k l hi
    rcases List.mem_cons.mp ht2 with e | hm
    · subst e
      exact hnew _ _ _ (h.recIn k l hi0).2
    · exact h.tickRec t2 hm k l hi0
  · refine List.Pairwise.cons ?_ h.tickTick
    intro t2 hm
    by_cases hge : s.bm.released ≤ t2.blk
    · have := hnew _ _ _ (h.tickIn t2 hm hge)
      unfold DisjT Disjoint at *
      omega
    · left
      intro e
      omega

end BB.Store

namespace BB.Store
open BB.Gen BB.Index BB.BlockMap

theorem put_err_caps (cb : BlockMap.Cfg) (fuelGrow size : Nat) (b b' : BlockMap.St) (e : String)
    (h : BlockMap.put cb fuelGrow size b = .err e b') : CapsKeep cb b b' := by
  unfold BlockMap.put at h
  have hk := findBlockWithSpace_caps cb fuelGrow size b
  cases hf : findBlockWithSpace cb fuelGrow size b with
  | ok r =>
    obtain ⟨idx, s1⟩ := r
    rw [hf] at h
    simp only [] at h
    cases hc : s1.caps[idx]? with
    | none => rw [hc] at h; simp at h
    | some cap => rw [hc] at h; simp at h
  | err e2 s1 => rw [hf] at h hk; simp at h; rw [← h.2]; exact hk
  | stuck => rw [hf] at h; simp at h
  | panic => rw [hf] at h; simp at h

/-- Anything that keeps table, medium and per-block capacities (of surviving blocks) and does not lower
the threshold keeps the region invariant. -/
theorem rinv_of_keep {c : Cfg} {P : Nat → List Nat → Prop} {s s' : St} {T : List Ticket}
    (h : RInv c P s T) (hsinv : SInv c s') (htab : s'.tab = s.tab) (hmed : s'.medium = s.medium)
    (hthr : s.thr ≤ s'.thr) (hk : CapsKeep c.bm s.bm s'.bm) : RInv c P s' T := by
  have hlive : ∀ k l, InTab s'.thr s'.tab k l → InTab s.thr s.tab k l := by
    intro k l hi; rw [htab] at hi; exact inTab_mono hthr hi
  have hwithin : ∀ blk off sz, Within c s blk off sz → s'.bm.released ≤ blk → Within c s' blk off sz := by
    intro blk off sz hw hge
    apply within_mono hw
    intro cap hcap
    exact ⟨cap, by rw [hk.keep blk hge (capOf_lt hcap).2]; exact hcap, Nat.le_refl _⟩
  refine ⟨hsinv, ?_, ?_, ?_, ?_, h.tickTick⟩
  · intro k l hi
    obtain ⟨hn, hw⟩ := h.recIn k l (hlive k l hi)
    exact ⟨hn, hwithin _ _ _ hw (live_ge_released hsinv hn (inTab_live hi))⟩
  · intro k l hi
    have e : readLoc s' l = readLoc s l := by unfold readLoc; rw [hmed]
    rw [e]; exact h.recP k l (hlive k l hi)
  · intro t ht hge
    have := hk.rel
    exact hwithin _ _ _ (h.tickIn t ht (by omega)) hge
  · intro t ht k l hi
    exact h.tickRec t ht k l (hlive k l hi)

theorem rinv_allocate_err {c : Cfg} {P : Nat → List Nat → Prop} {s s' : St} {T : List Ticket} {size : Nat} {e : String}
    (h : RInv c P s T) (ha : allocate c s size = .err e s') : RInv c P s' T := by
  have hspec := allocate_spec h.sinv size
  rw [ha] at hspec
  obtain ⟨hsinv, htab, hmed, hthr, _⟩ := hspec
  have hk : CapsKeep c.bm s.bm s'.bm := by
    unfold allocate at ha
    cases hp : BlockMap.put c.bm c.fuelGrow size s.bm with
    | ok r => rw [hp] at ha; simp at ha
    | err e2 b =>
      rw [hp] at ha
      simp at ha
      rw [← ha.2]
      exact put_err_caps c.bm c.fuelGrow size s.bm b e2 hp
    | stuck => rw [hp] at ha; simp at ha
    | panic => rw [hp] at ha; simp at ha
  exact rinv_of_keep h hsinv htab hmed hthr hk

/-- Pins, unpins and integrity reports touch neither table, medium nor capacities. -/
theorem rinv_pinLoc {c : Cfg} {P : Nat → List Nat → Prop} {s : St} {T : List Ticket} (h : RInv c P s T) (l : Loc) :
    RInv c P (pinLoc s l) T :=
  rinv_of_keep h (sinv_pin h.sinv _) rfl rfl (Int.le_refl _) (capsKeep_of_eq rfl rfl)

theorem rinv_unpin {c : Cfg} {P : Nat → List Nat → Prop} {s : St} {T : List Ticket} (h : RInv c P s T) (blk : Nat) :
    RInv c P { s with bm := unpin s.bm blk } T := by
  have f := unpin_fields s.bm blk
  exact rinv_of_keep h (sinv_unpin h.sinv blk) rfl rfl (by rw [thr_unpin]; exact Int.le_refl _)
    (capsKeep_of_eq f.2.2.2.1 f.2.2.2.2.2.1)

theorem rinv_reportBad {c : Cfg} {P : Nat → List Nat → Prop} {s : St} {T : List Ticket} (h : RInv c P s T) (l : Loc)
    (hl : locBlk l < s.bm.released + s.bm.caps.length) : RInv c P (reportBad s l) T :=
  rinv_of_keep h (reportBad_spec h.sinv l hl) rfl rfl
    (by simp [St.thr, reportBad, reportCorruption]; omega) (capsKeep_of_eq rfl rfl)

/-- The copy phase of an outstanding ticket: only its own bytes change, so every live record still
reads the same. -/
theorem rinv_write {c : Cfg} {P : Nat → List Nat → Prop} {s : St} {T : List Ticket} (h : RInv c P s T)
    (t : Ticket) (ht : t ∈ T) (a : Nat) (bs : List Nat) : RInv c P (writeAt s t a bs) T := by
  refine ⟨sinv_write h.sinv t a bs, h.recIn, ?_, h.tickIn, h.tickRec, h.tickTick⟩
  intro k l hi
  have hd := h.tickRec t ht k l hi
  rw [readLoc_writeAt_frame s t a bs l hd]
  exact h.recP k l hi

end BB.Store

namespace BB.Store
open BB.Gen BB.Index BB.BlockMap

theorem pairwise_erase_rel {T : List Ticket} (hp : T.Pairwise DisjT) (t t2 : Ticket) (ht : t ∈ T)
    (h2 : t2 ∈ T.erase t) : DisjT t t2 := by
  induction T with
  | nil => simp at ht
  | cons x xs ih =>
    obtain ⟨hx, hxs⟩ := List.pairwise_cons.mp hp
    by_cases e : x = t
    · subst e
      rw [List.erase_cons_head] at h2
      exact hx t2 h2
    · rw [List.erase_cons_tail (by simpa using e)] at h2
      have htx : t ∈ xs := by
        rcases List.mem_cons.mp ht with h | h
        · exact absurd h.symm e
        · exact h
      rcases List.mem_cons.mp h2 with h | h
      · subst h; exact (hx t htx).symm
      · exact ih hxs htx h

theorem nonNeg_mkLoc (b o z : Nat) : NonNeg (mkLoc b o z) := by simp [NonNeg, mkLoc]

/-- An outstanding ticket is abandoned (copy failed, or its block was released meanwhile). -/
theorem rinv_abandon {c : Cfg} {P : Nat → List Nat → Prop} {s : St} {T : List Ticket} (h : RInv c P s T) (t : Ticket) :
    RInv c P s (T.erase t) :=
  ⟨h.sinv, h.recIn, h.recP, fun t2 h2 => h.tickIn t2 (List.mem_of_mem_erase h2),
   fun t2 h2 => h.tickRec t2 (List.mem_of_mem_erase h2), h.tickTick.sublist List.erase_sublist⟩

/-- Publishing: the ticket's region becomes a record under each key, provided the region holds
content that is valid for that key. The ticket stops being outstanding. -/
theorem rinv_finalize {c : Cfg} {P : Nat → List Nat → Prop} {s s' : St} {T : List Ticket} (h : RInv c P s T)
    (t : Ticket) (ht : t ∈ T) (keys : List Nat) (hf : finalize c s t keys = some s')
    (hP : ∀ k ∈ keys, P k (readLoc s (mkLoc t.blk t.off t.size))) : RInv c P s' (T.erase t) := by
  have hs := finalize_spec h.sinv t keys
  rw [hf] at hs
  obtain ⟨hsinv, hbm, hmed, hle, hraw⟩ := hs
  have hthr : s'.thr = s.thr := by simp [St.thr, hbm]
  have hsplit : ∀ k l, InTab s'.thr s'.tab k l → InTab s.thr s.tab k l ∨ (k ∈ keys ∧ l = mkLoc t.blk t.off t.size) := by
    intro k l ⟨slot, R, hR, hl, hk, hloc⟩
    rcases hraw k l ⟨slot, R, hR, hk, hloc⟩ with ⟨slot0, R0, hR0, hk0, hloc0⟩ | hnew
    · left; exact ⟨slot0, R0, hR0, by rw [hloc0, ← hloc, ← hthr]; exact hl, hk0, hloc0⟩
    · right; exact hnew
  have hrel : s.bm.released ≤ t.blk := by have := h.sinv.wf.rel; omega
  have hwt : Within c s t.blk t.off t.size := h.tickIn t ht hrel
  have hws : ∀ blk off sz, Within c s blk off sz → Within c s' blk off sz := by
    intro blk off sz hw; unfold Within at *; rw [hbm]; exact hw
  have hread : ∀ l, readLoc s' l = readLoc s l := by intro l; unfold readLoc; rw [hmed]
  refine ⟨hsinv, ?_, ?_, ?_, ?_, h.tickTick.sublist List.erase_sublist⟩
  · intro k l hi
    rcases hsplit k l hi with h0 | ⟨_, e⟩
    · obtain ⟨a, b⟩ := h.recIn k l h0; exact ⟨a, hws _ _ _ b⟩
    · subst e
      refine ⟨nonNeg_mkLoc _ _ _, ?_⟩
      rw [locBlk_mkLoc, locOff_mkLoc, locSize_mkLoc]
      exact hws _ _ _ hwt
  · intro k l hi
    rw [hread]
    rcases hsplit k l hi with h0 | ⟨hk, e⟩
    · exact h.recP k l h0
    · subst e; exact hP k hk
  · intro t2 h2 hge
    exact hws _ _ _ (h.tickIn t2 (List.mem_of_mem_erase h2) (by rw [hbm] at hge; exact hge))
  · intro t2 h2 k l hi
    rcases hsplit k l hi with h0 | ⟨_, e⟩
    · exact h.tickRec t2 (List.mem_of_mem_erase h2) k l h0
    · subst e
      rw [locBlk_mkLoc, locOff_mkLoc, locSize_mkLoc]
      exact pairwise_erase_rel h.tickTick t t2 ht h2

/-- A range inside another. -/
def SubRange (l' l : Loc) : Prop :=
  NonNeg l' ∧ locBlk l' = locBlk l ∧ locOff l ≤ locOff l' ∧ locOff l' + locSize l' ≤ locOff l + locSize l ∧
  l'.blockIndex = l.blockIndex

theorem subRange_refl {l : Loc} (h : NonNeg l) : SubRange l l :=
  ⟨h, rfl, Nat.le_refl _, Nat.le_refl _, rfl⟩

/-- Registering (a slice of) an existing live record's range under a key whose valid content it is
(slices of a composite parent, canonical sync, dedup upload). -/
theorem rinv_indexPut {c : Cfg} {P : Nat → List Nat → Prop} {s : St} {T : List Ticket} (h : RInv c P s T)
    (k : Nat) (l' : Loc) (k0 : Nat) (l0 : Loc) (h0 : InTab s.thr s.tab k0 l0) (hsub : SubRange l' l0)
    (hP : P k (readLoc s l')) : RInv c P (indexPut c s k l') T := by
  obtain ⟨hn', hb, ho1, ho2, hbi⟩ := hsub
  have hlive : s.thr ≤ l'.blockIndex := by rw [hbi]; exact inTab_live h0
  obtain ⟨hsinv, hbm, hraw⟩ := indexPut_spec h.sinv k l' hlive
  have hthr : (indexPut c s k l').thr = s.thr := by simp [St.thr, hbm]
  have hsplit : ∀ q l, InTab (indexPut c s k l').thr (indexPut c s k l').tab q l →
      InTab s.thr s.tab q l ∨ (q = k ∧ l = l') := by
    intro q l ⟨slot, R, hR, hl, hk, hloc⟩
    rcases hraw q l ⟨slot, R, hR, hk, hloc⟩ with ⟨slot0, R0, hR0, hk0, hloc0⟩ | hnew
    · left; exact ⟨slot0, R0, hR0, by rw [hloc0, ← hloc, ← hthr]; exact hl, hk0, hloc0⟩
    · right; exact hnew
  obtain ⟨_, cap, hcap, hcb, hle⟩ := h.recIn k0 l0 h0
  have hws : ∀ blk off sz, Within c s blk off sz → Within c (indexPut c s k l') blk off sz := by
    intro blk off sz hw; unfold Within at *; rw [hbm]; exact hw
  have hread : ∀ l, readLoc (indexPut c s k l') l = readLoc s l := by intro l; rfl
  refine ⟨hsinv, ?_, ?_, ?_, ?_, h.tickTick⟩
  · intro q l hi
    rcases hsplit q l hi with h1 | ⟨_, e⟩
    · obtain ⟨a, b⟩ := h.recIn q l h1; exact ⟨a, hws _ _ _ b⟩
    · subst e
      exact ⟨hn', hws _ _ _ ⟨cap, by rw [hb]; exact hcap, hcb, by omega⟩⟩
  · intro q l hi
    rw [hread]
    rcases hsplit q l hi with h1 | ⟨hq, e⟩
    · exact h.recP q l h1
    · subst e; subst hq; exact hP
  · intro t ht hge
    exact hws _ _ _ (h.tickIn t ht (by rw [hbm] at hge; exact hge))
  · intro t ht q l hi
    rcases hsplit q l hi with h1 | ⟨_, e⟩
    · exact h.tickRec t ht q l h1
    · subst e
      have := h.tickRec t ht k0 l0 h0
      unfold Disjoint at *
      omega

/-- The empty store satisfies the invariant. -/
theorem rinv_init (c : Cfg) (P : Nat → List Nat → Prop) (hc : CfgOK c.bm) (hf : c.bm.policy.bound ≤ c.fuelGrow)
    (hg : 0 < c.idx.maxGet) (free : Nat) : RInv c P { bm := BlockMap.init c.bm [] free } [] := by
  have hw : WF c.bm (BlockMap.init c.bm [] free) := by
    have : BlockMap.init c.bm [] free = { free := free } := by simp [BlockMap.init, initLoopNew, initLoopCur]
    rw [this]
    refine ⟨by simp, by simp, by simp, by simp, by simp, by simp, by simp, ?_⟩
    unfold CfgOK at hc
    unfold PolicyInv
    obtain ⟨h1, h2⟩ := hc
    split <;> rename_i p hp <;> rw [hp] at h2 <;> simp only [] at h2
    · obtain ⟨dc, hdc⟩ := h2
      rw [hdc]; simp; omega
    · obtain ⟨_, dc, hdc⟩ := h2
      rw [hdc]; simp
  refine ⟨⟨hc, hf, hw, inv_empty _ _, hg⟩, ?_, ?_, by simp, by simp, List.Pairwise.nil⟩
  · intro k l ⟨slot, R, hR, _⟩; simp [Tab.empty] at hR
  · intro k l ⟨slot, R, hR, _⟩; simp [Tab.empty] at hR

end BB.Store
