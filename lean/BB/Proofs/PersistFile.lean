import BB.Proofs.PersistRef
/-!
# State files: what `GetPersistentState` writes and what `NewPersistentBlockList` makes of it
-/
namespace BB.Persist

/-- The block `NewPersistentBlockList` creates for one `BlockState`. -/
def restoredBlk (ss : Nat) (b : BState) : Blk :=
  { gid := b.gid, slot := b.slot, cursor := (b.wo + ss - 1) / ss * ss, base := (b.wo + ss - 1) / ss * ss,
    written := b.wo, syncing := b.wo, synced := b.wo, epochCount := b.seeds.length }

def fseeds (bs : List BState) : List Nat := (bs.map (·.seeds)).flatten

/-- The block list a restart builds from a state file when every block can be re-attached. -/
def SFile.pbl (f : SFile) (ss : Nat) : PBL :=
  { blocks := f.blocks.map (restoredBlk ss), seeds := fseeds f.blocks,
    epochLast := expand 0 (f.blocks.map (restoredBlk ss)), released := 0, oldestEpoch := f.oldest,
    syncingEpochs := (fseeds f.blocks).length, syncedEpochs := (fseeds f.blocks).length }

theorem expand_restored_length (ss : Nat) (bs : List BState) (a : Nat) :
    (expand a (bs.map (restoredBlk ss))).length = (fseeds bs).length := by
  induction bs generalizing a with
  | nil => simp [expand, fseeds]
  | cons b bs ih =>
    simp only [List.map_cons, expand, List.length_append, List.length_replicate, ih, fseeds, List.flatten_cons]
    simp [restoredBlk, fseeds]

theorem expand_shift (bs : List Blk) (a : Nat) : expand a bs = (expand 0 bs).map (· + a) := by
  induction bs generalizing a with
  | nil => simp [expand]
  | cons b bs ih =>
    simp only [expand, List.map_append, List.map_replicate]
    rw [ih (a + 1), ih (0 + 1)]
    simp [List.map_map, Function.comp_def, Nat.add_comm, Nat.add_left_comm]

/-- The restored list is well formed when the block generations of the file are consecutive. -/
theorem file_pbl_wfp (f : SFile) (ss : Nat) (hpos : 0 < ss) (hg : ∃ g, gidsFrom g (f.blocks.map (restoredBlk ss))) :
    WFP (f.pbl ss) := by
  constructor
  · rfl
  · simp [SFile.pbl, expand_restored_length]
  · simp [SFile.pbl]
  · simp [SFile.pbl]
  · intro b hb
    simp only [SFile.pbl, List.mem_map] at hb
    obtain ⟨b0, _, rfl⟩ := hb
    simp only [restoredBlk, Nat.le_refl, true_and]
    have h1 := Nat.div_add_mod (b0.wo + ss - 1) ss
    have h2 := Nat.mod_lt (b0.wo + ss - 1) hpos
    rw [Nat.mul_comm] at h1
    omega
  · exact hg

/-- `GetPersistentState`'s loop emits the synchronised prefix: block `j` of the result carries the
generation, slot and synchronised offset of block `j` of the list. -/
theorem stateBlocks_get : ∀ (bs : List Blk) (seeds : List Nat) (rem : Nat) (bl : List BState),
    PBL.stateBlocks bs seeds rem = some bl →
    ∀ (j : Nat) (x : BState), bl[j]? = some x →
      ∃ b : Blk, bs[j]? = some b ∧ x.gid = b.gid ∧ x.slot = b.slot ∧ x.wo = b.synced := by
  intro bs
  induction bs with
  | nil =>
    intro seeds rem bl h j x hx
    cases rem with
    | zero => simp [PBL.stateBlocks] at h; subst h; simp at hx
    | succ r => simp [PBL.stateBlocks] at h
  | cons b bs ih =>
    intro seeds rem bl h j x hx
    cases rem with
    | zero => simp [PBL.stateBlocks] at h; subst h; simp at hx
    | succ r =>
      simp only [PBL.stateBlocks] at h
      split at h
      · simp at h
      · rename_i rest hrest
        simp only [Option.some.injEq] at h
        subst h
        cases j with
        | zero => simp at hx; subst hx; exact ⟨b, by simp, rfl, rfl, rfl⟩
        | succ j =>
          obtain ⟨b', hb', h1⟩ := ih _ _ _ hrest j x (by simpa using hx)
          exact ⟨b', by simpa using hb', h1⟩

end BB.Persist
