import BB.Proofs.PersistView3
/-!
# C03: `Sealed` - every state file a restart may read was taken when the list was fully synchronised

It is kept by every step that is neither a successful finalizer nor a crash.
-/
namespace BB.Persist

theorem AllSyncing.g1step {g g' : G1} {p p' : PBL} (hs : G1Step g p g' p') (h : AllSyncing p) : AllSyncing p' := by
  cases hs with
  | start => exact allSyncing_starting _ _
  | syncBegin f => exact h
  | syncEnd f => exact h
  | syncFail f => exact h
  | completed f => exact h.pstep PStep.completed
  | shutdown => exact allSyncing_starting _ _

theorem AllSynced.g1step {g g' : G1} {p p' : PBL} (hw : WFP p) (hs : G1Step g p g' p') (h : AllSynced p) : AllSynced p' := by
  cases hs with
  | start => exact h.pstep hw (PStep.starting false)
  | syncBegin f => exact h
  | syncEnd f => exact h
  | syncFail f => exact h
  | completed f => exact h.pstep hw PStep.completed
  | shutdown =>
    exact (h.pstep hw PStep.completed).pstep (notifySyncCompleted_wfp hw) (PStep.starting true)

theorem SnapRel.g1step {ss : Nat} {f : SFile} {g g' : G1} {p p' : PBL} (hs : G1Step g p g' p') (h : SnapRel ss f p) :
    SnapRel ss f p' := by
  cases hs with
  | start => exact h.pstep (PStep.starting false)
  | syncBegin f => exact h
  | syncEnd f => exact h
  | syncFail f => exact h
  | completed f => exact h.pstep PStep.completed
  | shutdown => exact (h.pstep PStep.completed).pstep (PStep.starting true)

theorem closed_g1step {g g' : G1} {p p' : PBL} (hs : G1Step g p g' p') (h : p.closed = true) : p'.closed = true := by
  cases hs with
  | start => exact closed_pstep (PStep.starting false) h
  | syncBegin f => exact h
  | syncEnd f => exact h
  | syncFail f => exact h
  | completed f => exact h
  | shutdown => exact closed_pstep (PStep.starting true) h

/-- Everything a restart may read describes the whole, fully synchronised list. -/
structure Sealed (w : World) : Prop where
  synced : AllSynced w.pbl
  state : w.dir.state.isSome = true
  files : ∀ f ∈ filesOf w.dir, SnapRel w.cfg.ss f w.pbl
  sw : ∀ s, w.sw = some s → SnapRel w.cfg.ss s.file w.pbl

theorem sealed_view {w w' : World} (h : Inv w) (hv : View w w') (hs : Sealed w) :
    Sealed w' ∨ (∃ id, w.finalize id = .ok w') ∨ ∃ kd ki pick lo, w' = w.crashRestart kd ki pick lo := by
  cases hv with
  | crash kd ki pick lo => exact Or.inr (Or.inr ⟨kd, ki, pick, lo, rfl⟩)
  | fin hf => exact Or.inr (Or.inl ⟨_, hf⟩)
  | data hc hg hsw hd hp =>
    left
    refine ⟨hs.synced.pstep h.wfp hp, by rw [hd]; exact hs.state, ?_, ?_⟩
    · intro f hf
      rw [hd] at hf; rw [hc]
      exact (hs.files f hf).pstep hp
    · intro s hs'
      rw [hsw] at hs'; rw [hc]
      exact (hs.sw s hs').pstep hp
  | g1 hc hsw hd hg =>
    left
    refine ⟨hs.synced.g1step h.wfp hg, by rw [hd]; exact hs.state, ?_, ?_⟩
    · intro f hf
      rw [hd] at hf; rw [hc]
      exact (hs.files f hf).g1step hg
    · intro s hs'
      rw [hsw] at hs'; rw [hc]
      exact (hs.sw s hs').g1step hg
  | swBegin hc hg hd hnone hsw hget hown =>
    left
    have hcore := PStep.core (getPersistentState_core hget)
    refine ⟨hs.synced.pstep h.wfp hcore, by rw [hd]; exact hs.state, ?_, ?_⟩
    · intro f hf
      rw [hd] at hf; rw [hc]
      exact (hs.files f hf).pstep hcore
    · intro s hs'
      rw [hsw] at hs'
      simp only [Option.some.injEq] at hs'
      subst hs'
      rw [hc]
      exact (capture_snap h.wfp _ hs.synced hget).pstep hcore
  | swStep hc hg hp hsw hsw' hfiles hst =>
    left
    refine ⟨by rw [hp]; exact hs.synced, hst hs.state, ?_, ?_⟩
    · intro f hf
      rw [hc, hp]
      rcases hfiles f hf with hf | rfl
      · exact hs.files f hf
      · exact hs.sw _ hsw
    · intro s' hs'
      rw [hsw'] at hs'
      simp only [Option.some.injEq] at hs'
      subst hs'
      rw [hc, hp]
      have hold := hs.sw _ hsw
      exact hold
  | swFail hc hg hp hd hsw hsw' =>
    left
    refine ⟨by rw [hp]; exact hs.synced, by rw [hd]; exact hs.state, ?_, ?_⟩
    · intro f hf
      rw [hd] at hf; rw [hc, hp]
      exact hs.files f hf
    · intro s' hs'
      rw [hsw'] at hs'; cases hs'
  | swDone hc hd hcore hsw h6 hsw' hg =>
    left
    refine ⟨hs.synced.pstep h.wfp (PStep.core hcore), by rw [hd]; exact hs.state, ?_, ?_⟩
    · intro f hf
      rw [hd] at hf; rw [hc]
      exact (hs.files f hf).pstep (PStep.core hcore)
    · intro s' hs'
      rw [hsw'] at hs'; cases hs'

/-- `ProcessBlockPut`'s state write ends (`NotifyPersistentStateWritten`): the file it wrote is the
durable state file. -/
theorem sealed_of_swDone {w w' : World} {s : Sw} (h : Inv w) (ha : AllSynced w.pbl)
    (hsnap : SnapRel w.cfg.ss s.file w.pbl) (hc : w'.cfg = w.cfg) (hd : w'.dir = w.dir) (hcore : Core w.pbl w'.pbl)
    (hsw : w.sw = some s) (h6 : s.stage = 6) (hsw' : w'.sw = none) : Sealed w' := by
  obtain ⟨_, _, _, _, a6, _, _⟩ := h.sw.stage s hsw
  obtain ⟨hst, hren⟩ := a6 h6
  refine ⟨ha.pstep h.wfp (PStep.core hcore), by rw [hd, hst]; rfl, ?_, ?_⟩
  · intro f hf
    rw [hd] at hf
    simp only [filesOf, hst, hren, Option.toList, List.append_nil, List.mem_singleton] at hf
    subst hf
    rw [hc]
    exact hsnap.pstep (PStep.core hcore)
  · intro s' hs'
    rw [hsw'] at hs'; cases hs'

end BB.Persist
