import BB.Proofs.CachingComposite
/-! `ReplicateSingle` / `ReplicateComposite` and the read-through `Get` without pending faults. -/
namespace BB.Caching

theorem replMultiple_absent (r : Repl) (hr : r.copying = true) (p : Pair) (k : Key) (hnf : p.NoFaults)
    (hsrc : p.src.data k = none) (hsink : p.sink.data k = none) :
    (replMultiple r p [k]).2 = some Err.absent ∧ (replMultiple r p [k]).1.src.data = p.src.data ∧
      (replMultiple r p [k]).1.sink.data = p.sink.data ∧ (replMultiple r p [k]).1.NoFaults := by
  induction r generalizing p with
  | noop => simp [Repl.copying] at hr
  | localR =>
    simp only [replMultiple, localMultiple, Backend.get, Backend.put, hnf.1.fault, hnf.2.fault, hsrc]
    exact ⟨trivial, rfl, rfl, hnf.1.ticked, hnf.2.ticked⟩
  | dedup b ih =>
    have hp1 : (⟨p.src, (p.sink.findMissing [k]).1⟩ : Pair).NoFaults := ⟨hnf.1, hnf.2.ticked⟩
    have := ih hr ⟨p.src, (p.sink.findMissing [k]).1⟩ hp1 hsrc hsink
    obtain ⟨a1, a2, a3, a4⟩ := this
    simp only [replMultiple, dedupLoop, Backend.findMissing, hnf.2.fault, List.filter_cons, hsink,
      Option.isNone_none, if_true, List.filter_nil]
    simp only [Backend.findMissing] at a1 a2 a3 a4
    rw [a1]
    exact ⟨rfl, a2, a3, a4⟩
  | limit b ih => exact ih hr p hnf hsrc hsink

structure SingleSpec (p : Pair) (k : Key) (copying : Bool) (res : Pair × Except Err Val) : Prop where
  val : res.2 = match p.src.data k with
    | some v => .ok v
    | none => .error Err.absent
  src : res.1.src.data = p.src.data
  frame : ∀ k', k' ≠ k → res.1.sink.data k' = p.sink.data k'
  copied : copying = true → ∀ v, p.src.data k = some v → res.1.sink.data k = some v
  kept : copying = false → res.1.sink.data = p.sink.data
  nf : res.1.NoFaults

theorem thenReadSink_spec (r : Repl) (hr : r.copying = true) (p : Pair) (k : Key) (hnf : p.NoFaults)
    (hsink : p.sink.data k = none) : SingleSpec p k true (thenReadSink (replMultiple r p [k]) k) := by
  cases hs : p.src.data k with
  | none =>
    obtain ⟨a1, a2, a3, a4⟩ := replMultiple_absent r hr p k hnf hs hsink
    simp only [thenReadSink, a1]
    exact ⟨by simp [hs], a2, fun k' _ => by rw [a3], by simp [hs], by simp, a4⟩
  | some v =>
    have hm := replMultiple_spec r hr p [k] hnf (by simp [hs])
    have hk : (replMultiple r p [k]).1.sink.data k = some v := by
      rcases hm.frame k with h | ⟨_, h⟩
      · have := hm.held k (by simp); rw [h, hsink] at this; simp at this
      · rw [h, hs]
    simp only [thenReadSink, hm.ok, Backend.get, hm.nf.2.fault, hk]
    refine ⟨by simp [hs], hm.src, ?_, ?_, by simp, hm.nf.1, hm.nf.2.ticked⟩
    · intro k' hk'
      rcases hm.frame k' with h | ⟨h', _⟩
      · exact h
      · simp at h'; exact absurd h' hk'
    · intro _ v' hv'; rw [hs] at hv'; cases hv'; exact hk

theorem replSingle_spec (r : Repl) (hr : r = .noop ∨ r.copying = true) (p : Pair) (k : Key) (hnf : p.NoFaults)
    (hsink : p.sink.data k = none) : SingleSpec p k r.copying (replSingle r p k) := by
  cases r with
  | noop =>
    simp only [replSingle, Backend.get, hnf.1.fault, Repl.copying]
    refine ⟨?_, rfl, fun _ _ => rfl, by simp, fun _ => rfl, hnf.1.ticked, hnf.2⟩
    cases p.src.data k <;> rfl
  | localR =>
    cases hs : p.src.data k with
    | none =>
      simp only [replSingle, Backend.get, Backend.put, hnf.1.fault, hnf.2.fault, hs, Repl.copying]
      exact ⟨by simp [hs], rfl, fun _ _ => rfl, by simp [hs], by simp, hnf.1.ticked, hnf.2.ticked⟩
    | some v =>
      simp only [replSingle, Backend.get, Backend.put, hnf.1.fault, hnf.2.fault, hs, Repl.copying]
      refine ⟨by simp [hs], rfl, fun k' hk' => by simp [hk'], by simp [hs], by simp, hnf.1.ticked, ?_⟩
      have := hnf.2; unfold Backend.NoFaults at this; simp [Backend.NoFaults, Backend.ticked, this]
  | dedup b =>
    have hc : (Repl.dedup b).copying = true := by rcases hr with h | h; cases h; exact h
    rw [hc]; exact thenReadSink_spec (.dedup b) hc p k hnf hsink
  | limit b =>
    have hc : (Repl.limit b).copying = true := by rcases hr with h | h; cases h; exact h
    rw [hc]; exact thenReadSink_spec (.limit b) hc p k hnf hsink

theorem replComposite_spec (r : Repl) (hr : r = .noop ∨ r.copying = true) (p : Pair) (k : Key) (hnf : p.NoFaults)
    (hsink : p.sink.data k = none) : SingleSpec p k r.copying (replComposite r p k) := by
  cases r with
  | noop => exact replSingle_spec .noop (Or.inl rfl) p k hnf hsink
  | localR => exact thenReadSink_spec .localR rfl p k hnf hsink
  | dedup b =>
    have hc : (Repl.dedup b).copying = true := by rcases hr with h | h; cases h; exact h
    rw [hc]; exact thenReadSink_spec (.dedup b) hc p k hnf hsink
  | limit b =>
    have hc : (Repl.limit b).copying = true := by rcases hr with h | h; cases h; exact h
    rw [hc]; exact thenReadSink_spec (.limit b) hc p k hnf hsink

/-- What the object store pair answers for `k`: the sink's (fast / primary) value, else the
source's (slow / secondary), else NOT_FOUND. -/
def Pair.lookup (p : Pair) (k : Key) : Except Err Val :=
  match p.sink.data k with
  | some v => .ok v
  | none => match p.src.data k with
    | some v => .ok v
    | none => .error Err.absent

structure GetSpec (r : Repl) (p : Pair) (k : Key) (res : Pair × Except Err Val) : Prop where
  val : res.2 = p.lookup k
  src : res.1.src.data = p.src.data
  frame : ∀ k', k' ≠ k → res.1.sink.data k' = p.sink.data k'
  copied : r.copying = true → ∀ v, res.2 = .ok v → res.1.sink.data k = some v
  kept : r.copying = false → res.1.sink.data = p.sink.data
  nf : res.1.NoFaults

theorem getThrough_spec (single : Repl → Pair → Key → Pair × Except Err Val)
    (hsingle : ∀ r p k, (r = .noop ∨ r.copying = true) → p.NoFaults → p.sink.data k = none →
      SingleSpec p k r.copying (single r p k))
    (r : Repl) (hr : r = .noop ∨ r.copying = true) (p : Pair) (k : Key) (hnf : p.NoFaults) :
    GetSpec r p k (getThrough single r p k) := by
  cases hk : p.sink.data k with
  | some v =>
    simp only [getThrough, Backend.get, hnf.2.fault, hk]
    exact ⟨by simp [Pair.lookup, hk], rfl, fun _ _ => rfl, fun _ v' hv' => by cases hv'; exact hk,
      fun _ => rfl, hnf.1, hnf.2.ticked⟩
  | none =>
    have hp1 : (⟨p.src, p.sink.ticked⟩ : Pair).NoFaults := ⟨hnf.1, hnf.2.ticked⟩
    have hs := hsingle r ⟨p.src, p.sink.ticked⟩ k hr hp1 (by simpa using hk)
    have he : (getThrough single r p k) = single r ⟨p.src, p.sink.ticked⟩ k := by
      simp [getThrough, Backend.get, hnf.2.fault, hk, Err.absent]
    rw [he]
    refine ⟨?_, hs.src, hs.frame, ?_, hs.kept, hs.nf⟩
    · rw [hs.val]; simp only [Pair.lookup, hk]
    · intro hc v hv
      rw [hs.val] at hv
      cases hsv : p.src.data k with
      | none => simp [hsv] at hv
      | some v' =>
        simp only [hsv, Except.ok.injEq] at hv; subst hv
        exact hs.copied hc _ hsv

end BB.Caching
