import BB.Proofs.PersistInvFiles
/-!
# What the invariant says about lookups and reads
-/
namespace BB.Persist

theorem lookup_mem {α β : Type} [BEq α] [LawfulBEq α] : ∀ (l : List (α × β)) (k : α) (v : β), l.lookup k = some v → (k, v) ∈ l := by
  intro l
  induction l with
  | nil => intro k v h; simp at h
  | cons a l ih =>
    intro k v h
    obtain ⟨k', v'⟩ := a
    rw [List.lookup_cons] at h
    by_cases hk : k == k'
    · simp [hk] at h; subst h
      have : k = k' := by simpa using hk
      subst this; simp
    · simp [hk] at h
      exact List.mem_cons_of_mem _ (ih k v h)

theorem mem_recsOf_of_curGet {d : IdxDev} {slot : Nat} {r : PRec} (h : d.curGet slot = some r) : r ∈ recsOf d := by
  unfold IdxDev.curGet at h
  unfold recsOf
  cases hl : d.pend.reverse.lookup slot with
  | some r' =>
    rw [hl] at h; simp at h; subst h
    have := lookup_mem _ _ _ hl
    exact List.mem_append_right _ (List.mem_map.2 ⟨(slot, r'), by simpa using this, rfl⟩)
  | none =>
    rw [hl] at h
    have := lookup_mem _ _ _ h
    exact List.mem_append_left _ (List.mem_map.2 ⟨(slot, r), this, rfl⟩)

theorem resolve_some {w : World} {r : PRec} {i : Nat} (h : w.resolve r = some i) :
    w.pbl.refToIdx r.epoch r.bfl = some (i, r.seed) := by
  unfold World.resolve at h
  split at h
  · rename_i j sd hj
    split at h
    · rename_i hs
      simp at h hs; subst h; subst hs; exact hj
    · simp at h
  · simp at h

theorem secsOf_nonempty {ss off size : Nat} (hss : 0 < ss) (hsz : 1 ≤ size) : off / ss ∈ secsOf ss off size := by
  unfold secsOf
  rw [List.mem_range']
  refine ⟨0, ?_, by simp⟩
  have h1 : off / ss < (off + size + ss - 1) / ss := by
    rw [Nat.div_lt_iff_lt_mul hss]
    have h2 := Nat.div_add_mod (off + size + ss - 1) ss
    have h3 := Nat.mod_lt (off + size + ss - 1) hss
    have h4 := Nat.div_add_mod off ss
    have h5 := Nat.mod_lt off hss
    rw [Nat.mul_comm] at h2 h4
    omega
  omega

theorem obj_eq_of_id {objs : List Obj} (hn : (objs.map (·.id)).Nodup) {o1 o2 : Obj} (h1 : o1 ∈ objs) (h2 : o2 ∈ objs)
    (hid : o1.id = o2.id) : o1 = o2 := by
  induction objs with
  | nil => simp at h1
  | cons a l ih =>
    simp only [List.map_cons, List.nodup_cons] at hn
    simp only [List.mem_cons] at h1 h2
    rcases h1 with rfl | h1 <;> rcases h2 with rfl | h2
    · rfl
    · exact absurd (List.mem_map.2 ⟨o2, h2, hid.symm⟩) hn.1
    · exact absurd (List.mem_map.2 ⟨o1, h1, hid⟩) hn.1
    · exact ih hn.2 h1 h2

/-- An object of a block in the list that has been copied is present in what the running system
reads from the device. -/
theorem present_of_inv {w : World} (h : Inv w) {o : Obj} (ho : o ∈ w.objs) (hc : o.copied = true)
    {b : Blk} (hb : b ∈ w.pbl.blocks) (hg : b.gid = o.gid) : w.presentCur o = true := by
  unfold World.presentCur World.presentIn
  rw [List.all_eq_true]
  intro s hs
  have hheld : ∃ b ∈ held w.pbl w.zombies, b.gid = o.gid :=
    ⟨b, List.mem_append_left _ (List.mem_append_left _ hb), hg⟩
  have : o.id ∈ w.data.curGet o.slot s := by
    by_cases hm : o.mine = true
    · exact (h.dev.mine o ho hm hc hheld s hs).cur
    · have hd := (h.obj.restored o ho (by simpa using hm)).1
      exact (h.dev.durable o ho hd hheld s hs).tail.cur
  simpa using this

end BB.Persist
