import BB.Proofs.PersistCongrFile
/-!
# The lock regions of `ProcessBlockPut`: `NotifySyncStarting`, `NotifySyncCompleted`
-/
namespace BB.Persist

theorem mem_notifyStart {p : PBL} {f : Bool} {b' : Blk} (hb : b' ∈ (p.notifySyncStarting f).blocks) :
    ∃ b ∈ p.blocks, b' = { b with syncing := b.written } := by
  simp only [PBL.notifySyncStarting, List.mem_map] at hb
  obtain ⟨b, hb, rfl⟩ := hb
  exact ⟨b, hb, rfl⟩

theorem mem_notifyCompleted {p : PBL} {b' : Blk} (hb : b' ∈ p.notifySyncCompleted.blocks) :
    ∃ b ∈ p.blocks, b' = { b with synced := b.syncing } := by
  simp only [PBL.notifySyncCompleted, List.mem_map] at hb
  obtain ⟨b, hb, rfl⟩ := hb
  exact ⟨b, hb, rfl⟩

/-- `NotifySyncStarting`: every epoch is declared "being synchronised", with the written offsets. -/
theorem epochInv_notifyStart {objs : List Obj} {p : PBL} {g1 g1' : G1} (f : Bool) (he : EpochInv objs p g1)
    (hnp : ∀ o ∈ objs, o.precov = false) (h1 : ∀ x, g1' ≠ .syncing x) (h2 : ∀ x, g1' ≠ .synced x) :
    EpochInv objs (p.notifySyncStarting f) g1' := by
  refine ⟨?_, ?_, ?_, ?_⟩
  · intro o ho i b' e hb' hg hfin
    simp only [PBL.notifySyncStarting, List.getElem?_map] at hb'
    cases h0 : p.blocks[i]? with
    | none => simp [h0] at hb'
    | some b =>
      simp [h0] at hb'; subst hb'
      exact he.range o ho i b e h0 hg hfin
  · intro o ho b' hb' e hg hfin hlt
    obtain ⟨b, hb, rfl⟩ := mem_notifyStart hb'
    exact he.synced o ho b hb e hg hfin hlt
  · intro o ho b' hb' e hg hfin _
    obtain ⟨b, hb, rfl⟩ := mem_notifyStart hb'
    obtain ⟨i, hi⟩ := List.getElem?_of_mem hb
    refine ⟨(he.range o ho i b e hi hg hfin).2.2, fun x hx => absurd hx (h1 x), fun x hx => absurd hx (h2 x)⟩
  · intro o ho hp
    rw [hnp o ho] at hp; cases hp

/-- `NotifySyncCompleted` after a data sync that returned: what was being synchronised is exposed. -/
theorem epochInv_notifyCompleted {objs : List Obj} {p : PBL} {x : Bool} {g1' : G1} (he : EpochInv objs p (.synced x))
    (h1 : ∀ y, g1' ≠ .syncing y) (h2 : ∀ y, g1' ≠ .synced y) : EpochInv objs p.notifySyncCompleted g1' := by
  refine ⟨?_, ?_, ?_, ?_⟩
  · intro o ho i b' e hb' hg hfin
    simp only [PBL.notifySyncCompleted, List.getElem?_map] at hb'
    cases h0 : p.blocks[i]? with
    | none => simp [h0] at hb'
    | some b =>
      simp [h0] at hb'; subst hb'
      exact he.range o ho i b e h0 hg hfin
  · intro o ho b' hb' e hg hfin hlt
    obtain ⟨b, hb, rfl⟩ := mem_notifyCompleted hb'
    obtain ⟨h3, _, h5⟩ := he.syncing o ho b hb e hg hfin hlt
    exact ⟨h5 x rfl, h3⟩
  · intro o ho b' hb' e hg hfin hlt
    obtain ⟨b, hb, rfl⟩ := mem_notifyCompleted hb'
    exact ⟨(he.syncing o ho b hb e hg hfin hlt).1, fun y hy => absurd hy (h1 y), fun y hy => absurd hy (h2 y)⟩
  · intro o ho hp
    obtain ⟨y, hy⟩ := he.precov o ho hp
    cases hy

theorem noPrecov_of_not_syncing {objs : List Obj} {p : PBL} {g1 : G1} (he : EpochInv objs p g1) (h : ∀ x, g1 ≠ .syncing x) :
    ∀ o ∈ objs, o.precov = false := by
  intro o ho
  cases hp : o.precov with
  | false => rfl
  | true => obtain ⟨x, hx⟩ := he.precov o ho hp; exact absurd hx (h x)

end BB.Persist
