import BB.Proofs.PersistStepPush
/-!
# Invariant preservation: `reserve` (the locked part of `blockList.Put`)
-/
namespace BB.Persist

theorem wfp_setBlk_cursor {p : PBL} (h : WFP p) (i size : Nat) :
    WFP (p.setBlk i fun b => { b with cursor := b.cursor + size }) := by
  constructor
  · simp [PBL.setBlk, expand_modify, h.last]
  · simpa [PBL.setBlk] using h.seedsLen
  · exact h.sync1
  · exact h.sync2
  · intro b hb
    simp only [PBL.setBlk] at hb
    obtain ⟨j, hj⟩ := List.getElem?_of_mem hb
    rw [List.getElem?_modify] at hj
    cases h0 : p.blocks[j]? with
    | none => simp [h0] at hj
    | some b0 =>
      have := h.offs b0 (List.mem_of_getElem? h0)
      by_cases hij : i = j
      · simp [h0, hij] at hj; subst hj; simp; omega
      · simp [h0, hij] at hj; subst hj; exact this
  · obtain ⟨g, hg⟩ := h.gids
    exact ⟨g, gidsFrom_modify _ (by simp) _ _ _ hg⟩

/-- Adding an object that is neither copied nor finalized. -/
theorem recInv_add {recs : List PRec} {objs : List Obj} {p : PBL} {ns : Nat} (o : Obj) (hr : RecInv recs objs p ns) :
    RecInv recs (objs ++ [o]) p ns := by
  refine ⟨?_, hr.seedLt, hr.pSeeds⟩
  intro r hrm i hres
  obtain ⟨b, o', hb, ho', hg, hm⟩ := hr.res r hrm i hres
  exact ⟨b, o', hb, List.mem_append_left _ ho', hg, hm⟩

theorem fileInv_add {ss : Nat} {f : SFile} {heldF : List Blk} {recs : List PRec} {objs : List Obj} {p : PBL} {ns : Nat}
    (o : Obj) (hfin : o.fin = none) (h : FileInv ss f heldF recs objs p ns) : FileInv ss f heldF recs (objs ++ [o]) p ns := by
  refine ⟨h.gids, h.heldIn, h.bound, h.seedLt, ?_, ?_, h.agree⟩
  · intro o' ho' j bs e hbs hg hf hlt
    rcases List.mem_append.1 ho' with ho' | ho'
    · exact h.committed o' ho' j bs e hbs hg hf hlt
    · simp at ho'; subst ho'; rw [hfin] at hf; cases hf
  · intro r hrm i hres
    obtain ⟨bs, o', hbs, ho', hg, hm⟩ := h.res r hrm i hres
    exact ⟨bs, o', hbs, List.mem_append_left _ ho', hg, hm⟩

theorem epochInv_add {objs : List Obj} {p : PBL} {g1 : G1} (o : Obj) (hfin : o.fin = none) (hp : o.precov = false)
    (he : EpochInv objs p g1) : EpochInv (objs ++ [o]) p g1 := by
  refine ⟨?_, ?_, ?_, ?_⟩
  · intro o' ho' i b e hb hg hf
    rcases List.mem_append.1 ho' with ho' | ho'
    · exact he.range o' ho' i b e hb hg hf
    · simp at ho'; subst ho'; rw [hfin] at hf; cases hf
  · intro o' ho' b hb e hg hf hlt
    rcases List.mem_append.1 ho' with ho' | ho'
    · exact he.synced o' ho' b hb e hg hf hlt
    · simp at ho'; subst ho'; rw [hfin] at hf; cases hf
  · intro o' ho' b hb e hg hf hlt
    rcases List.mem_append.1 ho' with ho' | ho'
    · exact he.syncing o' ho' b hb e hg hf hlt
    · simp at ho'; subst ho'; rw [hfin] at hf; cases hf
  · intro o' ho' hpc
    rcases List.mem_append.1 ho' with ho' | ho'
    · exact he.precov o' ho' hpc
    · simp at ho'; subst ho'; rw [hp] at hpc; cases hpc

theorem devInv_add {c : Cfg} {objs : List Obj} {d : DataDev} {p : PBL} {z : List Blk} {no : Nat} (o : Obj)
    (hid : o.id = no) (hc : o.copied = false) (hp : o.precov = false) (hd : o.durable = false)
    (h : DevInv c objs d p z no) : DevInv c (objs ++ [o]) d p z (no + 1) := by
  refine ⟨h.pref, ?_, ?_, ?_, ?_, ?_⟩
  · intro o' ho' hm hcp hh s hs
    rcases List.mem_append.1 ho' with ho' | ho'
    · exact h.mine o' ho' hm hcp hh s hs
    · simp at ho'; subst ho'; rw [hc] at hcp; cases hcp
  · intro o' ho' hpc hh s hs
    rcases List.mem_append.1 ho' with ho' | ho'
    · exact h.precov o' ho' hpc hh s hs
    · simp at ho'; subst ho'; rw [hp] at hpc; cases hpc
  · intro o' ho' hdu hh s hs
    rcases List.mem_append.1 ho' with ho' | ho'
    · exact h.durable o' ho' hdu hh s hs
    · simp at ho'; subst ho'; rw [hd] at hdu; cases hdu
  · intro o1 h1 o2 h2 L slot s hL m1 m2 s1 s2 hoff
    have hnew : ∀ x, x ∈ objs ++ [o] → x.id ∈ L → x ∈ objs := by
      intro x hx hxl
      rcases List.mem_append.1 hx with hx | hx
      · exact hx
      · simp at hx; subst hx
        have := h.contentLt L slot s hL _ hxl
        omega
    exact h.content o1 (hnew o1 h1 m1) o2 (hnew o2 h2 m2) L slot s hL m1 m2 s1 s2 hoff
  · intro L slot s hL id hidL
    exact Nat.lt_succ_of_lt (h.contentLt L slot s hL id hidL)

end BB.Persist
