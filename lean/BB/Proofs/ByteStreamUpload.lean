import BB.Proofs.ByteStreamZstd
/-!
# ByteStream.Write as a whole: stored iff a valid complete upload
-/
namespace BB.ByteStream

/-- A valid complete upload of content `c`, in the property's words.
identity: the requests are exactly a contiguous sequence from offset 0 whose last (and only
the last) request carries `finish_write`, followed by a half-close, and the concatenated data
matches the digest. zstd: the requests up to the first `finish_write` are contiguous from 0
and their concatenated data decompresses to content matching the digest. -/
def ValidUpload (C : Codec) (F : Flags) (kind : NameKind) (d : Digest) (msgs : List WriteReq)
    (e : StreamEnd) (c : Bytes) : Prop :=
  match kind with
  | .identity => Complete msgs ∧ Contig 0 msgs ∧ e = .eof ∧ c = concatData msgs ∧ Valid C d c
  | .zstd => ∃ pre last rest, FirstFinish msgs pre last rest ∧ Contig 0 (pre ++ [last]) ∧
      c = (C.dec (concatData (pre ++ [last]))).1 ∧ Valid C d c ∧
      ((C.dec (concatData (pre ++ [last]))).2 = .clean ∨
        (F.lenient = true ∧ (C.dec (concatData (pre ++ [last]))).2 = .trunc))
  | _ => False

theorem finishWrite_error (st : Store) (d : Digest) (er : Err) (n : Nat) (wf : WriteFaults) :
    ∃ er', finishWrite st d (.error er) n wf = (st, .error er') := by
  unfold finishWrite backendPut
  rcases wf with ⟨put, send⟩
  cases put with
  | none => exact ⟨er, rfl⟩
  | some p =>
    rcases p with ⟨code, early⟩
    cases early
    · exact ⟨er, rfl⟩
    · exact ⟨eInjected code, rfl⟩

theorem finishWrite_ok (st : Store) (d : Digest) (c : Bytes) (n : Nat) (wf : WriteFaults) :
    finishWrite st d (.ok c) n wf =
      match wf.put, wf.send with
      | some (code, _), _ => (st, .error (eInjected code))
      | none, some code => (st.put d c, .error (eInjected code))
      | none, none => (st.put d c, .ok n) := by
  unfold finishWrite backendPut
  rcases wf with ⟨put, send⟩
  cases put with
  | none => cases send <;> rfl
  | some p =>
    rcases p with ⟨code, early⟩
    cases early <;> rfl

theorem contig_head {o : Int} {m : WriteReq} {ms : List WriteReq} (h : Contig o (m :: ms)) : m.offset = o := h.1

theorem contig_append_head {o : Int} {m : WriteReq} {pre : List WriteReq} {last : WriteReq} {rest : List WriteReq}
    {ms : List WriteReq} (h1 : m :: ms = pre ++ last :: rest) (hc : Contig o (pre ++ [last])) : m.offset = o := by
  cases pre with
  | nil => simp at h1; rw [h1.1]; exact hc.1
  | cons p ps => simp at h1; rw [h1.1]; exact hc.1

/-- Either a valid complete upload was sent and the RPC reaches `Put` with exactly its
content, or none was sent and the RPC fails with the backend untouched. -/
theorem write_spec (C : Codec) (F : Flags) (hW : F.strictW = true) (st : Store) (kind : NameKind)
    (d : Digest) (msgs : List WriteReq) (e : StreamEnd) (wf : WriteFaults) :
    (∃ c n, ValidUpload C F kind d msgs e c ∧ write C F st kind d msgs e wf = finishWrite st d (.ok c) n wf) ∨
    ((¬ ∃ c, ValidUpload C F kind d msgs e c) ∧ ∃ er, write C F st kind d msgs e wf = (st, .error er)) := by
  cases msgs with
  | nil =>
    right
    refine ⟨?_, ?_⟩
    · rintro ⟨c, hv⟩
      cases kind <;> simp [ValidUpload, Complete, FirstFinish] at hv
    · cases e <;> simp [write]
  | cons first rest =>
    cases kind with
    | bad => right; exact ⟨by rintro ⟨c, hv⟩; exact hv, by simp [write]⟩
    | unknown => right; exact ⟨by rintro ⟨c, hv⟩; exact hv, by simp [write]⟩
    | unsupported => right; exact ⟨by rintro ⟨c, hv⟩; exact hv, by simp [write]⟩
    | identity =>
      simp only [write]
      by_cases ho : first.offset = 0
      · simp only [ho, ne_eq, not_true_eq_false, if_false]
        have hiff := fun c => idLoop_ok_iff C d (first :: rest) 0 [] e c (Nat.zero_le _)
        cases hres : idLoop C d 0 false [] (first :: rest) e with
        | ok c =>
          left
          have := (hiff c).mp hres
          simp at this
          exact ⟨c, d.size, ⟨this.1, this.2.1, this.2.2.1, this.2.2.2.1, this.2.2.2.2.1, this.2.2.2.2.2⟩, rfl⟩
        | error er =>
          right
          refine ⟨?_, finishWrite_error st d er d.size wf⟩
          rintro ⟨c, hv⟩
          have : idLoop C d 0 false [] (first :: rest) e = .ok c :=
            (hiff c).mpr ⟨hv.1, hv.2.1, hv.2.2.1, by simpa using hv.2.2.2.1, hv.2.2.2.2.1, hv.2.2.2.2.2⟩
          rw [hres] at this; cases this
      · simp only [ho, ne_eq, not_false_eq_true, if_true]
        right
        refine ⟨?_, ⟨_, rfl⟩⟩
        rintro ⟨c, hv⟩
        exact ho (contig_head hv.2.1)
    | zstd =>
      simp only [write]
      by_cases ho : first.offset = 0
      · simp only [ho, ne_eq, not_true_eq_false, and_false, if_false]
        have hcol : zCollect (↑first.data.length) first.finish first.data rest e
            = zCollect 0 false [] (first :: rest) e := by
          simp [zCollect, ho]
        rw [hcol]
        cases hres : zValidate C F d (zCollect 0 false [] (first :: rest) e).1 (zCollect 0 false [] (first :: rest) e).2 with
        | ok c =>
          left
          have hv := (zValidate_ok_iff C F d _ _ c).mp hres
          have hz : zCollect 0 false [] (first :: rest) e = ((zCollect 0 false [] (first :: rest) e).1, none) := by
            rw [← hv.1]
          obtain ⟨pre, last, rest', hff, hcg, hbs⟩ := (zCollect_eof_iff (first :: rest) 0 [] e _).mp hz
          simp at hbs
          refine ⟨c, _, ⟨pre, last, rest', hff, hcg, ?_, ⟨hv.2.2.1, hv.2.2.2.1⟩, ?_⟩, rfl⟩
          · rw [← hbs]; exact hv.2.1
          · rw [← hbs]; exact hv.2.2.2.2
        | error er =>
          right
          refine ⟨?_, finishWrite_error st d er _ wf⟩
          rintro ⟨c, pre, last, rest', hff, hcg, hc, hvalid, hfin⟩
          have hz := (zCollect_eof_iff (first :: rest) 0 [] e (concatData (pre ++ [last]))).mpr
            ⟨pre, last, rest', hff, hcg, by simp⟩
          have : zValidate C F d (zCollect 0 false [] (first :: rest) e).1 (zCollect 0 false [] (first :: rest) e).2 = .ok c := by
            rw [hz]
            exact (zValidate_ok_iff C F d _ _ c).mpr ⟨rfl, hc, hvalid.1, hvalid.2, hfin⟩
          rw [hres] at this; cases this
      · right
        refine ⟨?_, ?_⟩
        · rintro ⟨c, pre, last, rest', hff, hcg, _⟩
          exact ho (contig_append_head hff.1 hcg)
        · simp [hW, ho]

end BB.ByteStream
