import BB.Proofs.ByteStreamWrite
/-!
# The compressed write path: which request sequences reach the decoder completely
-/
namespace BB.ByteStream

/-- `last` is the first request carrying `finish_write`: `msgs = pre ++ last :: rest`. -/
def FirstFinish (msgs pre : List WriteReq) (last : WriteReq) (rest : List WriteReq) : Prop :=
  msgs = pre ++ last :: rest ∧ (∀ m ∈ pre, m.finish = false) ∧ last.finish = true

theorem zCollect_fin (noff : Int) (acc : Bytes) (msgs : List WriteReq) (e : StreamEnd) :
    zCollect noff true acc msgs e = (acc, none) := by
  cases msgs <;> simp [zCollect]

theorem concatData_append (a b : List WriteReq) : concatData (a ++ b) = concatData a ++ concatData b := by
  induction a with
  | nil => simp [concatData]
  | cons m ms ih => simp [concatData, ih]

/-- The compressed stream is presented to the decoder up to a clean end exactly when the
requests up to the first `finish_write` are contiguous; what follows is never looked at. -/
theorem zCollect_eof_iff (msgs : List WriteReq) :
    ∀ (noff : Int) (acc : Bytes) (e : StreamEnd) (bs : Bytes),
    (zCollect noff false acc msgs e = (bs, none) ↔
      ∃ pre last rest, FirstFinish msgs pre last rest ∧ Contig noff (pre ++ [last]) ∧
        bs = acc ++ concatData (pre ++ [last])) := by
  induction msgs with
  | nil =>
    intro noff acc e bs
    cases e <;> simp [zCollect, FirstFinish]
  | cons m ms ih =>
    intro noff acc e bs
    simp only [zCollect, Bool.false_eq_true, if_false]
    by_cases ho : m.offset = noff
    · simp only [ho, ne_eq, not_true_eq_false, if_false]
      cases hf : m.finish with
      | true =>
        rw [zCollect_fin]
        constructor
        · intro h
          have hb : bs = acc ++ m.data := by cases h; rfl
          exact ⟨[], m, ms, ⟨rfl, by simp, hf⟩, ⟨ho, trivial⟩, by simp [concatData, hb]⟩
        · rintro ⟨pre, last, rest, ⟨h1, h2, _⟩, _, hb⟩
          cases pre with
          | nil =>
            simp at h1
            rw [hb, ← h1.1]; simp [concatData]
          | cons p ps =>
            simp at h1
            have := h2 p (by simp)
            rw [← h1.1, hf] at this; cases this
      | false =>
        rw [ih]
        constructor
        · rintro ⟨pre, last, rest, ⟨h1, h2, h3⟩, hc, hb⟩
          refine ⟨m :: pre, last, rest, ⟨by simp [h1], ?_, h3⟩, ⟨ho, hc⟩, by simp [concatData, hb]⟩
          intro x hx
          cases hx with
          | head => exact hf
          | tail _ hx => exact h2 x hx
        · rintro ⟨pre, last, rest, ⟨h1, h2, h3⟩, hc, hb⟩
          cases pre with
          | nil =>
            simp at h1
            rw [h1.1, h3] at hf; cases hf
          | cons p ps =>
            simp at h1
            obtain ⟨hp, hrest⟩ := h1
            subst hp
            exact ⟨ps, last, rest, ⟨hrest, fun x hx => h2 x (by simp [hx]), h3⟩, hc.2, by simp [concatData, hb]⟩
    · simp only [ho, ne_eq, not_false_eq_true, if_true]
      constructor
      · intro h; cases h
      · rintro ⟨pre, last, rest, ⟨h1, _, _⟩, hc, _⟩
        cases pre with
        | nil =>
          simp at h1
          rw [← h1.1] at hc
          exact absurd hc.1 ho
        | cons p ps =>
          simp at h1
          rw [← h1.1] at hc
          exact absurd hc.1 ho

/-- whatever happens, the bytes collected are the concatenation of a prefix of the requests -/
theorem zCollect_length (msgs : List WriteReq) :
    ∀ (noff : Int) (fin : Bool) (acc : Bytes) (e : StreamEnd),
    acc.length ≤ (zCollect noff fin acc msgs e).1.length := by
  induction msgs with
  | nil => intro noff fin acc e; cases fin <;> cases e <;> simp [zCollect]
  | cons m ms ih =>
    intro noff fin acc e
    simp only [zCollect]
    cases fin with
    | true => simp
    | false =>
      by_cases ho : m.offset = noff
      · simp only [ho, Bool.false_eq_true, if_false, ne_eq, not_true_eq_false]
        have := ih (noff + m.data.length) m.finish (acc ++ m.data) e
        simp at this; omega
      · simp [ho]

/-- What `zValidate` accepts: the decoder's output has the digest's size and hash, and the
decoder ended cleanly (or, with the lenient end-of-data probe, inside a trailing frame). -/
theorem zValidate_ok_iff (C : Codec) (F : Flags) (d : Digest) (acc : Bytes) (term : Option Err) (c : Bytes) :
    zValidate C F d acc term = .ok c ↔
      term = none ∧ c = (C.dec acc).1 ∧ c.length = d.size ∧ C.H c = d.hash ∧
        ((C.dec acc).2 = .clean ∨ (F.lenient = true ∧ (C.dec acc).2 = .trunc)) := by
  unfold zValidate
  by_cases h1 : (C.dec acc).1.length > d.size
  · simp only [h1, if_true]
    constructor
    · intro h; cases h
    · rintro ⟨_, hc, hl, _⟩; rw [hc] at hl; omega
  · simp only [h1, if_false]
    cases hfin : (C.dec acc).2 with
    | corrupt => simp
    | clean =>
      cases term with
      | some e => simp
      | none =>
        by_cases h2 : (C.dec acc).1.length < d.size
        · simp [h2]; intro hc hl; rw [hc] at hl; omega
        · by_cases h3 : C.H (C.dec acc).1 = d.hash
          · simp [h2, h3]; constructor
            · intro h; subst h; exact ⟨rfl, by omega, h3⟩
            · intro h; exact h.1.symm
          · simp [h2, h3]; intro hc _ hh; rw [hc] at hh; exact absurd hh h3
    | trunc =>
      cases term with
      | some e => simp; split <;> simp
      | none =>
        by_cases h2 : (C.dec acc).1.length < d.size
        · simp [h2]; intro hc hl; rw [hc] at hl; omega
        · cases hlen : F.lenient with
          | false => simp [h2]
          | true =>
            by_cases h3 : C.H (C.dec acc).1 = d.hash
            · simp [h2, h3]; constructor
              · intro h; subst h; exact ⟨rfl, by omega, h3⟩
              · intro h; exact h.1.symm
            · simp [h2, h3]; intro hc _ hh; rw [hc] at hh; exact absurd hh h3

end BB.ByteStream
