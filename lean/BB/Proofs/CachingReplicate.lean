import BB.Proofs.CachingCompositeFaults
/-! A copying replicator that reports success has put every requested object into the sink -
for every fault script. -/
namespace BB.Caching

def SinkMono (p p' : Pair) : Prop := ∀ k, (p.sink.data k).isSome = true → (p'.sink.data k).isSome = true

theorem SinkMono.refl (p : Pair) : SinkMono p p := fun _ h => h
theorem SinkMono.trans {p q r : Pair} (h1 : SinkMono p q) (h2 : SinkMono q r) : SinkMono p r :=
  fun k h => h2 k (h1 k h)

theorem Backend.put_mono (b : Backend) (k : Key) (src : Except Err Val) (k' : Key)
    (h : (b.data k').isSome = true) : ((b.put k src).1.data k').isSome = true := by
  rcases Backend.put_data b k src k' with e | ⟨_, _, v, _, e⟩
  · rw [e]; exact h
  · rw [e]; rfl

theorem Backend.put_ok_holds (b : Backend) (k : Key) (src : Except Err Val) (h : (b.put k src).2 = none) :
    ((b.put k src).1.data k).isSome = true := by
  unfold Backend.put at h ⊢
  split at h
  · cases h
  · split at h
    · cases h
    · simp

theorem Backend.findMissing_nil (b : Backend) (k : Key) (h : (b.findMissing [k]).2 = .ok []) :
    (b.data k).isSome = true := by
  unfold Backend.findMissing at h
  simp only at h
  split at h
  · cases h
  · cases hd : b.data k <;> simp_all

/-- What a successful `ReplicateMultiple` guarantees, and what every one guarantees. -/
structure ReplOk (f : Pair → List Key → Pair × Option Err) : Prop where
  mono : ∀ p ks, SinkMono p (f p ks).1
  holds : ∀ p ks, (f p ks).2 = none → ∀ k ∈ ks, ((f p ks).1.sink.data k).isSome = true

theorem localMultiple_ok : ReplOk localMultiple := by
  have hmono : ∀ ks p, SinkMono p (localMultiple p ks).1 := by
    intro ks
    induction ks with
    | nil => intro p; exact SinkMono.refl p
    | cons k ks ih =>
      intro p
      have hstep : SinkMono p ⟨(p.src.get k).1, (p.sink.put k (p.src.get k).2).1⟩ :=
        fun k' h => Backend.put_mono p.sink k _ k' h
      simp only [localMultiple]
      split
      · exact hstep
      · exact hstep.trans (ih _)
  refine ⟨fun p ks => hmono ks p, ?_⟩
  intro p ks
  induction ks generalizing p with
  | nil => intro _ k hk; cases hk
  | cons k ks ih =>
    intro h k' hk'
    simp only [localMultiple] at h ⊢
    split at h
    · cases h
    · rename_i hw
      try simp only [hw]
      simp only [List.mem_cons] at hk'
      rcases hk' with rfl | hk'
      · exact hmono ks _ _ (Backend.put_ok_holds p.sink _ _ hw)
      · exact ih _ h k' hk'

theorem dedupLoop_ok (base : Pair → List Key → Pair × Option Err) (hb : ReplOk base) : ReplOk (dedupLoop base) := by
  have hfm : ∀ (p : Pair) (k : Key), SinkMono p ⟨p.src, (p.sink.findMissing [k]).1⟩ := fun _ _ _ h => h
  have hmono : ∀ ks p, SinkMono p (dedupLoop base p ks).1 := by
    intro ks
    induction ks with
    | nil => intro p; exact SinkMono.refl p
    | cons k ks ih =>
      intro p
      simp only [dedupLoop]
      split
      · exact hfm p k
      · exact (hfm p k).trans (ih _)
      · split
        · exact (hfm p k).trans (hb.mono _ _)
        · exact ((hfm p k).trans (hb.mono _ _)).trans (ih _)
  refine ⟨fun p ks => hmono ks p, ?_⟩
  intro p ks
  induction ks generalizing p with
  | nil => intro _ k hk; cases hk
  | cons k ks ih =>
    intro h k' hk'
    simp only [dedupLoop] at h ⊢
    simp only [List.mem_cons] at hk'
    split at h
    · cases h
    · rename_i hf
      try simp only [hf]
      rcases hk' with rfl | hk'
      · exact hmono ks _ _ (Backend.findMissing_nil p.sink _ hf)
      · exact ih _ h k' hk'
    · rename_i hf
      try simp only [hf]
      split at h
      · cases h
      · rename_i hr
        try simp only [hr]
        rcases hk' with rfl | hk'
        · exact hmono ks _ _ (hb.holds _ _ hr _ (by simp))
        · exact ih _ h k' hk'

theorem replMultiple_ok (r : Repl) (hr : r.copying = true) : ReplOk (replMultiple r) := by
  induction r with
  | noop => simp [Repl.copying] at hr
  | localR => exact localMultiple_ok
  | dedup b ih => exact dedupLoop_ok _ (ih hr)
  | limit b ih => exact ih hr

end BB.Caching
