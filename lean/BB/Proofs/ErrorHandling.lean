import BB.Model.ErrorHandling
/-!
# Helper lemmas for C16, part 1: sources, stitching, validation of chunk streams
-/
namespace BB.ErrorHandling

/-! ## List facts -/

theorem prefix_drop {α : Type} {l D : List α} (n : Nat) (h : l <+: D) : l.drop n <+: D.drop n := by
  obtain ⟨r, rfl⟩ := h
  rw [List.drop_append]
  exact List.prefix_append _ _

/-- Extending a prefix of `D.drop off` by a prefix of what follows it. -/
theorem prefix_extend {α : Type} {a x D : List α} {off : Nat} (ha : a <+: D.drop off)
    (hx : x <+: D.drop (off + a.length)) : a ++ x <+: D.drop off := by
  obtain ⟨r, hr⟩ := ha
  obtain ⟨s, hs⟩ := hx
  have : D.drop (off + a.length) = r := by
    rw [← List.drop_drop, ← hr]; simp
  refine ⟨s, ?_⟩
  rw [List.append_assoc, hs, this, hr]

theorem prefix_nil_of_drop {α : Type} (D : List α) (n : Nat) : ([] : List α) <+: D.drop n := List.nil_prefix

/-! ## Pieces, skipping -/

theorem piecesF_flatten (m : Nat) : ∀ (f : Nat) (b : Bytes), b.length ≤ f → (piecesF m f b).flatten = b
  | 0, b, h => by
    have : b = [] := List.eq_nil_of_length_eq_zero (by omega)
    subst this; simp [piecesF]
  | f+1, b, h => by
    unfold piecesF
    by_cases hb : b = []
    · simp [hb]
    · simp only [hb, if_false]
      by_cases hm : b.length ≤ m ∨ m = 0
      · simp [hm]
      · simp only [hm, if_false]
        have hm' : 0 < m ∧ m < b.length := by omega
        rw [List.flatten_cons, piecesF_flatten m f (b.drop m) (by simp; omega), List.take_append_drop]

theorem pieces_flatten (m : Nat) (b : Bytes) : (pieces m b).flatten = b :=
  piecesF_flatten m b.length b (Nat.le_refl _)

theorem flatMap_pieces_flatten (m : Nat) : ∀ cs : List Bytes, (cs.flatMap (pieces m)).flatten = cs.flatten
  | [] => rfl
  | c :: cs => by
    rw [List.flatMap_cons, List.flatten_append, pieces_flatten, flatMap_pieces_flatten m cs, List.flatten_cons]

theorem dropChunks_some : ∀ (cs : List Bytes) (off : Nat) (cs' : List Bytes),
    dropChunks cs off = some cs' → cs'.flatten = cs.flatten.drop off ∧ off ≤ cs.flatten.length
  | cs, 0, cs', h => by
    cases cs <;> simp [dropChunks] at h <;> subst h <;> simp
  | [], off+1, cs', h => by simp [dropChunks] at h
  | c :: cs, off+1, cs', h => by
    unfold dropChunks at h
    by_cases hlt : off + 1 < c.length
    · simp only [hlt, if_true, Option.some.injEq] at h
      subst h
      simp only [List.flatten_cons, List.length_append]
      refine ⟨?_, by omega⟩
      rw [List.drop_append]
      have : off + 1 - c.length = 0 := by omega
      simp [this]
    · simp only [hlt, if_false] at h
      have hle : c.length ≤ off + 1 := Nat.le_of_not_lt hlt
      obtain ⟨h1, h2⟩ := dropChunks_some cs _ cs' h
      simp only [List.flatten_cons, List.length_append]
      refine ⟨?_, by omega⟩
      rw [h1, List.drop_append, List.drop_eq_nil_of_le hle]
      simp

theorem dropChunks_none : ∀ (cs : List Bytes) (off : Nat), dropChunks cs off = none → cs.flatten.length < off
  | cs, 0, h => by cases cs <;> simp [dropChunks] at h
  | [], off+1, _ => by simp
  | c :: cs, off+1, h => by
    unfold dropChunks at h
    by_cases hlt : off + 1 < c.length
    · simp [hlt] at h
    · simp only [hlt, if_false] at h
      have := dropChunks_none cs _ h
      simp only [List.flatten_cons, List.length_append]
      omega

/-- An opened unvalidated chunk reader yields exactly the source's bytes from the offset on. -/
theorem openChunks_flatten (b : Buf) (off m : Nat) : (openChunks b off m).1.flatten = (content b).drop off := by
  cases b with
  | bytes data =>
    simp only [openChunks, content]
    by_cases h : off > data.length
    · rw [if_pos h, List.drop_eq_nil_of_le (Nat.le_of_lt h)]; rfl
    · rw [if_neg h]; exact pieces_flatten _ _
  | readerAt data suf =>
    simp only [openChunks, content]
    by_cases h : off > data.length
    · rw [if_pos h, List.drop_eq_nil_of_le (Nat.le_of_lt h)]; rfl
    · rw [if_neg h]; exact pieces_flatten _ _
  | error e => simp [openChunks, content]
  | chunks d s =>
    simp only [openChunks, content]
    cases hd : dropChunks (scan s).1 off with
    | none => simp [List.drop_eq_nil_of_le (Nat.le_of_lt (dropChunks_none _ _ hd))]
    | some cs => simp [flatMap_pieces_flatten, (dropChunks_some _ _ _ hd).1]
  | reader d s =>
    simp only [openChunks, content]
    by_cases h : off > (scan s).1.flatten.length
    · rw [if_pos h, List.drop_eq_nil_of_le (Nat.le_of_lt h)]; rfl
    · rw [if_neg h]; exact pieces_flatten _ _
  | clone d s =>
    simp only [openChunks, content]
    cases hd : dropChunks ((scan s).1.flatMap (pieces (min m cloneChunk))) off with
    | none =>
      have := dropChunks_none _ _ hd
      rw [flatMap_pieces_flatten] at this
      simp [List.drop_eq_nil_of_le (Nat.le_of_lt this)]
    | some cs =>
      have := (dropChunks_some _ _ _ hd).1
      rw [flatMap_pieces_flatten] at this
      simp [this]

/-! ## Event sequences -/

/-- The bytes carried by the chunks of a sequence. -/
def evBytes : List Ev → Bytes
  | [] => []
  | .chunk c :: r => c ++ evBytes r
  | .onErr _ :: r => evBytes r

/-- The `OnError` calls of a sequence. -/
def evErrs : List Ev → List Err
  | [] => []
  | .chunk _ :: r => evErrs r
  | .onErr e :: r => e :: evErrs r

@[simp] theorem evBytes_append (a b : List Ev) : evBytes (a ++ b) = evBytes a ++ evBytes b := by
  induction a with
  | nil => rfl
  | cons x a ih => cases x <;> simp [evBytes, ih]

@[simp] theorem evErrs_append (a b : List Ev) : evErrs (a ++ b) = evErrs a ++ evErrs b := by
  induction a with
  | nil => rfl
  | cons x a ih => cases x <;> simp [evErrs, ih]

@[simp] theorem evBytes_chunks (cs : List Bytes) : evBytes (cs.map .chunk) = cs.flatten := by
  induction cs with
  | nil => rfl
  | cons c cs ih => simp [evBytes, ih]

@[simp] theorem evErrs_chunks (cs : List Bytes) : evErrs (cs.map .chunk) = [] := by
  induction cs with
  | nil => rfl
  | cons c cs ih => simp [evErrs, ih]

/-! ## Specification vocabulary -/

/-- Bytes handed to the consumer by a list of `Read` results. -/
def readBytes (rs : List (Bytes × Status)) : Bytes := (rs.map (·.1)).flatten

@[simp] theorem readBytes_nil : readBytes [] = [] := rfl
@[simp] theorem readBytes_cons (bs : Bytes) (st : Status) (rs : List (Bytes × Status)) :
    readBytes ((bs, st) :: rs) = bs ++ readBytes rs := rfl

/-- The buffer holds the object `D` or a prefix of it up to its first failure: failing is its only defect. -/
def Good (D : Bytes) : Buf → Prop
  | .bytes data => data = D
  | .readerAt data _ => data = D
  | .error _ => True
  | .chunks d s => d.size = D.length ∧ (scan s).1.flatten <+: D
  | .reader d s => d.size = D.length ∧ (scan s).1.flatten <+: D
  | .clone d s => d.size = D.length ∧ (scan s).1.flatten <+: D

def GoodH (D : Bytes) (h : List Resp) : Prop := ∀ b, Resp.repl b ∈ h → Good D b

theorem Good.content_prefix {D : Bytes} {b : Buf} (h : Good D b) : content b <+: D := by
  cases b with
  | bytes data => simp only [Good] at h; subst h; exact List.prefix_refl _
  | readerAt data suf => simp only [Good] at h; subst h; exact List.prefix_refl _
  | error e => exact List.nil_prefix
  | chunks d s => exact h.2
  | reader d s => exact h.2
  | clone d s => exact h.2

theorem GoodH.tail {D : Bytes} {r : Resp} {h : List Resp} (g : GoodH D (r :: h)) : GoodH D h :=
  fun b hb => g b (List.mem_cons_of_mem _ hb)

theorem GoodH.head {D : Bytes} {b : Buf} {h : List Resp} (g : GoodH D (.repl b :: h)) : Good D b :=
  g b List.mem_cons_self

/-- Every buffer carries the digest `d`; validated byte slices hold `D` (that is what makes them "validated"). -/
def Sealed (d : Digest) (D : Bytes) : Buf → Prop
  | .bytes data => data = D
  | .readerAt data _ => data = D
  | .error _ => True
  | .chunks d' _ => d' = d
  | .reader d' _ => d' = d
  | .clone d' _ => d' = d

def SealedH (d : Digest) (D : Bytes) (h : List Resp) : Prop := ∀ b, Resp.repl b ∈ h → Sealed d D b

theorem SealedH.tail {d : Digest} {D : Bytes} {r : Resp} {h : List Resp} (g : SealedH d D (r :: h)) : SealedH d D h :=
  fun b hb => g b (List.mem_cons_of_mem _ hb)

theorem SealedH.head {d : Digest} {D : Bytes} {b : Buf} {h : List Resp} (g : SealedH d D (.repl b :: h)) : Sealed d D b :=
  g b List.mem_cons_self

/-- The backing `ReaderAt` of a validated `ReaderAt` buffer ends with the object (needed for `ReadAt`
only, which that buffer delegates to the `ReaderAt` without bounding it by the object's size). -/
def Tight : Buf → Prop
  | .readerAt _ suffix => suffix = []
  | _ => True

def TightH (h : List Resp) : Prop := ∀ b, Resp.repl b ∈ h → Tight b

/-- Errors the buffer layer itself raises (as opposed to error values that come from a source, an
error buffer or the handler). -/
def Err.isIntegrity : Err → Prop
  | .sizeMismatch _ _ | .tooBig | .hashMismatch | .badOffset _ _ | .tooLarge _ _ => True
  | _ => False

/-- `Own b e`: `e` is an error of buffer `b`: the error of an error buffer, the (first) failure of a
scripted source, or an integrity/offset/size-limit error raised while reading `b`. -/
def Own : Buf → Err → Prop
  | .error e', e => e = e'
  | .bytes _, e => e.isIntegrity
  | .readerAt _ _, e => e.isIntegrity
  | .chunks _ s, e => (scan s).2 = .err e ∨ e.isIntegrity
  | .reader _ s, e => (scan s).2 = .err e ∨ e.isIntegrity
  | .clone _ s, e => (scan s).2 = .err e ∨ e.isIntegrity

/-- `Chain b h log`: the `OnError` calls `log` are, one each and in order, errors of the buffers in
use: first `b`, then the replacement the handler answered with; after an answer that is not a
replacement the handler is not called again. -/
inductive Chain : Buf → List Resp → List Err → Prop
  | nil (b : Buf) (h : List Resp) : Chain b h []
  | last (b : Buf) (h : List Resp) (e : Err) : Own b e → Chain b h [e]
  | step (b b' : Buf) (h : List Resp) (e : Err) (l : List Err) :
      Own b e → Chain b' h l → Chain b (.repl b' :: h) (e :: l)

theorem Chain.prefix {b : Buf} {h : List Resp} {l l' : List Err} (c : Chain b h l) (hp : l' <+: l) : Chain b h l' := by
  induction c generalizing l' with
  | nil b h => have := List.prefix_nil.mp hp; subst this; exact .nil b h
  | last b h e ho =>
    cases l' with
    | nil => exact .nil b h
    | cons x r =>
      have := List.cons_prefix_cons.mp hp
      obtain ⟨rfl, hr⟩ := this
      have := List.prefix_nil.mp hr; subst this
      exact .last b h _ ho
  | step b b' h e l ho c ih =>
    cases l' with
    | nil => exact .nil b _
    | cons x r =>
      obtain ⟨rfl, hr⟩ := List.cons_prefix_cons.mp hp
      exact .step b b' h _ r ho (ih hr)

/-- What the handler decided after `n` calls: `none` = it has (so far) answered with replacements only. -/
def decision : List Resp → Nat → Option Err
  | _, 0 => none
  | [], _+1 => some .exhausted
  | .fail k :: _, _+1 => some (.tag k)
  | .repl _ :: h, n+1 => decision h n

theorem openChunks_own (b : Buf) (off m : Nat) (e : Err) (h : (openChunks b off m).2 = .err e) : Own b e := by
  cases b with
  | bytes data =>
    simp only [openChunks] at h
    by_cases hh : off > data.length
    · rw [if_pos hh] at h; simp at h; subst h; simp [Own, Err.isIntegrity]
    · rw [if_neg hh] at h; simp at h
  | readerAt data suf =>
    simp only [openChunks] at h
    by_cases hh : off > data.length
    · rw [if_pos hh] at h; simp at h; subst h; simp [Own, Err.isIntegrity]
    · rw [if_neg hh] at h; simp at h
  | error e' => simp [openChunks] at h; simp [Own, h]
  | chunks d s =>
    simp only [openChunks] at h
    cases hd : dropChunks (scan s).1 off <;> rw [hd] at h <;> exact Or.inl h
  | reader d s =>
    simp only [openChunks] at h
    by_cases hh : off > (scan s).1.flatten.length
    · rw [if_pos hh] at h; exact Or.inl h
    · rw [if_neg hh] at h; exact Or.inl h
  | clone d s =>
    simp only [openChunks] at h
    cases hd : dropChunks ((scan s).1.flatMap (pieces (min m cloneChunk))) off <;> rw [hd] at h <;> exact Or.inl h

end BB.ErrorHandling
