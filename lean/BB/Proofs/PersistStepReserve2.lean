import BB.Proofs.PersistStepReserve
/-!
# Invariant preservation: `reserve`, the objects
-/
namespace BB.Persist

theorem eq_of_map_nodup {α β : Type} {f : α → β} : ∀ {l : List α}, (l.map f).Nodup → ∀ {a b : α}, a ∈ l → b ∈ l → f a = f b → a = b := by
  intro l
  induction l with
  | nil => intro _ a b ha; simp at ha
  | cons x xs ih =>
    intro hn a b ha hb hf
    simp only [List.map_cons, List.nodup_cons] at hn
    simp only [List.mem_cons] at ha hb
    rcases ha with rfl | ha <;> rcases hb with rfl | hb
    · rfl
    · exact absurd (List.mem_map.2 ⟨b, hb, hf.symm⟩) hn.1
    · exact absurd (List.mem_map.2 ⟨a, ha, hf⟩) hn.1
    · exact ih hn.2 ha hb hf

/-- Two blocks of the list with the same generation sit at the same index. -/
theorem idx_of_gid {p : PBL} (hw : WFP p) {i j : Nat} {b1 b2 : Blk} (h1 : p.blocks[i]? = some b1) (h2 : p.blocks[j]? = some b2)
    (hg : b1.gid = b2.gid) : i = j := by
  obtain ⟨g, hgf⟩ := hw.gids
  have e1 := gidsFrom_get _ _ _ _ hgf h1
  have e2 := gidsFrom_get _ _ _ _ hgf h2
  omega

/-- The new object of `reserve` joins the objects. -/
theorem objInv_add {c : Cfg} {objs : List Obj} {p : PBL} {z : List Blk} {pins : List Nat} {no ng : Nat} {sh : List (Nat × Nat)}
    (hw : WFP p) (hown : ((held p z).map (·.gid)).Nodup) (hgl : ∀ b ∈ held p z, b.gid < ng)
    (ho : ObjInv c objs p z pins no ng sh) (o : Obj) (i : Nat) (b : Blk) (hb : p.blocks[i]? = some b)
    (h1 : o.id = no) (h2 : o.gid = b.gid) (h3 : o.slot = b.slot) (h4 : o.off + o.size = b.cursor) (h5 : 1 ≤ o.size)
    (h6 : o.abs = p.released + i) (h7 : o.mine = true) (h8 : o.copied = false) (h9 : o.fin = none)
    (h10 : o.precov = false) (h11 : o.durable = false) (h12 : b.base ≤ o.off)
    (hend : ∀ o2 ∈ objs, o2.mine = true → o2.gid = b.gid → o2.off + o2.size ≤ o.off) :
    ObjInv c (objs ++ [o]) p z (b.gid :: pins) (no + 1) ng sh := by
  have hbm : b ∈ p.blocks := List.mem_of_getElem? hb
  have hbh : b ∈ held p z := List.mem_append_left _ (List.mem_append_left _ hbm)
  have same : ∀ b2 ∈ held p z, b2.gid = b.gid → b2 = b := fun b2 hb2 hg => eq_of_map_nodup hown hb2 hbh hg
  have split : ∀ x ∈ objs ++ [o], x ∈ objs ∨ x = o := by
    intro x hx; rcases List.mem_append.1 hx with hx | hx
    · exact Or.inl hx
    · exact Or.inr (by simpa using hx)
  constructor
  · rw [List.map_append, List.nodup_append]
    refine ⟨ho.ids, by simp, ?_⟩
    intro a ha b' hb'
    simp at hb'; subst hb'
    obtain ⟨x, hx, rfl⟩ := List.mem_map.1 ha
    have := ho.idLt x hx
    omega
  · intro x hx; rcases split x hx with hx | rfl
    · exact Nat.lt_succ_of_lt (ho.idLt x hx)
    · omega
  · intro x hx; rcases split x hx with hx | rfl
    · exact ho.size x hx
    · exact h5
  · intro x hx; rcases split x hx with hx | rfl
    · exact ho.gidLt x hx
    · rw [h2]; exact hgl b hbh
  · intro x hx b2 hb2 hg; rcases split x hx with hx | rfl
    · exact ho.slotOk x hx b2 hb2 hg
    · rw [same b2 hb2 (by rw [hg, h2]), h3]
  · intro x hx hm j b2 hb2 hg; rcases split x hx with hx | rfl
    · exact ho.place x hx hm j b2 hb2 hg
    · have hij : j = i := idx_of_gid hw hb2 hb (by rw [hg, h2])
      subst hij
      rw [hb] at hb2; simp at hb2; subst hb2
      exact ⟨h6, by omega⟩
  · intro x hx hm; rcases split x hx with hx | rfl
    · exact ho.absIn x hx hm
    · refine ⟨by rw [h6]; have := (List.getElem?_eq_some_iff.1 hb).1; omega, fun _ => ⟨b, ?_, h2.symm⟩⟩
      rw [h6]; simpa using hb
  · intro x hx hm b2 hb2 hg; rcases split x hx with hx | rfl
    · exact ho.baseLe x hx hm b2 hb2 hg
    · rw [same b2 hb2 (by rw [hg, h2])]; exact h12
  · intro x hx hm; rcases split x hx with hx | rfl
    · exact ho.restored x hx hm
    · rw [h7] at hm; cases hm
  · intro x hx y hy mx my hg hid
    rcases split x hx with hx' | hxo
    · rcases split y hy with hy' | hyo
      · exact ho.disj x hx' y hy' mx my hg hid
      · subst hyo; left; exact hend x hx' mx (by rw [hg, h2])
    · rcases split y hy with hy' | hyo
      · subst hxo; right; exact hend y hy' my (by rw [← hg, h2])
      · subst hxo; subst hyo; exact absurd rfl hid
  · intro x hx hm hc; rcases split x hx with hx | rfl
    · exact ho.heldW x hx hm hc
    · exact ⟨b, hbh, h2.symm⟩
  · intro g
    rw [List.filter_append, List.length_append, List.count_cons]
    have := ho.pinCount g
    by_cases hg : b.gid = g
    · subst hg; simp [h2, h7, h8]; omega
    · have : (o.gid == g) = false := by simp [h2, hg]
      simp [this, hg]; omega
  · intro x hx hf; rcases split x hx with hx | rfl
    · exact ho.fin x hx hf
    · rw [h9] at hf; cases hf
  · intro x hx; rcases split x hx with hx | rfl
    · exact ho.flags x hx
    · exact ⟨(fun hp => by rw [h10] at hp; cases hp), (fun hd => by rw [h11] at hd; cases hd)⟩
  · intro x hx hc; rcases split x hx with hx | rfl
    · exact ho.shadow x hx hc
    · rw [h8] at hc; cases hc
  · exact ho.aligned
  · exact ho.cursor

end BB.Persist
