import BB.Proofs.MuxList
/-! The invariant of the multiplexed chunk reader and its preservation. -/
namespace BB.Mux

/-- What holds of one consumer when the source has been read `pos` times. -/
def Good (src : Nat → Res) (pos : Nat) (c : Con) : Prop :=
  c.got = srcPrefix src c.got.length ∧
  match c.st with
  | .idle => c.got.length = pos
  | .waiting => c.got.length = pos
  | .ready r => c.got.length + 1 = pos ∧ r = src c.got.length
  | .closed => c.got.length ≤ pos

structure Inv (src : Nat → Res) (n : Nat) (s : St) : Prop where
  noPanic : s.panicked = false
  len : s.cons.length = n
  pend : s.pending = s.cons.countP Con.live
  good : ∀ (j : Nat) (c : Con), s.cons[j]? = some c → Good src s.pos c
  alive : s.srcLive = true → 0 < s.pending ∧ s.closes = 0
  dead : s.srcLive = false → (∀ (j : Nat) (c : Con), s.cons[j]? = some c → c.st = .closed) ∧ s.closes = 1 ∧ s.pending = 0

theorem all_modify {α : Type} (P : α → Prop) (f : α → α) (l : List α) (i : Nat)
    (h : ∀ (j : Nat) (c : α), l[j]? = some c → P c) (hi : ∀ c, l[i]? = some c → P (f c)) :
    ∀ (j : Nat) (c : α), (l.modify i f)[j]? = some c → P c := by
  intro j c hc
  rw [List.getElem?_modify] at hc
  cases hj : l[j]? with
  | none => simp [hj] at hc
  | some c0 =>
    simp [hj] at hc
    by_cases e : i = j
    · subst e; simp at hc; subst hc; exact hi c0 hj
    · simp [e] at hc; subst hc; exact h j c0 hj

theorem inv_init (src : Nat → Res) (a : Nat) : Inv src (1 + a) (St.init a) := by
  refine ⟨rfl, by simp [St.init], ?_, ?_, ?_, ?_⟩
  · simp [St.init, List.countP_replicate, Con.live]
  · intro j c h
    simp [St.init, List.getElem?_replicate] at h
    obtain ⟨_, rfl⟩ := h
    simp [Good, srcPrefix, St.init]
  · intro _; simp [St.init]; omega
  · intro h; simp [St.init] at h

/-- only consumer `i` is live when `pending = 1` -/
theorem others_not_live (l : List Con) (i : Nat) (c : Con) (hi : l[i]? = some c) (hl : c.live = true)
    (h1 : List.countP Con.live l = 1) : ∀ (j : Nat) (c' : Con), j ≠ i → l[j]? = some c' → c'.live = false := by
  intro j c' hj hc'
  have := countP_modify Con.live (fun c => { c with st := CS.closed }) l i c hi
  have e1 : Con.live { c with st := CS.closed } = false := rfl
  rw [hl, e1, h1] at this
  simp at this
  have hm : (l.modify i fun c => { c with st := CS.closed })[j]? = some c' := by
    rw [List.getElem?_modify, hc']; simp; intro e; exact absurd e.symm hj
  have := this c' (List.mem_iff_getElem?.mpr ⟨j, hm⟩)
  simpa using this

theorem good_deliver (src : Nat → Res) (pos : Nat) (c : Con) (h : Good src pos c) (hl : c.live = false) :
    Good src (pos + 1) (deliver (src pos) c) := by
  cases c with | mk st got =>
  cases st with
  | idle => simp [Con.live] at hl
  | ready r => simp [Con.live] at hl
  | waiting =>
    simp only [Good, deliver, Con.isWaiting] at h ⊢
    simp; exact ⟨h.1, h.2, by rw [h.2]⟩
  | closed =>
    simp only [Good, deliver, Con.isWaiting] at h ⊢
    simp; exact ⟨h.1, by omega⟩

theorem get_modify_map {α : Type} (g f : α → α) (l : List α) (i j : Nat) (c' : α)
    (h : ((l.map g).modify i f)[j]? = some c') :
    ∃ c0, l[j]? = some c0 ∧ c' = if i = j then f (g c0) else g c0 := by
  rw [List.getElem?_modify, List.getElem?_map] at h
  cases hj : l[j]? with
  | none => simp [hj] at h
  | some c0 =>
    refine ⟨c0, rfl, ?_⟩
    simp [hj] at h
    by_cases e : i = j <;> simp [e] at h ⊢ <;> exact h.symm

theorem srcLive_of_pending (src : Nat → Res) (n : Nat) (s : St) (h : Inv src n s) (hp : 0 < s.pending) :
    s.srcLive = true := by
  cases hl : s.srcLive with
  | true => rfl
  | false => have := (h.dead hl).2.2; omega

theorem inv_share (src : Nat → Res) (n : Nat) (s : St) (i : Nat) (c : Con) (cont : Bool)
    (h : Inv src n s) (hi : s.cons[i]? = some c) (hc : c.st = .idle) (hp : s.pending = 1)
    (hw : cont = false → nWaiting s.cons ≠ 0) : Inv src n (s.share src i cont) := by
  have hlive := srcLive_of_pending src n s h (by omega)
  have hcl : c.live = true := by simp [Con.live, hc]
  have hcw : c.isWaiting = false := live_not_waiting c hcl
  have h1 : List.countP Con.live s.cons = 1 := by rw [← h.pend, hp]
  have hmi : (s.cons.map (deliver (src s.pos)))[i]? = some c := by
    rw [List.getElem?_map, hi]; simp [deliver, hcw]
  simp only [St.share, hlive, Bool.not_true, Bool.false_eq_true, if_false]
  refine ⟨h.noPanic, by simp [h.len], ?_, ?_, ?_, ?_⟩
  · -- pending
    show nWaiting s.cons + _ = _
    cases cont with
    | true =>
      rw [countP_modify_same Con.live _ (by intro a; rfl), countP_live_deliver, h1]; simp; omega
    | false =>
      have := countP_modify Con.live (fun c => { c with st := CS.closed }) _ i c hmi
      rw [countP_live_deliver, h1, hcl] at this
      have e1 : Con.live { c with st := CS.closed } = false := rfl
      rw [e1] at this
      simp at this ⊢; omega
  · -- every consumer
    intro j c' hj
    obtain ⟨c0, hc0, rfl⟩ := get_modify_map _ _ _ _ _ _ hj
    have g0 := h.good j c0 hc0
    by_cases e : i = j
    · subst e
      rw [hi] at hc0; cases hc0
      have : deliver (src s.pos) c = c := by simp [deliver, hcw]
      simp only [if_true, this]
      cases c with | mk st got =>
      simp only at hc; subst hc
      simp only [Good] at g0
      cases cont with
      | true =>
        simp only [Good, if_true]
        refine ⟨?_, by simp [g0.2]⟩
        rw [List.length_append, List.length_singleton, srcPrefix_succ, ← g0.1, g0.2]
      | false =>
        simp only [Good]
        exact ⟨g0.1, by simp; omega⟩
    · simp only [e, if_false]
      exact good_deliver src s.pos c0 g0 (others_not_live s.cons i c hi hcl h1 j c0 (fun x => e x.symm) hc0)
  · intro _
    refine ⟨?_, (h.alive hlive).2⟩
    show 0 < nWaiting s.cons + _
    cases cont with
    | true => simp
    | false => have := hw rfl; simp; omega
  · intro hd; simp at hd

end BB.Mux
