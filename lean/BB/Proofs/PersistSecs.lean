import BB.Proofs.PersistStepReserve3
/-!
# Sectors of an object
-/
namespace BB.Persist

theorem mem_secsOf {ss off size s : Nat} (hss : 0 < ss) :
    s ∈ secsOf ss off size ↔ off / ss ≤ s ∧ s * ss < off + size := by
  unfold secsOf
  rw [List.mem_range'_1]
  have h1 := Nat.div_add_mod (off + size + ss - 1) ss
  have h2 := Nat.mod_lt (off + size + ss - 1) hss
  have h3 := Nat.div_add_mod off ss
  have h4 := Nat.mod_lt off hss
  rw [Nat.mul_comm] at h1 h3
  constructor
  · rintro ⟨ha, hb⟩
    refine ⟨ha, ?_⟩
    -- s < ⌈(off+size)/ss⌉
    have hlt : s < (off + size + ss - 1) / ss := by omega
    have : (s + 1) * ss ≤ (off + size + ss - 1) / ss * ss := Nat.mul_le_mul_right ss hlt
    rw [Nat.add_mul] at this
    omega
  · rintro ⟨ha, hb⟩
    refine ⟨ha, ?_⟩
    have hlt : s < (off + size + ss - 1) / ss := by
      rw [Nat.lt_div_iff_mul_lt hss]
      omega
    omega

/-- An object that ends at or below a sector-aligned bound shares no sector with an object that
starts at or above it. -/
theorem secs_disjoint {ss off1 size1 off2 size2 B s : Nat} (hss : 0 < ss) (hB : ss ∣ B) (h1 : off1 + size1 ≤ B) (h2 : B ≤ off2)
    (hs1 : s ∈ secsOf ss off1 size1) (hs2 : s ∈ secsOf ss off2 size2) : False := by
  obtain ⟨k, rfl⟩ := hB
  obtain ⟨_, a2⟩ := (mem_secsOf hss).1 hs1
  obtain ⟨b1, _⟩ := (mem_secsOf hss).1 hs2
  have hk : k ≤ off2 / ss := by
    rw [Nat.le_div_iff_mul_le hss, Nat.mul_comm]; exact h2
  have : s * ss < ss * k := by omega
  have : s < k := by
    rw [Nat.mul_comm ss k] at this
    exact Nat.lt_of_mul_lt_mul_right this
  omega

theorem secsOf_nodup (ss off size : Nat) : (secsOf ss off size).Nodup := by
  unfold secsOf; exact List.nodup_range'

/-- Splitting a `map` at a member of a duplicate-free list: the images of the other elements come
before or after. -/
theorem map_split {α β : Type} (f : α → β) {l : List α} {a : α} (ha : a ∈ l) :
    ∃ l1 l2, l = l1 ++ a :: l2 ∧ l.map f = l1.map f ++ f a :: l2.map f := by
  obtain ⟨l1, l2, rfl⟩ := List.append_of_mem ha
  exact ⟨l1, l2, rfl, by simp⟩

end BB.Persist
