import BB.Proofs.PersistStepSwBegin2
/-!
# Invariant preservation: `NotifyPersistentStateWritten` (`swDone`): blocks are handed back to the
allocator only after a state file without them is durable (`C02_no_overwrite_after_restart`, the
allocator half)
-/
namespace BB.Persist

/-- What releasing a list of blocks does: the pinned ones become zombies, the others free slots. -/
theorem foldl_listRelease (rel : List Blk) : ∀ (w : World),
    rel.foldl World.listRelease w =
      { w with zombies := w.zombies ++ rel.filter (fun b => w.pins.contains b.gid),
               free := w.free ++ (rel.filter (fun b => !w.pins.contains b.gid)).map (·.slot) } := by
  induction rel with
  | nil => intro w; simp
  | cons b rel ih =>
    intro w
    rw [List.foldl_cons, ih]
    cases hp : w.pins.contains b.gid with
    | true =>
      have h1 : w.listRelease b = { w with zombies := w.zombies ++ [b] } := by
        unfold World.listRelease; rw [if_pos hp]
      have hm : b.gid ∈ w.pins := by simpa using hp
      rw [h1]; simp [List.filter_cons, hm]
    | false =>
      have hm : b.gid ∉ w.pins := by simpa using hp
      have h1 : w.listRelease b = { w with free := w.free ++ [b.slot] } := by
        unfold World.listRelease; rw [if_neg (by simpa using hm)]
      rw [h1]; simp [List.filter_cons, hm]

theorem filter_perm {α : Type} (p : α → Bool) (l : List α) : (l.filter p ++ l.filter (fun a => !p a)).Perm l := by
  induction l with
  | nil => simp
  | cons a l ih =>
    cases hp : p a with
    | true =>
      simp only [List.filter_cons, hp, if_true, Bool.not_true, Bool.false_eq_true, if_false, List.cons_append]
      exact List.Perm.cons a ih
    | false =>
      simp only [List.filter_cons, hp, Bool.false_eq_true, if_false, Bool.not_false, if_true]
      exact (List.perm_middle).trans (List.Perm.cons a ih)

end BB.Persist
