import BB.Proofs.ErrorHandlingOps
/-!
# Helper lemmas for C16, part 6: the operations of `casErrorHandlingBuffer`
-/
namespace BB.ErrorHandling

/-- A CAS buffer carrying digest `d`. -/
def IsCas (d : Digest) (b : Buf) : Prop := ∃ s, b = .chunks d s ∨ b = .reader d s ∨ b = .clone d s

theorem IsCas.size_of_good {d : Digest} {D : Bytes} {b : Buf} (hc : IsCas d b) (g : Good D b) : d.size = D.length := by
  obtain ⟨s, rfl | rfl | rfl⟩ := hc <;> exact g.1

theorem IsCas.digest_of_sealed {d d' : Digest} {D : Bytes} {b : Buf} (hc : IsCas d' b) (g : Sealed d D b) : d' = d := by
  obtain ⟨s, rfl | rfl | rfl⟩ := hc <;> exact g

/-- The initial state of `ToReader`. -/
def vr0 (base : Buf) (d : Digest) (h : List Resp) : VR :=
  { d := d, sticky := none, rem := d.size, acc := [], eh := ⟨openReader base 0, 0, h⟩ }

/-! ## Exactly once, given sources that hold (prefixes of) the object -/

theorem ehOp_good (D : Bytes) (b : Buf) (d : Digest) (h : List Resp) (op : Op)
    (hb : Good D b) (hd : d.size = D.length) (hh : GoodH D h)
    (ht : (∃ off n, op = .readAt off n) → Tight b ∧ TightH h) :
    delivered (ehOp b d h op).result <+: window D op ∧
    (Complete (ehOp b d h op).result → delivered (ehOp b d h op).result = window D op) := by
  have hsrc : ∀ b', (b' = b ∨ Resp.repl b' ∈ h) → Good D b' := by
    rintro b' (rfl | hm)
    · exact hb
    · exact hh b' hm
  cases op with
  | slice max =>
    obtain ⟨_, r2, _⟩ := retry_spec (baseSlice max) (fun b e => baseSlice_own) h b
    simp only [ehOp]
    cases hr : (retry (baseSlice max) b h).1 with
    | error e => simp [delivered, Complete]
    | ok a =>
      obtain ⟨_, b', hb', hf⟩ := r2 a hr
      have := whole_good (hsrc b' hb') (baseSlice_ok hf)
      subst this
      simp [delivered, window]
  | readAt off n =>
    obtain ⟨_, r2, _⟩ := retry_spec (baseReadAt off n) (fun b e => baseReadAt_own) h b
    simp only [ehOp]
    cases hr : (retry (baseReadAt off n) b h).1 with
    | error e => simp [delivered, Complete]
    | ok a =>
      obtain ⟨x, fl⟩ := a
      obtain ⟨_, b', hb', hf⟩ := r2 (x, fl) hr
      have htb : Tight b' := by
        obtain ⟨t1, t2⟩ := ht ⟨off, n, rfl⟩
        rcases hb' with rfl | hm
        · exact t1
        · exact t2 b' hm
      obtain ⟨data, hw, hx⟩ := baseReadAt_ok htb hf
      have := whole_good (hsrc b' hb') hw
      subst this; subst hx
      simp [delivered, window]
  | writer fa =>
    simp only [ehOp, delivered, Complete, window]
    generalize hu : ehChunks bigChunk (openChunks b 0 bigChunk) 0 h = u
    have hup : evBytes u.1 <+: D := by
      have := ehChunks_prefix D bigChunk h (openChunks b 0 bigChunk).1 (openChunks b 0 bigChunk).2 0 hh
        (by rw [openChunks_flatten]; simpa using hb.content_prefix)
      rw [← hu]; simpa using this
    obtain ⟨v1, _, v3, _⟩ := validate_spec d u.1 u.2
    generalize validate d u.1 u.2 = v at v1 v3
    obtain ⟨c1, _, _, _⟩ := consume_spec v.2 v.1 (writerReads fa v.1.length)
    have w1 := writeAll_prefix (consume v.1 v.2 (writerReads fa v.1.length)).1 fa
    refine ⟨((w1.trans c1).trans v1).trans hup, fun hc => ?_⟩
    have hnone : (writeAll (consume v.1 v.2 (writerReads fa v.1.length)).1 fa).2 = none := by
      generalize (writeAll (consume v.1 v.2 (writerReads fa v.1.length)).1 fa).2 = o at hc
      cases o with
      | none => rfl
      | some e => exact absurd hc (by simp)
    obtain ⟨a1, a2, _⟩ := writeAll_consume_none v.2 v.1 (writerReads fa v.1.length) fa
      (fun hf => by subst hf; simp [writerReads]) (fun j hj => by subst hj; simp [writerReads]) hnone
    obtain ⟨_, b2, _, _⟩ := v3 a1
    rw [a2]
    exact prefix_eq_of_length (v1.trans hup) (by rw [b2, hd])
  | chunkReader off m k =>
    simp only [ehOp]
    by_cases hoff : off > d.size
    · rw [if_pos hoff]
      obtain ⟨c1, _, c3, _⟩ := consume_spec (Term.err (Err.badOffset d.size off)) ([] : List Ev) k
      simp only [delivered, Complete]
      refine ⟨?_, fun ⟨x, hx⟩ => by simpa using (c3 x hx).1⟩
      rw [List.prefix_nil.mp c1]; exact List.nil_prefix
    · rw [if_neg hoff]
      generalize hu : ehChunks m (openChunks b 0 m) 0 h = u
      have hup : evBytes u.1 <+: D := by
        have := ehChunks_prefix D m h (openChunks b 0 m).1 (openChunks b 0 m).2 0 hh
          (by rw [openChunks_flatten]; simpa using hb.content_prefix)
        rw [← hu]; simpa using this
      obtain ⟨v1, _, v3, _⟩ := validate_spec d u.1 u.2
      generalize validate d u.1 u.2 = v at v1 v3
      have hsk := skipEv_spec v.2 v.1 off
      generalize skipEv v.1 v.2 off = sk at hsk
      obtain ⟨l, o⟩ := sk
      cases o with
      | none =>
        simp only [] at hsk ⊢
        obtain ⟨c1, _, c3, _⟩ := consume_spec v.2 ([] : List Ev) k
        simp only [delivered, Complete]
        refine ⟨by rw [List.prefix_nil.mp c1]; exact List.nil_prefix, fun ⟨x, hx⟩ => ?_⟩
        obtain ⟨_, b2, _, _⟩ := v3 (c3 x hx).1
        omega
      | some evs' =>
        simp only [] at hsk ⊢
        obtain ⟨c1, _, c3, _⟩ := consume_spec v.2 evs' k
        simp only [delivered, Complete, window]
        rw [hsk.1] at c1 c3
        refine ⟨c1.trans (prefix_drop off (v1.trans hup)), fun ⟨x, hx⟩ => ?_⟩
        obtain ⟨a1, a2, _⟩ := c3 x hx
        obtain ⟨_, b2, _, _⟩ := v3 a1
        rw [a2, prefix_eq_of_length (v1.trans hup) (by rw [b2, hd])]
  | reader sizes =>
    have hg : EGood D (vr0 b d h).eh := by
      refine ⟨?_, hh⟩
      show (openReader b 0).rest <+: D.drop 0
      rw [openReader_rest]; simpa using hb.content_prefix
    have r1 := VR.run_good D sizes (vr0 b d h) rfl hg
    obtain ⟨_, r2, _⟩ := VR.run_struct sizes (vr0 b d h) b rfl (openReader_owns b 0)
    simp only [ehOp, delivered, Complete, window]
    change readBytes ((vr0 b d h).run sizes).1 <+: D ∧ _
    have r1' : readBytes ((vr0 b d h).run sizes).1 <+: D := r1
    refine ⟨r1', fun ⟨x, hx⟩ => ?_⟩
    obtain ⟨_, a2, _⟩ := r2 x hx
    exact prefix_eq_of_length r1' (a2.trans hd)
  | discard => simp [ehOp, delivered, Complete]
  | size => simp [ehOp, delivered, Complete]

/-! ## Validation across the stitched parts, for arbitrary source contents -/

theorem ehOp_sealed (d : Digest) (D : Bytes) (b : Buf) (h : List Resp) (op : Op)
    (hd : ∀ x, d.valid x = true → x.length = d.size → x = D)
    (hb : Sealed d D b) (hh : SealedH d D h)
    (ht : (∃ off n, op = .readAt off n) → Tight b ∧ TightH h) (hc : Complete (ehOp b d h op).result) :
    delivered (ehOp b d h op).result = window D op := by
  have hsrc : ∀ b', (b' = b ∨ Resp.repl b' ∈ h) → Sealed d D b' := by
    rintro b' (rfl | hm)
    · exact hb
    · exact hh b' hm
  cases op with
  | slice max =>
    obtain ⟨_, r2, _⟩ := retry_spec (baseSlice max) (fun b e => baseSlice_own) h b
    simp only [ehOp] at hc ⊢
    cases hr : (retry (baseSlice max) b h).1 with
    | error e => rw [hr] at hc; simp [Complete] at hc
    | ok a =>
      obtain ⟨_, b', hb', hf⟩ := r2 a hr
      have := whole_sealed hd (hsrc b' hb') (baseSlice_ok hf)
      subst this
      simp [delivered, window]
  | readAt off n =>
    obtain ⟨_, r2, _⟩ := retry_spec (baseReadAt off n) (fun b e => baseReadAt_own) h b
    simp only [ehOp] at hc ⊢
    cases hr : (retry (baseReadAt off n) b h).1 with
    | error e => rw [hr] at hc; simp [Complete] at hc
    | ok a =>
      obtain ⟨x, fl⟩ := a
      obtain ⟨_, b', hb', hf⟩ := r2 (x, fl) hr
      have htb : Tight b' := by
        obtain ⟨t1, t2⟩ := ht ⟨off, n, rfl⟩
        rcases hb' with rfl | hm
        · exact t1
        · exact t2 b' hm
      obtain ⟨data, hw, hx⟩ := baseReadAt_ok htb hf
      have := whole_sealed hd (hsrc b' hb') hw
      subst this; subst hx
      simp [delivered, window]
  | writer fa =>
    simp only [ehOp, delivered, Complete, window] at hc ⊢
    generalize ehChunks bigChunk (openChunks b 0 bigChunk) 0 h = u at hc ⊢
    obtain ⟨_, _, v3, _⟩ := validate_spec d u.1 u.2
    generalize validate d u.1 u.2 = v at v3 hc ⊢
    have hnone : (writeAll (consume v.1 v.2 (writerReads fa v.1.length)).1 fa).2 = none := by
      generalize (writeAll (consume v.1 v.2 (writerReads fa v.1.length)).1 fa).2 = o at hc
      cases o with
      | none => rfl
      | some e => exact absurd hc (by simp)
    obtain ⟨a1, a2, _⟩ := writeAll_consume_none v.2 v.1 (writerReads fa v.1.length) fa
      (fun hf => by subst hf; simp [writerReads]) (fun j hj => by subst hj; simp [writerReads]) hnone
    obtain ⟨b1, b2, _, _⟩ := v3 a1
    rw [a2]
    exact hd _ b1 b2
  | chunkReader off m k =>
    simp only [ehOp] at hc ⊢
    by_cases hoff : off > d.size
    · rw [if_pos hoff] at hc
      obtain ⟨_, _, c3, _⟩ := consume_spec (Term.err (Err.badOffset d.size off)) ([] : List Ev) k
      simp only [Complete] at hc
      obtain ⟨x, hx⟩ := hc
      have := (c3 x hx).1
      simp at this
    · rw [if_neg hoff] at hc ⊢
      generalize ehChunks m (openChunks b 0 m) 0 h = u at hc ⊢
      obtain ⟨_, _, v3, _⟩ := validate_spec d u.1 u.2
      generalize validate d u.1 u.2 = v at v3 hc ⊢
      have hsk := skipEv_spec v.2 v.1 off
      generalize skipEv v.1 v.2 off = sk at hsk hc ⊢
      obtain ⟨l, o⟩ := sk
      cases o with
      | none =>
        simp only [] at hsk hc ⊢
        obtain ⟨_, _, c3, _⟩ := consume_spec v.2 ([] : List Ev) k
        simp only [Complete] at hc
        obtain ⟨x, hx⟩ := hc
        obtain ⟨_, b2, _, _⟩ := v3 (c3 x hx).1
        omega
      | some evs' =>
        simp only [] at hsk hc ⊢
        obtain ⟨_, _, c3, _⟩ := consume_spec v.2 evs' k
        simp only [Complete] at hc
        obtain ⟨x, hx⟩ := hc
        obtain ⟨a1, a2, _⟩ := c3 x hx
        obtain ⟨b1, b2, _, _⟩ := v3 a1
        simp only [delivered, window]
        rw [a2, hsk.1, hd _ b1 b2]
  | reader sizes =>
    obtain ⟨_, r2, _⟩ := VR.run_struct sizes (vr0 b d h) b rfl (openReader_owns b 0)
    simp only [ehOp, delivered, Complete, window] at hc ⊢
    change ∃ x, (x, Status.eof) ∈ ((vr0 b d h).run sizes).1 at hc
    change readBytes ((vr0 b d h).run sizes).1 = D
    obtain ⟨x, hx⟩ := hc
    obtain ⟨a1, a2, _⟩ := r2 x hx
    exact hd _ (by simpa [vr0] using a1) a2
  | discard => simp [ehOp, Complete] at hc
  | size => simp [ehOp, Complete] at hc

/-! ## Handler calls -/

theorem ehOp_calls (b : Buf) (d : Digest) (h : List Resp) (op : Op) :
    (ehOp b d h op).done = 1 ∧ Chain b h (ehOp b d h op).log ∧
    (∀ e, ResultErr (ehOp b d h op).result e →
      e.isIntegrity ∨ e = .writer ∨ decision h (ehOp b d h op).log.length = some e) := by
  cases op with
  | slice max =>
    obtain ⟨r1, _, r3⟩ := retry_spec (baseSlice max) (fun b e => baseSlice_own) h b
    simp only [ehOp]
    refine ⟨by first | rfl | trivial, r1, fun e he => ?_⟩
    cases hr : (retry (baseSlice max) b h).1 with
    | ok a => rw [hr] at he; simp [ResultErr] at he
    | error e' => rw [hr] at he; simp only [ResultErr] at he; subst he; exact Or.inr (Or.inr (r3 _ hr))
  | readAt off n =>
    obtain ⟨r1, _, r3⟩ := retry_spec (baseReadAt off n) (fun b e => baseReadAt_own) h b
    simp only [ehOp]
    refine ⟨by first | rfl | trivial, r1, fun e he => ?_⟩
    cases hr : (retry (baseReadAt off n) b h).1 with
    | ok a => rw [hr] at he; simp [ResultErr] at he
    | error e' => rw [hr] at he; simp only [ResultErr] at he; subst he; exact Or.inr (Or.inr (r3 _ hr))
  | writer fa =>
    simp only [ehOp]
    have hch := ehChunks_chain bigChunk h b 0 0
    have htm := ehChunks_term' bigChunk h (openChunks b 0 bigChunk) 0
    generalize ehChunks bigChunk (openChunks b 0 bigChunk) 0 h = u at hch htm
    obtain ⟨_, v2, _, v4⟩ := validate_spec d u.1 u.2
    generalize validate d u.1 u.2 = v at v2 v4
    obtain ⟨_, c2, _, c4⟩ := consume_spec v.2 v.1 (writerReads fa v.1.length)
    refine ⟨by first | rfl | trivial, hch.prefix (c2.trans v2), fun e he => ?_⟩
    generalize hw : (writeAll (consume v.1 v.2 (writerReads fa v.1.length)).1 fa) = w at he
    obtain ⟨ws, o⟩ := w
    cases o with
    | none => simp [ResultErr] at he
    | some e' =>
      simp only [ResultErr] at he; subst he
      have : (writeAll (consume v.1 v.2 (writerReads fa v.1.length)).1 fa).2 = some e := by rw [hw]
      rcases writeAll_err _ _ _ this with hwr | ⟨x, hx⟩
      · exact Or.inr (Or.inl hwr)
      · obtain ⟨a1, a2⟩ := c4 x e hx
        rcases v4 e a1 with hi | ⟨b1, b2⟩
        · exact Or.inl hi
        · exact Or.inr (Or.inr (by rw [a2, b2]; exact htm e b1))
  | chunkReader off m k =>
    simp only [ehOp]
    by_cases hoff : off > d.size
    · rw [if_pos hoff]
      obtain ⟨_, _, _, c4⟩ := consume_spec (Term.err (Err.badOffset d.size off)) ([] : List Ev) k
      refine ⟨by first | rfl | trivial, .nil _ _, fun e ⟨x, hx⟩ => ?_⟩
      have := (c4 x e hx).1
      simp at this; subst this; exact Or.inl trivial
    · rw [if_neg hoff]
      have hch := ehChunks_chain m h b 0 0
      have htm := ehChunks_term' m h (openChunks b 0 m) 0
      generalize ehChunks m (openChunks b 0 m) 0 h = u at hch htm
      obtain ⟨_, v2, _, v4⟩ := validate_spec d u.1 u.2
      generalize validate d u.1 u.2 = v at v2 v4
      have hsk := skipEv_spec v.2 v.1 off
      generalize skipEv v.1 v.2 off = sk at hsk
      obtain ⟨l, o⟩ := sk
      cases o with
      | none =>
        simp only [] at hsk ⊢
        obtain ⟨_, _, _, c4⟩ := consume_spec v.2 ([] : List Ev) k
        refine ⟨by first | rfl | trivial, hch.prefix (by rw [hsk.1]; exact v2), fun e ⟨x, hx⟩ => ?_⟩
        rcases v4 e (c4 x e hx).1 with hi | ⟨b1, b2⟩
        · exact Or.inl hi
        · exact Or.inr (Or.inr (by rw [hsk.1, b2]; exact htm e b1))
      | some evs' =>
        simp only [] at hsk ⊢
        obtain ⟨_, c2, _, c4⟩ := consume_spec v.2 evs' k
        have hpre : l ++ (consume evs' v.2 k).2 <+: evErrs v.1 := by
          rw [← hsk.2]; exact (List.prefix_append_right_inj l).mpr c2
        refine ⟨by first | rfl | trivial, hch.prefix (hpre.trans v2), fun e ⟨x, hx⟩ => ?_⟩
        obtain ⟨a1, a2⟩ := c4 x e hx
        rcases v4 e a1 with hi | ⟨b1, b2⟩
        · exact Or.inl hi
        · exact Or.inr (Or.inr (by rw [a2, hsk.2, b2]; exact htm e b1))
  | reader sizes =>
    obtain ⟨r1, _, r3⟩ := VR.run_struct sizes (vr0 b d h) b rfl (openReader_owns b 0)
    simp only [ehOp]
    refine ⟨by first | rfl | trivial, r1, fun e ⟨x, hx⟩ => ?_⟩
    rcases r3 x e hx with hi | hd
    · exact Or.inl hi
    · exact Or.inr (Or.inr hd)
  | discard => exact ⟨rfl, .nil _ _, fun e he => by simp [ehOp, ResultErr] at he⟩
  | size => exact ⟨rfl, .nil _ _, fun e he => by simp [ehOp, ResultErr] at he⟩

theorem ehChunks_term_eof (m : Nat) (h : List Resp) (cur : List Bytes × Term) (off : Nat)
    (he : (ehChunks m cur off h).2 = .eof) : decision h (evErrs (ehChunks m cur off h).1).length = none := by
  obtain ⟨cs, t⟩ := cur
  have := ehChunks_term m h cs t off
  rw [he] at this
  exact this

/-- A consumer that was told it has everything: the handler never returned an error. -/
theorem ehOp_complete_undecided (b : Buf) (d : Digest) (h : List Resp) (op : Op)
    (hc : Complete (ehOp b d h op).result) : decision h (ehOp b d h op).log.length = none := by
  cases op with
  | slice max =>
    obtain ⟨_, r2, _⟩ := retry_spec (baseSlice max) (fun b e => baseSlice_own) h b
    simp only [ehOp] at hc ⊢
    cases hr : (retry (baseSlice max) b h).1 with
    | error e => rw [hr] at hc; simp [Complete] at hc
    | ok a => exact (r2 a hr).1
  | readAt off n =>
    obtain ⟨_, r2, _⟩ := retry_spec (baseReadAt off n) (fun b e => baseReadAt_own) h b
    simp only [ehOp] at hc ⊢
    cases hr : (retry (baseReadAt off n) b h).1 with
    | error e => rw [hr] at hc; simp [Complete] at hc
    | ok a => exact (r2 a hr).1
  | writer fa =>
    simp only [ehOp, Complete] at hc ⊢
    have htm := ehChunks_term_eof bigChunk h (openChunks b 0 bigChunk) 0
    generalize ehChunks bigChunk (openChunks b 0 bigChunk) 0 h = u at hc htm ⊢
    obtain ⟨_, _, v3, _⟩ := validate_spec d u.1 u.2
    generalize validate d u.1 u.2 = v at v3 hc ⊢
    have hnone : (writeAll (consume v.1 v.2 (writerReads fa v.1.length)).1 fa).2 = none := by
      generalize (writeAll (consume v.1 v.2 (writerReads fa v.1.length)).1 fa).2 = o at hc
      cases o with
      | none => rfl
      | some e => exact absurd hc (by simp)
    obtain ⟨a1, _, a3⟩ := writeAll_consume_none v.2 v.1 (writerReads fa v.1.length) fa
      (fun hf => by subst hf; simp [writerReads]) (fun j hj => by subst hj; simp [writerReads]) hnone
    obtain ⟨_, _, b3, b4⟩ := v3 a1
    rw [a3, b4]; exact htm b3
  | chunkReader off m k =>
    simp only [ehOp] at hc ⊢
    by_cases hoff : off > d.size
    · rw [if_pos hoff] at hc
      obtain ⟨_, _, c3, _⟩ := consume_spec (Term.err (Err.badOffset d.size off)) ([] : List Ev) k
      simp only [Complete] at hc
      obtain ⟨x, hx⟩ := hc
      have := (c3 x hx).1
      simp at this
    · rw [if_neg hoff] at hc ⊢
      have htm := ehChunks_term_eof m h (openChunks b 0 m) 0
      generalize ehChunks m (openChunks b 0 m) 0 h = u at hc htm ⊢
      obtain ⟨_, _, v3, _⟩ := validate_spec d u.1 u.2
      generalize validate d u.1 u.2 = v at v3 hc ⊢
      have hsk := skipEv_spec v.2 v.1 off
      generalize skipEv v.1 v.2 off = sk at hsk hc ⊢
      obtain ⟨l, o⟩ := sk
      cases o with
      | none =>
        simp only [] at hsk hc ⊢
        obtain ⟨_, _, c3, _⟩ := consume_spec v.2 ([] : List Ev) k
        simp only [Complete] at hc
        obtain ⟨x, hx⟩ := hc
        obtain ⟨_, _, b3, b4⟩ := v3 (c3 x hx).1
        rw [hsk.1, b4]; exact htm b3
      | some evs' =>
        simp only [] at hsk hc ⊢
        obtain ⟨_, _, c3, _⟩ := consume_spec v.2 evs' k
        simp only [Complete] at hc
        obtain ⟨x, hx⟩ := hc
        obtain ⟨a1, _, a3⟩ := c3 x hx
        obtain ⟨_, _, b3, b4⟩ := v3 a1
        rw [a3, hsk.2, b4]; exact htm b3
  | reader sizes =>
    obtain ⟨_, r2, _⟩ := VR.run_struct sizes (vr0 b d h) b rfl (openReader_owns b 0)
    simp only [ehOp, Complete] at hc ⊢
    obtain ⟨x, hx⟩ := hc
    exact (r2 x hx).2.2
  | discard => simp [ehOp, Complete] at hc
  | size => simp [ehOp, Complete] at hc

/-- For the operations that are retried as a whole, the handler's decision is exactly what the
consumer gets. -/
theorem ehOp_decided (b : Buf) (d : Digest) (h : List Resp) (op : Op) (e : Err)
    (hop : (∃ max, op = .slice max) ∨ (∃ off n, op = .readAt off n))
    (hdec : decision h (ehOp b d h op).log.length = some e) : ResultErr (ehOp b d h op).result e := by
  rcases hop with ⟨max, rfl⟩ | ⟨off, n, rfl⟩
  · obtain ⟨_, r2, r3⟩ := retry_spec (baseSlice max) (fun b e => baseSlice_own) h b
    simp only [ehOp] at hdec ⊢
    cases hr : (retry (baseSlice max) b h).1 with
    | ok a => rw [(r2 a hr).1] at hdec; simp at hdec
    | error e' => rw [r3 e' hr] at hdec; simp at hdec; simp [ResultErr, hdec]
  · obtain ⟨_, r2, r3⟩ := retry_spec (baseReadAt off n) (fun b e => baseReadAt_own) h b
    simp only [ehOp] at hdec ⊢
    cases hr : (retry (baseReadAt off n) b h).1 with
    | ok a => rw [(r2 a hr).1] at hdec; simp at hdec
    | error e' => rw [r3 e' hr] at hdec; simp at hdec; simp [ResultErr, hdec]

end BB.ErrorHandling
