import BB.Proofs.BlockMap
/-!
# The layout `NewOldCurrentNewLocationBlobMap` computes for restored blocks

The constructor starts with all restored blocks "old" and promotes them with two loops driven by
the generated growth policies; what is still "old" beyond the desired count is scheduled for release.
-/
namespace BB.BlockMap
open BB.Gen

theorem initLoopNew_spec (p : Policy) : ∀ (fuel old new : Nat), old ≤ fuel →
    (initLoopNew p fuel old new).1 + (initLoopNew p fuel old new).2 = old + new ∧
    new ≤ (initLoopNew p fuel old new).2 ∧
    ((initLoopNew p fuel old new).1 = 0 ∨ p.growNew 0 (initLoopNew p fuel old new).2 = false) := by
  intro fuel
  induction fuel with
  | zero => intro old new h; simp [initLoopNew]; omega
  | succ fuel ih =>
    intro old new h
    unfold initLoopNew
    by_cases hc : old > 0 ∧ p.growNew 0 new = true
    · simp only [hc, and_self, if_true]
      obtain ⟨a, b, c⟩ := ih (old - 1) (new + 1) (by omega)
      exact ⟨by omega, by omega, c⟩
    · simp only [hc, if_false]
      refine ⟨trivial, Nat.le_refl _, ?_⟩
      by_cases ho : old > 0
      · right
        cases hg : p.growNew 0 new with
        | false => rfl
        | true => exact absurd ⟨ho, hg⟩ hc
      · left; omega

theorem initLoopCur_spec (p : Policy) : ∀ (fuel old cur : Nat), old ≤ fuel →
    (initLoopCur p fuel old cur).1 + (initLoopCur p fuel old cur).2 = old + cur ∧
    ((initLoopCur p fuel old cur).1 = 0 ∨ p.growCur (initLoopCur p fuel old cur).2 = false) := by
  intro fuel
  induction fuel with
  | zero => intro old cur h; simp [initLoopCur]; omega
  | succ fuel ih =>
    intro old cur h
    unfold initLoopCur
    by_cases hc : old > 0 ∧ p.growCur cur = true
    · simp only [hc, and_self, if_true]
      obtain ⟨a, c⟩ := ih (old - 1) (cur + 1) (by omega)
      exact ⟨by omega, c⟩
    · simp only [hc, if_false]
      refine ⟨trivial, ?_⟩
      by_cases ho : old > 0
      · right
        cases hg : p.growCur cur with
        | false => rfl
        | true => exact absurd ⟨ho, hg⟩ hc
      · left; omega

/-- Number of blocks the configured layout has room for: old + current + new. -/
def capacity (c : Cfg) : Nat :=
  c.desiredOld + match c.policy with
    | .immutable p => p.desiredCurrentAndNewBlocks.toNat
    | .mutable p => p.desiredCurrentBlocks.toNat + 1

/-- Both policies: as long as the restored blocks fit the configured layout, the constructor keeps
all of them (nothing is scheduled for release), every block is in exactly one group, and at most
`desiredOld` blocks stay "old". -/
theorem init_admits {c : Cfg} (hc : CfgOK c) (caps : List Nat) (free : Nat) (hfit : caps.length ≤ capacity c) :
    (init c caps free).toBeReleased = 0 ∧ (init c caps free).total = caps.length ∧
    (init c caps free).old ≤ c.desiredOld ∧ (init c caps free).caps = caps ∧ (init c caps free).released = 0 := by
  have ha := initLoopNew_spec c.policy caps.length caps.length 0 (Nat.le_refl _)
  rcases hrn : initLoopNew c.policy caps.length caps.length 0 with ⟨o1, nw⟩
  rw [hrn] at ha
  have hb := initLoopCur_spec c.policy o1 o1 0 (Nat.le_refl _)
  rcases hrc : initLoopCur c.policy o1 o1 0 with ⟨o2, cu⟩
  rw [hrc] at hb
  obtain ⟨a1, a2, a3⟩ := ha
  obtain ⟨b1, b3⟩ := hb
  simp only at a1 a2 a3 b1 b3
  have hold : o2 ≤ c.desiredOld := by
    unfold capacity at hfit
    unfold CfgOK at hc
    unfold Policy.growNew at a3
    unfold Policy.growCur at b3
    split at hc
    · rename_i p hp
      obtain ⟨_, dc, hdc⟩ := hc
      simp only [hp, ImmutablePolicy.shouldGrowNewBlocks, ImmutablePolicy.shouldGrowCurrentBlocks] at a3 b3 hfit
      rcases a3 with a3 | a3
      · omega
      · simp at a3; omega
    · rename_i p hp
      obtain ⟨_, _, dc, hdc⟩ := hc
      simp only [hp, MutablePolicy.shouldGrowNewBlocks, MutablePolicy.shouldGrowCurrentBlocks] at a3 b3 hfit
      rcases a3 with a3 | a3
      · omega
      · rcases b3 with b3 | b3
        · omega
        · simp at a3 b3; omega
  simp only [init, hrn, hrc, St.total]
  refine ⟨?_, by omega, hold, trivial, trivial⟩
  have : ¬ o2 > c.desiredOld := by omega
  simp [this]

end BB.BlockMap
