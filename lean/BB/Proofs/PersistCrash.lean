import BB.Proofs.PersistRestore2
/-!
# Crash and restart: the objects that survive
-/
namespace BB.Persist

/-- What a restart needs from the state file it reads. -/
structure FileCore (ss : Nat) (f : SFile) (heldF : List Blk) (recs : List PRec) (objs : List Obj) (ns : Nat) : Prop where
  gids : ∃ g, gidsFrom g (f.blocks.map (restoredBlk ss))
  heldIn : ∀ bs ∈ f.blocks, ∃ b ∈ heldF, b.gid = bs.gid ∧ b.slot = bs.slot
  seedLt : ∀ s ∈ fseeds f.blocks, s < ns
  committed : ∀ o ∈ objs, ∀ j bs e, f.blocks[j]? = some bs → bs.gid = o.gid → o.fin = some e →
    e < f.oldest + (fseeds f.blocks).length →
    o.durable = true ∧ o.off + o.size ≤ bs.wo ∧ f.oldest ≤ e ∧
      ∃ last, (f.pbl ss).epochLast[e - f.oldest]? = some last ∧ j ≤ last
  res : ∀ r ∈ recs, ∀ i, (f.pbl ss).refToIdx r.epoch r.bfl = some (i, r.seed) →
    ∃ bs o, f.blocks[i]? = some bs ∧ o ∈ objs ∧ o.gid = bs.gid ∧ Matches o r

theorem FileInv.core {ss : Nat} {f : SFile} {heldF heldF' : List Blk} {recs : List PRec} {objs : List Obj} {p : PBL} {ns : Nat}
    (h : FileInv ss f heldF recs objs p ns) (hh : ∀ b ∈ heldF, b ∈ heldF') : FileCore ss f heldF' recs objs ns :=
  ⟨h.gids, fun bs hbs => by obtain ⟨b, hb, g⟩ := h.heldIn bs hbs; exact ⟨b, hh b hb, g⟩, h.seedLt, h.committed, h.res⟩

/-- A store without a state file: nothing resolves, nothing is restored. -/
theorem fileCore_fresh (ss : Nat) (heldF : List Blk) (recs : List PRec) (objs : List Obj) (ns : Nat) :
    FileCore ss ⟨1, []⟩ heldF recs objs ns := by
  refine ⟨⟨0, by simp [gidsFrom]⟩, by simp, by simp [fseeds], ?_, ?_⟩
  · intro o _ j bs e hbs; simp at hbs
  · intro r _ i hres
    have := refToIdx_seed_mem hres
    simp [SFile.pbl, fseeds] at this

/-- The ghost clean-up of a restart. -/
def clr (o : Obj) : Obj := { o with mine := false, precov := false }

theorem survives_iff {ss : Nat} {f : SFile} {o : Obj} :
    World.survives (f.pbl ss) o = true ↔
      (∃ (j : Nat) (bs : BState), f.blocks[j]? = some bs ∧ bs.gid = o.gid) ∧ ∃ e, o.fin = some e ∧ e < f.oldest + (fseeds f.blocks).length := by
  unfold World.survives
  simp only [Bool.and_eq_true, List.any_eq_true, beq_iff_eq, SFile.pbl, List.mem_map]
  constructor
  · rintro ⟨⟨b, ⟨bs, hbs, rfl⟩, hg⟩, hfin⟩
    obtain ⟨j, hj⟩ := List.getElem?_of_mem hbs
    refine ⟨⟨j, bs, hj, by simpa [restoredBlk] using hg⟩, ?_⟩
    cases hf : o.fin with
    | none => simp [hf] at hfin
    | some e => simp only [hf] at hfin; exact ⟨e, rfl, of_decide_eq_true hfin⟩
  · rintro ⟨⟨j, bs, hj, hg⟩, e, hf, hlt⟩
    refine ⟨⟨restoredBlk ss bs, ⟨bs, List.mem_of_getElem? hj, rfl⟩, by simpa [restoredBlk] using hg⟩, ?_⟩
    simp [hf, hlt]

theorem mem_survivors {ss : Nat} {f : SFile} {objs : List Obj} {o' : Obj}
    (h : o' ∈ (objs.filter (World.survives (f.pbl ss))).map clr) :
    ∃ o ∈ objs, o' = clr o ∧ (∃ (j : Nat) (bs : BState), f.blocks[j]? = some bs ∧ bs.gid = o.gid) ∧
      ∃ e, o.fin = some e ∧ e < f.oldest + (fseeds f.blocks).length := by
  obtain ⟨o, ho, rfl⟩ := List.mem_map.1 h
  obtain ⟨ho1, ho2⟩ := List.mem_filter.1 ho
  obtain ⟨h1, h2⟩ := survives_iff.1 ho2
  exact ⟨o, ho1, rfl, h1, h2⟩

theorem survivor_mem {ss : Nat} {f : SFile} {objs : List Obj} {o : Obj} (ho : o ∈ objs)
    (h1 : ∃ (j : Nat) (bs : BState), f.blocks[j]? = some bs ∧ bs.gid = o.gid)
    (h2 : ∃ e, o.fin = some e ∧ e < f.oldest + (fseeds f.blocks).length) :
    clr o ∈ (objs.filter (World.survives (f.pbl ss))).map clr :=
  List.mem_map.2 ⟨o, List.mem_filter.2 ⟨ho, survives_iff.2 ⟨h1, h2⟩⟩, rfl⟩

/-- Records that resolve in the restored list describe survivors. -/
theorem survivor_of_res {ss : Nat} {f : SFile} {heldF : List Blk} {recs : List PRec} {objs : List Obj} {ns : Nat}
    (hc : FileCore ss f heldF recs objs ns) {r : PRec} (hr : r ∈ recs) {i : Nat}
    (hres : (f.pbl ss).refToIdx r.epoch r.bfl = some (i, r.seed)) :
    ∃ bs o, f.blocks[i]? = some bs ∧ o ∈ objs ∧ o.gid = bs.gid ∧ Matches o r ∧
      clr o ∈ (objs.filter (World.survives (f.pbl ss))).map clr := by
  obtain ⟨bs, o, hbs, ho, hg, hm⟩ := hc.res r hr i hres
  refine ⟨bs, o, hbs, ho, hg, hm, survivor_mem ho ⟨i, bs, hbs, hg.symm⟩ ?_⟩
  obtain ⟨_, _, _, _, e, he, hle⟩ := hm
  refine ⟨e, he, ?_⟩
  obtain ⟨h0, _, h1, _⟩ := (refToIdx_iff _ _ _ _ _).1 hres
  have := (List.getElem?_eq_some_iff.1 h1).1
  simp only [SFile.pbl] at h0 this
  omega

end BB.Persist
