import BB.Proofs.PersistSealed
/-!
# C03: `Phase` - as long as no finalizer succeeds, what `ProcessBlockPut` announced covers everything

`sel` selects the iterations the statement is about (all of them, or the final one).
-/
namespace BB.Persist

structure Phase (sel : Bool → Prop) (w : World) : Prop where
  a : ∀ f, sel f → (w.g1 = .started f ∨ w.g1 = .syncing f ∨ w.g1 = .synced f) → AllSyncing w.pbl
  b : ∀ f, sel f → w.g1 = .want f → AllSynced w.pbl
  c : ∀ s f, w.sw = some s → s.owner = 1 → w.g1 = .want f → sel f → SnapRel w.cfg.ss s.file w.pbl

theorem g1step_not_want {g g' : G1} {p p' : PBL} (hs : G1Step g p g' p') : (∀ f, g ≠ .want f) ∧ g ≠ .finished ∧ g' ≠ .finished := by
  cases hs <;> refine ⟨fun f h => ?_, fun h => ?_, fun h => ?_⟩ <;> cases h

theorem phase_g1 {sel : Bool → Prop} {g g' : G1} {p p' : PBL} (hs : G1Step g p g' p')
    (a : ∀ f, sel f → (g = .started f ∨ g = .syncing f ∨ g = .synced f) → AllSyncing p) :
    (∀ f, sel f → (g' = .started f ∨ g' = .syncing f ∨ g' = .synced f) → AllSyncing p') ∧
    (∀ f, sel f → g' = .want f → AllSynced p') := by
  cases hs with
  | start => exact ⟨fun f _ _ => allSyncing_starting _ _, fun f _ h => by cases h⟩
  | syncBegin f0 =>
    refine ⟨fun f hf h => ?_, fun f _ h => by cases h⟩
    rcases h with h | h | h <;> cases h
    exact a f0 hf (Or.inl rfl)
  | syncEnd f0 =>
    refine ⟨fun f hf h => ?_, fun f _ h => by cases h⟩
    rcases h with h | h | h <;> cases h
    exact a f0 hf (Or.inr (Or.inl rfl))
  | syncFail f0 =>
    refine ⟨fun f hf h => ?_, fun f _ h => by cases h⟩
    rcases h with h | h | h <;> cases h
    exact a f0 hf (Or.inr (Or.inl rfl))
  | completed f0 =>
    refine ⟨fun f _ h => ?_, fun f hf h => ?_⟩
    · rcases h with h | h | h <;> cases h
    · cases h
      exact allSynced_completed (a f0 hf (Or.inr (Or.inr rfl)))
  | shutdown => exact ⟨fun f _ _ => allSyncing_starting _ _, fun f _ h => by cases h⟩

theorem swDone_g1 (g : G1) : (match g with | .want true => G1.finished | _ => G1.idle) = G1.idle ∨
    (g = .want true ∧ (match g with | .want true => G1.finished | _ => G1.idle) = G1.finished) := by
  cases g with
  | want f => cases f <;> simp
  | _ => simp

theorem crashRestart_ctl (w : World) (kd ki : List Bool) (pick : Nat) (lo : Bool) :
    (w.crashRestart kd ki pick lo).g1 = .idle ∧ (w.crashRestart kd ki pick lo).sw = none ∧
    (w.crashRestart kd ki pick lo).cfg = w.cfg := by
  unfold World.crashRestart
  exact ⟨rfl, rfl, rfl⟩

theorem phase_view {sel : Bool → Prop} {w w' : World} (h : Inv w) (hv : View w w') (hp : Phase sel w) :
    Phase sel w' ∨ ∃ id, w.finalize id = .ok w' := by
  cases hv with
  | crash kd ki pick lo =>
    left
    obtain ⟨h1, h2, _⟩ := crashRestart_ctl w kd ki pick lo
    refine ⟨fun f _ hg => ?_, fun f _ hg => ?_, fun s f hs => ?_⟩
    · rw [h1] at hg; rcases hg with hg | hg | hg <;> cases hg
    · rw [h1] at hg; cases hg
    · rw [h2] at hs; cases hs
  | fin hf => exact Or.inr ⟨_, hf⟩
  | data hc hg hsw hd hps =>
    left
    refine ⟨fun f hf h1 => ?_, fun f hf h1 => ?_, fun s f hs ho h1 hf => ?_⟩
    · rw [hg] at h1; exact (hp.a f hf h1).pstep hps
    · rw [hg] at h1; exact (hp.b f hf h1).pstep h.wfp hps
    · rw [hsw] at hs; rw [hg] at h1; rw [hc]
      exact (hp.c s f hs ho h1 hf).pstep hps
  | g1 hc hsw hd hg =>
    left
    obtain ⟨r1, r2⟩ := phase_g1 hg hp.a
    refine ⟨r1, r2, fun s f hs ho h1 hf => ?_⟩
    rw [hsw] at hs
    obtain ⟨_, _, _, _, _, _, a8⟩ := h.sw.stage s hs
    obtain ⟨f0, hf0⟩ := a8 ho
    exact absurd hf0 ((g1step_not_want hg).1 f0)
  | swBegin hc hg hd hnone hsw hget hown =>
    left
    have hcore := PStep.core (getPersistentState_core hget)
    refine ⟨fun f hf h1 => ?_, fun f hf h1 => ?_, fun s f hs ho h1 hf => ?_⟩
    · rw [hg] at h1; exact (hp.a f hf h1).pstep hcore
    · rw [hg] at h1; exact (hp.b f hf h1).pstep h.wfp hcore
    · rw [hsw] at hs
      simp only [Option.some.injEq] at hs
      subst hs
      rw [hg] at h1; rw [hc]
      exact (capture_snap h.wfp _ (hp.b f hf h1) hget).pstep hcore
  | swStep hc hg hpb hsw hsw' hfiles hst =>
    left
    refine ⟨fun f hf h1 => ?_, fun f hf h1 => ?_, fun s f hs ho h1 hf => ?_⟩
    · rw [hg] at h1; rw [hpb]; exact hp.a f hf h1
    · rw [hg] at h1; rw [hpb]; exact hp.b f hf h1
    · rw [hsw'] at hs
      simp only [Option.some.injEq] at hs
      subst hs
      rw [hg] at h1; rw [hc, hpb]
      have hold := hp.c _ f hsw ho h1 hf
      exact hold
  | swFail hc hg hpb hd hsw hsw' =>
    left
    refine ⟨fun f hf h1 => ?_, fun f hf h1 => ?_, fun s f hs => ?_⟩
    · rw [hg] at h1; rw [hpb]; exact hp.a f hf h1
    · rw [hg] at h1; rw [hpb]; exact hp.b f hf h1
    · rw [hsw'] at hs; cases hs
  | swDone hc hd hcore hsw h6 hsw' hg =>
    left
    rename_i s0
    have hkeep : (s0.owner == 1) = false → w'.g1 = w.g1 := by
      intro ho; rw [hg]; simp [ho]
    have hset : (s0.owner == 1) = true → w'.g1 = .idle ∨ w'.g1 = .finished := by
      intro ho
      rw [hg]; simp only [ho, if_true]
      rcases swDone_g1 w.g1 with h1 | ⟨_, h1⟩
      · exact Or.inl h1
      · exact Or.inr h1
    refine ⟨fun f hf h1 => ?_, fun f hf h1 => ?_, fun s f hs => ?_⟩
    · cases ho : (s0.owner == 1) with
      | false => rw [hkeep ho] at h1; exact (hp.a f hf h1).pstep (PStep.core hcore)
      | true =>
        rcases hset ho with h2 | h2 <;> rw [h2] at h1 <;> rcases h1 with h1 | h1 | h1 <;> cases h1
    · cases ho : (s0.owner == 1) with
      | false => rw [hkeep ho] at h1; exact (hp.b f hf h1).pstep h.wfp (PStep.core hcore)
      | true => rcases hset ho with h2 | h2 <;> rw [h2] at h1 <;> cases h1
    · rw [hsw'] at hs; cases hs

end BB.Persist
