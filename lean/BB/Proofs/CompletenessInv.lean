import BB.Proofs.Completeness
/-!
Helper lemmas for C13, part 2: invariants that hold whatever the outcome is.

* `Inv`: the pending set and every batch sent hold at most `max batchSize 1` distinct digests,
  and the trace is faithful: entry number `i` is the reply the CAS gives to call number `i`.
* `OnlyNF`: when the CAS and the served Trees can only fail with NOT_FOUND, so can the check.
-/
namespace BB.Completeness

def BatchOk (bs : Nat) (b : List Dg) : Prop := b.length ≤ max bs 1 ∧ b.Nodup

/-- The recorded reply of call `c` is what the CAS answers to it as call number `i`. -/
def CallAt (cas : Cas) (i : Nat) : Call → Prop
  | .fm b a => a = cas.findMissing i b
  | .get t bl => bl = cas.get i t

/-- Entry `i` of the trace is what the CAS answers to call number `i`. -/
def Faithful (cas : Cas) (tr : List Call) : Prop :=
  ∀ i c, tr[i]? = some c → CallAt cas i c

structure Inv (bs : Nat) (cas : Cas) (s : St) : Prop where
  pend : BatchOk bs s.pending
  faith : Faithful cas s.trace
  batches : ∀ b a, Call.fm b a ∈ s.trace → BatchOk bs b

theorem faithful_snoc {cas : Cas} {tr : List Call} {c : Call} (h : Faithful cas tr)
    (hc : CallAt cas tr.length c) : Faithful cas (tr ++ [c]) := by
  intro i x hx
  by_cases hi : i < tr.length
  · rw [List.getElem?_append_left hi] at hx
    exact h i x hx
  · have hle : tr.length ≤ i := Nat.le_of_not_lt hi
    rw [List.getElem?_append_right hle] at hx
    by_cases h0 : i - tr.length = 0
    · have : i = tr.length := by omega
      subst this
      simp at hx
      subst hx
      exact hc
    · have : ∃ k, i - tr.length = k + 1 := ⟨i - tr.length - 1, by omega⟩
      obtain ⟨k, hk⟩ := this
      rw [hk] at hx
      simp at hx

theorem inv_init (bs : Nat) (cas : Cas) : Inv bs cas {} :=
  ⟨⟨by simp, by simp⟩, by intro i c h; simp at h, by intro b a h; simp at h⟩

theorem finalize_inv {bs : Nat} {cas : Cas} {s : St} (h : Inv bs cas s) : Inv bs cas (finalize cas s).1 := by
  obtain ⟨ht, hp⟩ := finalize_trace cas s
  refine ⟨hp ▸ h.pend, ?_, ?_⟩
  · rw [ht]
    exact faithful_snoc h.faith rfl
  · intro b a hm
    rw [ht] at hm
    rcases List.mem_append.1 hm with hm | hm
    · exact h.batches b a hm
    · simp only [List.mem_singleton, Call.fm.injEq] at hm
      exact hm.1 ▸ h.pend

theorem add_inv {bs : Nat} {cas : Cas} {s : St} (od : OD) (h : Inv bs cas s) : Inv bs cas (add bs cas s od).1 := by
  match od with
  | none => simpa [add] using h
  | some .bad => simpa [add] using h
  | some (.good d) =>
    simp only [add]
    split
    · have hf := finalize_inv h
      cases hfe : finalize cas s with
      | mk s1 r =>
        rw [hfe] at hf
        cases r with
        | some c => exact hf
        | none =>
          refine ⟨⟨?_, by simp⟩, hf.faith, hf.batches⟩
          simp only [List.length_singleton]
          omega
    · rename_i hlt
      split
      · exact h
      · rename_i hnm
        refine ⟨⟨?_, ?_⟩, h.faith, h.batches⟩
        · simp only [List.length_append, List.length_singleton]
          omega
        · exact List.nodup_append.2 ⟨h.pend.2, by simp, by
            intro a ha b hb
            simp only [List.mem_singleton] at hb
            subst hb
            intro hab
            subst hab
            exact hnm ha⟩

theorem addAll_inv {bs : Nat} {cas : Cas} (ods : List OD) {s : St} (h : Inv bs cas s) :
    Inv bs cas (addAll bs cas s ods).1 := by
  induction ods generalizing s with
  | nil => simpa [addAll] using h
  | cons o os ih =>
    simp only [addAll]
    have ha := add_inv o h
    cases hae : add bs cas s o with
    | mk s1 r =>
      rw [hae] at ha
      cases r with
      | some c => exact ha
      | none => exact ih ha

theorem walk_inv {cfg : Cfg} {cas : Cas} {wd : Bool} (evs : List Ev) {s : St} (h : Inv cfg.batchSize cas s) :
    Inv cfg.batchSize cas (walk cfg cas wd s evs).1 := by
  induction evs generalizing s with
  | nil => simpa [walk] using h
  | cons e es ih =>
    match e with
    | .skip => simpa [walk] using ih h
    | .malformed => simpa [walk] using h
    | .dir d =>
      simp only [walk]
      split
      · exact h
      · have ha := addAll_inv (dirDigests wd d) h
        cases hae : addAll cfg.batchSize cas s (dirDigests wd d) with
        | mk s1 r =>
          rw [hae] at ha
          cases r with
          | some c => exact ha
          | none => exact ih ha

theorem checkTree_inv {cfg : Cfg} {cas : Cas} {s : St} (rem : Nat) (od : OutDir) (h : Inv cfg.batchSize cas s) :
    Inv cfg.batchSize cas (checkTree cfg cas s rem od).1 := by
  unfold checkTree
  split
  · exact h
  · exact h
  · rename_i t ht
    split
    · exact h
    · dsimp only
      have h1 : Inv cfg.batchSize cas { s with trace := s.trace ++ [Call.get t (cas.get s.trace.length t)] } := by
        refine ⟨h.pend, faithful_snoc h.faith rfl, ?_⟩
        intro b a hm
        rcases List.mem_append.1 hm with hm | hm
        · exact h.batches b a hm
        · simp at hm
      have hw := walk_inv (wd := od.root.isSome) (cas.get s.trace.length t).evs h1
      cases hwe : walk cfg cas od.root.isSome { s with trace := s.trace ++ [Call.get t (cas.get s.trace.length t)] }
          (cas.get s.trace.length t).evs with
      | mk s2 r =>
        rw [hwe] at hw
        cases r with
        | some c => exact hw
        | none =>
          simp only
          split <;> exact hw

theorem checkTrees_inv {cfg : Cfg} {cas : Cas} (ods : List OutDir) {s : St} (rem : Nat) (h : Inv cfg.batchSize cas s) :
    Inv cfg.batchSize cas (checkTrees cfg cas s rem ods).1 := by
  induction ods generalizing s rem with
  | nil => simpa [checkTrees] using h
  | cons o os ih =>
    simp only [checkTrees]
    have hc := checkTree_inv rem o h
    cases hce : checkTree cfg cas s rem o with
    | mk s1 r =>
      obtain ⟨r, rem1⟩ := r
      rw [hce] at hc
      cases r with
      | some c => exact hc
      | none => exact ih rem1 hc

theorem check_inv (cfg : Cfg) (cas : Cas) (ar : AR) : Inv cfg.batchSize cas (check cfg cas ar).1 := by
  unfold check
  have h1 := addAll_inv (topDigests ar) (inv_init cfg.batchSize cas)
  cases h1e : addAll cfg.batchSize cas {} (topDigests ar) with
  | mk s1 r1 =>
    rw [h1e] at h1
    cases r1 with
    | some c => exact h1
    | none =>
      simp only
      have h2 := checkTrees_inv ar.dirs cfg.budget h1
      cases h2e : checkTrees cfg cas s1 cfg.budget ar.dirs with
      | mk s2 r2 =>
        rw [h2e] at h2
        cases r2 with
        | some c => exact h2
        | none => exact finalize_inv h2

/-! ### only NOT_FOUND -/

/-- The CAS and the Trees it serves fail with NOT_FOUND only (in particular: no faults at all). -/
structure OnlyNF (cfg : Cfg) (cas : Cas) : Prop where
  fm : ∀ i b c, cas.findMissing i b = .err c → c = notFound
  rd : ∀ i t c, (cas.get i t).readErr = some c → c = notFound
  wf : ∀ i t, Ev.malformed ∉ (cas.get i t).evs
  sz : ∀ i t d, Ev.dir d ∈ (cas.get i t).evs → d.size ≤ cfg.maxMsg

theorem finalize_nf {cfg : Cfg} {cas : Cas} (hn : OnlyNF cfg cas) {s s' : St} {c : Code}
    (h : finalize cas s = (s', some c)) : c = notFound := by
  rcases finalize_err h with he | ⟨hc, _⟩
  · exact hn.fm _ _ _ he
  · exact hc

theorem add_nf {cfg : Cfg} {bs : Nat} {cas : Cas} (hn : OnlyNF cfg cas) {s s' : St} {od : OD} {c : Code}
    (h : add bs cas s od = (s', some c)) : c = notFound := by
  match od with
  | none => simp [add] at h
  | some .bad =>
    simp only [add, Prod.mk.injEq, Option.some.injEq] at h
    exact h.2.symm
  | some (.good d) =>
    simp only [add] at h
    split at h
    · cases hf : finalize cas s with
      | mk s1 r =>
        rw [hf] at h
        cases r with
        | none => simp at h
        | some c' =>
          simp only [Prod.mk.injEq, Option.some.injEq] at h
          exact h.2 ▸ finalize_nf hn hf
    · simp at h

theorem addAll_nf {cfg : Cfg} {bs : Nat} {cas : Cas} (hn : OnlyNF cfg cas) {ods : List OD} {s s' : St} {c : Code}
    (h : addAll bs cas s ods = (s', some c)) : c = notFound := by
  induction ods generalizing s with
  | nil => simp [addAll] at h
  | cons o os ih =>
    simp only [addAll] at h
    cases ha : add bs cas s o with
    | mk s1 r =>
      rw [ha] at h
      cases r with
      | some c' =>
        simp only [Prod.mk.injEq, Option.some.injEq] at h
        exact h.2 ▸ add_nf hn ha
      | none => exact ih h

theorem walk_nf {cfg : Cfg} {cas : Cas} (hn : OnlyNF cfg cas) {wd : Bool} {evs : List Ev} {s s' : St} {c : Code}
    (hwf : Ev.malformed ∉ evs) (hsz : ∀ d, Ev.dir d ∈ evs → d.size ≤ cfg.maxMsg)
    (h : walk cfg cas wd s evs = (s', some c)) : c = notFound := by
  induction evs generalizing s with
  | nil => simp [walk] at h
  | cons e es ih =>
    have hwf' : Ev.malformed ∉ es := fun hm => hwf (List.mem_cons_of_mem _ hm)
    have hsz' : ∀ d, Ev.dir d ∈ es → d.size ≤ cfg.maxMsg := fun d hd => hsz d (List.mem_cons_of_mem _ hd)
    match e with
    | .skip =>
      simp only [walk] at h
      exact ih hwf' hsz' h
    | .malformed => exact absurd (List.mem_cons_self ..) hwf
    | .dir d0 =>
      simp only [walk] at h
      split at h
      · rename_i hlt
        have := hsz d0 (List.mem_cons_self ..)
        omega
      · cases ha : addAll cfg.batchSize cas s (dirDigests wd d0) with
        | mk s1 r =>
          rw [ha] at h
          cases r with
          | some c' =>
            simp only [Prod.mk.injEq, Option.some.injEq] at h
            exact h.2 ▸ addAll_nf hn ha
          | none => exact ih hwf' hsz' h

theorem checkTree_nf {cfg : Cfg} {cas : Cas} (hn : OnlyNF cfg cas) {s s' : St} {rem rem' : Nat} {od : OutDir} {c : Code}
    (h : checkTree cfg cas s rem od = (s', some c, rem')) : c = notFound := by
  unfold checkTree at h
  split at h
  · simp only [Prod.mk.injEq, Option.some.injEq] at h; exact h.2.1.symm
  · simp only [Prod.mk.injEq, Option.some.injEq] at h; exact h.2.1.symm
  · rename_i t ht
    split at h
    · simp only [Prod.mk.injEq, Option.some.injEq] at h; exact h.2.1.symm
    · dsimp only at h
      cases hw : walk cfg cas od.root.isSome { s with trace := s.trace ++ [Call.get t (cas.get s.trace.length t)] }
          (cas.get s.trace.length t).evs with
      | mk s2 r =>
        rw [hw] at h
        cases r with
        | some c' =>
          simp only [Prod.mk.injEq, Option.some.injEq] at h
          have hc' := walk_nf hn (hn.wf _ _) (hn.sz _ _) hw
          cases hre : (cas.get s.trace.length t).readErr with
          | none => rw [hre] at h; simp only [Option.getD_none] at h; exact h.2.1 ▸ hc'
          | some c2 => rw [hre] at h; simp only [Option.getD_some] at h; exact h.2.1 ▸ hn.rd _ _ _ hre
        | none =>
          simp only at h
          split at h
          · rename_i c2 hre
            simp only [Prod.mk.injEq, Option.some.injEq] at h
            exact h.2.1 ▸ hn.rd _ _ _ hre
          · simp at h

theorem checkTrees_nf {cfg : Cfg} {cas : Cas} (hn : OnlyNF cfg cas) {ods : List OutDir} {s s' : St} {rem : Nat} {c : Code}
    (h : checkTrees cfg cas s rem ods = (s', some c)) : c = notFound := by
  induction ods generalizing s rem with
  | nil => simp [checkTrees] at h
  | cons o os ih =>
    simp only [checkTrees] at h
    cases hc : checkTree cfg cas s rem o with
    | mk s1 r =>
      obtain ⟨r, rem1⟩ := r
      rw [hc] at h
      cases r with
      | some c' =>
        simp only [Prod.mk.injEq, Option.some.injEq] at h
        exact h.2 ▸ checkTree_nf hn hc
      | none => exact ih h

theorem check_nf {cfg : Cfg} {cas : Cas} (hn : OnlyNF cfg cas) {ar : AR} {s : St} {c : Code}
    (h : check cfg cas ar = (s, some c)) : c = notFound := by
  unfold check at h
  cases h1 : addAll cfg.batchSize cas {} (topDigests ar) with
  | mk s1 r1 =>
    rw [h1] at h
    cases r1 with
    | some c' =>
      simp only [Prod.mk.injEq, Option.some.injEq] at h
      exact h.2 ▸ addAll_nf hn h1
    | none =>
      simp only at h
      cases h2 : checkTrees cfg cas s1 cfg.budget ar.dirs with
      | mk s2 r2 =>
        rw [h2] at h
        cases r2 with
        | some c' =>
          simp only [Prod.mk.injEq, Option.some.injEq] at h
          exact h.2 ▸ checkTrees_nf hn h2
        | none => exact finalize_nf hn h

end BB.Completeness
