import BB.Model.Mux
/-! Part B: which tasks a call has waited for. -/
namespace BB.Mux

/-- tasks attached to this very handle: through task and error handling
decorators, not through a stream clone (whose other handles share them) -/
def spine : Buf → List Nat
  | .task base _ t _ => spine base ++ [t]
  | .eh base _ => spine base
  | _ => []

/-- all tasks below this handle, with their results -/
def taskResults : Buf → List (Nat × Option Nat)
  | .task base _ t r => taskResults base ++ [(t, r)]
  | .eh base _ => taskResults base
  | .cloned base _ _ => taskResults base
  | _ => []

theorem trOut_panic (o : Out) : trOut o = .panic ↔ o = .panic := by cases o <;> simp [trOut]
theorem trOut_isOk (o : Out) : (trOut o).isOk = o.isOk := by cases o <;> simp [trOut, Out.isOk]
theorem validate_isOk (o : Out) (h : (validate o).isOk = true) : o.isOk = true := by
  cases o with
  | ok d s => rfl
  | err k => simp [validate, Out.isOk] at h
  | panic => simp [validate, Out.isOk] at h
theorem validate_panic (o : Out) : validate o = .panic ↔ o = .panic := by
  cases o with
  | ok d s => cases s <;> simp [validate]
  | err k => simp [validate]
  | panic => simp [validate]

/-- `Close` of a chunk reader returns only after the tasks of the spine completed -/
theorem cr_spine : ∀ (b : Buf) (v : Bool), (cr b v).res ≠ .panic → ∀ t ∈ spine b, t ∈ (cr b v).wClose
  | .err _, _, _, t, ht => by simp [spine] at ht
  | .bytes _, _, _, t, ht => by simp [spine] at ht
  | .readerAt _, _, _, t, ht => by simp [spine] at ht
  | .stream _ _ _ _, _, _, t, ht => by simp [spine] at ht
  | .cloned _ _ _, _, _, t, ht => by simp [spine] at ht
  | .task base dg t0 r, v, hnp, t, ht => by
    have ih := cr_spine base v
    simp only [cr] at hnp ⊢
    simp only [spine, List.mem_append, List.mem_singleton] at ht
    cases hb : (cr base v).res with
    | panic => simp [hb, SR.panic] at hnp
    | err k =>
      simp only [List.mem_append, List.mem_singleton]
      rcases ht with ht | ht
      · exact Or.inl (ih (by rw [hb]; simp) t ht)
      · exact Or.inr ht
    | ok d s =>
      cases r <;> simp only [List.mem_append, List.mem_singleton] <;>
      (rcases ht with ht | ht
       · exact Or.inl (ih (by rw [hb]; simp) t ht)
       · exact Or.inr ht)
  | .eh base dg, v, hnp, t, ht => by
    have ih := cr_spine base false
    simp only [spine] at ht
    simp only [cr] at hnp ⊢
    cases v with
    | false =>
      simp only [Bool.not_false, if_true] at hnp ⊢
      exact ih (fun e => hnp ((trOut_panic _).mpr e)) t ht
    | true =>
      simp only [Bool.not_true, Bool.false_eq_true, if_false] at hnp ⊢
      cases dg with
      | none => simp [SR.panic] at hnp
      | some n =>
        simp only at hnp ⊢
        exact ih (fun e => hnp ((validate_panic _).mpr ((trOut_panic _).mpr e))) t ht

end BB.Mux
