import BB.Model.Mux
/-! Part B: which tasks a call has waited for. -/
namespace BB.Mux

/-- tasks attached to this very handle: through task and error handling
decorators, not through a stream clone (whose other handles share them) -/
def spine : Buf → List Nat
  | .task base _ t _ => spine base ++ [t]
  | .eh base _ => spine base
  | _ => []

/-- all tasks below this handle, with their results -/
def taskResults : Buf → List (Nat × Option Nat)
  | .task base _ t r => taskResults base ++ [(t, r)]
  | .eh base _ => taskResults base
  | .cloned base _ _ => taskResults base
  | _ => []

theorem trOut_panic (o : Out) : trOut o = .panic ↔ o = .panic := by cases o <;> simp [trOut]
theorem trOut_isOk (o : Out) : (trOut o).isOk = o.isOk := by cases o <;> simp [trOut, Out.isOk]
theorem validate_isOk (o : Out) (h : (validate o).isOk = true) : o.isOk = true := by
  cases o with
  | ok d s => rfl
  | err k => simp [validate, Out.isOk] at h
  | panic => simp [validate, Out.isOk] at h
theorem validate_panic (o : Out) : validate o = .panic ↔ o = .panic := by
  cases o with
  | ok d s => cases s <;> simp [validate]
  | err k => simp [validate]
  | panic => simp [validate]

/-- `Close` of a chunk reader returns only after the tasks of the spine completed -/
theorem cr_spine : ∀ (b : Buf) (v : Bool), (cr b v).res ≠ .panic → ∀ t ∈ spine b, t ∈ (cr b v).wClose
  | .err _, _, _, t, ht => by simp [spine] at ht
  | .bytes _, _, _, t, ht => by simp [spine] at ht
  | .readerAt _, _, _, t, ht => by simp [spine] at ht
  | .stream _ _ _ _, _, _, t, ht => by simp [spine] at ht
  | .cloned _ _ _, _, _, t, ht => by simp [spine] at ht
  | .task base dg t0 r, v, hnp, t, ht => by
    have ih := cr_spine base v
    simp only [cr] at hnp ⊢
    simp only [spine, List.mem_append, List.mem_singleton] at ht
    cases hb : (cr base v).res with
    | panic => simp [hb, SR.panic] at hnp
    | err k =>
      simp only [List.mem_append, List.mem_singleton]
      rcases ht with ht | ht
      · exact Or.inl (ih (by rw [hb]; simp) t ht)
      · exact Or.inr ht
    | ok d s =>
      cases r <;> simp only [List.mem_append, List.mem_singleton] <;>
      (rcases ht with ht | ht
       · exact Or.inl (ih (by rw [hb]; simp) t ht)
       · exact Or.inr ht)
  | .eh base dg, v, hnp, t, ht => by
    have ih := cr_spine base false
    simp only [spine] at ht
    simp only [cr] at hnp ⊢
    cases v with
    | false =>
      simp only [Bool.not_false, if_true] at hnp ⊢
      exact ih (fun e => hnp ((trOut_panic _).mpr e)) t ht
    | true =>
      simp only [Bool.not_true, Bool.false_eq_true, if_false] at hnp ⊢
      cases dg with
      | none => simp [SR.panic] at hnp
      | some n =>
        simp only at hnp ⊢
        exact ih (fun e => hnp ((validate_panic _).mpr ((trOut_panic _).mpr e))) t ht

theorem rd_spine : ∀ (b : Buf) (v : Bool), (rd b v).res ≠ .panic → ∀ t ∈ spine b, t ∈ (rd b v).wClose
  | .err _, _, _, t, ht => by simp [spine] at ht
  | .bytes _, _, _, t, ht => by simp [spine] at ht
  | .readerAt _, _, _, t, ht => by simp [spine] at ht
  | .stream _ _ _ _, _, _, t, ht => by simp [spine] at ht
  | .cloned _ _ _, _, _, t, ht => by simp [spine] at ht
  | .task base dg t0 r, v, hnp, t, ht => by
    have ih := rd_spine base v
    simp only [rd] at hnp ⊢
    simp only [spine, List.mem_append, List.mem_singleton] at ht
    cases hb : (rd base v).res with
    | panic => simp [hb, SR.panic] at hnp
    | err k =>
      simp only [List.mem_append, List.mem_singleton]
      rcases ht with ht | ht
      · exact Or.inl (ih (by rw [hb]; simp) t ht)
      · exact Or.inr ht
    | ok d s =>
      simp only [List.mem_append, List.mem_singleton]
      rcases ht with ht | ht
      · exact Or.inl (ih (by rw [hb]; simp) t ht)
      · exact Or.inr ht
  | .eh base dg, v, hnp, t, ht => by
    have ih := rd_spine base false
    simp only [spine] at ht
    simp only [rd] at hnp ⊢
    cases v with
    | false =>
      simp only [Bool.not_false, if_true] at hnp ⊢
      exact ih (fun e => hnp ((trOut_panic _).mpr e)) t ht
    | true =>
      simp only [Bool.not_true, Bool.false_eq_true, if_false] at hnp ⊢
      cases dg with
      | none => simp [SR.panic] at hnp
      | some n =>
        simp only at hnp ⊢
        exact ih (fun e => hnp ((validate_panic _).mpr ((trOut_panic _).mpr e))) t ht

theorem afterTask_waited (b : MOut) (t : Nat) (r : Option Nat) (h : (afterTask b t r).res ≠ .panic) :
    b.res ≠ .panic ∧ (afterTask b t r).waited = b.waited ++ [t] := by
  simp only [afterTask] at h ⊢
  cases hb : b.res with
  | panic => simp [hb, MOut.panic] at h
  | err k => simp
  | ok d s =>
    by_cases e : b.eof = true
    · simp [e]
    · cases r <;> simp [e]

theorem ofSR_waited (r : SR) (t : Nat) (h : t ∈ r.wClose) : t ∈ (ofSR r).waited := by
  simp only [ofSR, List.mem_append]; exact Or.inr h

theorem mem_snoc_of {t t0 : Nat} {l l' : List Nat} (h : t ∈ l ++ [t0]) (hl : ∀ x ∈ l, x ∈ l') : t ∈ l' ++ [t0] := by
  simp only [List.mem_append, List.mem_singleton] at h ⊢
  rcases h with h | h
  · exact Or.inl (hl t h)
  · exact Or.inr h

theorem toByteSlice_spine : ∀ (b : Buf) (max : Nat), (toByteSlice b max).res ≠ .panic →
    ∀ t ∈ spine b, t ∈ (toByteSlice b max).waited
  | .err _, _, _, t, ht => by simp [spine] at ht
  | .bytes _, _, _, t, ht => by simp [spine] at ht
  | .readerAt _, _, _, t, ht => by simp [spine] at ht
  | .stream _ _ _ _, _, _, t, ht => by simp [spine] at ht
  | .cloned _ _ _, _, _, t, ht => by simp [spine] at ht
  | .task base dg t0 r, max, hnp, t, ht => by
    simp only [toByteSlice] at hnp ⊢
    obtain ⟨hb, hw⟩ := afterTask_waited _ t0 r hnp
    rw [hw]; exact mem_snoc_of ht (toByteSlice_spine base max hb)
  | .eh base dg, max, hnp, t, ht => by
    simp only [toByteSlice, trM] at hnp ⊢
    exact toByteSlice_spine base max (fun e => hnp ((trOut_panic _).mpr e)) t ht

theorem readAt_spine : ∀ (b : Buf) (off len : Nat), (readAt b off len).res ≠ .panic →
    ∀ t ∈ spine b, t ∈ (readAt b off len).waited
  | .err _, _, _, _, t, ht => by simp [spine] at ht
  | .bytes _, _, _, _, t, ht => by simp [spine] at ht
  | .readerAt _, _, _, _, t, ht => by simp [spine] at ht
  | .stream _ _ _ _, _, _, _, t, ht => by simp [spine] at ht
  | .cloned _ _ _, _, _, _, t, ht => by simp [spine] at ht
  | .task base dg t0 r, off, len, hnp, t, ht => by
    simp only [readAt] at hnp ⊢
    obtain ⟨hb, hw⟩ := afterTask_waited _ t0 r hnp
    rw [hw]; exact mem_snoc_of ht (readAt_spine base off len hb)
  | .eh base dg, off, len, hnp, t, ht => by
    simp only [readAt, trM] at hnp ⊢
    exact readAt_spine base off len (fun e => hnp ((trOut_panic _).mpr e)) t ht

theorem intoWriter_spine : ∀ (b : Buf), (intoWriter b).res ≠ .panic →
    ∀ t ∈ spine b, t ∈ (intoWriter b).waited
  | .err _, _, t, ht => by simp [spine] at ht
  | .bytes _, _, t, ht => by simp [spine] at ht
  | .readerAt _, _, t, ht => by simp [spine] at ht
  | .stream _ _ _ _, _, t, ht => by simp [spine] at ht
  | .cloned _ _ _, _, t, ht => by simp [spine] at ht
  | .task base dg t0 r, hnp, t, ht => by
    simp only [intoWriter] at hnp ⊢
    obtain ⟨hb, hw⟩ := afterTask_waited _ t0 r hnp
    rw [hw]; exact mem_snoc_of ht (intoWriter_spine base hb)
  | .eh base dg, hnp, t, ht => by
    simp only [intoWriter] at hnp ⊢
    exact ofSR_waited _ t (cr_spine (.eh base dg) true hnp t ht)

theorem discard_spine : ∀ (b : Buf), (discard b).res ≠ .panic → ∀ t ∈ spine b, t ∈ (discard b).waited
  | .err _, _, t, ht => by simp [spine] at ht
  | .bytes _, _, t, ht => by simp [spine] at ht
  | .readerAt _, _, t, ht => by simp [spine] at ht
  | .stream _ _ _ _, _, t, ht => by simp [spine] at ht
  | .cloned _ _ _, _, t, ht => by simp [spine] at ht
  | .task base dg t0 r, hnp, t, ht => by
    have ih := discard_spine base
    simp only [discard] at hnp ⊢
    cases hb : (discard base).res with
    | panic => simp [hb, MOut.panic] at hnp
    | err k => simp only []; exact mem_snoc_of ht (ih (by rw [hb]; simp))
    | ok d s => simp only []; exact mem_snoc_of ht (ih (by rw [hb]; simp))
  | .eh base dg, hnp, t, ht => by
    simp only [discard] at hnp ⊢
    exact discard_spine base hnp t ht

theorem toChunkReader_spine (b : Buf) (off : Nat) (all : Bool) (h : (toChunkReader b off all).res ≠ .panic) :
    ∀ t ∈ spine b, t ∈ (toChunkReader b off all).waited := by
  intro t ht
  have hs := cr_spine b true
  simp only [toChunkReader] at h ⊢
  generalize cr b true = r at h hs ⊢
  cases r with | mk res wT wC cE =>
  cases res with
  | panic => simp [MOut.panic] at h
  | err k =>
    have := hs (by simp) t ht
    cases all <;> simp_all [ofSR]
  | ok d s =>
    have := hs (by simp) t ht
    cases all <;> simp_all [ofSR]

theorem toReader_spine (b : Buf) (all : Bool) (h : (toReader b all).res ≠ .panic) :
    ∀ t ∈ spine b, t ∈ (toReader b all).waited := by
  intro t ht
  have hs := rd_spine b true
  simp only [toReader] at h ⊢
  generalize rd b true = r at h hs ⊢
  cases r with | mk res wT wC cE =>
  cases res with
  | panic => simp [MOut.panic] at h
  | err k =>
    have := hs (by simp) t ht
    cases all <;> simp_all [ofSR]
  | ok d s =>
    have := hs (by simp) t ht
    cases all <;> simp_all [ofSR]

theorem intoWriterF_spine : ∀ (b : Buf), (intoWriterF b).res ≠ .panic → ∀ t ∈ spine b, t ∈ (intoWriterF b).waited
  | .err _, _, t, ht => by simp [spine] at ht
  | .bytes _, _, t, ht => by simp [spine] at ht
  | .readerAt _, _, t, ht => by simp [spine] at ht
  | .stream _ _ _ _, _, t, ht => by simp [spine] at ht
  | .cloned _ _ _, _, t, ht => by simp [spine] at ht
  | .task base dg t0 r, hnp, t, ht => by
    have ih := intoWriterF_spine base
    simp only [intoWriterF] at hnp ⊢
    cases hb : (intoWriterF base).res with
    | panic => simp [hb, MOut.panic] at hnp
    | err k => simp only []; exact mem_snoc_of ht (ih (by rw [hb]; simp))
    | ok d s => simp only []; exact mem_snoc_of ht (ih (by rw [hb]; simp))
  | .eh base dg, hnp, t, ht => by
    have hs := cr_spine (.eh base dg) true
    simp only [intoWriterF] at hnp ⊢
    cases hb : (cr (.eh base dg) true).res with
    | panic => simp [hb, MOut.panic] at hnp
    | err k => simp only []; exact hs (by rw [hb]; simp) t ht
    | ok d s => simp only []; exact hs (by rw [hb]; simp) t ht

/-- the methods that release the buffer (everything but `GetSizeBytes`) -/
def Method.consumes : Method → Bool
  | .getSizeBytes => false
  | _ => true

theorem call_spine (b : Buf) (m : Method) (hm : m.consumes = true) (h : (call b m).res ≠ .panic) :
    ∀ t ∈ spine b, t ∈ (call b m).waited := by
  cases m with
  | getSizeBytes => simp [Method.consumes] at hm
  | intoWriter => exact intoWriter_spine b h
  | readAt off len => exact readAt_spine b off len h
  | toProto max => exact toByteSlice_spine b max h
  | toByteSlice max => exact toByteSlice_spine b max h
  | toChunkReader off all => exact toChunkReader_spine b off all h
  | toReader all => exact toReader_spine b all h
  | discard => exact discard_spine b h
  | intoWriterFailing k => exact intoWriterF_spine b h

end BB.Mux
