import BB.Proofs.SectorWriter
/-!
# The block with all its writers: invariant of `Sys.step`
-/
namespace BB.SectorWriter

theorem take_succ_flatten_length (objs : List (List Nat)) (n : Nat) :
    ((objs.take (n + 1)).flatten).length = ((objs.take n).flatten).length + (objs.getD n []).length := by
  induction objs generalizing n with
  | nil => simp
  | cons o os ih =>
    cases n with
    | zero => simp
    | succ n =>
      simp only [List.take_succ_cons, List.flatten_cons, List.length_append, List.getD_cons_succ]
      rw [ih n]; omega

theorem flatten_getD (objs : List (List Nat)) (n k : Nat) (hk : k < (objs.getD n []).length) :
    objs.flatten.getD ((objs.take n).flatten.length + k) 0 = (objs.getD n []).getD k 0 := by
  induction objs generalizing n with
  | nil => simp at hk
  | cons o os ih =>
    cases n with
    | zero =>
      simp only [List.getD_cons_zero] at hk
      simp only [List.take_zero, List.flatten_nil, List.length_nil, Nat.zero_add, List.flatten_cons,
        List.getD_cons_zero, List.getD_eq_getElem?_getD]
      rw [List.getElem?_append_left hk]
      simp
    | succ n =>
      simp only [List.getD_cons_succ] at hk
      simp only [List.take_succ_cons, List.flatten_cons, List.length_append, List.getD_cons_succ]
      have := ih n hk
      simp only [List.getD_eq_getElem?_getD] at this ⊢
      rw [List.getElem?_append_right (by omega)]
      rw [← this]; congr 2; omega

/-- Per-writer invariant. -/
structure WI (S : Nat) (flat : List Nat) (sec : Nat → Nat) (a : Alloc) (m : Mem) (r : Wr) : Prop where
  hF : ∀ k, k < r.data.length → flat.getD (r.start + k) 0 = r.data.getD k 0
  hB : r.start + r.data.length ≤ total S a
  run : r.flushed = false → r.dead = false → WP S flat sec a.nextId m r.w r.start r.data r.c
  done : r.flushed = true → Done S flat m r.start r.data

theorem WI.mono {S flat sec a m m' r} (wi : WI S flat sec a m r) (mo : Mono S flat sec a m m') :
    WI S flat sec a m' r :=
  ⟨wi.hF, wi.hB, fun h hd => (wi.run h hd).mono mo, fun h => (wi.done h).mono mo⟩

/-- The invariant of the whole block. -/
structure Inv (S : Nat) (objs : List (List Nat)) (s : Sys) (sec : Nat → Nat) : Prop where
  hm : s.m.S = S
  ga : GA S sec s.a s.ws
  gm : GM S objs.flatten sec s.a s.m
  tot : total S s.a = ((objs.take s.ws.length).flatten).length
  wi : ∀ r, r ∈ s.ws → WI S objs.flatten sec s.a s.m r
  idx : ∀ i r, s.ws[i]? = some r → r.start = ((objs.take i).flatten).length ∧ r.data = objs.getD i []

theorem GA.set {S sec a ws} (ga : GA S sec a ws) (i : Nat) (r r' : Wr) (hr : r ∈ ws)
    (h1 : r'.start = r.start) (h2 : r'.data = r.data) : GA S sec a (ws.set i r') := by
  refine ⟨ga.a1, ga.a2, ga.inj, fun id hid => ?_⟩
  obtain ⟨b, hb1, hb2, hb3, hb⟩ := ga.bnd id hid
  refine ⟨b, hb1, hb2, hb3, fun x hx => ?_⟩
  rcases List.mem_or_eq_of_mem_set hx with h | h
  · exact hb x h
  · subst h; rw [h1, h2]; exact hb r hr

theorem inv_init (S : Nat) (objs : List (List Nat)) : Inv S objs (Sys.init S) (fun _ => 0) := by
  refine ⟨rfl, ⟨?_, ?_, ?_, ?_⟩, ⟨?_, ?_, ?_, fun _ _ _ => Or.inl rfl, fun _ _ _ => Or.inl rfl, fun _ h => by simp [Sys.init] at h⟩, ?_, ?_, ?_⟩
  · intro id o h; simp [Sys.init] at h
  · intro id h; simp [Sys.init] at h
  · intro i1 i2 h; simp [Sys.init] at h
  · intro id h; simp [Sys.init] at h
  · intro id h; simp [Sys.init] at h
  · intro s j _ h; simp [Sys.init] at h
  · intro id j _ h; simp [Sys.init] at h
  · simp [Sys.init, total, Alloc.off]
  · intro r h; simp [Sys.init] at h
  · intro i r h; simp [Sys.init] at h

theorem inv_write {S objs s sec} (hS : 0 < S) (inv : Inv S objs s sec) (i n : Nat) :
    Inv S objs (s.step objs (.write i n)) sec := by
  cases hi : s.ws[i]? with
  | none => simp only [Sys.step, hi]; exact inv
  | some r =>
    by_cases hfd : r.flushed = true ∨ r.dead = true
    · simp only [Sys.step, hi, hfd, if_true]; exact inv
    · simp only [Sys.step, hi, hfd, if_false]
      have hfl : r.flushed = false := by cases h : r.flushed <;> simp_all
      have hdd : r.dead = false := by cases h : r.dead <;> simp_all
      have hmem : r ∈ s.ws := List.mem_of_getElem? hi
      have wi := inv.wi r hmem
      have wp := wi.run hfl hdd
      have hp : ∀ k, k < ((r.data.drop r.c).take n).length →
          ((r.data.drop r.c).take n).getD k 0 = r.data.getD (r.c + k) 0 := by
        intro k hk
        simp only [List.length_take, List.length_drop] at hk
        simp only [List.getD_eq_getElem?_getD, List.getElem?_take, List.getElem?_drop]
        rw [if_pos (by omega)]
      have hpl : r.c + ((r.data.drop r.c).take n).length ≤ r.data.length := by
        have := wp.cle
        simp only [List.length_take, List.length_drop]; omega
      obtain ⟨gm', mo, hm', wp'⟩ := write_spec hS inv.hm wi.hF wi.hB ⟨r, hmem, rfl, rfl⟩ inv.ga inv.gm wp hp hpl
      refine ⟨hm', inv.ga.set i r _ hmem rfl rfl, gm', ?_, ?_, ?_⟩
      · simp only [List.length_set]; exact inv.tot
      · intro x hx
        rcases List.mem_or_eq_of_mem_set hx with h | h
        · exact (inv.wi x h).mono mo
        · subst h
          exact ⟨wi.hF, wi.hB, fun _ _ => wp', fun h => by simp [hfl] at h⟩
      · intro j x hx
        rw [List.getElem?_set] at hx
        split at hx
        · next hij =>
          subst hij
          split at hx
          · cases hx; exact inv.idx i r hi
          · cases hx
        · exact inv.idx j x hx

theorem inv_writeFail {S objs s sec} (hS : 0 < S) (inv : Inv S objs s sec) (i n k : Nat) :
    Inv S objs (s.step objs (.writeFail i n k)) sec := by
  cases hi : s.ws[i]? with
  | none => simp only [Sys.step, hi]; exact inv
  | some r =>
    by_cases hfd : r.flushed = true ∨ r.dead = true
    · simp only [Sys.step, hi, hfd, if_true]; exact inv
    · simp only [Sys.step, hi, hfd, if_false]
      have hfl : r.flushed = false := by cases h : r.flushed <;> simp_all
      have hdd : r.dead = false := by cases h : r.dead <;> simp_all
      have hmem : r ∈ s.ws := List.mem_of_getElem? hi
      have wi := inv.wi r hmem
      have wp := wi.run hfl hdd
      have hp : ∀ k, k < ((r.data.drop r.c).take n).length →
          ((r.data.drop r.c).take n).getD k 0 = r.data.getD (r.c + k) 0 := by
        intro k hk
        simp only [List.length_take, List.length_drop] at hk
        simp only [List.getD_eq_getElem?_getD, List.getElem?_take, List.getElem?_drop]
        rw [if_pos (by omega)]
      have hpl : r.c + ((r.data.drop r.c).take n).length ≤ r.data.length := by
        have := wp.cle
        simp only [List.length_take, List.length_drop]; omega
      obtain ⟨gm', mo, hm', wp'⟩ := writeFail_spec hS inv.hm wi.hF wi.hB ⟨r, hmem, rfl, rfl⟩ inv.ga inv.gm wp hp hpl k
      generalize r.w.writeFail s.m ((r.data.drop r.c).take n) k = res at gm' mo hm' wp'
      obtain ⟨m', ow⟩ := res
      dsimp only at gm' mo hm' wp'
      have hidx : ∀ (r' : Wr), r'.start = r.start → r'.data = r.data → ∀ j x, (s.ws.set i r')[j]? = some x →
          x.start = ((objs.take j).flatten).length ∧ x.data = objs.getD j [] := by
        intro r' h1 h2 j x hx
        rw [List.getElem?_set] at hx
        split at hx
        · next hij =>
          subst hij
          split at hx
          · cases hx; rw [h1, h2]; exact inv.idx i r hi
          · cases hx
        · exact inv.idx j x hx
      cases ow with
      | some w' =>
        dsimp only
        refine ⟨hm', inv.ga.set i r _ hmem rfl rfl, gm', ?_, ?_, hidx _ rfl rfl⟩
        · simp only [List.length_set]; exact inv.tot
        · intro x hx
          rcases List.mem_or_eq_of_mem_set hx with h | h
          · exact (inv.wi x h).mono mo
          · subst h
            exact ⟨wi.hF, wi.hB, fun _ _ => wp' w' rfl, fun h => by simp [hfl] at h⟩
      | none =>
        dsimp only
        refine ⟨hm', inv.ga.set i r _ hmem rfl rfl, gm', ?_, ?_, hidx _ rfl rfl⟩
        · simp only [List.length_set]; exact inv.tot
        · intro x hx
          rcases List.mem_or_eq_of_mem_set hx with h | h
          · exact (inv.wi x h).mono mo
          · subst h
            exact ⟨wi.hF, wi.hB, fun _ hd => by simp at hd, fun h => by simp [hfl] at h⟩

theorem inv_flush {S objs s sec} (hS : 0 < S) (inv : Inv S objs s sec) (i : Nat) :
    Inv S objs (s.step objs (.flush i)) sec := by
  cases hi : s.ws[i]? with
  | none => simp only [Sys.step, hi]; exact inv
  | some r =>
    by_cases hc : r.flushed = true ∨ r.dead = true ∨ r.c ≠ r.data.length
    · simp only [Sys.step, hi, hc, if_true]; exact inv
    · simp only [Sys.step, hi, hc, if_false]
      have hfl : r.flushed = false := by
        cases h : r.flushed with
        | true => exact absurd (Or.inl h) hc
        | false => rfl
      have hdd : r.dead = false := by
        cases h : r.dead with
        | true => exact absurd (Or.inr (Or.inl h)) hc
        | false => rfl
      have hcc : r.c = r.data.length := by
        rcases Nat.decEq r.c r.data.length with h | h
        · exact absurd (Or.inr (Or.inr h)) hc
        · exact h
      have hmem : r ∈ s.ws := List.mem_of_getElem? hi
      have wi := inv.wi r hmem
      have wp := wi.run hfl hdd
      rw [hcc] at wp
      obtain ⟨e, dn⟩ := flush_spec (ws := s.ws) hS inv.hm wi.hF wi.hB inv.ga wp
      have mo := e.mono inv.ga inv.gm
      refine ⟨by rw [e.S_eq]; exact inv.hm, inv.ga.set i r _ hmem rfl rfl, e.gm inv.ga inv.gm, ?_, ?_, ?_⟩
      · simp only [List.length_set]; exact inv.tot
      · intro x hx
        rcases List.mem_or_eq_of_mem_set hx with h | h
        · exact (inv.wi x h).mono mo
        · subst h
          exact ⟨wi.hF, wi.hB, fun h _ => by simp at h, fun _ => dn⟩
      · intro j x hx
        rw [List.getElem?_set] at hx
        split at hx
        · next hij =>
          subst hij
          split at hx
          · cases hx; exact inv.idx i r hi
          · cases hx
        · exact inv.idx j x hx

theorem total_some {S : Nat} {a : Alloc} {id o : Nat} (h : a.shared = some (id, o)) : total S a = a.wos * S + o := by
  simp only [total, Alloc.off, h]

theorem total_none {S : Nat} {a : Alloc} (h : a.shared = none) : total S a = a.wos * S := by
  simp only [total, Alloc.off, h, Nat.add_zero]

theorem map_fst_some {x : Option (Nat × Nat)} {id : Nat} (h : x.map (·.1) = some id) : ∃ o, x = some (id, o) := by
  cases x with
  | none => simp at h
  | some p => obtain ⟨a, b⟩ := p; simp at h; exact ⟨b, by rw [h]⟩

theorem map_fst_none {x : Option (Nat × Nat)} (h : x.map (·.1) = none) : x = none := by
  cases x with
  | none => rfl
  | some p => simp at h

theorem WP.congr {S flat sec sec' nid nid' m w start data c} (wp : WP S flat sec nid m w start data c)
    (hs : ∀ id, id < nid → sec' id = sec id) (hn : nid ≤ nid') : WP S flat sec' nid' m w start data c := by
  refine ⟨wp.cle, ?_, wp.ph2, ?_, wp.last0⟩
  · intro id h
    obtain ⟨h1, h2, h3⟩ := wp.ph1 id h
    exact ⟨by omega, by rw [hs id h1]; exact h2, h3⟩
  · intro id h
    obtain ⟨h1, h2⟩ := wp.last1 id h
    exact ⟨by omega, by rw [hs id h1]; exact h2⟩

theorem inv_alloc {S objs s sec} (hS : 0 < S) (inv : Inv S objs s sec) :
    ∃ sec', Inv S objs (s.step objs .alloc) sec' := by
  have sp := alloc_spec hS s.a (objs.getD s.ws.length []).length (fun id o h => ⟨(inv.ga.a1 id o h).1, (inv.ga.a1 id o h).2.1⟩)
  simp only [Sys.step, inv.hm]
  generalize alloc S s.a (objs.getD s.ws.length []).length = A at sp ⊢
  obtain ⟨a', w0, st⟩ := A
  dsimp only at sp ⊢
  obtain ⟨hst, htot, hoff, hfirst, hfo, hpart, hlast, hcases⟩ := sp
  let sec' : Nat → Nat := fun id => if id = s.a.nextId then a'.wos else sec id
  have hsec : ∀ id, id < s.a.nextId → sec' id = sec id := by
    intro id h; show (if id = s.a.nextId then a'.wos else sec id) = sec id
    rw [if_neg (by omega)]
  have hsecn : sec' s.a.nextId = a'.wos := by
    show (if s.a.nextId = s.a.nextId then a'.wos else sec s.a.nextId) = a'.wos
    rw [if_pos rfl]
  -- facts common to the three cases
  have hcom : s.a.nextId ≤ a'.nextId ∧
      (∀ id o, a'.shared = some (id, o) → 0 < o ∧ o < S ∧ id < a'.nextId ∧ sec' id = a'.wos) ∧
      (∀ id, id < a'.nextId → sec' id ≤ a'.wos ∧ (sec' id = a'.wos → ∃ o, a'.shared = some (id, o))) ∧
      (a'.nextId = s.a.nextId ∨ (a'.nextId = s.a.nextId + 1 ∧ total S s.a ≤ a'.wos * S ∧
        (∀ id, id < s.a.nextId → sec id < a'.wos) ∧ ∃ l, 0 < l ∧ l < S ∧ a'.shared = some (s.a.nextId, l))) := by
    rcases hcases with ⟨c1, c2, c3, c4, c5⟩ | ⟨last, c1, c2, c3, c4, c5, c6⟩ | ⟨id0, o0, last, c1, c2, c3, c4, c5, c6⟩
    · refine ⟨by omega, ?_, ?_, Or.inl c2⟩
      · intro id o h; rw [c1] at h; cases h
      · intro id hid
        rw [c2] at hid
        rw [hsec id hid]
        obtain ⟨h1, h2⟩ := inv.ga.a2 id hid
        refine ⟨by omega, fun h => ?_⟩
        have hw : a'.wos = s.a.wos := by omega
        obtain ⟨o, ho⟩ := h2 (by omega)
        rw [c5 hw] at ho; cases ho
    · have hlt : ∀ id, id < s.a.nextId → sec id < a'.wos := by
        intro id hid
        obtain ⟨h1, h2⟩ := inv.ga.a2 id hid
        rcases c5 with h | ⟨h, hn⟩
        · omega
        · rcases Nat.lt_or_ge (sec id) a'.wos with h' | h'
          · exact h'
          · obtain ⟨o, ho⟩ := h2 (by omega)
            rw [hn] at ho; cases ho
      refine ⟨by omega, ?_, ?_, Or.inr ⟨c4, c6, hlt, last, c1, c2, c3⟩⟩
      · intro id o h
        rw [c3] at h; cases h
        exact ⟨c1, c2, by omega, hsecn⟩
      · intro id hid
        by_cases he : id = s.a.nextId
        · subst he
          rw [hsecn]
          exact ⟨Nat.le_refl _, fun _ => ⟨last, c3⟩⟩
        · have hid' : id < s.a.nextId := by omega
          rw [hsec id hid']
          have := hlt id hid'
          exact ⟨by omega, fun h => by omega⟩
    · refine ⟨by omega, ?_, ?_, Or.inl c5⟩
      · intro id o h
        rw [c4] at h; cases h
        obtain ⟨_, _, h3, h4⟩ := inv.ga.a1 id0 o0 c3
        exact ⟨c1, c2, by omega, by rw [hsec id0 h3, h4, c6]⟩
      · intro id hid
        rw [c5] at hid
        rw [hsec id hid, c6]
        obtain ⟨h1, h2⟩ := inv.ga.a2 id hid
        refine ⟨h1, fun h => ?_⟩
        obtain ⟨o, ho⟩ := h2 h
        rw [c3] at ho; cases ho
        exact ⟨last, c4⟩
  obtain ⟨hnid, a1', a2', hnew⟩ := hcom
  refine ⟨sec', ?_⟩
  have htotle : total S s.a ≤ total S a' := by omega
  -- the new writer
  have hr0F : ∀ k, k < (objs.getD s.ws.length []).length →
      objs.flatten.getD (st + k) 0 = (objs.getD s.ws.length []).getD k 0 := by
    intro k hk
    rw [hst, inv.tot]; exact flatten_getD objs _ k hk
  have hwp0 : WP S objs.flatten sec' a'.nextId s.m w0 st (objs.getD s.ws.length []) 0 := by
    refine ⟨Nat.zero_le _, ?_, ?_, ?_, ?_⟩
    · intro id h
      rw [hfirst] at h
      obtain ⟨o, ho⟩ := map_fst_some h
      obtain ⟨h1, h2, h3, h4⟩ := inv.ga.a1 id o ho
      have := total_some (S := S) ho
      have hoo : s.a.off = o := by simp only [Alloc.off, ho]
      refine ⟨by omega, by rw [hsec id h3, h4, hoff], by rw [hoff, hfo]; omega, by omega, by omega, Nat.zero_le _, hpart, ?_⟩
      intro j _ ha hb; omega
    · intro h
      rw [hfirst] at h
      have hn := map_fst_none h
      have := total_none (S := S) hn
      rw [hpart]
      refine ⟨by rw [hoff]; simp only [List.length_nil]; omega, hS, Nat.zero_le _, fun i hi => absurd hi (Nat.not_lt_zero _), ?_⟩
      intro s' j _ ha hb; simp only [List.length_nil] at hb; omega
    · intro id h
      rw [hlast] at h
      obtain ⟨l, hl⟩ := map_fst_some h
      obtain ⟨h1, h2, h3, h4⟩ := a1' id l hl
      have := total_some (S := S) hl
      rw [h4]
      exact ⟨h3, by omega, by omega⟩
    · intro h
      rw [hlast] at h
      have := total_none (S := S) (map_fst_none h)
      exact ⟨a'.wos, by omega⟩
  refine ⟨inv.hm, ⟨a1', a2', ?_, ?_⟩, ⟨?_, ?_, ?_, inv.gm.g4d, ?_, fun e he => ⟨(inv.gm.glog e he).1, by have := (inv.gm.glog e he).2; dsimp only; omega⟩⟩, ?_, ?_, ?_⟩
  all_goals dsimp only
  · -- inj
    intro i1 i2 h1 h2 he
    rcases hnew with hn | ⟨hn, _, hlt, _⟩
    · rw [hn] at h1 h2
      rw [hsec i1 h1, hsec i2 h2] at he
      exact inv.ga.inj i1 i2 h1 h2 he
    · by_cases e1 : i1 = s.a.nextId
      · by_cases e2 : i2 = s.a.nextId
        · rw [e1, e2]
        · exfalso
          have h2' : i2 < s.a.nextId := by omega
          rw [e1, hsecn, hsec i2 h2'] at he
          have := hlt i2 h2'; omega
      · have h1' : i1 < s.a.nextId := by omega
        by_cases e2 : i2 = s.a.nextId
        · exfalso
          rw [e2, hsecn, hsec i1 h1'] at he
          have := hlt i1 h1'; omega
        · have h2' : i2 < s.a.nextId := by omega
          rw [hsec i1 h1', hsec i2 h2'] at he
          exact inv.ga.inj i1 i2 h1' h2' he
  · -- bnd
    intro id hid
    by_cases hold : id < s.a.nextId
    · obtain ⟨b, hb1, hb2, hb3, hb⟩ := inv.ga.bnd id hold
      rw [hsec id hold]
      refine ⟨b, hb1, hb2, by omega, fun r hr => ?_⟩
      rcases List.mem_append.mp hr with h | h
      · exact hb r h
      · simp only [List.mem_singleton] at h
        subst h; right; dsimp only; omega
    · rcases hnew with hn | ⟨hn, hge, _, l, hl1, hl2, hl3⟩
      · omega
      · have he : id = s.a.nextId := by omega
        subst he
        have := total_some (S := S) hl3
        rw [hsecn]
        refine ⟨total S a', by omega, by omega, Nat.le_refl _, fun r hr => ?_⟩
        rcases List.mem_append.mp hr with h | h
        · have := (inv.wi r h).hB; left; omega
        · simp only [List.mem_singleton] at h
          subst h; left; dsimp only; omega
  · -- g2
    intro id hid j hj hg
    by_cases hold : id < s.a.nextId
    · rw [hsec id hold] at hg ⊢
      exact inv.gm.g2 id hold j hj hg
    · rcases hnew with hn | ⟨hn, hge, _, _⟩
      · omega
      · have he : id = s.a.nextId := by omega
        subst he
        have hi0 : s.m.img s.a.nextId j = 0 := by
          rcases Nat.decEq (s.m.img s.a.nextId j) 0 with h | h
          · exact absurd (inv.gm.g3i _ j hj h).1 (Nat.lt_irrefl _)
          · exact h
        have hd0 : s.m.dev a'.wos j = 0 := by
          rcases Nat.decEq (s.m.dev a'.wos j) 0 with h | h
          · have := inv.gm.g3d _ j hj h; omega
          · exact h
        rw [hsecn] at hg ⊢
        rw [hd0] at hg; rw [hi0]; exact hg
  · intro s' j hj h
    have := inv.gm.g3d s' j hj h; omega
  · intro id j hj h
    obtain ⟨h1, h2⟩ := inv.gm.g3i id j hj h
    rw [hsec id h1]
    exact ⟨by omega, by omega⟩
  · -- g4i
    intro id j hj
    by_cases hold : id < s.a.nextId
    · rw [hsec id hold]; exact inv.gm.g4i id j hj
    · left
      rcases Nat.decEq (s.m.img id j) 0 with h | h
      · exact absurd (inv.gm.g3i _ j hj h).1 hold
      · exact h
  · -- tot
    simp only [List.length_append, List.length_singleton]
    rw [take_succ_flatten_length, ← inv.tot]; exact htot
  · -- wi
    intro r hr
    rcases List.mem_append.mp hr with h | h
    · have wi := inv.wi r h
      exact ⟨wi.hF, by have := wi.hB; omega, fun hf hd => (wi.run hf hd).congr hsec hnid, wi.done⟩
    · simp only [List.mem_singleton] at h
      subst h
      exact ⟨hr0F, by dsimp only; omega, fun _ _ => hwp0, fun h => by simp at h⟩
  · -- idx
    intro i r hi
    by_cases hlt : i < s.ws.length
    · rw [List.getElem?_append_left hlt] at hi
      exact inv.idx i r hi
    · rw [List.getElem?_append_right (by omega)] at hi
      have : i = s.ws.length := by
        rcases Nat.lt_or_ge (i - s.ws.length) 1 with h | h
        · omega
        · rw [List.getElem?_eq_none (by simp only [List.length_singleton]; omega)] at hi; cases hi
      subst this
      simp only [Nat.sub_self, List.getElem?_cons_zero] at hi
      cases hi
      exact ⟨by dsimp only; rw [hst]; exact inv.tot, rfl⟩

end BB.SectorWriter
