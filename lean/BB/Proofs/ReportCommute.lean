import BB.Model.BlockMap
/-!
# A corruption report that arrives while a reservation holds the lock

The data-integrity callback does not take the store lock: it only raises `totalBlocksToBeReleased` to
`max(current, B+1)` atomically. `findBlockWithSpace` reads that counter once, at the start of its first
loop; afterwards it only ever raises it the same way (`increaseTotalBlocksToBeReleased(totalBlocksReleased)`)
and never branches on it. So a report that arrives anywhere after the snapshot commutes with the rest of the
reservation: the model may treat `Put` as atomic and place the report right after it. (The harness exercises
exactly this interleaving on the real code: op `putb` fires the detection from inside `NewBlock`.)
-/
namespace BB.BlockMap

def rep (B : Nat) (s : St) : St := reportCorruption s B

def Res.mapSt {α : Type} (f : St → St) (g : α → α) : Res α → Res α
  | .ok a => .ok (g a)
  | .err e s => .err e (f s)
  | .stuck => .stuck
  | .panic => .panic

theorem max_comm3 (t r b : Nat) : max (max t b) r = max (max t r) b := by omega

theorem rep_resetAlloc (B : Nat) (s : St) : rep B (resetAlloc s) = resetAlloc (rep B s) := rfl

theorem popFront_rep (B : Nat) (s : St) : popFront (rep B s) = (popFront s).map (rep B) := by
  unfold popFront rep reportCorruption
  cases s.caps <;> rfl

theorem pushBack_rep (c : Cfg) (B : Nat) (s : St) : pushBack c (rep B s) = (pushBack c s).map (rep B) := by
  unfold pushBack rep reportCorruption
  dsimp only
  split <;> rfl

theorem hasSpace_rep (B : Nat) (s : St) (i z : Nat) : hasSpace (rep B s) i z = hasSpace s i z := rfl

theorem growLoop_rep (c : Cfg) (B : Nat) : ∀ (fuel : Nat) (s : St),
    growLoop c fuel (rep B s) = (growLoop c fuel s).mapSt (rep B) (rep B) := by
  intro fuel
  induction fuel with
  | zero => intro s; rfl
  | succ n ih =>
    intro s
    unfold growLoop
    have h1 : (rep B s).cur = s.cur := rfl
    have h2 : (rep B s).new = s.new := rfl
    rw [h1, h2, pushBack_rep]
    split
    · cases hp : pushBack c s with
      | none => rfl
      | some s' =>
        simp only [Option.map]
        exact ih { s' with new := s'.new + 1 }
    · rfl

/-- What `rotateStep` does after a successful `PushBack`. -/
def rotTail (c : Cfg) (s : St) : Res St :=
  if c.policy.growCur s.cur then
    .ok (resetAlloc { s with cur := s.cur + 1 })
  else
    let s := { s with old := s.old + 1 }
    if s.old > c.desiredOld then
      match popFront s with
      | none => .panic
      | some s =>
        .ok (resetAlloc { s with old := s.old - 1, toBeReleased := max s.toBeReleased s.released })
    else .ok (resetAlloc s)

theorem rotateStep_eq (c : Cfg) (s : St) : rotateStep c s =
    if s.new > c.desiredNew then .ok (resetAlloc { s with cur := s.cur + 1, new := s.new - 1 })
    else match pushBack c s with
      | none => .err "unavailable" s
      | some s => rotTail c s := rfl

theorem rotTail_rep (c : Cfg) (B : Nat) (s : St) : rotTail c (rep B s) = (rotTail c s).mapSt (rep B) (rep B) := by
  obtain ⟨old, cur, new, released, tbr, ai, ar, caps, free, pushes, pins, zombies⟩ := s
  unfold rotTail rep reportCorruption
  dsimp only
  split
  · rfl
  · split
    · unfold popFront
      dsimp only
      cases caps with
      | nil => rfl
      | cons x rest =>
        dsimp only [Res.mapSt, resetAlloc]
        congr 2
        exact max_comm3 _ _ _
    · rfl

theorem rotateStep_rep (c : Cfg) (B : Nat) (s : St) :
    rotateStep c (rep B s) = (rotateStep c s).mapSt (rep B) (rep B) := by
  rw [rotateStep_eq, rotateStep_eq]
  have h2 : (rep B s).new = s.new := rfl
  rw [h2, pushBack_rep]
  split
  · rfl
  · cases hp : pushBack c s with
    | none => rfl
    | some s' =>
      simp only [Option.map]
      exact rotTail_rep c B s'

theorem rotateLoop_rep (c : Cfg) (size B : Nat) : ∀ (fuel : Nat) (s : St),
    rotateLoop c size fuel (rep B s) = (rotateLoop c size fuel s).mapSt (rep B) (rep B) := by
  intro fuel
  induction fuel with
  | zero => intro s; rfl
  | succ n ih =>
    intro s
    unfold rotateLoop
    have h1 : (rep B s).old = s.old := rfl
    have h2 : (rep B s).cur = s.cur := rfl
    rw [hasSpace_rep, h1, h2]
    cases hasSpace s (s.old + s.cur) size with
    | none => rfl
    | some b =>
      cases b with
      | true => rfl
      | false =>
        dsimp only
        rw [rotateStep_rep]
        cases rotateStep c s with
        | ok s' => exact ih s'
        | err e s' => rfl
        | stuck => rfl
        | panic => rfl

theorem incrementAlloc_rep (c : Cfg) (B : Nat) (s : St) :
    incrementAlloc c (rep B s) = (incrementAlloc c s).map (rep B) := by
  unfold incrementAlloc
  have h : (rep B s).new = s.new := rfl
  rw [h]
  split <;> rfl

def tryPick (size : Nat) (s : St) : Option (Nat × St) :=
  if s.allocRem > 0 then
    let index : Int := (s.old + s.cur : Nat) + s.allocIdx
    if index < 0 then none else
    match hasSpace s index.toNat size with
    | some true => some (index.toNat, { s with allocRem := s.allocRem - 1 })
    | _ => none
  else none

theorem pickLoop_succ (c : Cfg) (size fuel : Nat) (s : St) : pickLoop c size (fuel + 1) s =
    match tryPick size s with
    | some r => .ok r
    | none =>
      if s.allocRem > 0 ∧ (((s.old + s.cur : Nat) + s.allocIdx < 0) ∨
          (hasSpace s ((s.old + s.cur : Nat) + s.allocIdx).toNat size).isNone) then .panic else
      match incrementAlloc c s with
      | none => .panic
      | some s => pickLoop c size fuel s := rfl

theorem tryPick_rep (size B : Nat) (s : St) :
    tryPick size (rep B s) = (tryPick size s).map (fun p => (p.1, rep B p.2)) := by
  unfold tryPick
  have h1 : (rep B s).allocRem = s.allocRem := rfl
  have h2 : (rep B s).old = s.old := rfl
  have h3 : (rep B s).cur = s.cur := rfl
  have h4 : (rep B s).allocIdx = s.allocIdx := rfl
  simp only [h1, h2, h3, h4, hasSpace_rep]
  by_cases ha : s.allocRem > 0
  · simp only [ha, if_true]
    by_cases hi : ((s.old + s.cur : Nat) : Int) + s.allocIdx < 0
    · simp only [hi, if_true, Option.map]
    · simp only [hi, if_false]
      cases hasSpace s (((s.old + s.cur : Nat) : Int) + s.allocIdx).toNat size with
      | none => rfl
      | some b => cases b <;> rfl
  · simp only [ha, if_false, Option.map]

theorem pickLoop_rep (c : Cfg) (size B : Nat) : ∀ (fuel : Nat) (s : St),
    pickLoop c size fuel (rep B s) = (pickLoop c size fuel s).mapSt (rep B) (fun p => (p.1, rep B p.2)) := by
  intro fuel
  induction fuel with
  | zero => intro s; rfl
  | succ n ih =>
    intro s
    rw [pickLoop_succ, pickLoop_succ, tryPick_rep]
    have h1 : (rep B s).allocRem = s.allocRem := rfl
    have h2 : (rep B s).old = s.old := rfl
    have h3 : (rep B s).cur = s.cur := rfl
    have h4 : (rep B s).allocIdx = s.allocIdx := rfl
    cases tryPick size s with
    | some r => rfl
    | none =>
      simp only [Option.map, h1, h2, h3, h4, hasSpace_rep]
      split
      · rfl
      · rw [incrementAlloc_rep]
        cases incrementAlloc c s with
        | none => rfl
        | some s' => exact ih s'

/-- The part of `findBlockWithSpace` that runs after the counter was read. -/
def afterSnapshot (c : Cfg) (fuelGrow size : Nat) (s : St) : Res (Nat × St) :=
  match growLoop c fuelGrow s with
  | .ok s =>
    match rotateLoop c size (s.new + 2) s with
    | .ok s => pickLoop c size (s.new + 2) s
    | .err e s => .err e s
    | .stuck => .stuck
    | .panic => .panic
  | .err e s => .err e s
  | .stuck => .stuck
  | .panic => .panic

theorem findBlockWithSpace_eq (c : Cfg) (fuelGrow size : Nat) (s : St) :
    findBlockWithSpace c fuelGrow size s =
      if size > c.blockSize then .err "invalid-argument" s else
      match quarantineLoop (s.toBeReleased - s.released) s with
      | .ok s => afterSnapshot c fuelGrow size s
      | .err e s => .err e s
      | .stuck => .stuck
      | .panic => .panic := by
  unfold findBlockWithSpace afterSnapshot
  rfl

/-- **A detection after the snapshot commutes with the rest of the reservation.** -/
theorem afterSnapshot_rep (c : Cfg) (fuelGrow size B : Nat) (s : St) :
    afterSnapshot c fuelGrow size (rep B s) =
      (afterSnapshot c fuelGrow size s).mapSt (rep B) (fun p => (p.1, rep B p.2)) := by
  unfold afterSnapshot
  rw [growLoop_rep]
  cases growLoop c fuelGrow s with
  | ok s1 =>
    simp only [Res.mapSt]
    have h : (rep B s1).new = s1.new := rfl
    rw [h, rotateLoop_rep]
    cases rotateLoop c size (s1.new + 2) s1 with
    | ok s2 =>
      simp only [Res.mapSt]
      have h2 : (rep B s2).new = s2.new := rfl
      rw [h2]
      exact pickLoop_rep c size B _ s2
    | err e s2 => rfl
    | stuck => rfl
    | panic => rfl
  | err e s1 => rfl
  | stuck => rfl
  | panic => rfl

end BB.BlockMap
