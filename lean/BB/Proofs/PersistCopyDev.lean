import BB.Proofs.PersistCopyRec
/-!
# The copy phase: the data device
-/
namespace BB.Persist

/-- Held blocks with the same slot are the same block, so their objects are of one generation. -/
theorem gid_of_slot {w : World} (h : Inv w) {x y : Obj} (hx : x ∈ w.objs) (hy : y ∈ w.objs)
    (hhx : ∃ b ∈ held w.pbl w.zombies, b.gid = x.gid) (hhy : ∃ b ∈ held w.pbl w.zombies, b.gid = y.gid)
    (hs : x.slot = y.slot) : x.gid = y.gid := by
  obtain ⟨bx, hbx, gx⟩ := hhx
  obtain ⟨by', hby, gy⟩ := hhy
  have sx := h.obj.slotOk x hx bx hbx gx
  have sy := h.obj.slotOk y hy by' hby gy
  have hn : ((held w.pbl w.zombies).map (·.slot)).Nodup := (List.nodup_append.1 h.own.slots).1
  have : bx = by' := eq_of_map_nodup hn hbx hby (by rw [← sx, ← sy]; exact hs)
  rw [← gx, ← gy, this]

/-- The sector writes of the writer of `o`, given the objects after the update. -/
def copyWrites (c : Cfg) (objs' : List Obj) (o : Obj) : List SecW :=
  (secsOf c.ss o.off o.size).map fun s =>
    { slot := o.slot, sec := s,
      objs := (objs'.filter fun x => x.gid == o.gid && x.mine && x.copied && (secsOf c.ss x.off x.size).contains s).map (·.id) }

theorem mem_copyWrites {c : Cfg} {objs' : List Obj} {o : Obj} {y : SecW} (hy : y ∈ copyWrites c objs' o) :
    y.slot = o.slot ∧ y.sec ∈ secsOf c.ss o.off o.size ∧ y.covered = false ∧
    y.objs = (objs'.filter fun x => x.gid == o.gid && x.mine && x.copied && (secsOf c.ss x.off x.size).contains y.sec).map (·.id) := by
  unfold copyWrites at hy
  obtain ⟨s, hs, rfl⟩ := List.mem_map.1 hy
  exact ⟨rfl, hs, rfl, rfl⟩

theorem image_mem {c : Cfg} {objs' : List Obj} {gid s : Nat} {x : Obj} (hx : x ∈ objs') (h1 : x.gid = gid) (h2 : x.mine = true)
    (h3 : x.copied = true) (h4 : s ∈ secsOf c.ss x.off x.size) :
    x.id ∈ (objs'.filter fun x => x.gid == gid && x.mine && x.copied && (secsOf c.ss x.off x.size).contains s).map (·.id) := by
  refine List.mem_map.2 ⟨x, List.mem_filter.2 ⟨hx, ?_⟩, rfl⟩
  simp [h1, h2, h3, h4]

theorem image_of_mem {c : Cfg} {objs' : List Obj} {gid s id' : Nat}
    (h : id' ∈ (objs'.filter fun x => x.gid == gid && x.mine && x.copied && (secsOf c.ss x.off x.size).contains s).map (·.id)) :
    ∃ x ∈ objs', x.id = id' ∧ x.gid = gid ∧ x.mine = true ∧ x.copied = true ∧ s ∈ secsOf c.ss x.off x.size := by
  obtain ⟨x, hx, rfl⟩ := List.mem_map.1 h
  obtain ⟨hx1, hx2⟩ := List.mem_filter.1 hx
  simp only [Bool.and_eq_true, beq_iff_eq, List.contains_iff_mem] at hx2
  exact ⟨x, hx1, rfl, hx2.1.1.1, hx2.1.1.2, hx2.1.2, hx2.2⟩

/-- The own write of the copied object to sector `s`, and the later writes of the same writer. -/
theorem copyWrites_split {c : Cfg} {objs' : List Obj} {o : Obj} {s : Nat} (hs : s ∈ secsOf c.ss o.off o.size) :
    ∃ A x B, copyWrites c objs' o = A ++ x :: B ∧ x.at o.slot s = true ∧
      x.objs = (objs'.filter fun y => y.gid == o.gid && y.mine && y.copied && (secsOf c.ss y.off y.size).contains s).map (·.id) ∧
      ∀ y ∈ B, y.at o.slot s = false := by
  obtain ⟨l1, l2, hl, hm⟩ := map_split (fun t => (⟨o.slot, t,
      (objs'.filter fun x => x.gid == o.gid && x.mine && x.copied && (secsOf c.ss x.off x.size).contains t).map (·.id), false⟩ : SecW)) hs
  refine ⟨_, _, _, hm, by simp [SecW.at], rfl, ?_⟩
  intro y hy
  obtain ⟨s2, hs2, rfl⟩ := List.mem_map.1 hy
  have hn := secsOf_nodup c.ss o.off o.size
  rw [hl] at hn
  have : s2 ≠ s := by
    intro he; subst he
    have := (List.nodup_append.1 hn).2.1
    simp only [List.nodup_cons] at this
    exact this.1 hs2
  simp [SecW.at, this]

end BB.Persist
