import BB.Proofs.StoreGrows
/-! Per-operation `Grows` facts of the hierarchical CAS access (C10). -/
namespace BB.Store
open BB.Gen BB.Index BB.BlockMap

theorem leastSpecific_some {c : Cfg} {s : St} : ∀ {lks : List Nat} {lk : Nat} {l : Loc},
    leastSpecific c s lks = some (lk, l) → lk ∈ lks ∧ lookup c s lk = some l := by
  intro lks
  induction lks with
  | nil => intro lk l h; simp [leastSpecific] at h
  | cons k rest ih =>
    intro lk l h
    unfold leastSpecific at h
    cases hk : lookup c s k with
    | some l' =>
      rw [hk] at h
      simp at h
      obtain ⟨h1, h2⟩ := h
      subst h1; subst h2
      exact ⟨List.mem_cons_self, hk⟩
    | none =>
      rw [hk] at h
      obtain ⟨h1, h2⟩ := ih h
      exact ⟨List.mem_cons_of_mem _ h1, h2⟩

theorem lookup_live {c : Cfg} {s : St} {k : Nat} {l : Loc} (h : lookup c s k = some l) : s.thr ≤ l.blockIndex := by
  obtain ⟨_, _, _, _, _, hl⟩ := lookup_sound c s k l h
  exact hl

/-- End of an upload (space was reserved): writes the canonical key and the uploader's own lookup key,
and only if the data was ingested completely and matched the digest. -/
theorem grows_hierPutEnd {c : Cfg} {s : St} (h : SInv c s) (t : Ticket) (ck lk : Nat) (copied : Bool) :
    Grows c s (hierPutEnd c s t ck lk copied).2 (if copied then [ck, lk] else []) := by
  unfold hierPutEnd
  have h1 := grows_unpinTicket h t
  cases copied
  · simpa using h1
  · simp only [Bool.not_true, Bool.false_eq_true, if_false, if_true]
    cases hf : finalize c (unpinTicket s t) t [ck, lk] with
    | none => simpa using h1.mono (by simp)
    | some s' => simpa using h1.trans (grows_finalize h1.inv t [ck, lk] hf)

/-- End of the dedup branch of an upload: writes only the uploader's own lookup key, and only if the
uploader supplied the complete, valid content. -/
theorem grows_hierPutDedupEnd {c : Cfg} {s : St} (h : SInv c s) (ck lk : Nat) (copied : Bool) :
    Grows c s (hierPutDedupEnd c s ck lk copied).2 (if copied then [lk] else []) := by
  unfold hierPutDedupEnd
  cases copied
  · simpa using Grows.refl h
  · simp only [Bool.not_true, Bool.false_eq_true, if_false, if_true]
    cases hl : lookup c s ck with
    | none => simpa using (Grows.refl h).mono (by simp)
    | some cl => simpa using grows_indexPut h lk cl (lookup_live hl)

/-- What `Get`/`FindMissing` may write: only a lookup key that already resolved (the least specific
one found), never another instance name's key. -/
def Rewrites (c : Cfg) (s : St) (W : List Nat) : Prop := ∀ q ∈ W, lookup c s q ≠ none

theorem grows_syncFromCanonical {c : Cfg} {s : St} (h : SInv c s) (ck lk : Nat) (cl : Loc) (s' : St)
    (hs : syncFromCanonical c s ck lk = some (cl, s')) : Grows c s s' [lk] := by
  unfold syncFromCanonical at hs
  cases hl : lookup c s ck with
  | none => rw [hl] at hs; simp at hs
  | some cl' =>
    rw [hl] at hs
    simp only [] at hs
    split at hs
    · simp at hs
    · simp at hs
      obtain ⟨_, h2⟩ := hs
      subst h2
      exact grows_indexPut h lk cl' (lookup_live hl)

/-- What the first part of a hierarchical `Get` / `FindMissing` may do. -/
def BeginOK (c : Cfg) (s : St) (lks : List Nat) : Begin → Prop
  | .done _ s' => ∃ W, Grows c s s' W ∧ Rewrites c s W ∧ ∀ q ∈ W, q ∈ lks
  | .refresh _ src s' => Grows c s s' [] ∧ ∃ lk, leastSpecific c s lks = some (lk, src)
  | .broken => False

theorem beginOK_same {c : Cfg} {s : St} (h : SInv c s) (lks : List Nat) (r : String) : BeginOK c s lks (.done r s) :=
  ⟨[], Grows.refl h, by intro q hq; simp at hq, by intro q hq; simp at hq⟩

theorem beginOK_refreshPath {c : Cfg} {s : St} (h : SInv c s) (lks : List Nat) (ck lk : Nat) (l : Loc)
    (hls : leastSpecific c s lks = some (lk, l)) (r1 : Loc → St → String) (r2 : String → String) :
    BeginOK c s lks
      (match syncFromCanonical c s ck lk with
       | some (cl, s) => .done (r1 cl s) s
       | none =>
         match allocateForRefresh c s l with
         | .ok t s => .refresh t l s
         | .err e s => .done (r2 e) s
         | .broken => .broken) := by
  obtain ⟨hmem, hlk⟩ := leastSpecific_some hls
  cases hsy : syncFromCanonical c s ck lk with
  | some r =>
    obtain ⟨cl, s1⟩ := r
    refine ⟨[lk], grows_syncFromCanonical h ck lk cl s1 hsy, ?_, ?_⟩
    · intro q hq; simp at hq; subst hq; rw [hlk]; simp
    · intro q hq; simp at hq; subst hq; exact hmem
  | none =>
    simp only []
    have ha := grows_allocateForRefresh h l
    cases har : allocateForRefresh c s l with
    | ok t s1 => rw [har] at ha; exact ⟨ha, lk, hls⟩
    | err e s1 => rw [har] at ha; exact ⟨[], ha, by intro q hq; simp at hq, by intro q hq; simp at hq⟩
    | broken => rw [har] at ha; exact ha

theorem grows_hierGetBegin {c : Cfg} {s : St} (h : SInv c s) (lks : List Nat) (ck : Nat) :
    BeginOK c s lks (hierGetBegin c s lks ck) := by
  unfold hierGetBegin
  cases hls : leastSpecific c s lks with
  | none => exact beginOK_same h lks _
  | some p =>
    obtain ⟨lk, l⟩ := p
    simp only []
    by_cases hn : (!locNeedsRefresh s l) = true
    · simp only [hn, if_true]; exact beginOK_same h lks _
    · simp only [hn]
      exact beginOK_refreshPath h lks ck lk l hls (fun cl s1 => s!"data {showBytes (readLoc s1 cl)}") (fun e => s!"err {e}")

theorem grows_hierFindMissingBegin {c : Cfg} {s : St} (h : SInv c s) (lks : List Nat) (ck : Nat) :
    BeginOK c s lks (hierFindMissingBegin c s lks ck) := by
  unfold hierFindMissingBegin
  cases hls : leastSpecific c s lks with
  | none => exact beginOK_same h lks _
  | some p =>
    obtain ⟨lk, l⟩ := p
    simp only []
    by_cases hn : (!locNeedsRefresh s l) = true
    · simp only [hn, if_true]; exact beginOK_same h lks _
    · simp only [hn]
      exact beginOK_refreshPath h lks ck lk l hls (fun _ _ => "present") (fun e => s!"err {e}")

/-- End of a refresh: the copy is registered under the canonical key and under the lookup key that
was found - the same key, never a wider one. -/
theorem grows_hierRefreshEnd {c : Cfg} {s : St} (h : SInv c s) (t : Ticket) (src : Loc) (ck lk : Nat) :
    Grows c s (hierRefreshEnd c s t src ck lk).1 [ck, lk] := by
  have h1 := grows_refreshDone h t src
  have e : (hierRefreshEnd c s t src ck lk).1 =
      (match finalize c (refreshDone s t src) t [ck, lk] with | some s' => s' | none => refreshDone s t src) := by
    unfold hierRefreshEnd
    simp only []
    cases finalize c (refreshDone s t src) t [ck, lk] <;> rfl
  rw [e]
  cases hf : finalize c (refreshDone s t src) t [ck, lk] with
  | none => exact h1.mono (by simp)
  | some s' => simpa using h1.trans (grows_finalize h1.inv t [ck, lk] hf)

theorem grows_copyLoc {c : Cfg} {s : St} (h : SInv c s) (t : Ticket) (src : Loc) : Grows c s (copyLoc s t src) [] :=
  grows_write h t 0 _

end BB.Store
