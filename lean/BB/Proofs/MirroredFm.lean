import BB.Proofs.MirroredGetc
/-!
`findMissing` of the C11 model: the merge `diffInter`, the replication loop
`localMultiple`, and the operation itself.
-/
namespace BB.Mirrored

/-! ## `diffInter` (digest.GetDifferenceAndIntersection) -/

theorem diffInter_sub (a b : List Key) :
    (∀ x ∈ (diffInter a b).1, x ∈ a) ∧ (∀ x ∈ (diffInter a b).2.1, x ∈ a ∧ x ∈ b) ∧ (∀ x ∈ (diffInter a b).2.2, x ∈ b) := by
  induction a, b using diffInter.induct with
  | case1 b => simp [diffInter]
  | case2 x a => simp [diffInter]
  | case3 x a y b hlt ih =>
    rw [diffInter]; simp only [hlt, if_true]
    obtain ⟨h1, h2, h3⟩ := ih
    refine ⟨?_, ?_, ?_⟩
    · intro z hz; simp at hz; rcases hz with rfl | hz
      · simp
      · exact List.mem_cons_of_mem _ (h1 z hz)
    · intro z hz; exact ⟨List.mem_cons_of_mem _ (h2 z hz).1, (h2 z hz).2⟩
    · exact h3
  | case4 a y b hlt ih =>
    rw [diffInter]; simp only [Nat.lt_irrefl, if_false, if_true]
    obtain ⟨h1, h2, h3⟩ := ih
    refine ⟨?_, ?_, ?_⟩
    · intro z hz; exact List.mem_cons_of_mem _ (h1 z hz)
    · intro z hz; simp at hz; rcases hz with rfl | hz
      · simp
      · exact ⟨List.mem_cons_of_mem _ (h2 z hz).1, List.mem_cons_of_mem _ (h2 z hz).2⟩
    · intro z hz; exact List.mem_cons_of_mem _ (h3 z hz)
  | case5 x a y b hlt hne ih =>
    rw [diffInter]; simp only [hlt, hne, if_false]
    obtain ⟨h1, h2, h3⟩ := ih
    refine ⟨h1, ?_, ?_⟩
    · intro z hz; exact ⟨(h2 z hz).1, List.mem_cons_of_mem _ (h2 z hz).2⟩
    · intro z hz; simp at hz; rcases hz with rfl | hz
      · simp
      · exact List.mem_cons_of_mem _ (h3 z hz)

theorem not_mem_of_lt {x : Nat} {l : List Nat} (h : ∀ w ∈ l, x < w) : x ∉ l :=
  fun hx => Nat.lt_irrefl _ (h x hx)

theorem diffInter_mem (a b : List Key) (ha : a.Pairwise (· < ·)) (hb : b.Pairwise (· < ·)) :
    (∀ z, z ∈ (diffInter a b).1 ↔ z ∈ a ∧ z ∉ b) ∧ (∀ z, z ∈ (diffInter a b).2.1 ↔ z ∈ a ∧ z ∈ b) ∧
    (∀ z, z ∈ (diffInter a b).2.2 ↔ z ∈ b ∧ z ∉ a) := by
  induction a, b using diffInter.induct with
  | case1 b => simp [diffInter]
  | case2 x a => simp [diffInter]
  | case3 x a y b hlt ih =>
    rw [diffInter]; simp only [hlt, if_true]
    rw [List.pairwise_cons] at ha hb
    obtain ⟨h1, h2, h3⟩ := ih ha.2 (List.pairwise_cons.2 hb)
    have hxb : ∀ w ∈ (y :: b), x < w := by
      intro w hw; simp at hw; rcases hw with rfl | hw
      · exact hlt
      · exact Nat.lt_trans hlt (hb.1 w hw)
    have hx : x ∉ (y :: b) := not_mem_of_lt hxb
    refine ⟨fun z => ?_, fun z => ?_, fun z => ?_⟩
    · simp only [List.mem_cons, h1 z]; grind
    · simp only [h2 z, List.mem_cons]; grind
    · simp only [h3 z, List.mem_cons]; grind
  | case4 a y b hlt ih =>
    rw [diffInter]; simp only [Nat.lt_irrefl, if_false, if_true]
    rw [List.pairwise_cons] at ha hb
    obtain ⟨h1, h2, h3⟩ := ih ha.2 hb.2
    have hxa : y ∉ a := not_mem_of_lt ha.1
    have hxb : y ∉ b := not_mem_of_lt hb.1
    refine ⟨fun z => ?_, fun z => ?_, fun z => ?_⟩
    · simp only [h1 z, List.mem_cons]; grind
    · simp only [List.mem_cons, h2 z]; grind
    · simp only [h3 z, List.mem_cons]; grind
  | case5 x a y b hlt hne ih =>
    rw [diffInter]; simp only [hlt, hne, if_false]
    rw [List.pairwise_cons] at ha hb
    obtain ⟨h1, h2, h3⟩ := ih (List.pairwise_cons.2 ha) hb.2
    have hyx : y < x := Nat.lt_of_le_of_ne (Nat.le_of_not_lt hlt) (fun h => hne h.symm)
    have hya : ∀ w ∈ (x :: a), y < w := by
      intro w hw; simp at hw; rcases hw with rfl | hw
      · exact hyx
      · exact Nat.lt_trans hyx (ha.1 w hw)
    have hy : y ∉ (x :: a) := not_mem_of_lt hya
    refine ⟨fun z => ?_, fun z => ?_, fun z => ?_⟩
    · simp only [h1 z, List.mem_cons]; grind
    · simp only [h2 z, List.mem_cons]; grind
    · simp only [List.mem_cons, h3 z]; grind


/-! ## `localMultiple` (localBlobReplicator.ReplicateMultiple) -/

theorem localMultiple_cons (src snk : Side) (p : Pair) (k : Key) (ks : List Key) :
    localMultiple src snk p (k :: ks) =
      match (putOn snk (getOn src p k).1 k (getOn src p k).2).2 with
      | .error e => ((putOn snk (getOn src p k).1 k (getOn src p k).2).1, .error (e.wrap (.dig k)))
      | .ok _ => localMultiple src snk (putOn snk (getOn src p k).1 k (getOn src p k).2).1 ks := by
  rw [localMultiple]
  cases (putOn snk (getOn src p k).1 k (getOn src p k).2).2 <;> rfl

theorem localMultiple_adv (src snk : Side) (p : Pair) (ks : List Key) : Adv p (localMultiple src snk p ks).1 := by
  induction ks generalizing p with
  | nil => exact Adv.refl p
  | cons k ks ih =>
    have h1 : Adv p (putOn snk (getOn src p k).1 k (getOn src p k).2).1 :=
      (getOn_adv _ _ _).trans (putOn_adv _ _ _ _)
    rw [localMultiple_cons]
    cases (putOn snk (getOn src p k).1 k (getOn src p k).2).2 with
    | error e => exact h1
    | ok u => exact h1.trans (ih _)

theorem localMultiple_round (src snk : Side) (p : Pair) (ks : List Key) : (localMultiple src snk p ks).1.round = p.round := by
  induction ks generalizing p with
  | nil => rfl
  | cons k ks ih =>
    rw [localMultiple_cons]
    cases (putOn snk (getOn src p k).1 k (getOn src p k).2).2 with
    | error e => simp
    | ok u => simp only []; rw [ih]; simp

/-- The state after one iteration `sink.Put(k, source.Get(k))`. -/
def iter (src snk : Side) (p : Pair) (k : Key) : Pair × Res Unit := putOn snk (getOn src p k).1 k (getOn src p k).2

theorem iter_faultAt_snk {src snk : Side} (hne : src ≠ snk) (p : Pair) (k : Key) (m : Meth) :
    ((getOn src p k).1.rep snk).faultAt m = (p.rep snk).faultAt m := by
  rw [getOn_fst, rep_setRep_ne _ _ (Ne.symm hne)]

theorem iter_src_store {src snk : Side} (hne : src ≠ snk) (p : Pair) (k : Key) :
    ((iter src snk p k).1.rep src).store = (p.rep src).store := by
  unfold iter; rw [putOn_store_ne _ _ _ _ _ hne, getOn_store]

theorem iter_snk_store {src snk : Side} (hne : src ≠ snk) (p : Pair) (k z : Key) :
    ((iter src snk p k).1.rep snk).store z =
      match (p.rep snk).faultAt .put, (getOn src p k).2 with
      | none, .ok v => if z = k then some v else (p.rep snk).store z
      | _, _ => (p.rep snk).store z := by
  unfold iter; rw [putOn_store_same, iter_faultAt_snk hne, getOn_store]
  split <;> simp_all

theorem localMultiple_cons' (src snk : Side) (p : Pair) (k : Key) (ks : List Key) :
    localMultiple src snk p (k :: ks) =
      match (iter src snk p k).2 with
      | .error e => ((iter src snk p k).1, .error (e.wrap (.dig k)))
      | .ok _ => localMultiple src snk (iter src snk p k).1 ks := localMultiple_cons src snk p k ks

theorem iter_ok {src snk : Side} (hne : src ≠ snk) (p : Pair) (k : Key) (h : (iter src snk p k).2 = .ok ()) :
    (p.rep snk).faultAt .put = none ∧ (p.rep src).faultAt .get = none ∧
      ∃ v, (p.rep src).store k = some v ∧ (getOn src p k).2 = .ok v := by
  unfold iter at h
  rw [putOn_snd, iter_faultAt_snk hne] at h
  rw [getOn_snd] at h ⊢
  cases hp : (p.rep snk).faultAt .put <;> cases hg : (p.rep src).faultAt .get <;>
    cases hs : (p.rep src).store k <;> simp_all

/-- A replication loop that succeeds copied every listed object from the
source (which holds them all) into the sink and touched nothing else. -/
theorem localMultiple_ok {src snk : Side} (hne : src ≠ snk) (p : Pair) (ks : List Key)
    (h : (localMultiple src snk p ks).2 = .ok ()) :
    ((localMultiple src snk p ks).1.rep src).store = (p.rep src).store ∧
    (∀ z, ((localMultiple src snk p ks).1.rep snk).store z = if z ∈ ks then (p.rep src).store z else (p.rep snk).store z) ∧
    (∀ z ∈ ks, (p.rep src).store z ≠ none) := by
  induction ks generalizing p with
  | nil => simp [localMultiple]
  | cons k ks ih =>
    rw [localMultiple_cons'] at h ⊢
    cases hi : (iter src snk p k).2 with
    | error e => simp [hi] at h
    | ok u =>
      simp only [hi] at h ⊢
      obtain ⟨hp, hg, v, hv, hgv⟩ := iter_ok hne p k hi
      obtain ⟨i1, i2, i3⟩ := ih _ h
      refine ⟨?_, ?_, ?_⟩
      · rw [i1, iter_src_store hne]
      · intro z
        rw [i2 z, iter_src_store hne, iter_snk_store hne, hp, hgv]
        by_cases hz : z = k
        · subst hz; by_cases hm : z ∈ ks <;> simp [hm, hv]
        · by_cases hm : z ∈ ks <;> simp [hm, hz]
      · intro z hz
        rcases List.mem_cons.1 hz with rfl | hz
        · simp [hv]
        · have := i3 z hz; rwa [iter_src_store hne] at this

theorem iter_adv (src snk : Side) (p : Pair) (k : Key) : Adv p (iter src snk p k).1 :=
  (getOn_adv _ _ _).trans (putOn_adv _ _ _ _)

theorem iter_snk_store_or {src snk : Side} (hne : src ≠ snk) (p : Pair) (k z : Key) :
    ((iter src snk p k).1.rep snk).store z = (p.rep snk).store z ∨
    (z = k ∧ ((iter src snk p k).1.rep snk).store z = (p.rep src).store k ∧ (p.rep src).store k ≠ none) := by
  rw [iter_snk_store hne, getOn_snd]
  cases (p.rep snk).faultAt .put <;> cases (p.rep src).faultAt .get <;> cases (p.rep src).store k <;>
    by_cases hz : z = k <;> simp [hz]

theorem iter_error {src snk : Side} (hne : src ≠ snk) (p : Pair) (k : Key) (e : Err) (h : (iter src snk p k).2 = .error e) :
    e.tags = [] ∧ (e.fromFault p ∨ (e.code = nf ∧ e.origin = .absent src k ∧ (p.rep src).store k = none)) := by
  unfold iter at h
  rw [putOn_snd, iter_faultAt_snk hne, getOn_snd] at h
  have hc : ((getOn src p k).1.rep snk).cnt = (p.rep snk).cnt := by
    rw [getOn_fst, rep_setRep_ne _ _ (Ne.symm hne)]
  rw [hc] at h
  obtain ⟨code, tags, origin⟩ := e
  rw [eq_comm] at h
  unfold Err.fromFault
  cases hp : (p.rep snk).faultAt .put <;> cases hg : (p.rep src).faultAt .get <;>
    cases hs : (p.rep src).store k <;> simp only [hp, hg, hs] at h <;>
    simp only [Replica.faultAt] at * <;> simp_all

theorem localMultiple_frame {src snk : Side} (hne : src ≠ snk) (p : Pair) (ks : List Key) :
    ((localMultiple src snk p ks).1.rep src).store = (p.rep src).store ∧
    ∀ z, ((localMultiple src snk p ks).1.rep snk).store z = (p.rep snk).store z ∨
      (z ∈ ks ∧ ((localMultiple src snk p ks).1.rep snk).store z = (p.rep src).store z ∧ (p.rep src).store z ≠ none) := by
  induction ks generalizing p with
  | nil => simp [localMultiple]
  | cons k ks ih =>
    rw [localMultiple_cons']
    cases hi : (iter src snk p k).2 with
    | error e =>
      refine ⟨iter_src_store hne p k, fun z => ?_⟩
      rcases iter_snk_store_or hne p k z with h | ⟨rfl, h1, h2⟩
      · exact Or.inl h
      · exact Or.inr ⟨by simp, h1, h2⟩
    | ok u =>
      simp only []
      obtain ⟨i1, i2⟩ := ih (iter src snk p k).1
      refine ⟨by rw [i1, iter_src_store hne], fun z => ?_⟩
      rcases i2 z with h | ⟨hm, h1, h2⟩
      · rw [h]
        rcases iter_snk_store_or hne p k z with h | ⟨rfl, h1, h2⟩
        · exact Or.inl h
        · exact Or.inr ⟨by simp, h1, h2⟩
      · rw [iter_src_store hne] at h1 h2
        exact Or.inr ⟨List.mem_cons_of_mem _ hm, h1, h2⟩

theorem localMultiple_error {src snk : Side} (hne : src ≠ snk) (p : Pair) (ks : List Key) (e : Err)
    (h : (localMultiple src snk p ks).2 = .error e) :
    ∃ k, k ∈ ks ∧ e.tags = [.dig k] ∧
      (e.fromFault p ∨ (e.code = nf ∧ e.origin = .absent src k ∧ (p.rep src).store k = none)) := by
  induction ks generalizing p with
  | nil => simp [localMultiple] at h
  | cons k ks ih =>
    rw [localMultiple_cons'] at h
    cases hi : (iter src snk p k).2 with
    | error e0 =>
      simp only [hi] at h
      injection h with h
      subst h
      obtain ⟨t, r⟩ := iter_error hne p k e0 hi
      exact ⟨k, by simp, by simp [Err.wrap, t], r⟩
    | ok u =>
      simp only [hi] at h
      obtain ⟨k', hm, t, r⟩ := ih _ h
      refine ⟨k', List.mem_cons_of_mem _ hm, t, ?_⟩
      rcases r with r | ⟨r1, r2, r3⟩
      · exact Or.inl (Err.fromFault_of_adv (iter_adv src snk p k) r)
      · exact Or.inr ⟨r1, r2, by rwa [iter_src_store hne] at r3⟩

theorem localMultiple_quiet {src snk : Side} (hne : src ≠ snk) (p : Pair) (ks : List Key) (hq : Quiet p)
    (hs : ∀ z ∈ ks, (p.rep src).store z ≠ none) : (localMultiple src snk p ks).2 = .ok () := by
  induction ks generalizing p with
  | nil => rfl
  | cons k ks ih =>
    rw [localMultiple_cons']
    have hk : (iter src snk p k).2 = .ok () := by
      unfold iter
      rw [putOn_snd, iter_faultAt_snk hne, getOn_snd, hq.faultAt, hq.faultAt]
      cases hv : (p.rep src).store k with
      | none => exact absurd hv (hs k (by simp))
      | some v => rfl
    simp only [hk]
    apply ih _ (hq.adv (iter_adv src snk p k))
    intro z hz
    rw [iter_src_store hne]
    exact hs z (List.mem_cons_of_mem _ hz)

/-! ## `findMissing` -/

/-- What replica `s` reports missing among `ks`. -/
def miss (p : Pair) (s : Side) (ks : List Key) : List Key := ks.filter fun k => ((p.rep s).store k).isNone

theorem mem_miss (p : Pair) (s : Side) (ks : List Key) (z : Key) : z ∈ miss p s ks ↔ z ∈ ks ∧ (p.rep s).store z = none := by
  simp [miss, List.mem_filter]

theorem miss_sorted (p : Pair) (s : Side) (ks : List Key) (h : ks.Pairwise (· < ·)) : (miss p s ks).Pairwise (· < ·) :=
  h.sublist List.filter_sublist

/-- The state after the two `FindMissing` calls. -/
def afterFm (p : Pair) (ks : List Key) : Pair := (fmOn .B (fmOn .A p ks).1 ks).1

theorem afterFm_store (p : Pair) (ks : List Key) (t : Side) : ((afterFm p ks).rep t).store = (p.rep t).store := by
  unfold afterFm; rw [fmOn_store, fmOn_store]

theorem afterFm_adv (p : Pair) (ks : List Key) : Adv p (afterFm p ks) := (fmOn_adv _ _ _).trans (fmOn_adv _ _ _)

theorem afterFm_round (p : Pair) (ks : List Key) : (afterFm p ks).round = p.round := by
  unfold afterFm; rw [fmOn_round, fmOn_round]

theorem faultAt_B_after_fmA (p : Pair) (ks : List Key) (m : Meth) :
    ((fmOn .A p ks).1.rep .B).faultAt m = (p.rep .B).faultAt m := by
  rw [fmOn_fst, rep_setRep_ne _ _ (by decide)]

/-- The replication phase of `FindMissing`, from the state after the two calls. -/
def syncPhase (c : Cfg) (q : Pair) (ma mb : List Key) (pref2 : Side) : Pair × Res (List Key) :=
  let d := diffInter ma mb
  let r1 := replMultiple c.ab .A .B q d.2.2
  let r2 := replMultiple c.ba .B .A r1.1 d.1
  match join2 pref2 (syncErr .A r1.2) (syncErr .B r2.2) with
  | .ok _ => (r2.1, .ok d.2.1)
  | .error e => (r2.1, .error e)

theorem findMissing_eq (c : Cfg) (p : Pair) (ks : List Key) (pref1 pref2 : Side) :
    findMissing c p ks pref1 pref2 =
      match (p.rep .A).faultAt .fm, (p.rep .B).faultAt .fm with
      | none, none => syncPhase c (afterFm p ks) (miss p .A ks) (miss p .B ks) pref2
      | some ca, none => (afterFm p ks, .error ⟨ca, [.backend .A], .fault .A .fm ((p.rep .A).cnt .fm)⟩)
      | none, some cb => (afterFm p ks, .error ⟨cb, [.backend .B], .fault .B .fm ((p.rep .B).cnt .fm)⟩)
      | some ca, some cb =>
        match pref1 with
        | .A => (afterFm p ks, .error ⟨ca, [.backend .A], .fault .A .fm ((p.rep .A).cnt .fm)⟩)
        | .B => (afterFm p ks, .error ⟨cb, [.backend .B], .fault .B .fm ((p.rep .B).cnt .fm)⟩) := by
  unfold findMissing
  simp only [fmOn_snd, faultAt_B_after_fmA]
  have hc : ((fmOn .A p ks).1.rep .B).cnt = (p.rep .B).cnt := by rw [fmOn_fst, rep_setRep_ne _ _ (by decide)]
  have hs : ((fmOn .A p ks).1.rep .B).store = (p.rep .B).store := fmOn_store _ _ _ _
  rw [hc, hs]
  cases (p.rep .A).faultAt .fm with
  | none =>
    cases (p.rep .B).faultAt .fm with
    | none => rfl
    | some cb => cases pref1 <;> simp [afterFm, join2, wrapRes, Err.wrap]
  | some ca =>
    cases (p.rep .B).faultAt .fm with
    | none => cases pref1 <;> simp [afterFm, join2, wrapRes, Err.wrap]
    | some cb => cases pref1 <;> simp [afterFm, join2, wrapRes, Err.wrap]

/-! ## `replMultiple`: the loop or nothing -/

theorem replMultiple_adv (st : Strat) (src snk : Side) (p : Pair) (ks : List Key) : Adv p (replMultiple st src snk p ks).1 := by
  cases st with
  | noop => exact Adv.refl p
  | «local» => exact localMultiple_adv src snk p ks

theorem replMultiple_round (st : Strat) (src snk : Side) (p : Pair) (ks : List Key) :
    (replMultiple st src snk p ks).1.round = p.round := by
  cases st with
  | noop => rfl
  | «local» => exact localMultiple_round src snk p ks

theorem replMultiple_ok {src snk : Side} (hne : src ≠ snk) (st : Strat) (p : Pair) (ks : List Key)
    (h : (replMultiple st src snk p ks).2 = .ok ()) :
    ((replMultiple st src snk p ks).1.rep src).store = (p.rep src).store ∧
    (∀ z, ((replMultiple st src snk p ks).1.rep snk).store z =
      if st = .local ∧ z ∈ ks then (p.rep src).store z else (p.rep snk).store z) ∧
    (st = .local → ∀ z ∈ ks, (p.rep src).store z ≠ none) := by
  cases st with
  | noop => simp [replMultiple]
  | «local» =>
    obtain ⟨h1, h2, h3⟩ := localMultiple_ok hne p ks h
    exact ⟨h1, fun z => by rw [show replMultiple .local src snk p ks = localMultiple src snk p ks from rfl, h2 z]; simp,
      fun _ => h3⟩

theorem replMultiple_frame {src snk : Side} (hne : src ≠ snk) (st : Strat) (p : Pair) (ks : List Key) :
    ((replMultiple st src snk p ks).1.rep src).store = (p.rep src).store ∧
    ∀ z, ((replMultiple st src snk p ks).1.rep snk).store z = (p.rep snk).store z ∨
      (z ∈ ks ∧ ((replMultiple st src snk p ks).1.rep snk).store z = (p.rep src).store z ∧ (p.rep src).store z ≠ none) := by
  cases st with
  | noop => simp [replMultiple]
  | «local» => exact localMultiple_frame hne p ks

theorem replMultiple_error {src snk : Side} (hne : src ≠ snk) (st : Strat) (p : Pair) (ks : List Key) (e : Err)
    (h : (replMultiple st src snk p ks).2 = .error e) :
    ∃ k, k ∈ ks ∧ e.tags = [.dig k] ∧
      (e.fromFault p ∨ (e.code = nf ∧ e.origin = .absent src k ∧ (p.rep src).store k = none)) := by
  cases st with
  | noop => simp [replMultiple] at h
  | «local» => exact localMultiple_error hne p ks e h

theorem replMultiple_quiet {src snk : Side} (hne : src ≠ snk) (st : Strat) (p : Pair) (ks : List Key) (hq : Quiet p)
    (hs : ∀ z ∈ ks, (p.rep src).store z ≠ none) : (replMultiple st src snk p ks).2 = .ok () := by
  cases st with
  | noop => rfl
  | «local» => exact localMultiple_quiet hne p ks hq hs

theorem syncErr_ok {src : Side} {r : Res Unit} (h : syncErr src r = .ok ()) : r = .ok () := by
  cases r with
  | ok u => rfl
  | error e => simp only [syncErr] at h; split at h <;> simp at h

theorem syncErr_error {src : Side} {r : Res Unit} {e : Err} (h : syncErr src r = .error e) :
    ∃ e0, r = .error e0 ∧
      ((e0.code = nf ∧ e = e0.wrapCode internal (.incons src)) ∨ (e0.code ≠ nf ∧ e = e0.wrap (.sync src))) := by
  cases r with
  | ok u => simp [syncErr] at h
  | error e0 =>
    unfold syncErr at h
    by_cases hc : e0.code = nf
    · simp only [hc, if_true] at h; injection h with h; exact ⟨e0, rfl, Or.inl ⟨hc, h.symm⟩⟩
    · simp only [hc, if_false] at h; injection h with h; exact ⟨e0, rfl, Or.inr ⟨hc, h.symm⟩⟩

/-! ## The replication phase -/

theorem syncPhase_fst (c : Cfg) (q : Pair) (ma mb : List Key) (pref2 : Side) :
    (syncPhase c q ma mb pref2).1 =
      (replMultiple c.ba .B .A (replMultiple c.ab .A .B q (diffInter ma mb).2.2).1 (diffInter ma mb).1).1 := by
  unfold syncPhase
  simp only []
  split <;> rfl

theorem syncPhase_snd (c : Cfg) (q : Pair) (ma mb : List Key) (pref2 : Side) :
    (syncPhase c q ma mb pref2).2 =
      match join2 pref2 (syncErr .A (replMultiple c.ab .A .B q (diffInter ma mb).2.2).2)
        (syncErr .B (replMultiple c.ba .B .A (replMultiple c.ab .A .B q (diffInter ma mb).2.2).1 (diffInter ma mb).1).2) with
      | .ok _ => .ok (diffInter ma mb).2.1
      | .error e => .error e := by
  unfold syncPhase
  simp only []
  split <;> rfl

theorem syncPhase_ok (c : Cfg) (q : Pair) (ma mb : List Key) (pref2 : Side) (l : List Key)
    (h : (syncPhase c q ma mb pref2).2 = .ok l) :
    l = (diffInter ma mb).2.1 ∧
    (replMultiple c.ab .A .B q (diffInter ma mb).2.2).2 = .ok () ∧
    (replMultiple c.ba .B .A (replMultiple c.ab .A .B q (diffInter ma mb).2.2).1 (diffInter ma mb).1).2 = .ok () := by
  rw [syncPhase_snd] at h
  cases hj : join2 pref2 (syncErr .A (replMultiple c.ab .A .B q (diffInter ma mb).2.2).2)
      (syncErr .B (replMultiple c.ba .B .A (replMultiple c.ab .A .B q (diffInter ma mb).2.2).1 (diffInter ma mb).1).2) with
  | error e => simp [hj] at h
  | ok u =>
    simp only [hj] at h
    injection h with h
    obtain ⟨h1, h2⟩ := join2_ok hj
    exact ⟨h.symm, syncErr_ok h1, syncErr_ok h2⟩

/-- After a successful replication phase: B received (with `local` A→B) the
objects of the third list from A, then A received (with `local` B→A) the
objects of the first list from B. -/
theorem syncPhase_ok_stores (c : Cfg) (q : Pair) (ma mb : List Key) (pref2 : Side) (l : List Key)
    (h : (syncPhase c q ma mb pref2).2 = .ok l) :
    (∀ z, (((syncPhase c q ma mb pref2).1).rep .B).store z =
      if c.ab = .local ∧ z ∈ (diffInter ma mb).2.2 then (q.rep .A).store z else (q.rep .B).store z) ∧
    (∀ z, (((syncPhase c q ma mb pref2).1).rep .A).store z =
      if c.ba = .local ∧ z ∈ (diffInter ma mb).1 then
        (if c.ab = .local ∧ z ∈ (diffInter ma mb).2.2 then (q.rep .A).store z else (q.rep .B).store z)
      else (q.rep .A).store z) ∧
    (c.ab = .local → ∀ z ∈ (diffInter ma mb).2.2, (q.rep .A).store z ≠ none) := by
  obtain ⟨_, h1, h2⟩ := syncPhase_ok c q ma mb pref2 l h
  obtain ⟨a1, a2, a3⟩ := replMultiple_ok (show Side.A ≠ Side.B by decide) c.ab q _ h1
  obtain ⟨b1, b2, _⟩ := replMultiple_ok (show Side.B ≠ Side.A by decide) c.ba _ _ h2
  rw [syncPhase_fst]
  refine ⟨fun z => ?_, fun z => ?_, a3⟩
  · rw [b1, a2 z]
  · rw [b2 z, a2 z, a1]

theorem findMissing_ok (c : Cfg) (p : Pair) (ks : List Key) (pref1 pref2 : Side) (l : List Key)
    (h : (findMissing c p ks pref1 pref2).2 = .ok l) :
    (p.rep .A).faultAt .fm = none ∧ (p.rep .B).faultAt .fm = none ∧
    findMissing c p ks pref1 pref2 = syncPhase c (afterFm p ks) (miss p .A ks) (miss p .B ks) pref2 := by
  rw [findMissing_eq] at h ⊢
  cases ha : (p.rep .A).faultAt .fm <;> cases hb : (p.rep .B).faultAt .fm <;> simp only [ha, hb] at h ⊢
  · exact ⟨trivial, trivial, trivial⟩
  · simp at h
  · simp at h
  · cases pref1 <;> simp at h

theorem mem_onlyA (p : Pair) (ks : List Key) (hs : ks.Pairwise (· < ·)) (z : Key) :
    z ∈ (diffInter (miss p .A ks) (miss p .B ks)).1 ↔ z ∈ ks ∧ (p.rep .A).store z = none ∧ (p.rep .B).store z ≠ none := by
  rw [(diffInter_mem _ _ (miss_sorted p .A ks hs) (miss_sorted p .B ks hs)).1 z, mem_miss, mem_miss]
  constructor
  · intro ⟨⟨h1, h2⟩, h3⟩; exact ⟨h1, h2, fun h => h3 ⟨h1, h⟩⟩
  · intro ⟨h1, h2, h3⟩; exact ⟨⟨h1, h2⟩, fun h => h3 h.2⟩

theorem mem_both (p : Pair) (ks : List Key) (hs : ks.Pairwise (· < ·)) (z : Key) :
    z ∈ (diffInter (miss p .A ks) (miss p .B ks)).2.1 ↔ z ∈ ks ∧ (p.rep .A).store z = none ∧ (p.rep .B).store z = none := by
  rw [(diffInter_mem _ _ (miss_sorted p .A ks hs) (miss_sorted p .B ks hs)).2.1 z, mem_miss, mem_miss]
  constructor
  · intro ⟨⟨h1, h2⟩, _, h3⟩; exact ⟨h1, h2, h3⟩
  · intro ⟨h1, h2, h3⟩; exact ⟨⟨h1, h2⟩, h1, h3⟩

theorem mem_onlyB (p : Pair) (ks : List Key) (hs : ks.Pairwise (· < ·)) (z : Key) :
    z ∈ (diffInter (miss p .A ks) (miss p .B ks)).2.2 ↔ z ∈ ks ∧ (p.rep .B).store z = none ∧ (p.rep .A).store z ≠ none := by
  rw [(diffInter_mem _ _ (miss_sorted p .A ks hs) (miss_sorted p .B ks hs)).2.2 z, mem_miss, mem_miss]
  constructor
  · intro ⟨⟨h1, h2⟩, h3⟩; exact ⟨h1, h2, fun h => h3 ⟨h1, h⟩⟩
  · intro ⟨h1, h2, h3⟩; exact ⟨⟨h1, h2⟩, fun h => h3 h.2⟩

theorem findMissing_quiet (c : Cfg) (p : Pair) (ks : List Key) (pref1 pref2 : Side)
    (hs : ks.Pairwise (· < ·)) (hq : Quiet p) :
    (findMissing c p ks pref1 pref2).2 = .ok (diffInter (miss p .A ks) (miss p .B ks)).2.1 := by
  rw [findMissing_eq, hq.faultAt, hq.faultAt]
  simp only []
  rw [syncPhase_snd]
  have hqa : Quiet (afterFm p ks) := hq.adv (afterFm_adv p ks)
  have h1 : (replMultiple c.ab .A .B (afterFm p ks) (diffInter (miss p .A ks) (miss p .B ks)).2.2).2 = .ok () := by
    apply replMultiple_quiet (by decide) _ _ _ hqa
    intro z hz
    rw [afterFm_store]
    exact ((mem_onlyB p ks hs z).1 hz).2.2
  have h2 : (replMultiple c.ba .B .A (replMultiple c.ab .A .B (afterFm p ks) (diffInter (miss p .A ks) (miss p .B ks)).2.2).1
      (diffInter (miss p .A ks) (miss p .B ks)).1).2 = .ok () := by
    apply replMultiple_quiet (by decide) _ _ _ (hqa.adv (replMultiple_adv _ _ _ _ _))
    intro z hz
    have hb : (p.rep .B).store z ≠ none := ((mem_onlyA p ks hs z).1 hz).2.2
    rcases (replMultiple_frame (show Side.A ≠ Side.B by decide) c.ab (afterFm p ks) _).2 z with h | ⟨_, h, h'⟩
    · rw [h, afterFm_store]; exact hb
    · rw [h]; exact h'
  rw [h1, h2]
  rfl

/-- The shapes of a replication-phase error. -/
def SyncNamed (p : Pair) (ks : List Key) (e : Err) : Prop :=
  ∃ src k, k ∈ ks ∧
    ((e.tags = [.sync src, .dig k] ∧ e.code ≠ nf ∧ e.fromFault p) ∨
     (e.tags = [.incons src, .dig k] ∧ e.code = internal ∧
       (e.fromFault p ∨ (e.origin = .absent src k ∧ (p.rep src).store k = none))))

theorem syncErr_named {src snk : Side} (hne : src ≠ snk) (st : Strat) (p q : Pair) (a : Adv p q)
    (hstore : ∀ k, (q.rep src).store k = none → (p.rep src).store k = none)
    (ks sub : List Key) (hsub : ∀ z ∈ sub, z ∈ ks) (e : Err)
    (h : syncErr src (replMultiple st src snk q sub).2 = .error e) : SyncNamed p ks e := by
  obtain ⟨e0, h0, hc⟩ := syncErr_error h
  obtain ⟨k, hk, ht, hr⟩ := replMultiple_error hne st q sub e0 h0
  refine ⟨src, k, hsub k hk, ?_⟩
  rcases hc with ⟨hc, rfl⟩ | ⟨hc, rfl⟩
  · right
    refine ⟨by simp [Err.wrapCode, ht], rfl, ?_⟩
    rcases hr with hr | ⟨_, ho, hst⟩
    · left
      have := Err.fromFault_of_adv a hr
      unfold Err.fromFault at this ⊢
      simp only [Err.wrapCode]
      cases hor : e0.origin with
      | absent s k' => simp [hor] at this
      | fault s m i =>
        simp only [hor] at this ⊢
        obtain ⟨h1, c', h2, h3⟩ := this
        refine ⟨h1, c', h2, Or.inr ⟨?_, trivial⟩⟩
        rcases h3 with h3 | ⟨h3, _⟩
        · rw [← h3]; exact hc
        · exact h3
    · right; exact ⟨ho, hstore k hst⟩
  · left
    refine ⟨by simp [Err.wrap, ht], hc, ?_⟩
    rcases hr with hr | ⟨hnf, _, _⟩
    · exact Err.fromFault_wrap _ (Err.fromFault_of_adv a hr)
    · exact absurd hnf hc

theorem onlyB_sub (p : Pair) (ks : List Key) : ∀ z ∈ (diffInter (miss p .A ks) (miss p .B ks)).2.2, z ∈ ks :=
  fun z hz => ((mem_miss p .B ks z).1 ((diffInter_sub _ _).2.2 z hz)).1

theorem onlyA_sub (p : Pair) (ks : List Key) : ∀ z ∈ (diffInter (miss p .A ks) (miss p .B ks)).1, z ∈ ks :=
  fun z hz => ((mem_miss p .A ks z).1 ((diffInter_sub _ _).1 z hz)).1

theorem findMissing_error (c : Cfg) (p : Pair) (ks : List Key) (pref1 pref2 : Side) (e : Err)
    (h : (findMissing c p ks pref1 pref2).2 = .error e) :
    (∃ s, e = ⟨e.code, [.backend s], .fault s .fm ((p.rep s).cnt .fm)⟩ ∧ (p.rep s).faultAt .fm = some e.code) ∨
    SyncNamed p ks e := by
  rw [findMissing_eq] at h
  cases ha : (p.rep .A).faultAt .fm with
  | some ca =>
    cases hb : (p.rep .B).faultAt .fm with
    | some cb =>
      simp only [ha, hb] at h
      cases pref1 <;> simp only [] at h <;> injection h with h <;> subst h
      · exact Or.inl ⟨.A, rfl, ha⟩
      · exact Or.inl ⟨.B, rfl, hb⟩
    | none =>
      simp only [ha, hb] at h
      injection h with h; subst h
      exact Or.inl ⟨.A, rfl, ha⟩
  | none =>
    cases hb : (p.rep .B).faultAt .fm with
    | some cb =>
      simp only [ha, hb] at h
      injection h with h; subst h
      exact Or.inl ⟨.B, rfl, hb⟩
    | none =>
      simp only [ha, hb] at h
      rw [syncPhase_snd] at h
      right
      cases hj : join2 pref2 (syncErr .A (replMultiple c.ab .A .B (afterFm p ks) (diffInter (miss p .A ks) (miss p .B ks)).2.2).2)
          (syncErr .B (replMultiple c.ba .B .A (replMultiple c.ab .A .B (afterFm p ks) (diffInter (miss p .A ks) (miss p .B ks)).2.2).1
            (diffInter (miss p .A ks) (miss p .B ks)).1).2) with
      | ok u => simp [hj] at h
      | error e' =>
        simp only [hj] at h
        injection h with h; subst h
        rcases join2_error hj with h1 | h2
        · exact syncErr_named (by decide) c.ab p _ (afterFm_adv p ks) (fun k hk => by rwa [afterFm_store] at hk)
            ks _ (onlyB_sub p ks) _ h1
        · refine syncErr_named (by decide) c.ba p _ ((afterFm_adv p ks).trans (replMultiple_adv _ _ _ _ _)) ?_
            ks _ (onlyA_sub p ks) _ h2
          intro k hk
          rcases (replMultiple_frame (show Side.A ≠ Side.B by decide) c.ab (afterFm p ks) _).2 k with hf | ⟨_, hf, hf'⟩
          · rw [hf, afterFm_store] at hk; exact hk
          · rw [hf] at hk; exact absurd hk hf'

end BB.Mirrored
