import BB.Model.CachingDedup
/-!
Invariant of the deduplicating replicator protocol (`BB.Caching.dstep`) and its preservation
by every step.  Used by `BB.Props.C17` for `C17_dedup_mutex` and `C17_dedup_success_justified`.
-/
namespace BB.Caching

/-- A caller in its leader phase for record `r`. -/
def Leader (s : DState) (i : Nat) (c : DCaller) (r : Nat) : Prop :=
  ∃ k rest, c.todo = k :: rest ∧ s.inFlight k = some r ∧ (s.regs r).owner = i ∧
    (s.regs r).outcome = none ∧ c.tStart ≤ (s.regs r).tReg ∧ (s.regs r).tReg ≤ s.now

/-- A witness `(k, r, t)`: record `r` is for `k`, ended well, and was registered and not yet
deregistered at instant `t` of the caller's call. -/
def WitOk (s : DState) (c : DCaller) (w : Key × Nat × Nat) : Prop :=
  w.2.1 < s.nregs ∧ (s.regs w.2.1).key = w.1 ∧ (∃ o, (s.regs w.2.1).outcome = some o ∧ o.isOk = true) ∧
    c.tStart ≤ w.2.2 ∧ w.2.2 ≤ c.tEnd ∧ (s.regs w.2.1).tReg ≤ w.2.2 ∧
    ∀ td, (s.regs w.2.1).tDereg = some td → w.2.2 ≤ td

def PcInv (s : DState) (i : Nat) (c : DCaller) : DPc → Prop
  | .enter => c.todo ≠ []
  | .wait r => ∃ k rest, c.todo = k :: rest ∧ r < s.nregs ∧ (s.regs r).key = k ∧
      (s.regs r).tReg ≤ c.seen ∧ c.tStart ≤ c.seen ∧ c.seen ≤ s.now ∧
      ∀ td, (s.regs r).tDereg = some td → c.seen ≤ td
  | .sink r => Leader s i c r
  | .copy r => Leader s i c r
  | .dereg r _ => Leader s i c r
  | .publish r _ => ∃ k rest, c.todo = k :: rest ∧ r < s.nregs ∧ (s.regs r).key = k ∧
      (s.regs r).owner = i ∧ (s.regs r).outcome = none ∧
      ∃ td, (s.regs r).tDereg = some td ∧ (s.regs r).tReg ≤ td ∧ c.tStart ≤ td ∧ td ≤ s.now
  | .done none => c.todo = []
  | .done (some _) => True

structure CInv (s : DState) (i : Nat) (c : DCaller) : Prop where
  tStart : c.tStart ≤ s.now
  tEnd : c.tEnd ≤ s.now
  cover : c.wit.map (·.1) ++ c.todo = c.digests
  wit : ∀ w ∈ c.wit, WitOk s c w
  pc : PcInv s i c c.pc

structure DInv (s : DState) : Prop where
  infl : ∀ k r, s.inFlight k = some r → r < s.nregs ∧ (s.regs r).key = k ∧ (s.regs r).tDereg = none
  fin : ∀ r, r < s.nregs → (s.regs r).outcome ≠ none → (s.regs r).tDereg ≠ none
  treg : ∀ r, r < s.nregs → (s.regs r).tReg ≤ s.now
  callers : ∀ i, i < s.ncallers → CInv s i (s.callers i)

/-- How a step of caller `i` may change the shared state, as far as other callers care. -/
structure Frame (s s' : DState) (i : Nat) : Prop where
  now_le : s.now ≤ s'.now
  nregs_le : s.nregs ≤ s'.nregs
  same : ∀ r, r < s.nregs → (s.regs r).owner ≠ i → s'.regs r = s.regs r
  key : ∀ r, r < s.nregs → (s'.regs r).key = (s.regs r).key
  owner : ∀ r, r < s.nregs → (s'.regs r).owner = (s.regs r).owner
  tReg : ∀ r, r < s.nregs → (s'.regs r).tReg = (s.regs r).tReg
  outcome : ∀ r, r < s.nregs → ∀ o, (s.regs r).outcome = some o → (s'.regs r).outcome = some o
  tDereg : ∀ r, r < s.nregs → ∀ td, (s'.regs r).tDereg = some td → (s.regs r).tDereg = some td ∨ s.now ≤ td
  infl : ∀ k r, s.inFlight k = some r → (s.regs r).owner ≠ i → s'.inFlight k = some r

theorem WitOk.frame {s s' : DState} {i : Nat} {c : DCaller} {w} (hf : Frame s s' i)
    (hte : c.tEnd ≤ s.now) (h : WitOk s c w) : WitOk s' c w := by
  obtain ⟨h1, h2, ⟨o, h3, h3'⟩, h4, h5, h6, h7⟩ := h
  refine ⟨Nat.lt_of_lt_of_le h1 hf.nregs_le, ?_, ⟨o, hf.outcome _ h1 o h3, h3'⟩, h4, h5, ?_, ?_⟩
  · rw [hf.key _ h1]; exact h2
  · rw [hf.tReg _ h1]; exact h6
  · intro td htd
    cases hf.tDereg _ h1 td htd with
    | inl h => exact h7 td h
    | inr h => omega

theorem Leader.frame {s s' : DState} {i j : Nat} {c : DCaller} {r : Nat} (hinv : DInv s) (hf : Frame s s' i)
    (hji : j ≠ i) (h : Leader s j c r) : Leader s' j c r := by
  obtain ⟨k, rest, h1, h2, h3, h4, h5, h6⟩ := h
  have hr := (hinv.infl k r h2).1
  have hne : (s.regs r).owner ≠ i := by rw [h3]; exact hji
  have hsame := hf.same r hr hne
  refine ⟨k, rest, h1, hf.infl k r h2 hne, ?_, ?_, ?_, ?_⟩
  · rw [hsame]; exact h3
  · rw [hsame]; exact h4
  · rw [hsame]; exact h5
  · rw [hsame]; have := hf.now_le; omega

theorem CInv.frame {s s' : DState} {i j : Nat} {c : DCaller} (hinv : DInv s) (hf : Frame s s' i)
    (hji : j ≠ i) (h : CInv s j c) : CInv s' j c := by
  have hnow := hf.now_le
  refine ⟨by have := h.tStart; omega, by have := h.tEnd; omega, h.cover,
    fun w hw => (h.wit w hw).frame hf h.tEnd, ?_⟩
  have hpc := h.pc
  cases hc : c.pc with
  | enter => rw [hc] at hpc; exact hpc
  | wait r =>
    rw [hc] at hpc
    obtain ⟨k, rest, h1, h2, h3, h4, h5, h6, h7⟩ := hpc
    refine ⟨k, rest, h1, Nat.lt_of_lt_of_le h2 hf.nregs_le, ?_, ?_, h5, by omega, ?_⟩
    · rw [hf.key _ h2]; exact h3
    · rw [hf.tReg _ h2]; exact h4
    · intro td htd
      cases hf.tDereg _ h2 td htd with
      | inl h => exact h7 td h
      | inr h => omega
  | sink r => rw [hc] at hpc; exact Leader.frame hinv hf hji hpc
  | copy r => rw [hc] at hpc; exact Leader.frame hinv hf hji hpc
  | dereg r o => rw [hc] at hpc; exact Leader.frame hinv hf hji hpc
  | publish r o =>
    rw [hc] at hpc
    obtain ⟨k, rest, h1, h2, h3, h4, h5, td, h6, h7, h8, h9⟩ := hpc
    have hne : (s.regs r).owner ≠ i := by rw [h4]; exact hji
    have hsame := hf.same r h2 hne
    refine ⟨k, rest, h1, Nat.lt_of_lt_of_le h2 hf.nregs_le, ?_, ?_, ?_, td, ?_, ?_, h8, by omega⟩
    · rw [hsame]; exact h3
    · rw [hsame]; exact h4
    · rw [hsame]; exact h5
    · rw [hsame]; exact h6
    · rw [hsame]; exact h7
  | done res => rw [hc] at hpc; cases res <;> exact hpc

end BB.Caching
