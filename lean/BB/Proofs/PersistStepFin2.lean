import BB.Proofs.PersistStepFin
/-!
# Invariant preservation: the finalizer; records, files, device (assumption A3: the seed drawn for a
new epoch differs from every seed on the medium)
-/
namespace BB.Persist

theorem refToIdx_seed_mem {p : PBL} {e bfl i sd : Nat} (h : p.refToIdx e bfl = some (i, sd)) : sd ∈ p.seeds := by
  obtain ⟨_, _, h1, _⟩ := (refToIdx_iff p e bfl i sd).1 h
  exact List.mem_of_getElem? h1

theorem devInv_fin {c : Cfg} {objs : List Obj} {d : DataDev} {p : PBL} {z : List Blk} {no : Nat} (g : Obj → Obj)
    (hg : ∀ x, SameButFin (g x) x) (h : DevInv c objs d p z no) : DevInv c (objs.map g) d p z no := by
  refine ⟨h.pref, ?_, ?_, ?_, ?_, h.contentLt⟩
  · intro x' hx' hm hc hh s hs
    obtain ⟨x, hx, rfl⟩ := mem_map_obj hx'
    obtain ⟨k1, k2, k3, k4, k5, _, _, _, _, k10, k11, _⟩ := hg x
    rw [k1, k3]; rw [k4, k5] at hs; rw [k2] at hh
    exact h.mine x hx (by rw [← k11]; exact hm) (by rw [← k10]; exact hc) hh s hs
  · intro x' hx' hp hh s hs
    obtain ⟨x, hx, rfl⟩ := mem_map_obj hx'
    obtain ⟨k1, k2, k3, k4, k5, _, _, _, _, _, _, k12, _⟩ := hg x
    rw [k1, k3]; rw [k4, k5] at hs; rw [k2] at hh
    exact h.precov x hx (by rw [← k12]; exact hp) hh s hs
  · intro x' hx' hd hh s hs
    obtain ⟨x, hx, rfl⟩ := mem_map_obj hx'
    obtain ⟨k1, k2, k3, k4, k5, _, _, _, _, _, _, _, k13⟩ := hg x
    rw [k1, k3]; rw [k4, k5] at hs; rw [k2] at hh
    exact h.durable x hx (by rw [← k13]; exact hd) hh s hs
  · intro a' ha b' hb L slot s hL m1 m2 s1 s2 hoff
    obtain ⟨a, ha0, rfl⟩ := mem_map_obj ha
    obtain ⟨b, hb0, rfl⟩ := mem_map_obj hb
    obtain ⟨ka1, _, ka3, ka4, _⟩ := hg a
    obtain ⟨kb1, _, kb3, kb4, _⟩ := hg b
    rw [ka1, kb1]
    rw [ka1] at m1; rw [kb1] at m2; rw [ka3] at s1; rw [kb3] at s2; rw [ka4, kb4] at hoff
    exact h.content a ha0 b hb0 L slot s hL m1 m2 s1 s2 hoff

/-- Records and files after the finalizer of object `o` (which had no epoch so far). -/
theorem recInv_finalize {w : World} (h : Inv w) {o : Obj} {id e : Nat} {p' : PBL} (ho : o ∈ w.objs) (hid : o.id = id)
    (hnf : o.fin = none) (hf : w.pbl.finalize o.abs o.off o.size w.nextSeed = .ok p' e) :
    RecInv (recsOf w.idx) (w.objs.map (setFin id e)) p' (if w.pbl.bumps o.abs then w.nextSeed + 1 else w.nextSeed) := by
  have hl := finalize_like hf
  obtain ⟨_, _, _, _, _, _, _, _, _, _, _, hb1, hb0⟩ := finalize_fields hf
  have hisO : ∀ x ∈ w.objs, x.id = id → x = o := fun x hx hxid => obj_eq_of_id h.obj.ids hx ho (by rw [hxid, hid])
  refine ⟨?_, ?_, ?_⟩
  · intro r hr i hres
    rcases refToIdx_finalize_inv h.wfp hf hres with hold | ⟨hfresh, _⟩
    · obtain ⟨b, x, hb, hx, hgid, hm⟩ := h.recs.res r hr i hold
      obtain ⟨b', hb', g1, _⟩ := hl.get' hb
      have hxid : x.id ≠ id := by
        intro hxid
        rw [hisO x hx hxid] at hm
        obtain ⟨_, _, _, _, e0, he0, _⟩ := hm
        rw [hnf] at he0; cases he0
      exact ⟨b', setFin id e x, hb', List.mem_map.2 ⟨x, hx, rfl⟩, by rw [setFin_other hxid, g1]; exact hgid,
        by rw [setFin_other hxid]; exact hm⟩
    · have := h.recs.seedLt r hr
      omega
  · intro r hr
    have := h.recs.seedLt r hr
    split <;> omega
  · intro s hs
    by_cases hb : w.pbl.bumps o.abs = true
    · rw [(hb1 hb).1] at hs
      simp only [hb, if_true]
      rcases List.mem_append.1 hs with hs | hs
      · exact Nat.lt_succ_of_lt (h.recs.pSeeds s hs)
      · simp at hs; omega
    · rw [(hb0 (by simpa using hb)).1] at hs
      simp only [hb]
      exact h.recs.pSeeds s hs

theorem fileInv_finalize {w : World} (h : Inv w) {o : Obj} {id e : Nat} {p' : PBL} {f : SFile} {k : Nat} (ho : o ∈ w.objs)
    (hid : o.id = id) (hm : o.mine = true) (hnf : o.fin = none)
    (hf : w.pbl.finalize o.abs o.off o.size w.nextSeed = .ok p' e)
    (hfi : FileInv w.cfg.ss f (w.pbl.blocks ++ w.pbl.toRelease.drop k) (recsOf w.idx) w.objs w.pbl w.nextSeed) :
    FileInv w.cfg.ss f (p'.blocks ++ p'.toRelease.drop k) (recsOf w.idx) (w.objs.map (setFin id e)) p'
      (if w.pbl.bumps o.abs then w.nextSeed + 1 else w.nextSeed) := by
  have hl := finalize_like hf
  have hg := setFin_same id e
  obtain ⟨_, hrel, ho', _, _, hsd, _, _, _, _, _, _, _⟩ := finalize_fields hf
  obtain ⟨hin, _⟩ := h.obj.absIn o ho hm
  obtain ⟨he1, _, _⟩ := finalize_epoch h.wfp hf hin
  have hisO : ∀ x ∈ w.objs, x.id = id → x = o := fun x hx hxid => obj_eq_of_id h.obj.ids hx ho (by rw [hxid, hid])
  have hs1 := h.wfp.sync1
  refine ⟨hfi.gids, ?_, by rw [ho', hsd]; exact hfi.bound, ?_, ?_, ?_, ?_⟩
  · intro bs hbs
    obtain ⟨b, hb, g1, g2⟩ := hfi.heldIn bs hbs
    obtain ⟨b', hb', g3, g4⟩ := hl.heldF k b hb
    exact ⟨b', hb', by rw [g3]; exact g1, by rw [g4]; exact g2⟩
  · intro s hs
    have := hfi.seedLt s hs
    split <;> omega
  · intro x' hx' j bs e' hbs hgid hfin hlt
    obtain ⟨x, hx, rfl⟩ := mem_map_obj hx'
    obtain ⟨_, k2, _, k4, k5, _, _, _, _, _, _, _, k13⟩ := hg x
    rw [k4, k5, k13]; rw [k2] at hgid
    by_cases hxid : x.id = id
    · have := hisO x hx hxid; subst this
      rw [setFin_self hxid] at hfin
      simp at hfin; subst hfin
      have := hfi.bound
      omega
    · rw [setFin_other hxid] at hfin
      exact hfi.committed x hx j bs e' hbs hgid hfin hlt
  · intro r hr i hres
    obtain ⟨bs, x, hbs, hx, hgid, hmt⟩ := hfi.res r hr i hres
    have hxid : x.id ≠ id := by
      intro hxid
      rw [hisO x hx hxid] at hmt
      obtain ⟨_, _, _, _, e0, he0, _⟩ := hmt
      rw [hnf] at he0; cases he0
    exact ⟨bs, setFin id e x, hbs, List.mem_map.2 ⟨x, hx, rfl⟩, by rw [setFin_other hxid]; exact hgid,
      by rw [setFin_other hxid]; exact hmt⟩
  · intro e0 i i' sd hfi' hpi
    rcases refToIdx_finalize_inv h.wfp hf hpi with hold | ⟨hfresh, _⟩
    · obtain ⟨bs, b, hbs, hb, hgid⟩ := hfi.agree e0 i i' sd hfi' hold
      obtain ⟨b', hb', g1, _⟩ := hl.get' hb
      exact ⟨bs, b', hbs, hb', by rw [g1]; exact hgid⟩
    · have := hfi.seedLt sd (refToIdx_seed_mem hfi')
      omega

end BB.Persist
