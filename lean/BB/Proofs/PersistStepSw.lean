import BB.Proofs.PersistStepSyncEnd
/-!
# Invariant preservation: the directory operations of `WritePersistentState` (`swStep`, `swFail`)
-/
namespace BB.Persist

theorem FileInv.mono_held {ss : Nat} {f : SFile} {heldF heldF' : List Blk} {recs : List PRec} {objs : List Obj} {p : PBL}
    {ns : Nat} (hh : ∀ b ∈ heldF, b ∈ heldF') (h : FileInv ss f heldF recs objs p ns) : FileInv ss f heldF' recs objs p ns := by
  refine ⟨h.gids, ?_, h.bound, h.seedLt, h.committed, h.res, h.agree⟩
  intro bs hbs
  obtain ⟨b, hb, g1, g2⟩ := h.heldIn bs hbs
  exact ⟨b, hh b hb, g1, g2⟩

/-- Only the directory and the stage of the state writer change. -/
theorem inv_of_dir {w : World} (h : Inv w) (d' : StateDir) (sw' : Option Sw)
    (hfiles : ∀ f ∈ filesOf d', f ∈ filesOf w.dir ∨ ∃ s, w.sw = some s ∧ f = s.file)
    (hsw : ∀ s', sw' = some s' → ∃ s, w.sw = some s ∧ s'.file = s.file ∧ s'.owner = s.owner)
    (hst : SwInv sw' d' w.pbl w.g1) : Inv { w with dir := d', sw := sw' } := by
  refine ⟨h.cfg, h.wfp, h.own, h.obj, h.epoch, h.dev, h.recs, ?_, ?_, hst⟩
  · intro f hf
    rcases hfiles f hf with hf | ⟨s, hs, rfl⟩
    · exact h.files f hf
    · refine (h.swFile s hs).mono_held ?_
      intro b hb
      rcases List.mem_append.1 hb with hb | hb
      · exact List.mem_append_left _ hb
      · exact List.mem_append_right _ (List.mem_of_mem_drop hb)
  · intro s' hs'
    obtain ⟨s, hs, hfile, _⟩ := hsw s' hs'
    rw [hfile]; exact h.swFile s hs

theorem inv_swFail {w w' : World} (h : Inv w) (hs : w.swFail = some w') : Inv w' := by
  unfold World.swFail at hs
  split at hs
  · split at hs
    · simp only [Option.some.injEq] at hs
      subst hs
      have := inv_of_dir h w.dir none (fun f hf => Or.inl hf) (by intro s' hs'; cases hs')
        ⟨by intro s hs'; cases hs'⟩
      exact this
    · simp at hs
  · simp at hs

theorem inv_swStep {w w' : World} (h : Inv w) (hs : w.swStep = some w') : Inv w' := by
  unfold World.swStep at hs
  cases hsw : w.sw with
  | none => simp [hsw] at hs
  | some s =>
    simp only [hsw] at hs
    obtain ⟨a1, a3, a4, a5, a6, a7, a8⟩ := h.sw.stage s hsw
    -- the new stage keeps file and owner
    have hkeep : ∀ (k : Nat) (d' : StateDir), w' = { w with dir := d', sw := some { s with stage := k + 1 } } →
        (∀ f ∈ filesOf d', f ∈ filesOf w.dir ∨ ∃ s0, w.sw = some s0 ∧ f = s0.file) →
        SwInv (some { s with stage := k + 1 }) d' w.pbl w.g1 → Inv w' := by
      intro k d' hw' hfiles hst
      rw [hw']
      exact inv_of_dir h d' _ hfiles (by intro s' hs'; simp at hs'; subst hs'; exact ⟨s, hsw, rfl, rfl⟩) hst
    have mk : ∀ (k : Nat) (d' : StateDir), (k + 1 = 3 → d'.tmp = .written s.file) → (k + 1 = 4 → d'.tmp = .synced s.file) →
        (k + 1 = 5 → d'.renamed.getLast? = some s.file) → (k + 1 = 6 → d'.state = some s.file ∧ d'.renamed = []) → k + 1 ≤ 6 →
        SwInv (some { s with stage := k + 1 }) d' w.pbl w.g1 := by
      intro k d' b3 b4 b5 b6 ble
      constructor
      intro s' hs'
      simp only [Option.some.injEq] at hs'
      subst hs'
      exact ⟨ble, b3, b4, b5, b6, a7, a8⟩
    generalize hk : s.stage = k at hs a1 a3 a4 a5 a6
    match k, hs, a3, a4, a5, a6 with
    | 0, hs, _, _, _, _ =>
      simp only [Option.some.injEq] at hs
      exact hkeep 0 w.dir.remove hs.symm (fun f hf => Or.inl hf)
        (mk 0 _ (by omega) (by omega) (by omega) (by omega) (by omega))
    | 1, hs, _, _, _, _ =>
      cases hc : w.dir.create with
      | none => simp [hc] at hs
      | some d' =>
        simp only [hc, Option.some.injEq] at hs
        have hd : filesOf d' = filesOf w.dir := by
          unfold StateDir.create at hc; split at hc <;> simp at hc; subst hc; rfl
        exact hkeep 1 d' hs.symm (fun f hf => Or.inl (by rw [← hd]; exact hf))
          (mk 1 d' (by omega) (by omega) (by omega) (by omega) (by omega))
    | 2, hs, _, _, _, _ =>
      cases hc : w.dir.writeTmp s.file with
      | none => simp [hc] at hs
      | some d' =>
        simp only [hc, Option.some.injEq] at hs
        have hd : filesOf d' = filesOf w.dir ∧ d'.tmp = .written s.file := by
          unfold StateDir.writeTmp at hc; split at hc <;> simp at hc; subst hc; exact ⟨rfl, rfl⟩
        exact hkeep 2 d' hs.symm (fun f hf => Or.inl (by rw [← hd.1]; exact hf))
          (mk 2 d' (fun _ => hd.2) (by omega) (by omega) (by omega) (by omega))
    | 3, hs, a3, _, _, _ =>
      cases hc : w.dir.fsyncTmp with
      | none => simp [hc] at hs
      | some d' =>
        simp only [hc, Option.some.injEq] at hs
        have hd : filesOf d' = filesOf w.dir ∧ d'.tmp = .synced s.file := by
          unfold StateDir.fsyncTmp at hc
          rw [a3 rfl] at hc
          simp at hc; subst hc; exact ⟨rfl, rfl⟩
        exact hkeep 3 d' hs.symm (fun f hf => Or.inl (by rw [← hd.1]; exact hf))
          (mk 3 d' (by omega) (fun _ => hd.2) (by omega) (by omega) (by omega))
    | 4, hs, _, a4, _, _ =>
      cases hc : w.dir.rename with
      | none => simp [hc] at hs
      | some d' =>
        simp only [hc, Option.some.injEq] at hs
        have hd : d' = { w.dir with tmp := .absent, renamed := w.dir.renamed ++ [s.file] } := by
          unfold StateDir.rename at hc
          rw [a4 rfl] at hc
          simp at hc; exact hc.symm
        refine hkeep 4 d' hs.symm ?_ (mk 4 d' (by omega) (by omega) (fun _ => by rw [hd]; simp) (by omega) (by omega))
        intro f hf
        rw [hd] at hf
        simp only [filesOf, List.mem_append, List.mem_singleton] at hf
        rcases hf with hf | hf | rfl
        · exact Or.inl (List.mem_append_left _ hf)
        · exact Or.inl (List.mem_append_right _ hf)
        · exact Or.inr ⟨s, hsw, rfl⟩
    | 5, hs, _, _, a5, _ =>
      simp only [Option.some.injEq] at hs
      have hd : w.dir.dirSync = { w.dir with state := some s.file, renamed := [] } := by
        unfold StateDir.dirSync; rw [a5 rfl]
      refine hkeep 5 w.dir.dirSync hs.symm ?_
        (mk 5 w.dir.dirSync (by omega) (by omega) (by omega) (fun _ => by rw [hd]; exact ⟨rfl, rfl⟩) (by omega))
      intro f hf
      rw [hd] at hf
      simp only [filesOf, Option.toList, List.append_nil, List.mem_singleton] at hf
      subst hf
      exact Or.inr ⟨s, hsw, rfl⟩
    | n + 6, hs, _, _, _, _ => simp at hs

end BB.Persist
