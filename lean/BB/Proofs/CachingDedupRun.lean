import BB.Proofs.CachingDedupStep
/-! `DInv` holds in every reachable state of the deduplicating replicator protocol. -/
namespace BB.Caching

theorem dinv_init : DInv {} := by
  refine ⟨?_, ?_, ?_, ?_⟩ <;> intros <;> simp_all

theorem dstep_inv {s s' : DState} {a : DAct} (hinv : DInv s) (h : dstep s a = some s') : DInv s' := by
  cases a with
  | call ks cn =>
    simp only [dstep, Option.some.injEq] at h
    subst h; exact inv_call hinv ks cn
  | cancel i =>
    simp only [dstep] at h
    split at h
    · rename_i hi; cases h; exact inv_cancel hinv hi
    · cases h
  | enter i =>
    simp only [dstep] at h
    split at h
    · rename_i hi
      split at h
      · rename_i k rest hpc htodo
        split at h
        · rename_i hfl; cases h; exact inv_enter_reg hinv hi htodo hfl
        · rename_i r hfl; cases h; exact inv_enter_wait hinv hi htodo hfl
      · cases h
    · cases h
  | wake i =>
    simp only [dstep] at h
    split at h
    · rename_i hi
      split at h
      · rename_i r k rest hpc htodo
        split at h
        · rename_i o ho
          split at h
          · rename_i hok; cases h; exact inv_wake_ok hinv hi hpc htodo ho hok
          · cases h; exact inv_wake_fail hinv hi htodo
        · cases h
      · cases h
    · cases h
  | abort i =>
    simp only [dstep] at h
    split at h
    · rename_i hi
      split at h
      · split at h
        · cases h; exact inv_abort hinv hi _
        · cases h
      · cases h
    · cases h
  | sinkReply i rep =>
    simp only [dstep] at h
    split at h
    · rename_i hi
      split at h
      · rename_i r hpc
        cases h
        have hl : Leader s i (s.callers i) r := by have := (hinv.callers i hi).pc; rw [hpc] at this; exact this
        apply inv_leader_pc hinv hi hl
        cases rep <;> simp
      · cases h
    · cases h
  | copyEnd i res =>
    simp only [dstep] at h
    split at h
    · rename_i hi
      split at h
      · rename_i r hpc
        cases h
        have hl : Leader s i (s.callers i) r := by have := (hinv.callers i hi).pc; rw [hpc] at this; exact this
        apply inv_leader_pc hinv hi hl
        cases res <;> simp
      · cases h
    · cases h
  | dereg i =>
    simp only [dstep] at h
    split at h
    · rename_i hi
      split at h
      · rename_i r o k rest hpc htodo
        cases h; exact inv_dereg hinv hi hpc htodo
      · cases h
    · cases h
  | publish i =>
    simp only [dstep] at h
    split at h
    · rename_i hi
      split at h
      · rename_i r o k rest hpc htodo
        split at h
        · rename_i herr
          cases h
          exact inv_publish hinv hi hpc htodo _ (Or.inl ⟨rfl, by simp [Outcome.isOk, herr]⟩)
        · rename_i e herr
          cases h
          exact inv_publish hinv hi hpc htodo _ (Or.inr ⟨e, rfl⟩)
      · cases h
    · cases h

theorem drun_inv {s s' : DState} {as : List DAct} (hinv : DInv s) (h : drun s as = some s') : DInv s' := by
  induction as generalizing s with
  | nil => simp only [drun, Option.some.injEq] at h; subst h; exact hinv
  | cons a as ih =>
    simp only [drun] at h
    split at h
    · rename_i s1 hs1; exact ih (dstep_inv hinv hs1) h
    · cases h

end BB.Caching
