import BB.Proofs.Mirrored
/-!
Facts about the composite operations of the C11 model: `put`, the replicators,
`get`, `getc`, `caps`.
-/
namespace BB.Mirrored

/-! ## join2 / wrapRes -/

theorem join2_ok {pref : Side} {ra rb : Res Unit} (h : join2 pref ra rb = .ok ()) : ra = .ok () ∧ rb = .ok () := by
  cases ra <;> cases rb <;> cases pref <;> simp_all [join2]

theorem join2_error {pref : Side} {ra rb : Res Unit} {e : Err} (h : join2 pref ra rb = .error e) :
    ra = .error e ∨ rb = .error e := by
  cases ra <;> cases rb <;> cases pref <;> simp_all [join2]

theorem join2_of_ok (pref : Side) : join2 pref (.ok ()) (.ok ()) = .ok () := rfl

theorem wrapRes_ok {α : Type} {t : Tag} {r : Res α} (h : wrapRes t r = .ok ()) : ∃ a, r = .ok a := by
  cases r <;> simp_all [wrapRes]

theorem wrapRes_error {α : Type} {t : Tag} {r : Res α} {e : Err} (h : wrapRes t r = .error e) :
    ∃ e0, r = .error e0 ∧ e = e0.wrap t := by
  cases r <;> simp_all [wrapRes]

/-! ## putOn with a readable input -/

theorem putOn_ok_iff (s : Side) (p : Pair) (k : Key) (v : Val) :
    (putOn s p k (.ok v)).2 = .ok () ↔ (p.rep s).faultAt .put = none := by
  rw [putOn_snd]; cases (p.rep s).faultAt .put <;> simp

theorem putOn_error (s : Side) (p : Pair) (k : Key) (v : Val) (e : Err) (h : (putOn s p k (.ok v)).2 = .error e) :
    (p.rep s).faultAt .put = some e.code ∧ e = ⟨e.code, [], .fault s .put ((p.rep s).cnt .put)⟩ := by
  rw [putOn_snd] at h
  cases hf : (p.rep s).faultAt .put <;> simp [hf] at h
  subst h; simp

theorem putOn_holds (s : Side) (p : Pair) (k : Key) (v : Val) (h : (p.rep s).faultAt .put = none) :
    ((putOn s p k (.ok v)).1.rep s).store k = some v := by
  rw [putOn_store_same, h]; simp

/-! ## put -/

theorem put_fst (p : Pair) (k : Key) (v : Val) (pref : Side) :
    (put p k v pref).1 = (putOn .B (putOn .A p k (.ok v)).1 k (.ok v)).1 := rfl

theorem put_snd (p : Pair) (k : Key) (v : Val) (pref : Side) :
    (put p k v pref).2 = join2 pref (wrapRes (.backend .A) (putOn .A p k (.ok v)).2)
      (wrapRes (.backend .B) (putOn .B (putOn .A p k (.ok v)).1 k (.ok v)).2) := rfl

/-- B's next `Put` fault is not affected by the `Put` on A. -/
theorem faultAt_B_after_putA (p : Pair) (k : Key) (inp : Res Val) (m : Meth) :
    ((putOn .A p k inp).1.rep .B).faultAt m = (p.rep .B).faultAt m := by
  rw [putOn_fst, rep_setRep_ne _ _ (by decide)]

theorem cnt_B_after_putA (p : Pair) (k : Key) (inp : Res Val) :
    ((putOn .A p k inp).1.rep .B).cnt = (p.rep .B).cnt := by
  rw [putOn_fst, rep_setRep_ne _ _ (by decide)]

end BB.Mirrored
