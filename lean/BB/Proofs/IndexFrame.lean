import BB.Proofs.Index
/-!
C06, second half: what `Get` returns in terms of the records in the table,
and how `Put` changes the set of stored locations per key.
-/
namespace BB.Index
open BB.Gen

/-- Location `l` is stored for key `q` in a live record somewhere in the table. -/
def InTab (thr : Int) (t : Tab) (q : Nat) (l : Loc) : Prop :=
  ∃ s R, t s = some R ∧ thr ≤ R.loc.blockIndex ∧ R.key = q ∧ R.loc = l

/-- Attempt `a` of key `k` holds a live record that is *not* the record `(k, a)`. -/
def Mismatch (c : Cfg) (thr : Int) (t : Tab) (k a : Nat) : Prop :=
  ∃ R, t (c.slot k a) = some R ∧ thr ≤ R.loc.blockIndex ∧ ¬ (R.key = k ∧ R.att = a)

/-- Attempt `a` of key `k` holds the live record `(k, a)` with location `l`. -/
def MatchAt (c : Cfg) (thr : Int) (t : Tab) (k a : Nat) (l : Loc) : Prop :=
  ∃ R, t (c.slot k a) = some R ∧ thr ≤ R.loc.blockIndex ∧ R.key = k ∧ R.att = a ∧ R.loc = l

/-- What the walk of `Get` does, without any invariant. -/
theorem getAux_spec (c : Cfg) (thr : Int) (t : Tab) (k : Nat) : ∀ (fuel a : Nat),
    (∀ l, getAux c thr t k fuel a = some l →
      ∃ a', a ≤ a' ∧ a' < a + fuel ∧ MatchAt c thr t k a' l ∧
        ∀ a'', a ≤ a'' → a'' < a' → Mismatch c thr t k a'') ∧
    (getAux c thr t k fuel a = none →
      (∃ a', a ≤ a' ∧ a' < a + fuel ∧ live thr (t (c.slot k a')) = none ∧
        ∀ a'', a ≤ a'' → a'' < a' → Mismatch c thr t k a'') ∨
      (∀ a'', a ≤ a'' → a'' < a + fuel → Mismatch c thr t k a'')) := by
  intro fuel
  induction fuel with
  | zero =>
    intro a
    refine ⟨by intro l h; simp [getAux] at h, ?_⟩
    intro _
    right; intro a'' h1 h2; omega
  | succ fuel ih =>
    intro a
    obtain ⟨ih1, ih2⟩ := ih (a+1)
    constructor
    · intro l h
      unfold getAux at h
      split at h
      · simp at h
      · rename_i R hlive
        obtain ⟨hR, hRl⟩ := live_some hlive
        split at h
        · rename_i hm
          cases h
          exact ⟨a, Nat.le_refl _, by omega, ⟨R, hR, hRl, hm.1, hm.2, rfl⟩, by intro a'' h1 h2; omega⟩
        · rename_i hm
          obtain ⟨a', h1, h2, h3, h4⟩ := ih1 l h
          refine ⟨a', by omega, by omega, h3, ?_⟩
          intro a'' h5 h6
          by_cases ha : a'' = a
          · subst ha; exact ⟨R, hR, hRl, hm⟩
          · exact h4 a'' (by omega) h6
    · intro h
      unfold getAux at h
      split at h
      · rename_i hdead
        left
        exact ⟨a, Nat.le_refl _, by omega, hdead, by intro a'' h1 h2; omega⟩
      · rename_i R hlive
        obtain ⟨hR, hRl⟩ := live_some hlive
        split at h
        · simp at h
        · rename_i hm
          have hmis : Mismatch c thr t k a := ⟨R, hR, hRl, hm⟩
          rcases ih2 h with ⟨a', h1, h2, h3, h4⟩ | h5
          · left
            refine ⟨a', by omega, by omega, h3, ?_⟩
            intro a'' h5 h6
            by_cases ha : a'' = a
            · subst ha; exact hmis
            · exact h4 a'' (by omega) h6
          · right
            intro a'' h6 h7
            by_cases ha : a'' = a
            · subst ha; exact hmis
            · exact h5 a'' (by omega) (by omega)

theorem mismatch_not_match {c : Cfg} {thr : Int} {t : Tab} {k a : Nat} {R : Rec}
    (hm : Mismatch c thr t k a) (hR : t (c.slot k a) = some R) (hk : R.key = k) (ha : R.att = a) : False := by
  obtain ⟨R', hR', _, hne⟩ := hm
  rw [hR] at hR'; cases hR'
  exact hne ⟨hk, ha⟩

/-- Under the invariant, `Get` returns a stored location for the key that no other stored
location of that key is newer than. -/
theorem get_best_some {c : Cfg} {thr : Int} {t : Tab} {k : Nat} {l : Loc}
    (hinv : Inv c thr t) (h : get c thr t k = some l) :
    InTab thr t k l ∧ ∀ l', InTab thr t k l' → l.isOlder l' = false := by
  obtain ⟨a', _, _, ⟨R0, hR0, hR0l, hR0k, hR0a, hR0loc⟩, hmis⟩ := (getAux_spec c thr t k c.maxGet 0).1 l h
  refine ⟨⟨_, R0, hR0, hR0l, hR0k, hR0loc⟩, ?_⟩
  intro l' ⟨s', R', hR', hR'l, hR'k, hR'loc⟩
  obtain ⟨hslot, _, hpath⟩ := hinv s' R' hR' hR'l
  rcases Nat.lt_trichotomy R'.att a' with hlt | heq | hgt
  · exfalso
    have := hmis R'.att (Nat.zero_le _) hlt
    rw [← hR'k] at this
    exact mismatch_not_match this (by rw [hslot]; exact hR') rfl rfl
  · have : R' = R0 := by
      have h1 : c.slot R'.key R'.att = c.slot k a' := by rw [hR'k, heq]
      rw [hslot] at h1
      rw [h1] at hR'
      rw [hR0] at hR'; cases hR'; rfl
    subst this
    rw [← hR'loc, ← hR0loc]; exact older_irrefl _
  · obtain ⟨q, hq, _, hqo⟩ := hpath a' hgt
    rw [hR'k, hR0] at hq; cases hq
    rw [← hR'loc, ← hR0loc]
    -- q = R0 is not older than R'; we need: l = R0.loc, `l.isOlder l' = false`
    exact hqo

theorem get_best_none {c : Cfg} {thr : Int} {t : Tab} {k : Nat}
    (hinv : Inv c thr t) (h : get c thr t k = none) : ∀ l, ¬ InTab thr t k l := by
  intro l ⟨s', R', hR', hR'l, hR'k, _⟩
  obtain ⟨hslot, hatt, hpath⟩ := hinv s' R' hR' hR'l
  have hR'slot : t (c.slot k R'.att) = some R' := by rw [← hR'k, hslot]; exact hR'
  rcases (getAux_spec c thr t k c.maxGet 0).2 h with ⟨a', _, _, hdead, hmis⟩ | hall
  · rcases Nat.lt_trichotomy R'.att a' with hlt | heq | hgt
    · exact mismatch_not_match (hmis R'.att (Nat.zero_le _) hlt) hR'slot hR'k rfl
    · rw [← heq, hR'slot] at hdead
      exact live_none hdead R' rfl hR'l
    · obtain ⟨q, hq, hql, _⟩ := hpath a' hgt
      rw [hR'k] at hq
      rw [hq] at hdead
      exact live_none hdead q rfl hql
  · exact mismatch_not_match (hall R'.att (Nat.zero_le _) (by omega)) hR'slot hR'k rfl

/-! ## How `Put` changes the stored locations -/

/-- Relation between the table before (`t`, carrying `r`) and after (`t'`) a run of the `Put` loop.
`sound`: nothing is invented.  `complete`: every location that was stored (or carried) is afterwards
still represented by a location of the same key that is not older, unless it is the one record the
outcome reports as discarded. -/
structure Keeps (thr : Int) (t t' : Tab) (r : Rec) (out : Outcome) : Prop where
  sound : ∀ q l, InTab thr t' q l → InTab thr t q l ∨ (q = r.key ∧ l = r.loc)
  complete : ∀ q l, (InTab thr t q l ∨ (q = r.key ∧ l = r.loc)) →
    (∃ l', InTab thr t' q l' ∧ l'.isOlder l = false) ∨
    (∃ d, out.discarded = some d ∧ d.key = q ∧ d.loc = l)

theorem inTab_set_of {thr : Int} {t : Tab} {s : Nat} {r : Rec} {q : Nat} {l : Loc}
    (h : InTab thr (t.set s r) q l) : (∃ s' R, s' ≠ s ∧ t s' = some R ∧ thr ≤ R.loc.blockIndex ∧ R.key = q ∧ R.loc = l) ∨
      (q = r.key ∧ l = r.loc) := by
  obtain ⟨s', R, hR, hRl, hk, hl⟩ := h
  by_cases hs : s' = s
  · subst hs
    have : R = r := by simpa [Tab.set] using hR.symm
    subst this
    right; exact ⟨hk.symm, hl.symm⟩
  · left; exact ⟨s', R, hs, by simpa [Tab.set, hs] using hR, hRl, hk, hl⟩

theorem inTab_set_self {thr : Int} {t : Tab} {s : Nat} {r : Rec} (hr : thr ≤ r.loc.blockIndex) :
    InTab thr (t.set s r) r.key r.loc :=
  ⟨s, r, by simp [Tab.set], hr, rfl, rfl⟩

theorem inTab_set_other {thr : Int} {t : Tab} {s s' : Nat} {r R : Rec} (hs : s' ≠ s) (hR : t s' = some R)
    (hl : thr ≤ R.loc.blockIndex) : InTab thr (t.set s r) R.key R.loc :=
  ⟨s', R, by simp [Tab.set, hs, hR], hl, rfl, rfl⟩

theorem putAux_keeps (c : Cfg) (thr : Int) : ∀ (fuel : Nat) (t : Tab) (r : Rec),
    thr ≤ r.loc.blockIndex →
    Keeps thr t (putAux c thr fuel t r).1 r (putAux c thr fuel t r).2 := by
  intro fuel
  induction fuel with
  | zero =>
    intro t r _
    simp only [putAux]
    exact ⟨fun q l h => Or.inl h, fun q l h => by
      rcases h with h | ⟨hq, hl⟩
      · exact Or.inl ⟨l, h, older_irrefl l⟩
      · exact Or.inr ⟨r, rfl, hq.symm, hl.symm⟩⟩
  | succ fuel ih =>
    intro t r hrl
    unfold putAux
    simp only []
    split
    · -- dead slot: insert
      rename_i hdead
      constructor
      · intro q l h
        rcases inTab_set_of h with ⟨s', R, _, hR, hRl, hk, hl⟩ | h
        · exact Or.inl ⟨s', R, hR, hRl, hk, hl⟩
        · exact Or.inr h
      · intro q l h
        left
        rcases h with ⟨s', R, hR, hRl, hk, hl⟩ | ⟨hq, hl⟩
        · have hs : s' ≠ c.slot r.key r.att := by
            intro hs; subst hs
            exact live_none hdead R hR hRl
          subst hk; subst hl
          exact ⟨R.loc, inTab_set_other hs hR hRl, older_irrefl _⟩
        · subst hq; subst hl
          exact ⟨r.loc, inTab_set_self hrl, older_irrefl _⟩
    · rename_i old hlive
      obtain ⟨hold, holdl⟩ := live_some hlive
      split
      · rename_i hsame
        split
        · -- update
          rename_i holder
          constructor
          · intro q l h
            rcases inTab_set_of h with ⟨s', R, _, hR, hRl, hk, hl⟩ | h
            · exact Or.inl ⟨s', R, hR, hRl, hk, hl⟩
            · exact Or.inr h
          · intro q l h
            left
            rcases h with ⟨s', R, hR, hRl, hk, hl⟩ | ⟨hq, hl⟩
            · by_cases hs : s' = c.slot r.key r.att
              · subst hs
                rw [hold] at hR; cases hR
                subst hk; subst hl
                refine ⟨r.loc, ?_, older_asymm holder⟩
                rw [hsame.1]; exact inTab_set_self hrl
              · subst hk; subst hl
                exact ⟨R.loc, inTab_set_other hs hR hRl, older_irrefl _⟩
            · subst hq; subst hl
              exact ⟨r.loc, inTab_set_self hrl, older_irrefl _⟩
        · -- ignored
          rename_i hnotolder
          have hno : old.loc.isOlder r.loc = false := by simpa using hnotolder
          constructor
          · intro q l h; exact Or.inl h
          · intro q l h
            left
            rcases h with h | ⟨hq, hl⟩
            · exact ⟨l, h, older_irrefl l⟩
            · subst hq; subst hl
              exact ⟨old.loc, ⟨_, old, hold, holdl, hsame.1, rfl⟩, hno⟩
      · rename_i hne
        by_cases holder : old.loc.isOlder r.loc = true
        · simp only [holder, if_true]
          -- facts about t' = t.set s r
          have hsnd : ∀ q l, InTab thr (t.set (c.slot r.key r.att) r) q l → InTab thr t q l ∨ (q = r.key ∧ l = r.loc) := by
            intro q l h
            rcases inTab_set_of h with ⟨s', R, _, hR, hRl, hk, hl⟩ | h
            · exact Or.inl ⟨s', R, hR, hRl, hk, hl⟩
            · exact Or.inr h
          have hcmp : ∀ q l, (InTab thr t q l ∨ (q = r.key ∧ l = r.loc)) →
              InTab thr (t.set (c.slot r.key r.att) r) q l ∨ (q = old.key ∧ l = old.loc) := by
            intro q l h
            rcases h with ⟨s', R, hR, hRl, hk, hl⟩ | ⟨hq, hl⟩
            · by_cases hs : s' = c.slot r.key r.att
              · subst hs
                rw [hold] at hR; cases hR
                exact Or.inr ⟨hk.symm, hl.symm⟩
              · subst hk; subst hl
                exact Or.inl (inTab_set_other hs hR hRl)
            · subst hq; subst hl
              exact Or.inl (inTab_set_self hrl)
          by_cases hmg : c.maxGet ≤ old.att + 1
          · simp only [hmg, if_true]
            constructor
            · exact hsnd
            · intro q l h
              rcases hcmp q l h with h | ⟨hq, hl⟩
              · exact Or.inl ⟨l, h, older_irrefl l⟩
              · exact Or.inr ⟨_, rfl, hq.symm, hl.symm⟩
          · simp only [hmg, if_false]
            have ih' := ih (t.set (c.slot r.key r.att) r) { old with att := old.att + 1 } holdl
            constructor
            · intro q l h
              rcases ih'.sound q l h with h | ⟨hq, hl⟩
              · exact hsnd q l h
              · exact Or.inl ⟨_, old, hold, holdl, hq.symm, hl.symm⟩
            · intro q l h
              rcases hcmp q l h with h | h
              · exact ih'.complete q l (Or.inl h)
              · exact ih'.complete q l (Or.inr h)
        · have hno : old.loc.isOlder r.loc = false := by simpa using holder
          simp only [hno]
          by_cases hmg : c.maxGet ≤ r.att + 1
          · simp [hmg]
            constructor
            · intro q l h; exact Or.inl h
            · intro q l h
              rcases h with h | ⟨hq, hl⟩
              · exact Or.inl ⟨l, h, older_irrefl l⟩
              · exact Or.inr ⟨_, rfl, hq.symm, hl.symm⟩
          · simp [hmg]
            have ih' := ih t { r with att := r.att + 1 } hrl
            exact ⟨ih'.sound, ih'.complete⟩

/-- Location `l` occurs for key `q` in some record of the table, live or not. -/
def RawIn (t : Tab) (q : Nat) (l : Loc) : Prop := ∃ s R, t s = some R ∧ R.key = q ∧ R.loc = l

theorem rawIn_set {t : Tab} {s : Nat} {r : Rec} {q : Nat} {l : Loc} (h : RawIn (t.set s r) q l) :
    RawIn t q l ∨ (q = r.key ∧ l = r.loc) := by
  obtain ⟨s', R, hR, hk, hl⟩ := h
  by_cases hs : s' = s
  · subst hs
    have : R = r := by simpa [Tab.set] using hR.symm
    subst this
    exact Or.inr ⟨hk.symm, hl.symm⟩
  · exact Or.inl ⟨s', R, by simpa [Tab.set, hs] using hR, hk, hl⟩

/-- `Put` writes only the record it was given and records it took out of the table. -/
theorem putAux_raw (c : Cfg) (thr : Int) : ∀ (fuel : Nat) (t : Tab) (r : Rec) (q : Nat) (l : Loc),
    RawIn (putAux c thr fuel t r).1 q l → RawIn t q l ∨ (q = r.key ∧ l = r.loc) := by
  intro fuel
  induction fuel with
  | zero => intro t r q l h; exact Or.inl (by simpa [putAux] using h)
  | succ fuel ih =>
    intro t r q l
    unfold putAux
    simp only []
    split
    · exact rawIn_set
    · rename_i old hlive
      obtain ⟨hold, _⟩ := live_some hlive
      split
      · split
        · exact rawIn_set
        · exact Or.inl
      · by_cases holder : old.loc.isOlder r.loc = true
        · simp only [holder, if_true]
          by_cases hmg : c.maxGet ≤ old.att + 1
          · simp only [hmg, if_true]; exact rawIn_set
          · simp only [hmg, if_false]
            intro h
            rcases ih _ _ q l h with h1 | ⟨hq, hl⟩
            · exact rawIn_set h1
            · exact Or.inl ⟨_, old, hold, hq.symm, hl.symm⟩
        · have hno : old.loc.isOlder r.loc = false := by simpa using holder
          simp only [hno]
          by_cases hmg : c.maxGet ≤ r.att + 1
          · simp [hmg]; exact Or.inl
          · simp [hmg]
            intro h
            exact ih t { r with att := r.att + 1 } q l h

/-- A discarded record is never newer than the record the loop was entered with. -/
theorem putAux_discard_le (c : Cfg) (thr : Int) : ∀ (fuel : Nat) (t : Tab) (r d : Rec),
    (putAux c thr fuel t r).2.discarded = some d → r.loc.isOlder d.loc = false := by
  intro fuel
  induction fuel with
  | zero =>
    intro t r d h
    simp [putAux, Outcome.discarded] at h
    subst h; exact older_irrefl _
  | succ fuel ih =>
    intro t r d
    unfold putAux
    simp only []
    split
    · intro h; simp [Outcome.discarded] at h
    · rename_i old hlive
      split
      · split <;> (intro h; simp [Outcome.discarded] at h)
      · by_cases holder : old.loc.isOlder r.loc = true
        · simp only [holder, if_true]
          by_cases hmg : c.maxGet ≤ old.att + 1
          · simp only [hmg, if_true]
            intro h
            simp [Outcome.discarded] at h
            subst h
            exact older_asymm holder
          · simp only [hmg, if_false]
            intro h
            have := ih _ _ d h
            -- old ≥ d (not older: old.isOlder d = false), old < r  ⇒  ¬ r < d
            simp at this
            simp [Location.isOlder] at *
            omega
        · have hno : old.loc.isOlder r.loc = false := by simpa using holder
          simp only [hno]
          by_cases hmg : c.maxGet ≤ r.att + 1
          · simp [hmg]
            intro h
            simp [Outcome.discarded] at h
            subst h
            exact older_irrefl _
          · simp [hmg]
            intro h
            exact ih t { r with att := r.att + 1 } d h

end BB.Index
