import BB.Model.Sharding
/-!
# The `GetShard` fold over the hash-sorted shard list: who wins, and why only membership matters

Generic in the score function `sc`.  The central notion is `Wins sc l e`: `e`
is a member of `l` with a positive score that beats every other member, ties
going to the smaller key hash.  `Wins` mentions only *membership* in `l`, and
(`chosen_of_wins`) whenever some member wins, `GetShard` over the sorted
internal list returns that member's position in the argument list.  Order
independence, removal and addition are then facts about membership.
-/
namespace BB.Sharding

variable {α β : Type}

/-- Score of an entry. -/
abbrev scE (sc : UInt64 → UInt32 → UInt64) (e : Entry α) : UInt64 := sc e.hash e.weight

/-- The order `sort.Slice` establishes. -/
abbrev Sorted (l : List (Entry α)) : Prop := l.Pairwise fun a b => a.hash < b.hash

/-- No two shards share a key hash (what the constructor's `keyMap` check enforces). -/
abbrev Distinct (l : List (Entry α)) : Prop := l.Pairwise fun a b => a.hash ≠ b.hash

/-! ### The fold -/

theorem step_keep (sc : UInt64 → UInt32 → UInt64) (b : UInt64) (t : α) (x : Entry α)
    (h : scE sc x ≤ b) : step sc (b, t) x = (b, t) := by
  unfold step
  simp only []
  rw [if_neg]
  exact UInt64.not_lt.mpr h

theorem foldl_keep (sc : UInt64 → UInt32 → UInt64) (l : List (Entry α)) (b : UInt64) (t : α)
    (h : ∀ x ∈ l, scE sc x ≤ b) : l.foldl (step sc) (b, t) = (b, t) := by
  induction l with
  | nil => rfl
  | cons x xs ih =>
    rw [List.foldl_cons, step_keep sc b t x (h x (List.mem_cons_self ..))]
    exact ih (fun y hy => h y (List.mem_cons_of_mem _ hy))

theorem foldl_fst_lt (sc : UInt64 → UInt32 → UInt64) (l : List (Entry α)) (acc : UInt64 × α) (m : UInt64)
    (h0 : acc.1 < m) (h : ∀ x ∈ l, scE sc x < m) : (l.foldl (step sc) acc).1 < m := by
  induction l generalizing acc with
  | nil => exact h0
  | cons x xs ih =>
    rw [List.foldl_cons]
    apply ih
    · unfold step
      simp only []
      split
      · exact h x (List.mem_cons_self ..)
      · exact h0
    · intro y hy
      exact h y (List.mem_cons_of_mem _ hy)

/-- If `e` strictly beats the start value and everything before it, and nothing after it is
strictly better, the loop ends with `e`. -/
theorem foldl_of_split (sc : UInt64 → UInt32 → UInt64) (l1 l2 : List (Entry α)) (e : Entry α) (acc : UInt64 × α)
    (h0 : acc.1 < scE sc e) (h1 : ∀ x ∈ l1, scE sc x < scE sc e) (h2 : ∀ x ∈ l2, scE sc x ≤ scE sc e) :
    (l1 ++ e :: l2).foldl (step sc) acc = (scE sc e, e.tag) := by
  rw [List.foldl_append, List.foldl_cons]
  have hlt := foldl_fst_lt sc l1 acc _ h0 h1
  have hs : step sc (l1.foldl (step sc) acc) e = (scE sc e, e.tag) := by
    unfold step
    simp only []
    rw [if_pos]
    exact hlt
  rw [hs]
  exact foldl_keep sc l2 _ _ h2

/-- Conversely the loop either never updates (nothing beats the start value) or ends with such
an `e`. -/
theorem foldl_spec (sc : UInt64 → UInt32 → UInt64) (l : List (Entry α)) (acc : UInt64 × α) :
    (l.foldl (step sc) acc = acc ∧ ∀ x ∈ l, scE sc x ≤ acc.1) ∨
    ∃ l1 e l2, l = l1 ++ e :: l2 ∧ acc.1 < scE sc e ∧ (∀ x ∈ l1, scE sc x < scE sc e) ∧
      (∀ x ∈ l2, scE sc x ≤ scE sc e) := by
  induction l generalizing acc with
  | nil => exact Or.inl ⟨rfl, fun x hx => absurd hx List.not_mem_nil⟩
  | cons x xs ih =>
    by_cases hx : acc.1 < scE sc x
    · -- the loop takes x
      have hs : step sc acc x = (scE sc x, x.tag) := by
        unfold step
        simp only []
        rw [if_pos]
        exact hx
      rcases ih (scE sc x, x.tag) with ⟨_, hall⟩ | ⟨l1, e, l2, hl, hlt, h1, h2⟩
      · exact Or.inr ⟨[], x, xs, rfl, hx, fun y hy => absurd hy List.not_mem_nil, hall⟩
      · refine Or.inr ⟨x :: l1, e, l2, by rw [hl]; rfl, UInt64.lt_trans hx hlt, ?_, h2⟩
        intro y hy
        rcases List.mem_cons.mp hy with rfl | hy
        · exact hlt
        · exact h1 y hy
    · have hle : scE sc x ≤ acc.1 := UInt64.not_lt.mp hx
      have hs : step sc acc x = acc := step_keep sc acc.1 acc.2 x hle
      rcases ih acc with ⟨heq, hall⟩ | ⟨l1, e, l2, hl, hlt, h1, h2⟩
      · left
        refine ⟨by rw [List.foldl_cons, hs, heq], ?_⟩
        intro y hy
        rcases List.mem_cons.mp hy with rfl | hy
        · exact hle
        · exact hall y hy
      · refine Or.inr ⟨x :: l1, e, l2, by rw [hl]; rfl, hlt, ?_, h2⟩
        intro y hy
        rcases List.mem_cons.mp hy with rfl | hy
        · rw [UInt64.lt_iff_toNat_lt] at hlt ⊢
          rw [UInt64.le_iff_toNat_le] at hle
          omega
        · exact h1 y hy

/-- Tags ride along: relabelling the tags relabels the result. -/
theorem foldl_mapTag (sc : UInt64 → UInt32 → UInt64) (f : α → β) (l : List (Entry α)) (b : UInt64) (t : α) :
    (l.map (Entry.mapTag f)).foldl (step sc) (b, f t) =
      ((l.foldl (step sc) (b, t)).1, f (l.foldl (step sc) (b, t)).2) := by
  induction l generalizing b t with
  | nil => rfl
  | cons x xs ih =>
    rw [List.map_cons, List.foldl_cons, List.foldl_cons]
    by_cases hx : b < scE sc x
    · have h1 : step sc (b, f t) (Entry.mapTag f x) = (scE sc x, f x.tag) := by
        unfold step Entry.mapTag
        simp only []
        rw [if_pos]
        exact hx
      have h2 : step sc (b, t) x = (scE sc x, x.tag) := by
        unfold step
        simp only []
        rw [if_pos]
        exact hx
      rw [h1, h2]
      exact ih _ _
    · have hle : scE sc x ≤ b := UInt64.not_lt.mp hx
      have h1 : step sc (b, f t) (Entry.mapTag f x) = (b, f t) := step_keep sc b (f t) (Entry.mapTag f x) hle
      rw [h1, step_keep sc b t x hle]
      exact ih _ _

theorem pick_mapTag (sc : UInt64 → UInt32 → UInt64) (f : α → β) (l : List (Entry α)) (d : α) :
    pick sc (l.map (Entry.mapTag f)) (f d) = ((pick sc l d).1, f (pick sc l d).2) :=
  foldl_mapTag sc f l 0 d

/-! ### The sort -/

theorem mem_insertE (e x : Entry α) (l : List (Entry α)) : x ∈ insertE e l ↔ x = e ∨ x ∈ l := by
  induction l with
  | nil => simp [insertE]
  | cons y ys ih =>
    unfold insertE
    split
    · simp
    · rw [List.mem_cons, ih, List.mem_cons]
      constructor
      · rintro (h | h | h)
        · exact Or.inr (Or.inl h)
        · exact Or.inl h
        · exact Or.inr (Or.inr h)
      · rintro (h | h | h)
        · exact Or.inr (Or.inl h)
        · exact Or.inl h
        · exact Or.inr (Or.inr h)

theorem mem_sortE (x : Entry α) (l : List (Entry α)) : x ∈ sortE l ↔ x ∈ l := by
  induction l with
  | nil => simp [sortE]
  | cons y ys ih =>
    show x ∈ insertE y (sortE ys) ↔ _
    rw [mem_insertE, ih, List.mem_cons]

theorem sorted_insertE (e : Entry α) (l : List (Entry α)) (hs : Sorted l) (hd : ∀ x ∈ l, x.hash ≠ e.hash) :
    Sorted (insertE e l) := by
  induction l with
  | nil => simp [insertE, Sorted]
  | cons y ys ih =>
    obtain ⟨hy, hys⟩ := List.pairwise_cons.mp hs
    unfold insertE
    split
    · rename_i hlt
      refine List.pairwise_cons.mpr ⟨?_, hs⟩
      intro z hz
      rcases List.mem_cons.mp hz with rfl | hz
      · exact hlt
      · exact UInt64.lt_trans hlt (hy z hz)
    · rename_i hnlt
      refine List.pairwise_cons.mpr ⟨?_, ih hys (fun x hx => hd x (List.mem_cons_of_mem _ hx))⟩
      intro z hz
      rcases (mem_insertE e z ys).mp hz with rfl | hz
      · exact UInt64.lt_of_le_of_ne (UInt64.not_lt.mp hnlt) (hd y (List.mem_cons_self ..))
      · exact hy z hz

theorem sorted_sortE (l : List (Entry α)) (hd : Distinct l) : Sorted (sortE l) := by
  induction l with
  | nil => simp [sortE, Sorted]
  | cons y ys ih =>
    obtain ⟨hy, hys⟩ := List.pairwise_cons.mp hd
    show Sorted (insertE y (sortE ys))
    apply sorted_insertE y _ (ih hys)
    intro x hx
    exact fun h => hy x ((mem_sortE x ys).mp hx) h.symm

theorem insertE_mapTag (f : α → β) (e : Entry α) (l : List (Entry α)) :
    insertE (Entry.mapTag f e) (l.map (Entry.mapTag f)) = (insertE e l).map (Entry.mapTag f) := by
  induction l with
  | nil => rfl
  | cons y ys ih =>
    rw [List.map_cons]
    unfold insertE
    by_cases h : e.hash < y.hash
    · have h' : (Entry.mapTag f e).hash < (Entry.mapTag f y).hash := h
      rw [if_pos h, if_pos h']
      rfl
    · have h' : ¬ (Entry.mapTag f e).hash < (Entry.mapTag f y).hash := h
      rw [if_neg h, if_neg h', List.map_cons, ih]

theorem sortE_mapTag (f : α → β) (l : List (Entry α)) :
    sortE (l.map (Entry.mapTag f)) = (sortE l).map (Entry.mapTag f) := by
  induction l with
  | nil => rfl
  | cons y ys ih =>
    show insertE (Entry.mapTag f y) (sortE (ys.map (Entry.mapTag f))) = (insertE y (sortE ys)).map _
    rw [ih, insertE_mapTag]

/-! ### Winners -/

/-- `e` is the member of `l` with the best positive score, ties going to the smaller key hash. -/
def Wins (sc : UInt64 → UInt32 → UInt64) (l : List (Entry α)) (e : Entry α) : Prop :=
  e ∈ l ∧ 0 < scE sc e ∧ ∀ x ∈ l, scE sc x < scE sc e ∨ (scE sc x = scE sc e ∧ e.hash ≤ x.hash)

/-- `Wins` only looks at membership. -/
theorem Wins.of_mem_iff {sc : UInt64 → UInt32 → UInt64} {l l' : List (Entry α)} {e : Entry α}
    (h : Wins sc l e) (hm : ∀ x, x ∈ l' ↔ x ∈ l) : Wins sc l' e :=
  ⟨(hm e).mpr h.1, h.2.1, fun x hx => h.2.2 x ((hm x).mp hx)⟩

/-- ... and survives shrinking the list around the winner. -/
theorem Wins.of_subset {sc : UInt64 → UInt32 → UInt64} {l l' : List (Entry α)} {e : Entry α}
    (h : Wins sc l e) (he : e ∈ l') (hsub : ∀ x ∈ l', x ∈ l) : Wins sc l' e :=
  ⟨he, h.2.1, fun x hx => h.2.2 x (hsub x hx)⟩

theorem Wins.mapTag {sc : UInt64 → UInt32 → UInt64} {l : List (Entry α)} {e : Entry α} (f : α → β)
    (h : Wins sc l e) : Wins sc (l.map (Entry.mapTag f)) (Entry.mapTag f e) := by
  refine ⟨List.mem_map_of_mem h.1, h.2.1, ?_⟩
  intro x hx
  obtain ⟨y, hy, rfl⟩ := List.mem_map.mp hx
  exact h.2.2 y hy

/-- Over a hash-sorted list the loop returns the winner, whatever the initial index. -/
theorem pick_of_wins (sc : UInt64 → UInt32 → UInt64) (l : List (Entry α)) (e : Entry α) (d : α)
    (hs : Sorted l) (hw : Wins sc l e) : pick sc l d = (scE sc e, e.tag) := by
  obtain ⟨hmem, hpos, hall⟩ := hw
  obtain ⟨l1, l2, rfl⟩ := List.append_of_mem hmem
  obtain ⟨_, _, hcross⟩ := List.pairwise_append.mp hs
  apply foldl_of_split sc l1 l2 e (0, d) hpos
  · intro x hx
    rcases hall x (List.mem_append_left _ hx) with h | ⟨_, hle⟩
    · exact h
    · have hlt : x.hash < e.hash := hcross x hx e (List.mem_cons_self ..)
      rw [UInt64.lt_iff_toNat_lt] at hlt
      rw [UInt64.le_iff_toNat_le] at hle
      omega
  · intro x hx
    rcases hall x (List.mem_append_right _ (List.mem_cons_of_mem _ hx)) with h | ⟨h, _⟩
    · exact UInt64.le_of_lt h
    · rw [h]; exact UInt64.le_refl _

/-- In a hash-sorted list with a positive score there is a winner. -/
theorem wins_exists_sorted (sc : UInt64 → UInt32 → UInt64) (l : List (Entry α)) (hs : Sorted l)
    (hpos : ∃ x ∈ l, 0 < scE sc x) : ∃ e, Wins sc l e := by
  obtain ⟨p, hp, hppos⟩ := hpos
  rcases foldl_spec sc l (0, p.tag) with ⟨_, hall⟩ | ⟨l1, e, l2, rfl, hlt, h1, h2⟩
  · have : scE sc p ≤ 0 := hall p hp
    rw [UInt64.le_iff_toNat_le] at this
    rw [UInt64.lt_iff_toNat_lt] at hppos
    exact absurd this (by omega)
  · refine ⟨e, List.mem_append_right _ (List.mem_cons_self ..), hlt, ?_⟩
    obtain ⟨_, hs2, _⟩ := List.pairwise_append.mp hs
    obtain ⟨hafter, _⟩ := List.pairwise_cons.mp hs2
    intro x hx
    rcases List.mem_append.mp hx with hx | hx
    · exact Or.inl (h1 x hx)
    · rcases List.mem_cons.mp hx with rfl | hx
      · exact Or.inr ⟨rfl, UInt64.le_refl _⟩
      · by_cases heq : scE sc x = scE sc e
        · exact Or.inr ⟨heq, UInt64.le_of_lt (hafter x hx)⟩
        · exact Or.inl (UInt64.lt_of_le_of_ne (h2 x hx) heq)

/-- With distinct key hashes and a positive score somewhere, some member wins. -/
theorem wins_exists (sc : UInt64 → UInt32 → UInt64) (l : List (Entry α)) (hd : Distinct l)
    (hpos : ∃ x ∈ l, 0 < scE sc x) : ∃ e, Wins sc l e := by
  obtain ⟨p, hp, hppos⟩ := hpos
  obtain ⟨e, he⟩ := wins_exists_sorted sc (sortE l) (sorted_sortE l hd) ⟨p, (mem_sortE p l).mpr hp, hppos⟩
  exact ⟨e, he.of_mem_iff (fun x => (mem_sortE x l).symm)⟩

/-- At most one member wins. -/
theorem wins_unique (sc : UInt64 → UInt32 → UInt64) (l : List (Entry α)) (hd : Distinct l) (e e' : Entry α)
    (h : Wins sc l e) (h' : Wins sc l e') : e.tag = e'.tag := by
  have hs := sorted_sortE l hd
  have a := pick_of_wins sc (sortE l) e e.tag hs (h.of_mem_iff (fun x => mem_sortE x l))
  have b := pick_of_wins sc (sortE l) e' e.tag hs (h'.of_mem_iff (fun x => mem_sortE x l))
  rw [a] at b
  exact (Prod.mk.inj b).2

/-! ### From the index `GetShard` returns to the key of the chosen shard -/

/-- The internal list, with each index replaced by the key found at that position of the
argument list, is the argument list sorted. -/
theorem selOf_keys (ss : List (Entry α)) :
    (selOf ss).map (Entry.mapTag fun i => (ss[i]?).map Entry.tag) = sortE (ss.map (Entry.mapTag some)) := by
  unfold selOf
  rw [← sortE_mapTag, List.map_map]
  congr 1
  have h1 : ss.zipIdx.map (Entry.mapTag (fun i => (ss[i]?).map Entry.tag) ∘ fun p => (⟨p.1.hash, p.1.weight, p.2⟩ : Entry Nat))
      = ss.zipIdx.map (Entry.mapTag some ∘ Prod.fst) := by
    apply List.map_congr_left
    rintro ⟨s, i⟩ hmem
    have hi : ss[i]? = some s := List.mk_mem_zipIdx_iff_getElem?.mp hmem
    show Entry.mapTag (fun i => (ss[i]?).map Entry.tag) ⟨s.hash, s.weight, i⟩ = Entry.mapTag some s
    unfold Entry.mapTag
    simp only [hi, Option.map_some]
  rw [h1, ← List.map_map, List.zipIdx_map_fst]

/-- `chosenKey` without indices: run the loop over the key-tagged sorted list, starting from the
key at position 0 (this start value is what an all-zero score would expose). -/
theorem chosenKey_eq (sc : UInt64 → UInt32 → UInt64) (ss : List (Entry α)) :
    chosenKey sc ss = (pick sc (sortE (ss.map (Entry.mapTag some))) ((ss[0]?).map Entry.tag)).2 := by
  unfold chosenKey getShardG
  rw [← selOf_keys, pick_mapTag sc (fun i => (ss[i]?).map Entry.tag) (selOf ss) 0]

/-- If `s` wins among the shards of the argument list, `GetShard` points at `s`. -/
theorem chosen_of_wins (sc : UInt64 → UInt32 → UInt64) (ss : List (Entry α)) (s : Entry α)
    (hd : Distinct ss) (hw : Wins sc ss s) : chosenKey sc ss = some s.tag := by
  rw [chosenKey_eq]
  have hd' : Distinct (ss.map (Entry.mapTag some)) := List.pairwise_map.mpr hd
  have hw' : Wins sc (sortE (ss.map (Entry.mapTag some))) (Entry.mapTag some s) :=
    (hw.mapTag some).of_mem_iff (fun x => mem_sortE x _)
  rw [pick_of_wins sc _ _ _ (sorted_sortE _ hd') hw']
  rfl

/-- The index `GetShard` returns is a valid position of the argument list. -/
theorem getShardG_lt (sc : UInt64 → UInt32 → UInt64) (ss : List (Entry α)) (hne : ss ≠ []) :
    getShardG sc (selOf ss) < ss.length := by
  have hlen : 0 < ss.length := List.length_pos_iff.mpr hne
  unfold getShardG pick
  rcases foldl_spec sc (selOf ss) (0, 0) with ⟨heq, _⟩ | ⟨l1, e, l2, hl, hlt, h1, h2⟩
  · rw [heq]; exact hlen
  · rw [hl, foldl_of_split sc l1 l2 e (0, 0) hlt h1 h2]
    have hmem : e ∈ selOf ss := by rw [hl]; exact List.mem_append_right _ (List.mem_cons_self ..)
    unfold selOf at hmem
    rw [mem_sortE] at hmem
    obtain ⟨⟨s, i⟩, hp, rfl⟩ := List.mem_map.mp hmem
    have hi : ss[i]? = some s := List.mk_mem_zipIdx_iff_getElem?.mp hp
    obtain ⟨hlt', _⟩ := List.getElem?_eq_some_iff.mp hi
    exact hlt'

/-! ### The constructor -/

theorem collides_false_iff (ss : List (Entry α)) : collides ss = false ↔ Distinct ss := by
  induction ss with
  | nil => simp [collides, Distinct]
  | cons s rest ih =>
    unfold collides
    rw [Bool.or_eq_false_iff, ih, List.any_eq_false]
    show _ ↔ List.Pairwise _ (s :: rest)
    rw [List.pairwise_cons]
    constructor
    · rintro ⟨h, hr⟩
      refine ⟨fun x hx heq => h x hx ?_, hr⟩
      rw [beq_iff_eq]; exact heq.symm
    · rintro ⟨h, hr⟩
      refine ⟨fun x hx hbeq => h x hx ?_, hr⟩
      rw [beq_iff_eq] at hbeq; exact hbeq.symm

/-- The constructor accepts exactly the non-empty lists without key hash collisions, and then
returns `selOf`. -/
theorem newSelector_ok_iff (ss : List (Entry α)) (sel : List (Entry Nat)) :
    newSelector ss = .ok sel ↔ ss ≠ [] ∧ Distinct ss ∧ sel = selOf ss := by
  unfold newSelector
  cases ss with
  | nil => simp
  | cons s rest =>
    simp only [List.isEmpty_cons, Bool.false_eq_true, if_false]
    cases hc : collides (s :: rest) with
    | true =>
      have : ¬ Distinct (s :: rest) := fun h => by
        rw [(collides_false_iff _).mpr h] at hc; cases hc
      simp [this]
    | false =>
      have hd : Distinct (s :: rest) := (collides_false_iff _).mp hc
      simp only [Bool.false_eq_true, if_false]
      constructor
      · intro h
        cases h
        exact ⟨List.cons_ne_nil _ _, hd, rfl⟩
      · rintro ⟨_, _, rfl⟩
        rfl

end BB.Sharding
