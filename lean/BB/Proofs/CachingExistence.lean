import BB.Model.Caching
/-! The existence cache: every entry is justified by an `Add` of its insertion time that no
eviction of the key has followed (`EJust`). -/
namespace BB.Caching

/-- The log contains `added k t` with no later `evicted k`. -/
def JustifiedBy (log : List EEvent) (k : Key) (t : Nat) : Prop :=
  ∃ pre post, log = pre ++ EEvent.added k t :: post ∧ EEvent.evicted k ∉ post

def EJust (c : ECache) : Prop := ∀ k t, c.ins k = some t → JustifiedBy c.log k t

theorem JustifiedBy.snoc {log : List EEvent} {k t : Nat} (ev : EEvent) (hne : ev ≠ .evicted k)
    (h : JustifiedBy log k t) : JustifiedBy (log ++ [ev]) k t := by
  obtain ⟨pre, post, h1, h2⟩ := h
  refine ⟨pre, post ++ [ev], by simp [h1], ?_⟩
  simp only [List.mem_append, List.mem_singleton, not_or]
  exact ⟨h2, fun h => hne h.symm⟩

theorem JustifiedBy.new (log : List EEvent) (k t : Nat) : JustifiedBy (log ++ [.added k t]) k t :=
  ⟨log, [], by simp, by simp⟩

theorem ejust_init (cap dur : Nat) : EJust { cap := cap, dur := dur } := by
  intro k t h; simp at h

theorem ejust_touch {c : ECache} (k : Key) (h : EJust c) : EJust (c.touch k) := h

theorem removeExisting_ins_log (c : ECache) (now : Nat) (ks : List Key) :
    (c.removeExisting now ks).1.ins = c.ins ∧ (c.removeExisting now ks).1.log = c.log ∧
    (c.removeExisting now ks).1.cap = c.cap ∧ (c.removeExisting now ks).1.dur = c.dur ∧
    (c.removeExisting now ks).1.size = c.size := by
  induction ks generalizing c with
  | nil => simp [ECache.removeExisting]
  | cons k ks ih =>
    simp only [ECache.removeExisting]
    split
    · have := ih (c.touch k); simpa [ECache.touch] using this
    · exact ih c

theorem ejust_removeExisting {c : ECache} (now : Nat) (ks : List Key) (h : EJust c) :
    EJust (c.removeExisting now ks).1 := by
  obtain ⟨h1, h2, _⟩ := removeExisting_ins_log c now ks
  intro k t hk; rw [h1] at hk; rw [h2]; exact h k t hk

/-- What `RemoveExisting` hands back: exactly the digests that were not hidden. -/
theorem removeExisting_snd (c : ECache) (now : Nat) (ks : List Key) :
    (c.removeExisting now ks).2 = ks.filter fun k => !c.hides now k := by
  induction ks generalizing c with
  | nil => simp [ECache.removeExisting]
  | cons k ks ih =>
    simp only [ECache.removeExisting]
    have hh : ∀ k', (c.touch k).hides now k' = c.hides now k' := fun _ => rfl
    by_cases hk : c.hides now k = true
    · simp only [hk, if_true, List.filter_cons, Bool.not_true, Bool.false_eq_true, if_false]
      rw [ih]; simp only [hh]
    · have hk' : c.hides now k = false := by simpa using hk
      simp only [hk', Bool.false_eq_true, if_false, List.filter_cons, Bool.not_false, if_true]
      rw [ih]

theorem ejust_evict {c : ECache} (h : EJust c) : EJust c.evict := by
  unfold ECache.evict
  split
  · exact h
  · rename_i hd rest hl
    intro k t hk
    simp only at hk
    split at hk
    · cases hk
    · rename_i hne
      exact (h k t hk).snoc _ (by intro e; cases e; exact hne rfl)

theorem ejust_addOne {c : ECache} (now : Nat) (k : Key) (h : EJust c) : EJust (c.addOne now k) := by
  have h1 : EJust (if c.size ≥ c.cap then c.evict else c) := by split; exact ejust_evict h; exact h
  unfold ECache.addOne
  generalize (if c.size ≥ c.cap then c.evict else c) = c1 at h1
  simp only
  split
  · rename_i t ht
    split
    · intro k' t' hk'
      simp only at hk'
      split at hk'
      · rename_i heq; cases hk'; subst heq; exact JustifiedBy.new _ _ _
      · exact (h1 k' t' hk').snoc _ (by intro e; cases e)
    · intro k' t' hk'
      exact (h1 k' t' hk').snoc _ (by intro e; cases e)
  · intro k' t' hk'
    simp only at hk'
    split at hk'
    · rename_i heq; cases hk'; subst heq; exact JustifiedBy.new _ _ _
    · exact (h1 k' t' hk').snoc _ (by intro e; cases e)

theorem ejust_add {c : ECache} (now : Nat) (ks : List Key) (h : EJust c) : EJust (c.add now ks) := by
  unfold ECache.add
  induction ks generalizing c with
  | nil => exact h
  | cons k ks ih => exact ih (ejust_addOne now k h)

theorem ejust_findMissing {c : ECache} (n1 n2 : Nat) (ds : List Key) (ask) (h : EJust c) :
    EJust (ecFindMissingR c n1 n2 ds ask).1 := by
  unfold ecFindMissingR
  simp only
  split
  · exact ejust_removeExisting n1 ds h
  · exact ejust_add _ _ (ejust_removeExisting n1 ds h)

/-! ### Provenance of `added` events -/

theorem evict_log (c : ECache) : ∃ delta, c.evict.log = c.log ++ delta ∧ (∀ k t, EEvent.added k t ∉ delta) ∧
    c.evict.cap = c.cap ∧ c.evict.dur = c.dur := by
  unfold ECache.evict
  split
  · exact ⟨[], by simp, by simp, rfl, rfl⟩
  · exact ⟨[.evicted _], rfl, by simp, rfl, rfl⟩

theorem addOne_log (c : ECache) (now : Nat) (k : Key) :
    ∃ delta, (c.addOne now k).log = c.log ++ delta ∧ (∀ k' t, EEvent.added k' t ∈ delta → t = now ∧ k' = k) ∧
      (c.addOne now k).cap = c.cap ∧ (c.addOne now k).dur = c.dur := by
  have h1 : ∃ delta, (if c.size ≥ c.cap then c.evict else c).log = c.log ++ delta ∧
      (∀ k t, EEvent.added k t ∉ delta) ∧ (if c.size ≥ c.cap then c.evict else c).cap = c.cap ∧
      (if c.size ≥ c.cap then c.evict else c).dur = c.dur := by
    split
    · exact evict_log c
    · exact ⟨[], by simp, by simp, rfl, rfl⟩
  unfold ECache.addOne
  generalize (if c.size ≥ c.cap then c.evict else c) = c1 at h1
  obtain ⟨d1, e1, e2, e3, e4⟩ := h1
  have key : ∀ k' t, EEvent.added k' t ∈ d1 ++ [EEvent.added k now] → t = now ∧ k' = k := by
    intro k' t hm
    simp only [List.mem_append, List.mem_singleton] at hm
    rcases hm with hm | hm
    · exact absurd hm (e2 k' t)
    · cases hm; exact ⟨rfl, rfl⟩
  simp only
  split
  · split
    · exact ⟨d1 ++ [.added k now], by simp [e1], key, e3, e4⟩
    · exact ⟨d1 ++ [.added k now], by simp [e1], key, e3, e4⟩
  · exact ⟨d1 ++ [.added k now], by simp [e1], key, e3, e4⟩

theorem add_log (c : ECache) (now : Nat) (ks : List Key) :
    ∃ delta, (c.add now ks).log = c.log ++ delta ∧ (∀ k t, EEvent.added k t ∈ delta → t = now ∧ k ∈ ks) ∧
      (c.add now ks).cap = c.cap ∧ (c.add now ks).dur = c.dur := by
  unfold ECache.add
  induction ks generalizing c with
  | nil => exact ⟨[], by simp, by simp, rfl, rfl⟩
  | cons k ks ih =>
    obtain ⟨d1, a1, a2, a3, a4⟩ := addOne_log c now k
    obtain ⟨d2, b1, b2, b3, b4⟩ := ih (c.addOne now k)
    refine ⟨d1 ++ d2, by simp only [List.foldl_cons]; rw [b1, a1]; simp, ?_, by simp only [List.foldl_cons]; rw [b3, a3],
      by simp only [List.foldl_cons]; rw [b4, a4]⟩
    intro k' t hm
    simp only [List.mem_append] at hm
    rcases hm with hm | hm
    · obtain ⟨x, y⟩ := a2 k' t hm; exact ⟨x, by simp [y]⟩
    · obtain ⟨x, y⟩ := b2 k' t hm; exact ⟨x, by simp [y]⟩

/-- `Add` is only called with digests the backend was asked about and did not report missing. -/
theorem findMissing_log (c : ECache) (n1 n2 : Nat) (ds : List Key) (ask : List Key → Except Err (List Key)) :
    ∃ delta, (ecFindMissingR c n1 n2 ds ask).1.log = c.log ++ delta ∧
      (ecFindMissingR c n1 n2 ds ask).1.cap = c.cap ∧ (ecFindMissingR c n1 n2 ds ask).1.dur = c.dur ∧
      ∀ k t, EEvent.added k t ∈ delta → t = n2 ∧ k ∈ ds ∧ c.hides n1 k = false ∧
        ∃ missing, ask (ds.filter fun k => !c.hides n1 k) = .ok missing ∧ k ∉ missing := by
  obtain ⟨r1, r2, r3, r4, _⟩ := removeExisting_ins_log c n1 ds
  have r5 := removeExisting_snd c n1 ds
  unfold ecFindMissingR
  simp only
  split
  · exact ⟨[], by simp [r2], r3, r4, by simp⟩
  · rename_i missing hask
    obtain ⟨d, a1, a2, a3, a4⟩ := add_log (c.removeExisting n1 ds).1 n2
      ((c.removeExisting n1 ds).2.filter fun k => !missing.contains k)
    refine ⟨d, by rw [a1, r2], by rw [a3, r3], by rw [a4, r4], ?_⟩
    intro k t hm
    obtain ⟨x, y⟩ := a2 k t hm
    rw [r5] at y hask
    simp only [List.mem_filter, Bool.not_eq_true', List.contains_eq_mem, decide_eq_false_iff_not] at y
    exact ⟨x, y.1.1, y.1.2, missing, hask, y.2⟩

end BB.Caching
