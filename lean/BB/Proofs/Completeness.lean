import BB.Model.Completeness
/-!
Helper lemmas for C13, part 1: what a run of `checkCompleteness` that ends without error
guarantees (every step is an extension of the trace by accepted calls that keeps every digest
"covered": still pending or already in a batch that was answered `ok []`).
-/
namespace BB.Completeness

/-- `d` occurred in a `FindMissing` batch of the trace whose answer was the empty set. -/
def Checked (tr : List Call) (d : Dg) : Prop := ∃ b, Call.fm b (.ok []) ∈ tr ∧ d ∈ b

/-- `d` is pending or already checked. -/
def Covered (s : St) (d : Dg) : Prop := d ∈ s.pending ∨ Checked s.trace d

/-- A served Tree the walk accepts: read to its end without error, no rejected field, no
`Directory` above the maximum message size. -/
def Clean (cfg : Cfg) (b : Blob) : Prop :=
  b.readErr = none ∧ Ev.malformed ∉ b.evs ∧ ∀ d, Ev.dir d ∈ b.evs → d.size ≤ cfg.maxMsg

/-- A CAS call whose reply lets the decorator go on. -/
def GoodCall (cfg : Cfg) : Call → Prop
  | .fm _ a => a = .ok []
  | .get _ b => Clean cfg b

theorem Checked.mono {tr tr' : List Call} {d : Dg} (h : ∀ c, c ∈ tr → c ∈ tr') :
    Checked tr d → Checked tr' d := fun ⟨b, hb, hd⟩ => ⟨b, h _ hb, hd⟩

structure Ext (cfg : Cfg) (s s' : St) : Prop where
  suf : ∃ suf, s'.trace = s.trace ++ suf ∧ ∀ c, c ∈ suf → GoodCall cfg c
  cov : ∀ d, Covered s d → Covered s' d

theorem Ext.refl (cfg : Cfg) (s : St) : Ext cfg s s :=
  ⟨⟨[], by simp, by simp⟩, fun _ h => h⟩

theorem Ext.trans {cfg : Cfg} {a b c : St} (h1 : Ext cfg a b) (h2 : Ext cfg b c) : Ext cfg a c := by
  obtain ⟨s1, e1, g1⟩ := h1.suf
  obtain ⟨s2, e2, g2⟩ := h2.suf
  refine ⟨⟨s1 ++ s2, by rw [e2, e1, List.append_assoc], ?_⟩, fun d h => h2.cov d (h1.cov d h)⟩
  intro c hc
  rcases List.mem_append.1 hc with h | h
  · exact g1 c h
  · exact g2 c h

theorem Ext.mem {cfg : Cfg} {s s' : St} (h : Ext cfg s s') {c : Call} (hc : c ∈ s.trace) : c ∈ s'.trace := by
  obtain ⟨suf, e, _⟩ := h.suf
  rw [e]; exact List.mem_append_left _ hc

theorem Ext.checked {cfg : Cfg} {s s' : St} (h : Ext cfg s s') {d : Dg} (hc : Checked s.trace d) :
    Checked s'.trace d := hc.mono fun _ => h.mem

/-! ### finalize -/

theorem finalize_trace (cas : Cas) (s : St) :
    (finalize cas s).1.trace = s.trace ++ [Call.fm s.pending (cas.findMissing s.trace.length s.pending)] ∧
    (finalize cas s).1.pending = s.pending := by
  unfold finalize
  dsimp only
  split <;> simp

theorem finalize_ok {cas : Cas} {s s' : St} (h : finalize cas s = (s', none)) :
    s'.pending = s.pending ∧ s'.trace = s.trace ++ [Call.fm s.pending (.ok [])] := by
  unfold finalize at h
  dsimp only at h
  split at h
  · simp at h
  · rename_i hans
    simp only [Prod.mk.injEq, and_true] at h
    subst h
    simp [hans]
  · simp at h

theorem finalize_err {cas : Cas} {s s' : St} {c : Code} (h : finalize cas s = (s', some c)) :
    (cas.findMissing s.trace.length s.pending = .err c) ∨
    (c = notFound ∧ ∃ x xs, cas.findMissing s.trace.length s.pending = .ok (x :: xs)) := by
  unfold finalize at h
  dsimp only at h
  split at h
  · rename_i c' hans
    simp only [Prod.mk.injEq, Option.some.injEq] at h
    exact Or.inl (h.2 ▸ hans)
  · simp at h
  · rename_i x xs hans
    simp only [Prod.mk.injEq, Option.some.injEq] at h
    exact Or.inr ⟨h.2.symm, x, xs, hans⟩

theorem finalize_ext {cfg : Cfg} {cas : Cas} {s s' : St} (h : finalize cas s = (s', none)) :
    Ext cfg s s' ∧ ∀ d, Covered s d → Checked s'.trace d := by
  obtain ⟨hp, ht⟩ := finalize_ok h
  have hmem : ∀ c, c ∈ s.trace → c ∈ s'.trace := fun c hc => by rw [ht]; exact List.mem_append_left _ hc
  have hchk : ∀ d, Covered s d → Checked s'.trace d := by
    intro d hd
    rcases hd with hd | hd
    · exact ⟨s.pending, by rw [ht]; simp, hd⟩
    · exact hd.mono hmem
  refine ⟨⟨⟨_, ht, ?_⟩, fun d hd => Or.inr (hchk d hd)⟩, hchk⟩
  intro c hc
  simp only [List.mem_singleton] at hc
  subst hc
  rfl

/-! ### add / addAll -/

theorem add_ok {cfg : Cfg} {bs : Nat} {cas : Cas} {s s' : St} {od : OD} (h : add bs cas s od = (s', none)) :
    Ext cfg s s' ∧ od ≠ some .bad ∧ ∀ d, od = some (.good d) → Covered s' d := by
  match od with
  | none =>
    simp only [add, Prod.mk.injEq, and_true] at h
    subst h
    exact ⟨Ext.refl _ _, by simp, by simp⟩
  | some .bad => simp [add] at h
  | some (.good d) =>
    simp only [add] at h
    refine ⟨?_, by simp, ?_⟩
    · split at h
      · cases hf : finalize cas s with
        | mk s1 r =>
          rw [hf] at h
          cases r with
          | some c => simp at h
          | none =>
            simp only [Prod.mk.injEq, and_true] at h
            subst h
            obtain ⟨he, hc⟩ := finalize_ext (cfg := cfg) hf
            exact ⟨he.suf, fun x hx => Or.inr (hc x hx)⟩
      · simp only [Prod.mk.injEq, and_true] at h
        subst h
        split
        · exact Ext.refl _ _
        · exact ⟨⟨[], by simp, by simp⟩, fun x hx => hx.elim (fun h => Or.inl (List.mem_append_left _ h)) Or.inr⟩
    · intro x hx
      simp only [Option.some.injEq, PD.good.injEq] at hx
      subst hx
      split at h
      · cases hf : finalize cas s with
        | mk s1 r =>
          rw [hf] at h
          cases r with
          | some c => simp at h
          | none =>
            simp only [Prod.mk.injEq, and_true] at h
            subst h
            exact Or.inl (by simp)
      · simp only [Prod.mk.injEq, and_true] at h
        subst h
        split
        · rename_i hm; exact Or.inl hm
        · exact Or.inl (by simp)

theorem addAll_ok {cfg : Cfg} {bs : Nat} {cas : Cas} {ods : List OD} {s s' : St}
    (h : addAll bs cas s ods = (s', none)) :
    Ext cfg s s' ∧ some PD.bad ∉ ods ∧ ∀ d, some (PD.good d) ∈ ods → Covered s' d := by
  induction ods generalizing s with
  | nil =>
    simp only [addAll, Prod.mk.injEq, and_true] at h
    subst h
    exact ⟨Ext.refl _ _, by simp, by simp⟩
  | cons o os ih =>
    simp only [addAll] at h
    cases ha : add bs cas s o with
    | mk s1 r =>
      rw [ha] at h
      cases r with
      | some c => simp at h
      | none =>
        obtain ⟨e1, nb, cv⟩ := add_ok (cfg := cfg) ha
        obtain ⟨e2, nb2, cv2⟩ := ih h
        refine ⟨e1.trans e2, ?_, ?_⟩
        · intro hm
          rcases List.mem_cons.1 hm with hm | hm
          · exact nb hm.symm
          · exact nb2 hm
        · intro d hd
          rcases List.mem_cons.1 hd with hd | hd
          · exact e2.cov d (cv d hd.symm)
          · exact cv2 d hd

/-! ### the walk over one Tree -/

/-- What a successful walk established about one `Directory`. -/
def DirDone (cfg : Cfg) (wd : Bool) (P : Dg → Prop) (d : Dir) : Prop :=
  d.size ≤ cfg.maxMsg ∧ some PD.bad ∉ dirDigests wd d ∧ ∀ x, some (PD.good x) ∈ dirDigests wd d → P x

theorem walk_ok {cfg : Cfg} {cas : Cas} {wd : Bool} {evs : List Ev} {s s' : St}
    (h : walk cfg cas wd s evs = (s', none)) :
    Ext cfg s s' ∧ Ev.malformed ∉ evs ∧ ∀ d, Ev.dir d ∈ evs → DirDone cfg wd (Covered s') d := by
  induction evs generalizing s with
  | nil =>
    simp only [walk, Prod.mk.injEq, and_true] at h
    subst h
    exact ⟨Ext.refl _ _, by simp, by simp⟩
  | cons e es ih =>
    match e with
    | .skip =>
      simp only [walk] at h
      obtain ⟨e1, nm, dd⟩ := ih h
      exact ⟨e1, by simpa using nm, by intro d hd; simp at hd; exact dd d hd⟩
    | .malformed => simp [walk] at h
    | .dir d0 =>
      simp only [walk] at h
      split at h
      · simp at h
      · rename_i hsz
        cases ha : addAll cfg.batchSize cas s (dirDigests wd d0) with
        | mk s1 r =>
          rw [ha] at h
          cases r with
          | some c => simp at h
          | none =>
            obtain ⟨e1, nb, cv⟩ := addAll_ok (cfg := cfg) ha
            obtain ⟨e2, nm, dd⟩ := ih h
            refine ⟨e1.trans e2, by simpa using nm, ?_⟩
            intro d hd
            simp only [List.mem_cons, Ev.dir.injEq] at hd
            rcases hd with hd | hd
            · subst hd
              exact ⟨Nat.le_of_not_lt hsz, nb, fun x hx => e2.cov x (cv x hx)⟩
            · exact dd d hd

/-- What a successful run established about one output directory. -/
def OutDirDone (cfg : Cfg) (tr : List Call) (P : Dg → Prop) (od : OutDir) : Prop :=
  ∃ t blob, od.tree = some (.good t) ∧ Call.get t blob ∈ tr ∧ Clean cfg blob ∧
    ∀ d, Ev.dir d ∈ blob.evs → DirDone cfg od.root.isSome P d

theorem OutDirDone.mono {cfg : Cfg} {tr tr' : List Call} {P Q : Dg → Prop} {od : OutDir}
    (ht : ∀ c, c ∈ tr → c ∈ tr') (hp : ∀ x, P x → Q x) (h : OutDirDone cfg tr P od) : OutDirDone cfg tr' Q od := by
  obtain ⟨t, blob, h1, h2, h3, h4⟩ := h
  exact ⟨t, blob, h1, ht _ h2, h3, fun d hd => ⟨(h4 d hd).1, (h4 d hd).2.1, fun x hx => hp x ((h4 d hd).2.2 x hx)⟩⟩

def treeSize (od : OutDir) : Nat :=
  match od.tree with
  | some (.good t) => t.size
  | _ => 0

theorem checkTree_ok {cfg : Cfg} {cas : Cas} {s s' : St} {rem rem' : Nat} {od : OutDir}
    (h : checkTree cfg cas s rem od = (s', none, rem')) :
    Ext cfg s s' ∧ treeSize od ≤ rem ∧ rem' = rem - treeSize od ∧ OutDirDone cfg s'.trace (Covered s') od := by
  unfold checkTree at h
  split at h
  · simp at h
  · simp at h
  · rename_i t ht
    split at h
    · simp at h
    · rename_i hsz
      dsimp only at h
      cases hw : walk cfg cas od.root.isSome { s with trace := s.trace ++ [Call.get t (cas.get s.trace.length t)] }
          (cas.get s.trace.length t).evs with
      | mk s2 r =>
        rw [hw] at h
        cases r with
        | some c => simp at h
        | none =>
          simp only at h
          split at h
          · simp at h
          · rename_i hre
            simp only [Prod.mk.injEq, true_and] at h
            obtain ⟨hs, hr⟩ := h
            subst hs
            obtain ⟨e1, nm, dd⟩ := walk_ok hw
            have hclean : Clean cfg (cas.get s.trace.length t) := ⟨hre, nm, fun d hd => (dd d hd).1⟩
            have hts : treeSize od = t.size := by simp [treeSize, ht]
            refine ⟨?_, by rw [hts]; exact Nat.le_of_not_lt hsz, by rw [hts]; exact hr.symm, ?_⟩
            · obtain ⟨suf, es, gs⟩ := e1.suf
              refine ⟨⟨Call.get t (cas.get s.trace.length t) :: suf, by rw [es]; simp, ?_⟩, ?_⟩
              · intro c hc
                rcases List.mem_cons.1 hc with hc | hc
                · subst hc; exact hclean
                · exact gs c hc
              · intro x hx
                apply e1.cov
                rcases hx with hx | hx
                · exact Or.inl hx
                · exact Or.inr (hx.mono fun c hc => List.mem_append_left _ hc)
            · exact ⟨t, _, ht, e1.mem (by simp), hclean, dd⟩

theorem checkTrees_ok {cfg : Cfg} {cas : Cas} {ods : List OutDir} {s s' : St} {rem : Nat}
    (h : checkTrees cfg cas s rem ods = (s', none)) :
    Ext cfg s s' ∧ (ods.map treeSize).sum ≤ rem ∧ ∀ od, od ∈ ods → OutDirDone cfg s'.trace (Covered s') od := by
  induction ods generalizing s rem with
  | nil =>
    simp only [checkTrees, Prod.mk.injEq, and_true] at h
    subst h
    exact ⟨Ext.refl _ _, by simp, by simp⟩
  | cons o os ih =>
    simp only [checkTrees] at h
    cases hc : checkTree cfg cas s rem o with
    | mk s1 r =>
      obtain ⟨r, rem1⟩ := r
      rw [hc] at h
      cases r with
      | some c => simp at h
      | none =>
        simp only at h
        obtain ⟨e1, hsz, hrem, hd⟩ := checkTree_ok hc
        obtain ⟨e2, hsum, hds⟩ := ih h
        refine ⟨e1.trans e2, ?_, ?_⟩
        · simp only [List.map_cons, List.sum_cons]
          omega
        · intro od hod
          rcases List.mem_cons.1 hod with hod | hod
          · subst hod
            exact hd.mono (fun _ => e2.mem) e2.cov
          · exact hds od hod

/-- Everything a `checkCompleteness` without error guarantees. -/
theorem check_ok {cfg : Cfg} {cas : Cas} {ar : AR} {s : St} (h : check cfg cas ar = (s, none)) :
    (∀ c, c ∈ s.trace → GoodCall cfg c) ∧
    some PD.bad ∉ topDigests ar ∧
    (∀ x, some (PD.good x) ∈ topDigests ar → Checked s.trace x) ∧
    (ar.dirs.map treeSize).sum ≤ cfg.budget ∧
    ∀ od, od ∈ ar.dirs → OutDirDone cfg s.trace (Checked s.trace) od := by
  unfold check at h
  cases h1 : addAll cfg.batchSize cas {} (topDigests ar) with
  | mk s1 r1 =>
    rw [h1] at h
    cases r1 with
    | some c => simp at h
    | none =>
      simp only at h
      cases h2 : checkTrees cfg cas s1 cfg.budget ar.dirs with
      | mk s2 r2 =>
        rw [h2] at h
        cases r2 with
        | some c => simp at h
        | none =>
          simp only at h
          obtain ⟨e1, nb, cv⟩ := addAll_ok (cfg := cfg) h1
          obtain ⟨e2, hsum, hds⟩ := checkTrees_ok h2
          obtain ⟨e3, hchk⟩ := finalize_ext (cfg := cfg) h
          have e := (e1.trans e2).trans e3
          refine ⟨?_, nb, fun x hx => hchk x (e2.cov x (cv x hx)), hsum, ?_⟩
          · obtain ⟨suf, es, gs⟩ := e.suf
            intro c hc
            rw [es] at hc
            simpa using gs c (by simpa using hc)
          · intro od hod
            exact (hds od hod).mono (fun _ => e3.mem) hchk

end BB.Completeness
