import BB.Proofs.PersistStepSwBegin
/-!
# Invariant preservation: `swBegin`, assembled
-/
namespace BB.Persist

theorem inv_swBegin {w w' : World} {owner : Nat} (h : Inv w) (hs : w.swBegin owner = some w') : Inv w' := by
  unfold World.swBegin at hs
  split at hs
  · cases hs
  · rename_i hnone
    split at hs
    · cases hs
    · rename_i howner
      split at hs
      · cases hs
      · cases hg : w.pbl.getPersistentState with
        | none => simp [hg] at hs
        | some r =>
          obtain ⟨f, p'⟩ := r
          simp only [hg, Option.some.injEq] at hs
          subst hs
          obtain ⟨bl, _, _, hp'⟩ := getState_shape hg
          subst hp'
          have hfi := fileInv_capture h hg
          have hswnone : w.sw = none := by
            cases hsw : w.sw with
            | none => rfl
            | some s => rw [hsw] at hnone; simp at hnone
          refine ⟨h.cfg, ⟨h.wfp.last, h.wfp.seedsLen, h.wfp.sync1, h.wfp.sync2, h.wfp.offs, h.wfp.gids⟩,
            ⟨h.own.slots, h.own.range, h.own.gids, h.own.gidLt, h.own.next⟩, ?_, ?_, ?_, ?_, ?_, ?_, ?_⟩
          · exact { h.obj with }
          · exact { h.epoch with }
          · exact { h.dev with }
          · exact { h.recs with }
          · intro f' hf'
            exact { h.files f' hf' with }
          · intro s hsw
            simp only [Option.some.injEq] at hsw
            subst hsw
            refine hfi.mono_held ?_ |> fun x => { x with }
            intro b hb
            exact List.mem_append_left _ hb
          · constructor
            intro s hsw
            simp only [Option.some.injEq] at hsw
            subst hsw
            refine ⟨by simp, by simp, by simp, by simp, by simp, Nat.le_refl _, ?_⟩
            intro ho1
            simp only at ho1
            subst ho1
            simp only [beq_self_eq_true, Bool.true_and, Bool.not_eq_true', Bool.or_eq_false_iff, not_and,
              Bool.not_eq_false] at howner
            by_cases hw1 : w.g1 = .want false
            · exact ⟨false, hw1⟩
            · have : w.g1 = .want true := by
                have := howner (by simpa using hw1)
                simpa using this
              exact ⟨true, this⟩

end BB.Persist
