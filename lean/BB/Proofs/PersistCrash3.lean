import BB.Proofs.PersistCrash2
/-!
# Crash and restart: the surviving objects satisfy `ObjInv` and `EpochInv`
(`C02_no_overwrite_after_restart`: every restored object ends below the restored write cursor)
-/
namespace BB.Persist

theorem ceil_ge (ss wo : Nat) (hss : 0 < ss) : wo ≤ (wo + ss - 1) / ss * ss := by
  have h1 := Nat.div_add_mod (wo + ss - 1) ss
  have h2 := Nat.mod_lt (wo + ss - 1) hss
  rw [Nat.mul_comm] at h1
  omega

theorem objInv_crash {w : World} (h : Inv w) {f : SFile}
    (hc : FileCore w.cfg.ss f (held w.pbl w.zombies) (recsOf w.idx) w.objs w.nextSeed) {free' : List Nat}
    (hown : Own (f.pbl w.cfg.ss) [] free' w.cfg.nslots (crashGid w f)) :
    ObjInv w.cfg ((w.objs.filter (World.survives (f.pbl w.cfg.ss))).map clr) (f.pbl w.cfg.ss) [] [] w.nextObj (crashGid w f) w.shadow := by
  have hnm : ∀ o' ∈ (w.objs.filter (World.survives (f.pbl w.cfg.ss))).map clr, o'.mine = false := by
    intro o' ho'; obtain ⟨o, _, rfl⟩ := List.mem_map.1 ho'; rfl
  constructor
  · have : ((w.objs.filter (World.survives (f.pbl w.cfg.ss))).map clr).map (·.id) =
        (w.objs.filter (World.survives (f.pbl w.cfg.ss))).map (·.id) := by
      simp [List.map_map, Function.comp_def, clr]
    rw [this]
    exact List.Nodup.sublist ((List.filter_sublist).map _) h.obj.ids
  · intro o' ho'; obtain ⟨o, ho, rfl, _⟩ := mem_survivors ho'; exact h.obj.idLt o ho
  · intro o' ho'; obtain ⟨o, ho, rfl, _⟩ := mem_survivors ho'; exact h.obj.size o ho
  · intro o' ho'
    obtain ⟨o, ho, rfl, ⟨j, bs, hbs, hg⟩, _⟩ := mem_survivors ho'
    have : restoredBlk w.cfg.ss bs ∈ held (f.pbl w.cfg.ss) [] := by
      rw [held_file]; exact List.mem_map.2 ⟨bs, List.mem_of_getElem? hbs, rfl⟩
    have := hown.gidLt _ this
    simpa [restoredBlk, clr, hg] using this
  · intro o' ho' b' hb' hg'
    obtain ⟨o, ho, rfl, _, _⟩ := mem_survivors ho'
    rw [held_file] at hb'
    obtain ⟨j', bs', hbs', rfl⟩ := mem_restored hb'
    obtain ⟨b, hb, g1, g2⟩ := hc.heldIn bs' (List.mem_of_getElem? hbs')
    have := h.obj.slotOk o ho b hb (by rw [g1]; simpa [restoredBlk, clr] using hg')
    simpa [restoredBlk, clr, g2] using this
  · intro o' ho' hm; rw [hnm o' ho'] at hm; cases hm
  · intro o' ho' hm; rw [hnm o' ho'] at hm; cases hm
  · intro o' ho' hm; rw [hnm o' ho'] at hm; cases hm
  · intro o' ho' _
    obtain ⟨o, ho, rfl, ⟨j, bs, hbs, hg⟩, e, hfin, hlt⟩ := mem_survivors ho'
    obtain ⟨r1, _, _, _⟩ := hc.committed o ho j bs e hbs hg hfin hlt
    refine ⟨r1, h.obj.fin o ho (by rw [hfin]; rfl), ?_⟩
    intro b' hb' hg'
    rw [held_file] at hb'
    obtain ⟨j', bs', hbs', rfl⟩ := mem_restored hb'
    obtain ⟨_, r2, _, _⟩ := hc.committed o ho j' bs' e hbs' (by simpa [restoredBlk, clr] using hg') hfin hlt
    have := ceil_ge w.cfg.ss bs'.wo h.cfg
    simp only [restoredBlk, clr]
    omega
  · intro a ha b hb ma; rw [hnm a ha] at ma; cases ma
  · intro o' ho' hm; rw [hnm o' ho'] at hm; cases hm
  · intro g
    have : ((w.objs.filter (World.survives (f.pbl w.cfg.ss))).map clr).filter (fun o => o.mine && !o.copied && o.gid == g) = [] := by
      rw [List.filter_eq_nil_iff]
      intro o' ho'
      simp [hnm o' ho']
    rw [this]; simp
  · intro o' ho' hf
    obtain ⟨o, ho, rfl, _⟩ := mem_survivors ho'
    exact h.obj.fin o ho hf
  · intro o' ho'
    obtain ⟨o, ho, rfl, _⟩ := mem_survivors ho'
    exact ⟨fun hp => by simp [clr] at hp, fun hd => (h.obj.flags o ho).2 hd⟩
  · intro o' ho' hcp
    obtain ⟨o, ho, rfl, _⟩ := mem_survivors ho'
    exact h.obj.shadow o ho hcp
  · intro b' hb'
    rw [held_file] at hb'
    obtain ⟨_, bs', _, rfl⟩ := mem_restored hb'
    exact Nat.dvd_mul_left _ _
  · intro b' hb'
    obtain ⟨_, bs', _, rfl⟩ := mem_restored hb'
    exact Nat.le_refl _

theorem epochInv_crash {w : World} (h : Inv w) {f : SFile}
    (hc : FileCore w.cfg.ss f (held w.pbl w.zombies) (recsOf w.idx) w.objs w.nextSeed) :
    EpochInv ((w.objs.filter (World.survives (f.pbl w.cfg.ss))).map clr) (f.pbl w.cfg.ss) .idle := by
  refine ⟨?_, ?_, ?_, ?_⟩
  · intro o' ho' i b' e' hb' hg' hfin'
    obtain ⟨o, ho, rfl, _, e, hfin, hlt⟩ := mem_survivors ho'
    have he : e' = e := by simp only [clr] at hfin'; rw [hfin] at hfin'; cases hfin'; rfl
    subst he
    simp only [SFile.pbl, List.getElem?_map] at hb'
    cases hbs : f.blocks[i]? with
    | none => simp [hbs] at hb'
    | some bs =>
      simp [hbs] at hb'; subst hb'
      obtain ⟨_, r2, r3, last, r4, r5⟩ := hc.committed o ho i bs e' hbs (by simpa [restoredBlk, clr] using hg') hfin hlt
      exact ⟨r3, ⟨last, r4, by simpa [SFile.pbl] using r5⟩, by simpa [restoredBlk, clr] using r2⟩
  · intro o' ho' b' hb' e' hg' hfin' _
    obtain ⟨o, ho, rfl, _, e, hfin, hlt⟩ := mem_survivors ho'
    have he : e' = e := by simp only [clr] at hfin'; rw [hfin] at hfin'; cases hfin'; rfl
    subst he
    obtain ⟨j', bs', hbs', rfl⟩ := mem_restored hb'
    obtain ⟨r1, r2, _, _⟩ := hc.committed o ho j' bs' e' hbs' (by simpa [restoredBlk, clr] using hg') hfin hlt
    exact ⟨r1, by simpa [restoredBlk, clr] using r2⟩
  · intro o' ho' b' hb' e' hg' hfin' _
    obtain ⟨o, ho, rfl, _, e, hfin, hlt⟩ := mem_survivors ho'
    have he : e' = e := by simp only [clr] at hfin'; rw [hfin] at hfin'; cases hfin'; rfl
    subst he
    obtain ⟨j', bs', hbs', rfl⟩ := mem_restored hb'
    obtain ⟨_, r2, _, _⟩ := hc.committed o ho j' bs' e' hbs' (by simpa [restoredBlk, clr] using hg') hfin hlt
    exact ⟨by simpa [restoredBlk, clr] using r2, (fun x hx => by cases hx), (fun x hx => by cases hx)⟩
  · intro o' ho' hp
    obtain ⟨o, _, rfl, _⟩ := mem_survivors ho'
    simp [clr] at hp

end BB.Persist
