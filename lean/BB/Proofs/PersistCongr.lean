import BB.Proofs.PersistStep
/-!
# Transfer of the invariant groups between block lists that differ only in offsets and counters
-/
namespace BB.Persist

/-- `p'` has the same blocks as `p` as far as generation, slot, attach cursor and write cursor go. -/
structure BlocksLike (p p' : PBL) : Prop where
  toRelease : p'.toRelease = p.toRelease
  released : p'.released = p.released
  len : p'.blocks.length = p.blocks.length
  get : ∀ (i : Nat) (b' : Blk), p'.blocks[i]? = some b' →
    ∃ b : Blk, p.blocks[i]? = some b ∧ b'.gid = b.gid ∧ b'.slot = b.slot ∧ b'.base = b.base ∧ b.cursor ≤ b'.cursor

theorem BlocksLike.get' {p p' : PBL} (h : BlocksLike p p') {i : Nat} {b : Blk} (hb : p.blocks[i]? = some b) :
    ∃ b', p'.blocks[i]? = some b' ∧ b'.gid = b.gid ∧ b'.slot = b.slot ∧ b'.base = b.base ∧ b.cursor ≤ b'.cursor := by
  have hi : i < p'.blocks.length := by rw [h.len]; exact (List.getElem?_eq_some_iff.1 hb).1
  obtain ⟨b0, hb0, h1⟩ := h.get i p'.blocks[i] (List.getElem?_eq_getElem hi)
  rw [hb] at hb0
  simp at hb0; subst hb0
  exact ⟨_, List.getElem?_eq_getElem hi, h1⟩

theorem BlocksLike.mem {p p' : PBL} (h : BlocksLike p p') {b' : Blk} (hb : b' ∈ p'.blocks) :
    ∃ b ∈ p.blocks, b'.gid = b.gid ∧ b'.slot = b.slot ∧ b'.base = b.base ∧ b.cursor ≤ b'.cursor := by
  obtain ⟨i, hi⟩ := List.getElem?_of_mem hb
  obtain ⟨b, hb0, h1⟩ := h.get i b' hi
  exact ⟨b, List.mem_of_getElem? hb0, h1⟩

theorem BlocksLike.mem' {p p' : PBL} (h : BlocksLike p p') {b : Blk} (hb : b ∈ p.blocks) :
    ∃ b' ∈ p'.blocks, b'.gid = b.gid ∧ b'.slot = b.slot ∧ b'.base = b.base ∧ b.cursor ≤ b'.cursor := by
  obtain ⟨i, hi⟩ := List.getElem?_of_mem hb
  obtain ⟨b', hb0, h1⟩ := h.get' hi
  exact ⟨b', List.mem_of_getElem? hb0, h1⟩

theorem BlocksLike.inHeld {p p' : PBL} (h : BlocksLike p p') (z : List Blk) {b' : Blk} (hb : b' ∈ held p' z) :
    ∃ b ∈ held p z, b'.gid = b.gid ∧ b'.slot = b.slot := by
  unfold BB.Persist.held at hb ⊢
  rw [h.toRelease] at hb
  rcases List.mem_append.1 hb with hb | hb
  · rcases List.mem_append.1 hb with hb | hb
    · obtain ⟨b, hb0, h1, h2, _⟩ := h.mem hb
      exact ⟨b, List.mem_append_left _ (List.mem_append_left _ hb0), h1, h2⟩
    · exact ⟨b', List.mem_append_left _ (List.mem_append_right _ hb), rfl, rfl⟩
  · exact ⟨b', List.mem_append_right _ hb, rfl, rfl⟩

theorem BlocksLike.inHeld' {p p' : PBL} (h : BlocksLike p p') (z : List Blk) {b : Blk} (hb : b ∈ held p z) :
    ∃ b' ∈ held p' z, b'.gid = b.gid ∧ b'.slot = b.slot := by
  unfold BB.Persist.held at hb ⊢
  rw [h.toRelease]
  rcases List.mem_append.1 hb with hb | hb
  · rcases List.mem_append.1 hb with hb | hb
    · obtain ⟨b', hb0, h1, h2, _⟩ := h.mem' hb
      exact ⟨b', List.mem_append_left _ (List.mem_append_left _ hb0), h1, h2⟩
    · exact ⟨b, List.mem_append_left _ (List.mem_append_right _ hb), rfl, rfl⟩
  · exact ⟨b, List.mem_append_right _ hb, rfl, rfl⟩

theorem BlocksLike.map_gid {p p' : PBL} (h : BlocksLike p p') : p'.blocks.map (·.gid) = p.blocks.map (·.gid) := by
  apply List.ext_getElem?
  intro i
  simp only [List.getElem?_map]
  cases hb : p.blocks[i]? with
  | none =>
    have : p'.blocks[i]? = none := by
      rw [List.getElem?_eq_none_iff] at hb ⊢; rw [h.len]; exact hb
    simp [this]
  | some b =>
    obtain ⟨b', hb', h1, _⟩ := h.get' hb
    simp [hb', h1]

theorem BlocksLike.map_slot {p p' : PBL} (h : BlocksLike p p') : p'.blocks.map (·.slot) = p.blocks.map (·.slot) := by
  apply List.ext_getElem?
  intro i
  simp only [List.getElem?_map]
  cases hb : p.blocks[i]? with
  | none =>
    have : p'.blocks[i]? = none := by
      rw [List.getElem?_eq_none_iff] at hb ⊢; rw [h.len]; exact hb
    simp [this]
  | some b =>
    obtain ⟨b', hb', _, h2, _⟩ := h.get' hb
    simp [hb', h2]

theorem own_like {p p' : PBL} (h : BlocksLike p p') {z : List Blk} {free : List Nat} {n g : Nat}
    (ho : Own p z free n g) : Own p' z free n g := by
  have hs : (held p' z).map (·.slot) = (held p z).map (·.slot) := by
    simp [held, h.map_slot, h.toRelease]
  have hg : (held p' z).map (·.gid) = (held p z).map (·.gid) := by
    simp [held, h.map_gid, h.toRelease]
  refine ⟨by rw [hs]; exact ho.slots, by rw [hs]; exact ho.range, by rw [hg]; exact ho.gids, ?_, ?_⟩
  · intro b hb
    obtain ⟨b0, hb0, h1, _⟩ := h.inHeld z hb
    rw [h1]; exact ho.gidLt b0 hb0
  · intro b hb
    rw [List.getLast?_eq_getElem?] at hb
    obtain ⟨b0, hb0, h1, _⟩ := h.get _ b hb
    rw [h1]
    apply ho.next
    rw [List.getLast?_eq_getElem?, ← h.len]; exact hb0

end BB.Persist
