import BB.Model.Mux
/-! List counting lemmas used by the multiplexer invariant. -/
namespace BB.Mux

theorem countP_modify {α : Type} (p : α → Bool) (f : α → α) :
    ∀ (l : List α) (i : Nat) (c : α), l[i]? = some c →
      List.countP p (l.modify i f) + (if p c then 1 else 0) = List.countP p l + (if p (f c) then 1 else 0)
  | [], i, c, h => by simp at h
  | a :: l, 0, c, h => by
    simp at h; subst h
    simp only [List.modify_zero_cons, List.countP_cons]; omega
  | a :: l, i + 1, c, h => by
    simp at h
    have ih := countP_modify p f l i c h
    simp only [List.modify_succ_cons, List.countP_cons]; omega

theorem countP_modify_same {α : Type} (p : α → Bool) (f : α → α) (hf : ∀ a, p (f a) = p a) :
    ∀ (l : List α) (i : Nat), List.countP p (l.modify i f) = List.countP p l
  | [], i => by simp
  | a :: l, 0 => by simp [List.countP_cons, hf]
  | a :: l, i + 1 => by simp [List.countP_cons, countP_modify_same p f hf l i]

theorem live_deliver (r : Res) (c : Con) : (deliver r c).live = (c.live || c.isWaiting) := by
  cases c with | mk st got => cases st <;> simp [deliver, Con.live, Con.isWaiting]

theorem isWaiting_deliver (r : Res) (c : Con) : (deliver r c).isWaiting = false := by
  cases c with | mk st got => cases st <;> simp [deliver, Con.isWaiting]

theorem isClosed_deliver (r : Res) (c : Con) : (deliver r c).isClosed = c.isClosed := by
  cases c with | mk st got => cases st <;> simp [deliver, Con.isWaiting, Con.isClosed]

theorem live_not_waiting (c : Con) : c.live = true → c.isWaiting = false := by
  cases c with | mk st got => cases st <;> simp [Con.live, Con.isWaiting]

theorem countP_live_deliver (r : Res) : ∀ l : List Con,
    List.countP Con.live (l.map (deliver r)) = List.countP Con.live l + nWaiting l
  | [] => by simp [nWaiting]
  | c :: l => by
    have ih := countP_live_deliver r l
    simp only [List.map_cons, List.countP_cons, nWaiting] at ih ⊢
    rw [ih, live_deliver]
    have hx := live_not_waiting c
    cases hl : c.live <;> cases hw : c.isWaiting <;> simp only [hl, hw] at hx ⊢ <;> simp at hx ⊢ <;> omega

theorem nWaiting_deliver (r : Res) (l : List Con) : nWaiting (l.map (deliver r)) = 0 := by
  simp only [nWaiting, List.countP_eq_zero]
  intro a ha
  simp only [List.mem_map] at ha
  obtain ⟨c, _, rfl⟩ := ha
  simp [isWaiting_deliver]

theorem nWaiting_modify_closed (l : List Con) (i : Nat) (c : Con) (h : l[i]? = some c) (hw : c.isWaiting = false) :
    nWaiting (l.modify i fun c => { c with st := .closed }) = nWaiting l := by
  have := countP_modify Con.isWaiting (fun c => { c with st := CS.closed }) l i c h
  have e1 : Con.isWaiting { c with st := CS.closed } = false := rfl
  rw [hw, e1] at this
  simpa [nWaiting] using this

/-- a list with no live and no waiting consumer consists of closed ones -/
theorem all_closed_of_counts (l : List Con) (h1 : List.countP Con.live l = 0) (h2 : nWaiting l = 0) :
    ∀ c ∈ l, c.st = .closed := by
  intro c hc
  rw [List.countP_eq_zero] at h1
  simp only [nWaiting, List.countP_eq_zero] at h2
  have a := h1 c hc
  have b := h2 c hc
  cases c with | mk st got => cases st <;> simp_all [Con.live, Con.isWaiting]

theorem srcPrefix_succ (src : Nat → Res) (k : Nat) : srcPrefix src (k + 1) = srcPrefix src k ++ [src k] := by
  simp [srcPrefix, List.range_succ]

theorem srcPrefix_length (src : Nat → Res) (k : Nat) : (srcPrefix src k).length = k := by
  simp [srcPrefix]

end BB.Mux
