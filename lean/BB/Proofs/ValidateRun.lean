import BB.Proofs.ValidateSound
/-! # Soundness of every method of the three kinds of CAS buffer -/
namespace BB.Validate

theorem sound_errSteps {k : Core} (e : Err) (hl : Local e) (off n : Nat) :
    Sound k off (obsOf (drainSteps (errStep (.err e)) n () []).2) := by
  rw [drain_errStep _ (by simp)]
  refine Sound.of_nodata (by simp [Obs.data, obsOf]) (fun h' => ?_) (fun e' h' => ?_)
  · by_cases h0 : n = 0
    · rcases h' with h' | h' <;> simp [obsOf, h0] at h'
    · rcases h' with h' | h' <;> simp [obsOf, h0] at h'
  · by_cases h0 : n = 0
    · simp [obsOf, h0] at h'
    · simp only [obsOf, h0, if_false, Option.some.injEq, Res.err.injEq] at h'; subst h'; exact Or.inl hl

/-- Soundness of `k` reads from an offset chunk reader created at offset `off`. -/
theorem offDrain_sound {σ : Type} {M : Mach σ} {step : Step σ} (hst : StepOK M step) (fuel : Nat) (s : σ)
    (off n : Nat) (h : Fresh M s) :
    M.I (drainSteps (offStep step) n (offInit step fuel s off).1 []).1.inner ∧
    Sound (M.core (drainSteps (offStep step) n (offInit step fuel s off).1 []).1.inner) off
      (obsOf (drainSteps (offStep step) n (offInit step fuel s off).1 []).2) := by
  obtain ⟨hIo, hacct0, hle, hnone⟩ := offInit_ok hst fuel s off h.1
  generalize offInit step fuel s off = x at hIo hacct0 hle hnone ⊢
  obtain ⟨o, dropped⟩ := x
  simp only at hIo hacct0 hle hnone ⊢
  have hout0 : dropped ++ (offM M).pend o = ((offM M).core o).out := by
    have := hacct0 [] (by simp [h.2.1, h.2.2]); simpa using this
  obtain ⟨hI1, new, hgot, hacct1, hres1⟩ := drainSteps_ok (offStep_ok hst) n o [] hIo
  have hfix : new = [] ∨ dropped.length = off := by
    cases hf : o.fixed with
    | none => exact Or.inr (hnone hf)
    | some r =>
      left
      have := (drainSteps_fixed step o r hf (hIo.2 r hf).1 n []).2
      rw [hgot] at this; simpa using this
  generalize drainSteps (offStep step) n o [] = y at hI1 hgot hacct1 hres1 ⊢
  obtain ⟨o1, ps, r⟩ := y
  simp only [List.nil_append] at hI1 hgot hacct1 hres1 ⊢
  subst hgot
  have hj : dropped ++ ps.flatten ++ (offM M).pend o1 = (M.core o1.inner).out := hacct1 dropped hout0
  refine ⟨hI1.1, ⟨⟨dropped, (offM M).pend o1, by simpa [Obs.data, obsOf] using hj, ?_⟩, ?_, ?_⟩⟩
  · rcases hfix with hf | hf
    · left; simp [Obs.data, obsOf, hf]
    · exact Or.inr hf
  · intro h'
    simp only [obsOf] at h'
    rcases h' with h' | h'
    · exact absurd rfl (hres1 _ h').1
    · exact (hres1 _ h').2
  · intro e h'
    simp only [obsOf] at h'
    exact (hres1 _ h').2

theorem runCloned_sound {σ : Type} {M : Mach σ} (c : Cfg) {mk : Nat → Step σ} (hmk : ∀ cm, StepOK M (mk cm))
    (s : σ) (h : Fresh M s) : ∀ m,
    M.I (runCloned c mk s m).1 ∧ Sound (M.core (runCloned c mk s m).1) m.off (runCloned c mk s m).2 := by
  intro m
  induction m with
  | intoWriter =>
    simp only [runCloned]
    obtain ⟨hI', new, hgot, hacct, hres⟩ := intoWriterVia_ok (hmk c.defaultChunk) c.fuel s [] h.1
    generalize intoWriterVia (mk c.defaultChunk) c.fuel s [] = x at hI' hgot hacct hres ⊢
    obtain ⟨s', ps, r⟩ := x
    simp only [List.nil_append] at hI' hgot hacct hres ⊢
    subst hgot
    refine ⟨hI', ⟨⟨[], M.pend s', by simpa [Obs.data] using h.acct hacct, Or.inr rfl⟩, ?_, ?_⟩⟩
    · intro h'; simp only [Option.some.injEq] at h'; exact endRes_done hres h'
    · intro e h'; simp only [Option.some.injEq] at h'; exact endRes_err hres e h'
  | readAt off len =>
    simp only [runCloned]
    by_cases h0 : off < 0
    · rw [if_pos h0]
      refine ⟨h.1, Sound.of_nodata rfl (fun h' => ?_) (fun e h' => ?_)⟩
      · rcases h' with h' | h' <;> simp at h'
      · simp only [Option.some.injEq, Res.err.injEq] at h'; subst h'; exact Or.inl trivial
    · rw [if_neg h0]; exact readAtVia_sound (hmk _) c.fuel s off.toNat len h
  | toByteSlice max =>
    simp only [runCloned]
    obtain ⟨h1, h2, _⟩ := toByteSliceVia_sound (hmk c.defaultChunk) c.fuel s c.size max h
    exact ⟨h1, h2⟩
  | toChunkReader off max n =>
    simp only [runCloned]
    by_cases h0 : off < 0
    · rw [if_pos h0]; exact ⟨h.1, sound_errSteps .negOff trivial _ n⟩
    · rw [if_neg h0]; exact offDrain_sound (hmk _) c.fuel s off.toNat n h
  | toReader sizes =>
    simp only [runCloned]
    have hfresh : Fresh (bufM M) (s, []) := ⟨h.1, by simp [bufM, h.2.1], h.2.2⟩
    obtain ⟨hI', new, hgot, hacct, hres⟩ :=
      readSeq_ok (cbrRead_ok (hmk c.defaultChunk) c.fuel) sizes (s, []) [] hfresh.1
    generalize readSeq (cbrRead (mk c.defaultChunk) c.fuel) sizes (s, []) [] = x at hI' hgot hacct hres ⊢
    obtain ⟨st, ps, r⟩ := x
    simp only [List.nil_append] at hI' hgot hacct hres ⊢
    subst hgot
    have hj : ps.flatten ++ (bufM M).pend st = (M.core st.1).out := hfresh.acct hacct
    refine ⟨hI', ⟨⟨[], (bufM M).pend st, by simpa [Obs.data, obsOf] using hj, Or.inr rfl⟩, ?_, ?_⟩⟩
    · intro h'
      simp only [obsOf] at h'
      rcases h' with h' | h'
      · exact absurd rfl (hres _ h').1
      · exact (hres _ h').2
    · intro e h'
      simp only [obsOf] at h'
      exact (hres _ h').2
  | cloneCopy max m _ =>
    simp only [runCloned]
    obtain ⟨h1, h2, h3⟩ := toByteSliceVia_sound (hmk c.defaultChunk) c.fuel s c.size max h
    exact ⟨h1, afterCopy_sound h2 h3 m⟩
  | cloneStream m ih => exact ih
  | withTask m ih => exact ih

end BB.Validate

namespace BB.Validate

theorem normStep_fixed {σ : Type} (step : Step σ) (o : Off σ) (r : Res) (h : o.fixed = some r) (hr : r ≠ .ok)
    (max fuel : Nat) :
    (normStep (offStep step) max fuel (o, [])).2.1 = [] ∧ (normStep (offStep step) max fuel (o, [])).2.2 ≠ .ok := by
  simp only [normStep, List.length_nil, Nat.lt_irrefl, if_false]
  cases fuel with
  | zero => simp [normFetch]
  | succ f =>
    simp only [normFetch, offStep_fixed step o r h]
    cases r with
    | ok => exact absurd rfl hr
    | eof => simp
    | err e => simp

theorem drainSteps_stop {σ : Type} (step : Step σ) (s : σ) (hd : (step s).2.1 = []) (hr : (step s).2.2 ≠ .ok)
    (k : Nat) : (drainSteps step k s []).2.1 = [] := by
  cases k with
  | zero => simp [drainSteps]
  | succ k =>
    rcases hx : step s with ⟨s', ch, r⟩
    rw [hx] at hd hr
    cases r with
    | ok => exact absurd rfl hr
    | eof => simp [drainSteps, hx]
    | err e => simp [drainSteps, hx]

theorem fresh_VC (c : Cfg) (s : CSrc) : Fresh (VCm c ⟨s.content, s.term⟩) (VC.init c s) :=
  ⟨CInv.init c s, rfl, rfl⟩

theorem runChunk_sound (c : Cfg) (s : CSrc) : ∀ m,
    CInv c ⟨s.content, s.term⟩ (runChunk c (VC.init c s) m).1 ∧
    Sound (runChunk c (VC.init c s) m).1.core m.off (runChunk c (VC.init c s) m).2 := by
  have hst := VCm_ok c ⟨s.content, s.term⟩
  have hfr := fresh_VC c s
  intro m
  induction m with
  | withTask m ih => simpa only [runChunk, Method.off] using ih
  | intoWriter =>
    simp only [runChunk]
    obtain ⟨hI', new, hgot, hacct, hres⟩ := intoWriterVia_ok hst c.fuel _ [] hfr.1
    generalize intoWriterVia (VC.read c) c.fuel (VC.init c s) [] = x at hI' hgot hacct hres ⊢
    obtain ⟨s', ps, r⟩ := x
    simp only [List.nil_append] at hI' hgot hacct hres ⊢
    subst hgot
    have hj : ps.flatten ++ (VCm c ⟨s.content, s.term⟩).pend s' = s'.core.out := hfr.acct hacct
    refine ⟨hI', ⟨⟨[], [], by simpa [Obs.data, VCm] using hj, Or.inr rfl⟩, ?_, ?_⟩⟩
    · intro h'; simp only [Option.some.injEq] at h'; exact endRes_done hres h'
    · intro e h'; simp only [Option.some.injEq] at h'; exact endRes_err hres e h'
  | readAt off len =>
    simp only [runChunk]
    by_cases h0 : off < 0
    · rw [if_pos h0]
      refine ⟨hfr.1, Sound.of_nodata rfl (fun h' => ?_) (fun e h' => ?_)⟩
      · rcases h' with h' | h' <;> simp at h'
      · simp only [Option.some.injEq, Res.err.injEq] at h'; subst h'; exact Or.inl trivial
    · rw [if_neg h0]; exact readAtVia_sound hst c.fuel _ off.toNat len hfr
  | toByteSlice max =>
    simp only [runChunk]
    obtain ⟨h1, h2, _⟩ := toByteSliceVia_sound hst c.fuel _ c.size max hfr
    exact ⟨h1, h2⟩
  | toChunkReader off max n =>
    simp only [runChunk]
    by_cases h0 : off < 0
    · rw [if_pos h0]; exact ⟨hfr.1, sound_errSteps .negOff trivial _ n⟩
    · rw [if_neg h0]
      by_cases h1 : off.toNat > c.size
      · rw [if_pos h1]; exact ⟨hfr.1, sound_errSteps .offBeyond trivial _ n⟩
      · rw [if_neg h1]
        obtain ⟨hIo, hacct0, hle, hnone⟩ := offInit_ok hst c.fuel (VC.init c s) off.toNat hfr.1
        generalize offInit (VC.read c) c.fuel (VC.init c s) off.toNat = x at hIo hacct0 hle hnone ⊢
        obtain ⟨o, dropped⟩ := x
        simp only at hIo hacct0 hle hnone ⊢
        have hout0 : dropped ++ (offM (VCm c ⟨s.content, s.term⟩)).pend o
            = ((offM (VCm c ⟨s.content, s.term⟩)).core o).out := by
          have := hacct0 [] (by simp [hfr.2.1, hfr.2.2]); simpa using this
        have hns := normStep_ok (offStep_ok hst) max c.fuel
        obtain ⟨hI1, new, hgot, hacct1, hres1⟩ := drainSteps_ok hns n (o, []) [] hIo
        have hfix : new = [] ∨ dropped.length = off.toNat := by
          cases hf : o.fixed with
          | none => exact Or.inr (hnone hf)
          | some r =>
            left
            obtain ⟨hd, hr⟩ := normStep_fixed (VC.read c) o r hf (hIo.2 r hf).1 max c.fuel
            have := drainSteps_stop _ (o, []) hd hr n
            rw [hgot] at this; simpa using this
        generalize drainSteps (normStep (offStep (VC.read c)) max c.fuel) n (o, []) [] = y at hI1 hgot hacct1 hres1 ⊢
        obtain ⟨st, ps, r⟩ := y
        simp only [List.nil_append] at hI1 hgot hacct1 hres1 ⊢
        subst hgot
        have hj : dropped ++ ps.flatten ++ (bufM (offM (VCm c ⟨s.content, s.term⟩))).pend st = st.1.inner.core.out :=
          hacct1 dropped (by simpa [bufM] using hout0)
        refine ⟨hI1.1, ⟨⟨dropped, _, by simpa [Obs.data, obsOf] using hj, ?_⟩, ?_, ?_⟩⟩
        · rcases hfix with hf | hf
          · left; simp [Obs.data, obsOf, hf]
          · exact Or.inr hf
        · intro h'
          simp only [obsOf] at h'
          rcases h' with h' | h'
          · exact absurd rfl (hres1 _ h').1
          · exact (hres1 _ h').2
        · intro e h'
          simp only [obsOf] at h'
          exact (hres1 _ h').2
  | toReader sizes =>
    simp only [runChunk]
    have hfresh : Fresh (bufM (VCm c ⟨s.content, s.term⟩)) (VC.init c s, []) := ⟨hfr.1, rfl, rfl⟩
    obtain ⟨hI', new, hgot, hacct, hres⟩ := readSeq_ok (cbrRead_ok hst c.fuel) sizes _ [] hfresh.1
    generalize readSeq (cbrRead (VC.read c) c.fuel) sizes (VC.init c s, []) [] = x at hI' hgot hacct hres ⊢
    obtain ⟨st, ps, r⟩ := x
    simp only [List.nil_append] at hI' hgot hacct hres ⊢
    subst hgot
    have hj : ps.flatten ++ (bufM (VCm c ⟨s.content, s.term⟩)).pend st = st.1.core.out := hfresh.acct hacct
    refine ⟨hI', ⟨⟨[], _, by simpa [Obs.data, obsOf] using hj, Or.inr rfl⟩, ?_, ?_⟩⟩
    · intro h'
      simp only [obsOf] at h'
      rcases h' with h' | h'
      · exact absurd rfl (hres _ h').1
      · exact (hres _ h').2
    · intro e h'
      simp only [obsOf] at h'
      exact (hres _ h').2
  | cloneCopy max m _ =>
    simp only [runChunk]
    obtain ⟨h1, h2, h3⟩ := toByteSliceVia_sound hst c.fuel _ c.size max hfr
    exact ⟨h1, afterCopy_sound h2 h3 m⟩
  | cloneStream m _ =>
    simp only [runChunk]
    have hfresh : Fresh (bufM (VCm c ⟨s.content, s.term⟩)) (VC.init c s, []) := ⟨hfr.1, rfl, rfl⟩
    exact runCloned_sound c (fun cm => normStep_ok hst cm c.fuel) _ hfresh m

end BB.Validate
