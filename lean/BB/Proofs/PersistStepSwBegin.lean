import BB.Proofs.PersistStepRec
/-!
# Invariant preservation: `GetPersistentState` (`swBegin`): the file taken now satisfies `FileInv`
(`C02_epoch_covered`, `C02_record_valid_after_restart`, file side)
-/
namespace BB.Persist

theorem gidsFrom_iff (g : Nat) : ∀ (l : List Blk), gidsFrom g l ↔ ∀ (j : Nat) (x : Blk), l[j]? = some x → x.gid = g + j := by
  intro l
  induction l generalizing g with
  | nil => simp [gidsFrom]
  | cons a l ih =>
    simp only [gidsFrom]
    rw [ih (g + 1)]
    constructor
    · rintro ⟨h1, h2⟩ j x hx
      cases j with
      | zero => simp at hx; subst hx; simpa using h1
      | succ j => have := h2 j x (by simpa using hx); omega
    · intro h
      refine ⟨by simpa using h 0 a (by simp), fun j x hx => ?_⟩
      have := h (j + 1) x (by simpa using hx)
      omega

theorem getState_shape {p p' : PBL} {f : SFile} (hg : p.getPersistentState = some (f, p')) :
    ∃ bl, PBL.stateBlocks p.blocks p.seeds p.syncedEpochs = some bl ∧ f = ⟨p.oldestEpoch, bl⟩ ∧
      p' = { p with releasing := p.toRelease.length } := by
  unfold PBL.getPersistentState at hg
  split at hg
  · cases hg
  · rename_i bl hbl
    simp only [Option.some.injEq, Prod.mk.injEq] at hg
    exact ⟨bl, hbl, hg.1.symm, hg.2.symm⟩

/-- The file taken by `GetPersistentState` in a world satisfying the invariant. -/
theorem fileInv_capture {w : World} (h : Inv w) {f : SFile} {p' : PBL} (hg : w.pbl.getPersistentState = some (f, p')) :
    FileInv w.cfg.ss f w.pbl.blocks (recsOf w.idx) w.objs w.pbl w.nextSeed := by
  obtain ⟨bl, hbl, rfl, _⟩ := getState_shape hg
  have hget := stateBlocks_get _ _ _ _ hbl
  have hseeds := stateBlocks_seeds _ _ _ _ hbl
  have hlen : w.pbl.seeds.length = (w.pbl.blocks.map (·.epochCount)).sum := by
    rw [h.wfp.seedsLen, h.wfp.last, expand_length]
  have hlast := stateBlocks_last w.cfg.ss _ _ _ 0 _ hbl hlen
  have hs1 := h.wfp.sync1
  have hs2 := h.wfp.sync2
  have hflen : (fseeds bl).length = w.pbl.syncedEpochs := by
    rw [hseeds, List.length_take]; omega
  have hgids : ∃ g, gidsFrom g (bl.map (restoredBlk w.cfg.ss)) := by
    obtain ⟨g, hg0⟩ := h.wfp.gids
    refine ⟨g, (gidsFrom_iff g _).2 ?_⟩
    intro j x hx
    rw [List.getElem?_map] at hx
    cases hb : bl[j]? with
    | none => simp [hb] at hx
    | some bs =>
      simp [hb] at hx; subst hx
      obtain ⟨b, hb0, g1, _⟩ := hget j bs hb
      simp only [restoredBlk]
      rw [g1]; exact (gidsFrom_iff g _).1 hg0 j b hb0
  have hfw : WFP ((⟨w.pbl.oldestEpoch, bl⟩ : SFile).pbl w.cfg.ss) := file_pbl_wfp _ _ h.cfg hgids
  refine ⟨hgids, ?_, by simp only [hflen]; exact Nat.le_refl _, ?_, ?_, ?_, ?_⟩
  · intro bs hbs
    obtain ⟨j, hj⟩ := List.getElem?_of_mem hbs
    obtain ⟨b, hb0, g1, g2, _⟩ := hget j bs hj
    exact ⟨b, List.mem_of_getElem? hb0, g1.symm, g2.symm⟩
  · intro s hs
    rw [hseeds] at hs
    exact h.recs.pSeeds s (List.mem_of_mem_take hs)
  · intro o ho j bs e hbs hgid hfin hlt
    simp only [hflen] at hlt
    obtain ⟨b, hb0, g1, _, g3⟩ := hget j bs hbs
    have hbg : b.gid = o.gid := by rw [← g1]; exact hgid
    obtain ⟨r1, r2⟩ := h.epoch.synced o ho b (List.mem_of_getElem? hb0) e hbg hfin hlt
    obtain ⟨q1, ⟨last, q2, q3⟩, _⟩ := h.epoch.range o ho j b e hb0 hbg hfin
    refine ⟨r1, by rw [g3]; exact r2, q1, last - w.pbl.released, ?_, by omega⟩
    simp only [SFile.pbl]
    rw [hlast, List.getElem?_take]
    have hq : e - w.pbl.oldestEpoch < w.pbl.syncedEpochs := by omega
    simp only [hq, if_true]
    rw [h.wfp.last, expand_shift, List.getElem?_map] at q2
    cases hx : (expand 0 w.pbl.blocks)[e - w.pbl.oldestEpoch]? with
    | none => simp [hx] at q2
    | some x => simp [hx] at q2; subst q2; simp
  · intro r hr i hres
    obtain ⟨hpr, _⟩ := capture_ref h.wfp w.cfg.ss hg hres
    obtain ⟨b, o, hb0, ho, hgid, hm⟩ := h.recs.res r hr i hpr
    have hilt := refToIdx_lt hfw hres
    simp only [SFile.pbl, List.length_map] at hilt
    have hbs : bl[i]? = some bl[i] := List.getElem?_eq_getElem hilt
    obtain ⟨b', hb', g1, _⟩ := hget i _ hbs
    rw [hb0] at hb'; cases hb'
    exact ⟨bl[i], o, hbs, ho, by rw [g1]; exact hgid, hm⟩
  · intro e i i' sd hfi hpi
    obtain ⟨hpr, _⟩ := capture_ref h.wfp w.cfg.ss hg hfi
    rw [hpr] at hpi
    simp only [Option.some.injEq, Prod.mk.injEq, and_true] at hpi
    subst hpi
    have hilt := refToIdx_lt hfw hfi
    simp only [SFile.pbl, List.length_map] at hilt
    have hbs : bl[i]? = some bl[i] := List.getElem?_eq_getElem hilt
    obtain ⟨b, hb0, g1, _⟩ := hget i _ hbs
    exact ⟨bl[i], b, hbs, hb0, g1⟩

end BB.Persist
