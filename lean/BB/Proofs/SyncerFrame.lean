import BB.Proofs.SyncerBL
/-!
What each operation of the block list leaves alone / only moves forward.
-/
namespace BB.Syncer

/-- Quantities that never go backwards. -/
structure BL.Mono (b b' : BL) : Prop where
  putGen : b.putCh.gen ≤ b'.putCh.gen
  putClosed : ∀ g, g ∈ b.putCh.closed → g ∈ b'.putCh.closed
  relGen : b.relCh.gen ≤ b'.relCh.gen
  relClosed : ∀ g, g ∈ b.relCh.closed → g ∈ b'.relCh.closed
  synced : b.oldest + b.syncedE ≤ b'.oldest + b'.syncedE
  endAbs : b.oldest + b.nE ≤ b'.oldest + b'.nE
  released : b.totalReleased ≤ b'.totalReleased

theorem BL.Mono.refl (b : BL) : BL.Mono b b :=
  ⟨Nat.le_refl _, fun _ h => h, Nat.le_refl _, fun _ h => h, Nat.le_refl _, Nat.le_refl _, Nat.le_refl _⟩

/-- What the environment operations (`PushBack`, `PopFront`, finalizers) do to the
fields the syncer loops rely on. -/
structure BL.Env (b b' : BL) : Prop where
  mono : BL.Mono b b'
  releasing : b'.releasing = b.releasing
  /-- blocks awaiting release are only appended, one per `totalBlocksReleased` -/
  toRel : ∃ l, b'.toRelease = b.toRelease ++ l ∧ b'.totalReleased = b.totalReleased + l.length ∧
    ∀ x, x ∈ ids b.blocks → x ∈ ids b'.blocks ∨ x ∈ l
  syncing : b.oldest + b.syncingE ≤ b'.oldest + b'.syncingE
  closedW : b'.closedW = b.closedW

theorem BL.pushBack_eq {b b' : BL} (hp : b.pushBack = some b') :
    ∃ id rest, b.free = id :: rest ∧ b' = { b with blocks := b.blocks ++ [{ id := id }], free := rest } := by
  unfold BL.pushBack at hp
  by_cases hc : b.closedW = true
  · rw [if_pos hc] at hp; cases hp
  · rw [if_neg hc] at hp
    cases hf : b.free with
    | nil => rw [hf] at hp; cases hp
    | cons id rest =>
      rw [hf] at hp
      simp only [Option.some.injEq] at hp
      exact ⟨id, rest, rfl, hp.symm⟩

theorem BL.env_pushBack {b b' : BL} (hp : b.pushBack = some b') : BL.Env b b' := by
  obtain ⟨id, rest, _, rfl⟩ := BL.pushBack_eq hp
  refine ⟨⟨Nat.le_refl _, fun _ h => h, Nat.le_refl _, fun _ h => h, Nat.le_refl _, Nat.le_refl _, Nat.le_refl _⟩,
    rfl, ⟨[], by simp, by simp, ?_⟩, Nat.le_refl _, rfl⟩
  intro x hx
  left
  simp [ids] at hx ⊢
  left; exact hx

theorem BL.popFront_eq {b b' : BL} (hp : b.popFront = some b') :
    ∃ f rest, b.blocks = f :: rest ∧ b' = { b with
      blocks := rest
      toRelease := b.toRelease ++ [f.id]
      relCh := b.relCh.unblock
      oldest := b.oldest + f.ec
      epochLast := b.epochLast.drop f.ec
      totalReleased := b.totalReleased + 1
      syncingE := b.syncingE - f.ec
      syncedE := b.syncedE - f.ec
      oob := b.oob || decide (b.epochLast.length < f.ec)
      putCh := if b.syncedE - f.ec = (b.epochLast.drop f.ec).length then b.putCh.block else b.putCh } := by
  unfold BL.popFront at hp
  cases hb : b.blocks with
  | nil => simp [hb] at hp
  | cons f rest =>
    simp only [hb, Option.some.injEq] at hp
    exact ⟨f, rest, rfl, hp.symm⟩

theorem BL.env_popFront {b b' : BL} (h : b.Inv) (hp : b.popFront = some b') : BL.Env b b' := by
  obtain ⟨f, rest, hb, rfl⟩ := BL.popFront_eq hp
  have hsum := h.ecSum
  rw [hb] at hsum
  simp only [List.map_cons, List.sum_cons] at hsum
  have hlen : (b.epochLast.drop f.ec).length = b.nE - f.ec := by simp [BL.nE]
  refine ⟨⟨?_, ?_, ?_, ?_, ?_, ?_, ?_⟩, rfl, ⟨[f.id], rfl, rfl, ?_⟩, ?_, rfl⟩
  · show b.putCh.gen ≤ (if b.syncedE - f.ec = (b.epochLast.drop f.ec).length then b.putCh.block else b.putCh).gen
    split
    · exact Chan.gen_block_le _
    · exact Nat.le_refl _
  · intro g hg
    show g ∈ (if b.syncedE - f.ec = (b.epochLast.drop f.ec).length then b.putCh.block else b.putCh).closed
    split
    · exact Chan.closed_block.2 hg
    · exact hg
  · show b.relCh.gen ≤ b.relCh.unblock.gen
    simp
  · intro g hg; exact Chan.closed_unblock_mono hg
  · show b.oldest + b.syncedE ≤ b.oldest + f.ec + (b.syncedE - f.ec)
    omega
  · show b.oldest + b.nE ≤ b.oldest + f.ec + (b.epochLast.drop f.ec).length
    rw [hlen]; omega
  · show b.totalReleased ≤ b.totalReleased + 1
    omega
  · intro x hx
    rw [hb] at hx
    simp [ids] at hx ⊢
    rcases hx with hx | hx
    · right; exact hx
    · left; exact hx
  · show b.oldest + b.syncingE ≤ b.oldest + f.ec + (b.syncingE - f.ec)
    omega

/-- A finalizer: refused (`b' = b`) or acknowledged into an epoch that exists
afterwards and is not covered by the synchronisation in progress. -/
theorem BL.env_fin {b b' : BL} {abs e : Nat} {r : FinRes} (h : b.Inv) (hf : b.fin abs e = some (b', r)) :
    BL.Env b b' ∧ ∀ ep, r = .ok ep → ep < b'.oldest + b'.nE ∧ b'.oldest + b'.syncingE ≤ ep := by
  have hrefl : BL.Env b b := ⟨BL.Mono.refl b, rfl, ⟨[], by simp, by simp, fun x hx => Or.inl hx⟩, Nat.le_refl _, rfl⟩
  unfold BL.fin at hf
  by_cases hc : b.closedW = true
  · rw [if_pos hc] at hf
    injection hf with hf; injection hf with h1 h2
    subst h1; subst h2
    exact ⟨hrefl, by intro ep hep; cases hep⟩
  · rw [if_neg hc] at hf
    by_cases hr : abs < b.totalReleased
    · rw [if_pos hr] at hf
      injection hf with hf; injection hf with h1 h2
      subst h1; subst h2
      exact ⟨hrefl, by intro ep hep; cases hep⟩
    · rw [if_neg hr] at hf
      by_cases hi : abs - b.totalReleased ≥ b.blocks.length
      · rw [if_pos hi] at hf; cases hf
      · rw [if_neg hi] at hf
        have hle2 := h.le2
        simp only at hf
        generalize hcond : (b.epochLast.length == b.syncingE ||
          match b.epochLast.getLast? with
          | some l => decide (l < abs)
          | none => true) = cond at hf
        cases cond
        case true =>
          rw [if_pos rfl] at hf
          injection hf with hf; injection hf with h1 h2
          subst h1; subst h2
          refine ⟨⟨⟨?_, ?_, Nat.le_refl _, fun _ hg => hg, Nat.le_refl _, ?_, Nat.le_refl _⟩, rfl,
            ⟨[], by simp, by simp, ?_⟩, Nat.le_refl _, rfl⟩, ?_⟩
          · show b.putCh.gen ≤ b.putCh.unblock.gen
            simp
          · intro g hg; exact Chan.closed_unblock_mono hg
          · show b.oldest + b.nE ≤ b.oldest + (b.epochLast ++ [_]).length
            simp [BL.nE]
          · intro x hx; left
            show x ∈ ids ((b.blocks.modify (abs - b.totalReleased) (bumpWritten e)).modify _ bumpEc)
            simpa using hx
          · intro ep hep
            injection hep with hep
            subst hep
            simp [BL.nE] at hle2 ⊢
            omega
        case false =>
          rw [if_neg (by simp)] at hf
          injection hf with hf; injection hf with h1 h2
          subst h1; subst h2
          refine ⟨⟨⟨Nat.le_refl _, fun _ hg => hg, Nat.le_refl _, fun _ hg => hg, Nat.le_refl _, Nat.le_refl _, Nat.le_refl _⟩,
            rfl, ⟨[], by simp, by simp, ?_⟩, Nat.le_refl _, rfl⟩, ?_⟩
          · intro x hx; left
            show x ∈ ids (b.blocks.modify (abs - b.totalReleased) (bumpWritten e))
            simpa using hx
          · intro ep hep
            injection hep with hep
            subst hep
            have hne : b.epochLast.length ≠ b.syncingE := by
              intro hx; simp [hx] at hcond
            simp [BL.nE] at hle2 hne ⊢
            omega

/-! ### the operations performed by the loops -/

theorem BL.mono_syncStarting (b : BL) (f : Bool) : BL.Mono b (b.syncStarting f) :=
  ⟨Nat.le_refl _, fun _ h => h, Nat.le_refl _, fun _ h => h, Nat.le_refl _,
   by simp [BL.syncStarting, BL.nE], Nat.le_refl _⟩

theorem BL.mono_syncCompleted {b : BL} (h : b.Inv) : BL.Mono b b.syncCompleted := by
  refine ⟨?_, ?_, Nat.le_refl _, fun _ hg => hg, ?_, by simp [BL.syncCompleted, BL.nE], Nat.le_refl _⟩
  · show b.putCh.gen ≤ (if b.syncingE = b.nE then b.putCh.block else b.putCh).gen
    split
    · exact Chan.gen_block_le _
    · exact Nat.le_refl _
  · intro g hg
    show g ∈ (if b.syncingE = b.nE then b.putCh.block else b.putCh).closed
    split
    · exact Chan.closed_block.2 hg
    · exact hg
  · show b.oldest + b.syncedE ≤ b.oldest + b.syncingE
    have := h.le1; omega

theorem BL.mono_stateWritten (b : BL) : BL.Mono b b.stateWritten := by
  refine ⟨Nat.le_refl _, fun _ hg => hg, ?_, ?_, Nat.le_refl _, Nat.le_refl _, Nat.le_refl _⟩
  · show b.relCh.gen ≤ (if (b.toRelease.drop b.releasing).isEmpty then b.relCh.block else b.relCh).gen
    split
    · exact Chan.gen_block_le _
    · exact Nat.le_refl _
  · intro g hg
    show g ∈ (if (b.toRelease.drop b.releasing).isEmpty then b.relCh.block else b.relCh).closed
    split
    · exact Chan.closed_block.2 hg
    · exact hg

end BB.Syncer
