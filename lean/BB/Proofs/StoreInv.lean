import BB.Proofs.Store
import BB.Proofs.Alloc
/-!
Store-level invariant: the block map is well formed, the index satisfies its probe-path invariant
relative to the quarantine counter, and the table only ever gains records through the keys an
operation explicitly writes.
-/
namespace BB.Store
open BB.Gen BB.Index BB.BlockMap

structure SInv (c : Cfg) (s : St) : Prop where
  cfg : CfgOK c.bm
  fuel : c.bm.policy.bound ≤ c.fuelGrow
  wf : WF c.bm s.bm
  idx : Index.Inv c.idx s.thr s.tab
  mg : 0 < c.idx.maxGet

theorem thr_le_of_tbr {s s' : St} (h : s.bm.toBeReleased ≤ s'.bm.toBeReleased) : s.thr ≤ s'.thr := by
  simp [St.thr]; omega

/-! ### `putKeys` -/

theorem putKeys_inv (ci : Index.Cfg) (thr : Int) (l : Loc) (hl : thr ≤ l.blockIndex) (hg : 0 < ci.maxGet) :
    ∀ (keys : List Nat) (b : TabBox), Index.Inv ci thr b.t → Index.Inv ci thr (putKeys ci thr b keys l).t := by
  intro keys
  induction keys with
  | nil => intro b h; exact h
  | cons k ks ih =>
    intro b h
    unfold putKeys
    exact ih _ (put_inv ci thr b.t k l h hl hg)

theorem putKeys_raw (ci : Index.Cfg) (thr : Int) (l : Loc) :
    ∀ (keys : List Nat) (b : TabBox) (q : Nat) (l' : Loc),
    RawIn (putKeys ci thr b keys l).t q l' → RawIn b.t q l' ∨ (q ∈ keys ∧ l' = l) := by
  intro keys
  induction keys with
  | nil => intro b q l' h; exact Or.inl h
  | cons k ks ih =>
    intro b q l' h
    unfold putKeys at h
    rcases ih _ q l' h with h1 | ⟨h1, h2⟩
    · rcases putAux_raw ci thr ci.maxPut b.t ⟨k, 0, l⟩ q l' h1 with h3 | ⟨h3, h4⟩
      · exact Or.inl h3
      · exact Or.inr ⟨by simp [h3], h4⟩
    · exact Or.inr ⟨List.mem_cons_of_mem _ h1, h2⟩

/-! ### Primitives preserve the invariant -/

theorem sinv_pin {c : Cfg} {s : St} (h : SInv c s) (blk : Nat) : SInv c { s with bm := pin s.bm blk } :=
  ⟨h.cfg, h.fuel, ⟨h.wf.len, h.wf.rel, h.wf.tbr, h.wf.cap, h.wf.idxLo, h.wf.idxHi, h.wf.idxRem, h.wf.pol⟩, h.idx, h.mg⟩

theorem unpin_fields (b : BlockMap.St) (blk : Nat) :
    (unpin b blk).old = b.old ∧ (unpin b blk).cur = b.cur ∧ (unpin b blk).new = b.new ∧
    (unpin b blk).released = b.released ∧ (unpin b blk).toBeReleased = b.toBeReleased ∧
    (unpin b blk).caps = b.caps ∧ (unpin b blk).allocIdx = b.allocIdx ∧ (unpin b blk).allocRem = b.allocRem ∧
    (unpin b blk).pushes = b.pushes := by
  unfold unpin
  simp only []
  split <;> simp

theorem wf_unpin {cb : BlockMap.Cfg} {b : BlockMap.St} (h : WF cb b) (blk : Nat) : WF cb (unpin b blk) := by
  obtain ⟨e1, e2, e3, e4, e5, e6, e7, e8, _⟩ := unpin_fields b blk
  exact ⟨by rw [e6, e1, e2, e3]; exact h.len, by rw [e4, e5]; exact h.rel, by rw [e4, e5, e6]; exact h.tbr,
    by rw [e6]; exact h.cap, by rw [e7]; exact h.idxLo, by rw [e7, e3]; exact h.idxHi, by rw [e7, e8]; exact h.idxRem,
    by rw [e2, e3]; exact h.pol⟩

theorem sinv_unpin {c : Cfg} {s : St} (h : SInv c s) (blk : Nat) : SInv c { s with bm := unpin s.bm blk } := by
  have e := (unpin_fields s.bm blk).2.2.2.2.1
  refine ⟨h.cfg, h.fuel, wf_unpin h.wf blk, ?_, h.mg⟩
  have : ({ s with bm := unpin s.bm blk } : St).thr = s.thr := by simp [St.thr, e]
  rw [this]; exact h.idx

theorem sinv_write {c : Cfg} {s : St} (h : SInv c s) (t : Ticket) (a : Nat) (bs : List Nat) :
    SInv c (writeAt s t a bs) := ⟨h.cfg, h.fuel, h.wf, h.idx, h.mg⟩

/-- `allocate`: the block map steps, the table is untouched, the threshold only rises. -/
theorem allocate_spec {c : Cfg} {s : St} (h : SInv c s) (size : Nat) :
    match allocate c s size with
    | .ok t s' => SInv c s' ∧ s'.tab = s.tab ∧ s'.medium = s.medium ∧ s.thr ≤ s'.thr ∧ Step c.bm s.bm s'.bm ∧
                  s'.thr ≤ (t.blk : Nat) ∧ t.size = size
    | .err _ s' => SInv c s' ∧ s'.tab = s.tab ∧ s'.medium = s.medium ∧ s.thr ≤ s'.thr ∧ Step c.bm s.bm s'.bm
    | .broken => False := by
  unfold allocate
  by_cases hsz : size ≤ c.bm.blockSize
  · rcases put_ok c.bm c.fuelGrow size s.bm h.cfg h.wf hsz h.fuel with ⟨t, b', e, st, hs, r1, r2, _, _, sy⟩ | ⟨b', e, st, _⟩
    · rw [e]
      simp only []
      have hthr : s.thr ≤ ({ s with bm := b' } : St).thr := thr_le_of_tbr st.tbrMono
      refine ⟨⟨h.cfg, h.fuel, st.wf, inv_release h.idx hthr, h.mg⟩, (by first | rfl | trivial), (by first | rfl | trivial), hthr, st, ?_, hs⟩
      simp [St.thr]; omega
    · rw [e]
      simp only []
      have hthr : s.thr ≤ ({ s with bm := b' } : St).thr := thr_le_of_tbr st.tbrMono
      exact ⟨⟨h.cfg, h.fuel, st.wf, inv_release h.idx hthr, h.mg⟩, (by first | rfl | trivial), (by first | rfl | trivial), hthr, st⟩
  · unfold BlockMap.put
    rw [findBlockWithSpace_too_big c.bm c.fuelGrow size s.bm (by omega)]
    simp only []
    exact ⟨h, (by first | rfl | trivial), (by first | rfl | trivial), Int.le_refl _, Step.refl h.wf⟩

/-- `finalize`: registers the ticket's location under exactly the given keys, if the block is still
there; otherwise nothing changes. -/
theorem finalize_spec {c : Cfg} {s : St} (h : SInv c s) (t : Ticket) (keys : List Nat) :
    match finalize c s t keys with
    | some s' => SInv c s' ∧ s'.bm = s.bm ∧ s'.medium = s.medium ∧ s.bm.toBeReleased ≤ t.blk ∧
        ∀ q l, RawIn s'.tab q l → RawIn s.tab q l ∨ (q ∈ keys ∧ l = mkLoc t.blk t.off t.size)
    | none => t.blk < s.bm.toBeReleased := by
  unfold finalize
  by_cases hf : finalizeOk s.bm t = true
  · simp only [hf, if_true]
    have hle : s.bm.toBeReleased ≤ t.blk := by simpa [finalizeOk] using hf
    have hl : s.thr ≤ (mkLoc t.blk t.off t.size).blockIndex := by simp [St.thr, mkLoc]; omega
    refine ⟨⟨h.cfg, h.fuel, h.wf, putKeys_inv c.idx s.thr _ hl h.mg keys ⟨s.tab⟩ h.idx, h.mg⟩, (by first | rfl | trivial), (by first | rfl | trivial), hle, ?_⟩
    intro q l hr
    exact putKeys_raw c.idx s.thr _ keys ⟨s.tab⟩ q l hr
  · simp only [hf]
    simp [finalizeOk] at hf
    simpa using hf

/-- `indexPut` of a location in a resolvable block. -/
theorem indexPut_spec {c : Cfg} {s : St} (h : SInv c s) (k : Nat) (l : Loc) (hl : s.thr ≤ l.blockIndex) :
    SInv c (indexPut c s k l) ∧ (indexPut c s k l).bm = s.bm ∧
    ∀ q l', RawIn (indexPut c s k l).tab q l' → RawIn s.tab q l' ∨ (q = k ∧ l' = l) := by
  refine ⟨⟨h.cfg, h.fuel, h.wf, put_inv c.idx s.thr s.tab k l h.idx hl h.mg, h.mg⟩, rfl, ?_⟩
  intro q l' hr
  exact putAux_raw c.idx s.thr c.idx.maxPut s.tab ⟨k, 0, l⟩ q l' hr

/-- A data-integrity report for a looked-up location. -/
theorem reportBad_spec {c : Cfg} {s : St} (h : SInv c s) (l : Loc)
    (hl : locBlk l < s.bm.released + s.bm.caps.length) : SInv c (reportBad s l) := by
  have hthr : s.thr ≤ (reportBad s l).thr := by simp [St.thr, reportBad, reportCorruption]; omega
  refine ⟨h.cfg, h.fuel, ?_, inv_release h.idx hthr, h.mg⟩
  refine ⟨h.wf.len, ?_, ?_, h.wf.cap, h.wf.idxLo, h.wf.idxHi, h.wf.idxRem, h.wf.pol⟩
  · have := h.wf.rel; simp [reportBad, reportCorruption]; omega
  · have := h.wf.tbr; simp [reportBad, reportCorruption]; omega

/-- Under the invariant, "no live record of the key anywhere" and "lookup finds nothing" coincide, so a
key that does not resolve cannot start resolving unless it is written. -/
theorem lookup_none_stable {c : Cfg} {s s' : St} (h : SInv c s) (_h' : SInv c s') (hthr : s.thr ≤ s'.thr)
    (q : Nat) (hraw : ∀ l, RawIn s'.tab q l → RawIn s.tab q l) (hn : lookup c s q = none) : lookup c s' q = none := by
  cases hl : lookup c s' q with
  | none => rfl
  | some l =>
    exfalso
    obtain ⟨slot, R, hR, hk, hloc, hlive⟩ := lookup_sound c s' q l hl
    obtain ⟨slot0, R0, hR0, hk0, hloc0⟩ := hraw l ⟨slot, R, hR, hk, hloc⟩
    refine get_best_none h.idx hn l ⟨slot0, R0, hR0, ?_, hk0, hloc0⟩
    rw [hloc0]; omega

end BB.Store
