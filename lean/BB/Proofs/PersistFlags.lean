import BB.Proofs.PersistStepG1
/-!
# Steps that only change the ghost flags `precov` / `durable` of the objects
-/
namespace BB.Persist

/-- `a` is `b` up to the ghost flags. -/
def SameCore (a b : Obj) : Prop :=
  a.id = b.id ∧ a.gid = b.gid ∧ a.slot = b.slot ∧ a.off = b.off ∧ a.size = b.size ∧ a.key = b.key ∧ a.abs = b.abs ∧
  a.upload = b.upload ∧ a.data = b.data ∧ a.copied = b.copied ∧ a.mine = b.mine ∧ a.fin = b.fin

theorem SameCore.matches {a b : Obj} (h : SameCore a b) {r : PRec} (hm : Matches b r) : Matches a r := by
  obtain ⟨_, _, _, h4, h5, h6, _, _, _, h10, _, h12⟩ := h
  unfold Matches at *
  rw [h4, h5, h6, h10, h12]; exact hm

theorem map_id_of_sameCore {objs : List Obj} {f : Obj → Obj} (hf : ∀ o, SameCore (f o) o) :
    (objs.map f).map (·.id) = objs.map (·.id) := by
  simp only [List.map_map]
  apply List.map_congr_left
  intro o _
  exact (hf o).1

theorem objInv_flags {c : Cfg} {objs : List Obj} {p : PBL} {z : List Blk} {pins : List Nat} {no ng : Nat}
    {sh : List (Nat × Nat)} (f : Obj → Obj) (hf : ∀ o, SameCore (f o) o)
    (hfl : ∀ o ∈ objs, ((f o).precov = true → o.mine = true ∧ o.copied = true) ∧ ((f o).durable = true → o.copied = true) ∧
      (o.durable = true → (f o).durable = true))
    (ho : ObjInv c objs p z pins no ng sh) : ObjInv c (objs.map f) p z pins no ng sh := by
  have hmem : ∀ o' ∈ objs.map f, ∃ o ∈ objs, o' = f o := by
    intro o' h; obtain ⟨o, h1, h2⟩ := List.mem_map.1 h; exact ⟨o, h1, h2.symm⟩
  constructor
  · rw [map_id_of_sameCore hf]; exact ho.ids
  · intro o' h; obtain ⟨o, h1, rfl⟩ := hmem o' h; rw [(hf o).1]; exact ho.idLt o h1
  · intro o' h; obtain ⟨o, h1, rfl⟩ := hmem o' h; rw [(hf o).2.2.2.2.1]; exact ho.size o h1
  · intro o' h; obtain ⟨o, h1, rfl⟩ := hmem o' h; rw [(hf o).2.1]; exact ho.gidLt o h1
  · intro o' h b hb hg; obtain ⟨o, h1, rfl⟩ := hmem o' h
    rw [(hf o).2.2.1]; exact ho.slotOk o h1 b hb (by rw [← (hf o).2.1]; exact hg)
  · intro o' h hm i b hb hg; obtain ⟨o, h1, rfl⟩ := hmem o' h
    obtain ⟨_, k2, _, k4, k5, _, k7, _, _, _, k11, _⟩ := hf o
    rw [k7, k4, k5]
    exact ho.place o h1 (by rw [← k11]; exact hm) i b hb (by rw [← k2]; exact hg)
  · intro o' h hm; obtain ⟨o, h1, rfl⟩ := hmem o' h
    obtain ⟨_, k2, _, _, _, _, k7, _, _, _, k11, _⟩ := hf o
    rw [k7, k2]
    exact ho.absIn o h1 (by rw [← k11]; exact hm)
  · intro o' h hm b hb hg; obtain ⟨o, h1, rfl⟩ := hmem o' h
    obtain ⟨_, k2, _, k4, _, _, _, _, _, _, k11, _⟩ := hf o
    rw [k4]
    exact ho.baseLe o h1 (by rw [← k11]; exact hm) b hb (by rw [← k2]; exact hg)
  · intro o' h hm; obtain ⟨o, h1, rfl⟩ := hmem o' h
    obtain ⟨_, k2, _, k4, k5, _, _, _, _, k10, k11, _⟩ := hf o
    obtain ⟨r1, r2, r3⟩ := ho.restored o h1 (by rw [← k11]; exact hm)
    rw [k10, k2, k4, k5]
    exact ⟨(hfl o h1).2.2 r1, r2, r3⟩
  · intro a' ha b' hb m1 m2 hg hid
    obtain ⟨a, a1, rfl⟩ := hmem a' ha
    obtain ⟨b, b1, rfl⟩ := hmem b' hb
    obtain ⟨ka1, ka2, _, ka4, ka5, _, _, _, _, _, ka11, _⟩ := hf a
    obtain ⟨kb1, kb2, _, kb4, kb5, _, _, _, _, _, kb11, _⟩ := hf b
    rw [ka4, ka5, kb4, kb5]
    exact ho.disj a a1 b b1 (by rw [← ka11]; exact m1) (by rw [← kb11]; exact m2) (by rw [← ka2, ← kb2]; exact hg)
      (by rw [← ka1, ← kb1]; exact hid)
  · intro o' h hm hc; obtain ⟨o, h1, rfl⟩ := hmem o' h
    obtain ⟨_, k2, _, _, _, _, _, _, _, k10, k11, _⟩ := hf o
    rw [k2]
    exact ho.heldW o h1 (by rw [← k11]; exact hm) (by rw [← k10]; exact hc)
  · intro g
    refine Nat.le_trans (Nat.le_of_eq ?_) (ho.pinCount g)
    rw [List.filter_map, List.length_map]
    congr 1
    apply List.filter_congr
    intro o _
    obtain ⟨_, k2, _, _, _, _, _, _, _, k10, k11, _⟩ := hf o
    simp [Function.comp, k2, k10, k11]
  · intro o' h hfin; obtain ⟨o, h1, rfl⟩ := hmem o' h
    obtain ⟨_, _, _, _, _, _, _, _, _, k10, _, k12⟩ := hf o
    rw [k10]; exact ho.fin o h1 (by rw [← k12]; exact hfin)
  · intro o' h; obtain ⟨o, h1, rfl⟩ := hmem o' h
    obtain ⟨_, _, _, _, _, _, _, _, _, k10, k11, _⟩ := hf o
    rw [k10, k11]
    exact ⟨(hfl o h1).1, (hfl o h1).2.1⟩
  · intro o' h hc; obtain ⟨o, h1, rfl⟩ := hmem o' h
    obtain ⟨_, _, _, _, _, k6, _, _, k9, k10, _, _⟩ := hf o
    rw [k6, k9]; exact ho.shadow o h1 (by rw [← k10]; exact hc)
  · exact ho.aligned
  · exact ho.cursor

theorem recInv_flags {recs : List PRec} {objs : List Obj} {p : PBL} {ns : Nat} (f : Obj → Obj)
    (hf : ∀ o, SameCore (f o) o) (hr : RecInv recs objs p ns) : RecInv recs (objs.map f) p ns := by
  refine ⟨?_, hr.seedLt, hr.pSeeds⟩
  intro r hrm i hres
  obtain ⟨b, o, hb, ho, hg, hm⟩ := hr.res r hrm i hres
  exact ⟨b, f o, hb, List.mem_map.2 ⟨o, ho, rfl⟩, by rw [(hf o).2.1]; exact hg, (hf o).matches hm⟩

theorem fileInv_flags {ss : Nat} {fl : SFile} {heldF : List Blk} {recs : List PRec} {objs : List Obj} {p : PBL} {ns : Nat}
    (f : Obj → Obj) (hf : ∀ o, SameCore (f o) o) (hd : ∀ o ∈ objs, o.durable = true → (f o).durable = true)
    (h : FileInv ss fl heldF recs objs p ns) : FileInv ss fl heldF recs (objs.map f) p ns := by
  refine ⟨h.gids, h.heldIn, h.bound, h.seedLt, ?_, ?_, h.agree⟩
  · intro o' ho' j bs e hbs hg hfin hlt
    obtain ⟨o, ho, rfl⟩ := List.mem_map.1 ho'
    obtain ⟨_, k2, _, k4, k5, _, _, _, _, _, _, k12⟩ := hf o
    obtain ⟨r1, r2, r3⟩ := h.committed o ho j bs e hbs (by rw [← k2]; exact hg) (by rw [← k12]; exact hfin) hlt
    rw [k4, k5]
    exact ⟨hd o ho r1, r2, r3⟩
  · intro r hrm i hres
    obtain ⟨bs, o, hbs, ho, hg, hm⟩ := h.res r hrm i hres
    exact ⟨bs, f o, hbs, List.mem_map.2 ⟨o, ho, rfl⟩, by rw [(hf o).2.1]; exact hg, (hf o).matches hm⟩

end BB.Persist
