import BB.Proofs.ErrorHandling
/-!
# Helper lemmas for C16, part 2: `errorHandlingChunkReader`, `casValidatingChunkReader`,
`offsetChunkReader` and the consumer, as event sequences
-/
namespace BB.ErrorHandling

/-! ## `ehChunks` -/

/-- Resuming at the delivered offset: with sources that hold (prefixes of) `D`, the stitched stream
that starts at `off` is a prefix of `D` from `off` on - nothing repeated, nothing skipped. -/
theorem ehChunks_prefix (D : Bytes) (m : Nat) : ∀ (h : List Resp) (cs : List Bytes) (t : Term) (off : Nat),
    GoodH D h → cs.flatten <+: D.drop off → evBytes (ehChunks m (cs, t) off h).1 <+: D.drop off
  | h, cs, .eof, off, _, hc => by simpa [ehChunks] using hc
  | [], cs, .err e, off, _, hc => by simpa [ehChunks, evBytes] using hc
  | .fail k :: h, cs, .err e, off, _, hc => by simpa [ehChunks, evBytes] using hc
  | .repl b :: h, cs, .err e, off, g, hc => by
    simp only [ehChunks, evBytes_append, evBytes_chunks, evBytes]
    apply prefix_extend hc
    have ho := openChunks_flatten b (off + cs.flatten.length) m
    have := ehChunks_prefix D m h (openChunks b (off + cs.flatten.length) m).1
      (openChunks b (off + cs.flatten.length) m).2 (off + cs.flatten.length) g.tail
      (by rw [ho]; exact prefix_drop _ g.head.content_prefix)
    exact this

/-- The `OnError` calls of the stitched stream are errors of the successive buffers. -/
theorem ehChunks_chain (m : Nat) : ∀ (h : List Resp) (b : Buf) (off off' : Nat),
    Chain b h (evErrs (ehChunks m (openChunks b off' m) off h).1)
  | h, b, off, off' => by
    have hown := openChunks_own b off' m
    revert hown
    generalize openChunks b off' m = cur
    obtain ⟨cs, t⟩ := cur
    intro hown
    cases t with
    | eof => simp [ehChunks]; exact .nil b h
    | err e =>
      have ho : Own b e := hown e rfl
      cases h with
      | nil => simp [ehChunks, evErrs]; exact .last b _ e ho
      | cons r h =>
        cases r with
        | fail k => simp [ehChunks, evErrs]; exact .last b _ e ho
        | repl b' =>
          simp only [ehChunks, evErrs_append, evErrs_chunks, evErrs, List.nil_append]
          exact .step b b' h e _ ho (ehChunks_chain m h b' _ _)

/-- The terminal of the stitched stream is the handler's decision. -/
theorem ehChunks_term (m : Nat) : ∀ (h : List Resp) (cs : List Bytes) (t : Term) (off : Nat),
    match (ehChunks m (cs, t) off h).2 with
    | .eof => decision h (evErrs (ehChunks m (cs, t) off h).1).length = none
    | .err e => decision h (evErrs (ehChunks m (cs, t) off h).1).length = some e
  | h, cs, .eof, off => by simp [ehChunks, decision]
  | [], cs, .err e, off => by simp [ehChunks, evErrs, decision]
  | .fail k :: h, cs, .err e, off => by simp [ehChunks, evErrs, decision]
  | .repl b :: h, cs, .err e, off => by
    have ih := ehChunks_term m h (openChunks b (off + cs.flatten.length) m).1
      (openChunks b (off + cs.flatten.length) m).2 (off + cs.flatten.length)
    simp only [ehChunks, evErrs_append, evErrs_chunks, evErrs, List.nil_append, List.length_cons, decision]
    exact ih

/-! ## `finalize`, `validate` -/

theorem finalize_spec (d : Digest) (acc : Bytes) (t : Term) : ∀ evs : List Ev,
    evBytes (finalize d acc evs t).1 = [] ∧ evErrs (finalize d acc evs t).1 <+: evErrs evs ∧
    ((finalize d acc evs t).2 = none →
      d.valid acc = true ∧ t = .eof ∧ evBytes evs = [] ∧ evErrs (finalize d acc evs t).1 = evErrs evs) ∧
    (∀ e, (finalize d acc evs t).2 = some e →
      e.isIntegrity ∨ (t = .err e ∧ evErrs (finalize d acc evs t).1 = evErrs evs))
  | [] => by
    cases t with
    | eof =>
      by_cases hv : d.valid acc = true
      · simp [finalize, evBytes, evErrs, hv]
      · simp [finalize, evBytes, evErrs, hv, Err.isIntegrity]
    | err e => simp [finalize, evBytes, evErrs]
  | .onErr e :: r => by
    obtain ⟨h1, h2, h3, h4⟩ := finalize_spec d acc t r
    simp only [finalize, evBytes, evErrs]
    refine ⟨h1, List.cons_prefix_cons.mpr ⟨rfl, h2⟩, fun hn => ?_, fun e' he => ?_⟩
    · obtain ⟨a, b, c, dd⟩ := h3 hn
      exact ⟨a, b, c, by rw [dd]⟩
    · rcases h4 e' he with hi | ⟨a, b⟩
      · exact Or.inl hi
      · exact Or.inr ⟨a, by rw [b]⟩
  | .chunk c :: r => by
    obtain ⟨h1, h2, h3, h4⟩ := finalize_spec d acc t r
    simp only [finalize]
    by_cases hc : c.length > 0
    · simp [hc, evBytes, evErrs, Err.isIntegrity]
    · have hc0 : c = [] := List.eq_nil_of_length_eq_zero (by omega)
      subst hc0
      simp only [List.length_nil, Nat.lt_irrefl, if_false, gt_iff_lt, evBytes, evErrs, List.nil_append]
      exact ⟨h1, h2, h3, h4⟩

theorem validateAux_spec (d : Digest) (t : Term) : ∀ (evs : List Ev) (rem : Nat) (acc : Bytes),
    evBytes (validateAux d rem acc evs t).1 <+: evBytes evs ∧
    evErrs (validateAux d rem acc evs t).1 <+: evErrs evs ∧
    ((validateAux d rem acc evs t).2 = .eof →
      d.valid (acc ++ evBytes (validateAux d rem acc evs t).1) = true ∧
      (evBytes (validateAux d rem acc evs t).1).length = rem ∧
      t = .eof ∧ evErrs (validateAux d rem acc evs t).1 = evErrs evs) ∧
    (∀ e, (validateAux d rem acc evs t).2 = .err e →
      e.isIntegrity ∨ (t = .err e ∧ evErrs (validateAux d rem acc evs t).1 = evErrs evs))
  | [], rem, acc => by
    cases t with
    | eof => simp [validateAux, evBytes, evErrs, Err.isIntegrity]
    | err e => simp [validateAux, evBytes, evErrs]
  | .onErr e :: r, rem, acc => by
    obtain ⟨h1, h2, h3, h4⟩ := validateAux_spec d t r rem acc
    simp only [validateAux, evBytes, evErrs]
    refine ⟨h1, List.cons_prefix_cons.mpr ⟨rfl, h2⟩, fun he => ?_, fun e' he => ?_⟩
    · obtain ⟨a, b, c, dd⟩ := h3 he
      exact ⟨a, b, c, by rw [dd]⟩
    · rcases h4 e' he with hi | ⟨a, b⟩
      · exact Or.inl hi
      · exact Or.inr ⟨a, by rw [b]⟩
  | .chunk c :: r, rem, acc => by
    simp only [validateAux]
    by_cases hgt : c.length > rem
    · simp [hgt, evBytes, evErrs, Err.isIntegrity]
    · simp only [hgt, if_false]
      by_cases heq : c.length = rem
      · simp only [heq, if_true]
        obtain ⟨f1, f2, f3, f4⟩ := finalize_spec d (acc ++ c) t r
        generalize hf : finalize d (acc ++ c) r t = fr at f1 f2 f3 f4
        obtain ⟨fe, fo⟩ := fr
        cases fo with
        | none =>
          obtain ⟨a, b, cc, dd⟩ := f3 rfl
          simp only [evBytes_append, f1, evBytes, List.nil_append, List.append_nil, evErrs_append, evErrs, cc]
          refine ⟨List.prefix_refl _, ?_, fun _ => ⟨a, heq, b, by simpa using dd⟩, fun e he => by simp at he⟩
          simpa using f2
        | some e =>
          simp only [f1, evBytes, evErrs]
          refine ⟨List.nil_prefix, f2, fun he => by simp at he, fun e' he => ?_⟩
          simp at he
          subst he
          exact f4 e rfl
      · simp only [heq, if_false]
        obtain ⟨h1, h2, h3, h4⟩ := validateAux_spec d t r (rem - c.length) (acc ++ c)
        simp only [evBytes, evErrs]
        refine ⟨(List.prefix_append_right_inj c).mpr h1, h2, fun he => ?_, h4⟩
        obtain ⟨a, b, c1, c2⟩ := h3 he
        refine ⟨by rw [← List.append_assoc]; exact a, ?_, c1, c2⟩
        simp only [List.length_append, b]
        omega

/-- What `casValidatingChunkReader` lets through is a prefix of what it reads; it reports the end
of the stream only if the bytes it let through have the digest's size and checksum; an error it
reports is an integrity error or the terminal error of the stream below it. -/
theorem validate_spec (d : Digest) (evs : List Ev) (t : Term) :
    evBytes (validate d evs t).1 <+: evBytes evs ∧
    evErrs (validate d evs t).1 <+: evErrs evs ∧
    ((validate d evs t).2 = .eof →
      d.valid (evBytes (validate d evs t).1) = true ∧ (evBytes (validate d evs t).1).length = d.size ∧
      t = .eof ∧ evErrs (validate d evs t).1 = evErrs evs) ∧
    (∀ e, (validate d evs t).2 = .err e →
      e.isIntegrity ∨ (t = .err e ∧ evErrs (validate d evs t).1 = evErrs evs)) := by
  unfold validate
  by_cases h0 : d.size = 0
  · simp only [h0, if_true]
    obtain ⟨f1, f2, f3, f4⟩ := finalize_spec d [] t evs
    generalize finalize d [] evs t = fr at f1 f2 f3 f4
    obtain ⟨fe, fo⟩ := fr
    cases fo with
    | none =>
      obtain ⟨a, b, cc, dd⟩ := f3 rfl
      simp only [f1]
      exact ⟨List.nil_prefix, f2, fun _ => ⟨a, rfl, b, dd⟩, fun e he => by simp at he⟩
    | some e =>
      simp only [f1]
      refine ⟨List.nil_prefix, f2, fun he => by simp at he, fun e' he => ?_⟩
      simp at he; subst he; exact f4 e rfl
  · simp only [h0, if_false]
    obtain ⟨h1, h2, h3, h4⟩ := validateAux_spec d t evs d.size []
    exact ⟨h1, h2, fun he => by simpa using h3 he, h4⟩

/-! ## The consumer and the offset reader -/

theorem consume_spec (t : Term) : ∀ (evs : List Ev) (k : Nat),
    readBytes (consume evs t k).1 <+: evBytes evs ∧
    (consume evs t k).2 <+: evErrs evs ∧
    (∀ bs, (bs, Status.eof) ∈ (consume evs t k).1 →
      t = .eof ∧ readBytes (consume evs t k).1 = evBytes evs ∧ (consume evs t k).2 = evErrs evs) ∧
    (∀ bs e, (bs, Status.err e) ∈ (consume evs t k).1 → t = .err e ∧ (consume evs t k).2 = evErrs evs)
  | evs, 0 => by
    cases evs <;> simp [consume, readBytes]
  | [], k+1 => by
    cases t <;> simp [consume, readBytes, Term.status, evBytes, evErrs]
  | .onErr e :: r, k+1 => by
    obtain ⟨h1, h2, h3, h4⟩ := consume_spec t r (k+1)
    simp only [consume, evBytes, evErrs]
    refine ⟨h1, List.cons_prefix_cons.mpr ⟨rfl, h2⟩, fun bs hm => ?_, fun bs e' hm => ?_⟩
    · obtain ⟨a, b, c⟩ := h3 bs hm
      exact ⟨a, b, by rw [c]⟩
    · obtain ⟨a, b⟩ := h4 bs e' hm
      exact ⟨a, by rw [b]⟩
  | .chunk c :: r, k+1 => by
    obtain ⟨h1, h2, h3, h4⟩ := consume_spec t r k
    simp only [consume, evBytes, evErrs]
    refine ⟨?_, h2, fun bs hm => ?_, fun bs e hm => ?_⟩
    · simp only [readBytes, List.map_cons, List.flatten_cons]
      exact (List.prefix_append_right_inj c).mpr h1
    · simp only [List.mem_cons, Prod.mk.injEq, reduceCtorEq, and_false, false_or] at hm
      obtain ⟨a, b, c⟩ := h3 bs hm
      refine ⟨a, ?_, c⟩
      simp only [readBytes, List.map_cons, List.flatten_cons] at b ⊢
      rw [b]
    · simp only [List.mem_cons, Prod.mk.injEq, reduceCtorEq, and_false, false_or] at hm
      exact h4 bs e hm

theorem skipEv_spec (t : Term) : ∀ (evs : List Ev) (off : Nat),
    match (skipEv evs t off).2 with
    | some evs' => evBytes evs' = (evBytes evs).drop off ∧ (skipEv evs t off).1 ++ evErrs evs' = evErrs evs
    | none => (skipEv evs t off).1 = evErrs evs ∧ (evBytes evs).length < off
  | evs, 0 => by cases evs <;> simp [skipEv]
  | [], off+1 => by simp [skipEv, evErrs, evBytes]
  | .onErr e :: r, off+1 => by
    have ih := skipEv_spec t r (off+1)
    simp only [skipEv, evBytes, evErrs]
    cases hs : (skipEv r t (off+1)).2 with
    | none => rw [hs] at ih; simp only [ih.1, true_and]; exact ih.2
    | some evs' => rw [hs] at ih; simp only [List.cons_append, ih.1, ih.2, and_self]
  | .chunk c :: r, off+1 => by
    simp only [skipEv]
    by_cases hlt : off + 1 < c.length
    · simp only [hlt, if_true, evBytes, evErrs, List.nil_append, and_true]
      rw [List.drop_append]
      have : off + 1 - c.length = 0 := by omega
      simp [this]
    · simp only [hlt, if_false]
      have hle : c.length ≤ off + 1 := Nat.le_of_not_lt hlt
      have ih := skipEv_spec t r (off + 1 - c.length)
      cases hs : (skipEv r t (off + 1 - c.length)).2 with
      | none =>
        rw [hs] at ih
        simp only [evErrs, evBytes, List.length_append]
        exact ⟨ih.1, by omega⟩
      | some evs' =>
        rw [hs] at ih
        simp only [evBytes, evErrs]
        refine ⟨?_, ih.2⟩
        rw [ih.1, List.drop_append, List.drop_eq_nil_of_le hle]
        simp

/-- A consumer that may make more `Read` calls than there are events reaches the terminal. -/
theorem consume_full (t : Term) : ∀ (evs : List Ev) (k : Nat), k > evs.length →
    ∃ x, (x, t.status) ∈ (consume evs t k).1
  | [], 0, h => by simp at h
  | [], k+1, _ => ⟨[], by simp [consume]⟩
  | .onErr e :: r, 0, h => by simp at h
  | .onErr e :: r, k+1, h => by
    obtain ⟨x, hx⟩ := consume_full t r (k+1) (by simp at h; omega)
    exact ⟨x, by simpa [consume] using hx⟩
  | .chunk c :: r, 0, h => by simp at h
  | .chunk c :: r, k+1, h => by
    obtain ⟨x, hx⟩ := consume_full t r k (by simp at h; omega)
    exact ⟨x, by simp only [consume, List.mem_cons]; exact Or.inr hx⟩

/-! ## The writer loop -/

theorem writeAll_err : ∀ (rs : List (Bytes × Status)) (fa : Option Nat) (e : Err),
    (writeAll rs fa).2 = some e → e = .writer ∨ ∃ x, (x, Status.err e) ∈ rs
  | [], fa, e, h => by simp [writeAll] at h
  | (x, .eof) :: r, fa, e, h => by simp [writeAll] at h
  | (x, .err e') :: r, fa, e, h => by
    simp [writeAll] at h; subst h; exact Or.inr ⟨x, List.mem_cons_self⟩
  | (x, .ok) :: r, some 0, e, h => by simp [writeAll] at h; exact Or.inl h.symm
  | (x, .ok) :: r, some (j+1), e, h => by
    simp only [writeAll] at h
    rcases writeAll_err r (some j) e h with h1 | ⟨y, hy⟩
    · exact Or.inl h1
    · exact Or.inr ⟨y, List.mem_cons_of_mem _ hy⟩
  | (x, .ok) :: r, none, e, h => by
    simp only [writeAll] at h
    rcases writeAll_err r none e h with h1 | ⟨y, hy⟩
    · exact Or.inl h1
    · exact Or.inr ⟨y, List.mem_cons_of_mem _ hy⟩

theorem writeAll_prefix : ∀ (rs : List (Bytes × Status)) (fa : Option Nat),
    (writeAll rs fa).1.flatten <+: readBytes rs
  | [], fa => by simp [writeAll]
  | (x, .eof) :: r, fa => by simp [writeAll]
  | (x, .err e') :: r, fa => by simp [writeAll]
  | (x, .ok) :: r, some 0 => by simp [writeAll]
  | (x, .ok) :: r, some (j+1) => by
    simp only [writeAll, List.flatten_cons, readBytes_cons]
    exact (List.prefix_append_right_inj x).mpr (writeAll_prefix r (some j))
  | (x, .ok) :: r, none => by
    simp only [writeAll, List.flatten_cons, readBytes_cons]
    exact (List.prefix_append_right_inj x).mpr (writeAll_prefix r none)

/-- `IntoWriter` returns nil only after the stream below reported EOF and everything was written. -/
theorem writeAll_consume_none (t : Term) : ∀ (evs : List Ev) (k : Nat) (fa : Option Nat),
    (fa = none → k > evs.length) → (∀ j, fa = some j → k = j + 1) →
    (writeAll (consume evs t k).1 fa).2 = none →
    t = .eof ∧ (writeAll (consume evs t k).1 fa).1.flatten = evBytes evs ∧ (consume evs t k).2 = evErrs evs
  | evs, 0, fa, h1, h2, _ => by
    cases fa with
    | none => have := h1 rfl; omega
    | some j => have := h2 j rfl; omega
  | [], k+1, fa, _, _, h => by
    cases t with
    | eof => simp [consume, Term.status, writeAll, evBytes, evErrs]
    | err e => simp [consume, Term.status, writeAll] at h
  | .onErr e :: r, k+1, fa, h1, h2, h => by
    simp only [consume] at h ⊢
    obtain ⟨a, b, c⟩ := writeAll_consume_none t r (k+1) fa (fun hf => by have := h1 hf; simp at this; omega) h2 h
    exact ⟨a, by simpa [evBytes] using b, by simp [evErrs, c]⟩
  | .chunk c :: r, k+1, fa, h1, h2, h => by
    simp only [consume] at h ⊢
    cases fa with
    | none =>
      simp only [writeAll] at h ⊢
      obtain ⟨a, b, c⟩ := writeAll_consume_none t r k none (fun _ => by have := h1 rfl; simp at this; omega)
        (fun j hj => by simp at hj) h
      exact ⟨a, by simp [evBytes, b], by simpa [evErrs] using c⟩
    | some j =>
      cases j with
      | zero => simp [writeAll] at h
      | succ j =>
        simp only [writeAll] at h ⊢
        have hk := h2 (j+1) rfl
        obtain ⟨a, b, c⟩ := writeAll_consume_none t r k (some j) (fun hf => by simp at hf)
          (fun j' hj => by simp at hj; omega) h
        exact ⟨a, by simp [evBytes, b], by simpa [evErrs] using c⟩

end BB.ErrorHandling
