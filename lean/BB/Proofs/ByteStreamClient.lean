import BB.Proofs.ByteStreamUpload
import BB.Proofs.ByteStreamBatch
/-!
# The client's message generation and reassembly
-/
namespace BB.ByteStream

theorem putMsgsFrom_complete (pieces : List Bytes) : ∀ off, Complete (putMsgsFrom off pieces) := by
  induction pieces with
  | nil => intro off; simp [putMsgsFrom, Complete]
  | cons p ps ih =>
    intro off
    simp only [putMsgsFrom]
    rw [complete_cons_nofin rfl]
    exact ih _

theorem putMsgsFrom_contig (pieces : List Bytes) : ∀ off, Contig off (putMsgsFrom off pieces) := by
  induction pieces with
  | nil => intro off; simp [putMsgsFrom, Contig]
  | cons p ps ih => intro off; exact ⟨rfl, ih _⟩

theorem putMsgsFrom_concat (pieces : List Bytes) : ∀ off, concatData (putMsgsFrom off pieces) = pieces.flatten := by
  induction pieces with
  | nil => intro off; simp [putMsgsFrom, concatData]
  | cons p ps ih => intro off; simp [putMsgsFrom, concatData, ih]

theorem putMsgsFrom_ne_nil (pieces : List Bytes) (off : Int) : putMsgsFrom off pieces ≠ [] := by
  cases pieces <;> simp [putMsgsFrom]

/-- The validating chunk reader on the client side hands out exactly matching content. -/
theorem cvLoop_ok_iff (C : Codec) (d : Digest) (code : Nat) (cks : List Bytes) :
    ∀ (acc : Bytes) (term : Option Err) (c : Bytes), acc.length ≤ d.size →
    (cvLoop C d code acc cks term = .ok c ↔
      term = none ∧ c = acc ++ cks.flatten ∧ c.length = d.size ∧ C.H c = d.hash) := by
  induction cks with
  | nil =>
    intro acc term c hacc
    cases term with
    | some e => simp [cvLoop]
    | none =>
      simp only [cvLoop]
      by_cases h1 : acc.length < d.size
      · simp [h1]; intro hc hl; rw [hc] at hl; omega
      · by_cases h2 : C.H acc = d.hash
        · simp [h1, h2]; constructor
          · intro h; subst h; exact ⟨rfl, by omega, h2⟩
          · intro h; exact h.1.symm
        · simp [h1, h2]; intro hc _ hh; rw [hc] at hh; exact absurd hh h2
  | cons k ks ih =>
    intro acc term c hacc
    simp only [cvLoop]
    by_cases hb : acc.length + k.length > d.size
    · simp only [hb, if_true]
      constructor
      · intro h; cases h
      · rintro ⟨_, hc, hl, _⟩
        rw [hc] at hl; simp at hl; omega
    · simp only [hb, if_false]
      rw [ih (acc ++ k) term c (by simp; omega)]
      simp [List.append_assoc]

/-- Identity upload by the client: the server stores exactly the data and acknowledges. -/
theorem client_put_identity (C : Codec) (F : Flags) (st : Store) (d : Digest) (data : Bytes) (cs : Nat)
    (hcs : 0 < cs) (hv : Valid C d data) :
    write C F st .identity d (clientPutMsgs cs data) .eof {} = (st.put d data, .ok d.size) := by
  have hcat : concatData (clientPutMsgs cs data) = data := by
    unfold clientPutMsgs; rw [putMsgsFrom_concat, chunks_flatten cs hcs]
  have hloop : idLoop C d 0 false [] (clientPutMsgs cs data) .eof = .ok data :=
    (idLoop_ok_iff C d _ 0 [] .eof data (Nat.zero_le _)).mpr
      ⟨putMsgsFrom_complete _ 0, putMsgsFrom_contig _ 0, rfl, by simp [hcat], hv.1, hv.2⟩
  have hcg := putMsgsFrom_contig (chunks cs data) 0
  cases hm : clientPutMsgs cs data with
  | nil => exact absurd hm (putMsgsFrom_ne_nil _ 0)
  | cons first rest =>
    unfold clientPutMsgs at hm
    rw [hm] at hcg
    have ho : first.offset = 0 := hcg.1
    unfold clientPutMsgs at hloop
    rw [hm] at hloop
    simp only [write, ho, ne_eq, not_true_eq_false, if_false, hloop, finishWrite_ok]

/-- Compressed upload by the client, for any cutting of the compressed stream into messages. -/
theorem client_put_zstd (C : Codec) (F : Flags) (st : Store) (d : Digest) (data : Bytes)
    (pieces : List Bytes) (hp : pieces.flatten = C.enc data) (hdec : C.dec (C.enc data) = (data, .clean))
    (hv : Valid C d data) :
    write C F st .zstd d (clientPutMsgsZ pieces) .eof {} = (st.put d data, .ok (C.enc data).length) := by
  have hcat : concatData (clientPutMsgsZ pieces) = C.enc data := by
    unfold clientPutMsgsZ; rw [putMsgsFrom_concat, hp]
  obtain ⟨pre, last, hmsgs, hpre, hlast⟩ := (complete_iff _).mp (putMsgsFrom_complete pieces 0)
  have hcg := putMsgsFrom_contig pieces 0
  have hz : zCollect 0 false [] (clientPutMsgsZ pieces) .eof = (C.enc data, none) := by
    refine (zCollect_eof_iff _ 0 [] .eof _).mpr ⟨pre, last, [], ⟨by unfold clientPutMsgsZ; exact hmsgs, hpre, hlast⟩, ?_, ?_⟩
    · rw [← hmsgs]; exact hcg
    · unfold clientPutMsgsZ at hcat; rw [← hmsgs]; simp [hcat]
  cases hm : clientPutMsgsZ pieces with
  | nil => exact absurd hm (putMsgsFrom_ne_nil _ 0)
  | cons first rest =>
    unfold clientPutMsgsZ at hm
    rw [hm] at hcg
    have ho : first.offset = 0 := hcg.1
    have hcol : zCollect (↑first.data.length) first.finish first.data rest .eof = (C.enc data, none) := by
      unfold clientPutMsgsZ at hz
      rw [hm] at hz
      simpa [zCollect, ho] using hz
    have hval : zValidate C F d (C.enc data) none = .ok data :=
      (zValidate_ok_iff C F d _ none data).mpr ⟨rfl, by rw [hdec], hv.1, hv.2, Or.inl (by rw [hdec])⟩
    simp only [write, ho, ne_eq, not_true_eq_false, and_false, if_false, hcol, hval, finishWrite_ok]

end BB.ByteStream

namespace BB.ByteStream

theorem cvLoop_valid (C : Codec) (d : Digest) (code : Nat) (cks : List Bytes) (c : Bytes)
    (hc : cks.flatten = c) (hv : Valid C d c) : cvLoop C d code [] cks none = .ok c :=
  (cvLoop_ok_iff C d code cks [] none c (Nat.zero_le _)).mpr ⟨rfl, by simp [hc], hv.1, hv.2⟩

/-- Download by the client without compression: what the consumer gets is what `Get` of the
backend yields (the validated object, or that error). -/
theorem client_get_identity (C : Codec) (F : Flags) (st : Store) (d : Digest) (cs : Nat) (hcs : 0 < cs)
    (fault : Option Nat) :
    clientGet C F cs d (read C F st .identity d 0 0 cs 0 fault) = getValidated C st d fault := by
  simp only [read, ne_eq, not_true_eq_false, if_false]
  cases hg : getValidated C st d fault with
  | error e => simp [clientGet, cvLoop]
  | ok c =>
    have hv := ((getValidated_ok C st d fault c).mp hg).2.2
    have hok : offsetOk c.length 0 = true := by simp [offsetOk]
    simp only [hok, Bool.not_true, Bool.false_eq_true, if_false, Int.toNat_zero, List.drop_zero, sendAll_zero]
    simp only [clientGet]
    exact cvLoop_valid C d 13 _ c (chunks_flatten cs hcs c) hv

/-- Download by the client with zstd (client repaired, D10): same. -/
theorem client_get_zstd (C : Codec) (F : Flags) (hF : F.clientEOF = false) (st : Store) (d : Digest) (cs : Nat)
    (hcodec : ∀ x, C.dec (C.enc x) = (x, .clean)) (fault : Option Nat) :
    clientGet C F cs d (read C F st .zstd d 0 0 cs 0 fault) = getValidated C st d fault := by
  simp only [read, ne_eq, not_true_eq_false, if_false]
  cases hg : getValidated C st d fault with
  | error e => simp [clientGet, cvLoop]
  | ok c =>
    have hv := ((getValidated_ok C st d fault c).mp hg).2.2
    have hok : offsetOk c.length 0 = true := by simp [offsetOk]
    have hres : (if F.strictR = true then
          (if (!offsetOk c.length 0) = true then ({ res := some eOffset } : ReadOut)
           else zsend C (List.drop (Int.toNat 0) c) 0 none)
        else { zdata := some (C.enc c) }) = { zdata := some (C.enc c) } := by
      cases F.strictR <;> simp [hok, zsend]
    simp only [hres, clientGet, hcodec, hF]
    simp only [Bool.false_eq_true, false_and, if_false]
    exact cvLoop_valid C d 13 [c] c (by simp) hv

theorem findMissing_passthrough (backend : List Digest → Except Err (List Digest)) (rs : List RdEntry)
    (hne : rs ≠ []) (hgood : ∀ r ∈ rs, r.bad = false) :
    findMissing backend none rs = backend (dedup (rs.map (·.d))) := by
  unfold findMissing
  have : rs.any (·.bad) = false := by
    simp only [List.any_eq_false]
    intro r hr; simp [hgood r hr]
  simp [hne, this]

theorem clientFindMissing_passthrough (backend : List Digest → Except Err (List Digest)) (ds : List Digest)
    (hne : ds ≠ []) : clientFindMissing backend ds = backend (dedup ds) := by
  unfold clientFindMissing
  rw [findMissing_passthrough]
  · simp [List.map_map, Function.comp_def]
  · simpa using hne
  · intro r hr
    simp only [List.mem_map] at hr
    obtain ⟨x, _, hx⟩ := hr
    rw [← hx]

end BB.ByteStream
