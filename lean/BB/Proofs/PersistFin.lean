import BB.Proofs.PersistPBL
/-!
# The finalizer of `PersistentBlockList.Put` and the resolution of block references
-/
namespace BB.Persist

theorem expand_modify_last : ∀ (bs : List Blk) (a : Nat), bs ≠ [] →
    expand a (bs.modify (bs.length - 1) fun b => { b with epochCount := b.epochCount + 1 }) =
      expand a bs ++ [a + bs.length - 1] := by
  intro bs
  induction bs with
  | nil => intro a h; exact absurd rfl h
  | cons b bs ih =>
    intro a _
    cases bs with
    | nil => simp [List.modify, expand, List.replicate_succ']
    | cons c cs =>
      have := ih (a + 1) (by simp)
      simp only [List.length_cons, Nat.add_sub_cancel] at this ⊢
      rw [List.modify_succ_cons]
      simp only [expand] at this ⊢
      rw [this]
      simp
      omega

theorem setBlk_blocks_length (p : PBL) (i : Nat) (f : Blk → Blk) : (p.setBlk i f).blocks.length = p.blocks.length := by
  simp [PBL.setBlk]

/-- The finalizer preserves well-formedness when the object's block is in the list and the object's
range was handed out by the block (`off + size ≤ cursor`). -/
theorem finalize_wfp {p p' : PBL} {abs off size fresh e : Nat} (h : WFP p)
    (hf : p.finalize abs off size fresh = .ok p' e)
    (hin : abs < p.released + p.blocks.length)
    (hcur : ∀ b, p.blocks[abs - p.released]? = some b → off + size ≤ b.cursor) : WFP p' := by
  unfold PBL.finalize at hf
  split at hf
  · simp at hf
  · split at hf
    · simp at hf
    · rename_i hcl hrel
      simp only [PBL.FinRes.ok.injEq] at hf
      obtain ⟨rfl, _⟩ := hf
      have hne : p.blocks ≠ [] := by
        intro he; simp [he] at hin; omega
      -- the list after the written offset was raised
      have h1 : WFP (p.setBlk (abs - p.released) fun b => { b with written := max b.written (off + size) }) := by
        constructor
        · simp [PBL.setBlk, expand_modify, h.last]
        · simpa [PBL.setBlk] using h.seedsLen
        · exact h.sync1
        · exact h.sync2
        · intro b hb
          simp only [PBL.setBlk] at hb
          obtain ⟨i, hi⟩ := List.getElem?_of_mem hb
          rw [List.getElem?_modify] at hi
          by_cases hia : abs - p.released = i
          · simp only [hia, if_true] at hi
            cases hb0 : p.blocks[i]? with
            | none => simp [hb0] at hi
            | some b0 =>
              simp [hb0] at hi
              subst hi
              have := h.offs b0 (List.mem_of_getElem? hb0)
              have := hcur b0 (by rw [hia]; exact hb0)
              simp; omega
          · simp only [hia, if_false] at hi
            simp at hi
            exact h.offs b (List.mem_of_getElem? hi)
        · obtain ⟨g, hg⟩ := h.gids
          exact ⟨g, gidsFrom_modify _ (by simp) _ _ _ hg⟩
      split
      · -- a new epoch
        constructor
        · simp only [PBL.setBlk, List.length_modify]
          have := expand_modify_last (p.blocks.modify (abs - p.released) fun b => { b with written := max b.written (off + size) })
            p.released (by simpa using hne)
          simp only [List.length_modify] at this
          rw [this, expand_modify _ (by simp), h.last]
        · simp [PBL.setBlk, h.seedsLen]
        · simp only [PBL.setBlk]; exact h.sync1
        · simp only [PBL.setBlk, List.length_append]; have := h.sync2; simp; omega
        · intro b hb
          simp only [PBL.setBlk] at hb
          obtain ⟨i, hi⟩ := List.getElem?_of_mem hb
          rw [List.getElem?_modify] at hi
          split at hi
          · cases hb0 : (List.modify p.blocks (abs - p.released) fun b => { b with written := max b.written (off + size) })[i]? with
            | none => simp [hb0] at hi
            | some b0 =>
              simp [hb0] at hi
              subst hi
              exact h1.offs b0 (List.mem_of_getElem? hb0)
          · simp at hi
            exact h1.offs b (List.mem_of_getElem? hi)
        · obtain ⟨g, hg⟩ := h1.gids
          exact ⟨g, gidsFrom_modify _ (by simp) _ _ _ hg⟩
      · exact h1

end BB.Persist
