import BB.Proofs.PersistStepUnpin
/-!
# Invariant preservation: `copy` and `refreshCopy`
-/
namespace BB.Persist

/-- One element of a list with distinct ids stops satisfying a predicate: the count drops by one. -/
theorem filter_flip (p q : Obj → Bool) : ∀ (l : List Obj), (l.map (·.id)).Nodup → ∀ o ∈ l,
    (∀ x ∈ l, x.id ≠ o.id → q x = p x) → p o = true → q o = false →
    (l.filter q).length + 1 = (l.filter p).length := by
  intro l
  induction l with
  | nil => intro _ o ho; simp at ho
  | cons a l ih =>
    intro hn o ho hpq hp hq
    simp only [List.map_cons, List.nodup_cons] at hn
    simp only [List.mem_cons] at ho
    rcases ho with rfl | ho
    · have hrest : l.filter q = l.filter p := by
        apply List.filter_congr
        intro x hx
        apply hpq x (List.mem_cons_of_mem _ hx)
        intro he
        exact hn.1 (List.mem_map.2 ⟨x, hx, he⟩)
      simp [List.filter_cons, hp, hq, hrest]
    · have hne : a.id ≠ o.id := by
        intro he
        exact hn.1 (List.mem_map.2 ⟨o, ho, he.symm⟩)
      have ha : q a = p a := hpq a (by simp) hne
      have := ih hn.2 o ho (fun x hx => hpq x (List.mem_cons_of_mem _ hx)) hp hq
      simp only [List.filter_cons, ha]
      split
      · simp; omega
      · exact this

/-- After the copy phase the writer's pin is no longer needed by any object being written. -/
theorem pins_after_copy {w : World} (h : Inv w) {o : Obj} {id d : Nat} (ho : o ∈ w.objs) (hid : o.id = id)
    (hc : o.copied = false) (hm : o.mine = true) (g : Nat) :
    ((w.objs.map (setCopied id d)).filter fun x => x.mine && !x.copied && x.gid == g).length + (if g = o.gid then 1 else 0) ≤
      w.pins.count g := by
  refine Nat.le_trans ?_ (h.obj.pinCount g)
  rw [List.filter_map, List.length_map]
  by_cases hg : g = o.gid
  · subst hg
    simp only [if_true]
    refine Nat.le_of_eq (filter_flip _ _ w.objs h.obj.ids o ho ?_ (by simp [hm, hc]) ?_)
    · intro x _ hne
      simp only [Function.comp]
      rw [setCopied_other (by rw [← hid]; exact hne)]
    · simp only [Function.comp]
      rw [setCopied_self hid]
      simp
  · simp only [hg, if_false, Nat.add_zero]
    apply filter_length_le_of_imp
    intro x hx hp
    simp only [Function.comp, Bool.and_eq_true, Bool.not_eq_true', beq_iff_eq] at hp ⊢
    obtain ⟨_, k2, _, _, _, _, _, _, k9, _⟩ := setCopied_same id d x
    obtain ⟨⟨p1, p2⟩, p3⟩ := hp
    refine ⟨⟨by rw [← k9]; exact p1, ?_⟩, by rw [← k2]; exact p3⟩
    by_cases hxid : x.id = id
    · have : x = o := obj_eq_of_id h.obj.ids hx ho (by rw [hxid, hid])
      rw [this]; exact hc
    · rw [setCopied_other hxid] at p2; exact p2

theorem inv_copy_gen {w w' : World} {id d : Nat} (h : Inv w) (hc : w.copy id d = some w')
    (hsh : ∀ o, w.obj? id = some o → o.upload = true ∨ (o.key, d) ∈ w.shadow) : Inv w' := by
  unfold World.copy at hc
  cases hcc : w.copyCore id d with
  | none => simp [hcc] at hc
  | some r =>
    obtain ⟨o, w1⟩ := r
    simp only [hcc, Option.some.injEq] at hc
    subst hc
    have hobj : w.obj? id = some o := by
      unfold World.copyCore at hcc
      cases h0 : w.obj? id with
      | none => simp [h0] at hcc
      | some o0 =>
        simp only [h0] at hcc
        split at hcc
        · cases hcc
        · simp only [Option.some.injEq, Prod.mk.injEq] at hcc; rw [hcc.1]
    obtain ⟨h1, ho, hm, hcop, hpins, _, _, _⟩ := inv_copyCore h hcc (hsh o hobj)
    obtain ⟨_, hid⟩ := obj?_some hobj
    refine inv_unpin o.gid h1 ?_
    intro g
    have hobjs : w1.objs = w.objs.map (setCopied id d) := by
      unfold World.copyCore at hcc
      simp only [hobj] at hcc
      split at hcc
      · cases hcc
      · simp only [Option.some.injEq, Prod.mk.injEq] at hcc
        rw [← hcc.2]; rfl
    rw [hobjs, hpins]
    exact pins_after_copy h ho hid hcop hm g

theorem inv_copy {w w' : World} {id data : Nat} {o : Obj} (h : Inv w) (ho : w.obj? id = some o) (hu : o.upload = true)
    (hc : w.copy id data = some w') : Inv w' :=
  inv_copy_gen h hc (fun o' ho' => by rw [ho] at ho'; cases ho'; exact Or.inl hu)

theorem inv_refreshCopy {w w' : World} {id slot off size d : Nat} (h : Inv w)
    (hc : w.refreshCopy id slot off size = some (d, w')) : Inv w' := by
  unfold World.refreshCopy at hc
  cases ho : w.obj? id with
  | none => simp [ho] at hc
  | some o =>
    cases hr : w.readAt slot off size with
    | none => simp [ho, hr] at hc
    | some src =>
      simp only [ho, hr] at hc
      split at hc
      · cases hc
      · rename_i hcond
        simp only [Bool.or_eq_true, bne_iff_ne, ne_eq, not_or, Bool.not_eq_true, Decidable.not_not] at hcond
        cases hcp : w.copy id src.data with
        | none => simp [hcp] at hc
        | some w2 =>
          simp only [hcp, Option.some.injEq, Prod.mk.injEq] at hc
          obtain ⟨_, rfl⟩ := hc
          refine inv_copy_gen h hcp ?_
          intro o' ho'
          rw [ho] at ho'; cases ho'
          right
          -- the source is a copied object with the same key
          have hsrc := List.find?_some hr
          have hmem := List.mem_of_find?_eq_some hr
          simp only [Bool.and_eq_true] at hsrc
          have := h.obj.shadow src hmem hsrc.1.1.1.1
          rw [hcond.2] at this
          exact this

end BB.Persist
