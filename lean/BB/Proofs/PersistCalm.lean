import BB.Proofs.PersistRefuse
/-!
# C03: recognising calm steps of a concrete history
-/
namespace BB.Persist

/-- A step after which `ProcessBlockPut` is not idle and that changes its program counter or the
stage of the state writer is neither a crash nor a successful finalizer. -/
theorem calm_of_ctl {w w' : World} (hs : Step w w') (hne : w'.g1 ≠ .idle)
    (hdiff : w'.g1 ≠ w.g1 ∨ w'.sw.map (·.stage) ≠ w.sw.map (·.stage)) : Calm w w' := by
  refine ⟨hs, ?_, ?_⟩
  · intro id hf
    obtain ⟨h1, h2, _, _⟩ := finalize_ctl hf
    rcases hdiff with hd | hd
    · exact hd h1
    · exact hd (by rw [h2])
  · intro kd ki pick lo he
    apply hne
    rw [he]
    exact (crashRestart_ctl w kd ki pick lo).1

theorem CalmSteps.single {a b : World} (h : Calm a b) : CalmSteps a b := CalmSteps.tail (CalmSteps.refl a) h

end BB.Persist
