import BB.Proofs.MuxTask
/-! Part B: a successful complete read means every task below has completed, and without error. -/
namespace BB.Mux

theorem cr_success : ∀ (b : Buf) (v : Bool), (cr b v).res.isOk = true →
    ∀ p ∈ taskResults b, p.1 ∈ (cr b v).wTerm ∧ p.2 = none
  | .err _, _, _, p, hp => by simp [taskResults] at hp
  | .bytes _, _, _, p, hp => by simp [taskResults] at hp
  | .readerAt _, _, _, p, hp => by simp [taskResults] at hp
  | .stream _ _ _ _, _, _, p, hp => by simp [taskResults] at hp
  | .cloned base dg sibs, v, hok, p, hp => by
    simp only [cr] at hok ⊢
    exact cr_success base _ hok p hp
  | .task base dg t r, v, hok, p, hp => by
    have ih := cr_success base v
    simp only [cr] at hok ⊢
    simp only [taskResults, List.mem_append, List.mem_singleton] at hp
    cases hb : (cr base v).res with
    | panic => simp [hb, SR.panic, Out.isOk] at hok
    | err k => simp [hb, Out.isOk] at hok
    | ok d s =>
      cases r with
      | some e => simp [hb, Out.isOk] at hok
      | none =>
        simp only [List.mem_append, List.mem_singleton]
        rcases hp with hp | hp
        · have := ih (by rw [hb]; rfl) p hp
          exact ⟨Or.inl (Or.inl this.1), this.2⟩
        · subst hp; exact ⟨Or.inr rfl, rfl⟩
  | .eh base dg, v, hok, p, hp => by
    have ih := cr_success base false
    simp only [taskResults] at hp
    simp only [cr] at hok ⊢
    cases v with
    | false =>
      simp only [Bool.not_false, if_true] at hok ⊢
      exact ih (by rw [← trOut_isOk]; exact hok) p hp
    | true =>
      simp only [Bool.not_true, Bool.false_eq_true, if_false] at hok ⊢
      cases dg with
      | none => simp [SR.panic, Out.isOk] at hok
      | some n =>
        simp only at hok ⊢
        simp only [hok, if_true]
        exact ih (by rw [← trOut_isOk]; exact validate_isOk _ hok) p hp

theorem rd_success : ∀ (b : Buf) (v : Bool), (rd b v).res.isOk = true → (rd b v).closeErr = none →
    ∀ p ∈ taskResults b, (p.1 ∈ (rd b v).wTerm ∨ p.1 ∈ (rd b v).wClose) ∧ p.2 = none
  | .err _, _, _, _, p, hp => by simp [taskResults] at hp
  | .bytes _, _, _, _, p, hp => by simp [taskResults] at hp
  | .readerAt _, _, _, _, p, hp => by simp [taskResults] at hp
  | .stream _ _ _ _, _, _, _, p, hp => by simp [taskResults] at hp
  | .cloned base dg sibs, v, hok, _, p, hp => by
    simp only [rd] at hok ⊢
    have := cr_success (.cloned base dg sibs) v hok p hp
    exact ⟨Or.inl this.1, this.2⟩
  | .task base dg t r, v, hok, hce, p, hp => by
    have ih := rd_success base v
    simp only [rd] at hok hce ⊢
    simp only [taskResults, List.mem_append, List.mem_singleton] at hp
    cases hb : (rd base v).res with
    | panic => simp [hb, SR.panic, Out.isOk] at hok
    | err k => simp [hb, Out.isOk] at hok
    | ok d s =>
      simp only [hb] at hce ⊢
      have hc1 : (rd base v).closeErr = none := by
        cases hc : (rd base v).closeErr with
        | none => rfl
        | some e => simp [hc] at hce
      have hc2 : r = none := by simp [hc1] at hce; exact hce
      simp only [List.mem_append, List.mem_singleton]
      rcases hp with hp | hp
      · have := ih (by rw [hb]; rfl) hc1 p hp
        exact ⟨this.1.elim Or.inl (fun x => Or.inr (Or.inl x)), this.2⟩
      · subst hp; exact ⟨Or.inr (Or.inr rfl), hc2⟩
  | .eh base dg, v, hok, hce, p, hp => by
    have ih := rd_success base false
    simp only [taskResults] at hp
    simp only [rd] at hok hce ⊢
    cases v with
    | false =>
      simp only [Bool.not_false, if_true] at hok hce ⊢
      exact ih (by rw [← trOut_isOk]; exact hok) hce p hp
    | true =>
      simp only [Bool.not_true, Bool.false_eq_true, if_false] at hok hce ⊢
      cases dg with
      | none => simp [SR.panic, Out.isOk] at hok
      | some n =>
        simp only at hok hce ⊢
        simp only [hok, if_true]
        exact ih (by rw [← trOut_isOk]; exact validate_isOk _ hok) hce p hp

end BB.Mux
