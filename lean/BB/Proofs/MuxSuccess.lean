import BB.Proofs.MuxTask
/-! Part B: a successful complete read means every task below has completed, and without error. -/
namespace BB.Mux

theorem cr_success : ∀ (b : Buf) (v : Bool), (cr b v).res.isOk = true →
    ∀ p ∈ taskResults b, p.1 ∈ (cr b v).wTerm ∧ p.2 = none
  | .err _, _, _, p, hp => by simp [taskResults] at hp
  | .bytes _, _, _, p, hp => by simp [taskResults] at hp
  | .readerAt _, _, _, p, hp => by simp [taskResults] at hp
  | .stream _ _ _ _, _, _, p, hp => by simp [taskResults] at hp
  | .cloned base dg sibs, v, hok, p, hp => by
    simp only [cr] at hok ⊢
    exact cr_success base _ hok p hp
  | .task base dg t r, v, hok, p, hp => by
    have ih := cr_success base v
    simp only [cr] at hok ⊢
    simp only [taskResults, List.mem_append, List.mem_singleton] at hp
    cases hb : (cr base v).res with
    | panic => simp [hb, SR.panic, Out.isOk] at hok
    | err k => simp [hb, Out.isOk] at hok
    | ok d s =>
      cases r with
      | some e => simp [hb, Out.isOk] at hok
      | none =>
        simp only [List.mem_append, List.mem_singleton]
        rcases hp with hp | hp
        · have := ih (by rw [hb]; rfl) p hp
          exact ⟨Or.inl (Or.inl this.1), this.2⟩
        · subst hp; exact ⟨Or.inr rfl, rfl⟩
  | .eh base dg, v, hok, p, hp => by
    have ih := cr_success base false
    simp only [taskResults] at hp
    simp only [cr] at hok ⊢
    cases v with
    | false =>
      simp only [Bool.not_false, if_true] at hok ⊢
      exact ih (by rw [← trOut_isOk]; exact hok) p hp
    | true =>
      simp only [Bool.not_true, Bool.false_eq_true, if_false] at hok ⊢
      cases dg with
      | none => simp [SR.panic, Out.isOk] at hok
      | some n =>
        simp only at hok ⊢
        simp only [hok, if_true]
        exact ih (by rw [← trOut_isOk]; exact validate_isOk _ hok) p hp

theorem rd_success : ∀ (b : Buf) (v : Bool), (rd b v).res.isOk = true → (rd b v).closeErr = none →
    ∀ p ∈ taskResults b, (p.1 ∈ (rd b v).wTerm ∨ p.1 ∈ (rd b v).wClose) ∧ p.2 = none
  | .err _, _, _, _, p, hp => by simp [taskResults] at hp
  | .bytes _, _, _, _, p, hp => by simp [taskResults] at hp
  | .readerAt _, _, _, _, p, hp => by simp [taskResults] at hp
  | .stream _ _ _ _, _, _, _, p, hp => by simp [taskResults] at hp
  | .cloned base dg sibs, v, hok, _, p, hp => by
    simp only [rd] at hok ⊢
    have := cr_success (.cloned base dg sibs) v hok p hp
    exact ⟨Or.inl this.1, this.2⟩
  | .task base dg t r, v, hok, hce, p, hp => by
    have ih := rd_success base v
    simp only [rd] at hok hce ⊢
    simp only [taskResults, List.mem_append, List.mem_singleton] at hp
    cases hb : (rd base v).res with
    | panic => simp [hb, SR.panic, Out.isOk] at hok
    | err k => simp [hb, Out.isOk] at hok
    | ok d s =>
      simp only [hb] at hce ⊢
      have hc1 : (rd base v).closeErr = none := by
        cases hc : (rd base v).closeErr with
        | none => rfl
        | some e => simp [hc] at hce
      have hc2 : r = none := by simp [hc1] at hce; exact hce
      simp only [List.mem_append, List.mem_singleton]
      rcases hp with hp | hp
      · have := ih (by rw [hb]; rfl) hc1 p hp
        exact ⟨this.1.elim Or.inl (fun x => Or.inr (Or.inl x)), this.2⟩
      · subst hp; exact ⟨Or.inr (Or.inr rfl), hc2⟩
  | .eh base dg, v, hok, hce, p, hp => by
    have ih := rd_success base false
    simp only [taskResults] at hp
    simp only [rd] at hok hce ⊢
    cases v with
    | false =>
      simp only [Bool.not_false, if_true] at hok hce ⊢
      exact ih (by rw [← trOut_isOk]; exact hok) hce p hp
    | true =>
      simp only [Bool.not_true, Bool.false_eq_true, if_false] at hok hce ⊢
      cases dg with
      | none => simp [SR.panic, Out.isOk] at hok
      | some n =>
        simp only at hok hce ⊢
        simp only [hok, if_true]
        exact ih (by rw [← trOut_isOk]; exact validate_isOk _ hok) hce p hp

theorem afterTask_eof (b : MOut) (t : Nat) (r : Option Nat) (h : (afterTask b t r).res ≠ .panic) :
    (afterTask b t r).eof = b.eof := by
  simp only [afterTask] at h ⊢
  cases hb : b.res with
  | panic => simp [hb, MOut.panic] at h
  | err k => rfl
  | ok d s => by_cases e : b.eof = true <;> simp [e] <;> cases r <;> rfl

/-- a successful result that is not `ReadAt`'s "n bytes and io.EOF" -/
theorem afterTask_ok (b : MOut) (t : Nat) (r : Option Nat) (hok : (afterTask b t r).res.isOk = true)
    (he : b.eof = false) : b.res.isOk = true ∧ r = none ∧ (afterTask b t r).waited = b.waited ++ [t] := by
  simp only [afterTask] at hok ⊢
  cases hb : b.res with
  | panic => simp [hb, MOut.panic, Out.isOk] at hok
  | err k => simp [hb, Out.isOk] at hok
  | ok d s =>
    simp only [hb, he] at hok ⊢
    cases r with
    | some e => simp [Out.isOk] at hok
    | none => simp [Out.isOk]

theorem toByteSlice_eof : ∀ (b : Buf) (max : Nat), (toByteSlice b max).res ≠ .panic → (toByteSlice b max).eof = false
  | .err _, _, _ => rfl
  | .bytes d, max, _ => by simp only [toByteSlice]; split <;> rfl
  | .readerAt d, max, _ => by simp only [toByteSlice]; split <;> rfl
  | .stream _ sz _ _, max, _ => by simp only [toByteSlice]; split <;> rfl
  | .cloned base dg sibs, max, _ => by
    simp only [toByteSlice]
    split
    · rfl
    · rfl
    · split <;> rfl
  | .task base dg t r, max, h => by
    simp only [toByteSlice] at h ⊢
    rw [afterTask_eof _ t r h]
    exact toByteSlice_eof base max (afterTask_waited _ t r h).1
  | .eh base dg, max, h => by
    simp only [toByteSlice, trM] at h ⊢
    exact toByteSlice_eof base max (fun e => h ((trOut_panic _).mpr e))

theorem isOk_np (o : Out) (h : o.isOk = true) : o ≠ .panic := by cases o <;> simp_all [Out.isOk]

theorem toByteSlice_success : ∀ (b : Buf) (max : Nat), (toByteSlice b max).res.isOk = true →
    ∀ p ∈ taskResults b, p.1 ∈ (toByteSlice b max).waited ∧ p.2 = none
  | .err _, _, _, p, hp => by simp [taskResults] at hp
  | .bytes _, _, _, p, hp => by simp [taskResults] at hp
  | .readerAt _, _, _, p, hp => by simp [taskResults] at hp
  | .stream _ _ _ _, _, _, p, hp => by simp [taskResults] at hp
  | .cloned base dg sibs, max, hok, p, hp => by
    have hs := cr_success (.cloned base dg sibs) true
    simp only [toByteSlice] at hok ⊢
    generalize cr (.cloned base dg sibs) true = r at hok hs ⊢
    cases r with | mk res wT wC cE =>
    cases res with
    | panic => simp [MOut.panic, Out.isOk] at hok
    | err k =>
      cases dg with
      | none => simp [MOut.panic, Out.isOk] at hok
      | some n => dsimp only at hok; split at hok <;> simp [ofSR, Out.isOk] at hok
    | ok d s =>
      cases dg with
      | none => simp [MOut.panic, Out.isOk] at hok
      | some n =>
        dsimp only at hok ⊢
        by_cases e : tooLarge n max = true
        · simp [e, Out.isOk] at hok
        · have := hs rfl p hp
          have e' : tooLarge n max = false := by simpa using e
          simp only [e', ofSR, Out.isOk, if_true, Bool.false_eq_true, if_false, List.mem_append]
          exact ⟨Or.inl this.1, this.2⟩
  | .task base dg t r, max, hok, p, hp => by
    simp only [toByteSlice] at hok ⊢
    have he := toByteSlice_eof base max (afterTask_waited _ t r (isOk_np _ hok)).1
    obtain ⟨hb, hr, hw⟩ := afterTask_ok _ t r hok he
    rw [hw]
    simp only [taskResults, List.mem_append, List.mem_singleton] at hp ⊢
    rcases hp with hp | hp
    · have := toByteSlice_success base max hb p hp; exact ⟨Or.inl this.1, this.2⟩
    · subst hp; exact ⟨Or.inr rfl, hr⟩
  | .eh base dg, max, hok, p, hp => by
    simp only [toByteSlice, trM] at hok ⊢
    exact toByteSlice_success base max (by rw [← trOut_isOk]; exact hok) p hp

theorem intoWriter_eof : ∀ (b : Buf), (intoWriter b).res ≠ .panic → (intoWriter b).eof = false
  | .err _, _ => rfl
  | .bytes _, _ => rfl
  | .readerAt _, _ => rfl
  | .stream _ _ _ _, _ => rfl
  | .cloned _ _ _, _ => rfl
  | .task base dg t r, h => by
    simp only [intoWriter] at h ⊢
    rw [afterTask_eof _ t r h]
    exact intoWriter_eof base (afterTask_waited _ t r h).1
  | .eh _ _, _ => rfl

theorem ofSR_success (b : Buf) (r : SR) (hok : r.res.isOk = true)
    (hs : ∀ p ∈ taskResults b, p.1 ∈ r.wTerm ∧ p.2 = none) :
    ∀ p ∈ taskResults b, p.1 ∈ (ofSR r).waited ∧ p.2 = none := by
  intro p hp
  have := hs p hp
  simp only [ofSR, hok, if_true, List.mem_append]
  exact ⟨Or.inl this.1, this.2⟩

theorem intoWriter_success : ∀ (b : Buf), (intoWriter b).res.isOk = true →
    ∀ p ∈ taskResults b, p.1 ∈ (intoWriter b).waited ∧ p.2 = none
  | .err _, _, p, hp => by simp [taskResults] at hp
  | .bytes _, _, p, hp => by simp [taskResults] at hp
  | .readerAt _, _, p, hp => by simp [taskResults] at hp
  | .stream _ _ _ _, _, p, hp => by simp [taskResults] at hp
  | .cloned base dg sibs, hok, p, hp => by
    simp only [intoWriter] at hok ⊢
    exact ofSR_success (.cloned base dg sibs) _ hok (cr_success _ true hok) p hp
  | .task base dg t r, hok, p, hp => by
    simp only [intoWriter] at hok ⊢
    have he := intoWriter_eof base (afterTask_waited _ t r (isOk_np _ hok)).1
    obtain ⟨hb, hr, hw⟩ := afterTask_ok _ t r hok he
    rw [hw]
    simp only [taskResults, List.mem_append, List.mem_singleton] at hp ⊢
    rcases hp with hp | hp
    · have := intoWriter_success base hb p hp; exact ⟨Or.inl this.1, this.2⟩
    · subst hp; exact ⟨Or.inr rfl, hr⟩
  | .eh base dg, hok, p, hp => by
    simp only [intoWriter] at hok ⊢
    exact ofSR_success (.eh base dg) _ hok (cr_success _ true hok) p hp

theorem sliceOut_isOk (o : Out) (off len : Nat) (h : (sliceOut o off len).res.isOk = true) : o.isOk = true := by
  cases o with
  | ok d s => rfl
  | err k => simp [sliceOut, Out.isOk] at h
  | panic => simp [sliceOut, Out.isOk] at h

theorem readAt_success : ∀ (b : Buf) (off len : Nat), (readAt b off len).res.isOk = true →
    (readAt b off len).eof = false →
    ∀ p ∈ taskResults b, p.1 ∈ (readAt b off len).waited ∧ p.2 = none
  | .err _, _, _, _, _, p, hp => by simp [taskResults] at hp
  | .bytes _, _, _, _, _, p, hp => by simp [taskResults] at hp
  | .readerAt _, _, _, _, _, p, hp => by simp [taskResults] at hp
  | .stream _ _ _ _, _, _, _, _, p, hp => by simp [taskResults] at hp
  | .cloned base dg sibs, off, len, hok, _, p, hp => by
    simp only [readAt] at hok ⊢
    have hr := sliceOut_isOk _ off len hok
    have := cr_success (.cloned base dg sibs) true hr p hp
    simp only [hr, if_true, List.mem_append]
    exact ⟨Or.inl this.1, this.2⟩
  | .task base dg t r, off, len, hok, he, p, hp => by
    simp only [readAt] at hok he ⊢
    have hnp := isOk_np _ hok
    rw [afterTask_eof _ t r hnp] at he
    obtain ⟨hb, hr, hw⟩ := afterTask_ok _ t r hok he
    rw [hw]
    simp only [taskResults, List.mem_append, List.mem_singleton] at hp ⊢
    rcases hp with hp | hp
    · have := readAt_success base off len hb he p hp; exact ⟨Or.inl this.1, this.2⟩
    · subst hp; exact ⟨Or.inr rfl, hr⟩
  | .eh base dg, off, len, hok, he, p, hp => by
    simp only [readAt, trM] at hok he ⊢
    exact readAt_success base off len (by rw [← trOut_isOk]; exact hok) he p hp

theorem toChunkReader_success (b : Buf) (off : Nat) (hok : (toChunkReader b off true).res.isOk = true) :
    ∀ p ∈ taskResults b, p.1 ∈ (toChunkReader b off true).wTerm ∧ p.1 ∈ (toChunkReader b off true).waited ∧ p.2 = none := by
  intro p hp
  have hs := cr_success b true
  simp only [toChunkReader] at hok ⊢
  generalize cr b true = r at hok hs ⊢
  cases r with | mk res wT wC cE =>
  cases res with
  | panic => simp [MOut.panic, Out.isOk] at hok
  | err k => simp [ofSR, dropOut, Out.isOk] at hok
  | ok d s =>
    have := hs rfl p hp
    simp only [ofSR, Out.isOk, if_true, List.mem_append]
    exact ⟨this.1, Or.inl this.1, this.2⟩

theorem toReader_success (b : Buf) (hok : (toReader b true).res.isOk = true)
    (hce : (toReader b true).closeErr = none) :
    ∀ p ∈ taskResults b, p.1 ∈ (toReader b true).waited ∧ p.2 = none := by
  intro p hp
  have hs := rd_success b true
  simp only [toReader] at hok hce ⊢
  generalize rd b true = r at hok hce hs ⊢
  cases r with | mk res wT wC cE =>
  cases res with
  | panic => simp [MOut.panic, Out.isOk] at hok
  | err k => simp [ofSR, Out.isOk] at hok
  | ok d s =>
    have := hs rfl (by simpa [ofSR] using hce) p hp
    simp only [ofSR, Out.isOk, if_true, List.mem_append]
    exact ⟨this.1, this.2⟩

end BB.Mux
