import BB.Proofs.SyncerTime
/-!
Third layer: what an iteration of either loop has achieved when it returns
(ghost fields `target`, `goal`, `freedTotal`, `durable`, `acked`).
-/
namespace BB.Syncer

def TgtSync (s : State) : Prop :=
  ∀ kg f, (s.p = .sync kg f ∨ (∃ d, s.p = .syncSleep kg f d) ∨ s.p = .synced kg f) →
    s.target ≤ s.bl.oldest + s.bl.syncingE
def OkSynced (s : State) : Prop := ∀ kg f, s.p = .synced kg f → s.syncOk = true
def TgtWrite (s : State) : Prop :=
  ∀ kg w, s.p = .write kg w → s.target ≤ s.bl.oldest + s.bl.syncedE ∧ s.syncOk = true
def TgtSnap (s : State) : Prop := ∀ kg snap, s.p = .write kg (.writing snap) → s.target ≤ snap.bound
def TgtDur (s : State) : Prop := ∀ kg, s.p = .write kg .written → s.target ≤ s.durable.bound

structure Inv3 (s : State) : Prop where
  /-- every acknowledged write belongs to an epoch that exists or was rotated out -/
  acked : ∀ e, e ∈ s.acked → e < s.bl.oldest + s.bl.nE
  /-- every popped block is either still awaiting release or was handed back -/
  freed : s.freedTotal + s.bl.toRelease.length = s.bl.totalReleased
  tgtSync : TgtSync s
  okSynced : OkSynced s
  tgtWrite : TgtWrite s
  tgtSnap : TgtSnap s
  tgtDur : TgtDur s
  goalLe : s.goal ≤ s.bl.totalReleased
  goalHold : ∀ w, s.r = .write w → w.holds = true → s.goal ≤ s.freedTotal + s.bl.releasing

theorem inv3_init (free : List Nat) (oldest t0 : Nat) : Inv3 (init free oldest t0) := by
  refine ⟨by simp [init], by simp [init], ?_, ?_, ?_, ?_, ?_, by simp [init], by simp [init]⟩
  · intro kg f h; simp [init] at h
  · intro kg f h; simp [init] at h
  · intro kg w h; simp [init] at h
  · intro kg w h; simp [init] at h
  · intro kg h; simp [init] at h

/-- Environment steps. -/
theorem inv3_env {s s' : State} (h : Inv3 s) (hp : s'.p = s.p) (hr : s'.r = s.r) (he : BL.Env s.bl s'.bl)
    (hd : s'.durable = s.durable) (hft : s'.freedTotal = s.freedTotal) (ht : s'.target = s.target)
    (hg : s'.goal = s.goal) (hso : s'.syncOk = s.syncOk)
    (hack : ∀ e, e ∈ s'.acked → e ∈ s.acked ∨ e < s'.bl.oldest + s'.bl.nE) : Inv3 s' := by
  obtain ⟨l, hl1, hl2, _⟩ := he.toRel
  refine ⟨?_, ?_, ?_, ?_, ?_, ?_, ?_, ?_, ?_⟩
  · intro e hx
    rcases hack e hx with hx | hx
    · exact Nat.lt_of_lt_of_le (h.acked e hx) he.mono.endAbs
    · exact hx
  · rw [hft, hl1, hl2, ← h.freed]; simp; omega
  · intro kg f hx; rw [hp] at hx; rw [ht]; exact Nat.le_trans (h.tgtSync kg f hx) he.syncing
  · intro kg f hx; rw [hp] at hx; rw [hso]; exact h.okSynced kg f hx
  · intro kg w hx; rw [hp] at hx; rw [ht, hso]
    exact ⟨Nat.le_trans (h.tgtWrite kg w hx).1 he.mono.synced, (h.tgtWrite kg w hx).2⟩
  · intro kg snap hx; rw [hp] at hx; rw [ht]; exact h.tgtSnap kg snap hx
  · intro kg hx; rw [hp] at hx; rw [ht, hd]; exact h.tgtDur kg hx
  · rw [hg]; exact Nat.le_trans h.goalLe he.mono.released
  · intro w hx hw; rw [hr] at hx; rw [hg, hft, he.releasing]; exact h.goalHold w hx hw

/-- Steps of the put loop that leave the release bookkeeping alone. -/
theorem inv3_p {s s' : State} (h : Inv3 s) (hr : s'.r = s.r) (hm : BL.Mono s.bl s'.bl)
    (hrel : s'.bl.releasing = s.bl.releasing) (htr : s'.bl.toRelease = s.bl.toRelease)
    (htot : s'.bl.totalReleased = s.bl.totalReleased) (hft : s'.freedTotal = s.freedTotal)
    (hg : s'.goal = s.goal) (hack : s'.acked = s.acked)
    (t1 : TgtSync s') (t2 : OkSynced s') (t3 : TgtWrite s') (t4 : TgtSnap s') (t5 : TgtDur s') : Inv3 s' := by
  refine ⟨?_, ?_, t1, t2, t3, t4, t5, ?_, ?_⟩
  · intro e hx; rw [hack] at hx; exact Nat.lt_of_lt_of_le (h.acked e hx) hm.endAbs
  · rw [hft, htr, htot]; exact h.freed
  · rw [hg, htot]; exact h.goalLe
  · intro w hx hw; rw [hr] at hx; rw [hg, hft, hrel]; exact h.goalHold w hx hw

theorem freed_after_notify {b : BL} {ft : Nat} (hr : b.releasing ≤ b.toRelease.length)
    (hf : ft + b.toRelease.length = b.totalReleased) :
    ft + (b.toRelease.take b.releasing).length + b.stateWritten.toRelease.length = b.stateWritten.totalReleased := by
  show ft + (b.toRelease.take b.releasing).length + (b.toRelease.drop b.releasing).length = b.totalReleased
  simp; omega

theorem inv3_pW {c : Cfg} {s s1 : State} {kg fin : Bool} {w w' : WPc} {a : WAct} (h1 : Inv1 s) (h : Inv3 s)
    (hp : s.p = .write kg w) (hw : WStep c s w a s1 w' fin) :
    Inv3 { s1 with p := if fin then (if kg then .get else .done) else .write kg w' } := by
  have hlock := h1.lock
  have hexcl := h1.excl
  rw [hp] at hlock hexcl
  cases hw with
  | get hl =>
    simp [PPc.holds, WPc.holds, hl] at hlock
    obtain ⟨bs, _, heq, hsum, _⟩ := BL.getState_spec h1.bl
    rw [heq]
    refine ⟨h.acked, h.freed, ?_, ?_, ?_, ?_, ?_, h.goalLe, ?_⟩
    · intro kg' f hx; simp at hx
    · intro kg' f hx; simp at hx
    · intro kg' w hx; exact h.tgtWrite kg .idle hp
    · intro kg' snap hx
      simp at hx
      obtain ⟨_, rfl⟩ := hx
      have := (h.tgtWrite kg .idle hp).1
      show s.target ≤ s.bl.oldest + (bs.map (·.2.2)).sum
      rw [hsum]; exact this
    · intro kg' hx; simp at hx
    · intro w hx hw
      have : s.r.holds = true := by rw [show s.r = .write w from hx]; exact hw
      rw [hlock] at this; cases this
  | retOk snap =>
    refine ⟨h.acked, h.freed, ?_, ?_, ?_, ?_, ?_, h.goalLe, h.goalHold⟩
    · intro kg' f hx; simp at hx
    · intro kg' f hx; simp at hx
    · intro kg' w hx; exact h.tgtWrite kg _ hp
    · intro kg' snap' hx; simp at hx
    · intro kg' hx; exact h.tgtSnap kg snap hp
  | retFail snap =>
    refine ⟨h.acked, h.freed, ?_, ?_, ?_, ?_, ?_, h.goalLe, h.goalHold⟩
    · intro kg' f hx; simp at hx
    · intro kg' f hx; simp at hx
    · intro kg' w hx; exact h.tgtWrite kg _ hp
    · intro kg' snap' hx; simp at hx
    · intro kg' hx; simp at hx
  | notify =>
    simp [PPc.holds, WPc.holds] at hlock hexcl
    refine ⟨h.acked, freed_after_notify (h1.rel hlock) h.freed, ?_, ?_, ?_, ?_, ?_, h.goalLe, ?_⟩
    · intro kg' f hx; cases kg <;> simp at hx
    · intro kg' f hx; cases kg <;> simp at hx
    · intro kg' w hx; cases kg <;> simp at hx
    · intro kg' snap' hx; cases kg <;> simp at hx
    · intro kg' hx; cases kg <;> simp at hx
    · intro w hx hw
      have : s.r.holds = true := by rw [show s.r = .write w from hx]; exact hw
      rw [hexcl] at this; cases this
  | wake d hd =>
    refine ⟨h.acked, h.freed, ?_, ?_, ?_, ?_, ?_, h.goalLe, h.goalHold⟩
    · intro kg' f hx; simp at hx
    · intro kg' f hx; simp at hx
    · intro kg' w hx; exact h.tgtWrite kg _ hp
    · intro kg' snap' hx; simp at hx
    · intro kg' hx; simp at hx

theorem inv3_rW {c : Cfg} {s s1 : State} {fin : Bool} {w w' : WPc} {a : WAct} (h1 : Inv1 s) (h : Inv3 s)
    (hr : s.r = .write w) (hw : WStep c s w a s1 w' fin) :
    Inv3 { s1 with r := if fin then .get else .write w' } := by
  have hlock := h1.lock
  have hexcl := h1.excl
  rw [hr] at hlock hexcl
  cases hw with
  | get hl =>
    obtain ⟨bs, _, heq, hsum, _⟩ := BL.getState_spec h1.bl
    rw [heq]
    refine ⟨h.acked, h.freed, h.tgtSync, h.okSynced, h.tgtWrite, h.tgtSnap, h.tgtDur, h.goalLe, ?_⟩
    intro w hx hw
    show s.goal ≤ s.freedTotal + s.bl.toRelease.length
    rw [h.freed]; exact h.goalLe
  | retOk snap =>
    simp [RPc.holds, WPc.holds] at hexcl
    refine ⟨h.acked, h.freed, h.tgtSync, h.okSynced, h.tgtWrite, h.tgtSnap, ?_, h.goalLe, ?_⟩
    · intro kg hx
      have : s.p.holds = true := by rw [show s.p = .write kg .written from hx]; rfl
      rw [hexcl] at this; cases this
    · intro w hx hw; exact h.goalHold _ hr rfl
  | retFail snap =>
    refine ⟨h.acked, h.freed, h.tgtSync, h.okSynced, h.tgtWrite, h.tgtSnap, h.tgtDur, h.goalLe, ?_⟩
    intro w hx hw; simp at hx; subst hx; cases hw
  | notify =>
    simp [RPc.holds, WPc.holds] at hlock hexcl
    refine ⟨h.acked, freed_after_notify (h1.rel hlock) h.freed, h.tgtSync, h.okSynced, h.tgtWrite, h.tgtSnap,
      h.tgtDur, h.goalLe, ?_⟩
    intro w hx hw; simp at hx
  | wake d hd =>
    refine ⟨h.acked, h.freed, h.tgtSync, h.okSynced, h.tgtWrite, h.tgtSnap, h.tgtDur, h.goalLe, ?_⟩
    intro w hx hw; simp at hx; subst hx; cases hw

theorem BL.Env.refl (b : BL) : BL.Env b b :=
  ⟨BL.Mono.refl b, rfl, ⟨[], by simp, by simp, fun _ hx => Or.inl hx⟩, Nat.le_refl _, rfl⟩

theorem inv3_Step {c : Cfg} {s s' : State} {a : Act} (h1 : Inv1 s) (h : Inv3 s) (hs : Step c s a s') : Inv3 s' := by
  have mrefl := BL.Mono.refl s.bl
  cases hs with
  | tick n => exact inv3_env h rfl rfl (BL.Env.refl _) rfl rfl rfl rfl rfl (fun e hx => Or.inl hx)
  | cancel => exact inv3_env h rfl rfl (BL.Env.refl _) rfl rfl rfl rfl rfl (fun e hx => Or.inl hx)
  | pushOk b' hp => exact inv3_env h rfl rfl (BL.env_pushBack hp) rfl rfl rfl rfl rfl (fun e hx => Or.inl hx)
  | pushErr _ => exact h
  | pop b' hp => exact inv3_env h rfl rfl (BL.env_popFront h1.bl hp) rfl rfl rfl rfl rfl (fun e hx => Or.inl hx)
  | fin abs e b' r hf =>
    obtain ⟨he, hep⟩ := BL.env_fin h1.bl hf
    refine inv3_env h rfl rfl he rfl rfl rfl rfl rfl ?_
    intro x hx
    cases r with
    | ok ep =>
      simp at hx
      rcases hx with hx | hx
      · right; rw [hx]; exact (hep ep rfl).1
      · left; exact hx
    | closed => left; exact hx
    | released => left; exact hx
  | pGet hp =>
    exact inv3_p h rfl mrefl rfl rfl rfl rfl rfl rfl (by intro kg f hx; simp at hx) (by intro kg f hx; simp at hx)
      (by intro kg w hx; simp at hx) (by intro kg w hx; simp at hx) (by intro kg hx; simp at hx)
  | pPollReady g hp hr =>
    exact inv3_p h rfl mrefl rfl rfl rfl rfl rfl rfl (by intro kg f hx; simp at hx) (by intro kg f hx; simp at hx)
      (by intro kg w hx; simp at hx) (by intro kg w hx; simp at hx) (by intro kg hx; simp at hx)
  | pPollWait g hp hr =>
    exact inv3_p h rfl mrefl rfl rfl rfl rfl rfl rfl (by intro kg f hx; simp at hx) (by intro kg f hx; simp at hx)
      (by intro kg w hx; simp at hx) (by intro kg w hx; simp at hx) (by intro kg hx; simp at hx)
  | pWake g hp hr =>
    exact inv3_p h rfl mrefl rfl rfl rfl rfl rfl rfl (by intro kg f hx; simp at hx) (by intro kg f hx; simp at hx)
      (by intro kg w hx; simp at hx) (by intro kg w hx; simp at hx) (by intro kg hx; simp at hx)
  | pCancelWait g hc hp =>
    exact inv3_p h rfl mrefl rfl rfl rfl rfl rfl rfl (by intro kg f hx; simp at hx) (by intro kg f hx; simp at hx)
      (by intro kg w hx; simp at hx) (by intro kg w hx; simp at hx) (by intro kg hx; simp at hx)
  | pCancelTimer d a hc hp =>
    exact inv3_p h rfl mrefl rfl rfl rfl rfl rfl rfl (by intro kg f hx; simp at hx) (by intro kg f hx; simp at hx)
      (by intro kg w hx; simp at hx) (by intro kg w hx; simp at hx) (by intro kg hx; simp at hx)
  | pFire d a hp hd =>
    exact inv3_p h rfl mrefl rfl rfl rfl rfl rfl rfl (by intro kg f hx; simp at hx) (by intro kg f hx; simp at hx)
      (by intro kg w hx; simp at hx) (by intro kg w hx; simp at hx) (by intro kg hx; simp at hx)
  | pStart kg hp =>
    refine inv3_p h rfl (BL.mono_syncStarting s.bl false) rfl rfl rfl rfl rfl rfl ?_ (by intro kg f hx; simp at hx)
      (by intro kg w hx; simp at hx) (by intro kg w hx; simp at hx) (by intro kg hx; simp at hx)
    intro kg' f hx
    show (s.bl.syncStarting false).oldest + (s.bl.syncStarting false).nE ≤
      (s.bl.syncStarting false).oldest + (s.bl.syncStarting false).syncingE
    simp [BL.syncStarting, BL.nE]
  | pDataOk kg f hp =>
    refine inv3_p h rfl mrefl rfl rfl rfl rfl rfl rfl ?_ (by intro kg f hx; rfl)
      (by intro kg w hx; simp at hx) (by intro kg w hx; simp at hx) (by intro kg hx; simp at hx)
    intro kg' f' hx; exact h.tgtSync kg f (Or.inl hp)
  | pDataFail kg f hp =>
    refine inv3_p h rfl mrefl rfl rfl rfl rfl rfl rfl ?_ (by intro kg f hx; simp at hx)
      (by intro kg w hx; simp at hx) (by intro kg w hx; simp at hx) (by intro kg hx; simp at hx)
    intro kg' f' hx; exact h.tgtSync kg f (Or.inl hp)
  | pRetry kg f d hp hd =>
    refine inv3_p h rfl mrefl rfl rfl rfl rfl rfl rfl ?_ (by intro kg f hx; simp at hx)
      (by intro kg w hx; simp at hx) (by intro kg w hx; simp at hx) (by intro kg hx; simp at hx)
    intro kg' f' hx; exact h.tgtSync kg f (Or.inr (Or.inl ⟨d, hp⟩))
  | pCompletedAgain hp =>
    have m1 := BL.mono_syncCompleted h1.bl
    have m2 := BL.mono_syncStarting s.bl.syncCompleted true
    have hm : BL.Mono s.bl (s.bl.syncCompleted.syncStarting true) :=
      ⟨Nat.le_trans m1.putGen m2.putGen, fun g hg => m2.putClosed g (m1.putClosed g hg),
        Nat.le_trans m1.relGen m2.relGen, fun g hg => m2.relClosed g (m1.relClosed g hg),
        Nat.le_trans m1.synced m2.synced, Nat.le_trans m1.endAbs m2.endAbs, Nat.le_trans m1.released m2.released⟩
    refine inv3_p h rfl hm rfl rfl rfl rfl rfl rfl ?_ (by intro kg f hx; simp at hx)
      (by intro kg w hx; simp at hx) (by intro kg w hx; simp at hx) (by intro kg hx; simp at hx)
    intro kg' f hx
    show (s.bl.syncCompleted.syncStarting true).oldest + (s.bl.syncCompleted.syncStarting true).nE ≤
      (s.bl.syncCompleted.syncStarting true).oldest + (s.bl.syncCompleted.syncStarting true).syncingE
    simp [BL.syncStarting, BL.nE]
  | pCompleted kg f hp hk =>
    refine inv3_p h rfl (BL.mono_syncCompleted h1.bl) rfl rfl rfl rfl rfl rfl (by intro kg f hx; simp at hx)
      (by intro kg f hx; simp at hx) ?_ (by intro kg w hx; simp at hx) (by intro kg hx; simp at hx)
    intro kg' w hx
    exact ⟨h.tgtSync kg f (Or.inr (Or.inr hp)), h.okSynced kg f hp⟩
  | pW kg w a s1 w' fin hp hw => exact inv3_pW h1 h hp hw
  | rGet hr =>
    refine ⟨h.acked, h.freed, h.tgtSync, h.okSynced, h.tgtWrite, h.tgtSnap, h.tgtDur, h.goalLe, ?_⟩
    intro w hx hw; simp at hx
  | rWake g hr hrd =>
    refine ⟨h.acked, h.freed, h.tgtSync, h.okSynced, h.tgtWrite, h.tgtSnap, h.tgtDur, Nat.le_refl _, ?_⟩
    intro w hx hw; simp at hx; subst hx; cases hw
  | rW w a s1 w' fin hr hw => exact inv3_rW h1 h hr hw

theorem inv3_reachable {c : Cfg} {free : List Nat} {oldest t0 : Nat} (hf : free.Nodup) {s : State}
    (h : Reachable c free oldest t0 s) : Inv3 s := by
  induction h with
  | init => exact inv3_init free oldest t0
  | step a hr hs ih => exact inv3_Step (inv1_reachable hf hr) ih (step_Step hs)

end BB.Syncer
