import BB.Model.Caching
/-! Sequential replicators and the read-through composites without pending faults. -/
namespace BB.Caching

def Backend.NoFaults (b : Backend) : Prop := b.faults = []
def Pair.NoFaults (p : Pair) : Prop := p.src.NoFaults ∧ p.sink.NoFaults

/-- Replicators that copy from the source into the sink. -/
def Repl.copying : Repl → Bool
  | .noop => false
  | .localR => true
  | .dedup b => b.copying
  | .limit b => b.copying

theorem Backend.NoFaults.fault {b : Backend} (h : b.NoFaults) : b.fault = none := by
  unfold Backend.NoFaults at h; simp [Backend.fault, h]
theorem Backend.NoFaults.ticked {b : Backend} (h : b.NoFaults) : b.ticked.NoFaults := by
  unfold Backend.NoFaults at h; simp [Backend.NoFaults, Backend.ticked, h]
@[simp] theorem Backend.ticked_data (b : Backend) : b.ticked.data = b.data := rfl

/-- What `replMultiple` achieves when nothing fails and the source holds every requested key. -/
structure MultiSpec (p : Pair) (ks : List Key) (res : Pair × Option Err) : Prop where
  ok : res.2 = none
  nf : res.1.NoFaults
  src : res.1.src.data = p.src.data
  frame : ∀ k, res.1.sink.data k = p.sink.data k ∨ (k ∈ ks ∧ res.1.sink.data k = p.src.data k)
  held : ∀ k ∈ ks, (res.1.sink.data k).isSome = true

theorem localMultiple_spec (p : Pair) (ks : List Key) (hnf : p.NoFaults)
    (hsrc : ∀ k ∈ ks, (p.src.data k).isSome = true) : MultiSpec p ks (localMultiple p ks) := by
  induction ks generalizing p with
  | nil => exact ⟨rfl, hnf, rfl, fun k => Or.inl rfl, by simp⟩
  | cons k ks ih =>
    obtain ⟨v, hv⟩ := Option.isSome_iff_exists.mp (hsrc k (by simp))
    have hg : (p.src.get k).2 = .ok v := by simp [Backend.get, hnf.1.fault, hv]
    have hw : p.sink.put k (.ok v) =
        ({ p.sink.ticked with data := fun k' => if k' = k then some v else p.sink.data k' }, none) := by
      simp [Backend.put, hnf.2.fault]
    have hstep : localMultiple p (k :: ks) =
        localMultiple ⟨p.src.ticked, { p.sink.ticked with data := fun k' => if k' = k then some v else p.sink.data k' }⟩ ks := by
      simp only [localMultiple, hg, hw]; rfl
    rw [hstep]
    have := ih ⟨p.src.ticked, { p.sink.ticked with data := fun k' => if k' = k then some v else p.sink.data k' }⟩
      ⟨hnf.1.ticked, by have := hnf.2; unfold Backend.NoFaults at this; simp [Backend.NoFaults, Backend.ticked, this]⟩
      (fun k' hk' => by simpa using hsrc k' (by simp [hk']))
    refine ⟨this.ok, this.nf, by rw [this.src]; rfl, ?_, ?_⟩
    · intro k'
      rcases this.frame k' with h | ⟨hm, h⟩
      · by_cases e : k' = k
        · subst e; right; refine ⟨by simp, ?_⟩; rw [h]; simp [hv]
        · left; rw [h]; simp [e]
      · right; exact ⟨by simp [hm], by rw [h]; rfl⟩
    · intro k' hk'
      simp only [List.mem_cons] at hk'
      rcases hk' with rfl | hk'
      · rcases this.frame k' with h | ⟨_, h⟩
        · rw [h]; simp
        · rw [h]; simpa using hsrc k' (by simp)
      · exact this.held k' hk'

theorem dedupLoop_spec (base : Pair → List Key → Pair × Option Err)
    (hbase : ∀ p k, p.NoFaults → (p.src.data k).isSome = true → MultiSpec p [k] (base p [k]))
    (p : Pair) (ks : List Key) (hnf : p.NoFaults) (hsrc : ∀ k ∈ ks, (p.src.data k).isSome = true) :
    MultiSpec p ks (dedupLoop base p ks) := by
  induction ks generalizing p with
  | nil => exact ⟨rfl, hnf, rfl, fun k => Or.inl rfl, by simp⟩
  | cons k ks ih =>
    have hf : (p.sink.findMissing [k]).2 = .ok ([k].filter fun k => (p.sink.data k).isNone) := by
      simp [Backend.findMissing, hnf.2.fault]
    have hp1 : (⟨p.src, (p.sink.findMissing [k]).1⟩ : Pair).NoFaults := ⟨hnf.1, hnf.2.ticked⟩
    by_cases hk : (p.sink.data k).isNone = true
    · -- missing: the base replicator copies it
      have hb := hbase ⟨p.src, (p.sink.findMissing [k]).1⟩ k hp1 (hsrc k (by simp))
      have hstep : dedupLoop base p (k :: ks) =
          dedupLoop base (base ⟨p.src, (p.sink.findMissing [k]).1⟩ [k]).1 ks := by
        simp only [dedupLoop, hf, List.filter_cons, hk, if_true, List.filter_nil, hb.ok]
      rw [hstep]
      have := ih (base ⟨p.src, (p.sink.findMissing [k]).1⟩ [k]).1 hb.nf
        (fun k' hk' => by rw [hb.src]; exact hsrc k' (by simp [hk']))
      refine ⟨this.ok, this.nf, by rw [this.src, hb.src], ?_, ?_⟩
      · intro k'
        rcases this.frame k' with h | ⟨hm, h⟩
        · rcases hb.frame k' with h' | ⟨hm', h'⟩
          · left; rw [h, h']; rfl
          · right; simp only [List.mem_singleton] at hm'; exact ⟨by simp [hm'], by rw [h, h']⟩
        · right; exact ⟨by simp [hm], by rw [h, hb.src]⟩
      · intro k' hk'
        simp only [List.mem_cons] at hk'
        rcases hk' with rfl | hk'
        · rcases this.frame k' with h | ⟨_, h⟩
          · rw [h]; exact hb.held k' (by simp)
          · rw [h, hb.src]; exact hsrc k' (by simp)
        · exact this.held k' hk'
    · -- present already
      have hk' : (p.sink.data k).isNone = false := by cases hd : p.sink.data k <;> simp_all
      have hstep : dedupLoop base p (k :: ks) = dedupLoop base ⟨p.src, (p.sink.findMissing [k]).1⟩ ks := by
        simp only [dedupLoop, hf, List.filter_cons, hk', Bool.false_eq_true, if_false, List.filter_nil]
      rw [hstep]
      have := ih ⟨p.src, (p.sink.findMissing [k]).1⟩ hp1 (fun k' hk' => hsrc k' (by simp [hk']))
      refine ⟨this.ok, this.nf, this.src, ?_, ?_⟩
      · intro k'
        rcases this.frame k' with h | ⟨hm, h⟩
        · left; rw [h]; rfl
        · right; exact ⟨by simp [hm], h⟩
      · intro k'' hk''
        simp only [List.mem_cons] at hk''
        rcases hk'' with rfl | hk''
        · rcases this.frame k'' with h | ⟨_, h⟩
          · rw [h]; cases hd : p.sink.data k'' <;> simp_all [Backend.findMissing]
          · rw [h]; exact hsrc k'' (by simp)
        · exact this.held k'' hk''

theorem replMultiple_spec (r : Repl) (hr : r.copying = true) (p : Pair) (ks : List Key) (hnf : p.NoFaults)
    (hsrc : ∀ k ∈ ks, (p.src.data k).isSome = true) : MultiSpec p ks (replMultiple r p ks) := by
  induction r generalizing p ks with
  | noop => simp [Repl.copying] at hr
  | localR => exact localMultiple_spec p ks hnf hsrc
  | dedup b ih =>
    exact dedupLoop_spec (replMultiple b)
      (fun p k h1 h2 => ih hr p [k] h1 (by simpa using h2)) p ks hnf hsrc
  | limit b ih => exact ih hr p ks hnf hsrc

end BB.Caching
