import BB.Model.ByteStream
/-!
# ByteStream.Write: what the server accepts, characterised

`Contig`, `concatData`, `Complete` and `FirstFinish` are the property's words
("contiguous offsets starting at zero", "the concatenated data", "finished with
finish_write"); the lemmas say that the state machines of the model succeed exactly
on such request sequences.
-/
namespace BB.ByteStream

/-- every request starts where the previous one ended, the first one at `o` -/
def Contig : Int → List WriteReq → Prop
  | _, [] => True
  | o, m :: ms => m.offset = o ∧ Contig (o + m.data.length) ms

def concatData : List WriteReq → Bytes
  | [] => []
  | m :: ms => m.data ++ concatData ms

/-- non-empty, and exactly the last request carries `finish_write` -/
def Complete : List WriteReq → Prop
  | [] => False
  | [m] => m.finish = true
  | m :: m' :: ms => m.finish = false ∧ Complete (m' :: ms)

theorem complete_cons_fin {m : WriteReq} {ms : List WriteReq} (h : m.finish = true) :
    Complete (m :: ms) ↔ ms = [] := by
  cases ms with
  | nil => simp [Complete, h]
  | cons m' ms => simp [Complete, h]

theorem complete_cons_nofin {m : WriteReq} {ms : List WriteReq} (h : m.finish = false) :
    Complete (m :: ms) ↔ Complete ms := by
  cases ms with
  | nil => simp [Complete, h]
  | cons m' ms => simp [Complete, h]

/-- `Complete` in the words of the property: `pre ++ [last]`, no `finish_write` in `pre`. -/
theorem complete_iff (msgs : List WriteReq) :
    Complete msgs ↔ ∃ pre last, msgs = pre ++ [last] ∧ (∀ m ∈ pre, m.finish = false) ∧ last.finish = true := by
  induction msgs with
  | nil => simp [Complete]
  | cons m ms ih =>
    cases hf : m.finish with
    | true =>
      rw [complete_cons_fin hf]
      constructor
      · intro h; subst h; exact ⟨[], m, rfl, by simp, hf⟩
      · rintro ⟨pre, last, h1, h2, _⟩
        cases pre with
        | nil => simp at h1; exact h1.2
        | cons p ps =>
          simp at h1
          have := h2 p (by simp)
          rw [← h1.1, hf] at this; cases this
    | false =>
      rw [complete_cons_nofin hf, ih]
      constructor
      · rintro ⟨pre, last, h1, h2, h3⟩
        refine ⟨m :: pre, last, by simp [h1], ?_, h3⟩
        intro x hx
        cases hx with
        | head => exact hf
        | tail _ hx => exact h2 x hx
      · rintro ⟨pre, last, h1, h2, h3⟩
        cases pre with
        | nil =>
          simp at h1
          rw [h1.1, h3] at hf; cases hf
        | cons p ps =>
          simp at h1
          exact ⟨ps, last, h1.2, fun x hx => h2 x (by simp [hx]), h3⟩

theorem idLoop_fin (C : Codec) (d : Digest) (woff : Int) (acc : Bytes) (msgs : List WriteReq)
    (e : StreamEnd) (c : Bytes) :
    idLoop C d woff true acc msgs e = .ok c ↔
      msgs = [] ∧ e = .eof ∧ c = acc ∧ d.size ≤ acc.length ∧ C.H acc = d.hash := by
  cases msgs with
  | cons m ms => simp [idLoop]
  | nil =>
    cases e with
    | err code => simp [idLoop]
    | eof =>
      simp only [idLoop]
      by_cases h1 : acc.length < d.size
      · simp [h1]; omega
      · by_cases h2 : C.H acc = d.hash
        · simp [h1, h2]; constructor
          · intro h; exact ⟨h.symm, by omega⟩
          · intro h; exact h.1.symm
        · simp [h1, h2]

/-- The identity path hands validated content to the backend exactly for a complete,
contiguous upload followed by a half-close, whose concatenated data has the digest's
size and hash. -/
theorem idLoop_ok_iff (C : Codec) (d : Digest) (msgs : List WriteReq) :
    ∀ (woff : Int) (acc : Bytes) (e : StreamEnd) (c : Bytes), acc.length ≤ d.size →
    (idLoop C d woff false acc msgs e = .ok c ↔
      Complete msgs ∧ Contig woff msgs ∧ e = .eof ∧ c = acc ++ concatData msgs ∧
        c.length = d.size ∧ C.H c = d.hash) := by
  induction msgs with
  | nil =>
    intro woff acc e c _
    cases e <;> simp [idLoop, Complete]
  | cons m ms ih =>
    intro woff acc e c hacc
    simp only [idLoop, Bool.false_eq_true, if_false]
    by_cases ho : m.offset = woff
    · by_cases hb : acc.length + m.data.length > d.size
      · -- too big: the model fails, and no such upload can have the digest's size
        simp only [ho, ne_eq, not_true_eq_false, if_false, hb, if_true]
        constructor
        · intro h; cases h
        · rintro ⟨_, _, _, hc, hl, _⟩
          rw [hc] at hl
          simp [concatData] at hl
          omega
      · simp only [ho, ne_eq, not_true_eq_false, if_false, hb]
        have hacc' : (acc ++ m.data).length ≤ d.size := by simp; omega
        cases hf : m.finish with
        | true =>
          rw [idLoop_fin, complete_cons_fin hf]
          constructor
          · rintro ⟨h1, h2, h3, h4, h5⟩
            subst h1
            refine ⟨rfl, ⟨ho, trivial⟩, h2, by simp [concatData, h3], ?_, by rw [h3]; exact h5⟩
            rw [h3]; omega
          · rintro ⟨h1, _, h3, h4, h5, h6⟩
            subst h1
            simp [concatData] at h4
            refine ⟨rfl, h3, h4, ?_, by rw [← h4]; exact h6⟩
            rw [← h4]; omega
        | false =>
          rw [ih _ _ _ _ hacc', complete_cons_nofin hf]
          simp [Contig, concatData, ho]
    · simp only [ho, ne_eq, not_false_eq_true, if_true]
      constructor
      · intro h; cases h
      · rintro ⟨_, hcg, _⟩
        exact absurd hcg.1 ho

end BB.ByteStream
