import BB.Proofs.PersistSealedRestart
/-!
# C03: a sealed world covers every finalized object; a commit without finalizers seals the world
-/
namespace BB.Persist

/-- In a sealed world every state file a restart may read lists the block of every finalized
object that is still in the list, with the object's epoch and a write offset beyond its end. -/
theorem sealed_covers {w : World} (h : Inv w) (hs : Sealed w) {f : SFile} (hf : f ∈ filesOf w.dir) {o : Obj}
    (ho : o ∈ w.objs) {e : Nat} (hfin : o.fin = some e) {i : Nat} {b : Blk} (hb : w.pbl.blocks[i]? = some b)
    (hg : b.gid = o.gid) :
    ∃ (j : Nat) (bs : BState), f.blocks[j]? = some bs ∧ bs.gid = o.gid ∧ e < f.oldest + (fseeds f.blocks).length ∧
      o.off + o.size ≤ bs.wo ∧ o.durable = true := by
  obtain ⟨h0, ⟨last, hl, hle⟩, _⟩ := h.epoch.range o ho i b e hb hg hfin
  have hlt : e - w.pbl.oldestEpoch < w.pbl.seeds.length := by
    rw [h.wfp.seedsLen]; exact (List.getElem?_eq_some_iff.1 hl).1
  have hr : w.pbl.refToIdx e (last - w.pbl.released - i) = some (i, w.pbl.seeds[e - w.pbl.oldestEpoch]) :=
    (refToIdx_iff _ _ _ _ _).2 ⟨h0, last, List.getElem?_eq_getElem hlt, hl, by omega, by omega, by omega⟩
  obtain ⟨k, hk⟩ := hs.files f hf
  obtain ⟨h1, bs, h2, h3⟩ := hk _ _ _ _ hr
  rw [List.getElem?_map, hb] at h3
  simp only [Option.map_some, Option.some.injEq] at h3
  obtain ⟨q0, _, q1, _⟩ := (refToIdx_iff _ _ _ _ _).1 h1
  have hlt2 := (List.getElem?_eq_some_iff.1 q1).1
  simp only [SFile.pbl] at q0 hlt2
  have hcov : e < f.oldest + (fseeds f.blocks).length := by omega
  have hgid : bs.gid = o.gid := by rw [← h3]; exact hg
  obtain ⟨r1, r2, _⟩ := (h.files f hf).committed o ho (i + k) bs e h2 hgid hfin hcov
  exact ⟨i + k, bs, h2, hgid, hcov, r2, r1⟩

/-- A step that is neither a successful finalizer (the acknowledgement of an upload or a refresh)
nor a crash. -/
def Calm (w w' : World) : Prop :=
  Step w w' ∧ (∀ id, w.finalize id ≠ .ok w') ∧ ∀ kd ki pick lo, w' ≠ w.crashRestart kd ki pick lo

inductive CalmSteps : World → World → Prop
  | refl (w : World) : CalmSteps w w
  | tail {a b c : World} : CalmSteps a b → Calm b c → CalmSteps a c

theorem calm_reach {c : Cfg} {w w' : World} (hr : Reach c w) (hs : CalmSteps w w') : Reach c w' := by
  induction hs with
  | refl => exact hr
  | tail _ hc ih => exact Reach.step ih hc.1

theorem phase_calm {c : Cfg} (hss : 0 < c.ss) {sel : Bool → Prop} {w w' : World} (hr : Reach c w) (hs : CalmSteps w w')
    (hp : Phase sel w) : Phase sel w' := by
  induction hs with
  | refl => exact hp
  | tail hab hc ih =>
    have hi := inv_reach hss (calm_reach hr hab)
    rcases phase_view hi (step_view hi hc.1) ih with h1 | ⟨id, hf⟩
    · exact h1
    · exact absurd hf (hc.2.1 id)

theorem sealed_calm {c : Cfg} (hss : 0 < c.ss) {w w' : World} (hr : Reach c w) (hs : CalmSteps w w')
    (hp : Sealed w) : Sealed w' := by
  induction hs with
  | refl => exact hp
  | tail hab hc ih =>
    have hi := inv_reach hss (calm_reach hr hab)
    rcases sealed_view hi (step_view hi hc.1) ih with h1 | ⟨id, hf⟩ | ⟨kd, ki, pick, lo, he⟩
    · exact h1
    · exact absurd hf (hc.2.1 id)
    · exact absurd he (hc.2.2 kd ki pick lo)

theorem swDone_spec {w w' : World} (hg : w.swDone = some w') :
    ∃ s, w.sw = some s ∧ s.stage = 6 ∧ w'.cfg = w.cfg ∧ w'.dir = w.dir ∧ Core w.pbl w'.pbl ∧ w'.sw = none := by
  unfold World.swDone at hg
  split at hg
  · rename_i s hs
    split at hg
    · simp at hg
    · rename_i hst
      simp only [Option.some.injEq] at hg
      rw [foldl_listRelease] at hg
      have h6 : s.stage = 6 := by simpa using hst
      refine ⟨s, hs, h6, ?_⟩
      by_cases ho : (s.owner == 1) = true
      · simp only [ho, if_true] at hg
        subst hg
        exact ⟨rfl, rfl, ⟨rfl, rfl, rfl, rfl, rfl, rfl, rfl, rfl⟩, rfl⟩
      · simp only [ho] at hg
        subst hg
        exact ⟨rfl, rfl, ⟨rfl, rfl, rfl, rfl, rfl, rfl, rfl, rfl⟩, rfl⟩
  · simp at hg

/-- A commit - one iteration of `ProcessBlockPut` from its `NotifySyncStarting` to its
`NotifyPersistentStateWritten` - during which no finalizer succeeded seals the world, and it stays
sealed until the next successful finalizer. -/
theorem commit_sealed {c : Cfg} (hss : 0 < c.ss) {w0 wa wb w : World} (hr : Reach c w0) (h0 : w0.g1 = .idle)
    (hc1 : CalmSteps w0 wa) {s : Sw} (hsw : wa.sw = some s) (hown : s.owner = 1) (hd : wa.swDone = some wb)
    (hc2 : CalmSteps wb w) : Sealed w := by
  have hp0 : Phase (fun _ => True) w0 := by
    refine ⟨fun f _ hg => ?_, fun f _ hg => ?_, fun s f _ _ hg _ => ?_⟩
    · rw [h0] at hg; rcases hg with hg | hg | hg <;> cases hg
    · rw [h0] at hg; cases hg
    · rw [h0] at hg; cases hg
  have hpa := phase_calm hss hr hc1 hp0
  have hra := calm_reach hr hc1
  have hia := inv_reach hss hra
  obtain ⟨_, _, _, _, _, _, a8⟩ := hia.sw.stage s hsw
  obtain ⟨fl, hfl⟩ := a8 hown
  obtain ⟨s', hs', h6, e1, e2, e3, e4⟩ := swDone_spec hd
  rw [hsw] at hs'
  simp only [Option.some.injEq] at hs'
  subst hs'
  have hsb : Sealed wb :=
    sealed_of_swDone hia (hpa.b fl trivial hfl) (hpa.c s fl hsw hown hfl trivial) e1 e2 e3 hsw h6 e4
  exact sealed_calm hss (Reach.step hra (Step.swDone hd)) hc2 hsb

end BB.Persist
