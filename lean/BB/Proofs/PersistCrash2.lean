import BB.Proofs.PersistCrash
/-!
# Crash and restart: ownership and the objects of the restarted store
-/
namespace BB.Persist

theorem gidsFrom_nodup : ∀ (l : List Blk) (g : Nat), gidsFrom g l → (l.map (·.gid)).Nodup ∧ ∀ b ∈ l, g ≤ b.gid := by
  intro l
  induction l with
  | nil => intro g _; simp
  | cons a l ih =>
    intro g hg
    obtain ⟨h1, h2⟩ := ih (g + 1) hg.2
    refine ⟨?_, ?_⟩
    · simp only [List.map_cons, List.nodup_cons]
      refine ⟨?_, h1⟩
      intro hm
      obtain ⟨b, hb, he⟩ := List.mem_map.1 hm
      have := h2 b hb
      have := hg.1
      omega
    · intro b hb
      simp only [List.mem_cons] at hb
      rcases hb with rfl | hb
      · exact Nat.le_of_eq hg.1.symm
      · have := h2 b hb; omega

theorem held_file (ss : Nat) (f : SFile) : held (f.pbl ss) [] = f.blocks.map (restoredBlk ss) := by
  simp [held, SFile.pbl]

theorem mem_restored {ss : Nat} {f : SFile} {b : Blk} (hb : b ∈ f.blocks.map (restoredBlk ss)) :
    ∃ (j : Nat) (bs : BState), f.blocks[j]? = some bs ∧ b = restoredBlk ss bs := by
  obtain ⟨bs, hbs, rfl⟩ := List.mem_map.1 hb
  obtain ⟨j, hj⟩ := List.getElem?_of_mem hbs
  exact ⟨j, bs, hj, rfl⟩

def crashGid (w : World) (f : SFile) : Nat :=
  match (f.pbl w.cfg.ss).blocks.getLast? with
  | some b => b.gid + 1
  | none => w.nextGid

theorem own_crash {w : World} {f : SFile} {free' : List Nat} (hg : ∃ g, gidsFrom g (f.blocks.map (restoredBlk w.cfg.ss)))
    (hslots : (f.blocks.map (·.slot)).Nodup) (hrange : ∀ b ∈ f.blocks, b.slot < w.cfg.nslots)
    (hfree : free'.Nodup ∧ ∀ x, x ∈ free' ↔ (x < w.cfg.nslots ∧ x ∉ f.blocks.map (·.slot))) :
    Own (f.pbl w.cfg.ss) [] free' w.cfg.nslots (crashGid w f) := by
  have hmap : (f.blocks.map (restoredBlk w.cfg.ss)).map (·.slot) = f.blocks.map (·.slot) := by
    simp [List.map_map, Function.comp_def, restoredBlk]
  obtain ⟨g, hg0⟩ := hg
  obtain ⟨hn, hge⟩ := gidsFrom_nodup _ _ hg0
  refine ⟨?_, ?_, ?_, ?_, ?_⟩
  · rw [held_file, hmap, List.nodup_append]
    refine ⟨hslots, hfree.1, ?_⟩
    intro a ha b hb he
    subst he
    exact ((hfree.2 a).1 hb).2 ha
  · intro s hs
    rw [held_file, hmap] at hs
    rcases List.mem_append.1 hs with hs | hs
    · obtain ⟨b, hb, rfl⟩ := List.mem_map.1 hs
      exact hrange b hb
    · exact ((hfree.2 s).1 hs).1
  · rw [held_file]; exact hn
  · intro b hb
    rw [held_file] at hb
    obtain ⟨j, hj⟩ := List.getElem?_of_mem hb
    have hbj := gidsFrom_get _ _ _ _ hg0 hj
    have hlen := (List.getElem?_eq_some_iff.1 hj).1
    have hbl : (f.pbl w.cfg.ss).blocks = f.blocks.map (restoredBlk w.cfg.ss) := rfl
    unfold crashGid
    rw [hbl]
    have hne : f.blocks.map (restoredBlk w.cfg.ss) ≠ [] := by
      intro he; rw [he] at hlen; simp at hlen
    have hl := List.getLast?_eq_some_getLast hne
    rw [hl]
    have hl2 := hl
    rw [List.getLast?_eq_getElem?] at hl2
    have := gidsFrom_get _ _ _ _ hg0 hl2
    show b.gid < ((f.blocks.map (restoredBlk w.cfg.ss)).getLast hne).gid + 1
    omega
  · intro b hb
    unfold crashGid
    rw [hb]

end BB.Persist
