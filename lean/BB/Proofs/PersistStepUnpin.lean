import BB.Proofs.PersistStepCopy
/-!
# Invariant preservation: a writer drops its reference to a block (`unpin`)
-/
namespace BB.Persist

/-- A list whose `f`-images are distinct is, up to order, one element plus the elements with a
different `f`-image. -/
theorem perm_cons_filter {α : Type} (f : α → Nat) : ∀ (l : List α), (l.map f).Nodup → ∀ z ∈ l,
    l.Perm (z :: l.filter fun x => f x != f z) := by
  intro l
  induction l with
  | nil => intro _ z hz; simp at hz
  | cons a l ih =>
    intro hn z hz
    simp only [List.map_cons, List.nodup_cons] at hn
    simp only [List.mem_cons] at hz
    rcases hz with rfl | hz
    · have : (l.filter fun x => f x != f z) = l := by
        rw [List.filter_eq_self]
        intro x hx
        simp only [bne_iff_ne, ne_eq]
        intro he
        exact hn.1 (List.mem_map.2 ⟨x, hx, he⟩)
      simp [List.filter_cons, this]
    · have hne : f a ≠ f z := by
        intro he
        exact hn.1 (List.mem_map.2 ⟨z, hz, he.symm⟩)
      have := ih hn.2 z hz
      simp only [List.filter_cons, bne_iff_ne, ne_eq, hne, not_false_eq_true, if_true]
      exact (List.Perm.cons a this).trans (List.Perm.swap z a _)

theorem inv_unpin {w : World} (gid : Nat) (h : Inv w)
    (hcnt : ∀ g, (w.objs.filter fun o => o.mine && !o.copied && o.gid == g).length + (if g = gid then 1 else 0) ≤ w.pins.count g) :
    Inv (w.unpin gid) := by
  have hpc : ∀ g, (w.objs.filter fun o => o.mine && !o.copied && o.gid == g).length ≤ (w.pins.erase gid).count g := by
    intro g
    have := hcnt g
    rw [List.count_erase]
    by_cases hg : g = gid
    · subst hg; simp at this ⊢; omega
    · have hne : (gid == g) = false := by simp; exact fun e => hg e.symm
      simp [hg, hne] at this ⊢; omega
  -- only the pins change
  have hpins : Inv { w with pins := w.pins.erase gid } :=
    ⟨h.cfg, h.wfp, h.own, { h.obj with pinCount := hpc }, h.epoch, h.dev, h.recs, h.files, h.swFile, h.sw⟩
  unfold World.unpin
  cases hz : w.zombies.find? (·.gid == gid) with
  | none => exact hpins
  | some z =>
    simp only
    split
    · exact hpins
    · rename_i hnc
      have hzm : z ∈ w.zombies := List.mem_of_find?_eq_some hz
      have hzg : z.gid = gid := by simpa using List.find?_some hz
      have hzero : ∀ o ∈ w.objs, o.mine = true → o.copied = false → o.gid ≠ gid := by
        intro o ho hm hc hg
        have h0 : (w.pins.erase gid).count gid = 0 := by
          rw [List.count_eq_zero]; simpa using hnc
        have h1 := hpc gid
        rw [h0] at h1
        have : o ∈ w.objs.filter fun o => o.mine && !o.copied && o.gid == gid := by
          rw [List.mem_filter]; exact ⟨ho, by simp [hm, hc, hg]⟩
        have := List.length_pos_of_mem this
        omega
      have hzn : (w.zombies.map (·.gid)).Nodup := by
        have := h.own.gids
        unfold held at this
        rw [List.map_append] at this
        exact (List.nodup_append.1 this).2.1
      have hperm : w.zombies.Perm (z :: w.zombies.filter fun x => x.gid != gid) := by
        have := perm_cons_filter (·.gid) w.zombies hzn z hzm
        simpa [hzg] using this
      have hheld : (held w.pbl w.zombies).Perm (z :: held w.pbl (w.zombies.filter fun x => x.gid != gid)) := by
        unfold held
        refine (List.Perm.append_left _ hperm).trans ?_
        exact List.perm_middle
      have hsub : ∀ b ∈ held w.pbl (w.zombies.filter fun x => x.gid != gid), b ∈ held w.pbl w.zombies := by
        intro b hb
        exact hheld.mem_iff.2 (List.mem_cons_of_mem _ hb)
      refine ⟨h.cfg, h.wfp, ?_, ?_, h.epoch, ?_, h.recs, h.files, h.swFile, h.sw⟩
      · have hs1 : ((held w.pbl (w.zombies.filter fun x => x.gid != gid)).map (·.slot) ++ (w.free ++ [z.slot])).Perm
            ((held w.pbl w.zombies).map (·.slot) ++ w.free) := by
          refine List.Perm.symm (((hheld.map _).append_right w.free).trans ?_)
          simp only [List.map_cons, List.cons_append]
          rw [← List.append_assoc]
          exact (List.perm_append_singleton _ _).symm
        refine ⟨hs1.nodup_iff.2 h.own.slots, fun s hs => h.own.range s (hs1.mem_iff.1 hs), ?_, fun b hb => h.own.gidLt b (hsub b hb),
          h.own.next⟩
        have := (hheld.map (·.gid)).nodup_iff.1 h.own.gids
        simp only [List.map_cons, List.nodup_cons] at this
        exact this.2
      · refine { h.obj with pinCount := hpc, slotOk := ?_, baseLe := ?_, restored := ?_, heldW := ?_, aligned := ?_ }
        · intro o ho b hb hg; exact h.obj.slotOk o ho b (hsub b hb) hg
        · intro o ho hm b hb hg; exact h.obj.baseLe o ho hm b (hsub b hb) hg
        · intro o ho hm
          obtain ⟨r1, r2, r3⟩ := h.obj.restored o ho hm
          exact ⟨r1, r2, fun b hb hg => r3 b (hsub b hb) hg⟩
        · intro o ho hm hc
          obtain ⟨b, hb, hg⟩ := h.obj.heldW o ho hm hc
          rcases List.mem_cons.1 (hheld.mem_iff.1 hb) with rfl | hb'
          · exact absurd (by rw [← hg, hzg]) (hzero o ho hm hc)
          · exact ⟨b, hb', hg⟩
        · intro b hb; exact h.obj.aligned b (hsub b hb)
      · exact devInv_mono (fun o _ ⟨b', hb', hg⟩ => ⟨b', hsub b' hb', hg⟩) h.dev

end BB.Persist
