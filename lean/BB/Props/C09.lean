import BB.Proofs.ValidateLive
/-!
# C09 - CAS buffers never complete a read of content that mismatches its digest

All theorems are about `BB.Validate.run c ct m`: create a CAS buffer with
constructor `ct` (byte slice, scripted reader, scripted chunk reader) for the
digest `(c.size, c.h)` and consume it with method `m`.  They hold for every
hash function `c.H`, every script (items, empty items, terminator, `(n, EOF)`
form), every method with every offset / size / chunk size / read sizes, every
nesting of `CloneCopy` / `CloneStream`, every buffer size and every fuel.

`SafeCtor` is the one hypothesis: for a *reader* backed buffer either the
validating reader is the repaired one (`c.strict`), or the source never fails
with Go's `io.ErrUnexpectedEOF` value.  Without it the statement is false for
the code as pinned (`legacy_counterexample` below).
-/
namespace BB.C09
open BB.Validate

def truth (ct : Ctor) : Truth := ⟨ct.content, ct.term⟩

/-- The content the source delivers has the size and hash the digest states. -/
def ContentMatches (c : Cfg) (ct : Ctor) : Prop := ct.content.length = c.size ∧ c.H ct.content = c.h

def SafeCtor (c : Cfg) : Ctor → Prop
  | .reader s => Safe c ⟨s.content, s.term⟩
  | _ => True

def Completed (o : Obs) : Prop := o.res = some .ok ∨ o.res = some .eof

theorem sound_verdicts {k : Core} {off : Nat} {o : Obs} (vs : List Bool) (h : Sound k off o) :
    Sound k off { o with verdicts := vs } := ⟨h.seg, h.done, h.err⟩

/-- Every run is sound with respect to a final validator state satisfying the invariant. -/
theorem run_sound (c : Cfg) (ct : Ctor) (m : Method) (hs : SafeCtor c ct) :
    ∃ k rdr, Inv c (truth ct) rdr k ∧ Sound k m.off (run c ct m) ∧ (run c ct m).verdicts = k.verdicts := by
  cases ct with
  | slice data =>
    simp only [run]
    by_cases h1 : data.length ≠ c.size
    · rw [if_pos h1]
      refine ⟨⟨[], some (.err .sizeMismatch), [false]⟩, false, ?_, ?_, rfl⟩
      · exact inv_err (k := {}) (inv_init c _ false) rfl (Or.inr (Or.inl ⟨rfl, h1, rfl, rfl⟩)) (by simp)
      · exact sound_verdicts _ (runErr_sound (r := .err .sizeMismatch) (Or.inr rfl) (by simp) _ m)
    · rw [if_neg h1]
      have hlen : data.length = c.size := Decidable.of_not_not h1
      by_cases h2 : c.H data ≠ c.h
      · rw [if_pos h2]
        refine ⟨⟨[], some (.err .hashMismatch), [false]⟩, false, ?_, ?_, rfl⟩
        · exact inv_err (k := {}) (inv_init c _ false) rfl (Or.inr (Or.inr (Or.inl ⟨rfl, hlen, h2, rfl⟩))) (by simp)
        · exact sound_verdicts _ (runErr_sound (r := .err .hashMismatch) (Or.inr rfl) (by simp) _ m)
      · rw [if_neg h2]
        refine ⟨⟨data, some .eof, [true]⟩, false, ?_, ?_, rfl⟩
        · exact inv_valid ⟨hlen, Decidable.of_not_not h2⟩ rfl (Or.inl rfl)
        · exact sound_verdicts _ (runSlice_sound data rfl ⟨[], by simp⟩ m)
  | reader s =>
    obtain ⟨h1, h2⟩ := runReader_sound c s hs m
    exact ⟨_, true, h1.inv, sound_verdicts _ h2, rfl⟩
  | chunks s =>
    obtain ⟨h1, h2⟩ := runChunk_sound c s m
    exact ⟨_, false, h1.inv, sound_verdicts _ h2, rfl⟩

end BB.C09

namespace BB.C09
open BB.Validate

/-- **C09_success** (forward direction of `C09_success_iff`): the consumer observes successful
completion only if the whole content has exactly the size and hash of the digest and the
source ended (EOF; or Go's `io.ErrUnexpectedEOF` seen by the trailing-data probe *after* all
`size` bytes were delivered and hashed). -/
theorem C09_success (c : Cfg) (ct : Ctor) (m : Method) (hs : SafeCtor c ct) (h : Completed (run c ct m)) :
    ContentMatches c ct ∧ (ct.term = .eof ∨ ct.term = .err 0) := by
  obtain ⟨k, rdr, hinv, hsound, _⟩ := run_sound c ct m hs
  obtain ⟨hc, _, ht, _⟩ := hinv.eof (hsound.done h)
  exact ⟨hc, ht⟩

example :  -- non-vacuous: a matching two-chunk script read through a stream clone completes
    (run { H := fun _ => 7, size := 3, h := 7 } (.chunks ⟨[[1], [2, 3]], .eof⟩)
      (.cloneStream (.toChunkReader 1 1 10))).res = some .eof := by decide

/-- **C09_prefix**: the bytes handed out are a prefix of the content from the requested offset. -/
theorem C09_prefix (c : Cfg) (ct : Ctor) (m : Method) (hs : SafeCtor c ct) :
    (run c ct m).data <+: ct.content.drop m.off := by
  obtain ⟨k, rdr, hinv, hsound, _⟩ := run_sound c ct m hs
  obtain ⟨pre, post, h1, h2⟩ := hsound.seg
  obtain ⟨rest, hrest⟩ := hinv.pre
  rcases h2 with h2 | h2
  · rw [h2]; exact List.nil_prefix
  · refine ⟨post ++ rest, ?_⟩
    have : ct.content = pre ++ ((run c ct m).data ++ (post ++ rest)) := by
      have : (truth ct).content = k.out ++ rest := hrest.symm
      rw [← h1] at this
      simpa [truth, List.append_assoc] using this
    rw [this, ← h2, List.drop_left]

example :  -- non-vacuous: data really is handed out from the offset
    (run { H := fun _ => 7, size := 4, h := 7 } (.reader ⟨[[1, 2], [3, 4]], .eof, false⟩) (.toChunkReader 1 2 10)).data
      = [2, 3, 4] := by decide

/-- **C09_withhold**: unless the content matches and the source ended, fewer than `size` bytes of
the stream are handed out (the final portion is withheld), counting from the requested offset. -/
theorem C09_withhold (c : Cfg) (ct : Ctor) (m : Method) (hs : SafeCtor c ct)
    (hbad : ¬ ContentMatches c ct ∨ (ct.term ≠ .eof ∧ ct.term ≠ .err 0)) :
    (run c ct m).data = [] ∨ m.off + (run c ct m).data.length < c.size := by
  obtain ⟨k, rdr, hinv, hsound, _⟩ := run_sound c ct m hs
  obtain ⟨pre, post, h1, h2⟩ := hsound.seg
  rcases h2 with h2 | h2
  · exact Or.inl h2
  · have hne : k.fin ≠ some .eof := by
      intro hf
      obtain ⟨hc, _, ht, _⟩ := hinv.eof hf
      rcases hbad with hb | ⟨hb1, hb2⟩
      · exact hb hc
      · rcases ht with ht | ht
        · exact hb1 ht
        · exact hb2 ht
    have hlen : k.out.length = pre.length + (run c ct m).data.length + post.length := by
      rw [← h1]; simp only [List.length_append]
    have hle := hinv.le
    by_cases heq : k.out.length = c.size
    · rcases hinv.full heq with h0 | h0
      · -- size 0: nothing was handed out at all
        left
        exact List.eq_nil_of_length_eq_zero (by omega)
      · exact absurd h0 hne
    · right; omega

end BB.C09

namespace BB.C09
open BB.Validate

/-- Argument errors of the consumption method itself (all INVALID_ARGUMENT) and the model's fuel. -/
def ArgError (c : Cfg) (e : Err) : Prop :=
  (e = .negOff ∨ e = .offBeyond ∨ e = .tooLarge) ∧ e.code c = 3 ∨ e = .stuck

/-- **C09_codes**: every error the consumer receives is
* a size or hash mismatch - then the content really does not match the digest and the error carries
  the code of the buffer's `Source` (`c.code`: INVALID_ARGUMENT for UserProvided, INTERNAL for BackendProvided), or
* the very error the source returned (same status code; `src 0` is Go's `io.ErrUnexpectedEOF`), or
* (repaired validator only) the replacement of a source's `io.ErrUnexpectedEOF`, with the Source's code, or
* an argument error of the method (negative offset, offset beyond the size, maximum size exceeded). -/
theorem C09_codes (c : Cfg) (ct : Ctor) (m : Method) (hs : SafeCtor c ct) (e : Err)
    (h : (run c ct m).res = some (.err e)) :
    ((e = .tooBig ∨ e = .sizeMismatch ∨ e = .hashMismatch) ∧ ¬ ContentMatches c ct ∧ e.code c = c.code) ∨
    (∃ k, e = .src k ∧ ct.term = .err k ∧ e.code c = (if k = 0 then 2 else k)) ∨
    (e = .truncated ∧ c.strict = true ∧ ct.term = .err 0 ∧ e.code c = c.code) ∨
    ArgError c e := by
  obtain ⟨k, rdr, hinv, hsound, _⟩ := run_sound c ct m hs
  rcases hsound.err e h with hl | hf
  · right; right; right
    cases e <;> simp [Local] at hl <;> simp [ArgError, Err.code]
  · rcases hinv.err e hf with ⟨h1, h2, _⟩ | ⟨h1, h2, _⟩ | ⟨h1, h2, h3, _⟩ | ⟨k', h1, h2, _⟩ | ⟨h1, h2, h3, _⟩
    · subst h1
      exact Or.inl ⟨Or.inl rfl, fun hc => by have := hc.1; simp only [truth] at h2; omega, rfl⟩
    · subst h1
      exact Or.inl ⟨Or.inr (Or.inl rfl), fun hc => h2 hc.1, rfl⟩
    · subst h1
      exact Or.inl ⟨Or.inr (Or.inr rfl), fun hc => h3 hc.2, rfl⟩
    · subst h1
      refine Or.inr (Or.inl ⟨k', rfl, h2, ?_⟩)
      cases k' <;> simp [Err.code]
    · subst h1
      exact Or.inr (Or.inr (Or.inl ⟨rfl, h2, h3, rfl⟩))

example :  -- non-vacuous: a trailing byte is reported as a mismatch with the Source's code
    (run { H := fun _ => 7, size := 2, h := 7, code := 3 } (.reader ⟨[[1, 2], [3]], .eof, false⟩) .intoWriter).res
      = some (.err .tooBig) := by decide

/-- **C09_codes (sticky)**: an error (or EOF), once produced by a validator, is returned by every
later read, which changes nothing; and whatever a read returns other than "more data" is recorded. -/
theorem C09_codes_sticky (c : Cfg) :
    (∀ (s : RSrc) (v : VR) (cap : Nat), RInv c ⟨s.content, s.term⟩ v →
      (∀ r, v.core.fin = some r → VR.read c v cap = (v, [], r)) ∧
      ((VR.read c v cap).2.2 ≠ .ok → (VR.read c v cap).1.core.fin = some (VR.read c v cap).2.2)) ∧
    (∀ (s : CSrc) (v : VC), CInv c ⟨s.content, s.term⟩ v →
      (∀ r, v.core.fin = some r → VC.read c v = (v, [], r)) ∧
      ((VC.read c v).2.2 ≠ .ok → (VC.read c v).1.core.fin = some (VC.read c v).2.2)) := by
  refine ⟨fun s v cap h => ⟨fun r hr => ?_, (VR.read_ok cap h).2.res⟩, fun s v h => ⟨fun r hr => ?_, (VC.read_ok h).2.1.res⟩⟩
  · unfold VR.read; rw [hr]
  · unfold VC.read; rw [hr]

/-- **C09_callback**: the data integrity callback receives at most one verdict; a positive verdict
only for matching content, a negative one only for mismatching content; and a completed read has
received exactly the positive verdict. -/
theorem C09_callback (c : Cfg) (ct : Ctor) (m : Method) (hs : SafeCtor c ct) :
    (run c ct m).verdicts.length ≤ 1 ∧
    (true ∈ (run c ct m).verdicts → ContentMatches c ct) ∧
    (false ∈ (run c ct m).verdicts → ¬ ContentMatches c ct) ∧
    (Completed (run c ct m) → (run c ct m).verdicts = [true]) := by
  obtain ⟨k, rdr, hinv, hsound, hv⟩ := run_sound c ct m hs
  rw [hv]
  have hcases : k.verdicts = [] ∨ (k.verdicts = [true] ∧ ContentMatches c ct) ∨
      (k.verdicts = [false] ∧ ¬ ContentMatches c ct) := by
    cases hf : k.fin with
    | none => exact Or.inl (hinv.none hf)
    | some r =>
      cases r with
      | ok => exact absurd hf hinv.ok
      | eof =>
        obtain ⟨hc, _, _, hvs⟩ := hinv.eof hf
        exact Or.inr (Or.inl ⟨hvs, hc⟩)
      | err e =>
        rcases hinv.err e hf with ⟨_, h2, h3⟩ | ⟨_, h2, _, h3⟩ | ⟨_, h2, h3, h4⟩ | ⟨_, _, _, h3⟩ | ⟨_, _, _, h3⟩
        · exact Or.inr (Or.inr ⟨h3, fun hc => by have := hc.1; simp only [truth] at h2; omega⟩)
        · exact Or.inr (Or.inr ⟨h3, fun hc => h2 hc.1⟩)
        · exact Or.inr (Or.inr ⟨h4, fun hc => h3 hc.2⟩)
        · exact Or.inl h3
        · exact Or.inl h3
  refine ⟨?_, ?_, ?_, ?_⟩
  · rcases hcases with h | ⟨h, _⟩ | ⟨h, _⟩ <;> simp [h]
  · intro ht
    rcases hcases with h | ⟨_, h⟩ | ⟨h, _⟩
    · rw [h] at ht; cases ht
    · exact h
    · rw [h] at ht; simp at ht
  · intro ht
    rcases hcases with h | ⟨h, _⟩ | ⟨_, h⟩
    · rw [h] at ht; cases ht
    · rw [h] at ht; simp at ht
    · exact h
  · intro hcomp
    exact (hinv.eof (hsound.done hcomp)).2.2.2

example :  -- non-vacuous: a hash mismatch detected on the last chunk yields the single verdict `false`
    (run { H := fun _ => 7, size := 2, h := 8 } (.chunks ⟨[[1], [2]], .eof⟩) (.toByteSlice 10)).verdicts = [false] := by
  decide

end BB.C09

namespace BB.C09
open BB.Validate

/-
Full converse of `C09_success` (`C09_success_iff`, right to left), proved for `IntoWriter`
(`C09_complete_intoWriter` below), not proved for every method:

    ContentMatches c ct → ct.term = .eof → (arguments of m valid, m reads to the end) →
      c.fuel ≥ (number of reads the method needs) → Completed (run c ct m)

What is proved instead: with matching content and a clean end of the source the validators can
not produce any error, so the only non-completing outcomes are argument errors of the method, a
consumer that stops early (`res = none`) and the model's own fuel running out (`stuck`).  What is
missing is the termination bound on `fuel` for each of the loops.  The correspondence run checks
completion of matching scripts on the real code for `IntoWriter`, `ToByteSlice` and `ReadAt`.
-/
theorem C09_complete_partial (c : Cfg) (ct : Ctor) (m : Method) (hs : SafeCtor c ct)
    (hc : ContentMatches c ct) (ht : ct.term = .eof) (e : Err) (h : (run c ct m).res = some (.err e)) :
    ArgError c e := by
  rcases C09_codes c ct m hs e h with ⟨_, h1, _⟩ | ⟨k, _, h1, _⟩ | ⟨_, _, h1, _⟩ | h1
  · exact absurd hc h1
  · rw [ht] at h1; cases h1
  · rw [ht] at h1; cases h1
  · exact h1

/-- Why `SafeCtor` is needed: with the validating reader as pinned (`strict = false`) a source that
fails with `io.ErrUnexpectedEOF` after two of four bytes is reported as a *successful* read of two
bytes through `CloneStream` + `ToByteSlice` (`readerBackedChunkReader` mistakes the source's error
for `io.ReadFull`'s own short-read indication), without any verdict.  This is the defect the
implementation-side oracle reports on the unrepaired tree. -/
theorem legacy_counterexample :
    let c : Cfg := { H := fun _ => 7, size := 4, h := 7, strict := false }
    let o := run c (.reader ⟨[[1, 2]], .err 0, false⟩) (.cloneStream (.toByteSlice 100))
    o.res = some .ok ∧ o.data = [1, 2] ∧ o.verdicts = [] := by decide

/-- The repaired validating reader (`strict = true`) turns the same script into an error. -/
theorem strict_repairs_counterexample :
    let c : Cfg := { H := fun _ => 7, size := 4, h := 7, strict := true }
    (run c (.reader ⟨[[1, 2]], .err 0, false⟩) (.cloneStream (.toByteSlice 100))).res = some (.err .truncated) := by
  decide

end BB.C09

namespace BB.C09
open BB.Validate

/-- Number of source reads after which `IntoWriter` must have finished. -/
def Ctor.steps : Ctor → Nat
  | .slice _ => 0
  | .reader s => s.content.length + s.items.length + 1
  | .chunks s => s.chunks.length + 1

/-- **C09_complete_intoWriter** (`C09_success_iff`, right to left, for `IntoWriter`, at full strength):
if the content has the size and hash of the digest and the source ends with EOF, then - for every
way the source cuts the content into reads/chunks, empty ones included - `IntoWriter` completes,
delivers exactly the content, and the callback receives exactly one positive verdict.  The only
side conditions are on the model's own parameters: fuel beyond the number of source reads and a
non-empty `io.Copy` buffer. -/
theorem C09_complete_intoWriter (c : Cfg) (ct : Ctor) (hc : ContentMatches c ct) (ht : ct.term = .eof)
    (hfuel : Ctor.steps ct < c.fuel) (hbuf : 0 < c.copyBuf) :
    (run c ct .intoWriter).res = some .ok ∧ (run c ct .intoWriter).data = ct.content ∧
    (run c ct .intoWriter).verdicts = [true] := by
  cases ct with
  | slice data =>
    have h1 : ¬ data.length ≠ c.size := fun h => h hc.1
    have h2 : ¬ c.H data ≠ c.h := fun h => h hc.2
    simp only [run, if_neg h1, if_neg h2]
    refine ⟨by simp [runSlice], by simp [runSlice, Obs.data, Ctor.content], by simp⟩
  | reader s =>
    have hrd := VRm_ok c ⟨s.content, s.term⟩
    have hfr := fresh_VR c s
    have hlive := copyLoop_live c ⟨s.content, s.term⟩ c.copyBuf hbuf c.fuel (VR.init c s) [] hfr.1
      (by simpa [VR.mu, VR.init, Ctor.steps] using hfuel)
    obtain ⟨hI', new, hgot, hacct, hres⟩ := copyLoop_ok hrd c.copyBuf c.fuel (VR.init c s) [] hfr.1
    simp only [run, runReader]
    generalize copyLoop (VR.read c) c.copyBuf c.fuel (VR.init c s) [] = x at hlive hI' hgot hacct hres ⊢
    obtain ⟨v, ps, r⟩ := x
    simp only [List.nil_append] at hlive hI' hgot hacct hres ⊢
    subst hgot
    have hj : ps.flatten ++ (VRm c ⟨s.content, s.term⟩).pend v = v.core.out := hfr.acct hacct
    rcases hlive with hr | ⟨e, _, hf⟩
    · subst hr
      obtain ⟨_, ho, _, hv⟩ := hI'.inv.eof (endRes_done hres (Or.inl rfl))
      refine ⟨rfl, ?_, hv⟩
      have : ps.flatten = v.core.out := by simpa [VRm] using hj
      simp only [Obs.data, this, ho, Ctor.content]
    · exact absurd hf (no_error_of_match hI'.inv hc ht e)
  | chunks s =>
    have hst := VCm_ok c ⟨s.content, s.term⟩
    have hfr := fresh_VC c s
    have hlive := intoWriterVia_live c ⟨s.content, s.term⟩ c.fuel (VC.init c s) [] hfr.1
      (by simpa [VC.mu, VC.init, Ctor.steps] using hfuel)
    obtain ⟨hI', new, hgot, hacct, hres⟩ := intoWriterVia_ok hst c.fuel (VC.init c s) [] hfr.1
    simp only [run, runChunk]
    generalize intoWriterVia (VC.read c) c.fuel (VC.init c s) [] = x at hlive hI' hgot hacct hres ⊢
    obtain ⟨v, ps, r⟩ := x
    simp only [List.nil_append] at hlive hI' hgot hacct hres ⊢
    subst hgot
    have hj : ps.flatten ++ (VCm c ⟨s.content, s.term⟩).pend v = v.core.out := hfr.acct hacct
    rcases hlive with hr | ⟨e, _, hf⟩
    · subst hr
      obtain ⟨_, ho, _, hv⟩ := hI'.inv.eof (endRes_done hres (Or.inl rfl))
      refine ⟨rfl, ?_, hv⟩
      have : ps.flatten = v.core.out := by simpa [VCm] using hj
      simp only [Obs.data, this, ho, Ctor.content]
    · exact absurd hf (no_error_of_match hI'.inv hc ht e)

example :  -- non-vacuous: empty items, the (n, EOF) read form, default fuel and buffer sizes
    let c : Cfg := { H := fun _ => 7, size := 3, h := 7 }
    let ct : Ctor := .reader ⟨[[], [1, 2], [], [3]], .eof, true⟩
    ContentMatches c ct ∧ ct.term = .eof ∧ Ctor.steps ct < c.fuel ∧ 0 < c.copyBuf := by
  refine ⟨⟨by decide, rfl⟩, rfl, by decide, by decide⟩

end BB.C09

namespace BB.C09
open BB.Validate

/-- The method with every `WithTask` decoration removed. -/
def strip : Method → Method
  | .cloneCopy max m => .cloneCopy max (strip m)
  | .cloneStream m => .cloneStream (strip m)
  | .withTask m => strip m
  | m => m

theorem runErr_strip (r : Res) : ∀ m, runErr r m = runErr r (strip m) := by
  intro m
  induction m with
  | cloneCopy _ m ih => simpa [runErr, strip] using ih
  | cloneStream m ih => simpa [runErr, strip] using ih
  | withTask m ih => simpa [runErr, strip] using ih
  | _ => rfl

theorem runSlice_strip (data : List Nat) : ∀ m, runSlice data m = runSlice data (strip m) := by
  intro m
  induction m with
  | cloneCopy _ m ih => simpa [runSlice, strip] using ih
  | cloneStream m ih => simpa [runSlice, strip] using ih
  | withTask m ih => simpa [runSlice, strip] using ih
  | _ => rfl

theorem afterCopy_strip (o : Obs) (m : Method) : afterCopy o m = afterCopy o (strip m) := by
  unfold afterCopy
  cases o.res with
  | none => rfl
  | some r =>
    cases r with
    | ok => exact runSlice_strip _ m
    | eof => exact runErr_strip _ m
    | err e => exact runErr_strip _ m

theorem runCloned_strip {σ : Type} (c : Cfg) (mk : Nat → Step σ) (s : σ) :
    ∀ m, runCloned c mk s m = runCloned c mk s (strip m) := by
  intro m
  induction m with
  | cloneCopy max m _ => simp only [runCloned, strip]; rw [afterCopy_strip]
  | cloneStream m ih => simpa [runCloned, strip] using ih
  | withTask m ih => simpa [runCloned, strip] using ih
  | _ => rfl

theorem runReader_strip (c : Cfg) (v : VR) : ∀ m, runReader c v m = runReader c v (strip m) := by
  intro m
  induction m with
  | cloneCopy max m _ => simp only [runReader, strip]; rw [afterCopy_strip]
  | cloneStream m _ => simp only [runReader, strip]; rw [runCloned_strip]
  | withTask m ih => simpa [runReader, strip] using ih
  | _ => rfl

theorem runChunk_strip (c : Cfg) (v : VC) : ∀ m, runChunk c v m = runChunk c v (strip m) := by
  intro m
  induction m with
  | cloneCopy max m _ => simp only [runChunk, strip]; rw [afterCopy_strip]
  | cloneStream m _ => simp only [runChunk, strip]; rw [runCloned_strip]
  | withTask m ih => simpa [runChunk, strip] using ih
  | _ => rfl

/-- **C09_decorate**: decorating a CAS buffer with `WithTask` (a task that succeeds) - before
consuming it, before or after cloning it, any number of times - does not change anything the
consumer observes: result, every piece of data handed out, the count of `ReadAt`, the verdicts.
In particular every theorem above holds for the decorated buffer (they quantify over all methods,
decorations included). -/
theorem C09_decorate (c : Cfg) (ct : Ctor) (m : Method) : run c ct m = run c ct (strip m) := by
  cases ct with
  | slice data =>
    simp only [run]
    rw [runErr_strip (.err .sizeMismatch) m, runErr_strip (.err .hashMismatch) m, runSlice_strip data m]
  | reader s => simp only [run]; rw [runReader_strip]
  | chunks s => simp only [run]; rw [runChunk_strip]

theorem C09_decorate_withTask (c : Cfg) (ct : Ctor) (m : Method) : run c ct (.withTask m) = run c ct m := by
  rw [C09_decorate c ct (.withTask m), C09_decorate c ct m]; rfl

example :  -- non-vacuous: a decorated, cloned, corrupt chunk stream still ends in a hash mismatch with the last chunk withheld
    (run { H := fun _ => 7, size := 2, h := 8 } (.chunks ⟨[[1], [2]], .eof⟩)
      (.withTask (.cloneStream (.withTask (.toChunkReader 0 5 10))))).pieces = [[1]] := by decide

end BB.C09
