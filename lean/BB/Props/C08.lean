import BB.Props.C05
import BB.Proofs.ReportCommute
/-!
# C08 - Detected corruption is quarantined: affected and older blocks are not served

About the block-map model.  `reportCorruption s B` is the effect of the data-integrity callback
`callback(false)` of a buffer that was opened on absolute block `B` (the CAS loop of
`increaseTotalBlocksToBeReleased`: a monotone maximum, so concurrent callbacks commute).
That a failed validation *is* reported through the callback and surfaces as INTERNAL is C09
(`BackendProvided` source); this file covers what the store does with the report.
-/
namespace BB.C08
open BB.BlockMap BB.C05

/-- The callback raises the quarantine counter past the corrupted block and never lowers it. -/
theorem callback_raises (s : St) (B : Nat) :
    B + 1 ≤ (reportCorruption s B).toBeReleased ∧ s.toBeReleased ≤ (reportCorruption s B).toBeReleased := by
  simp [reportCorruption]; omega

/-- Callbacks commute and are idempotent: any interleaving of reports yields the same counter. -/
theorem callback_comm (s : St) (B B' : Nat) :
    reportCorruption (reportCorruption s B) B' = reportCorruption (reportCorruption s B') B := by
  simp [reportCorruption]; omega

theorem callback_idem (s : St) (B : Nat) : reportCorruption (reportCorruption s B) B = reportCorruption s B := by
  simp [reportCorruption]

/-- `BlockReferenceToBlockIndex` of the map succeeds exactly for blocks of the list at or above the
quarantine counter. -/
theorem resolvable_iff (s : St) (B : Nat) :
    resolvable s B = true ↔ s.released ≤ B ∧ B < s.released + s.caps.length ∧ s.toBeReleased ≤ B := by
  simp [resolvable]
  omega

/-- From the moment of the report no block at or below `B` resolves, and blocks above `B` resolve
exactly as before. -/
theorem quarantine_hides (s : St) (B B' : Nat) :
    (B' ≤ B → resolvable (reportCorruption s B) B' = false) ∧
    (B < B' → resolvable (reportCorruption s B) B' = resolvable s B') := by
  constructor
  · intro h
    cases hr : resolvable (reportCorruption s B) B' with
    | false => rfl
    | true =>
      rw [resolvable_iff] at hr
      simp [reportCorruption] at hr
      omega
  · intro h
    rw [Bool.eq_iff_iff, resolvable_iff, resolvable_iff]
    simp [reportCorruption]
    omega

/-- A resolvable block lies at or above the quarantine counter ... -/
theorem resolvable_ge (s : St) (B : Nat) (h : resolvable s B = true) : s.toBeReleased ≤ B :=
  ((resolvable_iff s B).mp h).2.2

/-- ... and the counter only grows: once hidden, a block never resolves again, through any number of
further uploads, rotations and reports. -/
theorem hidden_forever (c : Cfg) (s s' : St) (st : Step c s s') (B : Nat) (h : B < s.toBeReleased) :
    resolvable s' B = false := by
  cases hr : resolvable s' B with
  | false => rfl
  | true =>
    have := resolvable_ge s' B hr
    have := st.tbrMono
    omega

/-- An upload that was in flight into a quarantined block fails (INTERNAL) instead of being
acknowledged, also after further steps. -/
theorem inflight_fails (c : Cfg) (s s' : St) (B : Nat) (t : Ticket) (ht : t.blk ≤ B)
    (st : Step c (reportCorruption s B) s') : finalizeOk s' t = false := by
  have h1 := (callback_raises s B).1
  have h2 := st.tbrMono
  simp [finalizeOk]
  omega

/-- The report keeps the state well formed when `B` is a block of the list. -/
theorem report_wf (c : Cfg) (s : St) (h : WF c s) (B : Nat) (hB : B < s.released + s.caps.length) :
    WF c (reportCorruption s B) := by
  refine ⟨h.len, ?_, ?_, h.cap, h.idxLo, h.idxHi, h.idxRem, h.pol⟩
  · have := h.rel; simp [reportCorruption]; omega
  · have := h.tbr; simp [reportCorruption]; omega

/-- The store keeps accepting uploads: the next `Put` after a report terminates, removes the
quarantined blocks (`released = toBeReleased` afterwards) and either reserves space in a block above
every quarantined one or reports that the allocator has no free block. -/
theorem still_accepts (c : Cfg) (fuelGrow size : Nat) (s : St) (hc : CfgOK c) (h : WF c s)
    (hf : c.policy.bound ≤ fuelGrow) (B : Nat) (hB : B < s.released + s.caps.length)
    (hsz : size ≤ c.blockSize) :
    (∃ t s', put c fuelGrow size (reportCorruption s B) = .ok (t, s') ∧ WF c s' ∧ B < t.blk ∧
      resolvable s' t.blk = true) ∨
    (∃ s', put c fuelGrow size (reportCorruption s B) = .err "unavailable" s' ∧ WF c s' ∧ s'.free = 0) := by
  have hw := report_wf c s h B hB
  rcases put_ok c fuelGrow size _ hc hw hsz hf with ⟨t, s', e, st, _, r1, r2, _, _, sy⟩ | ⟨s', e, st, f⟩
  · left
    have h1 := (callback_raises s B).1
    have h2 := st.tbrMono
    refine ⟨t, s', e, st.wf, by omega, ?_⟩
    rw [resolvable_iff]
    omega
  · right
    exact ⟨s', e, st.wf, f⟩

/-- **Detection racing with a reservation.** The callback does not take the store lock, so it can fire while
`findBlockWithSpace` runs. The counter is read once, before the first loop (`findBlockWithSpace_eq`); a
detection that arrives at any later point of the reservation has the same effect as one that arrives right
after it - for every state, size, growth policy and outcome (success, UNAVAILABLE), including what the
reservation returns. This is what lets the model treat `Put` as atomic. -/
theorem detection_during_reservation (c : Cfg) (fuelGrow size B : Nat) (s : St) :
    afterSnapshot c fuelGrow size (reportCorruption s B) =
      (afterSnapshot c fuelGrow size s).mapSt (fun s => reportCorruption s B) (fun p => (p.1, reportCorruption p.2 B)) :=
  afterSnapshot_rep c fuelGrow size B s

def exampleRace : Option (Nat × Nat × Nat × Nat × Nat) :=
  let c : Cfg := ⟨.immutable ⟨2⟩, 4, 1, 1⟩
  let s := C05.run c 10 (init c [] 100) [4, 4, 3]
  match afterSnapshot c 10 4 (reportCorruption s 2), afterSnapshot c 10 4 s with
  | .ok (i, s1), .ok (j, s2) => some (i, j, s1.toBeReleased, s2.toBeReleased, s1.released)
  | _, _ => none

/-- A test: the reservation rotates (block 0 released), returns the same block either way, and the detection
in block 2 is kept (counter 3 instead of 1). -/
example : exampleRace = some (2, 2, 3, 1, 1) := by decide

/-- Non-vacuity / example: corruption in block 1 of a running store hides blocks 0 and 1, keeps
block 2, fails the in-flight ticket and the next upload lands above. -/
example :
    let c : Cfg := ⟨.immutable ⟨2⟩, 4, 1, 1⟩
    let s := C05.run c 10 (init c [] 100) [4, 4, 3]
    let s' := reportCorruption s 1
    (s.released = 0 ∧ s.caps.length = 3 ∧ resolvable s 1 = true ∧
     resolvable s' 0 = false ∧ resolvable s' 1 = false ∧ resolvable s' 2 = true ∧
     finalizeOk s' ⟨1, 0, 4⟩ = false ∧
     (match put c 10 1 s' with | .ok (t, _) => t.blk | _ => 0) = 3) := by
  decide

end BB.C08
