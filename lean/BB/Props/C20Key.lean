import BB.Gen.KeyFormat

/-! C20 / C10 / C17: `digest.KeyFormat.Combine` (regenerated from the source as `BB.Gen.KeyFormat`). A decorator over two
backends announces the combination of their key formats, and whatever sits in front of it (existence caches, ...)
keys its own state by that format: the combination has to carry the instance name as soon as one side does,
otherwise objects of different instance names share cache entries. -/

namespace BB.C20
open BB.Gen.KeyFormat

def IsFormat (k : Nat) : Prop := k = keyWithoutInstance ∨ k = keyWithInstance

theorem combine_is_format (a b : Nat) (ha : IsFormat a) (hb : IsFormat b) : IsFormat (combine a b) := by
  unfold IsFormat combine keyWithoutInstance keyWithInstance at *
  split <;> omega

/-- The combined format carries the instance name iff one of the two does. -/
theorem combine_most_information (a b : Nat) (ha : IsFormat a) (hb : IsFormat b) :
    combine a b = keyWithInstance ↔ (a = keyWithInstance ∨ b = keyWithInstance) := by
  unfold IsFormat combine keyWithoutInstance keyWithInstance at *
  split <;> omega

theorem combine_comm (a b : Nat) (ha : IsFormat a) (hb : IsFormat b) : combine a b = combine b a := by
  unfold IsFormat combine keyWithoutInstance keyWithInstance at *
  split <;> split <;> omega

theorem combine_assoc (a b c : Nat) (ha : IsFormat a) (hb : IsFormat b) (hc : IsFormat c) :
    combine (combine a b) c = combine a (combine b c) := by
  unfold IsFormat combine keyWithoutInstance keyWithInstance at *
  repeat' split
  all_goals omega

/-- Non-vacuity / the case a swapped constant gets wrong. -/
example : combine keyWithInstance keyWithoutInstance = keyWithInstance ∧ combine keyWithoutInstance keyWithInstance = keyWithInstance := by
  decide

end BB.C20
