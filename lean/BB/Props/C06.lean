import BB.Proofs.IndexRelease
/-!
# C06 - Index lookups are sound; entries are displaced oldest-first, never silently

Property theorems only (helper lemmas live in `BB/Proofs/Index*.lean`).
All statements are about `BB.Index.get` / `put` (the model of
`hashingKeyLocationMap.Get/Put`) for *every* slot function, table, attempt
limits, key, location and release threshold.
-/
namespace BB.C06
open BB.Gen BB.Index

/-- Two lookup results agree up to the position order `isOlder` can see. -/
def OptSamePos : Option Loc → Option Loc → Prop
  | none, none => True
  | some a, some b => SamePos a b
  | _, _ => False

/-- Sizes are a function of key and position (true whenever locations come from the block
allocator: a position is handed out once, and CAS sizes are part of the key). -/
def Coh (thr : Int) (t : Tab) : Prop :=
  ∀ q l l', InTab thr t q l → InTab thr t q l' → SamePos l l' → l = l'

/-! ### Soundness of lookups -/

/-- A lookup returns only a location stored in a record for exactly this key whose block has not
been released.  No invariant needed: holds for arbitrary table contents. -/
theorem get_sound (c : Cfg) (thr : Int) (t : Tab) (k : Nat) (l : Loc) (h : get c thr t k = some l) :
    ∃ s R, t s = some R ∧ R.key = k ∧ R.loc = l ∧ thr ≤ l.blockIndex := by
  obtain ⟨a', _, _, ⟨R, hR, hRl, hk, _, hloc⟩, _⟩ := (getAux_spec c thr t k c.maxGet 0).1 l h
  exact ⟨_, R, hR, hk, hloc, by rw [← hloc]; exact hRl⟩

/-- ... and it is a newest one: no live record of that key holds a newer location. -/
theorem get_newest (c : Cfg) (thr : Int) (t : Tab) (k : Nat) (l : Loc) (hinv : Inv c thr t)
    (h : get c thr t k = some l) : ∀ l', InTab thr t k l' → l.isOlder l' = false :=
  (get_best_some hinv h).2

/-- A lookup that finds nothing means no live record for the key exists anywhere in the table. -/
theorem get_none_complete (c : Cfg) (thr : Int) (t : Tab) (k : Nat) (hinv : Inv c thr t)
    (h : get c thr t k = none) : ∀ l, ¬ InTab thr t k l :=
  get_best_none hinv h

/-! ### The invariant is established and preserved -/

theorem inv_init (c : Cfg) (thr : Int) : Inv c thr Tab.empty := inv_empty c thr

theorem inv_put (c : Cfg) (thr : Int) (t : Tab) (k : Nat) (l : Loc)
    (hinv : Inv c thr t) (hl : thr ≤ l.blockIndex) (hg : 0 < c.maxGet) :
    Inv c thr (put c thr t k l).1 := put_inv c thr t k l hinv hl hg

theorem inv_release' (c : Cfg) (thr thr' : Int) (t : Tab) (hinv : Inv c thr t) (h : thr ≤ thr') :
    Inv c thr' t := inv_release hinv h

/-! ### Storing an entry: frame, self, discards -/

/-- Frame: storing `(k, l)` leaves the lookup result of every other key `q` unchanged (up to what
the order can see), unless the outcome reports a discarded record of key `q`. -/
theorem put_frame (c : Cfg) (thr : Int) (t : Tab) (k : Nat) (l : Loc) (q : Nat)
    (hinv : Inv c thr t) (hl : thr ≤ l.blockIndex) (hg : 0 < c.maxGet) (hq : q ≠ k)
    (hnd : ∀ d, (put c thr t k l).2.discarded = some d → d.key ≠ q) :
    OptSamePos (get c thr (put c thr t k l).1 q) (get c thr t q) := by
  have hinv' := put_inv c thr t k l hinv hl hg
  have hk := putAux_keeps c thr c.maxPut t ⟨k, 0, l⟩ hl
  change Keeps thr t (put c thr t k l).1 ⟨k, 0, l⟩ (put c thr t k l).2 at hk
  cases hg' : get c thr (put c thr t k l).1 q with
  | none =>
    cases hg0 : get c thr t q with
    | none => trivial
    | some l0 =>
      exfalso
      obtain ⟨hin, _⟩ := get_best_some hinv hg0
      rcases hk.complete q l0 (Or.inl hin) with ⟨l', hl', _⟩ | ⟨d, hd, hdk, _⟩
      · exact get_best_none hinv' hg' l' hl'
      · exact hnd d hd hdk
  | some l' =>
    obtain ⟨hin', hmax'⟩ := get_best_some hinv' hg'
    rcases hk.sound q l' hin' with hin | ⟨hqk, _⟩
    · cases hg0 : get c thr t q with
      | none => exact absurd hin (get_best_none hinv hg0 l')
      | some l0 =>
        obtain ⟨hin0, hmax0⟩ := get_best_some hinv hg0
        have h1 : l0.isOlder l' = false := hmax0 l' hin
        rcases hk.complete q l0 (Or.inl hin0) with ⟨l'', hl'', hdom⟩ | ⟨d, hd, hdk, _⟩
        · have h2 : l'.isOlder l'' = false := hmax' l'' hl''
          -- l' ≥ l'' ≥ l0
          have h3 : l'.isOlder l0 = false := not_older_trans hdom h2
          exact samePos_of_not_older h3 h1
        · exact absurd hdk (hnd d hd)
    · exact absurd hqk hq

/-- Exact frame under coherence of sizes. -/
theorem put_frame_exact (c : Cfg) (thr : Int) (t : Tab) (k : Nat) (l : Loc) (q : Nat)
    (hinv : Inv c thr t) (hcoh : Coh thr t) (hl : thr ≤ l.blockIndex) (hg : 0 < c.maxGet) (hq : q ≠ k)
    (hnd : ∀ d, (put c thr t k l).2.discarded = some d → d.key ≠ q) :
    get c thr (put c thr t k l).1 q = get c thr t q := by
  have hf := put_frame c thr t k l q hinv hl hg hq hnd
  have hinv' := put_inv c thr t k l hinv hl hg
  have hk := putAux_keeps c thr c.maxPut t ⟨k, 0, l⟩ hl
  change Keeps thr t (put c thr t k l).1 ⟨k, 0, l⟩ (put c thr t k l).2 at hk
  cases hg' : get c thr (put c thr t k l).1 q with
  | none =>
    cases hg0 : get c thr t q with
    | none => rfl
    | some l0 => rw [hg', hg0] at hf; exact absurd hf (by simp [OptSamePos])
  | some l' =>
    cases hg0 : get c thr t q with
    | none => rw [hg', hg0] at hf; exact absurd hf (by simp [OptSamePos])
    | some l0 =>
      rw [hg', hg0] at hf
      have hin' := (get_best_some hinv' hg').1
      have hin0 := (get_best_some hinv hg0).1
      rcases hk.sound q l' hin' with hin | ⟨hqk, _⟩
      · rw [hcoh q l' l0 hin hin0 hf]
      · exact absurd hqk hq

/-- A discard lets at most the discarded record's key fall back - to nothing or to a location that
was stored for it before and is not newer than its previous result - and the discarded record is
never newer than the entry being stored. -/
theorem put_discard (c : Cfg) (thr : Int) (t : Tab) (k : Nat) (l : Loc) (d : Rec)
    (hinv : Inv c thr t) (hl : thr ≤ l.blockIndex) (hg : 0 < c.maxGet)
    (hd : (put c thr t k l).2.discarded = some d) :
    l.isOlder d.loc = false ∧
    (d.key ≠ k →
      get c thr (put c thr t k l).1 d.key = none ∨
      ∃ l' l0, get c thr (put c thr t k l).1 d.key = some l' ∧ get c thr t d.key = some l0 ∧
        InTab thr t d.key l' ∧ l0.isOlder l' = false) := by
  refine ⟨putAux_discard_le c thr c.maxPut t ⟨k, 0, l⟩ d hd, ?_⟩
  intro hdk
  have hinv' := put_inv c thr t k l hinv hl hg
  have hk := putAux_keeps c thr c.maxPut t ⟨k, 0, l⟩ hl
  change Keeps thr t (put c thr t k l).1 ⟨k, 0, l⟩ (put c thr t k l).2 at hk
  cases hg' : get c thr (put c thr t k l).1 d.key with
  | none => exact Or.inl rfl
  | some l' =>
    right
    have hin' := (get_best_some hinv' hg').1
    rcases hk.sound d.key l' hin' with hin | ⟨hqk, _⟩
    · cases hg0 : get c thr t d.key with
      | none => exact absurd hin (get_best_none hinv hg0 l')
      | some l0 => exact ⟨l', l0, rfl, rfl, hin, (get_best_some hinv hg0).2 l' hin⟩
    · exact absurd hqk hdk

/-- Self: unless the outcome discards a record of key `k`, the lookup of `k` afterwards yields a
location that is not older than `l` and not older than the previous result, and that is either `l`
or was stored for `k` before - i.e. the newer of the two. -/
theorem put_self (c : Cfg) (thr : Int) (t : Tab) (k : Nat) (l : Loc)
    (hinv : Inv c thr t) (hl : thr ≤ l.blockIndex) (hg : 0 < c.maxGet)
    (hnd : ∀ d, (put c thr t k l).2.discarded = some d → d.key ≠ k) :
    ∃ l', get c thr (put c thr t k l).1 k = some l' ∧ l'.isOlder l = false ∧
      (∀ l0, get c thr t k = some l0 → l'.isOlder l0 = false) ∧ (l' = l ∨ InTab thr t k l') := by
  have hinv' := put_inv c thr t k l hinv hl hg
  have hk := putAux_keeps c thr c.maxPut t ⟨k, 0, l⟩ hl
  change Keeps thr t (put c thr t k l).1 ⟨k, 0, l⟩ (put c thr t k l).2 at hk
  rcases hk.complete k l (Or.inr ⟨rfl, rfl⟩) with ⟨l1, hl1, hdom1⟩ | ⟨d, hd, hdk, _⟩
  · cases hg' : get c thr (put c thr t k l).1 k with
    | none => exact absurd hl1 (get_best_none hinv' hg' l1)
    | some l' =>
      obtain ⟨hin', hmax'⟩ := get_best_some hinv' hg'
      refine ⟨l', rfl, not_older_trans hdom1 (hmax' l1 hl1), ?_, ?_⟩
      · intro l0 hg0
        have hin0 := (get_best_some hinv hg0).1
        rcases hk.complete k l0 (Or.inl hin0) with ⟨l2, hl2, hdom2⟩ | ⟨d, hd, hdk, _⟩
        · exact not_older_trans hdom2 (hmax' l2 hl2)
        · exact absurd hdk (hnd d hd)
      · rcases hk.sound k l' hin' with hin | ⟨_, hll⟩
        · exact Or.inr hin
        · exact Or.inl hll
  · exact absurd hdk (hnd d hd)

/-! ### Releasing blocks -/

/-- Raising the release threshold from `thr` to `thr'` turns a lookup result into "nothing" exactly
when it pointed into a released block, and leaves every other result untouched. -/
theorem release_exact (c : Cfg) (thr thr' : Int) (t : Tab) (k : Nat)
    (hinv : Inv c thr t) (hle : thr ≤ thr') :
    get c thr' t k = keepFrom thr' (get c thr t k) :=
  getAux_release hinv hle c.maxGet 0

/-! ### Histories -/

inductive Op
  | put (k : Nat) (l : Loc)
  | release (n : Nat)

structure St where
  thr : Int
  tab : Tab

def init : St := ⟨0, Tab.empty⟩

def step (c : Cfg) (s : St) : Op → St
  | .put k l => ⟨s.thr, (put c s.thr s.tab k l).1⟩
  | .release n => ⟨s.thr + n, s.tab⟩

def run (c : Cfg) (s : St) (ops : List Op) : St := ops.foldl (step c) s

/-- A history is well formed when every stored location lies in a block that exists at that time
(the Go code may only pass in-bounds block indices to `BlockIndexToBlockReference`). -/
def WF (c : Cfg) : St → List Op → Prop
  | _, [] => True
  | s, .put k l :: rest => s.thr ≤ l.blockIndex ∧ WF c (step c s (.put k l)) rest
  | s, .release n :: rest => WF c (step c s (.release n)) rest

theorem reachable_inv (c : Cfg) (hg : 0 < c.maxGet) : ∀ (ops : List Op) (s : St),
    Inv c s.thr s.tab → WF c s ops → Inv c (run c s ops).thr (run c s ops).tab := by
  intro ops
  induction ops with
  | nil => intro s h _; exact h
  | cons op rest ih =>
    intro s hinv hwf
    cases op with
    | put k l =>
      obtain ⟨hl, hwf'⟩ := hwf
      exact ih _ (put_inv c s.thr s.tab k l hinv hl hg) hwf'
    | release n =>
      exact ih _ (inv_release hinv (by simp [step]; omega)) hwf

/-- Every record in the table after a history was stored by a `put` of that history (or was there
before it), for the same key and with the same location. -/
theorem run_stored (c : Cfg) : ∀ (ops : List Op) (s : St) (q : Nat) (l : Loc),
    RawIn (run c s ops).tab q l → RawIn s.tab q l ∨ Op.put q l ∈ ops := by
  intro ops
  induction ops with
  | nil => intro s q l h; exact Or.inl h
  | cons op rest ih =>
    intro s q l h
    rcases ih (step c s op) q l h with h1 | h1
    · cases op with
      | put k l0 =>
        rcases putAux_raw c s.thr c.maxPut s.tab ⟨k, 0, l0⟩ q l h1 with h2 | ⟨hq, hl⟩
        · exact Or.inl h2
        · right; subst hq; subst hl; exact List.mem_cons_self
      | release n => exact Or.inl h1
    · exact Or.inr (List.mem_cons_of_mem _ h1)

/-- History-level soundness: starting from the empty table, whatever a lookup returns after any
well-formed history of stores and releases was stored for exactly that key by an operation of the
history, lies in a block that has not been released, and no live record of the key is newer. -/
theorem history_sound (c : Cfg) (hg : 0 < c.maxGet) (ops : List Op) (hwf : WF c init ops) (q : Nat) (l : Loc)
    (h : get c (run c init ops).thr (run c init ops).tab q = some l) :
    Op.put q l ∈ ops ∧ (run c init ops).thr ≤ l.blockIndex ∧
    ∀ l', InTab (run c init ops).thr (run c init ops).tab q l' → l.isOlder l' = false := by
  have hinv := reachable_inv c hg ops init (inv_empty c 0) hwf
  obtain ⟨s, R, hR, hk, hl, hlive⟩ := get_sound c _ _ q l h
  refine ⟨?_, hlive, get_newest c _ _ q l hinv h⟩
  rcases run_stored c ops init q l ⟨s, R, hR, hk, hl⟩ with ⟨_, _, h0, _⟩ | h1
  · simp [init, Tab.empty] at h0
  · exact h1

/-! ### Non-vacuity: the hypotheses are met by a concrete colliding table -/

/-- Two slots, every key hashes to slot `attempt % 2`. -/
def exCfg : Cfg := ⟨fun _ a => a % 2, 2, 4⟩
def exOps : List Op := [.put 1 ⟨0, 0, 5⟩, .put 2 ⟨0, 5, 3⟩, .put 3 ⟨1, 0, 1⟩, .release 1, .put 4 ⟨1, 1, 2⟩]

example : WF exCfg init exOps := by simp [WF, exOps, init, step]
example : get exCfg (run exCfg init exOps).thr (run exCfg init exOps).tab 4 = some ⟨1, 1, 2⟩ := by decide
example : ((put exCfg 0 (run exCfg init (exOps.take 2)).tab 3 ⟨1, 0, 1⟩).2.discarded.map (·.key)) = some 1 := by decide

end BB.C06
