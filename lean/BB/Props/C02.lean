import BB.Proofs.PersistFull2
import BB.Proofs.PersistRetry
/-!
# C02 - After a crash and restart no object is served with wrong bytes

The model (`BB.Persist`, files `BB/Model/Persist*.lean`) is the flat local store over a crashable
medium; a *history* is any sequence of steps (`BB.Persist.Step`): lock regions of uploads and
refreshes, block rotations, every lock region and I/O operation of both `PeriodicSyncer`
goroutines (including failing syncs and directory operations), and `crashRestart` with an arbitrary
subset of the unsynced sector writes, an arbitrary subset of the index record writes and any state
file that was not yet made durable - any number of times, in any interleaving.  `Reach c w` says that
`w` is the world after some history from a freshly formatted medium with geometry `c`.

Assumptions, each visible in the model: **A1** lock regions are atomic (one step per region);
**A2** sector writes are atomic and `Sync()` makes durable exactly the writes issued before it was
entered (`DataDev.syncBegin/syncEnd/crash`); **A3** epoch seeds are pairwise distinct and a record
checksummed under one seed does not verify under another (seeds are tokens from a counter that
survives crashes; `resolve` compares tokens); **A4** a renamed file has the content that was fsynced
before the rename and renames since the last directory fsync may be lost (`StateDir`).
Object contents are tokens; a sector holds the set of objects whose bytes of that sector it carries.
-/
namespace BB.C02
open BB.Persist

/-- **Main theorem (world level).** In the world after *any* history - with any crash choices, any
number of crashes, also during recovery (a restart writes nothing, so a crash during recovery is a
`crashRestart` with nothing pending) - every index record that the running store resolves (known
epoch, matching seed, block in the list) is read back as an intact object that was written under
the record's own key, with content some client offered for that key.  Uses A1-A4. -/
theorem C02_served_bytes_correct {c : Cfg} (hss : 0 < c.ss) {w : World} (hr : Reach c w) {slot i : Nat} {r : PRec}
    (hcur : w.idx.curGet slot = some r) (hres : w.resolve r = some i) :
    ∃ b o, w.pbl.blocks[i]? = some b ∧ w.readAt b.slot r.off r.size = some o ∧
      o.key = r.key ∧ o.off = r.off ∧ o.size = r.size ∧ (r.key, o.data) ∈ w.shadow := by
  obtain ⟨b, o, h1, h2, _, h4, h5, h6, _, h8, _⟩ := served_of_inv (inv_reach hss hr) hcur hres
  exact ⟨b, o, h1, h2, h4, h5, h6, h8⟩

/-- **Main theorem (executable store).** The same for the composite the driver executes:
`hashingKeyLocationMap` (any slot function, any attempt limits) and the block map over the world.
`lookup` + `read` after any run of the store yields what was uploaded for the key, or nothing. -/
theorem C02_served_bytes_correct_store {fc : FCfg} {c : Cfg} (hss : 0 < c.ss) {f : Full} (hr : FReach fc c f) {k : Nat}
    {l : BB.Store.Loc} (hl : Full.lookup fc f k = some l) :
    ∃ b o, f.w.pbl.blocks[BB.Store.locBlk l - f.w.pbl.released]? = some b ∧
      f.w.readAt b.slot (BB.Store.locOff l) (BB.Store.locSize l) = some o ∧ o.key = k ∧ (k, o.data) ∈ f.w.shadow := by
  have hreach := freach_world hss hr
  unfold Full.lookup Index.get at hl
  obtain ⟨a', _, _, ⟨R, hR, _, hk, _, hloc⟩, _⟩ := (BB.Index.getAux_spec fc.idx f.thr f.tab k fc.idx.maxGet 0).1 l hl
  obtain ⟨r, i, hc, hres, rfl⟩ := tab_some hR
  obtain ⟨b, o, h1, h2, h4, _, _, h8⟩ := C02_served_bytes_correct hss hreach hc hres
  simp only at hk hloc
  subst hloc
  refine ⟨b, o, ?_, ?_, by rw [h4, hk], by rw [← hk]; exact h8⟩
  · simpa [BB.Store.locBlk_mkLoc] using h1
  · simpa [BB.Store.locOff_mkLoc, BB.Store.locSize_mkLoc] using h2

/-- **Epochs are covered.** An epoch appears in a state file (durable, renamed but not yet
directory-synced, or being written) only if every object finalized in it is `durable` - a flag the
model sets only when a data sync returns for objects that were copied before that sync was entered
(`syncBegin` marks, `syncEnd` promotes) - and lies below the file's write offset of its block.
Hence every finalize that tagged a record with the epoch happened before the `NotifySyncStarting`
of a data sync that completed before `GetPersistentState` was taken.  Uses A1, A2. -/
theorem C02_epoch_covered {c : Cfg} (hss : 0 < c.ss) {w : World} (hr : Reach c w) {f : SFile}
    (hf : f ∈ filesOf w.dir ∨ ∃ s, w.sw = some s ∧ f = s.file) {o : Obj} (ho : o ∈ w.objs) {j e : Nat} {bs : BState}
    (hbs : f.blocks[j]? = some bs) (hg : bs.gid = o.gid) (hfin : o.fin = some e)
    (hlt : e < f.oldest + (fseeds f.blocks).length) :
    o.durable = true ∧ o.off + o.size ≤ bs.wo := by
  have h := inv_reach hss hr
  rcases hf with hf | ⟨s, hs, rfl⟩
  · obtain ⟨r1, r2, _⟩ := (h.files f hf).committed o ho j bs e hbs hg hfin hlt
    exact ⟨r1, r2⟩
  · obtain ⟨r1, r2, _⟩ := (h.swFile s hs).committed o ho j bs e hbs hg hfin hlt
    exact ⟨r1, r2⟩

/-- What `durable` buys (A2): in every sector of the object, the durable medium carries the
object's bytes and so does every pending write to that sector - so they survive a crash with any
subset of the pending writes. -/
theorem C02_durable_survives {c : Cfg} (hss : 0 < c.ss) {w : World} (hr : Reach c w) {o : Obj} (ho : o ∈ w.objs)
    (hd : o.durable = true) {b : Blk} (hb : b ∈ w.pbl.blocks ++ w.pbl.toRelease) (hg : b.gid = o.gid) {s : Nat}
    (hs : s ∈ secsOf w.cfg.ss o.off o.size) (keep : List Bool) :
    o.id ∈ (w.data.crash keep).durGet o.slot s := by
  have h := inv_reach hss hr
  have hheld : ∃ b ∈ held w.pbl w.zombies, b.gid = o.gid := ⟨b, List.mem_append_left _ hb, hg⟩
  exact ((h.dev.durable o ho hd hheld s hs).crash keep).1

/-- **Records after a restart.** A record on the index device (durable or pending) resolves in the
block list a restart would build from a state file only if it describes an object of the block it
resolves to, finalized no later than the record's epoch, durable, and below the file's write
offset: its data range lies in durable sectors written by its own upload.  Uses A1-A4. -/
theorem C02_record_valid_after_restart {c : Cfg} (hss : 0 < c.ss) {w : World} (hr : Reach c w) {f : SFile}
    (hf : f ∈ filesOf w.dir) {r : PRec} (hrec : r ∈ recsOf w.idx) {i : Nat}
    (hres : (f.pbl w.cfg.ss).refToIdx r.epoch r.bfl = some (i, r.seed)) :
    ∃ bs o, f.blocks[i]? = some bs ∧ o ∈ w.objs ∧ o.gid = bs.gid ∧ o.key = r.key ∧ o.off = r.off ∧ o.size = r.size ∧
      o.durable = true ∧ o.off + o.size ≤ bs.wo := by
  have h := inv_reach hss hr
  have hfi := h.files f hf
  obtain ⟨bs, o, hbs, ho, hg, hm⟩ := hfi.res r hrec i hres
  obtain ⟨hk, hoff, hsz, _, e, hfin, hle⟩ := hm
  have hlt : e < f.oldest + (fseeds f.blocks).length := by
    obtain ⟨h0, _, h1, _⟩ := (refToIdx_iff _ _ _ _ _).1 hres
    have := (List.getElem?_eq_some_iff.1 h1).1
    simp only [SFile.pbl] at h0 this
    omega
  obtain ⟨r1, r2, _⟩ := hfi.committed o ho i bs e hbs hg.symm hfin hlt
  exact ⟨bs, o, hbs, ho, hg, hk, hoff, hsz, r1, r2⟩

/-- **No overwrite after restart.** (1) Every object restored by a restart ends at or below the
cursor its block was re-attached with (`⌈write offset / sector⌉ · sector`), every object the
running process allocates in that block starts at or above it, and the cursor is sector aligned: no
sector write of the running process touches a sector of a restored object.  (2) The slot of every
block that a state file a restart may still read refers to is not in the allocator's free list.
Uses A1, A4. -/
theorem C02_no_overwrite_after_restart {c : Cfg} (hss : 0 < c.ss) {w : World} (hr : Reach c w) :
    (∀ o ∈ w.objs, ∀ n ∈ w.objs, o.mine = false → n.mine = true → ∀ b ∈ held w.pbl w.zombies, b.gid = o.gid → b.gid = n.gid →
      ∀ s, s ∈ secsOf w.cfg.ss o.off o.size → s ∉ secsOf w.cfg.ss n.off n.size) ∧
    (∀ f ∈ filesOf w.dir, ∀ bs ∈ f.blocks, bs.slot ∉ w.free) := by
  have h := inv_reach hss hr
  refine ⟨?_, ?_⟩
  · intro o ho n hn hom hnm b hb hgo hgn s hs1 hs2
    exact secs_disjoint h.cfg (h.obj.aligned b hb) ((h.obj.restored o ho hom).2.2 b hb hgo) (h.obj.baseLe n hn hnm b hb hgn) hs1 hs2
  · intro f hf bs hbs hfree
    obtain ⟨b, hb, _, g2⟩ := (h.files f hf).heldIn bs hbs
    have hn := h.own.slots
    rw [List.nodup_append] at hn
    refine hn.2.2 b.slot (List.mem_map.2 ⟨b, ?_, rfl⟩) bs.slot hfree g2
    unfold held
    rcases List.mem_append.1 hb with hb | hb
    · exact List.mem_append_left _ (List.mem_append_left _ hb)
    · exact List.mem_append_left _ (List.mem_append_right _ hb)

/-- **A failed data sync is retried, not treated as completed** - the regular one and the final one
of a shutdown alike (`f` is `isFinalSync`).  After `dataSyncer()` returned an error the syncer of
the model is back before the sync with the same flag and an unchanged block list; it cannot call
`NotifySyncCompleted`, cannot start its state write, cannot begin the next iteration: all it can do
is call `dataSyncer()` again.  (This is the line of `notifyAndSyncDataLocked` the correspondence run
checks step by step, with failing syncs injected into regular and final syncs.) -/
theorem C02_failed_sync_retried {w w' : World} (hf : w.syncFail = some w') :
    ∃ f, w.g1 = .syncing f ∧ w'.g1 = .started f ∧ w'.pbl = w.pbl ∧
      (∀ sd, w'.g1Completed sd = none) ∧ w'.syncEnd = none ∧ w'.g1Start = none ∧ w'.swBegin 1 = none ∧
      ∃ w'', w'.syncBegin = some w'' ∧ w''.g1 = .syncing f := by
  obtain ⟨f, a1, a2, a3, _, _, a6, a7, a8, a9, a10⟩ := syncFail_retries hf
  exact ⟨f, a1, a2, a3, a6, a7, a8, a9, a10⟩

/-- **What `NotifySyncCompleted` exposes is durable.** Whenever the syncer is about to call
`NotifySyncCompleted` (after a regular or a final sync, in any reachable world, however many syncs
failed before), the data sync that returned last returned nil, and every object finalized in an
epoch the call is going to expose - the epochs and offsets the next state file may list - was
copied before a data sync that completed was entered.  Uses A1, A2. -/
theorem C02_completed_exposes_only_durable {c : Cfg} (hss : 0 < c.ss) {w w' : World} (hr : Reach c w) {sd : Bool}
    (hg : w.g1Completed sd = some w') :
    (∃ f, w.g1 = .synced f) ∧
    ∀ o ∈ w.objs, ∀ b ∈ w.pbl.blocks, ∀ e, b.gid = o.gid → o.fin = some e →
      e < w.pbl.oldestEpoch + w.pbl.syncingEpochs → o.durable = true ∧ o.off + o.size ≤ b.syncing := by
  obtain ⟨f, hf⟩ := g1Completed_synced hg
  refine ⟨⟨f, hf⟩, ?_⟩
  intro o ho b hb e hgid hfin hlt
  obtain ⟨r1, _, r3⟩ := (inv_reach hss hr).epoch.syncing o ho b hb e hgid hfin hlt
  exact ⟨r3 f hf, r1⟩

/-! ## The hypotheses are satisfiable: a concrete history

Geometry: 4-byte sectors, 8-byte blocks, 3 blocks.  One upload of 5 bytes under key 7 (content
token 100), its index record, a full commit by `ProcessBlockPut` (data sync, state file written and
made durable, `NotifyPersistentStateWritten`), then a crash that keeps the pending index record, and a
restart. -/
namespace Example

def c : Cfg := ⟨4, 8, 3⟩
def w0 : World := World.fresh c
def w1 : World := (w0.pushBack).getD w0
def w2 : World := match w1.reserve 0 5 7 true with | .ok _ w => w | _ => w1
def w3 : World := (w2.copy 0 100).getD w2
def w4 : World := match w3.finalize 0 with | .ok w => w | _ => w3
def w5 : World := (w4.recWrite 2 7 0 0 0 5).getD w4
def w6 : World := (w5.g1Start).getD w5
def w7 : World := (w6.syncBegin).getD w6
def w8 : World := (w7.syncEnd).getD w7
def w9 : World := (w8.g1Completed false).getD w8
def w10 : World := (w9.swBegin 1).getD w9
def w11 : World := (w10.swStep).getD w10
def w12 : World := (w11.swStep).getD w11
def w13 : World := (w12.swStep).getD w12
def w14 : World := (w13.swStep).getD w13
def w15 : World := (w14.swStep).getD w14
def w16 : World := (w15.swStep).getD w15
def w17 : World := (w16.swDone).getD w16
def w18 : World := w17.crashRestart [] [true] 0 false

def o0 : Obj := ⟨0, 0, 0, 0, 5, 7, 0, true, 0, false, true, none, false, false⟩

theorem reach17 : Reach c w17 := by
  have r0 : Reach c w0 := Reach.init
  have r1 : Reach c w1 := Reach.step r0 (Step.pushBack (w' := w1) (by rfl))
  have r2 : Reach c w2 := Reach.step r1 (Step.reserve (o := o0) (w' := w2) (i := 0) (size := 5) (key := 7) (upload := true) (by rfl))
  have r3 : Reach c w3 := Reach.step r2 (Step.copy (o := o0) (id := 0) (data := 100) (w' := w3) (by rfl) rfl (by rfl))
  have r4 : Reach c w4 := Reach.step r3 (Step.finalize (id := 0) (w' := w4) (by rfl))
  have r5 : Reach c w5 := Reach.step r4 (Step.recWrite (w := w4) (w' := w5) (slot := 2) (key := 7) (att := 0) (abs := 0) (off := 0)
    (size := 5) (o := { o0 with data := 100, copied := true, fin := some 1 })
    (b := { gid := 0, slot := 0, cursor := 5, written := 5, epochCount := 1 })
    (by decide) rfl rfl rfl rfl (by decide) (by rfl) rfl (by rfl))
  have r6 : Reach c w6 := Reach.step r5 (Step.g1Start (w' := w6) (by rfl))
  have r7 : Reach c w7 := Reach.step r6 (Step.syncBegin (w' := w7) (by rfl))
  have r8 : Reach c w8 := Reach.step r7 (Step.syncEnd (w' := w8) (by rfl))
  have r9 : Reach c w9 := Reach.step r8 (Step.g1Completed (shutdown := false) (w' := w9) (by rfl))
  have r10 : Reach c w10 := Reach.step r9 (Step.swBegin (owner := 1) (w' := w10) (by rfl))
  have r11 : Reach c w11 := Reach.step r10 (Step.swStep (w' := w11) (by rfl))
  have r12 : Reach c w12 := Reach.step r11 (Step.swStep (w' := w12) (by rfl))
  have r13 : Reach c w13 := Reach.step r12 (Step.swStep (w' := w13) (by rfl))
  have r14 : Reach c w14 := Reach.step r13 (Step.swStep (w' := w14) (by rfl))
  have r15 : Reach c w15 := Reach.step r14 (Step.swStep (w' := w15) (by rfl))
  have r16 : Reach c w16 := Reach.step r15 (Step.swStep (w' := w16) (by rfl))
  exact Reach.step r16 (Step.swDone (w' := w17) (by rfl))

theorem reach18 : Reach c w18 := Reach.step reach17 (Step.crashRestart [] [true] 0 false)

/-- `C02_served_bytes_correct`: after the crash the record of key 7 resolves (block 0). -/
example : w18.idx.curGet 2 = some ⟨1, 0, 7, 0, 0, 5, 1⟩ ∧ w18.resolve ⟨1, 0, 7, 0, 0, 5, 1⟩ = some 0 := ⟨by rfl, by rfl⟩

/-- ... and is served with the uploaded content (what the theorem promises, computed). -/
example : (w18.readAt 0 0 5).map (·.data) = some 100 := by rfl

/-- `C02_epoch_covered`, `C02_record_valid_after_restart`: the durable state file lists epoch 1 in
block 0, and the object was finalized in it. -/
example : ∃ f bs o, f ∈ filesOf w17.dir ∧ f.blocks[0]? = some bs ∧ o ∈ w17.objs ∧ bs.gid = o.gid ∧ o.fin = some 1 ∧
    1 < f.oldest + (fseeds f.blocks).length :=
  ⟨⟨1, [⟨0, 0, 5, [1]⟩]⟩, ⟨0, 0, 5, [1]⟩, { o0 with data := 100, copied := true, fin := some 1, durable := true },
    by decide, by rfl, by decide, rfl, rfl, by decide⟩

example : (⟨1, 0, 7, 0, 0, 5, 1⟩ : PRec) ∈ recsOf w17.idx ∧
    ((⟨1, [⟨0, 0, 5, [1]⟩]⟩ : SFile).pbl 4).refToIdx 1 0 = some (0, 1) := ⟨by decide, by rfl⟩

/-- `C02_no_overwrite_after_restart`: after the restart the object is a restored one, its block is
held with attach cursor 8 = ⌈5/4⌉·4. -/
example : ∃ o ∈ w18.objs, o.mine = false ∧ ∃ b ∈ held w18.pbl w18.zombies, b.gid = o.gid ∧ b.base = 8 :=
  ⟨_, List.mem_cons_self, rfl, _, List.mem_cons_self, rfl, rfl⟩

/-- `C02_failed_sync_retried`: the data sync of `w7` may fail; `C02_completed_exposes_only_durable`:
`w8` is about to call `NotifySyncCompleted`, exposing epoch 1 with the object finalized in it. -/
example : (∃ w', w7.syncFail = some w') ∧ w8.g1Completed false = some w9 ∧
    ∃ o ∈ w8.objs, o.fin = some 1 ∧ 1 < w8.pbl.oldestEpoch + w8.pbl.syncingEpochs :=
  ⟨⟨_, rfl⟩, by rfl, _, List.mem_cons_self, rfl, by decide⟩

end Example

end BB.C02
