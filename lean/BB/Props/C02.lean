import BB.Model.PersistStore
/-! # C02 (theorems follow) -/
namespace BB.C02
end BB.C02
